(* C13 - Backend configuration after any reload equals a fresh start, and never blocks.
   Only statements here; proofs are in proofs/BackendCfg_proofs.v and
   proofs/BackendLocks_proofs.v.  `up` is the url.Parse oracle: every theorem
   holds for every function from strings to parse results. *)
From Coq Require Import List ZArith NArith Bool String.
From Verif Require Import gen.LockProgs model.BackendCfg model.BackendLocks corr.Run_C13
  proofs.BackendCfg_proofs proofs.BackendCfg_owner proofs.BackendLocks_proofs.
Import ListNotations.
Local Open Scope string_scope.

(* ---- static storage ------------------------------------------------------------------

   Full statement: for every configuration c0 and every chain cs of reloaded
   configurations, every lookup on the reloaded server answers like a server
   freshly started with the last configuration.
   PARTIAL: proved for chains of configurations that use the `backends` list
   (new_style c: allowall is off, and `allowed` is empty when the list is empty).
   What is missing: chains that enter or leave the deprecated modes - refuted for
   the current code by C13_reload_deprecated_mode_refuted (open finding
   C13/static/reload/deprecated-mode; the code logs "reload is not supported"). *)
Theorem C13_reload_eq_fresh_partial : forall up c0 cs,
  Forall new_style (c0 :: cs) ->
  exists st, run_chain up c0 cs = Some st /\ lookup_equiv_static up st (fresh up (last cs c0)).
Proof. exact reload_eq_fresh. Qed.

(* stronger: not only the lookups, the whole table is that of a fresh start *)
Theorem C13_reload_eq_fresh_table_partial : forall up c0 cs,
  Forall new_style (c0 :: cs) ->
  exists st, run_chain up c0 cs = Some st /\ state_eq st (fresh up (last cs c0)).
Proof. exact reload_eq_fresh_state. Qed.

(* a URL the final configuration does not cover is refused after the chain *)
Theorem C13_removed_url_refused_partial : forall up c0 cs probe,
  Forall new_style (c0 :: cs) ->
  lookup_static up (fresh up (last cs c0)) probe = LRes None ->
  exists st, run_chain up c0 cs = Some st /\ lookup_static up st probe = LRes None.
Proof. exact removed_url_refused. Qed.

(* what is accepted after the chain is a backend of the final configuration: built
   from an id of its list and that id's section, for the host of the URL, with an
   allowed scheme and a url that is a prefix of the looked-up URL *)
Theorem C13_accepted_only_if_configured_partial : forall up c0 cs st probe b,
  Forall new_style (c0 :: cs) -> run_chain up c0 cs = Some st ->
  lookup_static up st probe = LRes (Some b) ->
  exists p, up probe = Some p /\ configured_backend up (last cs c0) (n_host p) b /\
            is_url_allowed b (p_scheme p) = true /\ String.prefix (b_url b) (add_slash (n_str p)) = true.
Proof. exact accepted_only_if_configured. Qed.

(* Reloading never panics: every state, every configuration (deprecated modes too), every chain *)
Theorem C13_reload_no_panic : forall up st c, reload up st c <> None.
Proof. exact reload_no_panic. Qed.
Theorem C13_chain_no_panic : forall up c0 cs, run_chain up c0 cs <> None.
Proof. exact run_chain_no_panic. Qed.

(* the property as trace predicate, for every history of starts, reloads and lookups *)
Theorem C13_static_trace_partial : forall up ops,
  Forall new_style (flat_map op_config ops) -> P_C13 (mtrace_static up None ops) = true.
Proof. exact static_trace. Qed.
Theorem C13_static_trace_no_panic : forall up ops st, ~ In VPanic (map snd (mtrace_static up st ops)).
Proof. exact static_trace_no_panic. Qed.

(* ---- etcd storage: every sequence of put / delete events, no hypothesis ----------------- *)
Theorem C13_etcd_eq_fresh : forall up evs,
  lookup_equiv_etcd up (run_etcd up evs) (fresh_etcd up (final_kv evs)).
Proof. exact etcd_eq_fresh_equiv. Qed.
Theorem C13_etcd_eq_fresh_table : forall up evs h,
  es_tab (run_etcd up evs) h = es_tab (fresh_etcd up (final_kv evs)) h.
Proof. exact etcd_eq_fresh_table. Qed.
(* what is accepted is the accepted value of a key etcd still holds *)
Theorem C13_etcd_accepted_only_if_live : forall up evs probe b,
  lookup_etcd up (run_etcd up evs) probe = LRes (Some b) ->
  exists p, up probe = Some p /\ live up evs (b_id b) = Some (n_host p, b) /\
            is_url_allowed b (p_scheme p) = true /\ String.prefix (b_url b) (add_slash (n_str p)) = true.
Proof. exact etcd_accepted_only_if_live. Qed.
Theorem C13_etcd_deleted_refused : forall up evs k probe b,
  lookup_etcd up (run_etcd up (evs ++ [EDel k])) probe = LRes (Some b) -> b_id b <> k.
Proof. exact etcd_deleted_refused. Qed.
(* no list in the table is empty (precondition of make(.., len(entries)-1) in the removal) *)
Theorem C13_etcd_lists_nonempty : forall up evs h l, es_tab (run_etcd up evs) h = Some l -> l <> [].
Proof. exact etcd_lists_nonempty. Qed.
Theorem C13_etcd_trace : forall up ops, P_C13 (mtrace_etcd up einit [] ops) = true.
Proof. exact etcd_trace. Qed.

(* ---- second clause of the trace predicate: an accepted URL belongs to its backend ------------
   (corr/Run_C13.v, Section Owner: the configured URL of the backend an answer names,
   slash-terminated, is a prefix of the looked-up URL, slash-terminated - the lookup
   stops at a path-segment boundary; checked on the running and on the fresh answer).
   [slash_stable up] is the one assumption on the url.Parse oracle: String() of a URL
   whose text ends in "/" ends in "/" (used only where a standard port is dropped).

   Static storage: every history of new-style configurations (the static storage
   appends the "/" itself). *)
Theorem C13_static_owner_trace_partial : forall up, slash_stable up -> forall ops,
  Forall new_style (flat_map op_config ops) -> owner_static up [] (mtrace_static up None ops) = true.
Proof. exact owner_static_trace. Qed.

(* Etcd storage.  Full statement: for every history of events and lookups.
   PARTIAL: proved for histories in which the URL of every value written ends in "/".
   What is missing is exactly the rest: the etcd storage keeps the URL as written
   (BackendInformationEtcd.CheckValid appends nothing), so a value
   {"url": "https://cloud.example/nextcloud"} - the form of the example in
   server.conf.in - also accepts https://cloud.example/nextcloud-test/...: refuted
   by C13_etcd_owner_refuted (open finding C13/etcd/url-without-trailing-slash). *)
Theorem C13_etcd_owner_trace_partial : forall up, slash_stable up -> forall ops,
  Forall put_slashed ops -> owner_etcd up [] (mtrace_etcd up einit [] ops) = true.
Proof. exact owner_etcd_trace. Qed.

Theorem C13_etcd_owner_refuted : exists up ops,
  slash_stable up /\ P_C13 (mtrace_etcd up einit [] ops) = true /\
  owner_etcd up [] (mtrace_etcd up einit [] ops) = false.
Proof.
  exists own_up, own_ops. destruct etcd_owner_refuted as (H1 & _ & H2 & H3). auto.
Qed.

(* ---- lookups and reloads running concurrently always complete ------------------------------
   General lemma: threads running non-reentrant lock programs on one RWMutex
   (a pending writer blocks new readers) under ANY schedule: the state reached
   is never a deadlock, a state where no thread can move has all threads done,
   and no schedule takes more than 2 steps per lock operation. *)
Theorem C13_non_reentrant_progs_complete : forall ps, forallb non_reentrant ps = true ->
  forall sched,
    let s := run sched (init ps) in
    (all_done s = true \/ exists tid, tid < List.length ps /\ enabled s tid = true) /\
    deadlocked s = false /\
    ((forall tid, enabled s tid = false) -> all_done s = true) /\
    effective sched (init ps) <= budget ps.
Proof. exact non_reentrant_progs_complete. Qed.

(* Per-run obligation on the lock programs the translator extracted from the
   current source (gen/LockProgs.v): every entry point of both storages and of
   BackendConfiguration is non-reentrant, and the expected entry points are there. *)
Theorem C13_generated_progs_non_reentrant : forallb non_reentrant generated_progs = true.
Proof. vm_compute. reflexivity. Qed.
Theorem C13_generated_entry_points :
  map fst c13_locks_static = ["GetBackend"; "GetBackends"; "GetCompatBackend"; "Reload"; "Close"] /\
  map fst c13_locks_etcd = ["GetBackend"; "GetBackends"; "GetCompatBackend"; "Reload"; "EtcdKeyUpdated"; "EtcdKeyDeleted"] /\
  map fst c13_locks_config_static = ["GetBackend"; "GetBackends"; "GetCompatBackend"; "IsUrlAllowed"; "GetSecret"; "Reload"] /\
  map fst c13_locks_config_etcd = ["GetBackend"; "GetBackends"; "GetCompatBackend"; "IsUrlAllowed"; "GetSecret"; "Reload"] /\
  In ("Reload", [Lock; Unlock]) c13_locks_static /\ In ("GetBackend", [RLock; RUnlock]) c13_locks_config_static /\
  In ("EtcdKeyDeleted", [Lock; Unlock]) c13_locks_etcd /\ In ("GetBackend", [RLock; RUnlock]) c13_locks_config_etcd.
Proof. vm_compute. repeat split; auto 10. Qed.
(* goroutines call the entry points again and again, in any order *)
Theorem C13_call_sequences_non_reentrant : forall calls : list (list (list lockop)),
  (forall cs p, In cs calls -> In p cs -> In p generated_progs) ->
  forallb non_reentrant (map (@List.concat lockop) calls) = true.
Proof. exact (fun calls => call_sequences_non_reentrant generated_progs calls C13_generated_progs_non_reentrant). Qed.

(* ---- refutations: the code as it was (faithful model with Go's slice semantics) ------------ *)
Theorem C13_reload_unrepaired_panics_refuted : exists up c0 c1, run_chain_unrepaired up c0 [c1] = None.
Proof. exact (ex_intro _ wit_up (ex_intro _ wit_abc (ex_intro _ wit_c unrepaired_reload_panics))). Qed.
Theorem C13_reload_unrepaired_order_refuted : exists up c0 c1 st probe,
  new_style c0 /\ new_style c1 /\ run_chain_unrepaired up c0 [c1] = Some st /\
  answer_of (lookup_static up st probe) <> answer_of (lookup_static up (fresh up c1) probe).
Proof.
  destruct unrepaired_reload_order as (st & H1 & H2).
  exists wit_up, wit_B, wit_AB, st, "https://h1.example/a/b/x". repeat split; try discriminate; auto.
Qed.
Theorem C13_reload_unrepaired_empty_list_refuted : exists up c0 c1 st probe,
  new_style c0 /\ new_style c1 /\ run_chain_unrepaired up c0 [c1] = Some st /\
  answer_of (lookup_static up st probe) <> answer_of (lookup_static up (fresh up c1) probe).
Proof.
  destruct unrepaired_reload_empty_list as (st & H1 & H2).
  exists wit_up, wit_a, wit_none, st, "https://h1.example/a/x". repeat split; try discriminate; auto.
Qed.
Theorem C13_etcd_unrepaired_host_change_refuted : exists up evs probe,
  answer_of (lookup_etcd up (run_etcd_unrepaired up evs) probe) <>
  answer_of (lookup_etcd up (fresh_etcd_unrepaired up (final_kv evs)) probe).
Proof. exact unrepaired_etcd_host_change. Qed.
Theorem C13_etcd_unrepaired_invalid_over_valid_refuted : exists up evs probe,
  answer_of (lookup_etcd up (run_etcd_unrepaired up evs) probe) <>
  answer_of (lookup_etcd up (fresh_etcd_unrepaired up (final_kv evs)) probe).
Proof. exact unrepaired_etcd_invalid_over_valid. Qed.
Theorem C13_etcd_unrepaired_order_refuted : exists up evs probe,
  answer_of (lookup_etcd up (run_etcd_unrepaired up evs) probe) <>
  answer_of (lookup_etcd up (fresh_etcd_unrepaired up (final_kv evs)) probe).
Proof. exact unrepaired_etcd_order. Qed.
Theorem C13_reentrant_rlock_can_deadlock : exists sched,
  deadlocked (run sched (init [unrepaired_GetBackend; unrepaired_Reload])) = true.
Proof. exact (ex_intro _ [0; 1] reentrant_deadlock). Qed.

(* ---- refutation for the CURRENT code: the open finding ------------------------------------------ *)
Theorem C13_reload_deprecated_mode_refuted : exists up c0 c1 st probe,
  run_chain up c0 [c1] = Some st /\
  answer_of (lookup_static up st probe) <> answer_of (lookup_static up (fresh up c1) probe).
Proof.
  destruct reload_deprecated_mode as (st & H1 & H2 & _).
  exists wit_up, wit_old, wit_h2, st, "https://h1.example/x". auto.
Qed.

(* ---- non-vacuity ----------------------------------------------------------------------------------- *)
(* a chain that meets new_style: three backends on a host reloaded to one (the
   history that used to panic), then to the empty list, then to two backends
   with overlapping prefixes; afterwards one URL is accepted and one refused *)
Example C13_new_style_nonvacuous :
  Forall new_style [wit_abc; wit_c; wit_none; wit_AB] /\
  exists st, run_chain wit_up wit_abc [wit_c; wit_none; wit_AB] = Some st /\
    answer_of (lookup_static wit_up st "https://h1.example/a/b/x") = ASome (1%N, 1%N, 0%Z, 0%Z, 0%Z, false) /\
    answer_of (lookup_static wit_up st "https://h1.example/x") = ANone.
Proof. split; [exact new_style_witness|exact new_style_witness_answers]. Qed.
(* the model trace of an etcd history contains accepted and refused lookups *)
Example C13_etcd_trace_nonvacuous :
  map snd (mtrace_etcd wit_up einit []
    [OEvent (EPut 1 (wit_e "https://h1.example/a/" 1)); OProbe "https://h1.example/a/x";
     OEvent (EPut 1 (wit_e "https://h2.example/a/" 2)); OProbe "https://h1.example/a/x"; OProbe "https://h2.example/a/x"]) =
  [VOk; VAns (ASome (1%N, 1%N, 0%Z, 0%Z, 0%Z, false)) (ASome (1%N, 1%N, 0%Z, 0%Z, 0%Z, false));
   VOk; VAns ANone ANone; VAns (ASome (1%N, 2%N, 0%Z, 0%Z, 0%Z, false)) (ASome (1%N, 2%N, 0%Z, 0%Z, 0%Z, false))].
Proof. vm_compute. reflexivity. Qed.
(* the second clause on real work: two backends whose paths share a string prefix but not a
   path prefix, listed in both orders; every URL is accepted for its own backend only *)
Example C13_owner_nonvacuous :
  Forall new_style (flat_map op_config seg_ops) /\
  map snd (mtrace_static seg_up None seg_ops) =
    [VOk; VAns (ASome (2%N, 2%N, 0%Z, 0%Z, 0%Z, false)) (ASome (2%N, 2%N, 0%Z, 0%Z, 0%Z, false));
     VAns (ASome (1%N, 1%N, 0%Z, 0%Z, 0%Z, false)) (ASome (1%N, 1%N, 0%Z, 0%Z, 0%Z, false));
     VAns ANone ANone; VOk;
     VAns (ASome (2%N, 2%N, 0%Z, 0%Z, 0%Z, false)) (ASome (2%N, 2%N, 0%Z, 0%Z, 0%Z, false));
     VAns (ASome (1%N, 1%N, 0%Z, 0%Z, 0%Z, false)) (ASome (1%N, 1%N, 0%Z, 0%Z, 0%Z, false))] /\
  owner_static seg_up [] (mtrace_static seg_up None seg_ops) = true.
Proof. exact seg_example. Qed.
(* the etcd witness: accepted for key 1 although the URL is not below key 1's URL; with the
   trailing slash written the same lookup is refused *)
Example C13_etcd_owner_witness :
  map snd (mtrace_etcd own_up einit [] own_ops) =
    [VOk; VAns (ASome (1%N, 1%N, 0%Z, 0%Z, 0%Z, false)) (ASome (1%N, 1%N, 0%Z, 0%Z, 0%Z, false))] /\
  map snd (mtrace_etcd own_up einit []
    [OEvent (EPut 1 (Some (mkE "https://cloud.example/nextcloud/" 1 0 0 0)));
     OProbe "https://cloud.example/nextcloud-test/ocs/v2.php"]) = [VOk; VAns ANone ANone].
Proof. split; [exact (proj1 (proj2 etcd_owner_refuted))|exact etcd_owner_slashed_example]. Qed.
(* the lock theorem applies to real work: 3 lookups and 2 reloads complete under this schedule *)
Example C13_locks_nonvacuous :
  all_done (run [0;1;3;2;0;1;3;3;4;2;4;4;2;2] (init [[RLock; RUnlock]; [RLock; RUnlock]; [RLock; RUnlock]; [Lock; Unlock]; [Lock; Unlock]])) = true.
Proof. vm_compute. reflexivity. Qed.

Print Assumptions C13_reload_eq_fresh_partial.
Print Assumptions C13_reload_eq_fresh_table_partial.
Print Assumptions C13_removed_url_refused_partial.
Print Assumptions C13_accepted_only_if_configured_partial.
Print Assumptions C13_reload_no_panic.
Print Assumptions C13_chain_no_panic.
Print Assumptions C13_static_trace_partial.
Print Assumptions C13_static_trace_no_panic.
Print Assumptions C13_etcd_eq_fresh.
Print Assumptions C13_etcd_eq_fresh_table.
Print Assumptions C13_etcd_accepted_only_if_live.
Print Assumptions C13_etcd_deleted_refused.
Print Assumptions C13_etcd_lists_nonempty.
Print Assumptions C13_etcd_trace.
Print Assumptions C13_static_owner_trace_partial.
Print Assumptions C13_etcd_owner_trace_partial.
Print Assumptions C13_etcd_owner_refuted.
Print Assumptions C13_non_reentrant_progs_complete.
Print Assumptions C13_generated_progs_non_reentrant.
Print Assumptions C13_generated_entry_points.
Print Assumptions C13_call_sequences_non_reentrant.
Print Assumptions C13_reload_unrepaired_panics_refuted.
Print Assumptions C13_reload_unrepaired_order_refuted.
Print Assumptions C13_reload_unrepaired_empty_list_refuted.
Print Assumptions C13_etcd_unrepaired_host_change_refuted.
Print Assumptions C13_etcd_unrepaired_invalid_over_valid_refuted.
Print Assumptions C13_etcd_unrepaired_order_refuted.
Print Assumptions C13_reentrant_rlock_can_deadlock.
Print Assumptions C13_reload_deprecated_mode_refuted.
