(* C02 — Backend requests are authenticated by per-backend HMAC in both directions.
   Only statements here; proofs are in proofs/RoomAuth_proofs.v.

   Every theorem is universally quantified over the oracles: hmac (crypto/hmac +
   sha256), url_parse (net/url), get_backend (the backend table, property C13),
   body_kind (json.Unmarshal + type switch), rand (crypto/rand).  Nothing is
   assumed about them; in particular no collision resistance: "cannot be forged"
   is stated as "acceptance implies the MAC equation", and every "unless the MACs
   collide" is explicit. *)
From Coq Require Import List ZArith NArith Bool String Ascii Permutation.
From Verif Require Import gen.Params model.Checksum model.Throttle model.RoomAuth proofs.RoomAuth_proofs
     corr.Run_C02 proofs.C02_trace_proofs.
From Verif Require model.BackendCfg model.OutReq proofs.BackendCfg_proofs proofs.OutReq_proofs.
Import ListNotations.
Open Scope Z_scope.
Local Open Scope string_scope.

(* The header names and the body limit in the current source are the ones of the protocol. *)
Theorem C02_params :
  HeaderBackendSignalingRandom = "Spreed-Signaling-Random" /\
  HeaderBackendSignalingChecksum = "Spreed-Signaling-Checksum" /\
  HeaderBackendServer = "Spreed-Signaling-Backend" /\
  maxBodySize = 256 * 1024.
Proof. exact c02_params_ok. Qed.

(* hex.EncodeToString is injective: equal checksums are equal MACs. *)
Theorem C02_hex_injective : forall a b : bytes, hex a = hex b -> a = b.
Proof. exact hex_inj. Qed.

(* ConstantTimeCompare(...) == 1 is exactly the equation of the property. *)
Theorem C02_validate_is_mac_equation : forall hmac chk rnd body secret,
  validb hmac chk rnd body secret = true <-> chk = hex (hmac secret (rnd ++ body)).
Proof. exact validb_spec. Qed.

(* ---- incoming direction ---------------------------------------------------- *)

(* A request that gets past authentication (its body is handed to the JSON decoder
   and the room handlers with backend b; every status other than 404/411/413/400-
   before-authentication, 403 and 429 is of this kind) is a POST with both headers,
   b is the backend the request resolves to, b comes from the configuration
   (compat backend, one of GetBackends(), or GetBackend(url in the header)), and
   the checksum is the MAC over random ++ body under b's secret. *)
Theorem C02_room_api_accept_sound :
  forall hmac url (url_parse : bytes -> option url) get_backend cfg th t a q th' b,
  handle hmac url_parse get_backend cfg th t a q = (th', RAuth b) ->
  q_post q = true /\ q_rnd q <> "" /\ q_chk q <> "" /\
  resolve hmac url_parse get_backend cfg q = Some b /\
  ((q_bhdr q = "" /\ (cfg_compat cfg = Some b \/ (cfg_compat cfg = None /\ In b (cfg_backends cfg))))
   \/ (q_bhdr q <> "" /\ exists u, url_parse (q_bhdr q) = Some u /\ get_backend u = Some b)) /\
  q_chk q = hex (hmac (b_secret b) (q_rnd q ++ q_body q)).
Proof. exact @room_api_accept_sound. Qed.

(* Exactly when: past the pre-checks and not blocked by the throttle, a request is
   accepted as b iff it resolves to b and carries the MAC under b's secret. *)
Theorem C02_room_api_accept_iff :
  forall hmac url (url_parse : bytes -> option url) get_backend cfg th t a q b,
  precheck q = None ->
  snd (Throttle.step th (OCheck t a act_room_auth)) <> VBlocked ->
  (snd (handle hmac url_parse get_backend cfg th t a q) = RAuth b <->
   resolve hmac url_parse get_backend cfg q = Some b /\
   q_chk q = hex (hmac (b_secret b) (q_rnd q ++ q_body q))).
Proof. exact @accept_iff. Qed.

(* The backend header binds the secret: when the header names backend B, the request
   is accepted only as B and only with the MAC under B's secret. *)
Theorem C02_named_backend_binds_secret :
  forall hmac url (url_parse : bytes -> option url) get_backend cfg th t a q th' b u B,
  q_bhdr q <> "" -> url_parse (q_bhdr q) = Some u -> get_backend u = Some B ->
  handle hmac url_parse get_backend cfg th t a q = (th', RAuth b) ->
  b = B /\ q_chk q = hex (hmac (b_secret B) (q_rnd q ++ q_body q)).
Proof. exact @named_backend_binds_secret. Qed.

(* Hence a checksum made with another secret (e.g. backend A's) is accepted for B
   only if the two MACs coincide — stated, not assumed away. *)
Theorem C02_other_secret_needs_collision :
  forall hmac url (url_parse : bytes -> option url) get_backend cfg th t a q th' b u B secretA,
  q_bhdr q <> "" -> url_parse (q_bhdr q) = Some u -> get_backend u = Some B ->
  handle hmac url_parse get_backend cfg th t a q = (th', RAuth b) ->
  q_chk q = hex (hmac secretA (q_rnd q ++ q_body q)) ->
  hmac secretA (q_rnd q ++ q_body q) = hmac (b_secret B) (q_rnd q ++ q_body q).
Proof. exact @other_secret_needs_collision. Qed.

(* A header that does not parse or names no configured backend is never accepted,
   whatever the checksum. *)
Theorem C02_unknown_backend_refused :
  forall hmac url (url_parse : bytes -> option url) get_backend cfg th t a q,
  q_bhdr q <> "" ->
  (url_parse (q_bhdr q) = None \/ exists u, url_parse (q_bhdr q) = Some u /\ get_backend u = None) ->
  forall b, snd (handle hmac url_parse get_backend cfg th t a q) <> RAuth b.
Proof. exact @unknown_backend_refused. Qed.

(* Without the header (old Talk) the backends are tried in the order GetBackends()
   returns them — a Go map iteration.  The order is irrelevant as long as at most one
   configured secret validates the request (distinct secrets, no MAC collision). *)
Theorem C02_fallback_order_irrelevant :
  forall hmac q l l',
  Permutation l l' ->
  (forall b b', In b l -> In b' l -> checks hmac q b = true -> checks hmac q b' = true -> b = b') ->
  find (checks hmac q) l = find (checks hmac q) l'.
Proof. exact fallback_order_irrelevant. Qed.

(* Everything that is not accepted is silent (nothing is published, no client gets an
   event), and it is answered 403 unless a check that precedes authentication failed
   (not a POST, no or too large Content-Length, not JSON) or the address is already
   blocked by the throttle of C17 (429). *)
Theorem C02_reject_is_403_and_silent :
  forall hmac url (url_parse : bytes -> option url) get_backend body_kind cfg th t a q th' r,
  handle hmac url_parse get_backend cfg th t a q = (th', r) -> (forall b, r <> RAuth b) ->
  published body_kind r (q_body q) = None /\ client_event body_kind r (q_body q) = None /\
  (q_post q = true -> q_clen q <> -1 -> q_clen q <= maxBodySize ->
   prefix "application/json" (q_ctype q) = true -> r <> RThrottled ->
   status_of body_kind r (q_body q) = 403%N).
Proof. exact @reject_is_403_and_silent. Qed.

(* "No event reaches any client" without the MAC: whatever is handed to the room handlers
   or delivered to a client of backend b comes from a request authenticated as b. *)
Theorem C02_event_needs_mac :
  forall hmac url (url_parse : bytes -> option url) get_backend body_kind cfg th t a q th' r b,
  handle hmac url_parse get_backend cfg th t a q = (th', r) ->
  published body_kind r (q_body q) = Some b \/ client_event body_kind r (q_body q) = Some b ->
  r = RAuth b /\ resolve hmac url_parse get_backend cfg q = Some b /\
  q_chk q = hex (hmac (b_secret b) (q_rnd q ++ q_body q)).
Proof. exact @event_needs_mac. Qed.

(* A refused checksum (or unknown backend) is recorded as a failure of the address. *)
Theorem C02_reject_feeds_throttle :
  forall hmac url (url_parse : bytes -> option url) get_backend cfg th t a q th' d,
  handle hmac url_parse get_backend cfg th t a q = (th', RForbidden d) ->
  th' = fst (Throttle.step (fst (Throttle.step th (OCheck t a act_room_auth))) (OFail t a act_room_auth)).
Proof. exact @reject_recorded. Qed.

(* Tampering.  Two accepted requests with the same checksum have the same MAC; if
   their (secret, random ++ body) differ this is an explicit HMAC collision.
   The statement is about the concatenation random ++ body, which is all the MAC
   sees: (random, body) is NOT recoverable from it (C02_concat_not_injective). *)
Theorem C02_tamper :
  forall hmac url (url_parse : bytes -> option url) get_backend
         cfg1 cfg2 th1 th2 t1 t2 a1 a2 q1 q2 th1' th2' b1 b2,
  handle hmac url_parse get_backend cfg1 th1 t1 a1 q1 = (th1', RAuth b1) ->
  handle hmac url_parse get_backend cfg2 th2 t2 a2 q2 = (th2', RAuth b2) ->
  q_chk q1 = q_chk q2 ->
  (b_secret b1, q_rnd q1 ++ q_body q1) <> (b_secret b2, q_rnd q2 ++ q_body q2) ->
  exists k1 m1 k2 m2 : bytes, (k1, m1) <> (k2, m2) /\ hmac k1 m1 = hmac k2 m2.
Proof. exact @tamper_collision. Qed.

Theorem C02_concat_not_injective :
  exists r1 b1 r2 b2 : bytes, (r1, b1) <> (r2, b2) /\ r1 ++ b1 = r2 ++ b2.
Proof. exact concat_not_injective. Qed.

(* The pairwise reading of the property ("two different (random, body) pairs are never
   both accepted with the same checksum, unless HMAC collides"):

     forall ..., handle .. q1 = (_, RAuth b1) -> handle .. q2 = (_, RAuth b2) ->
       q_chk q1 = q_chk q2 -> (q_rnd q1, q_body q1) <> (q_rnd q2, q_body q2) -> hmac collision

   does NOT hold for the code as it is (known finding C02/boundary-shift): whenever a
   request is accepted, the request whose random took over the first byte of the body
   is accepted too, with the same checksum, under every hmac. *)
Theorem C02_boundary_shift_accepted :
  forall hmac url (url_parse : bytes -> option url) get_backend cfg th t a q c rest th' b,
  q_body q = String c rest ->
  handle hmac url_parse get_backend cfg th t a q = (th', RAuth b) ->
  handle hmac url_parse get_backend cfg th t a (shift q c rest) = (th', RAuth b) /\
  q_chk (shift q c rest) = q_chk q /\
  (q_rnd (shift q c rest), q_body (shift q c rest)) <> (q_rnd q, q_body q).
Proof. exact @boundary_shift_accepted. Qed.

Theorem C02_tamper_pairwise_refuted :
  exists (hm : bytes -> bytes -> bytes) cfg q1 q2 b,
    (q_rnd q1, q_body q1) <> (q_rnd q2, q_body q2) /\ q_chk q1 = q_chk q2 /\
    snd (handle hm (fun _ : bytes => @None unit) (fun _ => None) cfg Throttle.init 0 (A4 1) q1) = RAuth b /\
    snd (handle hm (fun _ : bytes => @None unit) (fun _ => None) cfg Throttle.init 0 (A4 1) q2) = RAuth b /\
    q_rnd q1 ++ q_body q1 = q_rnd q2 ++ q_body q2.
Proof. exact tamper_pairwise_refuted. Qed.

(* ---- outgoing direction ---------------------------------------------------- *)

(* The two headers AddBackendChecksum sets: the checksum is the MAC over
   random ++ body under the given secret (the receiver's validation succeeds), the
   random is the hex form of 32 bytes taken from the randomness source: 64 >= 32
   characters. *)
Theorem C02_outgoing_checksum :
  forall hmac (rand : nat -> ascii) body secret,
  let '(rnd, chk) := add_backend_checksum hmac rand body secret in
  chk = hex (hmac secret (rnd ++ body)) /\
  validb hmac chk rnd body secret = true /\
  rnd = hex (rand_read rand 32) /\
  String.length rnd = 64%nat /\ (32 <= String.length rnd)%nat.
Proof. exact outgoing_checksum. Qed.

(* The random header determines the 32 bytes drawn: two requests carry the same random
   only if the randomness source delivered the same 32 bytes.  (That the source does
   not repeat is the explicit hypothesis never_repeats of C02_outgoing_static_fresh / _etcd_fresh.) *)
Theorem C02_outgoing_random_injective :
  forall rand1 rand2 : nat -> ascii,
  new_random_string rand1 outgoing_random_len = new_random_string rand2 outgoing_random_len ->
  forall i, (i < 32)%nat -> rand1 i = rand2 i.
Proof. exact outgoing_random_injective. Qed.

(* ---- outgoing direction: WHICH secret ------------------------------------------

   "... the matching checksum under that backend's secret": the secret of the backend the
   configuration IN FORCE when the request is sent resolves the request URL to.
   model/OutReq.v: PerformJSONRequest looks the URL up in the backend tables as they are now
   (the tables, Reload and the etcd events are C13's model, model/BackendCfg.v) and signs with
   the secret of the answer; the theorems compose it with C13's "after any chain of reloads /
   any etcd history every lookup answers like a fresh start".  For every MAC function, URL
   parser, randomness source, map from C13's abstract secrets to byte strings, start
   configuration, and every history `pre` of reloads and earlier requests (to this or any
   other URL):

   the request that follows is sent exactly as a server freshly started with the LAST
   configuration would send it - in particular the checksum is under the secret that the
   last configuration gives the backend at this URL, whatever secret an earlier request to
   the same URL was signed with.
   PARTIAL exactly as C13_reload_eq_fresh_partial: chains of `backends`-list configurations
   (new_style); the deprecated modes do not support reload (open finding of C13). *)
Theorem C02_outgoing_static_current_partial :
  forall hmac up secret_of rand c0 pre u body,
  Forall BackendCfg_proofs.new_style (c0 :: OutReq.configs_of pre) ->
  OutReq.orun_static hmac up secret_of rand c0 (pre ++ [OutReq.OReq u body])%list =
  (OutReq.orun_static hmac up secret_of rand c0 pre ++
   [OutReq.sign hmac secret_of (rand (OutReq.requests_in pre))
      (BackendCfg.answer_of (BackendCfg.lookup_static up
         (BackendCfg.fresh up (last (OutReq.configs_of pre) c0)) u)) body])%list.
Proof. exact OutReq_proofs.out_static_current. Qed.

(* a request that leaves: the last configuration has a backend at the URL and the checksum is
   the MAC under ITS secret (the receiver's validation with that secret succeeds), random >= 32 *)
Theorem C02_outgoing_static_signed_partial :
  forall hmac up secret_of rand c0 pre u body rnd chk,
  Forall BackendCfg_proofs.new_style (c0 :: OutReq.configs_of pre) ->
  last (OutReq.orun_static hmac up secret_of rand c0 (pre ++ [OutReq.OReq u body])%list) OutReq.SNone
    = OutReq.SSent (rnd, chk) ->
  exists p, BackendCfg.answer_of (BackendCfg.lookup_static up
              (BackendCfg.fresh up (last (OutReq.configs_of pre) c0)) u) = BackendCfg.ASome p /\
    chk = hex (hmac (secret_of (OutReq.answer_secret p)) (rnd ++ body)) /\
    validb hmac chk rnd body (secret_of (OutReq.answer_secret p)) = true /\
    (32 <= String.length rnd)%nat.
Proof. exact OutReq_proofs.out_static_signed. Qed.

(* nothing is sent to a URL the last configuration has no backend for (backend removed, URL changed) *)
Theorem C02_outgoing_static_removed_partial :
  forall hmac up secret_of rand c0 pre u body,
  Forall BackendCfg_proofs.new_style (c0 :: OutReq.configs_of pre) ->
  BackendCfg.lookup_static up (BackendCfg.fresh up (last (OutReq.configs_of pre) c0)) u = BackendCfg.LRes None ->
  last (OutReq.orun_static hmac up secret_of rand c0 (pre ++ [OutReq.OReq u body])%list) OutReq.SPanic = OutReq.SNone.
Proof. exact OutReq_proofs.out_static_removed. Qed.

(* etcd storage: every history of put / delete events and requests, no hypothesis: the request is
   sent as a server that starts with the keys etcd still holds would send it *)
Theorem C02_outgoing_etcd_current :
  forall hmac up secret_of rand pre u body,
  OutReq.erun_etcd hmac up secret_of rand (pre ++ [OutReq.EReq u body])%list =
  (OutReq.erun_etcd hmac up secret_of rand pre ++
   [OutReq.sign hmac secret_of (rand (OutReq.erequests_in pre))
      (BackendCfg.answer_of (BackendCfg.lookup_etcd up
         (BackendCfg.fresh_etcd up (BackendCfg.final_kv (OutReq.events_of pre))) u)) body])%list.
Proof. exact OutReq_proofs.out_etcd_current. Qed.

Theorem C02_outgoing_etcd_signed :
  forall hmac up secret_of rand pre u body rnd chk,
  last (OutReq.erun_etcd hmac up secret_of rand (pre ++ [OutReq.EReq u body])%list) OutReq.SNone
    = OutReq.SSent (rnd, chk) ->
  exists p, BackendCfg.answer_of (BackendCfg.lookup_etcd up
              (BackendCfg.fresh_etcd up (BackendCfg.final_kv (OutReq.events_of pre))) u) = BackendCfg.ASome p /\
    chk = hex (hmac (secret_of (OutReq.answer_secret p)) (rnd ++ body)) /\
    validb hmac chk rnd body (secret_of (OutReq.answer_secret p)) = true /\
    (32 <= String.length rnd)%nat.
Proof. exact OutReq_proofs.out_etcd_signed. Qed.

Theorem C02_outgoing_etcd_removed :
  forall hmac up secret_of rand pre u body,
  BackendCfg.lookup_etcd up (BackendCfg.fresh_etcd up (BackendCfg.final_kv (OutReq.events_of pre))) u = BackendCfg.LRes None ->
  last (OutReq.erun_etcd hmac up secret_of rand (pre ++ [OutReq.EReq u body])%list) OutReq.SPanic = OutReq.SNone.
Proof. exact OutReq_proofs.out_etcd_removed. Qed.

(* ---- outgoing direction: FRESH random, whatever happens to the requests -----------------

   "Every request the server sends to a backend carries a fresh random": a random is used for
   one request only.  model/OutReq.v, back part of PerformJSONRequest: whatever becomes of a
   request at the backend (answered; connection closed before a response byte; closed in the
   middle of the response; 500; no answer within the timeout of the call) it is sent ONCE and
   every fate but an answer is an error for the caller; a caller that tries again issues a new
   request of the history, which draws the next random. *)
Theorem C02_outgoing_one_attempt :
  forall s f,
  fst (OutReq.deliver s f) = fst (OutReq.deliver s OutReq.FAnswered) /\
  (List.length (fst (OutReq.deliver s f)) <= 1)%nat /\
  (forall h, s = OutReq.SSent h -> fst (OutReq.deliver s f) = [h]) /\
  (f <> OutReq.FAnswered -> snd (OutReq.deliver s f) = OutReq.OError).
Proof. exact OutReq_proofs.deliver_once. Qed.

(* what arrives at the backends during a history does not depend on the fates of the requests *)
Theorem C02_outgoing_wire_independent_of_fates :
  forall fates1 fates2 ss m1 m2, OutReq.wire fates1 m1 ss = OutReq.wire fates2 m2 ss.
Proof. exact OutReq_proofs.wire_fates. Qed.

(* For EVERY history of reloads and requests, every initial configuration and every assignment
   of fates: the randoms of the requests that arrive at the backends are pairwise distinct -
   under the explicit hypothesis that the randomness source never delivers the same 32 bytes
   to two requests (`rand k` is what crypto/rand delivers to the k-th request).  No hypothesis
   on the configurations (not _partial: freshness does not depend on the tables). *)
Theorem C02_outgoing_static_fresh :
  forall hmac up secret_of rand fates c0 ops,
  OutReq_proofs.never_repeats rand ->
  NoDup (map fst (OutReq.wire fates 0 (OutReq.orun_static hmac up secret_of rand c0 ops))).
Proof. exact OutReq_proofs.out_static_fresh. Qed.

Theorem C02_outgoing_etcd_fresh :
  forall hmac up secret_of rand fates ops,
  OutReq_proofs.never_repeats rand ->
  NoDup (map fst (OutReq.wire fates 0 (OutReq.erun_etcd hmac up secret_of rand ops))).
Proof. exact OutReq_proofs.out_etcd_fresh. Qed.

(* the hypothesis is needed and not vacuous: a source that counts never repeats, and with it two
   requests, the first of which loses its connection, arrive with different randoms; a constant
   source repeats, and the two requests carry the same random *)
Example C02_outgoing_fresh_nonvacuous :
  let up := BackendCfg_proofs.wit_up in
  let sec := fun _ : N => "s" in
  let hm := fun k m : bytes => (k ++ "|" ++ m) in
  let cfg := BackendCfg_proofs.wit_cfg [1%N] [(1%N, BackendCfg_proofs.wit_sec "https://h1.example/a/" 1%N)] in
  let u := "https://h1.example/a/x" in
  let fates := fun k : nat => match k with O => OutReq.FClosed | _ => OutReq.FAnswered end in
  let counting := fun k i : nat => match i with O => ascii_of_nat k | _ => "a"%char end in
  (forall j k, (j < 256)%nat -> (k < 256)%nat -> j <> k -> rand_read (counting j) 32 <> rand_read (counting k) 32) /\
  List.length (OutReq.wire fates 0 (OutReq.orun_static hm up sec counting cfg [OutReq.OReq u "{}"; OutReq.OReq u "{}"])) = 2%nat /\
  NoDup (map fst (OutReq.wire fates 0 (OutReq.orun_static hm up sec counting cfg [OutReq.OReq u "{}"; OutReq.OReq u "{}"]))) /\
  ~ NoDup (map fst (OutReq.wire fates 0 (OutReq.orun_static hm up sec (fun _ _ => "a"%char) cfg [OutReq.OReq u "{}"; OutReq.OReq u "{}"]))).
Proof.
  intros up sec hm cfg u fates counting. split; [|split; [|split]].
  - intros j k Hj Hk Hne He. apply Hne. subst counting.
    assert (H : ascii_of_nat j = ascii_of_nat k) by (cbn in He; congruence).
    pose proof (nat_ascii_embedding j Hj) as Ej. pose proof (nat_ascii_embedding k Hk) as Ek.
    rewrite H in Ej. congruence.
  - vm_compute. reflexivity.
  - vm_compute. repeat constructor; cbn; intuition discriminate.
  - vm_compute. intros H. inversion H as [|x l Hn _]. apply Hn. left. reflexivity.
Qed.

(* not vacuous: request, secret changed by a reload, request to the same URL: the second one is
   signed with the new secret; backend removed: nothing is sent; the same through etcd *)
Example C02_outgoing_current_nonvacuous :
  let up := BackendCfg_proofs.wit_up in
  let sec := fun n : N => if N.eqb n 1 then "old" else "new" in
  let hm := fun k m : bytes => (k ++ "|" ++ m) in
  let cfg := fun s => BackendCfg_proofs.wit_cfg [1%N] [(1%N, BackendCfg_proofs.wit_sec "https://h1.example/a/" s)] in
  let u := "https://h1.example/a/x" in
  let rnd := hex (rand_read (fun _ => "a"%char) 32) in
  Forall BackendCfg_proofs.new_style [cfg 1%N; cfg 2%N; BackendCfg_proofs.wit_none] /\
  OutReq.orun_static hm up sec (fun _ _ => "a"%char) (cfg 1%N)
    [OutReq.OReq u "{}"; OutReq.OReload (cfg 2%N); OutReq.OReq u "{}"; OutReq.OReload BackendCfg_proofs.wit_none; OutReq.OReq u "{}"]
  = [OutReq.SSent (rnd, hex ("old|" ++ rnd ++ "{}")); OutReq.SSent (rnd, hex ("new|" ++ rnd ++ "{}")); OutReq.SNone] /\
  OutReq.erun_etcd hm up sec (fun _ _ => "a"%char)
    [OutReq.EEvent (BackendCfg.EPut 1 (BackendCfg_proofs.wit_e "https://h1.example/a/" 1)); OutReq.EReq u "{}";
     OutReq.EEvent (BackendCfg.EPut 1 (BackendCfg_proofs.wit_e "https://h1.example/a/" 2)); OutReq.EReq u "{}";
     OutReq.EEvent (BackendCfg.EDel 1); OutReq.EReq u "{}"]
  = [OutReq.SSent (rnd, hex ("old|" ++ rnd ++ "{}")); OutReq.SSent (rnd, hex ("new|" ++ rnd ++ "{}")); OutReq.SNone].
Proof.
  split; [repeat constructor; try discriminate; reflexivity|]. split; vm_compute; reflexivity.
Qed.

(* ---- the trace predicate on the model's traces -------------------------------- *)

(* Full statement:  forall cfg xs, P_C02 cfg (model_trace cfg xs) = true
   (P_C02 = the property as a decision procedure over traces, corr/Run_C02.v: events only
   for the backend whose secret matches; a well-formed POST is answered 403 iff no secret
   of the claimed backend matches; 429 only after ten refusals; an accepted checksum is not
   accepted again with another (random, body)).
   It holds for every configuration, every list of requests and all oracle tables that
   come from one MAC function hm, under two hypotheses about the last clause only:
   no_collision (the "unless HMAC collides" of the property) and no_boundary_shift, which
   excludes exactly the known finding C02/boundary-shift (two requests of the run with
   equal random ++ body but a different split).  wf_op: the MAC recorded for a backend
   depends on its secret only and the generator's intent agrees with the lookup oracle
   (judged per case as code 3). *)
Theorem C02_P_on_model_partial :
  forall hm cfg xs,
  tables_from hm cfg xs -> no_collision hm cfg xs -> no_boundary_shift xs ->
  (forall x, In x xs -> wf_op cfg x) ->
  P_C02 cfg (model_trace cfg xs) = true.
Proof. exact P_on_model_partial. Qed.

(* Without no_boundary_shift the predicate fails on a trace of the model (and of the
   implementation: the same history is replayed on the real server every run). *)
Theorem C02_P_on_model_refuted :
  tables_from shift_hm shift_cfg shift_ops /\ (forall x, In x shift_ops -> wf_op shift_cfg x) /\
  P_C02 shift_cfg (model_trace shift_cfg shift_ops) = false.
Proof. exact P_on_model_refuted. Qed.

(* the hypotheses are met by a run with an accepted and a refused request *)
Example C02_P_on_model_nonvacuous :
  let xs := [shift_op "0123456789abcdef" "{}"; shift_op "0123456789abcdee" "{}"] in
  no_boundary_shift xs /\ (forall x, In x xs -> wf_op shift_cfg x) /\
  map (fun xo => status (snd xo)) (model_trace shift_cfg xs) = [400%N; 403%N].
Proof. exact P_on_model_nonvacuous. Qed.

(* ---- non-vacuity ------------------------------------------------------------ *)

(* a request that is accepted, one with a flipped bit that is refused with 403 and
   recorded, under a MAC without collisions on these strings *)
Example C02_nonvacuous_accept_and_reject :
  let q := wit_q1 in
  let q' := {| q_post := true; q_clen := 2; q_ctype := "application/json"; q_rnd := q_rnd q;
               q_chk := q_chk q; q_bhdr := ""; q_body := "{]" |} in
  snd (handle toy_hmac (fun _ : bytes => @None unit) (fun _ => None) wit_cfg Throttle.init 0 (A4 1) q) = RAuth wit_backend /\
  snd (handle toy_hmac (fun _ : bytes => @None unit) (fun _ => None) wit_cfg Throttle.init 0 (A4 1) q') = RForbidden 100000000.
Proof. split; vm_compute; reflexivity. Qed.

(* the hypotheses of C02_named_backend_binds_secret / C02_other_secret_needs_collision are met
   by a request whose header names a configured backend *)
Example C02_nonvacuous_named :
  let B := {| b_id := 2; b_secret := "two" |} in
  let q := {| q_post := true; q_clen := 2; q_ctype := "application/json; charset=utf-8"; q_rnd := "r";
              q_chk := hex (toy_hmac "two" "r{}"); q_bhdr := "https://cloud.example/two"; q_body := "{}" |} in
  let parse := fun h : bytes => if String.eqb h "https://cloud.example/two" then Some tt else None in
  q_bhdr q <> "" /\ parse (q_bhdr q) = Some tt /\
  snd (handle toy_hmac parse (fun _ => Some B) {| cfg_compat := None; cfg_backends := [wit_backend; B] |}
              Throttle.init 0 (A6 1 2) q) = RAuth B.
Proof. repeat split; vm_compute; congruence. Qed.

(* the uniqueness hypothesis of C02_fallback_order_irrelevant holds for distinct secrets
   under a MAC that separates them *)
Example C02_nonvacuous_fallback :
  let A := {| b_id := 1; b_secret := "one" |} in
  let B := {| b_id := 2; b_secret := "two" |} in
  let q := {| q_post := true; q_clen := 2; q_ctype := "application/json"; q_rnd := "r";
              q_chk := hex (toy_hmac "two" "r{}"); q_bhdr := ""; q_body := "{}" |} in
  find (checks toy_hmac q) [A; B] = Some B /\ find (checks toy_hmac q) [B; A] = Some B /\
  checks toy_hmac q A = false.
Proof. repeat split; vm_compute; reflexivity. Qed.

Print Assumptions C02_params.
Print Assumptions C02_hex_injective.
Print Assumptions C02_validate_is_mac_equation.
Print Assumptions C02_room_api_accept_sound.
Print Assumptions C02_room_api_accept_iff.
Print Assumptions C02_named_backend_binds_secret.
Print Assumptions C02_other_secret_needs_collision.
Print Assumptions C02_unknown_backend_refused.
Print Assumptions C02_fallback_order_irrelevant.
Print Assumptions C02_reject_is_403_and_silent.
Print Assumptions C02_event_needs_mac.
Print Assumptions C02_reject_feeds_throttle.
Print Assumptions C02_tamper.
Print Assumptions C02_concat_not_injective.
Print Assumptions C02_boundary_shift_accepted.
Print Assumptions C02_tamper_pairwise_refuted.
Print Assumptions C02_outgoing_checksum.
Print Assumptions C02_outgoing_random_injective.
Print Assumptions C02_outgoing_static_current_partial.
Print Assumptions C02_outgoing_static_signed_partial.
Print Assumptions C02_outgoing_static_removed_partial.
Print Assumptions C02_outgoing_etcd_current.
Print Assumptions C02_outgoing_etcd_signed.
Print Assumptions C02_outgoing_etcd_removed.
Print Assumptions C02_outgoing_one_attempt.
Print Assumptions C02_outgoing_wire_independent_of_fates.
Print Assumptions C02_outgoing_static_fresh.
Print Assumptions C02_outgoing_etcd_fresh.
Print Assumptions C02_P_on_model_partial.
Print Assumptions C02_P_on_model_refuted.
