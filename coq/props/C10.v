(* C10 — No client input can crash the server or disturb other sessions.
   Only statements here; proofs are in proofs/ClientMsg_proofs.v (+ ClientMsg_spec.v).

   The model (model/ClientMsg.v) covers one frame from the websocket read pump to
   the point where a valid message is handed to its handler: size limit, binary
   frames, decoding by the generated schema, every CheckValid, the dispatch of
   hub.processMessage, the first use of the message in every handler (each
   pointer dereference explicit), the response handler of a pending dialout and
   the HTTP handler waiting for it.  What the handlers then do with a valid
   message is model/Hub.v (integrator).  [classify repaired] is the code with
   fixes/C10/01 and fixes/C10/02, [classify unrepaired] the code as found.

   Quantifiers: [i : input] is every frame (longer than the limit, binary, text the
   decoder's lexer rejects, any JSON tree - any members, kinds, sizes, repeated
   names, byte strings that are not UTF-8); [st : session_state] every state the
   dispatch looks at (no session / client / internal client, federated, any set of
   pending dialout ids, media server or not, in a room or not, any set of sessions /
   users / room members that are reachable but have no connection at the moment, so
   that what is sent to them is stored: storePendingMessage -> IsChatRefresh); the three library
   oracles (url.Parse, url.ParseRequestURI, the SDP parser) are universally
   quantified functions; the sender's own public session id and user id (any strings). *)
From Coq Require Import List ZArith NArith String Bool Ascii.
From Verif Require Import gen.Params gen.Schema lib.Json lib.Decode model.ClientMsg corr.Run_C10
  proofs.Decode_proofs proofs.ClientMsg_proofs proofs.ClientMsg_spec proofs.ClientMsg_media.
Import ListNotations.
Open Scope string_scope.

(* The message type the proofs are about is what the generated schema (gen/Schema.v,
   regenerated from api_signaling.go on every run) resolves to: a changed tag,
   pointer-ness, member or type breaks this. *)
Theorem C10_schema : ty_client = TStruct client_fields.
Proof. exact ty_client_eq. Qed.

Theorem C10_schema_params :
  ty_v2params = TStruct [("Token", "token", TString)] /\
  ty_fedparams = TStruct [("Token", "token", TString)] /\
  ty_intparams = TStruct [("Random", "random", TString); ("Token", "token", TString); ("Backend", "backend", TString)] /\
  ty_mcudata = TStruct [("Type", "type", TString); ("Sid", "sid", TString); ("RoomType", "roomType", TString);
                        ("Payload", "payload", TMap TIface); ("Bitrate", "bitrate", int_t);
                        ("AudioCodec", "audiocodec", TString); ("VideoCodec", "videocodec", TString);
                        ("VP9Profile", "vp9profile", TString); ("H264Profile", "h264profile", TString)].
Proof. exact ty_params_eq. Qed.

Theorem C10_size_limit : c10_maxMessageSize = 65536%Z.
Proof. exact size_limit_eq. Qed.

(* (1) The server process keeps running - full strength: for every state, every
   frame and every behaviour of the library oracles the repaired code reaches no
   nil dereference (and no other panic of this layer) in the goroutine that
   processes the client's messages. *)
Theorem C10_no_panic : forall url_ok requri_ok sdp_ok st i,
  classify url_ok requri_ok sdp_ok repaired st i <> VPanic.
Proof. exact no_panic. Qed.

(* ... and the room API request that waits for the answer to a dialout is answered
   whatever the internal client sends (no panic in the HTTP handler either). *)
Theorem C10_dialout_request_answered : forall url_ok requri_ok sdp_ok st i cs id d,
  classify url_ok requri_ok sdp_ok repaired st i = VDispatch cs -> In (CResponse id d) cs ->
  exists code, api_outcome d = AStatus code.
Proof. exact api_answered. Qed.

(* The code as found violates (1) twice.  The confirmed defect: an internal message
   of another type with the id of a pending dialout. *)
Theorem C10_no_panic_refuted : exists st i,
  classify any_ok any_ok any_ok {| fx_dialout := false; fx_label := true |} st i = VPanic.
Proof. exists st_pending, w_dialout. exact w_dialout_panics. Qed.

(* Found by the raw-frame stream of the harness: a message whose type is not valid
   UTF-8 (the type is used as label value of a prometheus counter), in every
   state - here before hello. *)
Theorem C10_no_panic_refuted_label : exists st i,
  ss_kind st = SNone /\ classify any_ok any_ok any_ok {| fx_dialout := true; fx_label := false |} st i = VPanic.
Proof. exists st_fresh, w_label. split; [reflexivity | exact w_label_panics]. Qed.

(* Found next to the confirmed defect: an unvalidated "dialout" member on a message of
   another internal type crashes the HTTP handler (no reply to the backend). *)
Theorem C10_dialout_request_answered_refuted : exists st i id d cs,
  classify any_ok any_ok any_ok {| fx_dialout := false; fx_label := true |} st i = VDispatch (CResponse id d :: cs) /\
  api_outcome d = ANoReply.
Proof. destruct w_status_no_reply as (id & d & cs & H). exists st_pending, w_status, id, d, cs. exact H. Qed.

Theorem C10_witnesses_repaired :
  classify any_ok any_ok any_ok repaired st_pending w_dialout = VDispatch [CInternal "incall" (GStruct [("InCall", GInt 1)])] /\
  classify any_ok any_ok any_ok repaired st_pending w_status = VDispatch [CInternal "incall" (GStruct [("InCall", GInt 1)])] /\
  classify any_ok any_ok any_ok repaired st_fresh w_label = VError EHelloExpected "".
Proof. exact witnesses_repaired. Qed.

(* (2) Messages that fail decoding or validation have no effect - full strength, for
   the repaired and the unrepaired code alike: exactly one error reply to the sender
   (invalid_format, or the specific code, with the id of the message), nothing is
   handed to any handler, the process and the connection stay.  [rejected] is
   "the skipped-value check, the decoder or CheckValid fails". *)
Theorem C10_invalid_is_inert : forall url_ok requri_ok sdp_ok fx st j r,
  rejected url_ok requri_ok j = Some r ->
  effect_of (classify url_ok requri_ok sdp_ok fx st (IDoc j)) =
    {| e_replies := [r]; e_calls := []; e_exit := false; e_closed := false |}.
Proof. exact invalid_is_inert. Qed.

Theorem C10_undecodable_is_inert : forall url_ok requri_ok sdp_ok fx st i, i = IBad \/ i = IBinary ->
  effect_of (classify url_ok requri_ok sdp_ok fx st i) =
    {| e_replies := [("invalid_format", "")]; e_calls := []; e_exit := false; e_closed := false |}.
Proof. exact undecodable_is_inert. Qed.

(* The same from the reader's side: a document that is invalid by the documented
   message format (corr/Run_C10.v [spec_invalid_doc]: not an object, a defined
   member of the wrong kind anywhere, no type, the member named after the type
   missing, required members of hello / room / message / control / internal /
   transient missing) is rejected by the code - so (2) applies to it. *)
Theorem C10_documented_invalid_rejected : forall url_ok requri_ok j,
  spec_invalid_doc j = true -> exists r, rejected url_ok requri_ok j = Some r.
Proof. exact spec_invalid_rejected. Qed.

(* ... and for the payload the server validates itself when it has a media server (message
   to a session, or - from a sender that is in a room - to the room / the call): data of
   the documented shape with an unknown stream type, or an offer / answer without a string
   "sdp" that parses ([media_invalid_doc], corr/Run_C10.v), gets exactly one error and reaches
   no handler - in particular it is not forwarded to the room. *)
Theorem C10_media_invalid_rejected : forall url_ok requri_ok sdp_ok fx st j,
  media_invalid_doc sdp_ok (ss_inroom st) j = true ->
  ss_mcu st = true -> ss_kind st <> SNone -> ss_federated st = false ->
  exists r, effect_of (classify url_ok requri_ok sdp_ok fx st (IDoc j)) =
              {| e_replies := [r]; e_calls := []; e_exit := false; e_closed := false |}.
Proof. exact media_invalid_rejected. Qed.

(* (1) again, for the part of the delivery that looks into the payload of a valid message:
   storing a message for a session without connection (ServerMessage.IsChatRefresh) ends with
   a verdict for every payload - no nil dereference.  (C10_no_panic covers the path from the
   frame to here; this is the statement about the function itself.) *)
Theorem C10_store_total : forall data, exists r, is_chat_refresh data = Some r.
Proof. exact is_chat_refresh_some. Qed.

(* (3) Before hello only a valid hello is dispatched; everything else is answered
   with one error (hello_expected or the validation error) or closes the
   connection (frame over the limit). *)
Theorem C10_prehello_only_hello : forall url_ok requri_ok sdp_ok st i, ss_kind st = SNone ->
  prehello_verdict (classify url_ok requri_ok sdp_ok repaired st i).
Proof. exact prehello_only_hello. Qed.

Theorem C10_prehello_hello_type : forall url_ok requri_ok sdp_ok st j cs, ss_kind st = SNone ->
  classify url_ok requri_ok sdp_ok repaired st (IDoc j) = VDispatch cs ->
  exists m, decode ty_client (zero ty_client) j = Ok m /\ sfld "Type" m = "hello".
Proof. exact prehello_hello_type. Qed.

(* (4) Every dispatched message satisfies what its handler relies on: the sub-object
   of its type is there, required members are not empty, URLs were accepted by
   the parser that the handler's pointer comes from, a media payload passed its
   own validation, a dialout response is a validated dialout message. *)
Theorem C10_dispatch_complete : forall url_ok requri_ok sdp_ok st i cs,
  classify url_ok requri_ok sdp_ok repaired st i = VDispatch cs -> Forall (call_ok url_ok requri_ok sdp_ok) cs.
Proof. exact dispatch_complete. Qed.

(* (5) "Other sessions keep working" needs every handler to come back with the locks of the hub released;
   the early exits are where that goes wrong.  What the model says about the frames that take the
   "Don't loop messages to the sender" exits - a message or control message whose recipient is the
   sender's own session id or own (non-empty) user id:
   - whatever the tree, the state and the frame, nothing that reaches the forwarding part of the two
     handlers names the sender as recipient (only media signalling to the own session id goes on, to the
     media server: publishing);
   - a control message to the sender itself is dropped (no reply, no call, with or without the right to
     send control messages); a message to the sender itself is dropped, refused by the media validation
     or handed to the media server.
   That the real server comes back from these exits able to serve (the observation o_live of
   corr/Run_C10.v, clause of P_C10 for every frame) is checked on the implementation on every run. *)
Theorem C10_not_looped : forall url_ok requri_ok sdp_ok fx st i cs,
  classify url_ok requri_ok sdp_ok fx st i = VDispatch cs -> Forall (not_to_self st) cs.
Proof. exact not_looped. Qed.

Theorem C10_self_control_dropped : forall st m c,
  deref (fld "Control" m) = Some c ->
  to_self st (sfld "Type" (fld "Recipient" c)) (sfld "SessionId" (fld "Recipient" c)) (sfld "UserId" (fld "Recipient" c)) = true ->
  effect_of (enter_control st m) = {| e_replies := []; e_calls := []; e_exit := false; e_closed := false |}.
Proof. intros st m c H1 H2. rewrite (self_control_dropped st m c H1 H2). reflexivity. Qed.

Theorem C10_self_message_dropped : forall sdp_ok st m mm,
  deref (fld "Message" m) = Some mm ->
  to_self st (sfld "Type" (fld "Recipient" mm)) (sfld "SessionId" (fld "Recipient" mm)) (sfld "UserId" (fld "Recipient" mm)) = true ->
  match enter_message sdp_ok st m with
  | VIgnored | VError _ _ => True
  | VDispatch [CMessage rt _ _ _ (Some d)] => ss_mcu st = true /\ eqs rt "session" && mcu_direct d = true
  | _ => False
  end.
Proof. exact self_message_dropped. Qed.

(* five frames to the sender itself (control / message, by session id / by user id, a "sendoffer") are
   dropped, an offer to the own session id goes to the media server, the same control message to another
   session is forwarded; none of the seven is rejected as invalid *)
Example C10_nonvacuous_self :
  map (fun j => classify any_ok any_ok any_ok repaired st_room (IDoc j)) ex_self = [VIgnored; VIgnored; VIgnored; VIgnored; VIgnored] /\
  (exists d, classify any_ok any_ok any_ok repaired st_room (IDoc ex_self_offer) =
               VDispatch [CMessage "session" "me" "" (JObj [("type", JStr "offer"); ("roomType", JStr "video"); ("payload", JObj [("sdp", JStr "v=0")])]) (Some d)]) /\
  classify any_ok any_ok any_ok repaired st_room (IDoc ex_control_other) = VDispatch [CControl "session" "abc" "" (JObj [("x", JNum 1)])] /\
  map (rejected any_ok any_ok) (ex_self ++ [ex_self_offer; ex_control_other]) = [None; None; None; None; None; None; None].
Proof. exact self_examples. Qed.

(* Non-vacuity: a valid message and a valid hello are dispatched with their fields;
   seven invalid documents of different classes are rejected. *)
Example C10_nonvacuous :
  classify any_ok any_ok any_ok repaired st_room (IDoc ex_message) =
    VDispatch [CMessage "session" "abc" "" (JObj [("x", JNum 1)])
                 (Some (GStruct [("Type", GStr ""); ("Sid", GStr ""); ("RoomType", GStr ""); ("Payload", GMap []);
                                 ("Bitrate", GInt 0); ("AudioCodec", GStr ""); ("VideoCodec", GStr "");
                                 ("VP9Profile", GStr ""); ("H264Profile", GStr "")]))] /\
  classify any_ok any_ok any_ok repaired st_fresh (IDoc ex_hello) =
    VDispatch [CHello "2.0" [] (HClient true false "https://cloud/" (JObj [("token", JStr "a.b.c")]) "a.b.c")] /\
  map (rejected any_ok any_ok) ex_invalid =
    [Some ("invalid_format", ""); Some ("invalid_format", ""); Some ("invalid_format", ""); Some ("invalid_format", "");
     Some ("invalid_format", ""); Some ("invalid_hello_version", ""); Some ("invalid_format", "")].
Proof. exact examples_ok. Qed.

(* nine documents of different classes are invalid for the documented format, a valid
   message and a valid hello are not *)
Example C10_nonvacuous_spec :
  forallb spec_invalid_doc ex_spec_invalid = true /\ spec_invalid_doc ex_message = false /\ spec_invalid_doc ex_hello = false.
Proof. vm_compute. auto. Qed.

(* five messages with invalid media data are media-invalid and refused with the specific error;
   a chat message without chat object to a session without connection is stored (no
   refresh), a chat refresh to a room with such a member is stored as refresh *)
Example C10_nonvacuous_media :
  forallb (media_invalid_doc any_ok true) ex_media_invalid = true /\
  map (fun j => classify any_ok any_ok any_ok repaired st_room (IDoc j)) ex_media_invalid =
    [VError EInvalidSdp "m"; VError ENoSdp "m"; VError ENoSdp "m"; VError EInvalidFormat "m"; VError EInvalidSdp "m"] /\
  media_invalid_doc any_ok true ex_message = false /\
  (exists c, classify any_ok any_ok any_ok repaired st_room (IDoc ex_chat) = VDispatch [c; CStore false]) /\
  (exists c, classify any_ok any_ok any_ok repaired st_room (IDoc ex_chat_refresh) = VDispatch [c; CStore true]).
Proof. exact media_examples. Qed.

(* ---- strengthening s10: "the sender gets either a well-formed reply or error or is ignored" --------------------------
   An error message carries its error member and a non-empty code.  Every reply this layer answers with by
   itself is such an error (for every frame, state and oracle: the replies of [effect_of] of every verdict), and
   passes the clause [reply_wf] of P_C10.  A hello handed to processHello is answered behind the dispatch: the
   run accepts a hello reply or an error WITH a code carrying the id of the request, and nothing else. *)
Theorem C10_error_replies_coded : forall url_ok requri_ok sdp_ok fx st i code id,
  In (code, id) (e_replies (effect_of (classify url_ok requri_ok sdp_ok fx st i))) -> code <> "".
Proof. intros. eapply error_replies_coded; eauto. Qed.

Theorem C10_model_replies_wellformed : forall url_ok requri_ok sdp_ok fx st i,
  forallb reply_wf (map (fun e => RError (fst e) (snd e)) (e_replies (effect_of (classify url_ok requri_ok sdp_ok fx st i)))) = true.
Proof. intros. apply model_replies_wf. Qed.

Example C10_nonvacuous_reply_wf :
  reply_wf (RError "" "h") = false /\ reply_wf RBad = false /\ reply_wf (RError "invalid_token" "h") = true /\ reply_wf (RHello "h") = true /\
  reply_allowed "h" (CHello "2.0" [] (HClient true false "u" JNull "t")) (RError "" "h") = false /\
  reply_allowed "h" (CHello "2.0" [] (HClient true false "u" JNull "t")) (RError "invalid_token" "h") = true /\
  reply_allowed "h" (CHello "2.0" [] (HClient true false "u" JNull "t")) (RError "invalid_token" "other") = false.
Proof. exact reply_wf_examples. Qed.

(* ---- strengthening s30: a protocol 2.0 hello whose token is not time-valid gets no session --------------------------
   The token of a 2.0 hello is opaque for the model (the hello is handed to processHello: C10_prehello_hello_type);
   P_C10 ([must_refuse_hello], corr/Run_C10.v) reads the lifetime claims the harness put into the token and demands,
   for client and federation hellos alike, exactly one error with a code and unchanged tables when the token has no
   iat, no exp, an exp before its iat, or iat / nbf / exp beyond twice the leeway.  The clause is complete on the
   side of missing and inconsistent claims: *)
Theorem C10_untimely_token_complete : forall i n e,
  token_untimely (i, n, e) = false ->
  exists iv ev, i = Some iv /\ e = Some ev /\ (iv <= ev)%Z /\ (iv < 2 * token_leeway)%Z /\ (- (2 * token_leeway) < ev)%Z /\
                forall nv, n = Some nv -> (nv < 2 * token_leeway)%Z.
Proof. exact untimely_complete. Qed.

Theorem C10_untimely_token_missing_claims : forall i n e,
  i = None \/ e = None \/ (exists iv ev, i = Some iv /\ e = Some ev /\ (ev < iv)%Z) -> token_untimely (i, n, e) = true.
Proof. exact untimely_missing. Qed.

Example C10_nonvacuous_untimely :
  must_refuse_hello 0 (IDoc (ex_hello_v2 [("type", JStr "federation")] "@TOK:0:0:1:-5:_:_:@")) = true /\
  must_refuse_hello 0 (IDoc (ex_hello_v2 [] "@TOK:0:0:1:_:_:300:@")) = true /\
  must_refuse_hello 0 (IDoc (ex_hello_v2 [("type", JStr "federation")] "@TOK:0:0:1:-5:_:300:@")) = false /\
  P_one (fun _ => false) 0 (IDoc (ex_hello_v2 [("type", JStr "federation")] "@TOK:0:0:1:-5:_:_:@")) (ex_obs [RHello "h"] false) = false /\
  P_one (fun _ => false) 0 (IDoc (ex_hello_v2 [("type", JStr "federation")] "@TOK:0:0:1:-5:_:_:@")) (ex_obs [RError "token_expired" "h"] true) = true.
Proof. repeat split; vm_compute; reflexivity. Qed.

Print Assumptions C10_schema.
Print Assumptions C10_schema_params.
Print Assumptions C10_size_limit.
Print Assumptions C10_no_panic.
Print Assumptions C10_dialout_request_answered.
Print Assumptions C10_no_panic_refuted.
Print Assumptions C10_no_panic_refuted_label.
Print Assumptions C10_dialout_request_answered_refuted.
Print Assumptions C10_witnesses_repaired.
Print Assumptions C10_invalid_is_inert.
Print Assumptions C10_undecodable_is_inert.
Print Assumptions C10_documented_invalid_rejected.
Print Assumptions C10_prehello_only_hello.
Print Assumptions C10_prehello_hello_type.
Print Assumptions C10_dispatch_complete.
Print Assumptions C10_media_invalid_rejected.
Print Assumptions C10_store_total.
Print Assumptions C10_not_looped.
Print Assumptions C10_self_control_dropped.
Print Assumptions C10_self_message_dropped.
Print Assumptions C10_error_replies_coded.
Print Assumptions C10_model_replies_wellformed.
Print Assumptions C10_untimely_token_complete.
Print Assumptions C10_untimely_token_missing_claims.
