(* C19 — Virtual sessions exist only through, and only as long as, their internal client. *)
From Coq Require Import List NArith Bool.
From Verif Require Import model.Hub proofs.Hub_easy proofs.Hub_route proofs.Hub_wf proofs.Hub_corollaries proofs.Hub_virtual.
Import ListNotations.
Open Scope N_scope.

(* The same requests from ordinary clients do nothing. *)
Theorem C19_virtual_gate : forall h c sid s q,
  conn_session h c sid s -> is_internal s.(s_kind) = false -> step h (OInternal c q) = (h, []).
Proof. exact virtual_gate. Qed.

(* In every reachable state a virtual session hangs off a live internal client session ... *)
Theorem C19_invariant_every_history : forall limits gated ops, WF (run (init limits gated) ops).
Proof. exact wf_reachable. Qed.
Theorem C19_virtual_has_live_internal_parent : forall h vs s p v, WF h ->
  get_sess h vs = Some s -> s.(s_kind) = KVirtual p v ->
  exists ps, get_sess h p = Some ps /\ is_internal ps.(s_kind) = true.
Proof. exact virtual_has_live_internal_parent. Qed.
(* ... so once the internal client's session ended, no virtual session of it exists, *)
Theorem C19_virtual_gone_with_parent : forall h p, WF h -> get_sess h p = None ->
  forall vs s v, get_sess h vs = Some s -> s.(s_kind) <> KVirtual p v.
Proof. exact virtual_gone_with_parent. Qed.
(* and the table entry (client, chosen id) -> session always names a live virtual session of that client. *)
Theorem C19_virtual_table_sound : forall h p v vs, WF h -> pget h.(h_vtable) (p, v) = Some vs ->
  exists s, get_sess h vs = Some s /\ s.(s_kind) = KVirtual p v.
Proof. exact virtual_table_sound. Qed.

(* A message addressed to the virtual session's public id reaches its internal client's connection
   with the recipient rewritten to the identifier the client chose. *)
Theorem C19_message_to_virtual_rewritten : forall h c sid s n t p v ps c' tag,
  conn_session h c sid s -> get_sess h n = Some t -> t.(s_kind) = KVirtual p v ->
  t.(s_backend) = s.(s_backend) -> n <> sid ->
  get_sess h p = Some ps -> is_virtual ps.(s_kind) = false -> ps.(s_conn) = Some c' ->
  snd (step h (OMsg c (RSession (IdPub n)) tag)) =
  [ToConn c' (delivered 0 (RSession (IdPub n)) sid (sess_userid h sid s) (Some (RcptVirtual v)) tag)].
Proof. exact message_to_virtual_rewritten. Qed.

(* ---- virtual sessions are announced and the backend is told (proofs/Hub_virtual.v) ----
   The backend request tuple is (backend, kind, action, room, session, checksum ok): kind 2 = virtual
   session, action 2 = add, action 3 = remove.  The new session gets the id next_id h, which names no
   session of h.  (The same statements are checked on implementation traces by P_C19 / step_C19.) *)

(* An internal client adds a virtual session to an existing room of its backend: the session exists,
   with the kind, backend, room and user of the request; it is a member of the room; its join is queued
   on the room subject, stamped with the clock value of the request; the backend is told; the table
   entry (client, chosen id) names it. *)
Theorem C19_add_visible : forall h c sid s v rn user flags incall r,
  WF h -> conn_session h c sid s -> is_internal (s_kind s) = true ->
  room_of h (s_backend s, rn) = Some r ->
  let vs := next_id h in
  let res := step h (OInternal c (IAdd v rn user flags incall)) in
  get_sess h vs = None /\
  (exists t, get_sess (fst res) vs = Some t /\ s_kind t = KVirtual sid v /\ s_backend t = s_backend s /\
             s_room t = Some (s_backend s, rn) /\ s_user t = user) /\
  (exists r', room_of (fst res) (s_backend s, rn) = Some r' /\ In vs (r_members r')) /\
  In (ToBackend (s_backend s, 2, 2, rn, vs, 1)) (snd res) /\
  (exists l, h_bus (fst res) =
             h_bus h ++ mkpub (SubjRoom (s_backend s) rn) (ARoomEvent (SJoin [(vs, user)])) (h_clock h) :: l) /\
  pget (h_vtable (fst res)) (sid, v) = Some vs.
Proof. exact add_visible. Qed.

(* The backend is told of the addition, in the plain and in the quiescent semantics. *)
Theorem C19_backend_told_on_add : forall h c sid s v rn user flags incall r,
  WF h -> conn_session h c sid s -> is_internal (s_kind s) = true ->
  room_of h (s_backend s, rn) = Some r ->
  In (ToBackend (s_backend s, 2, 2, rn, next_id h, 1)) (snd (step h (OInternal c (IAdd v rn user flags incall)))) /\
  In (ToBackend (s_backend s, 2, 2, rn, next_id h, 1)) (snd (qstep h (OInternal c (IAdd v rn user flags incall)))).
Proof. exact add_backend_told. Qed.

(* Delivering the join publication writes the join to the connection of every ordinary / internal
   session in the room that joined before the publication and was not told about the session before. *)
Theorem C19_join_delivery : forall h b rn vs user tm m cm t,
  get_sess h m = Some t -> is_virtual (s_kind t) = false -> s_conn t = Some cm ->
  s_room t = Some (b, rn) -> s_join t <= tm -> nmem vs (s_seen t) = false ->
  In (ToConn cm (SJoin [(vs, user)]))
     (snd (deliver_pub h (mkpub (SubjRoom b rn) (ARoomEvent (SJoin [(vs, user)])) tm))).
Proof. exact join_delivery. Qed.

(* Quiescent semantics, nothing queued before the request: every connected member of the room (that
   joined at a clock value not after the request, and was never told about the fresh id) receives the join. *)
Theorem C19_add_delivered : forall h c sid s v rn user flags incall r m t cm,
  WF h -> conn_session h c sid s -> is_internal (s_kind s) = true ->
  room_of h (s_backend s, rn) = Some r -> h_bus h = [] ->
  get_sess h m = Some t -> is_virtual (s_kind t) = false -> s_conn t = Some cm ->
  s_room t = Some (s_backend s, rn) -> s_join t <= h_clock h -> nmem (next_id h) (s_seen t) = false ->
  In (ToConn cm (SJoin [(next_id h, user)])) (snd (qstep h (OInternal c (IAdd v rn user flags incall)))).
Proof. exact add_delivered. Qed.

(* The internal client removes the virtual session registered under the id it chose (the room the
   request names exists; the session is in room k): the session is gone, it is a member of no room
   and referenced by no table, its leave is queued on the subject of room k, the backend is told,
   the table entry is gone. *)
Theorem C19_remove_invisible : forall h c sid s v rn r0 vs t k,
  WF h -> conn_session h c sid s -> is_internal (s_kind s) = true ->
  room_of h (s_backend s, rn) = Some r0 -> pget (h_vtable h) (sid, v) = Some vs ->
  get_sess h vs = Some t -> s_room t = Some k ->
  let res := step h (OInternal c (IRemove v rn)) in
  s_kind t = KVirtual sid v /\
  get_sess (fst res) vs = None /\
  (forall k' r', room_of (fst res) k' = Some r' -> ~ In vs (r_members r')) /\
  unreferenced (fst res) vs /\
  In (ToBackend (s_backend t, 2, 3, snd k, vs, 1)) (snd res) /\
  (exists l, h_bus (fst res) =
             h_bus h ++ mkpub (SubjRoom (fst k) (snd k)) (ARoomEvent (SLeave [vs])) (h_clock h) :: l) /\
  pget (h_vtable (fst res)) (sid, v) = None.
Proof. exact remove_invisible. Qed.

(* Delivering a leave publication writes it to the connection of every ordinary / internal session in
   the room that joined before the publication. *)
Theorem C19_leave_delivery : forall h b rn vs tm m cm t,
  get_sess h m = Some t -> is_virtual (s_kind t) = false -> s_conn t = Some cm ->
  s_room t = Some (b, rn) -> s_join t <= tm ->
  In (ToConn cm (SLeave [vs]))
     (snd (deliver_pub h (mkpub (SubjRoom b rn) (ARoomEvent (SLeave [vs])) tm))).
Proof. exact leave_delivery. Qed.

(* Quiescent semantics, nothing queued before: every connected member of room k receives the leave,
   and the backend is told. *)
Theorem C19_remove_delivered : forall h c sid s v rn r0 vs t k m tm cm,
  WF h -> conn_session h c sid s -> is_internal (s_kind s) = true ->
  room_of h (s_backend s, rn) = Some r0 -> pget (h_vtable h) (sid, v) = Some vs ->
  get_sess h vs = Some t -> s_room t = Some k -> h_bus h = [] ->
  get_sess h m = Some tm -> is_virtual (s_kind tm) = false -> s_conn tm = Some cm ->
  s_room tm = Some k -> s_join tm <= h_clock h ->
  In (ToConn cm (SLeave [vs])) (snd (qstep h (OInternal c (IRemove v rn)))) /\
  In (ToBackend (s_backend t, 2, 3, snd k, vs, 1)) (snd (qstep h (OInternal c (IRemove v rn)))).
Proof. exact remove_delivered. Qed.

(* The session of the internal client is closed (bye, expiry, kick, resume takeover ... all go through
   close_session): each of its virtual sessions that is in a room is gone, a member of no room, its
   leave is queued (stamped not before the clock value of the state), the backend is told. *)
Theorem C19_parent_close_removes : forall h p vs t v k,
  WF h -> get_sess h vs = Some t -> s_kind t = KVirtual p v -> s_room t = Some k ->
  let res := close_session h p in
  get_sess (fst res) vs = None /\
  (forall k' r', room_of (fst res) k' = Some r' -> ~ In vs (r_members r')) /\
  In (ToBackend (s_backend t, 2, 3, snd k, vs, 1)) (snd res) /\
  exists l tm, h_bus (fst res) = h_bus h ++ l /\
               In (mkpub (SubjRoom (fst k) (snd k)) (ARoomEvent (SLeave [vs])) tm) l /\ h_clock h <= tm.
Proof. exact parent_close_removes. Qed.

(* The internal client says bye. *)
Theorem C19_bye_removes_virtual : forall h c cn p vs t v k,
  WF h -> aget (h_conns h) c = Some cn -> c_sess cn = Some p ->
  get_sess h vs = Some t -> s_kind t = KVirtual p v -> s_room t = Some k ->
  let res := step h (OBye c) in
  get_sess (fst res) vs = None /\
  (forall k' r', room_of (fst res) k' = Some r' -> ~ In vs (r_members r')) /\
  In (ToBackend (s_backend t, 2, 3, snd k, vs, 1)) (snd res) /\
  exists l tm, h_bus (fst res) = h_bus h ++ l /\
               In (mkpub (SubjRoom (fst k) (snd k)) (ARoomEvent (SLeave [vs])) tm) l /\ h_clock h <= tm.
Proof. exact bye_removes_virtual. Qed.

(* ... in the quiescent semantics (nothing queued before; the quiescent step delivers up to 500
   publications): every other connected member of room k receives the leave of the virtual session,
   and the backend is told. *)
Theorem C19_bye_leave_delivered : forall h c cn p vs t v k m tm cm,
  WF h -> aget (h_conns h) c = Some cn -> c_sess cn = Some p ->
  get_sess h vs = Some t -> s_kind t = KVirtual p v -> s_room t = Some k -> h_bus h = [] ->
  (length (h_bus (fst (step h (OBye c)))) <= 500)%nat ->
  m <> p -> get_sess h m = Some tm -> is_virtual (s_kind tm) = false -> s_conn tm = Some cm ->
  s_room tm = Some k -> s_join tm <= h_clock h ->
  In (ToConn cm (SLeave [vs])) (snd (qstep h (OBye c))) /\
  In (ToBackend (s_backend t, 2, 3, snd k, vs, 1)) (snd (qstep h (OBye c))).
Proof. exact bye_leave_delivered. Qed.

(* The statements are not vacuous: on the model, an ordinary client in room 1, an internal client adds
   a virtual session (id 3), then removes it / says bye; the outputs of the last request. *)
Example C19_instance_add :
  last_outs (init [0; 0] false) (ex_pre ++ [ex_add]) =
  [ToBackend (0, 2, 2, 1, 3, 1); ToConn 1 (SJoin [(3, 9)]); ToConn 2 (SJoin [(3, 9)]); ToConn 1 (SPart 0); ToConn 2 (SPart 0)].
Proof. exact ex_add_announced. Qed.
Example C19_instance_remove :
  last_outs (init [0; 0] false) (ex_pre ++ [ex_add; OInternal 2 (IRemove 5 1)]) =
  [ToBackend (0, 2, 3, 1, 3, 1); ToConn 1 (SLeave [3]); ToConn 2 (SLeave [3])].
Proof. exact ex_remove_announced. Qed.
Example C19_instance_bye :
  last_outs (init [0; 0] false) (ex_pre ++ [ex_add; OBye 2]) =
  [ToConn 2 (SBye 0); Closed 2; ToBackend (0, 2, 3, 1, 3, 1); ToConn 1 (SLeave [2]); ToConn 1 (SLeave [3])].
Proof. exact ex_bye_announced. Qed.

Print Assumptions C19_virtual_gate.
Print Assumptions C19_invariant_every_history.
Print Assumptions C19_virtual_has_live_internal_parent.
Print Assumptions C19_virtual_gone_with_parent.
Print Assumptions C19_virtual_table_sound.
Print Assumptions C19_message_to_virtual_rewritten.
Print Assumptions C19_add_visible.
Print Assumptions C19_backend_told_on_add.
Print Assumptions C19_join_delivery.
Print Assumptions C19_add_delivered.
Print Assumptions C19_remove_invisible.
Print Assumptions C19_leave_delivery.
Print Assumptions C19_remove_delivered.
Print Assumptions C19_parent_close_removes.
Print Assumptions C19_bye_removes_virtual.
Print Assumptions C19_bye_leave_delivered.
Print Assumptions C19_instance_add.
Print Assumptions C19_instance_remove.
Print Assumptions C19_instance_bye.
