(* C19 — Virtual sessions exist only through, and only as long as, their internal client. *)
From Coq Require Import List NArith Bool.
From Verif Require Import model.Hub proofs.Hub_easy proofs.Hub_route proofs.Hub_wf proofs.Hub_corollaries.
Import ListNotations.
Open Scope N_scope.

(* The same requests from ordinary clients do nothing. *)
Theorem C19_virtual_gate : forall h c sid s q,
  conn_session h c sid s -> is_internal s.(s_kind) = false -> step h (OInternal c q) = (h, []).
Proof. exact virtual_gate. Qed.

(* In every reachable state a virtual session hangs off a live internal client session ... *)
Theorem C19_invariant_every_history : forall limits gated ops, WF (run (init limits gated) ops).
Proof. exact wf_reachable. Qed.
Theorem C19_virtual_has_live_internal_parent : forall h vs s p v, WF h ->
  get_sess h vs = Some s -> s.(s_kind) = KVirtual p v ->
  exists ps, get_sess h p = Some ps /\ is_internal ps.(s_kind) = true.
Proof. exact virtual_has_live_internal_parent. Qed.
(* ... so once the internal client's session ended, no virtual session of it exists, *)
Theorem C19_virtual_gone_with_parent : forall h p, WF h -> get_sess h p = None ->
  forall vs s v, get_sess h vs = Some s -> s.(s_kind) <> KVirtual p v.
Proof. exact virtual_gone_with_parent. Qed.
(* and the table entry (client, chosen id) -> session always names a live virtual session of that client. *)
Theorem C19_virtual_table_sound : forall h p v vs, WF h -> pget h.(h_vtable) (p, v) = Some vs ->
  exists s, get_sess h vs = Some s /\ s.(s_kind) = KVirtual p v.
Proof. exact virtual_table_sound. Qed.

(* A message addressed to the virtual session's public id reaches its internal client's connection
   with the recipient rewritten to the identifier the client chose. *)
Theorem C19_message_to_virtual_rewritten : forall h c sid s n t p v ps c' tag,
  conn_session h c sid s -> get_sess h n = Some t -> t.(s_kind) = KVirtual p v ->
  t.(s_backend) = s.(s_backend) -> n <> sid ->
  get_sess h p = Some ps -> is_virtual ps.(s_kind) = false -> ps.(s_conn) = Some c' ->
  snd (step h (OMsg c (RSession (IdPub n)) tag)) =
  [ToConn c' (delivered 0 (RSession (IdPub n)) sid (sess_userid h sid s) (Some (RcptVirtual v)) tag)].
Proof. exact message_to_virtual_rewritten. Qed.
(* C19_add_visible / C19_backend_told (partial): that an added session is a member of the room and
   announced, and that the backend is told on add and remove, is checked on implementation traces by
   P_C19 (step_C19) and by the comparison with the model. *)

Print Assumptions C19_virtual_gate.
Print Assumptions C19_invariant_every_history.
Print Assumptions C19_virtual_has_live_internal_parent.
Print Assumptions C19_virtual_gone_with_parent.
Print Assumptions C19_virtual_table_sound.
Print Assumptions C19_message_to_virtual_rewritten.
