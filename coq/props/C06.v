(* C06 — A dropped connection can be resumed without loss; bye and expiry are final. *)
From Coq Require Import List NArith Bool.
From Verif Require Import model.Hub proofs.Hub_easy proofs.Hub_route proofs.Hub_wf proofs.Hub_corollaries proofs.Hub_pending.
Import ListNotations.
Open Scope N_scope.

(* Resuming a disconnected session: the same session id first, then every message queued meanwhile,
   in order, once; the session keeps its room; nothing stays queued; it no longer expires.
   (queue_closes s: the queue holds a bye, or a disinvite from the room the session is in; such a
   message closes the connection it is written to, at the resume like at any other time: next theorem.) *)
Theorem C06_resume_flushes_queue : forall h c cn n s,
  aget h.(h_conns) c = Some cn -> cn.(c_sess) = None -> get_sess h n = Some s ->
  is_virtual s.(s_kind) = false -> s.(s_conn) = None -> throttled h cn.(c_addr) ACT_RESUME = false ->
  queue_closes s = false ->
  let '(h', outs) := step h (OHello c (HResume (IdPriv n))) in
  outs = ToConn c (SHello n (sess_userid h n s)) :: map (ToConn c) s.(s_pending) /\
  (exists s', get_sess h' n = Some s' /\ s'.(s_conn) = Some c /\ s'.(s_pending) = [] /\ s'.(s_room) = s.(s_room)) /\
  nmem n h'.(h_expired) = false.
Proof. exact resume_flushes_queue. Qed.
(* The queue holds a closing message: the resume still writes the session id and the queue, in order,
   once, up to and including the first closing message (upto_closing; what was queued after it is not
   written: the close frame has been sent); then the connection is closed (nothing else is written to
   any connection) and the session is gone. *)
Theorem C06_resume_closing_queue : forall h c cn n s,
  aget h.(h_conns) c = Some cn -> cn.(c_sess) = None -> get_sess h n = Some s ->
  is_virtual s.(s_kind) = false -> s.(s_conn) = None -> throttled h cn.(c_addr) ACT_RESUME = false ->
  queue_closes s = true ->
  let '(h', outs) := step h (OHello c (HResume (IdPriv n))) in
  (exists rest, outs = ToConn c (SHello n (sess_userid h n s)) :: map (ToConn c) (upto_closing s.(s_room) s.(s_pending)) ++ Closed c :: rest /\
                (forall c' m, ~ In (ToConn c' m) rest)) /\
  get_sess h' n = None.
Proof. exact resume_closing_queue. Qed.
(* upto_closing: the whole queue when nothing in it closes the connection; otherwise the prefix of the
   queue that ends with the first closing message *)
Theorem C06_upto_closing_none : forall s, queue_closes s = false -> upto_closing (s_room s) (s_pending s) = s_pending s.
Proof. exact upto_closing_none. Qed.
Theorem C06_upto_closing_spec : forall room l, existsb (closing_in room) l = true ->
  exists pre m post, l = pre ++ m :: post /\ upto_closing room l = pre ++ [m] /\
                     closing_in room m = true /\ existsb (closing_in room) pre = false.
Proof. exact upto_closing_spec. Qed.

(* While disconnected, a message addressed to the session is appended to its queue (nothing is
   written anywhere, nothing is dropped; enqueue keeps a single chat-refresh notice: "repeated
   chat-refresh notices may be merged into one"). *)
Theorem C06_queued_while_disconnected : forall h x t m,
  get_sess h x = Some t -> t.(s_conn) = None ->
  (match m with SJoin _ | SLeave _ => False | _ => True end) ->
  snd (deliver_to_session h x m) = [] /\
  exists t', get_sess (fst (deliver_to_session h x m)) x = Some t' /\ t'.(s_pending) = enqueue t.(s_pending) m.
Proof. exact deliver_queued. Qed.

(* The public session id (or anything but a private id) never works as a resume id. *)
Theorem C06_resume_needs_private_id : forall h c cn i,
  aget h.(h_conns) c = Some cn -> cn.(c_sess) = None -> (forall n, i <> IdPriv n) ->
  let '(h', outs) := step h (OHello c (HResume i)) in
  (outs = [ToConn c (SError E_no_such_session)] \/ outs = [ToConn c (SError E_too_many_requests)]) /\
  h_sessions h' = h_sessions h /\
  (exists cn', aget h'.(h_conns) c = Some cn' /\ cn'.(c_sess) = None).
Proof. exact resume_needs_private_id. Qed.

(* After bye, expiry or kick the session is gone and referenced nowhere (so it has left its room) ... *)
Theorem C06_close_is_final : forall h sid, WF h ->
  let h' := fst (close_session h sid) in
  get_sess h' sid = None /\ WF h' /\ unreferenced h' sid.
Proof. exact close_session_ends. Qed.
(* ... and its resume id is refused with no_such_session. *)
Theorem C06_resume_of_ended_session_refused : forall h c cn n,
  aget h.(h_conns) c = Some cn -> cn.(c_sess) = None -> get_sess h n = None ->
  let '(h', outs) := step h (OHello c (HResume (IdPriv n))) in
  (outs = [ToConn c (SError E_no_such_session)] \/ outs = [ToConn c (SError E_too_many_requests)]) /\
  h_sessions h' = h_sessions h.
Proof. exact resume_of_ended_session_refused. Qed.
(* C06_takeover / attach-then-flush ordering: the second resume (takeover) and the order in which a
   message racing with the flush arrives are checked on implementation traces by P_C06 (step_C06);
   the window between SetClient and the flush cannot be forced on the real code and is not modelled
   (partial). *)

(* ---------------------------------------------------------------- for every history (proofs/Hub_pending.v) *)
(* stepx false / runx false are step / run, stepx true / runx true the quiescent qstep / qrun.
   Good h = WF h /\ Inv h holds in every reachable state of either semantics; Inv says that session
   ids are never handed out twice and that a session with a connection has nothing queued. *)
Theorem C06_reachable_good : forall h, reachable h -> Good h.
Proof. exact reachable_good. Qed.
Theorem C06_reachable_q_good : forall h, reachable_q h -> Good h.
Proof. exact reachable_q_good. Qed.

(* 1. If a session has no connection after a step, what was in its queue before the step is still
   there in the same order and whatever the step queued comes after it (enqueue appends, except that a
   chat-refresh notice is dropped when one is queued already). *)
Theorem C06_queue_only_grows : forall q h o sid s s',
  Inv h -> get_sess h sid = Some s -> get_sess (fst (stepx q h o)) sid = Some s' -> s_conn s' = None ->
  exists l, s_pending s' = s_pending s ++ l.
Proof. exact queue_kept_stepx. Qed.
(* ... and a session with a connection has an empty queue *)
Theorem C06_connected_queue_empty : forall h sid s c,
  Inv h -> get_sess h sid = Some s -> s_conn s = Some c -> s_pending s = [].
Proof. exact connected_queue_empty. Qed.
(* Over a segment of any length during which the session has no connection: the queue at the end is
   the queue at the start followed by what each step appended, in step order. *)
Theorem C06_queue_over_segment : forall q sid ops h,
  Inv h -> live h sid -> stays_disc q sid h ops ->
  pend (runx q h ops) sid = pend h sid ++ appended q sid h ops.
Proof. exact queue_over_segment. Qed.

(* 2. What is appended is what was sent: no connection, nothing written, the message queued ... *)
Theorem C06_send_to_disconnected : forall h sid m t,
  get_sess h (target h sid) = Some t -> s_conn t = None ->
  snd (send_session h sid m) = [] /\
  exists t', get_sess (fst (send_session h sid m)) (target h sid) = Some t' /\ s_conn t' = None /\
             s_pending t' = match filtered t m with Some mm => enqueue (s_pending t) mm | None => s_pending t end.
Proof. exact send_to_disconnected. Qed.
(* ... a connection: exactly one copy written to it, nothing queued. *)
Theorem C06_send_to_connected : forall h sid m t c,
  get_sess h (target h sid) = Some t -> s_conn t = Some c -> never_closing m = true ->
  snd (send_session h sid m) = match filtered t m with Some mm => [ToConn c mm] | None => [] end /\
  exists t', get_sess (fst (send_session h sid m)) (target h sid) = Some t' /\ s_conn t' = Some c /\
             s_pending t' = s_pending t.
Proof. exact send_to_connected. Qed.

(* 3. The connection is cut, the session has no connection after each of the following ops, then it
   resumes: the answer is the same session id followed by exactly what was appended to the queue
   since the cut, in order, once; the queue is empty afterwards, the session keeps its room, is
   attached to the new connection and no longer expires -- when nothing that was appended closes the
   connection it is written to (closing_in room m: m is a bye, or a disinvite from `room`; the room
   is the one the session is in at the resume). *)
Theorem C06_drop_then_resume : forall q h0 c0 cn0 sid ops c cn,
  Good h0 -> aget (h_conns h0) c0 = Some cn0 -> c_sess cn0 = Some sid ->
  stays_disc q sid h0 (ODrop c0 :: ops) ->
  let hj := runx q h0 (ODrop c0 :: ops) in
  aget (h_conns hj) c = Some cn -> c_sess cn = None -> throttled hj (c_addr cn) ACT_RESUME = false ->
  (forall s, get_sess hj sid = Some s -> is_virtual (s_kind s) = false) ->
  (forall s, get_sess hj sid = Some s -> existsb (closing_in (s_room s)) (appended q sid h0 (ODrop c0 :: ops)) = false) ->
  exists s, get_sess hj sid = Some s /\ s_conn s = None /\
  let '(h', outs) := step hj (OHello c (HResume (IdPriv sid))) in
  outs = ToConn c (SHello sid (sess_userid hj sid s)) :: map (ToConn c) (appended q sid h0 (ODrop c0 :: ops)) /\
  (exists s', get_sess h' sid = Some s' /\ s_conn s' = Some c /\ s_pending s' = [] /\ s_room s' = s_room s) /\
  nmem sid (h_expired h') = false.
Proof. exact drop_then_resume. Qed.
(* ... and when something that was appended does close the connection (a bye, a disinvite from the
   session's room): the resume still answers with the session id followed by exactly what was appended
   since the cut, in order, once, up to and including the first closing message (C06_upto_closing_spec);
   then the connection is closed, nothing else is written to any connection, and the session is gone
   for EVERY continuation: not live, referenced nowhere, its resume id refused (as after a bye, 4. below). *)
Theorem C06_drop_then_resume_closing : forall q h0 c0 cn0 sid ops c cn,
  Good h0 -> aget (h_conns h0) c0 = Some cn0 -> c_sess cn0 = Some sid ->
  stays_disc q sid h0 (ODrop c0 :: ops) ->
  let hj := runx q h0 (ODrop c0 :: ops) in
  aget (h_conns hj) c = Some cn -> c_sess cn = None -> throttled hj (c_addr cn) ACT_RESUME = false ->
  (forall s, get_sess hj sid = Some s -> is_virtual (s_kind s) = false) ->
  (forall s, get_sess hj sid = Some s -> existsb (closing_in (s_room s)) (appended q sid h0 (ODrop c0 :: ops)) = true) ->
  let o := OHello c (HResume (IdPriv sid)) in
  exists s, get_sess hj sid = Some s /\ s_conn s = None /\
  (exists rest, snd (step hj o) =
     ToConn c (SHello sid (sess_userid hj sid s)) :: map (ToConn c) (upto_closing (s_room s) (appended q sid h0 (ODrop c0 :: ops))) ++ Closed c :: rest /\
     (forall c' m, ~ In (ToConn c' m) rest)) /\
  get_sess (fst (step hj o)) sid = None /\ unreferenced (fst (step hj o)) sid /\
  forall ops', let h2 := runx q (fst (stepx q hj o)) ops' in
    get_sess h2 sid = None /\ unreferenced h2 sid /\
    forall c' cn', aget (h_conns h2) c' = Some cn' -> c_sess cn' = None ->
      let '(h3, outs) := step h2 (OHello c' (HResume (IdPriv sid))) in
      outs = [ToConn c' (SError (if throttled h2 cn'.(c_addr) ACT_RESUME then E_too_many_requests else E_no_such_session))] /\
      h_sessions h3 = h_sessions h2.
Proof. exact drop_then_resume_closing. Qed.
(* the same from any state in which the session is live and disconnected, with whatever is queued *)
Theorem C06_resume_closing_is_final : forall q h c cn sid s,
  Good h -> aget (h_conns h) c = Some cn -> c_sess cn = None -> get_sess h sid = Some s ->
  is_virtual (s_kind s) = false -> s_conn s = None -> throttled h (c_addr cn) ACT_RESUME = false ->
  queue_closes s = true ->
  let o := OHello c (HResume (IdPriv sid)) in
  (exists rest, snd (step h o) =
     ToConn c (SHello sid (sess_userid h sid s)) :: map (ToConn c) (upto_closing (s_room s) (s_pending s)) ++ Closed c :: rest /\
     (forall c' m, ~ In (ToConn c' m) rest)) /\
  get_sess (fst (step h o)) sid = None /\ unreferenced (fst (step h o)) sid /\
  forall ops', let h2 := runx q (fst (stepx q h o)) ops' in
    get_sess h2 sid = None /\ unreferenced h2 sid /\
    forall c' cn', aget (h_conns h2) c' = Some cn' -> c_sess cn' = None ->
      let '(h3, outs) := step h2 (OHello c' (HResume (IdPriv sid))) in
      outs = [ToConn c' (SError (if throttled h2 cn'.(c_addr) ACT_RESUME then E_too_many_requests else E_no_such_session))] /\
      h_sessions h3 = h_sessions h2.
Proof. exact resume_closing_is_final. Qed.

(* 4. After the bye of the session's connection, for EVERY continuation: the session is not live, is
   referenced nowhere (member of no room), and its resume id is refused (no_such_session, or
   too_many_requests for a throttled address: see resume_refusal_code_refuted) and creates nothing. *)
Theorem C06_bye_is_final : forall q h c cn sid,
  Good h -> aget (h_conns h) c = Some cn -> c_sess cn = Some sid ->
  forall ops', let h2 := runx q (fst (stepx q h (OBye c))) ops' in
    get_sess h2 sid = None /\ unreferenced h2 sid /\
    forall c' cn', aget (h_conns h2) c' = Some cn' -> c_sess cn' = None ->
      let '(h3, outs) := step h2 (OHello c' (HResume (IdPriv sid))) in
      outs = [ToConn c' (SError (if throttled h2 cn'.(c_addr) ACT_RESUME then E_too_many_requests else E_no_such_session))] /\
      h_sessions h3 = h_sessions h2.
Proof. exact bye_is_final. Qed.
(* The same after the tick that ends the expiry window of a session whose connection was cut. *)
Theorem C06_expiry_is_final : forall q h sid secs,
  Good h -> In sid (h_expired h) -> hub_expire_s < secs ->
  forall ops', let h2 := runx q (fst (stepx q h (OTick secs))) ops' in
    get_sess h2 sid = None /\ unreferenced h2 sid /\
    forall c' cn', aget (h_conns h2) c' = Some cn' -> c_sess cn' = None ->
      let '(h3, outs) := step h2 (OHello c' (HResume (IdPriv sid))) in
      outs = [ToConn c' (SError (if throttled h2 cn'.(c_addr) ACT_RESUME then E_too_many_requests else E_no_such_session))] /\
      h_sessions h3 = h_sessions h2.
Proof. exact expiry_is_final. Qed.
Theorem C06_cut_marks_for_expiry : forall h c cn sid,
  WF h -> aget (h_conns h) c = Some cn -> c_sess cn = Some sid ->
  In sid (h_expired (fst (step h (ODrop c)))) /\ disc (fst (step h (ODrop c))) sid.
Proof. exact drop_marks_expired. Qed.

(* Nothing above is vacuous: two sessions, the first one's connection is cut, the second sends it two
   messages, a new connection resumes.  Every hypothesis of C06_drop_then_resume holds and the
   resume writes the hello and the two messages. *)
Definition ex_pre : list op := [OConnect 1 100; OHello 1 (HV1 0 7 false); OConnect 2 101; OHello 2 (HV1 0 8 false)].
Definition ex_seg : list op := [OMsg 2 (RSession (IdPub 1)) 41; OMsg 2 (RSession (IdPub 1)) 42; OConnect 3 102].
Example C06_example_cut_two_messages_resume :
  let h0 := run (init [0] false) ex_pre in
  let hj := runx false h0 (ODrop 1 :: ex_seg) in
  reachable h0 /\
  (exists cn0, aget (h_conns h0) 1 = Some cn0 /\ c_sess cn0 = Some 1) /\
  stays_disc false 1 h0 (ODrop 1 :: ex_seg) /\
  (exists cn, aget (h_conns hj) 3 = Some cn /\ c_sess cn = None /\ throttled hj (c_addr cn) ACT_RESUME = false) /\
  (forall s, get_sess hj 1 = Some s -> is_virtual (s_kind s) = false) /\
  (forall s, get_sess hj 1 = Some s -> existsb (closing_in (s_room s)) (appended false 1 h0 (ODrop 1 :: ex_seg)) = false) /\
  appended false 1 h0 (ODrop 1 :: ex_seg) = [SMsg 0 0 2 8 None 41; SMsg 0 0 2 8 None 42] /\
  snd (step hj (OHello 3 (HResume (IdPriv 1)))) =
    [ToConn 3 (SHello 1 7); ToConn 3 (SMsg 0 0 2 8 None 41); ToConn 3 (SMsg 0 0 2 8 None 42)].
Proof.
  cbv zeta. split; [exists [0], false, ex_pre; reflexivity|].
  split; [eexists; split; [vm_compute; reflexivity|reflexivity]|].
  split.
  { unfold ex_seg. cbn [stays_disc].
    repeat split; (eexists; split; [vm_compute; reflexivity|reflexivity]). }
  split; [eexists; split; [vm_compute; reflexivity|split; [reflexivity|vm_compute; reflexivity]]|].
  split; [intros s Hs; vm_compute in Hs; injection Hs as <-; reflexivity|].
  split; [intros s Hs; vm_compute in Hs; injection Hs as <-; vm_compute; reflexivity|].
  split; vm_compute; reflexivity.
Qed.
(* The closing case is not vacuous either: two sessions in room 5 (room session ids 11 and 12), the
   first one's connection is cut, the second sends it a message, the backend disinvites room session 11
   from room 5, the second sends another message, a new connection resumes.  Every hypothesis of
   C06_drop_then_resume_closing holds (quiescent semantics: the disinvite reaches the session through
   the bus); all three are queued; the resume writes the hello, the first message and the disinvite;
   the message queued after the disinvite is NOT written; then the connection is closed and the
   session is gone (its room-mate is told that it left). *)
Definition dis_pre : list op :=
  [OConnect 1 100; OHello 1 (HV1 0 7 false); OJoin 1 5 11 (RepOk None 0);
   OConnect 2 101; OHello 2 (HV1 0 8 false); OJoin 2 5 12 (RepOk None 0)].
Definition dis_seg : list op :=
  [OMsg 2 (RSession (IdPub 1)) 41; OApi 0 0 5 (ADisinvite [] [11]); OMsg 2 (RSession (IdPub 1)) 42; OConnect 3 102].
Example C06_example_queued_disinvite_resume :
  let h0 := qrun (init [0] false) dis_pre in
  let hj := runx true h0 (ODrop 1 :: dis_seg) in
  reachable_q h0 /\
  (exists cn0, aget (h_conns h0) 1 = Some cn0 /\ c_sess cn0 = Some 1) /\
  stays_disc true 1 h0 (ODrop 1 :: dis_seg) /\
  (exists cn, aget (h_conns hj) 3 = Some cn /\ c_sess cn = None /\ throttled hj (c_addr cn) ACT_RESUME = false) /\
  (forall s, get_sess hj 1 = Some s -> is_virtual (s_kind s) = false) /\
  (forall s, get_sess hj 1 = Some s -> existsb (closing_in (s_room s)) (appended true 1 h0 (ODrop 1 :: dis_seg)) = true) /\
  option_map s_room (get_sess hj 1) = Some (Some (0, 5)) /\
  appended true 1 h0 (ODrop 1 :: dis_seg) = [SMsg 0 0 2 8 None 41; SDisinvite 5; SMsg 0 0 2 8 None 42] /\
  upto_closing (Some (0, 5)) (appended true 1 h0 (ODrop 1 :: dis_seg)) = [SMsg 0 0 2 8 None 41; SDisinvite 5] /\
  snd (step hj (OHello 3 (HResume (IdPriv 1)))) =
    [ToConn 3 (SHello 1 7); ToConn 3 (SMsg 0 0 2 8 None 41); ToConn 3 (SDisinvite 5); Closed 3;
     ToBackend (0, 1, 1, 5, 1000011, 1)] /\
  snd (qstep hj (OHello 3 (HResume (IdPriv 1)))) =
    [ToConn 3 (SHello 1 7); ToConn 3 (SMsg 0 0 2 8 None 41); ToConn 3 (SDisinvite 5); Closed 3;
     ToBackend (0, 1, 1, 5, 1000011, 1); ToConn 2 (SLeave [1])] /\
  ~ In (ToConn 3 (SMsg 0 0 2 8 None 42)) (snd (qstep hj (OHello 3 (HResume (IdPriv 1))))) /\
  get_sess (fst (qstep hj (OHello 3 (HResume (IdPriv 1))))) 1 = None /\
  aget (h_conns (fst (qstep hj (OHello 3 (HResume (IdPriv 1)))))) 3 = None.
Proof.
  cbv zeta. split; [exists [0], false, dis_pre; reflexivity|].
  split; [eexists; split; [vm_compute; reflexivity|reflexivity]|].
  split.
  { unfold dis_seg. cbn [stays_disc].
    repeat split; (eexists; split; [vm_compute; reflexivity|reflexivity]). }
  split; [eexists; split; [vm_compute; reflexivity|split; [reflexivity|vm_compute; reflexivity]]|].
  split; [intros s Hs; vm_compute in Hs; injection Hs as <-; reflexivity|].
  split; [intros s Hs; vm_compute in Hs; injection Hs as <-; vm_compute; reflexivity|].
  split; [vm_compute; reflexivity|]. split; [vm_compute; reflexivity|]. split; [vm_compute; reflexivity|].
  split; [vm_compute; reflexivity|]. split; [vm_compute; reflexivity|].
  split; [vm_compute; intros H; repeat (destruct H as [H|H]; [discriminate H|]); exact H|].
  split; vm_compute; reflexivity.
Qed.
(* and for finality: a session with a connection (bye), a session marked for expiry (tick) *)
Example C06_example_final :
  let h := run (init [0] false) [OConnect 1 100; OHello 1 (HV1 0 7 false)] in
  reachable h /\ (exists cn, aget (h_conns h) 1 = Some cn /\ c_sess cn = Some 1) /\
  In 1 (h_expired (fst (step h (ODrop 1)))).
Proof.
  cbv zeta. split; [exists [0], false, [OConnect 1 100; OHello 1 (HV1 0 7 false)]; reflexivity|].
  split; [eexists; split; [vm_compute; reflexivity|reflexivity]|]. vm_compute. now left.
Qed.

(* The notice that the session's room was deleted while it had no connection is queued like any other
   message and delivered by the resume (the code as found dropped it: repaired, see Hub_pending.v). *)
Theorem C06_room_deleted_while_disconnected_repaired :
  snd (qstep (qrun (init [0] false) del_pre) (OApi 0 0 5 ADelete)) = [ToConn 1 (SRoom 0)] /\
  option_map s_room (get_sess (qrun (init [0] false) (del_pre ++ [ODrop 1])) 1) = Some (Some (0, 5)) /\
  pend (qrun (init [0] false) del_cut) 1 = [SRoom 0] /\
  snd (qstep (qrun (init [0] false) del_cut) (OHello 2 (HResume (IdPriv 1)))) = [ToConn 2 (SHello 1 7); ToConn 2 (SRoom 0)] /\
  option_map s_room (get_sess (fst (qstep (qrun (init [0] false) del_cut) (OHello 2 (HResume (IdPriv 1))))) 1) = Some None.
Proof. exact room_deleted_while_disconnected_repaired. Qed.

(* "repeated chat-refresh notices may be merged into one": what is queued for a disconnected session is
   appended, except a chat-refresh notice while one is already in the queue; so the queue holds at most
   one more than it did, every other message is kept in order. *)
Theorem C06_enqueue_appends : forall q m, is_chat_refresh m = false -> enqueue q m = q ++ [m].
Proof. exact enqueue_plain. Qed.
Theorem C06_enqueue_first_chat_refresh : forall q m, existsb is_chat_refresh q = false -> enqueue q m = q ++ [m].
Proof. exact enqueue_first. Qed.
Theorem C06_enqueue_merges_repeated_chat_refresh : forall q m,
  is_chat_refresh m = true -> existsb is_chat_refresh q = true -> enqueue q m = q.
Proof. exact enqueue_merged. Qed.

Print Assumptions C06_enqueue_appends.
Print Assumptions C06_enqueue_first_chat_refresh.
Print Assumptions C06_enqueue_merges_repeated_chat_refresh.
Print Assumptions C06_room_deleted_while_disconnected_repaired.
(* The forced schedule of the harness "room join held at the backend, connection cut, a message for the session,
   resume on a new connection, the backend replies" is written as the sequential history below (notes/strengthen-h2.md).
   On the model's own trace of it the trace predicates of C06 and C07 - with the clauses "only sessions without a
   connection wait for expiry", "the clients table holds exactly the sessions that have a connection", "a session that
   has its connection survives the passing of time" - find nothing; and a digest in which the resumed session, attached
   to connection 3, is in the expiry list and not in the clients table is rejected by both clauses. *)
From Verif Require Import corr.Hub_preds proofs.Hub_refuted.
Definition held_join_ops : list op :=
  [OConnect 1 0; OConnect 2 0; OHello 1 (HV1 0 1 false); OHello 2 (HV1 0 2 false); OJoin 1 1 1 (RepOk None 0);
   ODrop 2; OMsg 1 (RSession (IdPub 2)) 31; OConnect 3 0; OHello 3 (HResume (IdPriv 2)); OJoin 3 1 2 (RepOk None 0);
   OMsg 1 (RSession (IdPub 2)) 41; OTick 40; OMsg 1 (RSession (IdPub 2)) 43;
   ODrop 3; OMsg 1 (RSession (IdPub 2)) 45; OConnect 4 0; OHello 4 (HResume (IdPriv 2)); OTick 40].
Example C06_example_held_join_history :
  P_hub 6 (model_case 1 [0; 0] held_join_ops) = None /\ P_hub 7 (model_case 1 [0; 0] held_join_ops) = None.
Proof. split; vm_compute; reflexivity. Qed.
Example C06_example_attached_session_expiring_rejected :
  let dg := mkdigest [mksd 2 0 0 2 2 (Some (0, 1)) 2 (Some 3) false None 0 0 0 false 0 0]
                     [((0, 1), [2], [])] [(2, 2)] [(2, 2)] [] [2] [] [] [] 0 1 1 1 1 0 0 [0; 0] [((0, 1), [])] in
  expiring_unattached dg = false /\ clients_attached dg = false.
Proof. split; vm_compute; reflexivity. Qed.

Print Assumptions C06_resume_flushes_queue.
Print Assumptions C06_resume_closing_queue.
Print Assumptions C06_upto_closing_none.
Print Assumptions C06_upto_closing_spec.
Print Assumptions C06_queued_while_disconnected.
Print Assumptions C06_resume_needs_private_id.
Print Assumptions C06_close_is_final.
Print Assumptions C06_resume_of_ended_session_refused.
Print Assumptions C06_reachable_good.
Print Assumptions C06_reachable_q_good.
Print Assumptions C06_queue_only_grows.
Print Assumptions C06_connected_queue_empty.
Print Assumptions C06_queue_over_segment.
Print Assumptions C06_send_to_disconnected.
Print Assumptions C06_send_to_connected.
Print Assumptions C06_drop_then_resume.
Print Assumptions C06_drop_then_resume_closing.
Print Assumptions C06_resume_closing_is_final.
Print Assumptions C06_bye_is_final.
Print Assumptions C06_expiry_is_final.
Print Assumptions C06_cut_marks_for_expiry.
Print Assumptions C06_example_cut_two_messages_resume.
Print Assumptions C06_example_queued_disinvite_resume.
Print Assumptions C06_example_final.
Print Assumptions C06_example_held_join_history.
Print Assumptions C06_example_attached_session_expiring_rejected.

(* ---- the attachment invariant, for every history (proofs/Hub_attach.v) -----------------------------------------
   The model-side statements of the trace-predicate clauses expiring_unattached / clients_attached and of the tick
   clause of step_C06, in every state reachable from the initial state by any history of operations (any limits,
   gated media server or not, step-by-step runs - every delivery order of the bus and every interleaving of the media
   server's completions is such a history - or quiescent runs). *)
From Verif Require proofs.Hub_own proofs.Hub_attach.

(* A session that has a connection is in the clients table and not in the expiry list; that connection exists, is
   attached to exactly this session and does not wait for a hello. *)
Theorem C06_attached_not_expiring : forall limits gated ops h sid s c,
  h = run (init limits gated) ops \/ h = qrun (init limits gated) ops ->
  get_sess h sid = Some s -> s.(s_conn) = Some c ->
  In sid h.(h_clients) /\ ~ In sid h.(h_expired) /\
  exists cn, aget h.(h_conns) c = Some cn /\ cn.(c_sess) = Some sid /\ cn.(c_expect) = false.
Proof. intros limits gated ops h sid s c R. exact (Hub_attach.attached_not_expiring h sid s c (Hub_own.reachable_intro limits gated ops h R)). Qed.
(* A session in the expiry list is live and has no connection. *)
Theorem C06_expiring_has_no_connection : forall limits gated ops h sid,
  h = run (init limits gated) ops \/ h = qrun (init limits gated) ops ->
  In sid h.(h_expired) -> exists s, get_sess h sid = Some s /\ s.(s_conn) = None.
Proof. intros limits gated ops h sid R. exact (Hub_attach.expiring_unattached_state h sid (Hub_own.reachable_intro limits gated ops h R)). Qed.
(* The bridge: on the digest of every reachable model state both clauses of the trace predicates are true. *)
Theorem C06_attachment_clauses_on_model_digest : forall limits gated ops h,
  h = run (init limits gated) ops \/ h = qrun (init limits gated) ops ->
  expiring_unattached (digest_of h) = true /\ clients_attached (digest_of h) = true.
Proof.
  intros limits gated ops h R. pose proof (Hub_own.reachable_intro limits gated ops h R) as R'.
  split; [exact (Hub_attach.expiring_unattached_digest h R')|exact (Hub_attach.clients_attached_digest h R')].
Qed.
(* A connected session that is not in the anonymous list survives a housekeeping tick, whatever the number of
   seconds: afterwards it is live, with the same connection, in the same room (and of the same kind).  Anonymous
   sessions waiting for a room are the exception: they are told and closed (C06_example_attachment below). *)
Theorem C06_connected_survives_tick : forall limits gated ops h secs sid s c,
  h = run (init limits gated) ops \/ h = qrun (init limits gated) ops ->
  get_sess h sid = Some s -> s.(s_conn) = Some c -> ~ In sid h.(h_anonymous) ->
  exists s', get_sess (fst (step h (OTick secs))) sid = Some s' /\ s'.(s_conn) = Some c /\ s'.(s_room) = s.(s_room) /\
             s'.(s_kind) = s.(s_kind).
Proof. intros limits gated ops h secs sid s c R. exact (Hub_attach.connected_survives_tick h secs sid s c (Hub_own.reachable_intro limits gated ops h R)). Qed.
(* The same as the tick clause of step_C06 reads it: on the digests before and after the model's tick. *)
Theorem C06_tick_clause_on_model_digests : forall limits gated ops h secs,
  h = run (init limits gated) ops \/ h = qrun (init limits gated) ops ->
  forallb (fun x => is_virtual_d x || negb (has_conn x) || nmem x.(d_sid) (digest_of h).(g_anonymous) ||
                    match find_sd (digest_of (fst (step h (OTick secs)))) x.(d_sid) with
                    | Some y => optN_eqb y.(d_conn) x.(d_conn) && opt_pair_eqb y.(d_room) x.(d_room)
                    | None => false end) (digest_of h).(g_sessions) = true.
Proof. intros limits gated ops h secs R. exact (Hub_attach.tick_clause_digest h secs (Hub_own.reachable_intro limits gated ops h R)). Qed.
(* Not vacuous: a computed history with a cut (session 2 waits for expiry, no connection, not in the clients table), a
   tick of 20 s (nothing changes), a resume on connection 3 (in the clients table, not expiring, connection 3 attached)
   and a tick of 40 s (both connected sessions still there, same connections, same room); without the resume the
   tick of 40 s ends session 2; a connected anonymous session (3, connection 5) is ended by it. *)
Example C06_example_attachment :
  Hub_attach.at_view (run (init [0; 0] false) Hub_attach.at_ops) =
    ([1], [2], [], [(1, Some 1, false)], [(1, Some 1, Some (0, 1)); (2, None, Some (0, 1))]) /\
  Hub_attach.at_view (run (init [0; 0] false) (Hub_attach.at_ops ++ [OTick 20])) = Hub_attach.at_view (run (init [0; 0] false) Hub_attach.at_ops) /\
  Hub_attach.at_view (run (init [0; 0] false) (Hub_attach.at_ops ++ Hub_attach.at_resume)) =
    ([1; 2], [], [], [(1, Some 1, false); (3, Some 2, false)], [(1, Some 1, Some (0, 1)); (2, Some 3, Some (0, 1))]) /\
  Hub_attach.at_view (run (init [0; 0] false) (Hub_attach.at_ops ++ Hub_attach.at_resume ++ [OTick 40])) =
    Hub_attach.at_view (run (init [0; 0] false) (Hub_attach.at_ops ++ Hub_attach.at_resume)) /\
  Hub_attach.at_view (run (init [0; 0] false) (Hub_attach.at_ops ++ [OTick 40])) =
    ([1], [], [], [(1, Some 1, false)], [(1, Some 1, Some (0, 1))]) /\
  Hub_attach.at_view (run (init [0; 0] false) (Hub_attach.at_ops ++ [OConnect 5 0; OHello 5 (HV1 0 0 false)])) =
    ([1; 3], [2], [3], [(1, Some 1, false); (5, Some 3, false)], [(1, Some 1, Some (0, 1)); (2, None, Some (0, 1)); (3, Some 5, None)]) /\
  Hub_attach.at_view (run (init [0; 0] false) (Hub_attach.at_ops ++ [OConnect 5 0; OHello 5 (HV1 0 0 false); OTick 40])) =
    ([1], [], [], [(1, Some 1, false)], [(1, Some 1, Some (0, 1))]).
Proof. exact Hub_attach.at_example. Qed.
Print Assumptions C06_attached_not_expiring.
Print Assumptions C06_expiring_has_no_connection.
Print Assumptions C06_attachment_clauses_on_model_digest.
Print Assumptions C06_connected_survives_tick.
Print Assumptions C06_tick_clause_on_model_digests.
Print Assumptions C06_example_attachment.
