(* C06 — A dropped connection can be resumed without loss; bye and expiry are final. *)
From Coq Require Import List NArith Bool.
From Verif Require Import model.Hub proofs.Hub_easy proofs.Hub_route proofs.Hub_wf proofs.Hub_corollaries.
Import ListNotations.
Open Scope N_scope.

(* Resuming a disconnected session: the same session id first, then every message queued meanwhile,
   in order, once; the session keeps its room; nothing stays queued; it no longer expires. *)
Theorem C06_resume_flushes_queue : forall h c cn n s,
  aget h.(h_conns) c = Some cn -> cn.(c_sess) = None -> get_sess h n = Some s ->
  is_virtual s.(s_kind) = false -> s.(s_conn) = None -> throttled h cn.(c_addr) ACT_RESUME = false ->
  let '(h', outs) := step h (OHello c (HResume (IdPriv n))) in
  outs = ToConn c (SHello n (sess_userid h n s)) :: map (ToConn c) s.(s_pending) /\
  (exists s', get_sess h' n = Some s' /\ s'.(s_conn) = Some c /\ s'.(s_pending) = [] /\ s'.(s_room) = s.(s_room)) /\
  nmem n h'.(h_expired) = false.
Proof. exact resume_flushes_queue. Qed.

(* While disconnected, a message addressed to the session is appended to its queue (nothing is
   written anywhere, nothing is dropped). *)
Theorem C06_queued_while_disconnected : forall h x t m,
  get_sess h x = Some t -> t.(s_conn) = None ->
  (match m with SJoin _ | SLeave _ => False | _ => True end) ->
  snd (deliver_to_session h x m) = [] /\
  exists t', get_sess (fst (deliver_to_session h x m)) x = Some t' /\ t'.(s_pending) = t.(s_pending) ++ [m].
Proof. exact deliver_queued. Qed.

(* The public session id (or anything but a private id) never works as a resume id. *)
Theorem C06_resume_needs_private_id : forall h c cn i,
  aget h.(h_conns) c = Some cn -> cn.(c_sess) = None -> (forall n, i <> IdPriv n) ->
  let '(h', outs) := step h (OHello c (HResume i)) in
  (outs = [ToConn c (SError E_no_such_session)] \/ outs = [ToConn c (SError E_too_many_requests)]) /\
  h_sessions h' = h_sessions h /\
  (exists cn', aget h'.(h_conns) c = Some cn' /\ cn'.(c_sess) = None).
Proof. exact resume_needs_private_id. Qed.

(* After bye, expiry or kick the session is gone and referenced nowhere (so it has left its room) ... *)
Theorem C06_close_is_final : forall h sid, WF h ->
  let h' := fst (close_session h sid) in
  get_sess h' sid = None /\ WF h' /\ unreferenced h' sid.
Proof. exact close_session_ends. Qed.
(* ... and its resume id is refused with no_such_session. *)
Theorem C06_resume_of_ended_session_refused : forall h c cn n,
  aget h.(h_conns) c = Some cn -> cn.(c_sess) = None -> get_sess h n = None ->
  let '(h', outs) := step h (OHello c (HResume (IdPriv n))) in
  (outs = [ToConn c (SError E_no_such_session)] \/ outs = [ToConn c (SError E_too_many_requests)]) /\
  h_sessions h' = h_sessions h.
Proof. exact resume_of_ended_session_refused. Qed.
(* C06_takeover / attach-then-flush ordering: the second resume (takeover) and the order in which a
   message racing with the flush arrives are checked on implementation traces by P_C06 (step_C06);
   the window between SetClient and the flush cannot be forced on the real code and is not modelled
   (partial). *)

Print Assumptions C06_resume_flushes_queue.
Print Assumptions C06_queued_while_disconnected.
Print Assumptions C06_resume_needs_private_id.
Print Assumptions C06_close_is_final.
Print Assumptions C06_resume_of_ended_session_refused.
