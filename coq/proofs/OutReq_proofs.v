(* Outgoing requests are signed under the secret of the backend the CURRENT
   configuration resolves the request URL to (model/OutReq.v over the backend
   tables of model/BackendCfg.v).  Uses C13's theorems: after any chain of reloads
   / any etcd history every lookup answers like a fresh start with the last
   configuration / the keys etcd still holds. *)
From Coq Require Import List ZArith NArith Bool String Ascii Lia.
From Verif Require Import model.Checksum model.BackendCfg model.OutReq
  proofs.RoomAuth_proofs proofs.BackendCfg_proofs.
Import ListNotations.
Local Open Scope list_scope.

Section OutReqProofs.
Context (hmac : bytes -> bytes -> bytes) (up : string -> option purl) (secret_of : N -> bytes).

Notation sign := (sign hmac secret_of).
Notation orun := (orun hmac up secret_of).
Notation erun := (erun hmac up secret_of).

(* ---- a request that leaves carries the MAC under the secret of the answer ---- *)
Lemma sign_sent rand a body rnd chk :
  sign rand a body = SSent (rnd, chk) ->
  exists p, a = ASome p /\
    chk = hex (hmac (secret_of (answer_secret p)) (rnd ++ body)%string) /\
    validb hmac chk rnd body (secret_of (answer_secret p)) = true /\
    rnd = hex (rand_read rand 32) /\ (32 <= String.length rnd)%nat.
Proof.
  destruct a as [| |p]; cbn [OutReq.sign]; try discriminate.
  intros H. exists p. split; [reflexivity|].
  pose proof (outgoing_checksum hmac rand body (secret_of (answer_secret p))) as Ho.
  destruct (add_backend_checksum hmac rand body (secret_of (answer_secret p))) as [r c].
  injection H as -> ->. destruct Ho as (H1 & H2 & H3 & _ & H5). repeat split; assumption.
Qed.

Lemma sign_none rand a body : sign rand a body = SNone <-> a = ANone.
Proof. destruct a; cbn [OutReq.sign]; split; intros H; try discriminate; reflexivity. Qed.

(* ---- one attempt per call, and fresh randoms over every history --------------------- *)

(* whatever happens to the request at the backend, it arrives once: the client does not send it
   again; every fate but an answer is an error for the caller *)
Lemma deliver_once s f :
  fst (deliver s f) = fst (deliver s FAnswered) /\
  (List.length (fst (deliver s f)) <= 1)%nat /\
  (forall h, s = SSent h -> fst (deliver s f) = [h]) /\
  (f <> FAnswered -> snd (deliver s f) = OError).
Proof.
  destruct s; destruct f; cbn; repeat split; try lia; try (intros; congruence).
Qed.

(* the randomness source does not repeat: the 32 bytes it delivers to two different requests differ *)
Definition never_repeats (rand : nat -> nat -> ascii) : Prop :=
  forall j k, j <> k -> rand_read (rand j) 32 <> rand_read (rand k) 32.

(* the i-th request of the list, if it leaves, carries the random made of the bytes delivered to request k+i *)
Fixpoint indexed_by (rand : nat -> nat -> ascii) (k : nat) (ss : list sent) : Prop :=
  match ss with
  | [] => True
  | s :: r => (forall rnd chk, s = SSent (rnd, chk) -> rnd = hex (rand_read (rand k) 32)) /\ indexed_by rand (S k) r
  end.

Lemma indexed_in rand fates ss : forall k m r,
  indexed_by rand k ss -> In r (map fst (wire fates m ss)) ->
  exists j, (k <= j)%nat /\ r = hex (rand_read (rand j) 32).
Proof.
  induction ss as [|s rest IH]; intros k m r Hi Hin; [destruct Hin|].
  destruct Hi as [Hs Hrest]. cbn [wire] in Hin. rewrite map_app in Hin. apply in_app_or in Hin.
  destruct Hin as [Hin|Hin].
  - destruct s as [| |[rnd chk]]; cbn in Hin; try contradiction.
    destruct Hin as [<-|[]]. exists k. split; [lia|]. exact (Hs rnd chk eq_refl).
  - destruct (IH (S k) (S m) r Hrest Hin) as (j & Hj & ->). exists j. split; [lia|reflexivity].
Qed.

Lemma indexed_fresh rand fates (Hr : never_repeats rand) ss : forall k m,
  indexed_by rand k ss -> NoDup (map fst (wire fates m ss)).
Proof.
  induction ss as [|s rest IH]; intros k m Hi; [constructor|].
  destruct Hi as [Hs Hrest]. cbn [wire]. specialize (IH (S k) (S m) Hrest).
  destruct s as [| |[rnd chk]]; cbn; try exact IH.
  constructor; [|exact IH].
  intros Hin. destruct (indexed_in rand fates rest (S k) (S m) rnd Hrest Hin) as (j & Hj & He).
  rewrite (Hs rnd chk eq_refl) in He. apply hex_inj in He.
  apply (Hr k j); [lia|exact He].
Qed.

(* ---- static storage ------------------------------------------------------------ *)
Lemma orun_app rand ops : forall st k u body,
  orun rand st k (ops ++ [OReq u body]) =
  orun rand st k ops ++
  [match fold_left (reload_opt (reload up)) (configs_of ops) st with
   | Some s => perform_static hmac up secret_of (rand (k + requests_in ops)%nat) s u body
   | None => SPanic
   end].
Proof.
  induction ops as [|o r IH]; intros st k u body.
  - cbn. rewrite Nat.add_0_r. reflexivity.
  - destruct o as [c|u' body'].
    + cbn [app OutReq.orun configs_of flat_map fold_left]. rewrite IH. reflexivity.
    + cbn [app OutReq.orun configs_of flat_map fold_left]. rewrite IH.
      change (requests_in (OReq u' body' :: r)) with (S (requests_in r)).
      rewrite Nat.add_succ_r. reflexivity.
Qed.

(* The request after ANY history of reloads and earlier requests is signed as the
   lookup of a server freshly started with the last configuration dictates.
   new_style: the hypothesis of C13_reload_eq_fresh_partial (chains that stay in the
   `backends`-list mode; the deprecated modes do not support reload). *)
Lemma out_static_current rand c0 pre u body :
  Forall new_style (c0 :: configs_of pre) ->
  orun_static hmac up secret_of rand c0 (pre ++ [OReq u body]) =
  orun_static hmac up secret_of rand c0 pre ++
  [sign (rand (requests_in pre))
        (answer_of (lookup_static up (fresh up (last (configs_of pre) c0)) u)) body].
Proof.
  intros Hn. unfold orun_static. rewrite orun_app. f_equal. f_equal.
  destruct (reload_eq_fresh up c0 (configs_of pre) Hn) as (st & Hr & He).
  unfold run_chain in Hr. rewrite Hr. unfold perform_static. rewrite (He u). reflexivity.
Qed.

Lemma out_static_signed rand c0 pre u body rnd chk :
  Forall new_style (c0 :: configs_of pre) ->
  last (orun_static hmac up secret_of rand c0 (pre ++ [OReq u body])) SNone = SSent (rnd, chk) ->
  exists p, answer_of (lookup_static up (fresh up (last (configs_of pre) c0)) u) = ASome p /\
    chk = hex (hmac (secret_of (answer_secret p)) (rnd ++ body)%string) /\
    validb hmac chk rnd body (secret_of (answer_secret p)) = true /\
    (32 <= String.length rnd)%nat.
Proof.
  intros Hn. rewrite (out_static_current rand c0 pre u body Hn), last_last. intros H.
  destruct (sign_sent _ _ _ _ _ H) as (p & Hp & H1 & H2 & _ & H4). exists p. repeat split; assumption.
Qed.

Lemma out_static_removed rand c0 pre u body :
  Forall new_style (c0 :: configs_of pre) ->
  lookup_static up (fresh up (last (configs_of pre) c0)) u = LRes None ->
  last (orun_static hmac up secret_of rand c0 (pre ++ [OReq u body])) SPanic = SNone.
Proof.
  intros Hn Hl. rewrite (out_static_current rand c0 pre u body Hn), last_last, Hl. reflexivity.
Qed.

(* ---- etcd storage: every history of events and requests, no hypothesis ------------ *)
Lemma erun_app rand ops : forall st k u body,
  erun rand st k (ops ++ [EReq u body]) =
  erun rand st k ops ++
  [perform_etcd hmac up secret_of (rand (k + erequests_in ops)%nat)
                (fold_left (etcd_step up) (events_of ops) st) u body].
Proof.
  induction ops as [|o r IH]; intros st k u body.
  - cbn. rewrite Nat.add_0_r. reflexivity.
  - destruct o as [e|u' body'].
    + cbn [app OutReq.erun events_of flat_map fold_left]. rewrite IH. reflexivity.
    + cbn [app OutReq.erun events_of flat_map fold_left]. rewrite IH.
      change (erequests_in (EReq u' body' :: r)) with (S (erequests_in r)).
      rewrite Nat.add_succ_r. reflexivity.
Qed.

Lemma out_etcd_current rand pre u body :
  erun_etcd hmac up secret_of rand (pre ++ [EReq u body]) =
  erun_etcd hmac up secret_of rand pre ++
  [sign (rand (erequests_in pre))
        (answer_of (lookup_etcd up (fresh_etcd up (final_kv (events_of pre))) u)) body].
Proof.
  unfold erun_etcd. rewrite erun_app. f_equal. f_equal.
  unfold perform_etcd. change (fold_left (etcd_step up) (events_of pre) einit) with (run_etcd up (events_of pre)).
  rewrite (etcd_eq_fresh_equiv up (events_of pre) u). reflexivity.
Qed.

Lemma out_etcd_signed rand pre u body rnd chk :
  last (erun_etcd hmac up secret_of rand (pre ++ [EReq u body])) SNone = SSent (rnd, chk) ->
  exists p, answer_of (lookup_etcd up (fresh_etcd up (final_kv (events_of pre))) u) = ASome p /\
    chk = hex (hmac (secret_of (answer_secret p)) (rnd ++ body)%string) /\
    validb hmac chk rnd body (secret_of (answer_secret p)) = true /\
    (32 <= String.length rnd)%nat.
Proof.
  rewrite (out_etcd_current rand pre u body), last_last. intros H.
  destruct (sign_sent _ _ _ _ _ H) as (p & Hp & H1 & H2 & _ & H4). exists p. repeat split; assumption.
Qed.

Lemma out_etcd_removed rand pre u body :
  lookup_etcd up (fresh_etcd up (final_kv (events_of pre))) u = LRes None ->
  last (erun_etcd hmac up secret_of rand (pre ++ [EReq u body])) SPanic = SNone.
Proof.
  intros Hl. rewrite (out_etcd_current rand pre u body), last_last, Hl. reflexivity.
Qed.

(* ---- every history: the randoms of the requests that arrive are pairwise distinct ---- *)
Lemma sign_indexed rnd0 a body rnd chk :
  sign rnd0 a body = SSent (rnd, chk) -> rnd = hex (rand_read rnd0 32).
Proof. intros H. destruct (sign_sent _ _ _ _ _ H) as (p & _ & _ & _ & Hr & _). exact Hr. Qed.

Lemma orun_indexed rand ops : forall st k, indexed_by rand k (orun rand st k ops).
Proof.
  induction ops as [|o r IH]; intros st k; [exact I|].
  destruct o as [c|u body]; cbn [OutReq.orun]; [apply IH|].
  split; [|apply IH].
  intros rnd chk H. destruct st as [s|]; [|discriminate].
  unfold perform_static in H. exact (sign_indexed _ _ _ _ _ H).
Qed.

Lemma erun_indexed rand ops : forall st k, indexed_by rand k (erun rand st k ops).
Proof.
  induction ops as [|o r IH]; intros st k; [exact I|].
  destruct o as [e|u body]; cbn [OutReq.erun]; [apply IH|].
  split; [|apply IH].
  intros rnd chk H. unfold perform_etcd in H. exact (sign_indexed _ _ _ _ _ H).
Qed.

Lemma out_static_fresh rand fates c0 ops :
  never_repeats rand ->
  NoDup (map fst (wire fates 0 (orun_static hmac up secret_of rand c0 ops))).
Proof. intros Hr. exact (indexed_fresh rand fates Hr _ 0%nat 0%nat (orun_indexed rand ops _ 0%nat)). Qed.

Lemma out_etcd_fresh rand fates ops :
  never_repeats rand ->
  NoDup (map fst (wire fates 0 (erun_etcd hmac up secret_of rand ops))).
Proof. intros Hr. exact (indexed_fresh rand fates Hr _ 0%nat 0%nat (erun_indexed rand ops _ 0%nat)). Qed.

(* and the number of requests that arrive does not depend on what happens to them *)
Lemma wire_fates fates1 fates2 ss : forall m1 m2, wire fates1 m1 ss = wire fates2 m2 ss.
Proof.
  induction ss as [|s r IH]; intros m1 m2; [reflexivity|].
  cbn [wire]. rewrite (IH (S m1) (S m2)).
  destruct (deliver_once s (fates1 m1)) as (E1 & _). destruct (deliver_once s (fates2 m2)) as (E2 & _).
  rewrite E1, E2. reflexivity.
Qed.

End OutReqProofs.
