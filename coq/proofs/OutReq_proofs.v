(* Outgoing requests are signed under the secret of the backend the CURRENT
   configuration resolves the request URL to (model/OutReq.v over the backend
   tables of model/BackendCfg.v).  Uses C13's theorems: after any chain of reloads
   / any etcd history every lookup answers like a fresh start with the last
   configuration / the keys etcd still holds. *)
From Coq Require Import List ZArith NArith Bool String Ascii Lia.
From Verif Require Import model.Checksum model.BackendCfg model.OutReq
  proofs.RoomAuth_proofs proofs.BackendCfg_proofs.
Import ListNotations.
Local Open Scope list_scope.

Section OutReqProofs.
Context (hmac : bytes -> bytes -> bytes) (up : string -> option purl) (secret_of : N -> bytes).

Notation sign := (sign hmac secret_of).
Notation orun := (orun hmac up secret_of).
Notation erun := (erun hmac up secret_of).

(* ---- a request that leaves carries the MAC under the secret of the answer ---- *)
Lemma sign_sent rand a body rnd chk :
  sign rand a body = SSent (rnd, chk) ->
  exists p, a = ASome p /\
    chk = hex (hmac (secret_of (answer_secret p)) (rnd ++ body)%string) /\
    validb hmac chk rnd body (secret_of (answer_secret p)) = true /\
    rnd = hex (rand_read rand 32) /\ (32 <= String.length rnd)%nat.
Proof.
  destruct a as [| |p]; cbn [OutReq.sign]; try discriminate.
  intros H. exists p. split; [reflexivity|].
  pose proof (outgoing_checksum hmac rand body (secret_of (answer_secret p))) as Ho.
  destruct (add_backend_checksum hmac rand body (secret_of (answer_secret p))) as [r c].
  injection H as -> ->. destruct Ho as (H1 & H2 & H3 & _ & H5). repeat split; assumption.
Qed.

Lemma sign_none rand a body : sign rand a body = SNone <-> a = ANone.
Proof. destruct a; cbn [OutReq.sign]; split; intros H; try discriminate; reflexivity. Qed.

(* ---- static storage ------------------------------------------------------------ *)
Lemma orun_app rand ops : forall st k u body,
  orun rand st k (ops ++ [OReq u body]) =
  orun rand st k ops ++
  [match fold_left (reload_opt (reload up)) (configs_of ops) st with
   | Some s => perform_static hmac up secret_of (rand (k + requests_in ops)%nat) s u body
   | None => SPanic
   end].
Proof.
  induction ops as [|o r IH]; intros st k u body.
  - cbn. rewrite Nat.add_0_r. reflexivity.
  - destruct o as [c|u' body'].
    + cbn [app OutReq.orun configs_of flat_map fold_left]. rewrite IH. reflexivity.
    + cbn [app OutReq.orun configs_of flat_map fold_left]. rewrite IH.
      change (requests_in (OReq u' body' :: r)) with (S (requests_in r)).
      rewrite Nat.add_succ_r. reflexivity.
Qed.

(* The request after ANY history of reloads and earlier requests is signed as the
   lookup of a server freshly started with the last configuration dictates.
   new_style: the hypothesis of C13_reload_eq_fresh_partial (chains that stay in the
   `backends`-list mode; the deprecated modes do not support reload). *)
Lemma out_static_current rand c0 pre u body :
  Forall new_style (c0 :: configs_of pre) ->
  orun_static hmac up secret_of rand c0 (pre ++ [OReq u body]) =
  orun_static hmac up secret_of rand c0 pre ++
  [sign (rand (requests_in pre))
        (answer_of (lookup_static up (fresh up (last (configs_of pre) c0)) u)) body].
Proof.
  intros Hn. unfold orun_static. rewrite orun_app. f_equal. f_equal.
  destruct (reload_eq_fresh up c0 (configs_of pre) Hn) as (st & Hr & He).
  unfold run_chain in Hr. rewrite Hr. unfold perform_static. rewrite (He u). reflexivity.
Qed.

Lemma out_static_signed rand c0 pre u body rnd chk :
  Forall new_style (c0 :: configs_of pre) ->
  last (orun_static hmac up secret_of rand c0 (pre ++ [OReq u body])) SNone = SSent (rnd, chk) ->
  exists p, answer_of (lookup_static up (fresh up (last (configs_of pre) c0)) u) = ASome p /\
    chk = hex (hmac (secret_of (answer_secret p)) (rnd ++ body)%string) /\
    validb hmac chk rnd body (secret_of (answer_secret p)) = true /\
    (32 <= String.length rnd)%nat.
Proof.
  intros Hn. rewrite (out_static_current rand c0 pre u body Hn), last_last. intros H.
  destruct (sign_sent _ _ _ _ _ H) as (p & Hp & H1 & H2 & _ & H4). exists p. repeat split; assumption.
Qed.

Lemma out_static_removed rand c0 pre u body :
  Forall new_style (c0 :: configs_of pre) ->
  lookup_static up (fresh up (last (configs_of pre) c0)) u = LRes None ->
  last (orun_static hmac up secret_of rand c0 (pre ++ [OReq u body])) SPanic = SNone.
Proof.
  intros Hn Hl. rewrite (out_static_current rand c0 pre u body Hn), last_last, Hl. reflexivity.
Qed.

(* ---- etcd storage: every history of events and requests, no hypothesis ------------ *)
Lemma erun_app rand ops : forall st k u body,
  erun rand st k (ops ++ [EReq u body]) =
  erun rand st k ops ++
  [perform_etcd hmac up secret_of (rand (k + erequests_in ops)%nat)
                (fold_left (etcd_step up) (events_of ops) st) u body].
Proof.
  induction ops as [|o r IH]; intros st k u body.
  - cbn. rewrite Nat.add_0_r. reflexivity.
  - destruct o as [e|u' body'].
    + cbn [app OutReq.erun events_of flat_map fold_left]. rewrite IH. reflexivity.
    + cbn [app OutReq.erun events_of flat_map fold_left]. rewrite IH.
      change (erequests_in (EReq u' body' :: r)) with (S (erequests_in r)).
      rewrite Nat.add_succ_r. reflexivity.
Qed.

Lemma out_etcd_current rand pre u body :
  erun_etcd hmac up secret_of rand (pre ++ [EReq u body]) =
  erun_etcd hmac up secret_of rand pre ++
  [sign (rand (erequests_in pre))
        (answer_of (lookup_etcd up (fresh_etcd up (final_kv (events_of pre))) u)) body].
Proof.
  unfold erun_etcd. rewrite erun_app. f_equal. f_equal.
  unfold perform_etcd. change (fold_left (etcd_step up) (events_of pre) einit) with (run_etcd up (events_of pre)).
  rewrite (etcd_eq_fresh_equiv up (events_of pre) u). reflexivity.
Qed.

Lemma out_etcd_signed rand pre u body rnd chk :
  last (erun_etcd hmac up secret_of rand (pre ++ [EReq u body])) SNone = SSent (rnd, chk) ->
  exists p, answer_of (lookup_etcd up (fresh_etcd up (final_kv (events_of pre))) u) = ASome p /\
    chk = hex (hmac (secret_of (answer_secret p)) (rnd ++ body)%string) /\
    validb hmac chk rnd body (secret_of (answer_secret p)) = true /\
    (32 <= String.length rnd)%nat.
Proof.
  rewrite (out_etcd_current rand pre u body), last_last. intros H.
  destruct (sign_sent _ _ _ _ _ H) as (p & Hp & H1 & H2 & _ & H4). exists p. repeat split; assumption.
Qed.

Lemma out_etcd_removed rand pre u body :
  lookup_etcd up (fresh_etcd up (final_kv (events_of pre))) u = LRes None ->
  last (erun_etcd hmac up secret_of rand (pre ++ [EReq u body])) SPanic = SNone.
Proof.
  intros Hl. rewrite (out_etcd_current rand pre u body), last_last, Hl. reflexivity.
Qed.

End OutReqProofs.
