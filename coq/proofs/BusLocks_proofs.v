(* Lock programs of the event bus, regenerated from the source on every check
   (gen/LockProgs.v): no mutex is acquired while the same goroutine holds it,
   every acquisition is released, publishers never touch asyncEventsNats.mu,
   callbacks and channel sends happen with the mutex released. *)
From Coq Require Import List Bool String.
From Verif Require Import gen.LockProgs.
Import ListNotations.

(* run one program from "held?"; None = re-entrant Lock or Unlock of a free mutex *)
Fixpoint lock_run (held : bool) (p : list lockop) : option bool :=
  match p with
  | [] => Some held
  | Lock :: r => if held then None else lock_run true r
  | Unlock :: r => if held then lock_run false r else None
  | RLock :: r => if held then None else lock_run true r
  | RUnlock :: r => if held then lock_run false r else None
  end.

Definition prog_ok (p : list lockop) : bool :=
  match lock_run false p with Some false => true | _ => false end.
Definition all_ok (tbl : list (string * list lockop)) : bool := forallb (fun e => prog_ok (snd e)) tbl.

Definition prog_of (tbl : list (string * list lockop)) (f : string) : option (list lockop) :=
  option_map snd (find (fun e => String.eqb (fst e) f) tbl).

Definition c20_entry_points : list string :=
  ["RegisterBackendRoomListener"; "UnregisterBackendRoomListener"; "RegisterRoomListener"; "UnregisterRoomListener";
   "RegisterUserListener"; "UnregisterUserListener"; "RegisterSessionListener"; "UnregisterSessionListener"]%string.
Definition c20_publish_points : list string :=
  ["publish"; "PublishBackendRoomMessage"; "PublishRoomMessage"; "PublishUserMessage"; "PublishSessionMessage"]%string.

Definition c20_locks_check : bool :=
  (* asyncEventsNats.mu: one critical section per (un)register call, none in the publish path *)
  forallb (fun f => match prog_of locks_asyncEventsNats f with Some [Lock; Unlock] => true | _ => false end) c20_entry_points &&
  forallb (fun f => match prog_of locks_asyncEventsNats f with Some [] => true | _ => false end) c20_publish_points &&
  (* subscriber mutexes: the callbacks are made between an Unlock and the next Lock *)
  forallb (fun tf => match prog_of (fst tf) (snd tf) with Some [Lock; Unlock; Lock; Unlock] => true | _ => false end)
    [(locks_asyncBackendRoomSubscriber, "processBackendRoomRequest"); (locks_asyncRoomSubscriber, "processAsyncRoomMessage");
     (locks_asyncUserSubscriber, "processAsyncUserMessage"); (locks_asyncSessionSubscriber, "processAsyncSessionMessage")]%string &&
  forallb (fun tbl => match prog_of tbl "addListener", prog_of tbl "removeListener" with
                      | Some [Lock; Unlock], Some [Lock; Unlock] => true | _, _ => false end)
    [locks_asyncBackendRoomSubscriber; locks_asyncRoomSubscriber; locks_asyncUserSubscriber; locks_asyncSessionSubscriber] &&
  all_ok locks_asyncBackendRoomSubscriber && all_ok locks_asyncRoomSubscriber &&
  all_ok locks_asyncUserSubscriber && all_ok locks_asyncSessionSubscriber && all_ok locks_asyncEventsNats &&
  (* LoopbackNatsClient.mu: Publish is one short critical section; the dispatcher
     releases the mutex for the channel sends (processMessage runs Unlock .. Lock
     inside the critical section of processMessages) *)
  match prog_of locks_LoopbackNatsClient "Publish", prog_of locks_LoopbackNatsClient "Subscribe",
        prog_of locks_LoopbackNatsClient "unsubscribe", prog_of locks_LoopbackNatsClient "processMessages",
        prog_of locks_LoopbackNatsClient "processMessage" with
  | Some [Lock; Unlock], Some [Lock; Unlock], Some [Lock; Unlock], Some [Lock; Unlock; Lock; Unlock], Some [Unlock; Lock] => true
  | _, _, _, _, _ => false
  end.

Lemma c20_locks_ok : c20_locks_check = true.
Proof. vm_compute. reflexivity. Qed.
