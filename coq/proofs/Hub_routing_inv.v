(* The invariant the routing theorems of Hub_routing.v need, for every history:
   - the session table has no key twice and no session has the id 0 (the "no sender" value);
   - a session that names a connection is not virtual and that connection names it back
     (so: two sessions never share a connection, a session's connection exists);
   - every virtual session is in the virtual table under (parent, id), the table has no key twice;
   - a session's room is a room of its backend; a virtual session is of its parent's backend.
   Organisation as in Hub_wf.v / Hub_own.v: a reflexive, transitive relation `srel` between the
   state before and after, satisfied by every model function that creates no session, attaches no
   connection and enters no room (proved once per function); direct lemmas for the five that do
   (register, do_hello, join_room, do_join, do_internal). *)
From Coq Require Import List NArith Bool Lia.
From Verif Require Import model.Hub proofs.Hub_basics proofs.Hub_wf.
Import ListNotations.
Open Scope N_scope.

(* ------------------------------------------------------------------ definitions *)
Definition skeys (h : hub) : list N := map fst (h_sessions h).
Definition vkeys (h : hub) : list (N * N) := map fst (h_vtable h).
(* connection c is attached to session x *)
Definition linked (h : hub) (c x : N) : Prop := exists cn, aget (h_conns h) c = Some cn /\ c_sess cn = Some x.
(* every session's connection names it back *)
Definition CB (h : hub) : Prop :=
  forall x s c, get_sess h x = Some s -> s_conn s = Some c -> linked h c x.

(* xs: virtual sessions whose table entry may be missing (while they are being closed) *)
Record RIg (xs : N -> Prop) (h : hub) : Prop := {
  ri_keys : NoDup (skeys h);
  ri_zero : get_sess h 0 = None;
  ri_conn : CB h;
  ri_novirt : forall x s c, get_sess h x = Some s -> s_conn s = Some c -> is_virtual (s_kind s) = false;
  ri_vt : forall x s p v, get_sess h x = Some s -> s_kind s = KVirtual p v -> xs x \/ pget (h_vtable h) (p, v) = Some x;
  ri_vkeys : NoDup (vkeys h);
  ri_room : forall x s k, get_sess h x = Some s -> s_room s = Some k -> fst k = s_backend s;
  ri_parent : forall x s p v ps, get_sess h x = Some s -> s_kind s = KVirtual p v -> get_sess h p = Some ps ->
                s_backend ps = s_backend s;
}.
Definition RI (h : hub) : Prop := RIg none1 h.

Lemma ri_weaken (xs xs' : N -> Prop) h : (forall x, xs x -> xs' x) -> RIg xs h -> RIg xs' h.
Proof.
  intros Hx R. constructor; try apply R.
  intros x s p v Hs Hk. destruct (ri_vt _ _ R x s p v Hs Hk); auto.
Qed.

Lemma ri_init limits gated : RI (init limits gated).
Proof.
  assert (Hn : forall sid, get_sess (init limits gated) sid = None) by reflexivity.
  constructor.
  - constructor.
  - reflexivity.
  - intros x s c Hs. rewrite Hn in Hs. discriminate.
  - intros x s c Hs. rewrite Hn in Hs. discriminate.
  - intros x s p v Hs. rewrite Hn in Hs. discriminate.
  - constructor.
  - intros x s k Hs. rewrite Hn in Hs. discriminate.
  - intros x s p v ps Hs. rewrite Hn in Hs. discriminate.
Qed.

(* ------------------------------------------------------------------ the relation *)
Record srel (xs : N -> Prop) (h h' : hub) : Prop := {
  sr_keys : NoDup (skeys h) -> NoDup (skeys h');
  sr_vkeys : NoDup (vkeys h) -> NoDup (vkeys h');
  sr_sess : forall x s', get_sess h' x = Some s' ->
     exists s, get_sess h x = Some s /\ s_kind s' = s_kind s /\ s_backend s' = s_backend s /\
               (s_conn s' = s_conn s \/ s_conn s' = None) /\ (s_room s' = s_room s \/ s_room s' = None);
  sr_conn : CB h -> CB h';
  sr_vt : forall x s' p v, get_sess h' x = Some s' -> s_kind s' = KVirtual p v ->
     pget (h_vtable h) (p, v) = Some x -> xs x \/ pget (h_vtable h') (p, v) = Some x;
}.

Lemma srel_weaken (xs xs' : N -> Prop) h h' : (forall x, xs x -> xs' x) -> srel xs h h' -> srel xs' h h'.
Proof.
  intros Hx R. constructor; try apply R.
  intros x s' p v Hs Hk Hp. destruct (sr_vt _ _ _ R x s' p v Hs Hk Hp); auto.
Qed.

Lemma srel_refl xs h : srel xs h h.
Proof.
  constructor; auto.
  intros x s' Hs. exists s'. repeat split; auto.
Qed.

Lemma srel_trans xs h1 h2 h3 : srel xs h1 h2 -> srel xs h2 h3 -> srel xs h1 h3.
Proof.
  intros R1 R2. constructor.
  - intros H. apply (sr_keys _ _ _ R2), (sr_keys _ _ _ R1), H.
  - intros H. apply (sr_vkeys _ _ _ R2), (sr_vkeys _ _ _ R1), H.
  - intros x s3 H3. destruct (sr_sess _ _ _ R2 x s3 H3) as (s2 & H2 & K2 & B2 & C2 & M2).
    destruct (sr_sess _ _ _ R1 x s2 H2) as (s1 & H1 & K1 & B1 & C1 & M1).
    exists s1. split; [exact H1|]. split; [congruence|]. split; [congruence|]. split.
    + destruct C2 as [C2|C2]; [|now right]. destruct C1 as [C1|C1]; [left|right]; congruence.
    + destruct M2 as [M2|M2]; [|now right]. destruct M1 as [M1|M1]; [left|right]; congruence.
  - intros H. apply (sr_conn _ _ _ R2), (sr_conn _ _ _ R1), H.
  - intros x s3 p v H3 K3 Hp. destruct (sr_sess _ _ _ R2 x s3 H3) as (s2 & H2 & K2 & _).
    destruct (sr_vt _ _ _ R1 x s2 p v H2) as [Hx|Hp2]; [congruence|exact Hp|now left|].
    exact (sr_vt _ _ _ R2 x s3 p v H3 K3 Hp2).
Qed.

(* what the relation keeps of the invariant *)
Lemma ri_srel xs xs' h h' : srel xs' h h' -> RIg xs h -> RIg (fun x => xs x \/ xs' x) h'.
Proof.
  intros R I. constructor.
  - apply (sr_keys _ _ _ R), I.
  - destruct (get_sess h' 0) as [s'|] eqn:H0; [|reflexivity].
    destruct (sr_sess _ _ _ R 0 s' H0) as (s & Hs & _). rewrite (ri_zero _ _ I) in Hs. discriminate.
  - apply (sr_conn _ _ _ R), I.
  - intros x s' c Hs' Hc. destruct (sr_sess _ _ _ R x s' Hs') as (s & Hs & K & _ & C & _).
    rewrite K. apply (ri_novirt _ _ I x s c Hs). destruct C as [C|C]; congruence.
  - intros x s' p v Hs' Hk. destruct (sr_sess _ _ _ R x s' Hs') as (s & Hs & K & _).
    destruct (ri_vt _ _ I x s p v Hs) as [Hx|Hp]; [congruence|now left; left|].
    destruct (sr_vt _ _ _ R x s' p v Hs' Hk Hp); [left; now right|now right].
  - apply (sr_vkeys _ _ _ R), I.
  - intros x s' k Hs' Hk. destruct (sr_sess _ _ _ R x s' Hs') as (s & Hs & _ & B & _ & M).
    rewrite B. apply (ri_room _ _ I x s k Hs). destruct M as [M|M]; congruence.
  - intros x s' p v ps' Hs' Hk Hp'. destruct (sr_sess _ _ _ R x s' Hs') as (s & Hs & K & B & _).
    destruct (sr_sess _ _ _ R p ps' Hp') as (ps & Hp & _ & Bp & _).
    rewrite B, Bp. apply (ri_parent _ _ I x s p v ps Hs); congruence.
Qed.
Lemma ri_srel0 h h' : srel none1 h h' -> RI h -> RI h'.
Proof. intros R I. eapply ri_weaken; [|apply (ri_srel none1 none1 h h' R I)]. intros x [[]|[]]. Qed.
(* exceptions go when the sessions are gone *)
Lemma ri_drop xs h : RIg xs h -> (forall x, xs x -> get_sess h x = None) -> RI h.
Proof.
  intros I Hx. constructor; try apply I.
  intros x s p v Hs Hk. destruct (ri_vt _ _ I x s p v Hs Hk) as [E|E]; [|now right].
  rewrite (Hx x E) in Hs. discriminate.
Qed.

(* ------------------------------------------------------------------ association lists *)
Lemma keys_aset_same {V} (l : alist V) k v v0 : aget l k = Some v0 -> map fst (aset l k v) = map fst l.
Proof.
  induction l as [|[k' v'] r IH]; cbn; [discriminate|].
  destruct (N.eqb_spec k k') as [->|Hne]; cbn; [reflexivity|]. intros H. now rewrite IH.
Qed.
Lemma keys_aset_new {V} (l : alist V) k v : aget l k = None -> map fst (aset l k v) = map fst l ++ [k].
Proof.
  induction l as [|[k' v'] r IH]; cbn; [reflexivity|].
  destruct (N.eqb_spec k k') as [->|Hne]; cbn; [discriminate|]. intros H. now rewrite IH.
Qed.
Lemma aget_none_notin {V} (l : alist V) k : aget l k = None -> ~ In k (map fst l).
Proof.
  induction l as [|[k' v'] r IH]; cbn; [tauto|]. destruct (N.eqb_spec k k') as [->|Hne]; [discriminate|].
  intros H [E|E]; [congruence|now apply IH].
Qed.
Lemma in_keys_adel {V} (l : alist V) k k' : In k' (map fst (adel l k)) -> In k' (map fst l).
Proof.
  induction l as [|[k0 v0] r IH]; cbn; [tauto|]. destruct (N.eqb k k0); cbn; [intros H; right; now apply IH|].
  intros [E|E]; [now left|right; now apply IH].
Qed.
Lemma nodup_keys_adel {V} (l : alist V) k : NoDup (map fst l) -> NoDup (map fst (adel l k)).
Proof.
  induction l as [|[k0 v0] r IH]; cbn; [auto|]. intros H. inversion H as [|a b Hn Hr]; subst.
  destruct (N.eqb k k0); cbn; [now apply IH|]. constructor; [|now apply IH]. intros Hi. apply Hn. eapply in_keys_adel; eauto.
Qed.
Lemma nodup_app_single {A} (l : list A) x : NoDup l -> ~ In x l -> NoDup (l ++ [x]).
Proof.
  induction l as [|y r IH]; cbn; intros H Hn; [constructor; [tauto|constructor]|].
  inversion H as [|a b Hy Hr]; subst. constructor.
  - rewrite in_app_iff. cbn. intros [E|[E|[]]]; [contradiction|]. apply Hn. now left.
  - apply IH; [exact Hr|]. intros E. apply Hn. now right.
Qed.
Lemma nodup_keys_aset {V} (l : alist V) k v : NoDup (map fst l) -> NoDup (map fst (aset l k v)).
Proof.
  intros H. destruct (aget l k) as [v0|] eqn:Hg.
  - now rewrite (keys_aset_same l k v v0 Hg).
  - rewrite (keys_aset_new l k v Hg). apply nodup_app_single; [exact H|now apply aget_none_notin].
Qed.
Lemma aget_in {V} (l : alist V) k v : NoDup (map fst l) -> In (k, v) l -> aget l k = Some v.
Proof.
  induction l as [|[k0 v0] r IH]; cbn; [tauto|]. intros H. inversion H as [|a b Hn Hr]; subst.
  intros [E|E].
  - injection E as -> ->. now rewrite N.eqb_refl.
  - destruct (N.eqb_spec k k0) as [->|Hne]; [|now apply IH]. exfalso. apply Hn. apply in_map_iff. exists (k0, v). auto.
Qed.

(* pair-keyed lists *)
Lemma pkeys_pset_same {V} (l : list ((N * N) * V)) k v v0 : pget l k = Some v0 -> map fst (pset l k v) = map fst l.
Proof.
  induction l as [|[k' v'] r IH]; cbn; [discriminate|].
  destruct (pair_eqb_spec k k') as [->|Hne]; cbn; [reflexivity|]. intros H. now rewrite IH.
Qed.
Lemma pkeys_pset_new {V} (l : list ((N * N) * V)) k v : pget l k = None -> map fst (pset l k v) = map fst l ++ [k].
Proof.
  induction l as [|[k' v'] r IH]; cbn; [reflexivity|].
  destruct (pair_eqb_spec k k') as [->|Hne]; cbn; [discriminate|]. intros H. now rewrite IH.
Qed.
Lemma pget_none_notin {V} (l : list ((N * N) * V)) k : pget l k = None -> ~ In k (map fst l).
Proof.
  induction l as [|[k' v'] r IH]; cbn; [tauto|]. destruct (pair_eqb_spec k k') as [->|Hne]; [discriminate|].
  intros H [E|E]; [congruence|now apply IH].
Qed.
Lemma in_pkeys_pdel {V} (l : list ((N * N) * V)) k k' : In k' (map fst (pdel l k)) -> In k' (map fst l).
Proof.
  induction l as [|[k0 v0] r IH]; cbn; [tauto|]. destruct (pair_eqb k k0); cbn; [intros H; right; now apply IH|].
  intros [E|E]; [now left|right; now apply IH].
Qed.
Lemma nodup_pkeys_pdel {V} (l : list ((N * N) * V)) k : NoDup (map fst l) -> NoDup (map fst (pdel l k)).
Proof.
  induction l as [|[k0 v0] r IH]; cbn; [auto|]. intros H. inversion H as [|a b Hn Hr]; subst.
  destruct (pair_eqb k k0); cbn; [now apply IH|]. constructor; [|now apply IH]. intros Hi. apply Hn. eapply in_pkeys_pdel; eauto.
Qed.
Lemma nodup_pkeys_pset {V} (l : list ((N * N) * V)) k v : NoDup (map fst l) -> NoDup (map fst (pset l k v)).
Proof.
  intros H. destruct (pget l k) as [v0|] eqn:Hg.
  - now rewrite (pkeys_pset_same l k v v0 Hg).
  - rewrite (pkeys_pset_new l k v Hg). apply nodup_app_single; [exact H|now apply pget_none_notin].
Qed.
Lemma pget_in {V} (l : list ((N * N) * V)) k v : NoDup (map fst l) -> In (k, v) l -> pget l k = Some v.
Proof.
  induction l as [|[k0 v0] r IH]; cbn; [tauto|]. intros H. inversion H as [|a b Hn Hr]; subst.
  intros [E|E].
  - injection E as -> ->. now rewrite pair_eqb_refl.
  - destruct (pair_eqb_spec k k0) as [->|Hne]; [|now apply IH]. exfalso. apply Hn. apply in_map_iff. exists (k0, v). auto.
Qed.

Lemma get_put h sid s x : get_sess (put_sess h sid s) x = if N.eqb x sid then Some s else get_sess h x.
Proof. unfold get_sess, put_sess. cbn [h_sessions set_sessions]. apply aget_aset. Qed.

(* ------------------------------------------------------------------ constructors of the relation *)
Lemma srel_nosess xs h h' :
  h_sessions h' = h_sessions h -> h_conns h' = h_conns h -> h_vtable h' = h_vtable h -> srel xs h h'.
Proof.
  intros Hs Hc Hv. constructor; unfold skeys, vkeys, CB, linked, get_sess; rewrite ?Hs, ?Hc, ?Hv; auto.
  intros x s' H. exists s'. repeat split; auto.
Qed.
Ltac srel_ns :=
  apply srel_nosess;
  (cbn [h_sessions h_conns h_vtable fst publish set_conns set_sessions set_rooms set_rs set_vtable
        set_expired set_anonymous set_dialout set_clients set_counted set_fail set_bus set_nextsid set_clock
        set_mcu record_failure]; reflexivity).
Ltac speel :=
  match goal with
  | |- srel _ _ (set_clients ?hh _) => apply srel_trans with hh; [|srel_ns]
  | |- srel _ _ (set_expired ?hh _) => apply srel_trans with hh; [|srel_ns]
  | |- srel _ _ (set_anonymous ?hh _) => apply srel_trans with hh; [|srel_ns]
  | |- srel _ _ (set_dialout ?hh _) => apply srel_trans with hh; [|srel_ns]
  | |- srel _ _ (set_rooms ?hh _) => apply srel_trans with hh; [|srel_ns]
  | |- srel _ _ (set_clock ?hh _) => apply srel_trans with hh; [|srel_ns]
  | |- srel _ _ (set_bus ?hh _) => apply srel_trans with hh; [|srel_ns]
  | |- srel _ _ (set_nextsid ?hh _) => apply srel_trans with hh; [|srel_ns]
  | |- srel _ _ (set_counted ?hh _) => apply srel_trans with hh; [|srel_ns]
  | |- srel _ _ (set_mcu ?hh _ _ _) => apply srel_trans with hh; [|srel_ns]
  | |- srel _ _ (publish ?hh _ _) => apply srel_trans with hh; [|srel_ns]
  end.

(* a session is updated: kind, backend kept; the connection kept or dropped; the room kept or left *)
Lemma srel_put xs h sid s s1 :
  get_sess h sid = Some s -> s_kind s1 = s_kind s -> s_backend s1 = s_backend s ->
  (s_conn s1 = s_conn s \/ s_conn s1 = None) -> (s_room s1 = s_room s \/ s_room s1 = None) ->
  srel xs h (put_sess h sid s1).
Proof.
  intros Hs Hk Hb Hc Hm. constructor.
  - unfold skeys, put_sess. cbn [h_sessions set_sessions]. now rewrite (keys_aset_same _ sid s1 s Hs).
  - auto.
  - intros x s'. rewrite get_put. destruct (N.eqb_spec x sid) as [->|Hne]; intros H.
    + injection H as <-. exists s. auto.
    + exists s'. repeat split; auto.
  - intros C x s' c. rewrite get_put. destruct (N.eqb_spec x sid) as [->|Hne]; intros H Hcc.
    + injection H as <-. apply (C sid s c Hs). destruct Hc as [Hc|Hc]; congruence.
    + exact (C x s' c H Hcc).
  - intros x s' p v _ _ Hp. now right.
Qed.

(* a session without a connection is removed *)
Lemma srel_remove xs h h' sid :
  h_sessions h' = adel (h_sessions h) sid -> h_conns h' = h_conns h -> h_vtable h' = h_vtable h -> srel xs h h'.
Proof.
  intros Hs Hc Hv. constructor.
  - unfold skeys. rewrite Hs. apply nodup_keys_adel.
  - unfold vkeys. now rewrite Hv.
  - intros x s'. unfold get_sess. rewrite Hs, aget_adel. destruct (N.eqb x sid); [discriminate|].
    intros H. exists s'. repeat split; auto.
  - intros C x s' c. unfold get_sess, linked. rewrite Hs, Hc, aget_adel. destruct (N.eqb x sid); [discriminate|]. apply C.
  - intros x s' p v _ _ Hp. right. now rewrite Hv.
Qed.

Lemma srel_fold_sessions xs h0 h l f :
  srel xs h0 h -> (forall hh x, srel xs hh (fst (f hh x))) -> srel xs h0 (fst (fold_sessions h l f)).
Proof.
  intros R Hf. apply (wf_fold_sessions (fun hh => srel xs h0 hh)); [exact R|].
  intros hh x Rh. eapply srel_trans; [exact Rh|apply Hf].
Qed.
Lemma srel_fold_left {A} xs (f : hub -> A -> hub) l : forall h0 h,
  srel xs h0 h -> (forall hh x, srel xs hh (f hh x)) -> srel xs h0 (fold_left f l h).
Proof.
  induction l as [|x l IH]; intros h0 h R Hf; cbn [fold_left]; [exact R|]. apply IH; [|exact Hf].
  eapply srel_trans; [exact R|apply Hf].
Qed.

(* ------------------------------------------------------------------ functions that touch neither connections nor the virtual table *)
(* same keys, same connection table, same virtual table; every session keeps kind, backend and
   connection, and its room or leaves it *)
Record stab (h h' : hub) : Prop := {
  st_keys : skeys h' = skeys h;
  st_conns : h_conns h' = h_conns h;
  st_vt : h_vtable h' = h_vtable h;
  st_dead : forall x, get_sess h x = None -> get_sess h' x = None;
  st_sess : forall x s, get_sess h x = Some s ->
     exists s', get_sess h' x = Some s' /\ s_kind s' = s_kind s /\ s_backend s' = s_backend s /\
                s_conn s' = s_conn s /\ (s_room s' = s_room s \/ s_room s' = None);
}.

Lemma stab_refl h : stab h h.
Proof. constructor; auto. intros x s Hs. exists s. repeat split; auto. Qed.
Lemma stab_trans h1 h2 h3 : stab h1 h2 -> stab h2 h3 -> stab h1 h3.
Proof.
  intros A B. constructor.
  - rewrite (st_keys _ _ B). apply A.
  - rewrite (st_conns _ _ B). apply A.
  - rewrite (st_vt _ _ B). apply A.
  - intros x H. apply (st_dead _ _ B), (st_dead _ _ A), H.
  - intros x s1 H1. destruct (st_sess _ _ A x s1 H1) as (s2 & H2 & K2 & B2 & C2 & M2).
    destruct (st_sess _ _ B x s2 H2) as (s3 & H3 & K3 & B3 & C3 & M3).
    exists s3. split; [exact H3|]. repeat split; try congruence.
    destruct M3 as [M3|M3]; [|now right]. destruct M2 as [M2|M2]; [left|right]; congruence.
Qed.
Lemma stab_srel xs h h' : stab h h' -> srel xs h h'.
Proof.
  intros S. constructor.
  - now rewrite (st_keys _ _ S).
  - unfold vkeys. now rewrite (st_vt _ _ S).
  - intros x s' Hs'. destruct (get_sess h x) as [s|] eqn:Hs.
    + destruct (st_sess _ _ S x s Hs) as (s'' & Hs'' & K & B & C & M). rewrite Hs' in Hs''. injection Hs'' as <-.
      exists s. repeat split; auto.
    + rewrite (st_dead _ _ S x Hs) in Hs'. discriminate.
  - intros C x s' c Hs' Hc. destruct (get_sess h x) as [s|] eqn:Hs.
    + destruct (st_sess _ _ S x s Hs) as (s'' & Hs'' & _ & _ & Cn & _). rewrite Hs' in Hs''. injection Hs'' as <-.
      unfold linked. rewrite (st_conns _ _ S). apply (C x s c Hs). congruence.
    + rewrite (st_dead _ _ S x Hs) in Hs'. discriminate.
  - intros x s' p v _ _ Hp. right. now rewrite (st_vt _ _ S).
Qed.

Lemma stab_nosess h h' :
  h_sessions h' = h_sessions h -> h_conns h' = h_conns h -> h_vtable h' = h_vtable h -> stab h h'.
Proof.
  intros Hs Hc Hv. constructor; unfold skeys, get_sess; rewrite ?Hs; auto.
  intros x s H. exists s. repeat split; auto.
Qed.
Ltac stab_ns :=
  apply stab_nosess;
  (cbn [h_sessions h_conns h_vtable fst publish set_conns set_sessions set_rooms set_rs set_vtable
        set_expired set_anonymous set_dialout set_clients set_counted set_fail set_bus set_nextsid set_clock
        set_mcu record_failure]; reflexivity).

Lemma stab_put h sid s s1 :
  get_sess h sid = Some s -> s_kind s1 = s_kind s -> s_backend s1 = s_backend s -> s_conn s1 = s_conn s ->
  (s_room s1 = s_room s \/ s_room s1 = None) -> stab h (put_sess h sid s1).
Proof.
  intros Hs Hk Hb Hc Hm. constructor; try reflexivity.
  - unfold skeys, put_sess. cbn [h_sessions set_sessions]. now rewrite (keys_aset_same _ sid s1 s Hs).
  - intros x. rewrite get_put. destruct (N.eqb_spec x sid) as [->|Hne]; [congruence|auto].
  - intros x sx. rewrite get_put. destruct (N.eqb_spec x sid) as [->|Hne]; intros H.
    + rewrite Hs in H. injection H as <-. exists s1. auto.
    + exists sx. repeat split; auto.
Qed.

Lemma rs_set_proj h sid rs :
  h_sessions (rs_set h sid rs) = h_sessions h /\ h_conns (rs_set h sid rs) = h_conns h /\ h_vtable (rs_set h sid rs) = h_vtable h.
Proof.
  unfold rs_set. destruct (N.eqb rs 0).
  - destruct (aget (h_rs1 h) sid); repeat split; reflexivity.
  - destruct (aget (h_rs1 h) sid) as [prev|]; [destruct (N.eqb prev rs)|]; repeat split; reflexivity.
Qed.
Lemma stab_rs_set h sid rs : stab h (rs_set h sid rs).
Proof. destruct (rs_set_proj h sid rs) as (A & B & C). now apply stab_nosess. Qed.
Lemma stab_rs_del h sid : stab h (rs_del h sid).
Proof. apply stab_rs_set. Qed.
Lemma stab_publish h subj m : stab h (publish h subj m).
Proof. stab_ns. Qed.

Lemma stab_room_remove h k sid : stab h (room_remove h k sid).
Proof.
  unfold room_remove. destruct (room_of h k) as [r|]; [|apply stab_refl].
  destruct (nmem sid (r_members r)); [|apply stab_refl].
  eapply stab_trans; [|apply stab_publish]. unfold remove_room_if_empty.
  match goal with |- context [room_of ?hh k] => destruct (room_of hh k) as [r1|] end; [|stab_ns].
  destruct (r_members r1); stab_ns.
Qed.

Lemma stab_deliver_to_session h sid m : stab h (fst (deliver_to_session h sid m)).
Proof.
  unfold deliver_to_session. destruct (get_sess h sid) as [s|] eqn:Hs; [|apply stab_refl].
  match goal with |- context [let '(m', s1) := ?X in _] => destruct X as [m' s1] eqn:HX end.
  assert (Hc : s_kind s1 = s_kind s /\ s_backend s1 = s_backend s /\ s_conn s1 = s_conn s /\ s_room s1 = s_room s).
  { destruct m; try (injection HX as <- <-; repeat split; reflexivity).
    destruct (filter_seen (s_seen s) l) as [keep seen']. injection HX as <- <-. repeat split; reflexivity. }
  destruct Hc as (A & B & C & D).
  destruct m' as [mm|]; cbn [fst].
  - destruct (s_conn s1) eqn:Hc1; cbn [fst]; apply stab_put with s;
      cbn [s_kind s_backend s_conn s_room sess_pending upd_sess]; auto; congruence.
  - apply stab_put with s; auto.
Qed.

Lemma stab_close_tokens h toks : stab h (fst (close_tokens h toks)).
Proof. unfold close_tokens. cbn [fst]. stab_ns. Qed.

Lemma stab_release_mcu h sid : stab h (fst (release_mcu h sid)).
Proof.
  unfold release_mcu. destruct (get_sess h sid) as [s|] eqn:Hs; [|apply stab_refl].
  eapply stab_trans; [|apply stab_close_tokens]. apply stab_put with s; auto.
Qed.

Lemma stab_revoke h sid : stab h (fst (revoke h sid)).
Proof.
  unfold revoke. destruct (get_sess h sid) as [s|] eqn:Hs; [|apply stab_refl]. cbv zeta.
  eapply stab_trans; [|apply stab_close_tokens]. apply stab_put with s; auto.
Qed.

Lemma stab_leave_call h sid : stab h (fst (leave_call h sid)).
Proof.
  unfold leave_call. destruct (get_sess h sid) as [s|]; [|apply stab_refl].
  destruct (s_kind s); destruct (s_room s); try apply stab_refl; apply stab_release_mcu.
Qed.

Lemma stab_set_incall h k sid on : stab h (set_incall h k sid on).
Proof.
  unfold set_incall. destruct (room_of h k) as [r|]; [|apply stab_refl].
  destruct (on && negb (nmem sid (r_members r))); [apply stab_refl|stab_ns].
Qed.

Lemma stab_leave_room h sid n : stab h (fst (leave_room h sid n)).
Proof.
  unfold leave_room. destruct (get_sess h sid) as [s|] eqn:Hs; [|apply stab_refl].
  destruct (s_room s) as [k|]; [|apply stab_refl].
  assert (Hs1 : get_sess (rs_del h sid) sid = Some s) by (unfold get_sess; now rewrite rs_del_sessions).
  destruct (is_virtual (s_kind s)).
  - cbn [fst]. eapply stab_trans; [|apply stab_room_remove]. eapply stab_trans; [apply stab_rs_del|].
    apply stab_put with s; auto.
  - match goal with |- context [release_mcu ?hh sid] => destruct (release_mcu hh sid) as [h3 o2] eqn:Hr end. cbn [fst].
    eapply stab_trans; [|apply stab_room_remove]. rewrite (fst_eq _ _ _ Hr).
    eapply stab_trans; [|apply stab_release_mcu]. eapply stab_trans; [apply stab_rs_del|].
    apply stab_put with s; auto.
Qed.

(* ------------------------------------------------------------------ closing *)
(* the session is taken out of the table, its connection detached, its table entry dropped *)
Lemma srel_remove_tail xs H sid s2 :
  get_sess H sid = Some s2 -> srel xs H (drop_vt (detach_conn (scrub H sid) (s_conn s2)) (s_kind s2) sid).
Proof.
  intros Hs2. set (F := drop_vt (detach_conn (scrub H sid) (s_conn s2)) (s_kind s2) sid).
  destruct (drop_vt_other (detach_conn (scrub H sid) (s_conn s2)) (s_kind s2) sid) as (D1 & _ & _ & _ & _ & _ & _ & _ & _ & D10).
  destruct (detach_conn_other (scrub H sid) (s_conn s2)) as (F1 & _ & _ & _ & _ & _ & _ & _ & _ & F10).
  assert (Hsess : h_sessions F = adel (h_sessions H) sid) by (unfold F; rewrite D1, F1; reflexivity).
  assert (Hget : forall x, get_sess F x = if N.eqb x sid then None else get_sess H x).
  { intros x. unfold get_sess. rewrite Hsess. apply aget_adel. }
  constructor.
  - unfold skeys. rewrite Hsess. apply nodup_keys_adel.
  - pose proof (F10 : h_vtable (detach_conn (scrub H sid) (s_conn s2)) = h_vtable H) as F10'.
    unfold vkeys, F, drop_vt. destruct (s_kind s2) as [| |p v]; try (rewrite F10'; auto).
    destruct (pget (h_vtable H) (p, v)) as [y|]; try (rewrite F10'; auto).
    destruct (N.eqb y sid); [cbn [h_vtable set_vtable]; rewrite ?F10'; apply nodup_pkeys_pdel|rewrite ?F10'; auto].
  - intros x s'. rewrite Hget. destruct (N.eqb x sid); [discriminate|]. intros Hx. exists s'. repeat split; auto.
  - intros C x s' c. rewrite Hget. destruct (N.eqb_spec x sid) as [->|Hne]; [discriminate|]. intros Hx Hc.
    destruct (C x s' c Hx Hc) as (cn & Hcn & Hl). unfold linked, F. rewrite D10, detach_conn_get.
    cbn [h_conns scrub set_counted set_dialout set_anonymous set_expired set_clients set_sessions].
    destruct (s_conn s2) as [c0|] eqn:Hc0; [|eauto].
    destruct (N.eqb_spec c c0) as [->|Hcc]; [|eauto].
    exfalso. destruct (C sid s2 c0 Hs2 Hc0) as (cn' & Hcn' & Hl'). rewrite Hcn in Hcn'. injection Hcn' as <-. congruence.
  - intros x s' p v. rewrite Hget. destruct (N.eqb_spec x sid) as [->|Hne]; [discriminate|]. intros Hx Hk Hp. right.
    unfold F. rewrite drop_vt_get. rewrite F10. cbn [h_vtable scrub set_counted set_dialout set_anonymous set_expired set_clients set_sessions].
    destruct (s_kind s2) as [| |p' v']; auto.
    destruct (pair_eqb_spec (p, v) (p', v')) as [E|E]; [|exact Hp]. rewrite <- E, Hp.
    destruct (N.eqb_spec x sid); [contradiction|reflexivity].
Qed.

Lemma srel_close_one xs h sid : srel xs h (fst (close_one h sid)).
Proof.
  unfold close_one. destruct (get_sess h sid) as [s|] eqn:Hs; [|apply srel_refl].
  destruct (leave_room h sid true) as [h1 o1] eqn:Hl. destruct (release_mcu h1 sid) as [h2a o2a] eqn:Hr.
  match goal with |- context [scrub ?hh sid] => set (h2 := hh) end.
  assert (S2 : stab h h2).
  { apply stab_trans with h1; [rewrite (fst_eq _ _ _ Hl); apply stab_leave_room|].
    apply stab_trans with h2a; [rewrite (fst_eq _ _ _ Hr); apply stab_release_mcu|]. unfold h2. stab_ns. }
  destruct (st_sess _ _ S2 sid s Hs) as (s2 & Hs2 & K2 & _ & C2 & _).
  assert (R : srel xs h (drop_vt (detach_conn (scrub h2 sid) (s_conn s)) (s_kind s) sid)).
  { eapply srel_trans; [apply stab_srel; exact S2|]. rewrite <- K2, <- C2. now apply srel_remove_tail. }
  destruct (s_kind s); cbn [fst]; exact R.
Qed.

Lemma srel_close_all xs kids : forall h0 hh o, srel xs h0 hh -> srel xs h0 (fst (close_all kids (hh, o))).
Proof.
  induction kids as [|k kids IH]; intros h0 hh o R; cbn [close_all fold_left fst]; [exact R|].
  destruct (close_one hh k) as [h1 o1] eqn:Hc. fold (close_all kids (h1, o ++ o1)). apply IH.
  eapply srel_trans; [exact R|]. rewrite (fst_eq _ _ _ Hc). apply srel_close_one.
Qed.
Lemma srel_close_session xs h sid : srel xs h (fst (close_session h sid)).
Proof.
  unfold close_session. destruct (close_one h sid) as [h1 o1] eqn:Hc.
  fold (close_all (children h sid) (h1, o1)). apply srel_close_all. rewrite (fst_eq _ _ _ Hc). apply srel_close_one.
Qed.

(* a connection goes: the session attached to it (if any) is detached in the same breath *)
Lemma srel_cut_conn xs h c cn :
  aget (h_conns h) c = Some cn ->
  srel xs h (match c_sess cn with
             | Some sid => match get_sess (set_conns h (adel (h_conns h) c)) sid with
                           | Some s => put_sess (set_conns h (adel (h_conns h) c)) sid (sess_conn s None)
                           | None => set_conns h (adel (h_conns h) c) end
             | None => set_conns h (adel (h_conns h) c) end).
Proof.
  intros Hc. set (h1 := set_conns h (adel (h_conns h) c)).
  assert (Hg1 : forall x, get_sess h1 x = get_sess h x) by reflexivity.
  assert (Hcut : forall hh, h_conns hh = adel (h_conns h) c -> h_vtable hh = h_vtable h -> skeys hh = skeys h ->
            (forall x s', get_sess hh x = Some s' -> exists s, get_sess h x = Some s /\ s_kind s' = s_kind s /\
                s_backend s' = s_backend s /\ (s_conn s' = s_conn s \/ s_conn s' = None) /\ s_room s' = s_room s) ->
            (forall x s', get_sess hh x = Some s' -> s_conn s' <> Some c \/ c_sess cn <> Some x) ->
            srel xs h hh).
  { intros hh Hco Hvt Hk Hse Hnc. constructor.
    - now rewrite Hk.
    - unfold vkeys. now rewrite Hvt.
    - intros x s' Hx. destruct (Hse x s' Hx) as (s & A & B & C & D & E). exists s. repeat split; auto.
    - intros C x s' c' Hx Hc'. destruct (Hse x s' Hx) as (s & A & _ & _ & D & _).
      assert (Hcs : s_conn s = Some c') by (destruct D; congruence).
      destruct (C x s c' A Hcs) as (cn' & Hcn' & Hl'). unfold linked. rewrite Hco, aget_adel.
      destruct (N.eqb_spec c' c) as [->|Hne]; [|eauto].
      exfalso. rewrite Hc in Hcn'. injection Hcn' as <-. destruct (Hnc x s' Hx); contradiction.
    - intros x s' p v _ _ Hp. right. now rewrite Hvt. }
  destruct (c_sess cn) as [sid|] eqn:Hcs.
  - destruct (get_sess h1 sid) as [s|] eqn:Hs.
    + apply Hcut; try reflexivity.
      * unfold skeys, put_sess. cbn [h_sessions set_sessions h1 set_conns]. rewrite Hg1 in Hs. now rewrite (keys_aset_same _ sid _ s Hs).
      * intros x s'. rewrite get_put. destruct (N.eqb_spec x sid) as [->|Hne]; intros H.
        -- injection H as <-. exists s. rewrite <- Hg1. repeat split; auto.
        -- exists s'. rewrite <- Hg1. repeat split; auto.
      * intros x s'. rewrite get_put. destruct (N.eqb_spec x sid) as [->|Hne]; intros H.
        -- injection H as <-. left. discriminate.
        -- right. congruence.
    + apply Hcut; try reflexivity.
      * intros x s' H. exists s'. rewrite <- Hg1. repeat split; auto.
      * intros x s' H. right. intros E. injection E as <-. congruence.
  - apply Hcut; try reflexivity.
    + intros x s' H. exists s'. rewrite <- Hg1. repeat split; auto.
    + intros x s' H. right. discriminate.
Qed.

Lemma srel_close_conn xs h c : srel xs h (fst (close_conn h c)).
Proof.
  unfold close_conn. destruct (aget (h_conns h) c) as [cn|] eqn:Hc; [|apply srel_refl].
  pose proof (srel_cut_conn xs h c cn Hc) as R.
  destruct (c_sess cn) as [sid|]; [|exact R].
  match goal with |- context [close_session ?hh sid] => destruct (close_session hh sid) as [h3 outs] eqn:Hcl end. cbn [fst].
  rewrite (fst_eq _ _ _ Hcl). eapply srel_trans; [exact R|apply srel_close_session].
Qed.

Lemma srel_send_session xs h sid m : srel xs h (fst (send_session h sid m)).
Proof.
  unfold send_session.
  match goal with |- context [deliver_to_session h ?t m] => set (target := t) end.
  destruct (deliver_to_session h target m) as [h1 outs] eqn:Hd.
  assert (R1 : srel xs h h1) by (rewrite (fst_eq _ _ _ Hd); apply stab_srel, stab_deliver_to_session).
  destruct outs as [|[c mm| | |] [|o2 outs2]]; cbn [fst]; try exact R1.
  destruct (is_closing h1 c mm); [|exact R1].
  destruct (close_conn h1 c) as [h2 outs2] eqn:Hc. cbn [fst]. rewrite (fst_eq _ _ _ Hc).
  eapply srel_trans; [exact R1|apply srel_close_conn].
Qed.
Lemma srel_send_conn xs h c m : srel xs h (fst (send_conn h c m)).
Proof.
  unfold send_conn. destruct (aget (h_conns h) c); [|apply srel_refl].
  destruct (is_closing h c m); [|apply srel_refl].
  destruct (close_conn h c) as [h2 outs2] eqn:Hc. cbn [fst]. rewrite (fst_eq _ _ _ Hc). apply srel_close_conn.
Qed.

(* ------------------------------------------------------------------ kicks, messages, rooms, the bus *)
Lemma srel_kick xs h rs : srel xs h (fst (kick_room_session h rs)).
Proof.
  unfold kick_room_session. destruct (aget (h_rs2 h) rs) as [sid'|]; [|apply srel_refl].
  destruct (get_sess h sid') as [s'|]; [|srel_ns].
  destruct (leave_room h sid' false) as [h1 o1] eqn:Hl.
  assert (R1 : srel xs h h1) by (rewrite (fst_eq _ _ _ Hl); apply stab_srel, stab_leave_room).
  match goal with |- context [let '(h2, outs2) := ?X in _] => destruct X as [h2 o2] eqn:H2 end.
  assert (R2 : srel xs h h2).
  { destruct (s_kind s') as [| |p v]; destruct (s_conn s') as [c'|];
      try (injection H2 as <- <-; exact R1); rewrite (fst_eq _ _ _ H2); (eapply srel_trans; [exact R1|apply srel_send_conn]). }
  destruct (close_session h2 sid') as [h3 o3] eqn:H3. cbn [fst]. rewrite (fst_eq _ _ _ H3).
  eapply srel_trans; [exact R2|apply srel_close_session].
Qed.

Lemma srel_do_message xs h sid s kindn to tag cb : srel xs h (fst (do_message h sid s kindn to tag cb)).
Proof.
  unfold do_message. destruct to as [i|u| |].
  - destruct i as [n|n|k|n]; try srel_ns.
    destruct (get_sess h n) as [t|]; [|srel_ns].
    destruct (cb && negb (N.eqb (s_backend t) (s_backend s))); [apply srel_refl|].
    destruct (N.eqb n sid); [apply srel_refl|].
    destruct (s_kind t); apply srel_send_session.
  - destruct (N.eqb u 0); [apply srel_refl|]. destruct (N.eqb u (sess_userid h sid s)); [apply srel_refl|]. srel_ns.
  - destruct (s_room s); [srel_ns|apply srel_refl].
  - destruct (s_room s); [srel_ns|apply srel_refl].
Qed.

Lemma srel_recv_event xs h sid m sender co re t : srel xs h (fst (recv_event h sid m sender co re t)).
Proof.
  unfold recv_event. destruct (get_sess h sid) as [s|]; [|apply srel_refl].
  destruct (N.eqb sender sid && negb (N.eqb sender 0)); [apply srel_refl|].
  destruct (co && negb (in_call h sid s)); [apply srel_refl|].
  match goal with |- context [if ?c then _ else _] => destruct c end; [apply srel_refl|]. apply srel_send_session.
Qed.

Lemma srel_delete_member xs h m : srel xs h (fst (delete_member h m)).
Proof.
  unfold delete_member. destruct (get_sess h m) as [s|]; [|apply srel_refl].
  destruct (leave_room h m true) as [h2 o1] eqn:Hl.
  assert (R2 : srel xs h h2) by (rewrite (fst_eq _ _ _ Hl); apply stab_srel, stab_leave_room).
  destruct (is_virtual (s_kind s)); [exact R2|].
  destruct (send_session h2 m (SRoom 0)) as [h3 o2] eqn:H3. cbn [fst]. rewrite (fst_eq _ _ _ H3).
  eapply srel_trans; [exact R2|apply srel_send_session].
Qed.

Lemma srel_transient_update xs h k r del key val : srel xs h (fst (transient_update h k r del key val)).
Proof.
  unfold transient_update.
  assert (Hn : forall d m, srel xs h (fst (transient_notify h k r d m))).
  { intros d m. unfold transient_notify. apply srel_fold_sessions; [srel_ns|]. intros. apply srel_send_session. }
  destruct (del || N.eqb val 0).
  - destruct (aget (r_transient r) key); [apply Hn|apply srel_refl].
  - destruct (aget (r_transient r) key) as [v|]; [destruct (N.eqb v val); [apply srel_refl|apply Hn]|apply Hn].
Qed.

Lemma srel_room_request xs h k q : srel xs h (fst (room_request h k q)).
Proof.
  unfold room_request. destruct (room_of h k) as [r|]; [|apply srel_refl].
  destruct q as [|users rs|tag|l|l|ic|tag|ok|del key val]; [| | | | | | |apply srel_refl|apply srel_transient_update].
  - match goal with |- context [fold_sessions h ?int ?f] => destruct (fold_sessions h int f) as [h0 o0] eqn:H0 end.
    assert (R0 : srel xs h h0).
    { rewrite (fst_eq _ _ _ H0). apply srel_fold_sessions; [apply srel_refl|]. intros. apply srel_send_session. }
    match goal with |- context [fold_sessions ?h1 ?mm delete_member] => destruct (fold_sessions h1 mm delete_member) as [h9 o9] eqn:H9 end.
    cbn [fst]. rewrite (fst_eq _ _ _ H9). apply srel_fold_sessions; [|intros; apply srel_delete_member].
    eapply srel_trans; [exact R0|srel_ns].
  - apply srel_refl.
  - destruct (N.eqb (r_props r) (tag + 1)); [apply srel_refl|srel_ns].
  - srel_ns.
  - match goal with |- context [fold_left ?f l (h, [])] => set (g := f) end.
    assert (G : forall acc, srel xs h (fst acc) -> srel xs h (fst (fold_left g l acc))).
    { induction l as [|u l IH]; intros acc Hacc; cbn [fold_left]; [exact Hacc|]. apply IH.
      destruct acc as [hh oo]. cbn [fst] in Hacc. unfold g. destruct u as [[i icv] pm].
      destruct i as [n|sid|kk|n]; try exact Hacc.
      destruct (get_sess hh sid); [|exact Hacc].
      destruct (N.testbit icv 0); [cbn [fst]; eapply srel_trans; [exact Hacc|apply stab_srel, stab_set_incall]|].
      destruct (leave_call (set_incall hh k sid false) sid) as [h2 o2] eqn:H2. cbn [fst].
      rewrite (fst_eq _ _ _ H2). eapply srel_trans; [exact Hacc|].
      apply stab_srel. eapply stab_trans; [apply stab_set_incall|apply stab_leave_call]. }
    specialize (G (h, []) (srel_refl xs h)).
    destruct (fold_left g l (h, [])) as [h1 outs]. cbn [fst] in *. eapply srel_trans; [exact G|srel_ns].
  - destruct (N.testbit ic 0).
    + match goal with |- context [filter ?f (filter ?g0 (r_members r))] => destruct (filter f (filter g0 (r_members r))) end; [apply srel_refl|].
      apply srel_fold_sessions; [|intros; apply srel_send_session].
      apply srel_fold_left; [apply srel_refl|]. intros. apply stab_srel, stab_set_incall.
    + destruct (r_incall r); [apply srel_refl|].
      match goal with |- context [fold_sessions ?h1 ?lv leave_call] => destruct (fold_sessions h1 lv leave_call) as [h2 o1] eqn:H2 end.
      assert (R2 : srel xs h h2).
      { rewrite (fst_eq _ _ _ H2). apply srel_fold_sessions; [srel_ns|]. intros. apply stab_srel, stab_leave_call. }
      match goal with |- context [fold_sessions h2 ?lv ?f] => destruct (fold_sessions h2 lv f) as [h3 o2] eqn:H3 end.
      cbn [fst]. rewrite (fst_eq _ _ _ H3). apply srel_fold_sessions; [exact R2|]. intros. apply srel_send_session.
  - srel_ns.
Qed.

Lemma srel_deliver_pub xs h p : srel xs h (fst (deliver_pub h p)).
Proof.
  unfold deliver_pub.
  destruct (p_subj p) as [b r|b r|b u|sid|]; destruct (p_msg p) as [m sender co|m|sj internal|pm| |q]; try apply srel_refl.
  - apply srel_fold_sessions; [apply srel_refl|]. intros. apply srel_recv_event.
  - apply srel_fold_sessions; [apply srel_refl|]. intros. apply srel_recv_event.
  - destruct (room_of h (b, r)) as [rm|]; [|apply srel_refl].
    match goal with |- context [match ?o with [] => _ | _ => _ end] => destruct o end; [apply srel_refl|]. cbn [fst].
    apply srel_fold_left; [srel_ns|].
    intros hh x. destruct (get_sess hh x) as [sx|]; [|apply srel_refl].
    destruct (is_virtual (s_kind sx) && negb (N.eqb (s_flags sx) 0)); [srel_ns|apply srel_refl].
  - apply srel_room_request.
  - apply srel_fold_sessions; [apply srel_refl|]. intros. apply srel_recv_event.
  - destruct (get_sess h sid) as [s|]; [|apply srel_refl]. destruct (is_virtual (s_kind s)); [apply srel_refl|].
    apply srel_recv_event.
  - destruct (get_sess h sid) as [s|]; [|apply srel_refl]. destruct (is_virtual (s_kind s)); [apply srel_refl|].
    apply srel_recv_event.
  - destruct (get_sess h sid) as [s|] eqn:Hs; [|apply srel_refl]. destruct (is_virtual (s_kind s)); [apply srel_refl|].
    apply stab_srel. eapply stab_trans; [|apply stab_revoke]. apply stab_put with s; auto.
  - destruct (get_sess h sid) as [s|]; [|apply srel_refl]. destruct (is_virtual (s_kind s)); [apply srel_refl|].
    destruct (leave_room h sid false) as [h1 o1] eqn:H1.
    destruct (send_session h1 sid (SBye B_room_session_reconnected)) as [h2 o2] eqn:H2.
    destruct (close_session h2 sid) as [h3 o3] eqn:H3. cbn [fst].
    apply srel_trans with h1; [rewrite (fst_eq _ _ _ H1); apply stab_srel, stab_leave_room|].
    apply srel_trans with h2; [rewrite (fst_eq _ _ _ H2); apply srel_send_session|].
    rewrite (fst_eq _ _ _ H3); apply srel_close_session.
Qed.

Lemma srel_deliver_at xs h pos : srel xs h (fst (deliver_at h pos)).
Proof.
  unfold deliver_at. destruct (take_nth pos (h_bus h)) as [[p rest]|]; [|apply srel_refl].
  eapply srel_trans; [|apply srel_deliver_pub]. srel_ns.
Qed.

Lemma srel_drain xs fuel : forall h, srel xs h (fst (drain fuel h)).
Proof.
  induction fuel as [|f IH]; intros h; cbn [drain]; [apply srel_refl|].
  destruct (h_bus h); [apply srel_refl|].
  destruct (deliver_at h 0) as [h1 o1] eqn:H1. destruct (drain f h1) as [h2 o2] eqn:H2. cbn [fst].
  apply srel_trans with h1; [rewrite (fst_eq _ _ _ H1); apply srel_deliver_at|].
  rewrite (fst_eq _ _ _ H2). apply IH.
Qed.

Lemma srel_do_api xs h b room q : srel xs h (fst (do_api h b room q)).
Proof.
  unfold do_api. destruct q as [|users rs|tag|l|l|ic|tag|ok|del key val]; cbn [fst]; try srel_ns.
  - apply srel_fold_left.
    + apply srel_fold_left; [apply srel_refl|]. intros. srel_ns.
    + intros hh x. destruct (aget (h_rs2 hh) (1000000 + x)); [srel_ns|apply srel_refl].
  - match goal with |- context [match ?o with [] => _ | _ => _ end] => destruct o end; cbn [fst]; [apply srel_refl|].
    speel. apply srel_fold_left; [apply srel_refl|].
    intros hh [[i icv] pm]. destruct i; try apply srel_refl. destruct pm; [srel_ns|apply srel_refl].
  - match goal with |- context [match ?o with [] => _ | _ => _ end] => destruct o end; cbn [fst]; [apply srel_refl|srel_ns].
  - (* dial-out *)
    destruct ok; cbn [negb fst]; [|apply srel_refl]. destruct (dialout_session h b) as [sid|]; [|apply srel_refl].
    destruct (send_session h sid (SDialout room)) as [h1 o1] eqn:H1. cbn [fst].
    apply srel_trans with h1; [rewrite (fst_eq _ _ _ H1); apply srel_send_session|srel_ns].
Qed.

Lemma srel_do_tick xs h secs : srel xs h (fst (do_tick h secs)).
Proof.
  unfold do_tick.
  match goal with |- context [let '(h1, o1) := ?X in _] => destruct X as [h1 o1] eqn:H1 end.
  assert (R1 : srel xs h h1).
  { destruct (hub_expire_s <? secs); [|injection H1 as <- <-; apply srel_refl].
    rewrite (fst_eq _ _ _ H1). apply srel_fold_sessions; [apply srel_refl|]. intros. apply srel_close_session. }
  match goal with |- context [let '(h2, o2) := ?X in _] => destruct X as [h2 o2] eqn:H2 end.
  assert (R2 : srel xs h h2).
  { destruct (hub_anonymous_s <? secs); [|injection H2 as <- <-; exact R1].
    rewrite (fst_eq _ _ _ H2). apply srel_fold_sessions; [exact R1|]. intros hh sid.
    destruct (get_sess hh sid) as [s|]; [|apply srel_refl].
    match goal with |- context [let '(h3, o3) := ?X in _] => destruct X as [h3 o3] eqn:H3 end.
    assert (R3 : srel xs hh h3).
    { destruct (s_conn s); [|injection H3 as <- <-; apply srel_refl]. rewrite (fst_eq _ _ _ H3). apply srel_send_conn. }
    destruct (close_session h3 sid) as [h4 o4] eqn:H4. cbn [fst]. rewrite (fst_eq _ _ _ H4).
    eapply srel_trans; [exact R3|apply srel_close_session]. }
  match goal with |- context [let '(h3, o3) := ?X in _] => destruct X as [h3 o3] eqn:H3 end.
  cbn [fst]. destruct (hub_hello_s <? secs); [|injection H3 as <- <-; exact R2].
  rewrite (fst_eq _ _ _ H3). apply srel_fold_sessions; [exact R2|]. intros. apply srel_send_conn.
Qed.

(* ------------------------------------------------------------------ media *)
Lemma srel_finish_create xs h tok p ok : srel xs h (fst (finish_create h tok p ok)).
Proof.
  unfold finish_create.
  assert (Hsend : forall hh x m, srel xs h hh -> srel xs h (fst (send_session hh x m))).
  { intros hh x m E. eapply srel_trans; [exact E|]. apply srel_send_session. }
  assert (Hcond : forall hh (b : bool) x m, srel xs h hh ->
            srel xs h (fst (if b then send_session hh x m else (hh, [])))).
  { intros hh b x m E. destruct b; [now apply Hsend|exact E]. }
  destruct ok; cbn [negb].
  2:{ destruct (send_session h (mp_errto p) (SError E_client_not_found)) as [h1 o1] eqn:H1. cbn [fst].
      rewrite (fst_eq _ _ _ H1). apply Hsend. apply srel_refl. }
  destruct (get_sess h (mp_owner p)) as [s|] eqn:Hs; [|apply srel_refl].
  destruct (negb (N.eqb (s_rel s) (mp_rel p))).
  { destruct (send_session h (mp_errto p) (SError E_client_not_found)) as [h1 o1] eqn:H1. cbn [fst].
    rewrite (fst_eq _ _ _ H1). apply Hsend. apply srel_refl. }
  destruct (N.eqb (mp_kind p) 0 && negb (offer_allowed (s_perms s) (mp_stream p) (N.land (mp_media p) 3))).
  { destruct (send_session h (mp_errto p) (SError E_not_allowed)) as [h1 o1] eqn:H1. cbn [fst].
    rewrite (fst_eq _ _ _ H1). apply Hsend. apply srel_refl. }
  destruct (N.eqb (mp_kind p) 0).
  - destruct (aget (s_pubs s) (mp_stream p)).
    + match goal with |- context [let '(h1, o1) := ?X in _] => destruct X as [h1 o1] eqn:H1 end. cbn [fst].
      rewrite (fst_eq _ _ _ H1). apply Hcond. apply srel_refl.
    + match goal with |- context [let '(h3, o3) := ?X in _] => destruct X as [h3 o3] eqn:H3 end. cbn [fst].
      rewrite (fst_eq _ _ _ H3). apply Hcond.
      speel. apply stab_srel. apply stab_put with s; auto.
  - destruct (sub_get s (mp_pubof p) (mp_stream p)).
    + match goal with |- context [let '(h1, o1) := ?X in _] => destruct X as [h1 o1] eqn:H1 end. cbn [fst].
      rewrite (fst_eq _ _ _ H1). apply Hcond. apply srel_refl.
    + match goal with |- context [let '(h3, o3) := ?X in _] => destruct X as [h3 o3] eqn:H3 end. cbn [fst].
      rewrite (fst_eq _ _ _ H3). apply Hcond.
      speel. apply stab_srel. apply stab_put with s; auto.
Qed.

Lemma srel_start_create xs h p : srel xs h (fst (start_create h p)).
Proof.
  unfold start_create. destruct (h_gated h); [cbn [fst]; srel_ns|].
  match goal with |- context [let '(h1, o1) := ?X in _] => destruct X as [h1 o1] eqn:H1 end. cbn [fst].
  rewrite (fst_eq _ _ _ H1). eapply srel_trans; [|apply srel_finish_create]. srel_ns.
Qed.

Lemma srel_do_mcudone xs h tok ok : srel xs h (fst (do_mcudone h tok ok)).
Proof.
  unfold do_mcudone. destruct (aget (h_mcupending h) tok) as [p|]; [|apply srel_refl].
  eapply srel_trans; [|apply srel_finish_create]. srel_ns.
Qed.

Lemma srel_do_sendoffer xs h c x s i stream : srel xs h (fst (do_sendoffer h c x s i stream)).
Proof.
  unfold do_sendoffer.
  destruct i as [n|n|k|n]; try (destruct (negb (send_allowed (s_perms s) stream)); apply srel_refl).
  destruct (get_sess h n) as [t|] eqn:Ht; [|destruct (negb (send_allowed (s_perms s) stream)); apply srel_refl].
  destruct (negb (N.eqb (s_backend t) (s_backend s))); [apply srel_refl|].
  destruct (N.eqb n x); [apply srel_refl|].
  destruct (negb (send_allowed (s_perms s) stream)); [apply srel_refl|].
  cbv zeta. set (r := match s_kind t with KVirtual p _ => p | _ => n end).
  destruct (get_sess h r) as [rs|] eqn:Hr; [|apply srel_refl].
  destruct (is_virtual (s_kind rs)) eqn:Hv; [apply srel_refl|].
  destruct (sub_get rs x stream); [apply srel_send_session|apply srel_start_create].
Qed.

Lemma srel_do_media xs h c sid s to mk stream media :
  get_sess h sid = Some s -> srel xs h (fst (do_media h c sid s to mk stream media)).
Proof.
  intros Hs. unfold do_media. destruct to as [i|u| |]; try apply srel_refl.
  destruct (N.eqb mk 0).
  - destruct (negb (offer_allowed (s_perms s) stream _)); [apply srel_refl|].
    destruct (aget (s_pubs s) stream); [|apply srel_start_create].
    eapply srel_trans; [|apply srel_send_session]. apply stab_srel. apply stab_put with s; auto.
  - destruct (N.eqb mk 1).
    + match goal with |- context [if ?c then _ else _] => destruct c end; [apply srel_refl|].
      destruct (negb (same_call h sid s _)); [apply srel_refl|].
      destruct (sub_get s _ stream); [apply srel_send_session|apply srel_start_create].
    + destruct (is_cand mk); [|destruct (N.eqb mk 3); [apply srel_do_sendoffer|apply srel_refl]].
      match goal with |- context [if ?c then _ else _] => destruct c end.
      * destruct (negb (send_allowed (s_perms s) stream)); [apply srel_refl|]. destruct (aget (s_pubs s) stream); apply srel_refl.
      * destruct (sub_get s _ stream); apply srel_refl.
Qed.

(* ------------------------------------------------------------------ the functions that create, attach, enter *)
(* the invariant reads only the session table, the connection table and the virtual table *)
Lemma ri_ext xs h h' :
  h_sessions h' = h_sessions h -> h_conns h' = h_conns h -> h_vtable h' = h_vtable h -> RIg xs h -> RIg xs h'.
Proof.
  intros A B C I. eapply ri_weaken; [|apply (ri_srel xs none1 h h'); [now apply srel_nosess|exact I]].
  intros x [Hx|[]]. exact Hx.
Qed.

(* a connection entry without a session is (re)written *)
Lemma srel_set_conn xs h c cn1 :
  (forall cn0, aget (h_conns h) c = Some cn0 -> c_sess cn0 = None) ->
  srel xs h (set_conns h (aset (h_conns h) c cn1)).
Proof.
  intros Hn. constructor; auto.
  - intros x s' H. exists s'. repeat split; auto.
  - intros C x s' c' Hx Hc'. destruct (C x s' c' Hx Hc') as (cn & Hcn & Hl). unfold linked.
    cbn [h_conns set_conns]. rewrite aget_aset. destruct (N.eqb_spec c' c) as [->|Hne]; [|eauto].
    rewrite (Hn cn Hcn) in Hl. discriminate.
Qed.

(* a session's room changes (to a room of its backend) *)
Lemma ri_put xs h sid s s1 :
  RIg xs h -> get_sess h sid = Some s -> s_kind s1 = s_kind s -> s_backend s1 = s_backend s -> s_conn s1 = s_conn s ->
  (forall k, s_room s1 = Some k -> fst k = s_backend s) -> RIg xs (put_sess h sid s1).
Proof.
  intros I Hs Hk Hb Hc Hm. constructor.
  - unfold skeys, put_sess. cbn [h_sessions set_sessions]. rewrite (keys_aset_same _ sid s1 s Hs). apply I.
  - rewrite get_put. destruct (N.eqb_spec 0 sid) as [<-|]; [|apply I]. rewrite (ri_zero _ _ I) in Hs. discriminate.
  - intros x sx c. rewrite get_put. destruct (N.eqb_spec x sid) as [->|Hne]; intros H Hcc.
    + injection H as <-. apply (ri_conn _ _ I sid s c Hs). congruence.
    + exact (ri_conn _ _ I x sx c H Hcc).
  - intros x sx c. rewrite get_put. destruct (N.eqb_spec x sid) as [->|Hne]; intros H Hcc.
    + injection H as <-. rewrite Hk. apply (ri_novirt _ _ I sid s c Hs). congruence.
    + exact (ri_novirt _ _ I x sx c H Hcc).
  - intros x sx p v. rewrite get_put. destruct (N.eqb_spec x sid) as [->|Hne]; intros H Hkk.
    + injection H as <-. apply (ri_vt _ _ I sid s p v Hs). congruence.
    + exact (ri_vt _ _ I x sx p v H Hkk).
  - apply I.
  - intros x sx k. rewrite get_put. destruct (N.eqb_spec x sid) as [->|Hne]; intros H Hkk.
    + injection H as <-. rewrite Hb. now apply Hm.
    + exact (ri_room _ _ I x sx k H Hkk).
  - intros x sx p v ps. rewrite !get_put. intros Hx Hkk Hp.
    assert (Hx0 : exists sx0, get_sess h x = Some sx0 /\ s_kind sx0 = s_kind sx /\ s_backend sx0 = s_backend sx).
    { destruct (N.eqb_spec x sid) as [->|]; [injection Hx as <-; exists s; auto|exists sx; auto]. }
    assert (Hp0 : exists ps0, get_sess h p = Some ps0 /\ s_backend ps0 = s_backend ps).
    { destruct (N.eqb_spec p sid) as [->|]; [injection Hp as <-; exists s; auto|exists ps; auto]. }
    destruct Hx0 as (sx0 & A & B & C). destruct Hp0 as (ps0 & D & E).
    rewrite <- E, <- C. apply (ri_parent _ _ I x sx0 p v ps0 A); congruence.
Qed.

(* a new session, not virtual, in no room, on a connection entry that gets its id *)
Lemma ri_attach h h' sid ns c :
  RI h -> WF h -> get_sess h sid = None -> sid <> 0 ->
  (forall x s, get_sess h x = Some s -> s_conn s <> Some c) ->
  s_conn ns = Some c -> is_virtual (s_kind ns) = false -> s_room ns = None ->
  h_sessions h' = aset (h_sessions h) sid ns -> h_vtable h' = h_vtable h ->
  linked h' c sid -> (forall x, x <> c -> aget (h_conns h') x = aget (h_conns h) x) ->
  RI h'.
Proof.
  intros I W Hf H0 Hfree Hc Hv Hr Hse Hvt Hl Hco.
  assert (Hget : forall x, get_sess h' x = if N.eqb x sid then Some ns else get_sess h x).
  { intros x. unfold get_sess. rewrite Hse. apply aget_aset. }
  constructor.
  - unfold skeys. rewrite Hse. apply nodup_keys_aset, I.
  - rewrite Hget. destruct (N.eqb_spec 0 sid); [congruence|apply I].
  - intros x sx c0. rewrite Hget. destruct (N.eqb_spec x sid) as [->|Hne]; intros H Hcc.
    + injection H as <-. rewrite Hc in Hcc. injection Hcc as <-. exact Hl.
    + destruct (ri_conn _ _ I x sx c0 H Hcc) as (cn & Hcn & Hli). unfold linked. rewrite Hco; [eauto|].
      intros ->. now apply (Hfree x sx H).
  - intros x sx c0. rewrite Hget. destruct (N.eqb_spec x sid) as [->|Hne]; intros H Hcc.
    + injection H as <-. exact Hv.
    + exact (ri_novirt _ _ I x sx c0 H Hcc).
  - intros x sx p v. rewrite Hget, Hvt. destruct (N.eqb_spec x sid) as [->|Hne]; intros H Hkk.
    + injection H as <-. rewrite Hkk in Hv. discriminate.
    + exact (ri_vt _ _ I x sx p v H Hkk).
  - unfold vkeys. rewrite Hvt. apply I.
  - intros x sx k. rewrite Hget. destruct (N.eqb_spec x sid) as [->|Hne]; intros H Hkk.
    + injection H as <-. congruence.
    + exact (ri_room _ _ I x sx k H Hkk).
  - intros x sx p v ps. rewrite !Hget. destruct (N.eqb_spec x sid) as [->|Hne]; intros Hx Hkk.
    + injection Hx as <-. rewrite Hkk in Hv. discriminate.
    + destruct (N.eqb_spec p sid) as [->|Hnp]; [|exact (ri_parent _ _ I x sx p v ps Hx Hkk)].
      destruct (wf_parent _ _ h W x sx sid v Hx Hkk) as [[]|(ps0 & Hps0 & _)]. congruence.
Qed.

Lemma next_id_nonzero h : next_id h <> 0.
Proof. unfold next_id. lia. Qed.

Lemma conn_free h c cn0 : CB h -> aget (h_conns h) c = Some cn0 -> c_sess cn0 = None ->
  forall x s, get_sess h x = Some s -> s_conn s <> Some c.
Proof.
  intros C Hc Hn x s Hs E. destruct (C x s c Hs E) as (cn & Hcn & Hl). rewrite Hc in Hcn. injection Hcn as <-. congruence.
Qed.

Lemma ri_register h c cn b k u cn0 :
  RI h -> WF h -> is_virtual k = false -> aget (h_conns h) c = Some cn0 -> c_sess cn0 = None ->
  RI (fst (register h c cn b k u)).
Proof.
  intros I W Hk Hc Hn. unfold register. cbv zeta.
  match goal with |- RI (fst (if ?X then _ else _)) => destruct X end.
  - cbn [fst]. apply ri_srel0 with h; [|exact I]. eapply srel_trans with (set_nextsid h (next_id h)); [srel_ns|].
    apply srel_set_conn. cbn [h_conns set_nextsid]. intros cn1 H1. congruence.
  - cbn [fst].
    apply (ri_attach h _ (next_id h) (new_session b k u c) c); auto.
    + exact (next_id_fresh h).
    + apply next_id_nonzero.
    + eapply conn_free; eauto. apply I.
    + destruct (negb (is_internal k) && negb (N.eqb (limit_of h b) 0)); destruct (N.eqb u 0 && negb (is_internal k));
        try reflexivity; destruct k as [|f d|]; try reflexivity; destruct d; reflexivity.
    + destruct (negb (is_internal k) && negb (N.eqb (limit_of h b) 0)); destruct (N.eqb u 0 && negb (is_internal k));
        try reflexivity; destruct k as [|f d|]; try reflexivity; destruct d; reflexivity.
    + exists (mkconn (c_addr cn) (Some (next_id h)) false). split; [|reflexivity].
      destruct (negb (is_internal k) && negb (N.eqb (limit_of h b) 0)); destruct (N.eqb u 0 && negb (is_internal k));
        try apply aget_aset_same; destruct k as [|f d|]; try apply aget_aset_same; destruct d; apply aget_aset_same.
    + intros x Hx.
      destruct (negb (is_internal k) && negb (N.eqb (limit_of h b) 0)); destruct (N.eqb u 0 && negb (is_internal k));
        try (apply aget_aset_other; exact Hx); destruct k as [|f d|]; try (apply aget_aset_other; exact Hx); destruct d; apply aget_aset_other; exact Hx.
Qed.

(* a session is taken over by another connection *)
Lemma ri_reattach h h' n s s1 c :
  RI h -> get_sess h n = Some s -> is_virtual (s_kind s) = false ->
  (forall x sx, get_sess h x = Some sx -> s_conn sx <> Some c) ->
  s_kind s1 = s_kind s -> s_backend s1 = s_backend s -> s_room s1 = s_room s -> s_conn s1 = Some c ->
  h_sessions h' = aset (h_sessions h) n s1 -> h_vtable h' = h_vtable h ->
  linked h' c n -> (forall x, x <> c -> s_conn s <> Some x -> aget (h_conns h') x = aget (h_conns h) x) ->
  RI h'.
Proof.
  intros I Hs Hv Hfree Hk Hb Hr Hc Hse Hvt Hl Hco.
  assert (Hget : forall x, get_sess h' x = if N.eqb x n then Some s1 else get_sess h x).
  { intros x. unfold get_sess. rewrite Hse. apply aget_aset. }
  constructor.
  - unfold skeys. rewrite Hse. apply nodup_keys_aset, I.
  - rewrite Hget. destruct (N.eqb_spec 0 n) as [<-|]; [|apply I]. rewrite (ri_zero _ _ I) in Hs. discriminate.
  - intros x sx c0. rewrite Hget. destruct (N.eqb_spec x n) as [->|Hne]; intros H Hcc.
    + injection H as <-. rewrite Hc in Hcc. injection Hcc as <-. exact Hl.
    + destruct (ri_conn _ _ I x sx c0 H Hcc) as (cn & Hcn & Hli). unfold linked. rewrite Hco; [eauto| |].
      * intros ->. now apply (Hfree x sx H).
      * intros E. destruct (ri_conn _ _ I n s c0 Hs E) as (cn' & Hcn' & Hli'). rewrite Hcn in Hcn'. injection Hcn' as <-. congruence.
  - intros x sx c0. rewrite Hget. destruct (N.eqb_spec x n) as [->|Hne]; intros H Hcc.
    + injection H as <-. now rewrite Hk.
    + exact (ri_novirt _ _ I x sx c0 H Hcc).
  - intros x sx p v. rewrite Hget, Hvt. destruct (N.eqb_spec x n) as [->|Hne]; intros H Hkk.
    + injection H as <-. apply (ri_vt _ _ I n s p v Hs). congruence.
    + exact (ri_vt _ _ I x sx p v H Hkk).
  - unfold vkeys. rewrite Hvt. apply I.
  - intros x sx k. rewrite Hget. destruct (N.eqb_spec x n) as [->|Hne]; intros H Hkk.
    + injection H as <-. rewrite Hb. apply (ri_room _ _ I n s k Hs). congruence.
    + exact (ri_room _ _ I x sx k H Hkk).
  - intros x sx p v ps. rewrite !Hget. intros Hx Hkk Hp.
    assert (Hx0 : exists sx0, get_sess h x = Some sx0 /\ s_kind sx0 = s_kind sx /\ s_backend sx0 = s_backend sx).
    { destruct (N.eqb_spec x n) as [->|]; [injection Hx as <-; exists s; auto|exists sx; auto]. }
    assert (Hp0 : exists ps0, get_sess h p = Some ps0 /\ s_backend ps0 = s_backend ps).
    { destruct (N.eqb_spec p n) as [->|]; [injection Hp as <-; exists s; auto|exists ps; auto]. }
    destruct Hx0 as (sx0 & A & B & C). destruct Hp0 as (ps0 & D & E).
    rewrite <- E, <- C. apply (ri_parent _ _ I x sx0 p v ps0 A); congruence.
Qed.

Lemma ri_do_hello h c cn hl cn0 :
  RI h -> WF h -> aget (h_conns h) c = Some cn0 -> c_sess cn0 = None -> RI (fst (do_hello h c cn hl)).
Proof.
  intros I W Hc Hn. unfold do_hello.
  assert (Hexp : forall hh, srel none1 h hh -> h_conns hh = h_conns h ->
                  RI (set_conns hh (aset (h_conns hh) c (mkconn (c_addr cn) None true)))).
  { intros hh R E. apply ri_srel0 with h; [|exact I]. eapply srel_trans; [exact R|].
    apply srel_set_conn. rewrite E. intros cn1 H1. congruence. }
  destruct hl as [b u rej|b u t|b tok f d|i].
  - destruct (h_nb h <=? b); [apply Hexp; [apply srel_refl|reflexivity]|].
    destruct rej; [apply Hexp; [apply srel_refl|reflexivity]|].
    destruct (register h c cn b KClient u) as [h1 o1] eqn:Hr. cbn [fst]. rewrite (fst_eq _ _ _ Hr).
    now apply ri_register with cn0.
  - destruct (v2_check (h_nb h) b t); [now apply ri_register with cn0|apply Hexp; [apply srel_refl|reflexivity]].
  - destruct (N.eqb tok 4); [apply Hexp; [apply srel_refl|reflexivity]|].
    destruct (throttled h (c_addr cn) ACT_INTERNAL); [apply Hexp; [apply srel_refl|reflexivity]|].
    destruct (negb (N.eqb tok 0)); [apply Hexp; [srel_ns|reflexivity]|].
    destruct (h_nb h <=? b); [apply Hexp; [srel_ns|reflexivity]|]. now apply ri_register with cn0.
  - destruct (throttled h (c_addr cn) ACT_RESUME); [exact I|].
    destruct i as [n|n|k|n]; try (apply ri_srel0 with h; [srel_ns|exact I]).
    destruct (get_sess h n) as [s|] eqn:Hs; [|exact I].
    destruct (is_virtual (s_kind s)) eqn:Hv; [exact I|].
    set (P := match s_conn s with
              | Some c' => if N.eqb c' c then (h, [])
                           else send_conn (match aget (h_conns h) c' with
                                           | Some cn' => set_conns h (aset (h_conns h) c' (mkconn (c_addr cn') None (c_expect cn')))
                                           | None => h end) c' (SBye B_session_resumed)
              | None => (h, []) end).
    assert (HP : h_sessions (fst P) = h_sessions h /\ h_vtable (fst P) = h_vtable h /\
                 (forall x, s_conn s <> Some x -> aget (h_conns (fst P)) x = aget (h_conns h) x)).
    { unfold P. destruct (s_conn s) as [c'|]; [|repeat split; reflexivity].
      destruct (N.eqb c' c); [repeat split; reflexivity|].
      destruct (aget (h_conns h) c') as [cn'|] eqn:Hc'.
      - rewrite (send_bye_detached _ c' (mkconn (c_addr cn') None (c_expect cn')) B_session_resumed);
          [|cbn [h_conns set_conns]; apply aget_aset_same|reflexivity].
        split; [reflexivity|]. split; [reflexivity|]. intros x Hx. cbn [h_conns set_conns].
        assert (x <> c') by congruence. rewrite aget_adel_other, aget_aset_other; auto.
      - unfold send_conn. rewrite Hc'. repeat split; reflexivity. }
    destruct P as [h1 outs1]. cbn [fst] in HP. destruct HP as (A & B & C). cbn [fst].
    match goal with |- RI (fst (if _ then _ else (?hh, _))) => assert (I5 : RI hh) end.
    { apply (ri_reattach h _ n s (sess_pending (sess_conn s (Some c)) []) c); auto.
      + eapply conn_free; eauto. apply I.
      + cbn [h_sessions set_conns set_clients set_expired put_sess set_sessions]. now rewrite A.
      + exists (mkconn (c_addr cn) (Some n) false). split; [|reflexivity]. cbn [h_conns set_conns]. apply aget_aset_same.
      + intros x Hx Hsx. cbn [h_conns set_conns set_clients set_expired put_sess set_sessions].
        rewrite aget_aset_other by exact Hx. now apply C. }
    destruct (queue_closes s); [|exact I5].
    match goal with |- context [close_conn ?hh c] => destruct (close_conn hh c) as [h6 o6] eqn:H6 end. cbn [fst].
    rewrite (fst_eq _ _ _ H6). eapply ri_srel0; [apply srel_close_conn|exact I5].
Qed.

(* ------------------------------------------------------------------ joining *)
Lemma ri_join_room h c sid k rs perms su :
  RI h -> (forall s0, get_sess h sid = Some s0 -> fst k = s_backend s0) -> RI (fst (join_room h c sid k rs perms su)).
Proof.
  intros I Hb. unfold join_room.
  destruct (leave_room h sid true) as [h1 o1] eqn:Hl.
  assert (S1 : stab h h1) by (rewrite (fst_eq _ _ _ Hl); apply stab_leave_room).
  assert (I1 : RI h1) by (apply ri_srel0 with h; [now apply stab_srel|exact I]).
  destruct (get_sess h1 sid) as [s|] eqn:Hs; [|exact I1].
  assert (Hbs : fst k = s_backend s).
  { destruct (sr_sess _ _ _ (stab_srel none1 h h1 S1) sid s Hs) as (s0 & Hs0 & _ & B0 & _). rewrite B0. now apply Hb. }
  set (r := match room_of h1 k with Some x => x | None => empty_room end).
  set (r' := mkroom (nadd sid (r_members r)) (r_incall r) (if N.eqb su 0 then r_sessdata r else aset (r_sessdata r) sid su) (r_transient r) (r_props r)).
  set (s1 := upd_sess s (Some k) rs (s_conn s) (match perms with Some p => Some p | None => s_perms s end) (s_pending s) [] (h_clock h1)).
  set (hA := put_sess (set_rooms h1 (pset (h_rooms h1) k r')) sid s1).
  assert (IA : RI hA).
  { unfold hA. apply ri_put with s; auto.
    - apply (ri_ext _ h1); auto.
    - intros k0 E. cbn in E. injection E as <-. exact Hbs. }
  assert (Hfin : forall hh, srel none1 hA hh -> RI hh) by (intros hh R; now apply ri_srel0 with hA).
  set (h2 := set_clock hA (h_clock h1 + 1)).
  set (h3 := if N.eqb rs 0 then h2 else rs_set h2 sid rs).
  assert (R3 : srel none1 hA h3).
  { unfold h3. destruct (N.eqb rs 0); [srel_ns|]. apply srel_trans with h2; [srel_ns|apply stab_srel, stab_rs_set]. }
  set (h4 := set_anonymous h3 (nrem sid (h_anonymous h3))).
  set (h5 := match s_kind s with KInternal _ true => set_dialout h4 (nrem sid (h_dialout h4)) | _ => h4 end).
  assert (R5 : srel none1 hA h5).
  { unfold h5. destruct (s_kind s) as [|f d|]; try (eapply srel_trans; [exact R3|srel_ns]).
    destruct d; (eapply srel_trans; [exact R3|srel_ns]). }
  destruct (send_session h5 sid (SRoom (snd k))) as [h7 o2] eqn:Hsend. pose proof (fst_eq _ _ _ Hsend) as E7.
  assert (R7 : srel none1 hA h7) by (eapply srel_trans; [exact R5|rewrite E7; apply srel_send_session]).
  destruct (room_of h7 k); [|cbn [fst]; now apply Hfin].
  set (h9 := if nmem sid (r_members r) then h7 else publish h7 (SubjRoom (fst k) (snd k)) (ARoomEvent (SJoin [(sid, if N.eqb (s_user s) 0 then su else s_user s)]))).
  assert (R9 : srel none1 hA h9).
  { unfold h9. destruct (nmem sid (r_members r)); [exact R7|]. eapply srel_trans; [exact R7|srel_ns]. }
  match goal with |- context [let '(h10, outs3) := ?X in _] => destruct X as [h10 o3] eqn:H10 end.
  assert (R10 : srel none1 hA h10).
  { destruct (nmem sid (r_members r)); [injection H10 as <- <-; exact R9|].
    destruct (r_transient r); [injection H10 as <- <-; exact R9|].
    rewrite (fst_eq _ _ _ H10). eapply srel_trans; [exact R9|apply srel_send_session]. }
  cbn [fst]. apply Hfin. eapply srel_trans; [exact R10|srel_ns].
Qed.

Lemma ri_do_join h c sid s rn rs rep :
  RI h -> get_sess h sid = Some s -> RI (fst (do_join h c sid s rn rs rep)).
Proof.
  intros I Hs. assert (Hfin : forall hh, srel none1 h hh -> RI hh) by (intros hh R; now apply ri_srel0 with h).
  unfold do_join. destruct (N.eqb rn 0).
  - destruct (s_room s); [|exact I].
    destruct (leave_room h sid true) as [h1 o1] eqn:Hl.
    destruct (send_session h1 sid (SRoom 0)) as [h2 o2] eqn:H2. cbn [fst].
    assert (R1 : srel none1 h h1) by (rewrite (fst_eq _ _ _ Hl); apply stab_srel, stab_leave_room).
    assert (R2 : srel none1 h h2) by (eapply srel_trans; [exact R1|]; rewrite (fst_eq _ _ _ H2); apply srel_send_session).
    destruct (N.eqb (s_user s) 0 && negb (is_internal (s_kind s))); [|now apply Hfin]. apply Hfin. eapply srel_trans; [exact R2|srel_ns].
  - set (k := (s_backend s, rn)). set (rsv := if N.eqb rs 0 then 0 else 1000000 + rs).
    destruct (match room_of h k with Some r => nmem sid (r_members r) | None => false end).
    + set (newrs := if N.eqb rs 0 then 2000000 + sid else rsv).
      set (h1 := if N.eqb (s_rs s) newrs then h else put_sess (rs_set h sid newrs) sid (sess_rs s newrs)).
      assert (R1 : srel none1 h h1).
      { unfold h1. destruct (N.eqb (s_rs s) newrs); [apply srel_refl|]. apply stab_srel.
        eapply stab_trans; [apply stab_rs_set|]. apply stab_put with s; auto.
        unfold get_sess. rewrite rs_set_sessions. exact Hs. }
      destruct (send_session h1 sid (SError E_already_joined)) as [h2 o2] eqn:H2. cbn [fst].
      rewrite (fst_eq _ _ _ H2). apply Hfin. eapply srel_trans; [exact R1|apply srel_send_session].
    + destruct (is_internal (s_kind s)).
      { apply ri_join_room; [exact I|]. intros s0 H0. rewrite Hs in H0. injection H0 as <-. reflexivity. }
      match goal with |- context [let '(h1, outs1) := ?X in _] => destruct X as [h1 o1] eqn:H1 end.
      assert (R1 : srel none1 h h1).
      { destruct (N.eqb rs 0 || N.eqb (s_rs s) rsv); [injection H1 as <- <-; apply srel_refl|].
        rewrite (fst_eq _ _ _ H1). apply srel_kick. }
      destruct (get_sess h1 sid) as [s1|] eqn:Hs1; [|cbn [fst]; now apply Hfin].
      destruct rep as [perms su|code].
      * destruct (join_room h1 c sid k rsv perms su) as [h2 o2] eqn:H2. cbn [fst]. rewrite (fst_eq _ _ _ H2).
        apply ri_join_room; [now apply Hfin|]. intros s0 H0. rewrite Hs1 in H0. injection H0 as <-.
        destruct (sr_sess _ _ _ R1 sid s1 Hs1) as (s' & Hs' & _ & B' & _). rewrite Hs in Hs'. injection Hs' as <-.
        rewrite B'. reflexivity.
      * destruct (send_session h1 sid (SError code)) as [h2 o2] eqn:H2. cbn [fst]. rewrite (fst_eq _ _ _ H2).
        apply Hfin. eapply srel_trans; [exact R1|apply srel_send_session].
Qed.

(* ------------------------------------------------------------------ virtual sessions *)
Lemma ri_do_internal h c sid s q :
  RI h -> WF h -> get_sess h sid = Some s -> RI (fst (do_internal h c sid s q)).
Proof.
  intros I W Hs. assert (Hfin : forall hh, srel none1 h hh -> RI hh) by (intros hh R; now apply ri_srel0 with h).
  unfold do_internal.
  destruct q as [v rn user flags incall|v rn flags incall|v rn|ic].
  - set (k := (s_backend s, rn)). destruct (room_of h k) as [r|]; [|exact I].
    set (vs := next_id h). set (h0 := set_nextsid h vs).
    match goal with |- context [put_sess ?hh vs ?ss] => set (hr := hh); set (vsess := ss) end.
    set (h1 := put_sess hr vs vsess).
    set (h2 := set_vtable h1 (pset (h_vtable h1) (sid, v) vs)).
    set (prev := pget (h_vtable h0) (sid, v)).
    assert (Hfresh : get_sess h vs = None) by exact (next_id_fresh h).
    assert (Hget : forall x, get_sess h2 x = if N.eqb x vs then Some vsess else get_sess h x).
    { intros x. change (get_sess (put_sess h vs vsess) x = if N.eqb x vs then Some vsess else get_sess h x). apply get_put. }
    assert (Hse2 : h_sessions h2 = aset (h_sessions h) vs vsess) by reflexivity.
    assert (Hvt2 : h_vtable h2 = pset (h_vtable h) (sid, v) vs) by reflexivity.
    assert (Hne : sid <> vs) by (intros E; rewrite E in Hs; congruence).
    assert (I2 : RIg (fun x => prev = Some x) h2).
    { constructor.
      - unfold skeys. rewrite Hse2. apply nodup_keys_aset, I.
      - rewrite Hget. destruct (N.eqb_spec 0 vs) as [E|]; [exfalso; symmetry in E; revert E; apply next_id_nonzero|apply I].
      - intros x sx c0. rewrite Hget. destruct (N.eqb_spec x vs) as [->|]; intros H Hc.
        + injection H as <-. discriminate.
        + exact (ri_conn _ _ I x sx c0 H Hc).
      - intros x sx c0. rewrite Hget. destruct (N.eqb_spec x vs) as [->|]; intros H Hc.
        + injection H as <-. discriminate.
        + exact (ri_novirt _ _ I x sx c0 H Hc).
      - intros x sx p0 v0. rewrite Hget, Hvt2, pget_pset. destruct (N.eqb_spec x vs) as [->|Hx]; intros H Hk.
        + injection H as <-. cbn in Hk. injection Hk as <- <-. right. now rewrite pair_eqb_refl.
        + destruct (ri_vt _ _ I x sx p0 v0 H Hk) as [[]|Hp].
          destruct (pair_eqb_spec (p0, v0) (sid, v)) as [E|E]; [|now right].
          left. change (pget (h_vtable h) (sid, v) = Some x). now rewrite <- E.
      - unfold vkeys. rewrite Hvt2. apply nodup_pkeys_pset, I.
      - intros x sx k0. rewrite Hget. destruct (N.eqb_spec x vs) as [->|]; intros H Hk.
        + injection H as <-. cbn in Hk. injection Hk as <-. reflexivity.
        + exact (ri_room _ _ I x sx k0 H Hk).
      - intros x sx p0 v0 ps. rewrite !Hget. destruct (N.eqb_spec x vs) as [->|Hx]; intros H Hk.
        + injection H as <-. cbn in Hk. injection Hk as <- <-. destruct (N.eqb_spec sid vs); [contradiction|].
          intros Hp. rewrite Hs in Hp. injection Hp as <-. reflexivity.
        + destruct (N.eqb_spec p0 vs) as [->|]; [|exact (ri_parent _ _ I x sx p0 v0 ps H Hk)].
          destruct (wf_parent _ _ h W x sx vs v0 H Hk) as [[]|(ps0 & Hps0 & _)]. congruence. }
    match goal with |- context [rs_set h2 vs ?x] => set (h5 := rs_set h2 vs x) end.
    assert (R5 : srel none1 h2 h5) by (apply stab_srel, stab_rs_set).
    fold prev. destruct prev as [pv|] eqn:Hprev.
    + match goal with |- context [close_one ?hh pv] => set (h9 := hh) end.
      assert (R9 : srel none1 h2 h9).
      { unfold h9. speel. destruct (N.eqb _ 0); repeat speel; exact R5. }
      destruct (close_one h9 pv) as [h10 o10] eqn:H10. cbn [fst]. rewrite (fst_eq _ _ _ H10).
      apply (ri_drop (fun x => Some pv = Some x \/ none1 x)).
      * apply (ri_srel _ none1 h2); [|exact I2]. eapply srel_trans; [exact R9|apply srel_close_one].
      * intros x [E|[]]. injection E as <-. apply close_one_gone.
    + cbn [fst]. apply (ri_drop (fun x => None = Some x \/ none1 x)).
      * apply (ri_srel _ none1 h2); [|exact I2]. speel. destruct (N.eqb _ 0); repeat speel; exact R5.
      * intros x [E|[]]. discriminate.
  - set (k := (s_backend s, rn)).
    destruct (room_of h k) as [r|]; [|exact I]. destruct (pget (h_vtable h) (sid, v)) as [vs|]; [|exact I].
    destruct (get_sess h vs) as [t|] eqn:Ht; [|exact I]. cbn [fst].
    match goal with |- context [put_sess h vs ?t1] => set (h1 := put_sess h vs t1) end.
    assert (R1 : srel none1 h h1) by (apply stab_srel; apply stab_put with t; auto).
    apply Hfin.
    repeat match goal with |- context [if ?c then _ else _] => destruct c end; repeat speel;
      try (eapply srel_trans; [|apply stab_srel, stab_set_incall]); repeat speel; exact R1.
  - set (k := (s_backend s, rn)).
    destruct (room_of h k) as [r|]; [|exact I]. destruct (pget (h_vtable h) (sid, v)) as [vs|] eqn:Hv; [|exact I].
    set (h1 := set_vtable h (pdel (h_vtable h) (sid, v))).
    assert (R1 : srel (fun x => x = vs) h h1).
    { constructor; auto.
      - intros _. unfold vkeys. cbn [h1 h_vtable set_vtable]. apply nodup_pkeys_pdel, I.
      - intros x s' H. exists s'. repeat split; auto.
      - intros x s' p0 v0 Hx Hk Hp. cbn [h1 h_vtable set_vtable]. rewrite pget_pdel.
        destruct (pair_eqb_spec (p0, v0) (sid, v)) as [E|E]; [|now right]. left. rewrite E in Hp. congruence. }
    apply (ri_drop (fun x => none1 x \/ x = vs)).
    + apply (ri_srel none1 _ h); [|exact I]. eapply srel_trans; [exact R1|apply srel_close_one].
    + intros x [[]| ->]. apply close_one_gone.
  - destruct (N.eqb ic (s_incall s)); [exact I|].
    match goal with |- context [put_sess h sid ?t1] => set (h1 := put_sess h sid t1) end.
    assert (R1 : srel none1 h h1) by (apply stab_srel; apply stab_put with s; auto).
    destruct (s_room s) as [k|]; [|now apply Hfin].
    destruct (N.testbit ic 0); [cbn [fst]; apply Hfin; speel; eapply srel_trans; [exact R1|apply stab_srel, stab_set_incall]|].
    destruct (leave_call (set_incall h1 k sid false) sid) as [h2 o2] eqn:H2. cbn [fst]. apply Hfin. speel.
    rewrite (fst_eq _ _ _ H2). eapply srel_trans; [exact R1|]. apply stab_srel.
    eapply stab_trans; [apply stab_set_incall|apply stab_leave_call].
Qed.

(* ------------------------------------------------------------------ every step keeps the invariant *)
Theorem ri_step h o : WF h -> RI h -> RI (fst (step h o)).
Proof.
  intros W I.
  assert (Hrel : forall h', srel none1 h h' -> RI h') by (intros h' R; now apply (ri_srel0 h)).
  assert (Hws : forall c (f : conn -> N -> session -> hub * list out),
            (forall cn sid s, aget (h_conns h) c = Some cn -> get_sess h sid = Some s -> RI (fst (f cn sid s))) ->
            RI (fst (with_session h c f))).
  { intros c f Hf. unfold with_session. destruct (aget (h_conns h) c) as [cn|] eqn:Hc; [|exact I].
    destruct (c_sess cn) as [sid|]; [|exact I]. destruct (get_sess h sid) as [s|] eqn:Hs; [|exact I]. eauto. }
  destruct o as [c addr|c hl|c rn rs rep|c to tag|c to tag|c|c|secs|b signas room q|c q|c to mk stream media|tok ok|c kindn key val|pos|c hl late]; cbn [step].
  15:{ destruct (aget (h_conns h) c) as [cn|]; [|exact I]. destruct (c_sess cn); [exact I|].
    destruct hl as [b u rej|b u t|b tok f d|i]; try exact I.
    - destruct rej; [exact I|]. destruct (h_nb h <=? b); [exact I|].
      match goal with |- context [close_conn ?hh c] => destruct (close_conn hh c) as [h2 o2] eqn:H2 end. cbn [fst].
      rewrite (fst_eq _ _ _ H2). apply Hrel.
      match goal with |- srel _ _ (fst (close_conn ?hh c)) => apply srel_trans with hh; [destruct late; [srel_ns|apply srel_refl]|apply srel_close_conn] end.
    - apply Hrel. apply srel_close_conn. }
  - destruct (aget (h_conns h) c) eqn:Hc; [exact I|]. apply Hrel. cbn [fst]. apply srel_set_conn. intros cn0 H0. congruence.
  - destruct (aget (h_conns h) c) as [cn|] eqn:Hc; [|exact I]. destruct (c_sess cn) eqn:Hcs; [exact I|].
    match goal with |- RI (fst (do_hello ?hh _ _ _)) => set (h0 := hh) end.
    assert (R0 : srel none1 h h0) by (apply srel_set_conn; intros cn0 H0; congruence).
    apply (ri_do_hello h0 c cn hl (mkconn (c_addr cn) None (match hl with HResume _ => c_expect cn | _ => false end))).
    + now apply Hrel.
    + now apply wf_set_conn_nosess.
    + cbn [h0 h_conns set_conns]. apply aget_aset_same.
    + reflexivity.
  - apply Hws. intros cn sid s Hc Hs.
    destruct (do_join h c sid s rn rs rep) as [h1 o1] eqn:H1.
    assert (I1 : RI h1) by (rewrite (fst_eq _ _ _ H1); now apply ri_do_join).
    destruct rep as [[pm|] su|code]; try exact I1.
    destruct (get_sess h1 sid) as [s1|]; [|exact I1].
    match goal with |- context [if ?cnd then _ else _] => destruct cnd end; [|exact I1].
    destruct (revoke h1 sid) as [h2 o2] eqn:H2. cbn [fst]. rewrite (fst_eq _ _ _ H2).
    apply ri_srel0 with h1; [apply stab_srel, stab_revoke|exact I1].
  - apply Hws. intros. apply Hrel, srel_do_message.
  - apply Hws. intros cn sid s _ _. destruct (allowed_control s); [apply Hrel, srel_do_message|exact I].
  - destruct (aget (h_conns h) c) as [cn|]; [|exact I]. destruct (c_sess cn); [apply Hrel, srel_send_conn|exact I].
  - destruct (aget (h_conns h) c) as [cn|] eqn:Hc; [|exact I]. cbv zeta.
    pose proof (srel_cut_conn none1 h c cn Hc) as R.
    destruct (c_sess cn) as [sid|]; [|now apply Hrel].
    destruct (get_sess (set_conns h (adel (h_conns h) c)) sid) as [s|] eqn:Hs; [|now apply Hrel]. cbn [fst].
    apply Hrel. speel. speel. exact R.
  - apply Hrel, srel_do_tick.
  - destruct (negb (N.eqb b signas) || (h_nb h <=? b)); [exact I|]. apply Hrel, srel_do_api.
  - apply Hws. intros cn sid s Hc Hs. destruct (is_internal (s_kind s)); [now apply ri_do_internal|exact I].
  - apply Hws. intros. apply Hrel. now apply srel_do_media.
  - apply Hrel, srel_do_mcudone.
  - apply Hws. intros cn sid s Hc Hs. destruct (s_room s) as [k|]; [|exact I].
    destruct (2 <=? kindn); [exact I|].
    destruct (negb (allowed_transient s)); [exact I|]. destruct (room_of h k) as [r|]; [|exact I].
    apply Hrel, srel_transient_update.
  - apply Hrel, srel_deliver_at.
Qed.

Theorem ri_qstep h o : WF h -> RI h -> RI (fst (qstep h o)).
Proof.
  intros W I. unfold qstep. destruct (step h o) as [h1 o1] eqn:H1. destruct (drain 500 h1) as [h2 o2] eqn:H2. cbn [fst].
  rewrite (fst_eq _ _ _ H2). apply ri_srel0 with h1; [apply srel_drain|]. rewrite (fst_eq _ _ _ H1). now apply ri_step.
Qed.

Theorem ri_run ops : forall h, WF h -> RI h -> RI (run h ops).
Proof. induction ops as [|o r IH]; intros h W I; cbn [run]; [exact I|]. apply IH; [now apply wf_step|now apply ri_step]. Qed.
Theorem ri_qrun ops : forall h, WF h -> RI h -> RI (qrun h ops).
Proof. induction ops as [|o r IH]; intros h W I; cbn [qrun]; [exact I|]. apply IH; [now apply wf_qstep|now apply ri_qstep]. Qed.

Theorem ri_reachable limits gated ops : RI (run (init limits gated) ops).
Proof. apply ri_run; [apply wf_init|apply ri_init]. Qed.
Theorem ri_reachable_q limits gated ops : RI (qrun (init limits gated) ops).
Proof. apply ri_qrun; [apply wf_init|apply ri_init]. Qed.
