(* Proofs about model/BackendCfg.v: a reload equals a fresh start (static
   storage), etcd events equal a fresh start (etcd storage), no panic, and the
   refutations for the unrepaired code. *)
From Coq Require Import List ZArith NArith Bool String Ascii Lia.
From Verif Require Import model.BackendCfg.
Import ListNotations.
Local Open Scope string_scope.

(* ---- small facts ---------------------------------------------------------------- *)
Lemma seqb_refl (s : string) : (s =? s) = true.
Proof. apply String.eqb_refl. Qed.
Lemma seqb_eq (a b : string) : (a =? b) = true <-> a = b.
Proof. apply String.eqb_eq. Qed.
Lemma seqb_neq (a b : string) : (a =? b) = false <-> a <> b.
Proof. apply String.eqb_neq. Qed.
Lemma seqb_sym (a b : string) : (a =? b) = (b =? a).
Proof. apply String.eqb_sym. Qed.

Lemma backend_eqb_eq a b : backend_eqb a b = true -> a = b.
Proof.
  destruct a as [i1 u1 h1 s1 l1 m1 c1 k1], b as [i2 u2 h2 s2 l2 m2 c2 k2]. unfold backend_eqb.
  cbn [b_id b_url b_http b_secret b_limit b_stream b_screen b_compat].
  rewrite !andb_true_iff. intros [[[[[[[H1 H2] H3] H4] H5] H6] H7] H8].
  apply N.eqb_eq in H1, H4. apply String.eqb_eq in H2. apply Bool.eqb_prop in H3, H8.
  apply Z.eqb_eq in H5, H6, H7. subst. reflexivity.
Qed.

Lemma tset_same t h v : tset t h v h = Some v.
Proof. unfold tset. now rewrite seqb_refl. Qed.
Lemma tset_other t h v h' : h <> h' -> tset t h v h' = t h'.
Proof. unfold tset. intros H. apply seqb_neq in H. now rewrite H. Qed.
Lemma tdel_same t h : tdel t h h = None.
Proof. unfold tdel. now rewrite seqb_refl. Qed.
Lemma tdel_other t h h' : h <> h' -> tdel t h h' = t h'.
Proof. unfold tdel. intros H. apply seqb_neq in H. now rewrite H. Qed.

Lemma existsb_seqb_In h hs : existsb (String.eqb h) hs = true <-> In h hs.
Proof.
  rewrite existsb_exists. split.
  - intros (x & Hx & He). apply seqb_eq in He. now subst.
  - intros H. exists h. split; [exact H|apply seqb_refl].
Qed.
Lemma existsb_seqb_app h hs x : existsb (String.eqb h) (hs ++ [x]) = existsb (String.eqb h) hs || (h =? x).
Proof. rewrite existsb_app. cbn. now rewrite orb_false_r. Qed.

Definition tab_eq (t1 t2 : table) : Prop := forall h, t1 h = t2 h.

Lemma last_default {A} (l : list A) a d1 d2 : last (a :: l) d1 = last (a :: l) d2.
Proof. revert a. induction l as [|b r IH]; intros a; [reflexivity|]. change (last (b :: r) d1 = last (b :: r) d2). apply IH. Qed.
Lemma last_cons {A} (l : list A) a d : last (a :: l) d = last l a.
Proof. destruct l as [|b r]; [reflexivity|]. change (last (b :: r) d = last (b :: r) a). apply last_default. Qed.

Section Static.
Context (up : string -> option purl).

(* ---- UpsertHost (repaired) returns the configured list ---------------------------- *)
Lemma upsert_fixed_news existing news : upsert_fixed existing news = Some news.
Proof.
  unfold upsert_fixed. f_equal. induction news as [|n r IH]; [reflexivity|].
  cbn [map]. rewrite IH. f_equal.
  destruct (find_by_id (b_id n) existing) as [o|]; [|reflexivity].
  destruct (backend_eqb o n) eqn:E; [|reflexivity]. now apply backend_eqb_eq.
Qed.

(* ---- getConfiguredHosts: the host list is the domain of the table ------------------ *)
Definition dom_ok (acc : list string * table) : Prop :=
  forall h, existsb (String.eqb h) (fst acc) = true <-> snd acc h <> None.

Lemma configured_step_dom c acc id : dom_ok acc -> dom_ok (configured_step up c acc id).
Proof.
  intros Hd. unfold configured_step.
  destruct (sec_get id (c_secs c)) as [s|]; [|exact Hd].
  destruct (mk_backend up (c_secret c) id s) as [[h b]|]; [|exact Hd].
  intros h'. cbn [fst snd].
  destruct (String.eqb_spec h h') as [->|Hne].
  - rewrite tset_same. split; [discriminate|intros _].
    destruct (existsb (String.eqb h') (fst acc)) eqn:E; [exact E|].
    rewrite existsb_seqb_app, E, seqb_refl. reflexivity.
  - rewrite tset_other by exact Hne. pose proof (Hd h') as Hh. rewrite <- Hh.
    destruct (existsb (String.eqb h) (fst acc)) eqn:E; [reflexivity|].
    rewrite existsb_seqb_app. assert ((h' =? h) = false) as -> by (apply seqb_neq; congruence).
    now rewrite orb_false_r.
Qed.

Lemma configured_dom c : dom_ok (configured up c).
Proof.
  unfold configured.
  assert (H0 : dom_ok ([], tempty)) by (intros h; unfold tempty; cbn; split; [discriminate|intros H; now elim H]).
  revert H0. generalize ([] : list string, tempty). induction (dedupe_ids [] (c_ids c)) as [|id r IH]; intros acc H.
  - exact H.
  - cbn [fold_left]. apply IH. now apply configured_step_dom.
Qed.

(* ---- Reload (repaired) ------------------------------------------------------------- *)
Lemma upsert_hosts_fixed ct hs : forall t1, exists t',
  fold_left (upsert_hosts upsert_fixed ct) hs (Some t1) = Some t' /\
  forall h, t' h = if existsb (String.eqb h) hs then Some (tget_d ct h) else t1 h.
Proof.
  induction hs as [|h0 r IH]; intros t1.
  - exists t1. split; reflexivity.
  - cbn [fold_left upsert_hosts]. rewrite upsert_fixed_news.
    destruct (IH (tset t1 h0 (tget_d ct h0))) as (t' & Hf & Ht). exists t'. split; [exact Hf|].
    intros h. rewrite Ht. cbn [existsb].
    destruct (String.eqb_spec h h0) as [->|Hne]; cbn [orb].
    + destruct (existsb (String.eqb h0) r); [reflexivity|apply tset_same].
    + destruct (existsb (String.eqb h) r); [reflexivity|]. apply tset_other. congruence.
Qed.

Lemma reload_table st c : st_compat st = None ->
  exists st', reload up st c = Some st' /\ st_compat st' = None /\ st_allowall st' = st_allowall st /\
              tab_eq (st_tab st') (snd (configured up c)).
Proof.
  intros Hc. unfold reload, reload_with. rewrite Hc. rewrite andb_false_r.
  destruct (upsert_hosts_fixed (snd (configured up c)) (fst (configured up c))
              (fun h => if existsb (String.eqb h) (fst (configured up c)) then st_tab st h else None))
    as (t' & Hf & Ht).
  rewrite Hf. eexists. split; [reflexivity|]. cbn [st_compat st_allowall st_tab]. repeat split.
  intros h. rewrite Ht. pose proof (configured_dom c h) as Hd.
  destruct (existsb (String.eqb h) (fst (configured up c))).
  - unfold tget_d. destruct (snd (configured up c) h); [reflexivity|]. exfalso. now apply (proj1 Hd).
  - destruct (snd (configured up c) h) eqn:E; [|reflexivity]. exfalso.
    assert (false = true) by (apply Hd; congruence). discriminate.
Qed.

(* Reloading never panics: whatever the state and the configuration *)
Lemma reload_no_panic st c : reload up st c <> None.
Proof.
  destruct (st_compat st) eqn:Hc.
  - unfold reload, reload_with. rewrite Hc. discriminate.
  - destruct (reload_table st c Hc) as (st' & H & _). congruence.
Qed.

Lemma run_chain_no_panic c0 cs : run_chain up c0 cs <> None.
Proof.
  unfold run_chain. generalize (fresh up c0). induction cs as [|c r IH]; intros st; cbn [fold_left reload_opt].
  - discriminate.
  - destruct (reload up st c) eqn:E; [apply IH|]. exfalso. now apply (reload_no_panic st c).
Qed.

(* ---- a fresh start ------------------------------------------------------------------ *)
(* the configuration selects the `backends` list (not one of the deprecated modes
   allowall / allowed-hosts, for which Reload is documented as unsupported) *)
Definition new_style (c : config) : Prop :=
  c_allowall c = false /\ (ids_raw_empty (c_ids c) = true -> c_allowed c = []).

Lemma configured_raw_empty c : ids_raw_empty (c_ids c) = true -> configured up c = ([], tempty).
Proof.
  unfold configured, ids_raw_empty. destruct (c_ids c) as [|t [|t' r]]; try discriminate.
  - reflexivity.
  - intros H. cbn [dedupe_ids]. rewrite H. reflexivity.
Qed.

Lemma fresh_new_style c : new_style c ->
  st_compat (fresh up c) = None /\ st_allowall (fresh up c) = false /\
  tab_eq (st_tab (fresh up c)) (snd (configured up c)).
Proof.
  intros [Ha Hl]. unfold fresh. rewrite Ha.
  destruct (ids_raw_empty (c_ids c)) eqn:E; cbn [negb].
  - rewrite (Hl eq_refl). cbn. repeat split. intros h. now rewrite configured_raw_empty.
  - cbn. repeat split.
Qed.

Definition state_eq (s1 s2 : sstate) : Prop :=
  st_allowall s1 = st_allowall s2 /\ st_compat s1 = st_compat s2 /\ tab_eq (st_tab s1) (st_tab s2).

Lemma chain_from cs : forall st c,
  st_compat st = None -> st_allowall st = false -> tab_eq (st_tab st) (snd (configured up c)) ->
  Forall new_style cs ->
  exists st', fold_left (reload_opt (reload up)) cs (Some st) = Some st' /\
              st_compat st' = None /\ st_allowall st' = false /\
              tab_eq (st_tab st') (snd (configured up (last cs c))).
Proof.
  induction cs as [|c1 r IH]; intros st c Hc Ha Ht Hn.
  - exists st. cbn. auto.
  - cbn [fold_left reload_opt]. destruct (reload_table st c1 Hc) as (st1 & Hr & Hc1 & Ha1 & Ht1).
    rewrite Hr. inversion Hn as [|? ? _ Hn']; subst.
    destruct (IH st1 c1 Hc1 ltac:(congruence) Ht1 Hn') as (st' & Hf & H1 & H2 & H3).
    exists st'. repeat split; auto. rewrite last_cons. exact H3.
Qed.

Theorem reload_eq_fresh_state c0 cs : Forall new_style (c0 :: cs) ->
  exists st, run_chain up c0 cs = Some st /\ state_eq st (fresh up (last cs c0)).
Proof.
  intros Hn. inversion Hn as [|? ? H0 Hr]; subst.
  destruct (fresh_new_style c0 H0) as (Hc & Ha & Ht).
  destruct (chain_from cs (fresh up c0) c0 Hc Ha Ht Hr) as (st & Hf & H1 & H2 & H3).
  exists st. split; [exact Hf|].
  assert (Hl : new_style (last cs c0)).
  { clear -Hn. revert c0 Hn. induction cs as [|c r IH]; intros c0 Hn.
    - now inversion Hn.
    - rewrite last_cons. apply IH. now inversion Hn. }
  destruct (fresh_new_style _ Hl) as (Hc' & Ha' & Ht').
  split; [congruence|]. split; [congruence|]. intros h. rewrite H3, Ht'. reflexivity.
Qed.

Lemma lookup_state_eq s1 s2 probe : state_eq s1 s2 -> lookup_static up s1 probe = lookup_static up s2 probe.
Proof.
  intros (Ha & Hc & Ht). unfold lookup_static, lookup_static_with. destruct (up probe) as [p|]; [|reflexivity].
  unfold get_backend_static_with, get_backend_locked_with. rewrite Ha, Hc, !Ht. reflexivity.
Qed.

(* ---- what is accepted is configured ---------------------------------------------------- *)
Definition configured_backend (c : config) (h : string) (b : backend) : Prop :=
  exists id s, In id (dedupe_ids [] (c_ids c)) /\ sec_get id (c_secs c) = Some s /\
               mk_backend up (c_secret c) id s = Some (h, b).

Lemma tget_d_tset_same t h v : tget_d (tset t h v) h = v.
Proof. unfold tget_d. now rewrite tset_same. Qed.
Lemma tget_d_tset_other t h v h' : h <> h' -> tget_d (tset t h v) h' = tget_d t h'.
Proof. intros H. unfold tget_d. now rewrite tset_other. Qed.

Lemma configured_fold_mem c ids : forall acc h b,
  In b (tget_d (snd (fold_left (configured_step up c) ids acc)) h) <->
  In b (tget_d (snd acc) h) \/
  exists id s, In id ids /\ sec_get id (c_secs c) = Some s /\ mk_backend up (c_secret c) id s = Some (h, b).
Proof.
  induction ids as [|id r IH]; intros acc h b.
  - cbn. split; [auto|]. intros [H|(i & s & [] & _)]. exact H.
  - cbn [fold_left]. rewrite IH. clear IH. unfold configured_step at 1.
    destruct (sec_get id (c_secs c)) as [s|] eqn:Es.
    2:{ split; (intros [H|(i & s' & Hi & Hs & Hm)]; [left; exact H|right]).
        - exists i, s'. cbn. auto.
        - destruct Hi as [<-|Hi]; [congruence|]. exists i, s'. auto. }
    destruct (mk_backend up (c_secret c) id s) as [[h0 b0]|] eqn:Em.
    2:{ split; (intros [H|(i & s' & Hi & Hs & Hm)]; [left; exact H|right]).
        - exists i, s'. cbn. auto.
        - destruct Hi as [<-|Hi]; [congruence|]. exists i, s'. auto. }
    cbn [snd]. destruct (String.eqb_spec h0 h) as [->|Hne].
    + rewrite tget_d_tset_same, in_app_iff. cbn [In]. split.
      * intros [[H|[<-|[]]]|(i & s' & Hi & Hs & Hm)]; [left; exact H| |].
        -- right. exists id, s. cbn. auto.
        -- right. exists i, s'. cbn. auto.
      * intros [H|(i & s' & [<-|Hi] & Hs & Hm)]; [left; left; exact H| |].
        -- left. right. left. congruence.
        -- right. exists i, s'. auto.
    + rewrite tget_d_tset_other by exact Hne. split.
      * intros [H|(i & s' & Hi & Hs & Hm)]; [left; exact H|right]. exists i, s'. cbn. auto.
      * intros [H|(i & s' & [<-|Hi] & Hs & Hm)]; [left; exact H| |].
        -- exfalso. rewrite Es in Hs. injection Hs as <-. rewrite Em in Hm. injection Hm as -> _. now apply Hne.
        -- right. exists i, s'. auto.
Qed.

Lemma configured_mem c h b : In b (tget_d (snd (configured up c)) h) <-> configured_backend c h b.
Proof.
  unfold configured, configured_backend. rewrite configured_fold_mem. cbn. split; [intros [[]|H]; exact H|auto].
Qed.

Lemma prefix_empty s : String.prefix "" s = true.
Proof. destruct s; reflexivity. Qed.

(* ---- the test of one entry (fixes/C13/07): prefix ending at a path-segment boundary ------ *)
Lemma prefix_app_slash eu : forall url,
  String.prefix (eu ++ "/") url = String.prefix eu url && is_slash (String.get (String.length eu) url).
Proof.
  induction eu as [|c r IH]; intros url.
  - destruct url as [|d u]; [reflexivity|].
    cbn [append String.prefix String.get String.length is_slash andb]. destruct (ascii_dec "/" d) as [<-|Hn].
    + now rewrite prefix_empty.
    + destruct (Ascii.eqb_spec d "/") as [->|_]; [now elim Hn|reflexivity].
  - destruct url as [|d u]; [reflexivity|].
    cbn [append String.prefix String.get String.length]. destruct (ascii_dec c d); [apply IH|reflexivity].
Qed.

(* the repaired test is: the configured URL, slash-terminated, is a prefix *)
Lemma url_matches_add_slash eu url : url_matches true eu url = String.prefix (add_slash eu) url.
Proof.
  unfold url_matches, add_slash. cbn [negb orb]. destruct (ends_with_slash eu).
  - cbn [orb]. apply andb_true_r.
  - cbn [orb]. symmetry. apply prefix_app_slash.
Qed.
Lemma url_matches_unrepaired eu url : url_matches false eu url = String.prefix eu url.
Proof. unfold url_matches. cbn. apply andb_true_r. Qed.
Lemma url_matches_prefix f eu url : url_matches f eu url = true -> String.prefix eu url = true.
Proof. unfold url_matches. intros H. now apply andb_prop in H. Qed.
(* what the repair removes, never adds *)
Lemma url_matches_weaker eu url : url_matches true eu url = true -> url_matches false eu url = true.
Proof. intros H. rewrite url_matches_unrepaired. exact (url_matches_prefix _ _ _ H). Qed.

(* `url[len(entry.url)]` is in range whenever Go evaluates it *)
Lemma prefix_length a : forall b, String.prefix a b = true -> String.length a <= String.length b.
Proof.
  induction a as [|c r IH]; intros b H; [cbn; lia|].
  destruct b as [|d u]; [discriminate|]. cbn in *. destruct (ascii_dec c d); [|discriminate].
  specialize (IH _ H). lia.
Qed.
Lemma prefix_same_length a : forall b, String.prefix a b = true -> String.length a = String.length b -> a = b.
Proof.
  induction a as [|c r IH]; intros b H Hl.
  - destruct b; [reflexivity|discriminate].
  - destruct b as [|d u]; [discriminate|]. cbn in *. destruct (ascii_dec c d) as [->|]; [|discriminate].
    f_equal. apply IH; [exact H|lia].
Qed.
Lemma boundary_index_in_range eu url : String.prefix eu url = true ->
  ends_with_slash url = true -> ends_with_slash eu = false -> String.length eu < String.length url.
Proof.
  intros Hp Hu He. pose proof (prefix_length _ _ Hp) as Hle.
  destruct (Nat.eq_dec (String.length eu) (String.length url)) as [Heq|Hne]; [|lia].
  rewrite (prefix_same_length _ _ Hp Heq) in He. congruence.
Qed.

Lemma find_entry_with_some f entries sch url e : find_entry_with f entries sch url = Some e ->
  In e entries /\ is_url_allowed e sch = true /\ String.prefix (b_url e) url = true /\ (b_url e = "" \/ url_matches f (b_url e) url = true).
Proof.
  induction entries as [|x r IH]; cbn [find_entry_with]; [discriminate|].
  destruct (is_url_allowed x sch) eqn:Ea; cbn [negb].
  2:{ intros H. destruct (IH H) as (H1 & H2 & H3 & H4). cbn. auto. }
  destruct (b_url x =? "") eqn:Eu.
  - intros H. injection H as <-. apply seqb_eq in Eu. rewrite Eu, prefix_empty. cbn. auto.
  - destruct (url_matches f (b_url x) url) eqn:Ep.
    + intros H. injection H as <-. cbn. pose proof (url_matches_prefix _ _ _ Ep). auto.
    + intros H. destruct (IH H) as (H1 & H2 & H3 & H4). cbn. auto.
Qed.

Lemma find_entry_some entries sch url e : find_entry entries sch url = Some e ->
  In e entries /\ is_url_allowed e sch = true /\ String.prefix (b_url e) url = true /\
  (b_url e = "" \/ String.prefix (add_slash (b_url e)) url = true).
Proof.
  intros H. apply find_entry_with_some in H as (H1 & H2 & H3 & H4). rewrite url_matches_add_slash in H4. auto.
Qed.

(* an entry the repaired lookup returns is one the old lookup could have returned, and
   the old lookup returns the first entry the repaired one does not skip *)
Lemma find_entry_repaired_none_or_same entries sch url e :
  find_entry entries sch url = Some e -> exists e', find_entry_unrepaired entries sch url = Some e'.
Proof.
  unfold find_entry, find_entry_unrepaired.
  induction entries as [|x r IH]; cbn [find_entry_with]; [discriminate|].
  destruct (negb (is_url_allowed x sch)); [exact IH|].
  destruct (b_url x =? ""); [eauto|].
  destruct (url_matches true (b_url x) url) eqn:Em.
  - rewrite (url_matches_weaker _ _ Em). eauto.
  - destruct (url_matches false (b_url x) url); eauto.
Qed.

Lemma lookup_some_in st probe b : lookup_static up st probe = LRes (Some b) -> st_compat st = None ->
  exists p, up probe = Some p /\ In b (tget_d (st_tab st) (n_host p)) /\
            is_url_allowed b (p_scheme p) = true /\ String.prefix (b_url b) (add_slash (n_str p)) = true /\
            (b_url b = "" \/ String.prefix (add_slash (b_url b)) (add_slash (n_str p)) = true).
Proof.
  unfold lookup_static, lookup_static_with. destruct (up probe) as [p|]; [|discriminate]. intros H Hc. exists p. split; [reflexivity|].
  unfold get_backend_static_with, get_backend_locked_with in H.
  destruct (st_tab st (n_host p)) as [entries|] eqn:Et.
  - destruct (n_str p =? ""); [discriminate|]. injection H as H. apply find_entry_some in H.
    unfold tget_d. rewrite Et. exact H.
  - rewrite Hc in H. destruct (st_allowall st); discriminate.
Qed.

Lemma mk_backend_url_nonempty common id s h b : mk_backend up common id s = Some (h, b) -> b_url b <> "".
Proof.
  unfold mk_backend. destruct (s_url s =? ""); [discriminate|].
  destruct (up (add_slash (s_url s))) as [p|]; [|discriminate].
  destruct ((if normalised p then p_nstr p else add_slash (s_url s)) =? "") eqn:E; [discriminate|].
  cbn [orb]. destruct (N.eqb _ 0); [discriminate|]. intros H. injection H as _ <-. cbn.
  intros Hu. rewrite Hu in E. discriminate.
Qed.

Theorem accepted_only_if_configured c0 cs st probe b :
  Forall new_style (c0 :: cs) -> run_chain up c0 cs = Some st ->
  lookup_static up st probe = LRes (Some b) ->
  exists p, up probe = Some p /\ configured_backend (last cs c0) (n_host p) b /\
            is_url_allowed b (p_scheme p) = true /\ String.prefix (b_url b) (add_slash (n_str p)) = true /\
            String.prefix (add_slash (b_url b)) (add_slash (n_str p)) = true.
Proof.
  intros Hn Hr Hl. destruct (reload_eq_fresh_state c0 cs Hn) as (st' & Hr' & He).
  rewrite Hr in Hr'. injection Hr' as <-.
  assert (Hlast : new_style (last cs c0)).
  { clear -Hn. revert c0 Hn. induction cs as [|c r IH]; intros c0 Hn.
    - now inversion Hn.
    - rewrite last_cons. apply IH. now inversion Hn. }
  destruct (fresh_new_style _ Hlast) as (Hc & Ha & Ht). destruct He as (Ea & Ec & Et).
  destruct (lookup_some_in st probe b Hl ltac:(congruence)) as (p & Hp & Hin & H1 & H2 & H3).
  assert (Hcb : configured_backend (last cs c0) (n_host p) b).
  { apply configured_mem. unfold tget_d in *. rewrite <- Ht, <- Et. exact Hin. }
  exists p. repeat split; auto.
  destruct H3 as [H3|H3]; [|exact H3]. destruct Hcb as (id & s & _ & _ & Hm).
  now elim (mk_backend_url_nonempty _ _ _ _ _ Hm).
Qed.

End Static.

(* =============================== etcd storage ======================================= *)

(* lists sorted strictly by id (= by etcd key) *)
Fixpoint sorted_ids (l : list backend) : Prop :=
  match l with
  | [] => True
  | e :: r => (forall e', In e' r -> (b_id e < b_id e')%N) /\ sorted_ids r
  end.

Lemma sorted_filter f l : sorted_ids l -> sorted_ids (filter f l).
Proof.
  induction l as [|e r IH]; cbn; [auto|]. intros [H1 H2]. destruct (f e); cbn; [|auto].
  split; [|auto]. intros e' He'. apply filter_In in He'. now apply H1.
Qed.

Lemma insert_sorted_In b l x : In x (insert_sorted b l) <-> x = b \/ In x l.
Proof.
  induction l as [|e r IH]; cbn.
  - intuition.
  - destruct (b_id b <? b_id e)%N; cbn; [intuition|]. rewrite IH. intuition.
Qed.

Lemma sorted_insert b l : sorted_ids l -> (forall e, In e l -> b_id e <> b_id b) -> sorted_ids (insert_sorted b l).
Proof.
  induction l as [|e r IH]; cbn; intros Hs Hn.
  - split; [intros ? []|exact I].
  - destruct Hs as [H1 H2]. destruct (N.ltb_spec (b_id b) (b_id e)) as [Hlt|Hge]; cbn.
    + split; [|split; auto]. intros e' [<-|He']; [exact Hlt|]. specialize (H1 e' He'). lia.
    + split; [|apply IH; auto]. intros e' He'. apply insert_sorted_In in He' as [->|He']; [|auto].
      assert (b_id e <> b_id b) by (apply Hn; auto). lia.
Qed.

Lemma replace_first_In k b l x : sorted_ids l ->
  In x (replace_first k b l) <-> (x = b /\ exists e, In e l /\ b_id e = k) \/ (In x l /\ b_id x <> k).
Proof.
  induction l as [|e r IH]; cbn; intros Hs.
  - split; [intros []|]. intros [[_ (e & [] & _)]|[[] _]].
  - destruct Hs as [H1 H2]. destruct (N.eqb_spec (b_id e) k) as [Hk|Hk]; cbn.
    + split.
      * intros [<-|Hx]; [left; split; [reflexivity|exists e; auto]|].
        right. split; [auto|]. specialize (H1 x Hx). lia.
      * intros [[-> _]|[[<-|Hx] Hn]]; [auto|congruence|auto].
    + rewrite (IH H2). split.
      * intros [<-|[[-> (e' & He' & Hk')]|[Hx Hn]]].
        -- right. auto.
        -- left. split; [reflexivity|]. exists e'. auto.
        -- right. auto.
      * intros [[-> (e' & [<-|He'] & Hk')]|[[<-|Hx] Hn]].
        -- congruence.
        -- right. left. split; [reflexivity|]. exists e'. auto.
        -- left. reflexivity.
        -- right. right. auto.
Qed.

Lemma sorted_replace k b l : sorted_ids l -> b_id b = k -> sorted_ids (replace_first k b l).
Proof.
  induction l as [|e r IH]; cbn; intros Hs Hb; [exact I|].
  destruct Hs as [H1 H2]. destruct (N.eqb_spec (b_id e) k) as [Hk|Hk]; cbn.
  - split; [|exact H2]. intros e' He'. specialize (H1 e' He'). lia.
  - split; [|apply IH; auto]. intros e' He'. apply (replace_first_In k b r e' H2) in He'.
    destruct He' as [[-> (e0 & He0 & Hk0)]|[He' _]]; [|auto]. specialize (H1 e0 He0). lia.
Qed.

Lemma sorted_unique l1 : forall l2, sorted_ids l1 -> sorted_ids l2 -> (forall x, In x l1 <-> In x l2) -> l1 = l2.
Proof.
  induction l1 as [|a r1 IH]; intros [|b r2] H1 H2 Hm.
  - reflexivity.
  - exfalso. apply (Hm b). cbn. auto.
  - exfalso. apply (Hm a). cbn. auto.
  - cbn in H1, H2. destruct H1 as [Ha Hs1], H2 as [Hb Hs2].
    assert (a = b).
    { assert (In a (b :: r2)) as [Hab|Hab] by (apply Hm; cbn; auto); [congruence|].
      assert (In b (a :: r1)) as [Hba|Hba] by (apply Hm; cbn; auto); [congruence|].
      specialize (Ha b Hba). specialize (Hb a Hab). lia. }
    subst b. f_equal. apply IH; auto. intros x. split; intros Hx.
    + assert (In x (a :: r2)) as [<-|Hx'] by (apply Hm; cbn; auto); [|exact Hx']. specialize (Ha a Hx). lia.
    + assert (In x (a :: r1)) as [<-|Hx'] by (apply Hm; cbn; auto); [|exact Hx']. specialize (Hb a Hx). lia.
Qed.

Section Etcd.
Context (up : string -> option purl).

(* key -> the accepted value: (host, backend) *)
Definition vmap := N -> option (string * backend).
Definition vset (m : vmap) (k : N) (hb : string * backend) : vmap := fun k' => if N.eqb k k' then Some hb else m k'.
Definition vdel (m : vmap) (k : N) : vmap := fun k' => if N.eqb k k' then None else m k'.
Definition validate (k : N) (v : option einfo) : option (string * backend) :=
  match v with None => None | Some i => check_valid up k i end.
Definition live_step (m : vmap) (o : eop) : vmap :=
  match o with
  | EPut k v => match validate k v with None => vdel m k | Some hb => vset m k hb end
  | EDel k => vdel m k
  end.
Definition live_from (m : vmap) (evs : list eop) : vmap := fold_left live_step evs m.
Definition live (evs : list eop) : vmap := live_from (fun _ => None) evs.

Lemma validate_id k v h b : validate k v = Some (h, b) -> b_id b = k.
Proof.
  unfold validate, check_valid. destruct v as [i|]; [|discriminate].
  destruct (e_url i =? ""); [discriminate|]. destruct (e_secret i =? 0)%N; [discriminate|].
  destruct (up (e_url i)); [|discriminate]. intros H. injection H as _ <-. reflexivity.
Qed.

(* the table is exactly the accepted values, grouped by host, each list sorted by key *)
Record TInv (t : table) (m : vmap) : Prop := {
  ti_ids : forall k h b, m k = Some (h, b) -> b_id b = k;
  ti_lists : forall h l, t h = Some l -> l <> [] /\ sorted_ids l;
  ti_mem : forall h e, In e (tget_d t h) <-> m (b_id e) = Some (h, e)
}.
Definition Inv (st : estate) (m : vmap) : Prop :=
  (forall k, es_keys st k = option_map fst (m k)) /\ TInv (es_tab st) m.

Lemma TInv_ext t m m' : TInv t m -> (forall k, m k = m' k) -> TInv t m'.
Proof.
  intros [H1 H2 H3] He. constructor.
  - intros k h b. rewrite <- He. apply H1.
  - exact H2.
  - intros h e. rewrite <- He. apply H3.
Qed.

Lemma vdel_same m k : vdel m k k = None. Proof. unfold vdel. now rewrite N.eqb_refl. Qed.
Lemma vdel_other m k k' : k <> k' -> vdel m k k' = m k'.
Proof. unfold vdel. intros H. apply N.eqb_neq in H. now rewrite H. Qed.
Lemma vset_same m k x : vset m k x k = Some x. Proof. unfold vset. now rewrite N.eqb_refl. Qed.
Lemma vset_other m k x k' : k <> k' -> vset m k x k' = m k'.
Proof. unfold vset. intros H. apply N.eqb_neq in H. now rewrite H. Qed.

Lemma filter_ne_In k (l : list backend) x :
  In x (filter (fun e => negb (N.eqb (b_id e) k)) l) <-> In x l /\ b_id x <> k.
Proof. rewrite filter_In, negb_true_iff, N.eqb_neq. reflexivity. Qed.

(* removeBackendLocked for a key that is present *)
Lemma remove_backend_inv t m k host b0 : TInv t m -> m k = Some (host, b0) ->
  TInv (remove_backend t k host) (vdel m k).
Proof.
  intros [H1 H2 H3] Hk.
  assert (Hin : In b0 (tget_d t host)) by (apply H3; rewrite (H1 _ _ _ Hk); exact Hk).
  unfold remove_backend. unfold tget_d in Hin. destruct (t host) as [entries|] eqn:Et; [|destruct Hin].
  assert (Hmem : forall h e, In e (tget_d (fun h' => if host =? h' then
                    match filter (fun e => negb (N.eqb (b_id e) k)) entries with [] => None | l => Some l end
                    else t h') h) <-> vdel m k (b_id e) = Some (h, e)).
  { intros h e. unfold tget_d. destruct (String.eqb_spec host h) as [<-|Hne].
    - assert (In e match match filter (fun e => negb (N.eqb (b_id e) k)) entries with [] => None | l => Some l end with Some l => l | None => [] end
              <-> In e (filter (fun e => negb (N.eqb (b_id e) k)) entries)) as -> by (destruct (filter _ entries); reflexivity).
      rewrite filter_ne_In. specialize (H3 host e). unfold tget_d in H3. rewrite Et in H3. rewrite H3.
      destruct (N.eq_dec k (b_id e)) as [<-|Hn].
      + rewrite vdel_same. split; [intros [_ H]; now elim H|discriminate].
      + rewrite vdel_other by exact Hn. split; [intros [H _]; exact H|intros H; split; [exact H|congruence]].
    - specialize (H3 h e). unfold tget_d in H3. rewrite H3.
      destruct (N.eq_dec k (b_id e)) as [<-|Hn].
      + rewrite vdel_same, Hk. split; [intros H; injection H as Hh _; now elim Hne|discriminate].
      + now rewrite vdel_other by exact Hn. }
  assert (Hl : forall h l, (if host =? h then
                    match filter (fun e => negb (N.eqb (b_id e) k)) entries with [] => None | l => Some l end
                    else t h) = Some l -> l <> [] /\ sorted_ids l).
  { intros h l. destruct (String.eqb_spec host h) as [<-|Hne]; [|apply H2].
    destruct (H2 _ _ Et) as [_ Hs]. pose proof (sorted_filter (fun e => negb (N.eqb (b_id e) k)) entries Hs) as Hsf.
    destruct (filter _ entries) as [|x r]; [discriminate|]. intros H. injection H as <-. split; [discriminate|exact Hsf]. }
  assert (Hid : forall k' h b, vdel m k k' = Some (h, b) -> b_id b = k').
  { intros k' h b. destruct (N.eq_dec k k') as [<-|Hn]; [rewrite vdel_same; discriminate|].
    rewrite vdel_other by exact Hn. apply H1. }
  destruct (filter (fun e => negb (N.eqb (b_id e) k)) entries) as [|x r] eqn:Ef.
  - constructor; [exact Hid| |].
    + intros h l Hh. apply (Hl h l). unfold tdel in Hh. exact Hh.
    + intros h e. rewrite <- Hmem. unfold tget_d, tdel. reflexivity.
  - constructor; [exact Hid| |].
    + intros h l Hh. apply (Hl h l). unfold tset in Hh. exact Hh.
    + intros h e. rewrite <- Hmem. unfold tget_d, tset. reflexivity.
Qed.

(* no entry carries a key that has no accepted value *)
Lemma no_entry_for_dead_key t m k h e : TInv t m -> m k = None -> In e (tget_d t h) -> b_id e <> k.
Proof. intros [_ _ H3] Hk Hin Heq. apply H3 in Hin. rewrite Heq, Hk in Hin. discriminate. Qed.

(* the second half of EtcdKeyUpdated: put the backend into the list of its host *)
Definition put_host (t0 : table) (k : N) (host : string) (b : backend) : table :=
  match t0 host with
  | None => tset t0 host [b]
  | Some entries =>
      if existsb (fun e => N.eqb (b_id e) k) entries
      then tset t0 host (replace_first k b entries)
      else tset t0 host (insert_sorted b entries)
  end.

Lemma existsb_id_false k (l : list backend) : existsb (fun e => N.eqb (b_id e) k) l = false <-> forall e, In e l -> b_id e <> k.
Proof.
  split.
  - intros H e He Hk. assert (existsb (fun e => N.eqb (b_id e) k) l = true); [|congruence].
    apply existsb_exists. exists e. split; [exact He|now apply N.eqb_eq].
  - intros H. destruct (existsb _ l) eqn:E; [|reflexivity]. apply existsb_exists in E as (e & He & Hk).
    apply N.eqb_eq in Hk. now elim (H e He).
Qed.

Lemma put_host_inv t0 m0 k host b : TInv t0 m0 -> b_id b = k ->
  (m0 k = None \/ exists b0, m0 k = Some (host, b0)) ->
  TInv (put_host t0 k host b) (vset m0 k (host, b)).
Proof.
  intros [H1 H2 H3] Hb Hcase.
  assert (Hid : forall k' h x, vset m0 k (host, b) k' = Some (h, x) -> b_id x = k').
  { intros k' h x. destruct (N.eq_dec k k') as [<-|Hn].
    - rewrite vset_same. intros H. injection H as _ <-. exact Hb.
    - rewrite vset_other by exact Hn. apply H1. }
  (* the new list of the host, described by membership *)
  assert (Hspec : forall newl,
            newl <> [] -> sorted_ids newl ->
            (forall x, In x newl <-> x = b \/ (In x (tget_d t0 host) /\ b_id x <> k)) ->
            TInv (tset t0 host newl) (vset m0 k (host, b))).
  { intros newl Hne Hs Hm. constructor; [exact Hid| |].
    - intros h l. destruct (String.eqb_spec host h) as [<-|Hh].
      + rewrite tset_same. intros H. injection H as <-. auto.
      + rewrite tset_other by exact Hh. apply H2.
    - intros h e. destruct (String.eqb_spec host h) as [<-|Hh].
      + unfold tget_d at 1. rewrite tset_same, Hm.
        destruct (N.eq_dec k (b_id e)) as [Hk|Hk].
        * rewrite <- Hk, vset_same. split.
          -- intros [->|[_ Hn]]; [reflexivity|congruence].
          -- intros H. injection H as ->. auto.
        * rewrite vset_other by exact Hk. rewrite (H3 host e). split.
          -- intros [->|[H _]]; [congruence|exact H].
          -- intros H. right. split; [exact H|congruence].
      + unfold tget_d at 1. rewrite tset_other by exact Hh. fold (tget_d t0 h). rewrite (H3 h e).
        destruct (N.eq_dec k (b_id e)) as [Hk|Hk].
        * rewrite <- Hk, vset_same. split.
          -- intros H. destruct Hcase as [Hc|(b0 & Hc)]; rewrite Hc in H; [discriminate|].
             injection H as Hh' _. now elim Hh.
          -- intros H. injection H as Hh' _. now elim Hh.
        * now rewrite vset_other by exact Hk. }
  unfold put_host. destruct (t0 host) as [entries|] eqn:Et.
  - destruct (H2 _ _ Et) as [Hne Hs].
    assert (Hg : tget_d t0 host = entries) by (unfold tget_d; now rewrite Et).
    destruct (existsb (fun e => N.eqb (b_id e) k) entries) eqn:Ex.
    + apply Hspec.
      * destruct entries as [|x r]; [now elim Hne|]. cbn. destruct (N.eqb (b_id x) k); discriminate.
      * now apply sorted_replace.
      * intros x. rewrite (replace_first_In k b entries x Hs), Hg.
        apply existsb_exists in Ex as (e & He & Hk). apply N.eqb_eq in Hk. split.
        -- intros [[-> _]|H]; auto.
        -- intros [->|H]; [left; split; [reflexivity|exists e; auto]|auto].
    + rewrite existsb_id_false in Ex. apply Hspec.
      * destruct entries; cbn; [discriminate|]. destruct (b_id b <? b_id b0)%N; discriminate.
      * apply sorted_insert; [exact Hs|]. intros e He. rewrite Hb. now apply Ex.
      * intros x. rewrite insert_sorted_In, Hg. split.
        -- intros [->|H]; [auto|]. right. split; [exact H|now apply Ex].
        -- intros [->|[H _]]; auto.
  - apply Hspec.
    + discriminate.
    + cbn. split; [intros ? []|exact I].
    + intros x. unfold tget_d. rewrite Et. cbn. intuition.
Qed.

Lemma etcd_del_inv st m k : Inv st m -> Inv (etcd_del st k) (vdel m k).
Proof.
  intros [Hk Ht]. unfold etcd_del. pose proof (Hk k) as Hkk.
  destruct (es_keys st k) as [host|] eqn:Ek.
  - destruct (m k) as [[h b0]|] eqn:Em; [|discriminate]. cbn in Hkk. injection Hkk as ->.
    split; cbn [es_keys es_tab].
    + intros k'. unfold kdel, vdel. destruct (N.eqb k k'); [reflexivity|apply Hk].
    + now apply remove_backend_inv with (b0 := b0).
  - destruct (m k) as [[h b0]|] eqn:Em; [discriminate|].
    assert (He : forall k', m k' = vdel m k k').
    { intros k'. unfold vdel. destruct (N.eqb_spec k k') as [<-|]; [exact Em|reflexivity]. }
    split.
    + intros k'. rewrite <- He. apply Hk.
    + now apply TInv_ext with (m := m).
Qed.

Lemma etcd_put_eq st k v host b : validate k v = Some (host, b) ->
  etcd_put_with up true true true st k v =
  mkES (kset (es_keys st) k host)
       (put_host (match es_keys st k with
                  | Some h0 => if negb (h0 =? host) then remove_backend (es_tab st) k h0 else es_tab st
                  | None => es_tab st end) k host b).
Proof.
  intros Hv. unfold etcd_put_with, validate in *. rewrite Hv. cbn [andb]. unfold put_host.
  destruct (match es_keys st k with Some h0 => if negb (h0 =? host) then remove_backend (es_tab st) k h0 else es_tab st | None => es_tab st end host) as [entries|];
    [|reflexivity].
  destruct (existsb (fun e => N.eqb (b_id e) k) entries); reflexivity.
Qed.

Lemma etcd_step_inv st m o : Inv st m -> Inv (etcd_step up st o) (live_step m o).
Proof.
  intros HI. destruct o as [k v|k]; cbn [etcd_step etcd_step_with live_step]; [|now apply etcd_del_inv].
  destruct (validate k v) as [[host b]|] eqn:Hv.
  2:{ unfold etcd_put_with. unfold validate in Hv. rewrite Hv. now apply etcd_del_inv. }
  rewrite (etcd_put_eq st k v host b Hv). pose proof (validate_id _ _ _ _ Hv) as Hb.
  destruct HI as [Hk Ht]. pose proof (Hk k) as Hkk.
  split; cbn [es_keys es_tab].
  { intros k'. unfold kset, vset. destruct (N.eqb k k'); [reflexivity|apply Hk]. }
  destruct (es_keys st k) as [h0|] eqn:Ek.
  - destruct (m k) as [[h b0]|] eqn:Em; [|discriminate]. cbn in Hkk. injection Hkk as ->.
    destruct (String.eqb_spec h host) as [->|Hne]; cbn [negb].
    + apply put_host_inv; [exact Ht|exact Hb|]. right. now exists b0.
    + apply TInv_ext with (m := vset (vdel m k) k (host, b)).
      * apply put_host_inv; [now apply remove_backend_inv with (b0 := b0)|exact Hb|]. left. apply vdel_same.
      * intros k'. unfold vset, vdel. destruct (N.eqb k k'); reflexivity.
  - destruct (m k) as [[h b0]|] eqn:Em; [discriminate|].
    apply put_host_inv; [exact Ht|exact Hb|]. now left.
Qed.

Lemma einit_inv : Inv einit (fun _ => None).
Proof.
  split; [reflexivity|]. constructor.
  - discriminate.
  - discriminate.
  - intros h e. cbn. split; [intros []|discriminate].
Qed.

Lemma run_from_inv evs : forall st m, Inv st m -> Inv (fold_left (etcd_step up) evs st) (live_from m evs).
Proof.
  induction evs as [|o r IH]; intros st m H; [exact H|]. cbn [fold_left live_from]. apply IH. now apply etcd_step_inv.
Qed.

Lemma run_etcd_inv evs : Inv (run_etcd up evs) (live evs).
Proof. apply run_from_inv. apply einit_inv. Qed.

(* two states with the same accepted values have the same table *)
Lemma inv_same_table st1 st2 m1 m2 : Inv st1 m1 -> Inv st2 m2 -> (forall k, m1 k = m2 k) ->
  tab_eq (es_tab st1) (es_tab st2).
Proof.
  intros [_ [A1 A2 A3]] [_ [B1 B2 B3]] He h.
  assert (Hm : forall e, In e (tget_d (es_tab st1) h) <-> In e (tget_d (es_tab st2) h)).
  { intros e. rewrite A3, B3, He. reflexivity. }
  unfold tget_d in Hm.
  destruct (es_tab st1 h) as [l1|] eqn:E1, (es_tab st2 h) as [l2|] eqn:E2.
  - f_equal. destruct (A2 _ _ E1) as [_ S1], (B2 _ _ E2) as [_ S2]. now apply sorted_unique.
  - destruct (A2 _ _ E1) as [N1 _]. destruct l1 as [|x r]; [now elim N1|]. exfalso. apply (Hm x). cbn. auto.
  - destruct (B2 _ _ E2) as [N2 _]. destruct l2 as [|x r]; [now elim N2|]. exfalso. apply (Hm x). cbn. auto.
  - reflexivity.
Qed.

(* ---- what etcd holds, and the accepted values of a fresh start ----------------------- *)
Fixpoint kv_get (k : N) (kv : list (N * option einfo)) : option (option einfo) :=
  match kv with
  | [] => None
  | (k', v) :: r => if N.eqb k' k then Some v else kv_get k r
  end.
Fixpoint kv_sorted (kv : list (N * option einfo)) : Prop :=
  match kv with
  | [] => True
  | (k, _) :: r => (forall e, In e r -> (k < fst e)%N) /\ kv_sorted r
  end.

Lemma kv_get_none_lt k kv : (forall e, In e kv -> (k < fst e)%N) -> kv_get k kv = None.
Proof.
  induction kv as [|[k' v'] r IH]; cbn; [reflexivity|]. intros H.
  destruct (N.eqb_spec k' k) as [->|Hn].
  - specialize (H (k, v') (or_introl eq_refl)). cbn in H. lia.
  - apply IH. intros e He. apply H. auto.
Qed.

Lemma kv_set_In k v kv e : In e (kv_set k v kv) -> e = (k, v) \/ In e kv.
Proof.
  induction kv as [|[k' v'] r IH]; cbn; [intuition|].
  destruct (k <? k')%N; cbn; [intuition|]. destruct (N.eqb k k'); cbn; [intuition|]. intuition.
Qed.

Lemma kv_set_sorted k v kv : kv_sorted kv -> kv_sorted (kv_set k v kv).
Proof.
  induction kv as [|[k' v'] r IH]; cbn; intros Hs.
  - split; [intros ? []|exact I].
  - destruct Hs as [H1 H2]. destruct (N.ltb_spec k k') as [Hlt|Hge]; cbn.
    + split; [|split; auto]. intros e [<-|He]; [exact Hlt|]. specialize (H1 e He). lia.
    + destruct (N.eqb_spec k k') as [<-|Hne]; cbn.
      * split; auto.
      * split; [|auto]. intros e He. apply kv_set_In in He as [->|He]; [cbn; lia|auto].
Qed.

Lemma kv_set_get k v kv k' : kv_sorted kv ->
  kv_get k' (kv_set k v kv) = if N.eqb k k' then Some v else kv_get k' kv.
Proof.
  induction kv as [|[k0 v0] r IH]; cbn; intros Hs.
  - destruct (N.eqb k k'); reflexivity.
  - destruct Hs as [H1 H2]. destruct (N.ltb_spec k k0) as [Hlt|Hge]; cbn.
    + destruct (N.eqb k k'); reflexivity.
    + destruct (N.eqb_spec k k0) as [<-|Hne]; cbn.
      * destruct (N.eqb k k'); reflexivity.
      * rewrite (IH H2). destruct (N.eqb_spec k0 k') as [<-|Hn0].
        -- assert (N.eqb k k0 = false) as -> by (now apply N.eqb_neq). reflexivity.
        -- reflexivity.
Qed.

Lemma kv_del_sorted k kv : kv_sorted kv -> kv_sorted (kv_del k kv).
Proof.
  unfold kv_del. induction kv as [|[k' v'] r IH]; cbn; [auto|]. intros [H1 H2].
  destruct (negb (N.eqb k' k)); cbn; [|auto]. split; [|auto]. intros e He. apply filter_In in He. now apply H1.
Qed.

Lemma kv_del_get k kv k' : kv_get k' (kv_del k kv) = if N.eqb k k' then None else kv_get k' kv.
Proof.
  unfold kv_del. induction kv as [|[k0 v0] r IH]; cbn.
  - destruct (N.eqb k k'); reflexivity.
  - destruct (N.eqb_spec k0 k) as [->|Hn]; cbn.
    + rewrite IH. destruct (N.eqb k k'); reflexivity.
    + rewrite IH. destruct (N.eqb_spec k0 k') as [<-|Hn']; [|reflexivity].
      assert (N.eqb k k0 = false) as -> by (apply N.eqb_neq; congruence). reflexivity.
Qed.

Definition kv_step (kv : list (N * option einfo)) (o : eop) :=
  match o with EPut k v => kv_set k v kv | EDel k => kv_del k kv end.

Definition kv_live (kv : list (N * option einfo)) : vmap :=
  fun k => match kv_get k kv with Some v => validate k v | None => None end.

Lemma final_kv_rel evs : forall kv m, kv_sorted kv -> (forall k, m k = kv_live kv k) ->
  kv_sorted (fold_left kv_step evs kv) /\ forall k, live_from m evs k = kv_live (fold_left kv_step evs kv) k.
Proof.
  induction evs as [|o r IH]; intros kv m Hs Hm; [auto|].
  cbn [fold_left live_from]. apply IH.
  - destruct o; cbn; [now apply kv_set_sorted|now apply kv_del_sorted].
  - intros k'. destruct o as [k v|k]; cbn [live_step kv_step]; unfold kv_live.
    + rewrite (kv_set_get k v kv k' Hs).
      destruct (validate k v) as [hb|] eqn:Hv; unfold vset, vdel; destruct (N.eqb_spec k k') as [<-|Hn]; try (rewrite Hm; reflexivity).
      * now rewrite Hv.
      * now rewrite Hv.
    + rewrite kv_del_get. unfold vdel. destruct (N.eqb k k'); [reflexivity|apply Hm].
Qed.

Lemma puts_live kv : forall m, kv_sorted kv ->
  forall k, live_from m (map (fun e => EPut (fst e) (snd e)) kv) k =
            match kv_get k kv with Some v => validate k v | None => m k end.
Proof.
  induction kv as [|[k0 v0] r IH]; intros m Hs k; [reflexivity|].
  cbn [map fst snd live_from fold_left]. destruct Hs as [H1 H2].
  change (fold_left live_step (map (fun e => EPut (fst e) (snd e)) r) (live_step m (EPut k0 v0)) k)
    with (live_from (live_step m (EPut k0 v0)) (map (fun e => EPut (fst e) (snd e)) r) k).
  rewrite (IH _ H2). cbn [kv_get]. destruct (N.eqb_spec k0 k) as [<-|Hn].
  - rewrite (kv_get_none_lt k0 r H1). cbn [live_step].
    destruct (validate k0 v0); [apply vset_same|apply vdel_same].
  - destruct (kv_get k r); [reflexivity|]. cbn [live_step].
    destruct (validate k0 v0); [now apply vset_other|now apply vdel_other].
Qed.

Theorem etcd_eq_fresh_table evs : tab_eq (es_tab (run_etcd up evs)) (es_tab (fresh_etcd up (final_kv evs))).
Proof.
  apply inv_same_table with (m1 := live evs) (m2 := live (map (fun e => EPut (fst e) (snd e)) (final_kv evs))).
  - apply run_etcd_inv.
  - apply run_etcd_inv.
  - intros k. unfold final_kv.
    destruct (final_kv_rel evs [] (fun _ => None) I (fun _ => eq_refl)) as [Hs Hl].
    change (fold_left (fun kv o => match o with EPut k1 v1 => kv_set k1 v1 kv | EDel k2 => kv_del k2 kv end) evs [])
      with (fold_left kv_step evs []).
    unfold live. rewrite Hl, (puts_live _ _ Hs). unfold kv_live.
    destruct (kv_get k (fold_left kv_step evs [])); reflexivity.
Qed.

Theorem etcd_eq_fresh evs probe :
  lookup_etcd up (run_etcd up evs) probe = lookup_etcd up (fresh_etcd up (final_kv evs)) probe.
Proof.
  unfold lookup_etcd, lookup_etcd_with. destruct (up probe) as [p|]; [|reflexivity].
  unfold get_backend_locked_with. now rewrite etcd_eq_fresh_table.
Qed.

(* what a lookup returns is the accepted value of a key etcd still holds *)
Theorem etcd_accepted_only_if_live evs probe b :
  lookup_etcd up (run_etcd up evs) probe = LRes (Some b) ->
  exists p, up probe = Some p /\ live evs (b_id b) = Some (n_host p, b) /\
            is_url_allowed b (p_scheme p) = true /\ String.prefix (b_url b) (add_slash (n_str p)) = true /\
            (b_url b = "" \/ String.prefix (add_slash (b_url b)) (add_slash (n_str p)) = true).
Proof.
  unfold lookup_etcd, lookup_etcd_with. destruct (up probe) as [p|]; [|discriminate]. intros H. exists p. split; [reflexivity|].
  unfold get_backend_locked_with in H. destruct (es_tab (run_etcd up evs) (n_host p)) as [entries|] eqn:Et; [|discriminate].
  destruct (n_str p =? ""); [discriminate|]. injection H as H. apply find_entry_some in H as (Hin & Ha & Hp & Hb).
  split; [|auto]. destruct (run_etcd_inv evs) as [_ [_ _ H3]]. apply H3. unfold tget_d. now rewrite Et.
Qed.

Lemma live_from_app m a b : live_from m (a ++ b) = live_from (live_from m a) b.
Proof. unfold live_from. apply fold_left_app. Qed.

(* a deleted key (or one overwritten with an invalid value) is accepted nowhere *)
Theorem etcd_deleted_refused evs k probe b :
  lookup_etcd up (run_etcd up (evs ++ [EDel k])) probe = LRes (Some b) -> b_id b <> k.
Proof.
  intros H Hk. destruct (etcd_accepted_only_if_live _ _ _ H) as (p & _ & Hl & _).
  unfold live in Hl. rewrite live_from_app in Hl. cbn in Hl. rewrite Hk, vdel_same in Hl. discriminate.
Qed.

(* every list in the table is non-empty: `make([]*Backend, 0, len(entries)-1)` cannot panic *)
Theorem etcd_lists_nonempty evs h l : es_tab (run_etcd up evs) h = Some l -> l <> [].
Proof. intros H. destruct (run_etcd_inv evs) as [_ [_ H2 _]]. now apply (H2 h l). Qed.

End Etcd.

(* =============================== witnesses ============================================ *)
(* The defects of the code as it was, on the faithful model of that code, and the
   one open finding of the current code.  The same histories are replayed on the
   real implementation by the harness (directed cases 900001..900102). *)
Definition wit_url (host s : string) : string * purl := (s, mkPurl "https" host host "" s s).
Definition wit_tbl : list (string * purl) :=
  [ wit_url "h1.example" "https://h1.example/a/"; wit_url "h1.example" "https://h1.example/b/";
    wit_url "h1.example" "https://h1.example/c/"; wit_url "h1.example" "https://h1.example/a/b/";
    wit_url "h2.example" "https://h2.example/a/";
    wit_url "h1.example" "https://h1.example/a/x"; wit_url "h1.example" "https://h1.example/a/b/x";
    wit_url "h1.example" "https://h1.example/x"; wit_url "h2.example" "https://h2.example/a/x" ].
Definition wit_up (s : string) : option purl :=
  match find (fun e => fst e =? s) wit_tbl with Some e => Some (snd e) | None => None end.
Definition wit_sec (u : string) (secret : N) : section := mkSec u secret None None None.
Definition wit_cfg (ids : list N) (secs : list (N * section)) : config := mkCfg false false 0 None [] ids secs.

Definition wit_abc := wit_cfg [1;2;3]%N [(1%N, wit_sec "https://h1.example/a/" 1); (2%N, wit_sec "https://h1.example/b/" 2); (3%N, wit_sec "https://h1.example/c/" 3)].
Definition wit_c := wit_cfg [3]%N [(3%N, wit_sec "https://h1.example/c/" 3)].
Definition wit_B := wit_cfg [2]%N [(2%N, wit_sec "https://h1.example/a/b/" 2)].
Definition wit_AB := wit_cfg [1;2]%N [(1%N, wit_sec "https://h1.example/a/" 1); (2%N, wit_sec "https://h1.example/a/b/" 2)].
Definition wit_a := wit_cfg [1]%N [(1%N, wit_sec "https://h1.example/a/" 1)].
Definition wit_none := wit_cfg [0]%N [].
Definition wit_old := mkCfg false false 7 None ["h1.example"] [0%N] [].
Definition wit_h2 := wit_cfg [1]%N [(1%N, wit_sec "https://h2.example/a/" 1)].

Definition answers_differ (a b : lres) : Prop := answer_of a <> answer_of b.

(* three backends on one host reloaded to one: index out of range in UpsertHost *)
Lemma unrepaired_reload_panics : run_chain_unrepaired wit_up wit_abc [wit_c] = None.
Proof. vm_compute. reflexivity. Qed.
(* existing [B], new [A;B] gives [B;A]: the more specific prefix wins after the reload, not after a restart *)
Lemma unrepaired_reload_order :
  exists st, run_chain_unrepaired wit_up wit_B [wit_AB] = Some st /\
    answers_differ (lookup_static wit_up st "https://h1.example/a/b/x")
                   (lookup_static wit_up (fresh wit_up wit_AB) "https://h1.example/a/b/x").
Proof. eexists. split; [vm_compute; reflexivity|]. vm_compute. discriminate. Qed.
(* reload to an empty list keeps everything *)
Lemma unrepaired_reload_empty_list :
  exists st, run_chain_unrepaired wit_up wit_a [wit_none] = Some st /\
    answers_differ (lookup_static wit_up st "https://h1.example/a/x")
                   (lookup_static wit_up (fresh wit_up wit_none) "https://h1.example/a/x").
Proof. eexists. split; [vm_compute; reflexivity|]. vm_compute. discriminate. Qed.
(* OPEN: the current code does not leave (or enter) the deprecated modes on reload *)
Lemma reload_deprecated_mode :
  exists st, run_chain wit_up wit_old [wit_h2] = Some st /\
    answers_differ (lookup_static wit_up st "https://h1.example/x")
                   (lookup_static wit_up (fresh wit_up wit_h2) "https://h1.example/x") /\
    answers_differ (lookup_static wit_up st "https://h2.example/a/x")
                   (lookup_static wit_up (fresh wit_up wit_h2) "https://h2.example/a/x").
Proof. eexists. split; [vm_compute; reflexivity|]. split; vm_compute; discriminate. Qed.

Definition wit_e (u : string) (secret : N) : option einfo := Some (mkE u secret 0 0 0).
(* etcd: a key moves to another host and is deleted: the old host keeps the backend *)
Lemma unrepaired_etcd_host_change : exists up evs probe,
  answer_of (lookup_etcd up (run_etcd_unrepaired up evs) probe) <>
  answer_of (lookup_etcd up (fresh_etcd_unrepaired up (final_kv evs)) probe).
Proof. exists wit_up, [EPut 1 (wit_e "https://h1.example/a/" 1); EPut 1 (wit_e "https://h2.example/a/" 2); EDel 1], "https://h1.example/a/x". vm_compute. discriminate. Qed.
(* etcd: an invalid value over a valid one keeps the old backend *)
Lemma unrepaired_etcd_invalid_over_valid : exists up evs probe,
  answer_of (lookup_etcd up (run_etcd_unrepaired up evs) probe) <>
  answer_of (lookup_etcd up (fresh_etcd_unrepaired up (final_kv evs)) probe).
Proof. exists wit_up, [EPut 1 (wit_e "https://h1.example/a/" 1); EPut 1 None], "https://h1.example/a/x". vm_compute. discriminate. Qed.
(* etcd: the same url under two keys, written in the other order *)
Lemma unrepaired_etcd_order : exists up evs probe,
  answer_of (lookup_etcd up (run_etcd_unrepaired up evs) probe) <>
  answer_of (lookup_etcd up (fresh_etcd_unrepaired up (final_kv evs)) probe).
Proof. exists wit_up, [EPut 2 (wit_e "https://h1.example/a/" 2); EPut 1 (wit_e "https://h1.example/a/" 1)], "https://h1.example/a/x". vm_compute. discriminate. Qed.

(* the hypotheses of the reload theorem are met by a chain that does something *)
Lemma new_style_witness : Forall new_style [wit_abc; wit_c; wit_none; wit_AB].
Proof. repeat constructor; try discriminate; reflexivity. Qed.
Lemma new_style_witness_answers :
  exists st, run_chain wit_up wit_abc [wit_c; wit_none; wit_AB] = Some st /\
    answer_of (lookup_static wit_up st "https://h1.example/a/b/x") = ASome (1%N, 1%N, 0%Z, 0%Z, 0%Z, false) /\
    answer_of (lookup_static wit_up st "https://h1.example/x") = ANone.
Proof. eexists. split; [vm_compute; reflexivity|]. split; vm_compute; reflexivity. Qed.

(* =============================== the property as trace predicate ==================== *)
From Verif Require Import corr.Run_C13.

Lemma proj_eqb_refl a : proj_eqb a a = true.
Proof.
  destruct a as [[[[[i s] l] m] c] k]. unfold proj_eqb.
  rewrite !N.eqb_refl, !Z.eqb_refl, Bool.eqb_reflx. reflexivity.
Qed.
Lemma answer_eqb_refl a : answer_eqb a a = true.
Proof. destruct a; cbn; auto using proj_eqb_refl. Qed.

Definition lookup_equiv_static (up : string -> option purl) (s1 s2 : sstate) : Prop :=
  forall probe, answer_of (lookup_static up s1 probe) = answer_of (lookup_static up s2 probe).
Definition lookup_equiv_etcd (up : string -> option purl) (s1 s2 : estate) : Prop :=
  forall probe, answer_of (lookup_etcd up s1 probe) = answer_of (lookup_etcd up s2 probe).

Lemma reload_eq_fresh up c0 cs : Forall (new_style) (c0 :: cs) ->
  exists st, run_chain up c0 cs = Some st /\ lookup_equiv_static up st (fresh up (last cs c0)).
Proof.
  intros Hn. destruct (reload_eq_fresh_state up c0 cs Hn) as (st & Hr & He). exists st. split; [exact Hr|].
  intros probe. now rewrite (lookup_state_eq up st _ probe He).
Qed.

Lemma removed_url_refused up c0 cs probe : Forall new_style (c0 :: cs) ->
  lookup_static up (fresh up (last cs c0)) probe = LRes None ->
  exists st, run_chain up c0 cs = Some st /\ lookup_static up st probe = LRes None.
Proof.
  intros Hn Hf. destruct (reload_eq_fresh_state up c0 cs Hn) as (st & Hr & He). exists st. split; [exact Hr|].
  now rewrite (lookup_state_eq up st _ probe He).
Qed.

Lemma etcd_eq_fresh_equiv up evs : lookup_equiv_etcd up (run_etcd up evs) (fresh_etcd up (final_kv evs)).
Proof. intros probe. now rewrite etcd_eq_fresh. Qed.

Section Traces.
Context (up : string -> option purl).

Definition st_ok (st : option (sstate * config)) : Prop :=
  match st with None => True | Some (s, c) => state_eq s (fresh up c) /\ new_style c end.

Lemma static_trace_from ops : forall st, st_ok st ->
  Forall new_style (flat_map op_config ops) -> P_C13 (mtrace_static up st ops) = true.
Proof.
  induction ops as [|o r IH]; intros st Hst Hn; [reflexivity|].
  cbn [flat_map] in Hn. apply Forall_app in Hn as [Ho Hr].
  destruct o as [c|c|e|u]; cbn [mtrace_static].
  - (* OInit *)
    unfold P_C13 in *. cbn [forallb snd andb]. apply IH; [|exact Hr].
    cbn. split; [repeat split|]. now inversion Ho.
  - (* OReload *)
    destruct st as [[s c0]|]; [|now apply IH].
    destruct Hst as [He Hc0]. inversion Ho as [|? ? Hc _]; subst.
    destruct (fresh_new_style up c0 Hc0) as (F1 & F2 & F3).
    destruct He as (E1 & E2 & E3).
    destruct (reload_table up s c ltac:(congruence)) as (s' & Hrl & R1 & R2 & R3).
    rewrite Hrl. unfold P_C13 in *. cbn [forallb snd andb]. apply IH; [|exact Hr].
    destruct (fresh_new_style up c Hc) as (G1 & G2 & G3).
    cbn. split; [|exact Hc]. split; [congruence|]. split; [congruence|]. intros h. now rewrite R3, G3.
  - (* OEvent: not applicable *)
    destruct st as [[s c0]|]; now apply IH.
  - (* OProbe *)
    destruct st as [[s c0]|]; [|now apply IH].
    unfold P_C13 in *. cbn [forallb snd]. destruct Hst as [He Hc0].
    rewrite (lookup_state_eq up s _ u He), answer_eqb_refl. cbn [andb]. apply IH; [|exact Hr]. cbn. auto.
Qed.

(* every history of starts, reloads and lookups with new-style configurations *)
Lemma static_trace ops : Forall new_style (flat_map op_config ops) -> P_C13 (mtrace_static up None ops) = true.
Proof. apply static_trace_from. exact I. Qed.

Lemma etcd_trace_from ops : forall evs,
  P_C13 (mtrace_etcd up (run_etcd up evs) (final_kv evs) ops) = true.
Proof.
  induction ops as [|o r IH]; intros evs; [reflexivity|].
  destruct o as [c|c|e|u]; cbn [mtrace_etcd]; try apply IH.
  - unfold P_C13 in *. cbn [forallb snd andb].
    specialize (IH (evs ++ [e])%list). unfold run_etcd, final_kv in IH. rewrite !fold_left_app in IH. cbn [fold_left] in IH.
    exact IH.
  - unfold P_C13 in *. cbn [forallb snd]. rewrite etcd_eq_fresh, answer_eqb_refl. cbn [andb]. apply IH.
Qed.

(* every history of etcd events and lookups *)
Lemma etcd_trace ops : P_C13 (mtrace_etcd up einit [] ops) = true.
Proof. apply (etcd_trace_from ops []). Qed.

(* never a panic, whatever the configurations (also the deprecated modes) *)
Lemma static_trace_no_panic ops : forall st, ~ In VPanic (map snd (mtrace_static up st ops)).
Proof.
  induction ops as [|o r IH]; intros st; [intros []|].
  destruct o as [c|c|e|u]; cbn [mtrace_static].
  - cbn. intros [H|H]; [discriminate|now apply IH in H].
  - destruct st as [[s c0]|]; [|apply IH]. destruct (reload up s c) eqn:E.
    + cbn. intros [H|H]; [discriminate|now apply IH in H].
    + exfalso. now apply (reload_no_panic up s c).
  - destruct st as [[s c0]|]; apply IH.
  - destruct st as [[s c0]|]; [|apply IH]. cbn. intros [H|H]; [discriminate|now apply IH in H].
Qed.
End Traces.
