(* Transient room data, history level (C14, scenario C14H): the ghost replica of a session, the invariant RI
   "the effective replica of every member is the data of its room", and the relation NR between two states of
   the hub model under which RI is kept: no session appears (except virtual ones), the sessions that stay keep
   kind, connection, room and the transient part of their queue, the rooms that stay keep their data.
   proofs/Hub_transient_hist.v has the steps and the history theorems. *)
From Coq Require Import List NArith Bool Lia.
From Verif Require Import model.Hub proofs.Hub_basics proofs.Hub_wf proofs.Hub_easy proofs.Hub_pending proofs.Hub_transient_frame.
Import ListNotations.
Open Scope N_scope.

(* ------------------------------------------------------------------ the replica: ghost state computed from outputs *)
(* None: in no room; Some (room, data).  The function is corr/Hub_preds.apply_trans (the one the differential check
   C14H applies to the implementation's observations); Hub_transient_hist.tapply_is_apply_trans says so. *)
Definition rep := option (N * list (N * N)).
Definition tapply (v : rep) (m : smsg) : rep :=
  match m with
  | SRoom 0 => None
  | SRoom r => match v with
               | Some (r', _) => if N.eqb r r' then v else Some (r, [])
               | None => Some (r, []) end
  | STransient t =>
      match v with
      | Some (r, d) => Some (r, match t with TInit d' => d' | TSet key x _ => aset d key x | TRemove key _ => adel d key end)
      | None => None end
  | _ => v
  end.

(* g_bind: the session a connection's messages belong to = the last hello reply written to it;
   g_rep: per session, the replica *)
Record ghost := mkg { g_bind : N -> option N; g_rep : N -> rep }.
Definition g0 : ghost := mkg (fun _ => None) (fun _ => None).

Definition rmsg (m : smsg) : bool := match m with SHello _ _ | SRoom _ | STransient _ => true | _ => false end.

Definition gout (g : ghost) (o : out) : ghost :=
  match o with
  | ToConn c m =>
      match m with
      | SHello sid _ => mkg (fun x => if N.eqb x c then Some sid else g_bind g x) (g_rep g)
      | SRoom _ | STransient _ =>
          match g_bind g c with
          | Some sid => mkg (g_bind g) (fun x => if N.eqb x sid then tapply (g_rep g sid) m else g_rep g x)
          | None => g end
      | _ => g
      end
  | _ => g
  end.
Definition gouts (g : ghost) (outs : list out) : ghost := fold_left gout outs g.

Lemma gouts_app g a b : gouts g (a ++ b) = gouts (gouts g a) b.
Proof. unfold gouts. apply fold_left_app. Qed.
Lemma gouts_cons g o r : gouts g (o :: r) = gouts (gout g o) r.
Proof. reflexivity. Qed.

Definition replayT (l : list smsg) (v : rep) : rep := fold_left tapply l v.
Lemma replayT_app a b v : replayT (a ++ b) v = replayT b (replayT a v).
Proof. unfold replayT. apply fold_left_app. Qed.

Lemma tapply_irr v m : rmsg m = false -> tapply v m = v.
Proof. destruct m; cbn; try discriminate; reflexivity. Qed.

Lemma replayT_enqueue_irr q m v : rmsg m = false -> replayT (enqueue q m) v = replayT q v.
Proof.
  intros H. unfold enqueue. destruct (is_chat_refresh m && existsb is_chat_refresh q); [reflexivity|].
  rewrite replayT_app. cbn. now apply tapply_irr.
Qed.
Lemma enqueue_rel q m : rmsg m = true -> enqueue q m = q ++ [m].
Proof. intros H. unfold enqueue. destruct m; try discriminate H; reflexivity. Qed.

(* outputs that change no replica and no binding *)
Definition qouts (outs : list out) : Prop := forall c m, In (ToConn c m) outs -> rmsg m = false.
Lemma qouts_nil : qouts [].
Proof. intros c m []. Qed.
Lemma qouts_app a b : qouts a -> qouts b -> qouts (a ++ b).
Proof. intros Ha Hb c m Hin. apply in_app_or in Hin as [Hin|Hin]; eauto. Qed.
Lemma qouts_cons o l : (forall c m, o = ToConn c m -> rmsg m = false) -> qouts l -> qouts (o :: l).
Proof. intros Ho Hl c m [Hin|Hin]; eauto. Qed.
Lemma qouts_map {A} (f : A -> out) l : (forall a c m, f a = ToConn c m -> rmsg m = false) -> qouts (map f l).
Proof. intros Hf c m Hin. apply in_map_iff in Hin as [a [E _]]. eauto. Qed.
Lemma qouts_app_inv a b : qouts (a ++ b) -> qouts a /\ qouts b.
Proof. intros H. split; intros c m Hin; apply (H c m), in_or_app; auto. Qed.

Lemma gout_quiet g o : (forall c m, o = ToConn c m -> rmsg m = false) -> gout g o = g.
Proof.
  intros H. destruct o as [c m| | |]; try reflexivity. specialize (H c m eq_refl).
  destruct m; try discriminate H; reflexivity.
Qed.
Lemma gouts_quiet outs : forall g, qouts outs -> gouts g outs = g.
Proof.
  induction outs as [|o r IH]; intros g H; [reflexivity|]. rewrite gouts_cons, gout_quiet.
  - apply IH. intros c m Hin. apply (H c m). now right.
  - intros c m ->. apply (H c m). now left.
Qed.

(* ------------------------------------------------------------------ the invariant *)
Definition hello_free (l : list smsg) : Prop := forall u v, ~ In (SHello u v) l.
Lemma hello_free_nil : hello_free [].
Proof. intros u v []. Qed.
Lemma enqueue_incl q m x : In x (enqueue q m) -> In x q \/ x = m.
Proof.
  unfold enqueue. destruct (is_chat_refresh m && existsb is_chat_refresh q); [now left|].
  intros H. apply in_app_or in H as [H|[H|[]]]; auto.
Qed.
Lemma hello_free_enqueue q m : hello_free q -> (forall u v, m <> SHello u v) -> hello_free (enqueue q m).
Proof. intros Hq Hm u v Hin. apply enqueue_incl in Hin as [Hin|Hin]; [exact (Hq u v Hin)|exact (Hm u v (eq_sym Hin))]. Qed.

Record RIx (h : hub) (g : ghost) (x : N) (s : session) : Prop := {
  ri_bind : forall c, s_conn s = Some c -> g_bind g c = Some x;
  ri_vconn : is_virtual (s_kind s) = true -> s_conn s = None;
  ri_hf : hello_free (s_pending s);
  ri_rep : is_virtual (s_kind s) = false ->
           match s_room s with
           | Some k => snd k <> 0 /\ exists d, replayT (s_pending s) (g_rep g x) = Some (snd k, d) /\
                                               forall r, room_of h k = Some r -> r_transient r = d
           | None => replayT (s_pending s) (g_rep g x) = None
           end;
}.
Record RI (h : hub) (g : ghost) : Prop := {
  ri_sess : forall x s, get_sess h x = Some s -> RIx h g x s;
  ri_fresh : forall x, h_nextsid h < x -> g_rep g x = None;
}.

(* ------------------------------------------------------------------ the relation *)
Definition pend_eq (s s' : session) : Prop :=
  (s_conn s <> None -> s_pending s' = s_pending s) /\ (forall v, replayT (s_pending s') v = replayT (s_pending s) v) /\
  (hello_free (s_pending s) -> hello_free (s_pending s')).
Definition olds (h0 : hub) (x : N) (s' : session) : Prop :=
  exists s, get_sess h0 x = Some s /\ s_kind s' = s_kind s /\ s_conn s' = s_conn s /\
            (is_virtual (s_kind s) = true \/ s_room s' = s_room s) /\ pend_eq s s'.
Definition virts (s' : session) : Prop := is_virtual (s_kind s') = true /\ s_conn s' = None /\ hello_free (s_pending s').
Definition nrP (ex : N -> Prop) (h0 : hub) (ss : alist session) (rs : list ((N * N) * room)) (nx : N) : Prop :=
  (forall x s', aget ss x = Some s' -> ex x \/ olds h0 x s' \/ virts s') /\
  (forall k r', pget rs k = Some r' -> exists r, room_of h0 k = Some r /\ r_transient r' = r_transient r) /\
  h_nextsid h0 <= nx.
Definition NR (ex : N -> Prop) (h0 h : hub) : Prop := nrP ex h0 (h_sessions h) (h_rooms h) (h_nextsid h).
Definition nres (ex : N -> Prop) (h0 : hub) (r : hub * list out) : Prop := NR ex h0 (fst r) /\ qouts (snd r).
Definition noex : N -> Prop := fun _ => False.

Lemma pend_eq_refl s : pend_eq s s.
Proof. repeat split; auto. Qed.
Lemma pend_eq_same s s' : s_pending s' = s_pending s -> pend_eq s s'.
Proof. intros H. unfold pend_eq. rewrite H. repeat split; auto. Qed.

Lemma nr_refl ex h : NR ex h h.
Proof.
  split; [|split]; [| |apply N.le_refl].
  - intros x s' Hs. right. left. exists s'. repeat split; auto.
  - intros k r' Hr. exists r'. auto.
Qed.

Lemma olds_next h0 x s s' :
  s_kind s' = s_kind s -> s_conn s' = s_conn s -> (is_virtual (s_kind s) = true \/ s_room s' = s_room s) -> pend_eq s s' ->
  olds h0 x s -> olds h0 x s'.
Proof.
  intros Hk Hc Hr (P1 & P2 & P3) (s0 & H0 & K0 & C0 & R0 & (Q1 & Q2 & Q3)). exists s0. split; [exact H0|].
  split; [congruence|]. split; [congruence|]. split.
  - destruct R0 as [V|R0]; [now left|]. destruct Hr as [V|Hr]; [left; congruence|right; congruence].
  - split; [|split].
    + intros Hn. rewrite P1; [now apply Q1|congruence].
    + intros v. now rewrite P2, Q2.
    + auto.
Qed.
Lemma virts_next s s' : s_kind s' = s_kind s -> s_conn s' = s_conn s -> pend_eq s s' -> virts s -> virts s'.
Proof. intros Hk Hc (_ & _ & P) (V & C & F). split; [congruence|]. split; [congruence|auto]. Qed.

Lemma nr_trans ex h0 h1 h2 : NR ex h0 h1 -> NR ex h1 h2 -> NR ex h0 h2.
Proof.
  intros (S1 & R1 & N1) (S2 & R2 & N2). split; [|split].
  - intros x s2 Hs2. destruct (S2 x s2 Hs2) as [E|[(s1 & H1 & K & C & R & P)|V]]; [now left| |right; now right].
    destruct (S1 x s1 H1) as [E|[O|V]]; [now left| |].
    + right. left. eapply olds_next; eauto.
    + right. right. eapply virts_next; eauto.
  - intros k r2 Hr2. destruct (R2 k r2 Hr2) as (r1 & Hr1 & T1). destruct (R1 k r1 Hr1) as (r0 & Hr0 & T0).
    exists r0. split; [exact Hr0|congruence].
  - eapply N.le_trans; eauto.
Qed.

Lemma nr_weaken (ex ex' : N -> Prop) h0 h : (forall x, ex x -> ex' x) -> NR ex h0 h -> NR ex' h0 h.
Proof.
  intros Hx (S & R & Nx). split; [|split; assumption].
  intros x s' Hs. destruct (S x s' Hs) as [E|O]; [left; auto|now right].
Qed.

(* sessions that are exempt and gone need no exemption *)
Lemma nr_drop ex h0 h : NR ex h0 h -> (forall x, ex x -> get_sess h x = None) -> NR noex h0 h.
Proof.
  intros (S & R & Nx) Hd. split; [|split; assumption].
  intros x s' Hs. destruct (S x s' Hs) as [E|O]; [|now right].
  exfalso. apply Hd in E. unfold get_sess in E. congruence.
Qed.

(* ---- primitive updates ---- *)
Lemma nr_eq ex h0 h h' : h_sessions h' = h_sessions h -> h_rooms h' = h_rooms h -> h_nextsid h' = h_nextsid h ->
  NR ex h0 h -> NR ex h0 h'.
Proof. unfold NR. intros -> -> ->. auto. Qed.

Lemma nr_put_gen ex h0 h x s' :
  NR ex h0 h -> (ex x \/ olds h0 x s' \/ virts s') -> NR ex h0 (put_sess h x s').
Proof.
  intros (S & R & Nx) Hx. split; [|split; assumption].
  intros y t. cbn [put_sess h_sessions set_sessions]. rewrite aget_aset.
  destruct (N.eqb_spec y x) as [->|Hne]; [|apply S]. intros E. injection E as <-. exact Hx.
Qed.
Lemma nr_put_old ex h0 h x s s' :
  NR ex h0 h -> get_sess h x = Some s -> s_kind s' = s_kind s -> s_conn s' = s_conn s -> s_room s' = s_room s ->
  s_pending s' = s_pending s -> NR ex h0 (put_sess h x s').
Proof.
  intros Hn Hs Hk Hc Hr Hp. apply nr_put_gen; [exact Hn|].
  destruct Hn as (S & _ & _). destruct (S x s Hs) as [E|[O|V]]; [now left| |].
  - right. left. eapply olds_next; eauto. now apply pend_eq_same.
  - right. right. eapply virts_next; eauto. now apply pend_eq_same.
Qed.
Lemma nr_put_pend ex h0 h x s s' :
  NR ex h0 h -> get_sess h x = Some s -> s_kind s' = s_kind s -> s_conn s' = s_conn s ->
  (is_virtual (s_kind s) = true \/ s_room s' = s_room s) -> pend_eq s s' -> NR ex h0 (put_sess h x s').
Proof.
  intros Hn Hs Hk Hc Hr Hp. apply nr_put_gen; [exact Hn|].
  destruct Hn as (S & _ & _). destruct (S x s Hs) as [E|[O|V]]; [now left| |].
  - right. left. eapply olds_next; eauto.
  - right. right. eapply virts_next; eauto.
Qed.
Lemma nr_put_ex (ex : N -> Prop) h0 h x s' : ex x -> NR ex h0 h -> NR ex h0 (put_sess h x s').
Proof. intros E Hn. apply nr_put_gen; auto. Qed.

Lemma nr_del_sess ex h0 h x : NR ex h0 h -> NR ex h0 (set_sessions h (adel (h_sessions h) x)).
Proof.
  intros (S & R & Nx). split; [|split; assumption].
  intros y t. cbn [h_sessions set_sessions]. rewrite aget_adel. destruct (N.eqb y x); [discriminate|apply S].
Qed.
Lemma nr_scrub ex h0 h x : NR ex h0 h -> NR ex h0 (scrub h x).
Proof. intros Hn. apply (nr_eq ex h0 (set_sessions h (adel (h_sessions h) x))); try reflexivity. now apply nr_del_sess. Qed.

Lemma nr_pset ex h0 h k r r' :
  NR ex h0 h -> room_of h k = Some r -> r_transient r' = r_transient r -> NR ex h0 (set_rooms h (pset (h_rooms h) k r')).
Proof.
  intros (S & R & Nx) Hr Ht. split; [exact S|split; [|exact Nx]].
  intros k' r2. cbn [h_rooms set_rooms]. rewrite pget_pset. destruct (pair_eqb_spec k' k) as [->|Hne]; [|apply R].
  intros E. injection E as <-. destruct (R k r Hr) as (r0 & H0 & T0). exists r0. split; [exact H0|congruence].
Qed.
Lemma nr_pdel ex h0 h k : NR ex h0 h -> NR ex h0 (set_rooms h (pdel (h_rooms h) k)).
Proof.
  intros (S & R & Nx). split; [exact S|split; [|exact Nx]].
  intros k' r2. cbn [h_rooms set_rooms]. rewrite pget_pdel. destruct (pair_eqb k' k); [discriminate|apply R].
Qed.
Lemma nr_nextsid ex h0 h v : NR ex h0 h -> h_nextsid h <= v -> NR ex h0 (set_nextsid h v).
Proof. intros (S & R & Nx) Hv. split; [exact S|split; [exact R|]]. cbn. eapply N.le_trans; eauto. Qed.

Lemma nr_rs_set ex h0 h sid rs : NR ex h0 h -> NR ex h0 (rs_set h sid rs).
Proof.
  intros Hn. apply (nr_eq ex h0 h); [apply rs_set_sessions| |apply rs_set_nextsid|exact Hn].
  unfold rs_set. destruct (N.eqb rs 0); destruct (aget (h_rs1 h) sid); try reflexivity. destruct (N.eqb n rs); reflexivity.
Qed.
Lemma nr_rs_del ex h0 h sid : NR ex h0 h -> NR ex h0 (rs_del h sid).
Proof. apply nr_rs_set. Qed.
Lemma nr_remove_room_if_empty ex h0 h k : NR ex h0 h -> NR ex h0 (remove_room_if_empty h k).
Proof.
  intros Hn. unfold remove_room_if_empty. destruct (room_of h k) as [r|]; [|exact Hn].
  destruct (r_members r); [now apply nr_pdel|exact Hn].
Qed.
Lemma nr_detach_conn ex h0 h oc : NR ex h0 h -> NR ex h0 (detach_conn h oc).
Proof. intros Hn. unfold detach_conn. destruct oc; [destruct (aget (h_conns h) n)|]; exact Hn. Qed.
Lemma nr_drop_vt ex h0 h kd sid : NR ex h0 h -> NR ex h0 (drop_vt h kd sid).
Proof.
  intros Hn. unfold drop_vt. destruct kd; try exact Hn.
  destruct (pget (h_vtable h) (parent, vid)); [destruct (N.eqb n sid)|]; exact Hn.
Qed.
Lemma nr_set_incall ex h0 h k sid on : NR ex h0 h -> NR ex h0 (set_incall h k sid on).
Proof.
  intros Hn. unfold set_incall. destruct (room_of h k) as [r|] eqn:E; [|exact Hn].
  destruct (on && negb (nmem sid (r_members r))); [exact Hn|]. eapply nr_pset; eauto.
Qed.
Lemma nr_room_remove ex h0 h k sid : NR ex h0 h -> NR ex h0 (room_remove h k sid).
Proof.
  intros Hn. unfold room_remove. destruct (room_of h k) as [r|] eqn:E; [|exact Hn].
  destruct (nmem sid (r_members r)); [|exact Hn].
  change (NR ex h0 (remove_room_if_empty (set_rooms h (pset (h_rooms h) k
            (mkroom (nrem sid (r_members r)) (nrem sid (r_incall r)) (adel (r_sessdata r) sid) (r_transient r) (r_props r)))) k)).
  apply nr_remove_room_if_empty. eapply nr_pset; eauto.
Qed.
Lemma nr_fold_left {A} ex h0 (f : hub -> A -> hub) l : forall h,
  NR ex h0 h -> (forall hh a, NR ex h0 hh -> NR ex h0 (f hh a)) -> NR ex h0 (fold_left f l h).
Proof. intros h. apply (wf_fold_left_hub (NR ex h0)). Qed.

Ltac nrs :=
  first
  [ assumption
  | lazymatch goal with
    | |- NR ?ex ?h0 (publish ?h _ _) => change (NR ex h0 h); nrs
    | |- NR _ _ (room_remove _ _ _) => apply nr_room_remove; nrs
    | |- NR _ _ (rs_set _ _ _) => apply nr_rs_set; nrs
    | |- NR _ _ (rs_del _ _) => apply nr_rs_del; nrs
    | |- NR _ _ (remove_room_if_empty _ _) => apply nr_remove_room_if_empty; nrs
    | |- NR _ _ (detach_conn _ _) => apply nr_detach_conn; nrs
    | |- NR _ _ (drop_vt _ _ _) => apply nr_drop_vt; nrs
    | |- NR _ _ (set_incall _ _ _ _) => apply nr_set_incall; nrs
    | |- NR _ _ (scrub _ _) => apply nr_scrub; nrs
    | |- NR _ _ (put_sess _ _ _) =>
        first [ eapply nr_put_old; [nrs | eassumption | reflexivity | reflexivity | reflexivity | reflexivity ]
              | apply nr_put_ex; [assumption | nrs] ]
    | |- NR _ _ (set_rooms _ (pset _ _ _)) => eapply nr_pset; [nrs | eassumption | reflexivity]
    | |- NR _ _ (set_rooms _ (pdel _ _)) => apply nr_pdel; nrs
    | |- NR _ _ (fold_left _ _ _) => apply nr_fold_left; [nrs | intros; nrs]
    | |- NR _ _ (match ?x with _ => _ end) => destruct x eqn:?; nrs
    | |- NR ?ex ?h0 (?f ?h _ _ _) => change (NR ex h0 h); nrs
    | |- NR ?ex ?h0 (?f ?h _ _) => change (NR ex h0 h); nrs
    | |- NR ?ex ?h0 (?f ?h _) => change (NR ex h0 h); nrs
    end ].

Create HintDb nrdb.
#[export] Hint Extern 1 (NR _ _ _) => nrs : nrdb.
#[export] Hint Extern 1 (rmsg _ = false) => first [reflexivity | assumption] : nrdb.

Ltac qsolve :=
  repeat first
   [ apply qouts_nil
   | assumption
   | apply qouts_app
   | apply qouts_map; intros; discriminate
   | apply qouts_cons; [let E := fresh in intros ? ? E; first [discriminate E | injection E as ? ?; subst; first [reflexivity | assumption | eauto]] | ]
   | match goal with |- qouts (match ?b with _ => _ end) => destruct b end ].

Ltac ncall X :=
  let H := fresh "Hc" in
  match goal with |- nres ?ex ?h0 _ => assert (H : nres ex h0 X) by (solve [eauto 3 with nrdb nocore]) end;
  destruct X as [? ?]; cbn [fst snd] in H; destruct H as [? ?].

Ltac nleaf := split; cbn [fst snd]; [try nrs | try qsolve].

Ltac ngo :=
  cbv beta iota zeta;
  lazymatch goal with
  | |- nres _ _ (match (match ?Y with _ => _ end) with _ => _ end) => destruct Y eqn:?; ngo
  | |- nres _ _ (match ?X with _ => _ end) => first [ ncall X | destruct X eqn:? ]; ngo
  | |- nres _ _ (_, _) => nleaf
  | |- nres _ _ _ => first [ solve [eauto 3 with nrdb nocore] | idtac ]
  end.

(* ---- media objects ---- *)
Lemma nr_close_tokens ex h0 h toks : NR ex h0 h -> nres ex h0 (close_tokens h toks).
Proof. intros B. unfold close_tokens. ngo. Qed.
#[export] Hint Resolve nr_close_tokens : nrdb.

Lemma nr_release_mcu ex h0 h sid : NR ex h0 h -> nres ex h0 (release_mcu h sid).
Proof. intros B. unfold release_mcu. ngo. Qed.
#[export] Hint Resolve nr_release_mcu : nrdb.

Lemma nr_revoke ex h0 h sid : NR ex h0 h -> nres ex h0 (revoke h sid).
Proof. intros B. unfold revoke. ngo. Qed.
#[export] Hint Resolve nr_revoke : nrdb.

Lemma nr_leave_call ex h0 h sid : NR ex h0 h -> nres ex h0 (leave_call h sid).
Proof. intros B. unfold leave_call. ngo. Qed.
#[export] Hint Resolve nr_leave_call : nrdb.

(* ---- sending a message that is neither hello, room nor transient ---- *)
Lemma nr_deliver_irr ex h0 h x m : rmsg m = false -> NR ex h0 h -> nres ex h0 (deliver_to_session h x m).
Proof.
  intros Hm B. unfold deliver_to_session. destruct (get_sess h x) as [s|] eqn:Hs; [|split; [exact B|apply qouts_nil]].
  assert (G : forall s1 mm, s_kind s1 = s_kind s -> s_conn s1 = s_conn s -> s_room s1 = s_room s -> s_pending s1 = s_pending s ->
     rmsg mm = false ->
     nres ex h0 (match s_conn s1 with
                 | Some c => (put_sess h x s1, [ToConn c mm])
                 | None => (put_sess h x (sess_pending s1 (enqueue (s_pending s1) mm)), []) end)).
  { intros s1 mm K C R P M. destruct (s_conn s1) as [c|] eqn:E.
    - split; cbn [fst snd]; [eapply nr_put_old; eauto; congruence|].
      apply qouts_cons; [|apply qouts_nil]. intros c' m' E'. injection E' as <- <-. exact M.
    - split; cbn [fst snd]; [|apply qouts_nil].
      eapply nr_put_pend; [exact B|exact Hs|exact K|cbn; congruence|right; exact R|].
      split; [intros Hn; congruence|]. split.
      + intros v. cbn [s_pending sess_pending upd_sess]. rewrite replayT_enqueue_irr, P; auto.
      + cbn [s_pending sess_pending upd_sess]. rewrite P. intros Hq. apply hello_free_enqueue; [exact Hq|].
        intros u v ->. discriminate M. }
  destruct m; try discriminate Hm; cbv beta iota zeta; try (apply G; auto; reflexivity).
  destruct (filter_seen (s_seen s) l) as [keep seen']. destruct keep as [|e keep].
  - split; cbn [fst snd]; [eapply nr_put_old; eauto|apply qouts_nil].
  - apply G; auto.
Qed.
#[export] Hint Resolve nr_deliver_irr : nrdb.

(* ---- leaving a room: the session itself is exempt (or virtual) ---- *)
Lemma get_rs_del' h sid x : get_sess (rs_del h sid) x = get_sess h x.
Proof. unfold get_sess. now rewrite rs_del_sessions. Qed.

Lemma nr_leave_room (ex : N -> Prop) h0 h sid notify :
  (ex sid \/ forall s, get_sess h sid = Some s -> is_virtual (s_kind s) = true) ->
  NR ex h0 h -> nres ex h0 (leave_room h sid notify).
Proof.
  intros Hx B. unfold leave_room. destruct (get_sess h sid) as [s|] eqn:Hs; [|split; [exact B|apply qouts_nil]].
  destruct (s_room s) as [k|] eqn:Hr; [|split; [exact B|apply qouts_nil]].
  destruct (is_virtual (s_kind s)) eqn:V.
  - split; cbn [fst snd]; [|apply qouts_nil]. apply nr_room_remove.
    eapply nr_put_pend; [apply nr_rs_del; exact B|rewrite get_rs_del'; exact Hs|reflexivity|reflexivity|left; exact V|apply pend_eq_same; reflexivity].
  - assert (E : ex sid) by (destruct Hx as [E|Hv]; [exact E|rewrite (Hv s eq_refl) in V; discriminate]).
    assert (B2 : NR ex h0 (put_sess (rs_del h sid) sid (upd_sess s None 0 (s_conn s) (s_perms s) (s_pending s) [] 0))).
    { apply nr_put_ex; [exact E|apply nr_rs_del; exact B]. }
    pose proof (nr_release_mcu ex h0 _ sid B2) as [B3 Q3].
    destruct (release_mcu (put_sess (rs_del h sid) sid (upd_sess s None 0 (s_conn s) (s_perms s) (s_pending s) [] 0)) sid) as [h3 outs2].
    cbn [fst snd] in *. split; cbn [fst snd]; [now apply nr_room_remove|].
    apply qouts_app; [|exact Q3]. destruct (notify && negb (s_rs s =? 0)); [|apply qouts_nil].
    apply qouts_cons; [intros; discriminate|apply qouts_nil].
Qed.

Lemma nr_close_one (ex : N -> Prop) h0 h sid :
  (ex sid \/ forall s, get_sess h sid = Some s -> is_virtual (s_kind s) = true) ->
  NR ex h0 h -> nres ex h0 (close_one h sid).
Proof.
  intros Hx B. unfold close_one. pose proof (nr_leave_room ex h0 h sid true Hx B) as [B1 Q1].
  destruct (get_sess h sid) as [s|] eqn:Hs; [|split; [exact B|apply qouts_nil]].
  destruct (leave_room h sid true) as [h1 outs1]. cbn [fst snd] in *.
  ngo.
Qed.

Lemma nr_close_all (ex : N -> Prop) h0 kids : forall hh oo,
  (forall k, In k kids -> ex k) -> NR ex h0 hh -> qouts oo -> nres ex h0 (close_all kids (hh, oo)).
Proof.
  induction kids as [|k kids IH]; intros hh oo Hk B Q; unfold close_all; cbn [fold_left]; [split; assumption|].
  pose proof (nr_close_one ex h0 hh k (or_introl (Hk k (or_introl eq_refl))) B) as [B1 Q1].
  destruct (close_one hh k) as [h1 o1]. cbn [fst snd] in *.
  apply IH; [intros; apply Hk; now right|exact B1|now apply qouts_app].
Qed.

Lemma nr_close_session_ex (ex : N -> Prop) h0 h sid :
  ex sid -> (forall k, In k (children h sid) -> ex k) -> NR ex h0 h -> nres ex h0 (close_session h sid).
Proof.
  intros E Hk B. unfold close_session.
  pose proof (nr_close_one ex h0 h sid (or_introl E) B) as [B1 Q1]. destruct (close_one h sid) as [h1 o1]. cbn [fst snd] in *.
  now apply nr_close_all.
Qed.

Lemma nr_drop_gen (ex ex' : N -> Prop) h0 h : NR ex' h0 h -> (forall x, ex' x -> ex x \/ get_sess h x = None) -> NR ex h0 h.
Proof.
  intros (S & R & Nx) Hd. split; [|split; assumption].
  intros x s' Hs. destruct (S x s' Hs) as [E|O]; [|now right].
  destruct (Hd x E) as [E'|D]; [now left|]. exfalso. unfold get_sess in D. congruence.
Qed.

Lemma close_all_dead kids : forall hh oo y, get_sess hh y = None -> get_sess (fst (close_all kids (hh, oo))) y = None.
Proof.
  intros hh oo y Hd. unfold close_all. apply (fold_acc_inv (fun h => get_sess h y = None) close_one); [|exact Hd].
  intros h k Hn. apply (rel0_dead y h); [apply rel0_close_one|exact Hn].
Qed.
Lemma close_all_gone kids : forall hh oo y, In y kids -> get_sess (fst (close_all kids (hh, oo))) y = None.
Proof.
  induction kids as [|k kids IH]; intros hh oo y Hin; [destruct Hin|].
  unfold close_all. cbn [fold_left]. destruct (close_one hh k) as [h1 o1] eqn:Hc.
  destruct (N.eq_dec y k) as [->|Hne].
  - apply close_all_dead. rewrite (fst_eq _ _ _ Hc). apply close_one_gone.
  - destruct Hin as [->|Hin]; [contradiction|]. now apply IH.
Qed.

(* closing a session (with its virtual sessions) needs no exemption: they are all gone afterwards *)
Lemma nr_close_session ex h0 h sid : NR ex h0 h -> nres ex h0 (close_session h sid).
Proof.
  intros B. set (ex' := fun y => ex y \/ y = sid \/ In y (children h sid)).
  assert (B' : NR ex' h0 h) by (eapply nr_weaken; [|exact B]; intros y Hy; now left).
  destruct (nr_close_session_ex ex' h0 h sid) as [B1 Q1]; [right; now left|intros k Hk; right; now right|exact B'|].
  split; [|exact Q1]. apply (nr_drop_gen ex ex'); [exact B1|].
  intros y [Hy|[->|Hy]]; [now left|right; apply close_session_gone|right].
  unfold close_session. destruct (close_one h sid) as [h1 o1]. now apply close_all_gone.
Qed.
#[export] Hint Resolve nr_close_session : nrdb.

(* a connection is closed: the session attached to it goes with it *)
Lemma nr_close_conn ex h0 h c : NR ex h0 h -> nres ex h0 (close_conn h c).
Proof.
  intros B. unfold close_conn. destruct (aget (h_conns h) c) as [cn|]; [|split; [exact B|apply qouts_nil]].
  destruct (c_sess cn) as [sid|]; [|split; cbn [fst snd]; [exact B|apply qouts_cons; [intros; discriminate|apply qouts_nil]]].
  set (h1 := set_conns h (adel (h_conns h) c)).
  set (h2 := match get_sess h1 sid with Some s => put_sess h1 sid (sess_conn s None) | None => h1 end).
  set (ex' := fun y => ex y \/ y = sid).
  assert (B2 : NR ex' h0 h2).
  { unfold h2. destruct (get_sess h1 sid) as [s|]; [apply nr_put_ex; [right; reflexivity|]|];
      (eapply nr_weaken; [|exact B]; intros y Hy; now left). }
  pose proof (nr_close_session ex' h0 h2 sid B2) as [B3 Q3].
  assert (D : get_sess (fst (close_session h2 sid)) sid = None) by apply close_session_gone.
  destruct (close_session h2 sid) as [h3 outs]. cbn [fst snd] in *. split; cbn [fst snd].
  - apply (nr_drop_gen ex ex'); [exact B3|]. intros y [Hy| ->]; [now left|now right].
  - apply qouts_cons; [intros; discriminate|exact Q3].
Qed.
#[export] Hint Resolve nr_close_conn : nrdb.

Lemma nr_send_conn ex h0 h c m : rmsg m = false -> NR ex h0 h -> nres ex h0 (send_conn h c m).
Proof. intros Hm B. unfold send_conn. ngo. Qed.
#[export] Hint Resolve nr_send_conn : nrdb.

Lemma nr_send_irr ex h0 h x m : rmsg m = false -> NR ex h0 h -> nres ex h0 (send_session h x m).
Proof.
  intros Hm B. unfold send_session.
  pose proof (nr_deliver_irr ex h0 h (match get_sess h x with
                | Some s => match s_kind s with KVirtual p _ => p | _ => x end | None => x end) m Hm B) as [B1 Q1].
  destruct (deliver_to_session h _ m) as [h1 outs]. cbn [fst snd] in *.
  destruct outs as [|o outs]; [split; assumption|]. destruct o; try (split; assumption).
  destruct outs; [|split; assumption]. destruct (is_closing h1 c m0); [|split; assumption].
  pose proof (nr_close_conn ex h0 h1 c B1) as [B2 Q2]. destruct (close_conn h1 c) as [h2 outs2]. cbn [fst snd] in *.
  split; cbn [fst snd]; [exact B2|now apply qouts_app].
Qed.
#[export] Hint Resolve nr_send_irr : nrdb.

Lemma nr_kick ex h0 h rs : NR ex h0 h -> nres ex h0 (kick_room_session h rs).
Proof.
  intros B. unfold kick_room_session. destruct (aget (h_rs2 h) rs) as [sid'|]; [|split; [exact B|apply qouts_nil]].
  destruct (get_sess h sid') as [s'|] eqn:Hs; [|split; cbn [fst snd]; [nrs|apply qouts_nil]].
  set (ex' := fun y => ex y \/ y = sid').
  assert (B' : NR ex' h0 h) by (eapply nr_weaken; [|exact B]; intros y Hy; now left).
  pose proof (nr_leave_room ex' h0 h sid' false (or_introl (or_intror eq_refl)) B') as [B1 Q1].
  destruct (leave_room h sid' false) as [h1 outs1]. cbn [fst snd] in *.
  assert (H2 : nres ex' h0 (match s_kind s', s_conn s' with
                            | KVirtual _ _, _ => (h1, [])
                            | _, Some c' => send_conn h1 c' (SBye B_room_session_reconnected)
                            | _, None => (h1, []) end)).
  { destruct (s_kind s'); destruct (s_conn s'); try (split; [exact B1|apply qouts_nil]); apply nr_send_conn; auto. }
  destruct H2 as [B2 Q2].
  destruct (match s_kind s', s_conn s' with
            | KVirtual _ _, _ => (h1, [])
            | _, Some c' => send_conn h1 c' (SBye B_room_session_reconnected)
            | _, None => (h1, []) end) as [h2 outs2]. cbn [fst snd] in *.
  pose proof (nr_close_session ex' h0 h2 sid' B2) as [B3 Q3].
  assert (D : get_sess (fst (close_session h2 sid')) sid' = None) by apply close_session_gone.
  destruct (close_session h2 sid') as [h3 outs3]. cbn [fst snd] in *. split; cbn [fst snd].
  - apply (nr_drop_gen ex ex'); [exact B3|]. intros y [Hy| ->]; [now left|now right].
  - repeat apply qouts_app; assumption.
Qed.
#[export] Hint Resolve nr_kick : nrdb.

Lemma nr_fold_sessions ex h0 l f : forall h,
  (forall hh x, NR ex h0 hh -> nres ex h0 (f hh x)) -> NR ex h0 h -> nres ex h0 (fold_sessions h l f).
Proof.
  induction l as [|x l IH]; intros h Hf B; [split; [exact B|apply qouts_nil]|].
  rewrite fold_sessions_cons.
  pose proof (Hf h x B) as [B1 S1]. destruct (f h x) as [h1 o1]. cbn [fst snd] in *.
  pose proof (IH h1 Hf B1) as [B2 S2]. destruct (fold_sessions h1 l f) as [h2 o2]. cbn [fst snd] in *.
  split; [exact B2|now apply qouts_app].
Qed.
Lemma nr_fold_sessions' ex h0 l f h :
  NR ex h0 h -> (forall hh x, NR ex h0 hh -> nres ex h0 (f hh x)) -> nres ex h0 (fold_sessions h l f).
Proof. intros B Hf. now apply nr_fold_sessions. Qed.
Ltac nfolds := apply nr_fold_sessions'; [nrs | cbv beta; intros; ngo].
#[export] Hint Extern 2 (nres _ _ (fold_sessions _ _ _)) => nfolds : nrdb.
