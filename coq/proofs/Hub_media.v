(* Media objects (C09): what happens when a creation at the media server completes, and what
   releasing does. *)
From Coq Require Import List NArith Bool Lia.
From Verif Require Import model.Hub proofs.Hub_basics.
Import ListNotations.
Open Scope N_scope.

(* a creation that completes after the owner released its media objects (left the room or the call,
   was closed) is closed again and stored nowhere *)
Lemma late_creation_is_closed h tok p s :
  get_sess h p.(mp_owner) = Some s -> s.(s_rel) <> p.(mp_rel) ->
  let '(h', outs) := finish_create h tok p true in
  In (ToMcu (MClose tok)) outs /\ h_mcuopen h' = h_mcuopen h /\
  (forall x, option_map (fun t => (t.(s_pubs), t.(s_subs))) (get_sess h' x) = option_map (fun t => (t.(s_pubs), t.(s_subs))) (get_sess h x)).
Proof.
  intros Hs Hrel. unfold finish_create. cbn [negb]. rewrite Hs.
  destruct (N.eqb_spec (s_rel s) (mp_rel p)); [contradiction|]. cbn [negb].
  destruct (send_session h (mp_errto p) (SError E_client_not_found)) as [h1 o1] eqn:H1.
  split; [right; now left|].
  (* the error reply only touches the pending queue of the requester *)
  unfold send_session in H1.
  match type of H1 with context [deliver_to_session h ?t ?m] => set (tg := t) in *; set (mm := m) in * end.
  unfold deliver_to_session in H1. destruct (get_sess h tg) as [st|] eqn:Hst.
  - cbn in H1. destruct (s_conn st) as [c|] eqn:Hc.
    + cbn in H1. injection H1 as <- <-. split; [reflexivity|]. intros x. unfold get_sess, put_sess in *. hsimpl. rewrite aget_aset.
      destruct (N.eqb_spec x tg) as [->|]; [rewrite Hst; reflexivity|reflexivity].
    + cbn in H1. injection H1 as <- <-. split; [reflexivity|]. intros x. unfold get_sess, put_sess in *. hsimpl. rewrite aget_aset.
      destruct (N.eqb_spec x tg) as [->|]; [rewrite Hst; reflexivity|reflexivity].
  - cbn in H1. injection H1 as <- <-. split; reflexivity.
Qed.

(* a creation for a session that is gone fails (its context is cancelled) and opens nothing *)
Lemma creation_for_dead_session_fails h tok p :
  get_sess h p.(mp_owner) = None -> finish_create h tok p true = (h, [ToMcu (MFailed tok)]).
Proof. intros Hn. unfold finish_create. cbn [negb]. now rewrite Hn. Qed.

(* at most one publisher per session and stream: when the slot is taken, the new object is the one
   that is closed *)
Lemma duplicate_publisher_closed h tok p s tok0 :
  get_sess h p.(mp_owner) = Some s -> s.(s_rel) = p.(mp_rel) -> p.(mp_kind) = 0 ->
  offer_allowed s.(s_perms) p.(mp_stream) (N.land p.(mp_media) 3) = true ->
  aget s.(s_pubs) p.(mp_stream) = Some tok0 ->
  In (ToMcu (MClose tok)) (snd (finish_create h tok p true)) /\
  h_mcuopen (fst (finish_create h tok p true)) = h_mcuopen h.
Proof.
  intros Hs Hrel Hk Hoff Hp. unfold finish_create. cbn [negb]. rewrite Hs, Hrel, N.eqb_refl, Hk, Hoff, Hp. cbn [negb andb N.eqb].
  destruct (N.eqb (mp_reply p) 1).
  - destruct (send_session h (mp_owner p) (SMedia 1 (mp_owner p))) as [h1 o1] eqn:H1. cbn [fst snd]. split; [right; now left|].
    unfold send_session in H1. rewrite Hs in H1.
    match type of H1 with context [deliver_to_session h ?t ?m] => set (tg := t) in * end.
    unfold deliver_to_session in H1. destruct (get_sess h tg) as [st|].
    + cbn in H1. destruct (s_conn st); cbn in H1; injection H1 as <- <-; reflexivity.
    + cbn in H1. injection H1 as <- <-. reflexivity.
  - cbn [fst snd]. split; [right; now left|reflexivity].
Qed.

(* releasing (leaving the room or the call, closing) closes every open object of the session and
   empties its tables *)
Lemma release_closes_everything h sid s :
  get_sess h sid = Some s ->
  let '(h', outs) := release_mcu h sid in
  (forall tok, In tok (map snd s.(s_pubs) ++ map snd s.(s_subs)) -> In tok h.(h_mcuopen) -> In (ToMcu (MClose tok)) outs) /\
  (forall tok, In tok (map snd s.(s_pubs) ++ map snd s.(s_subs)) -> ~ In tok h'.(h_mcuopen)) /\
  (exists s', get_sess h' sid = Some s' /\ s'.(s_pubs) = [] /\ s'.(s_subs) = [] /\ s'.(s_rel) = s.(s_rel) + 1).
Proof.
  intros Hs. unfold release_mcu. rewrite Hs. unfold close_tokens. cbn [fst snd]. split; [|split].
  - intros tok Hin Hopen. apply in_map_iff. exists tok. split; [reflexivity|]. apply filter_In. split; [assumption|].
    unfold put_sess. hsimpl. now apply nmem_In.
  - intros tok Hin. hsimpl. clear Hs.
    generalize (h_mcuopen h). induction (map snd (s_pubs s) ++ map snd (s_subs s)) as [|t l IH]; [destruct Hin|].
    intros opn. cbn [fold_left]. destruct Hin as [->|Hin]; [|now apply IH].
    assert (G : forall l0 acc, ~ In tok acc -> ~ In tok (fold_left (fun a t0 => nrem t0 a) l0 acc)).
    { induction l0 as [|t0 l0 IH0]; intros acc Hacc; cbn; [assumption|]. apply IH0. intros Hx. apply Hacc.
      apply nmem_In in Hx. rewrite nmem_nrem in Hx. apply andb_prop in Hx as [_ Hx]. now apply nmem_In. }
    apply G. intros Hx. apply nmem_In in Hx. rewrite nmem_nrem, N.eqb_refl in Hx. discriminate.
  - eexists. split; [unfold get_sess, put_sess; hsimpl; apply aget_aset_same|]. repeat split.
Qed.
