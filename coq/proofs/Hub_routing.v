(* C05, composed: what one message / control message op does in the quiescent semantics, over the
   whole listener list, equals the reference routing of corr/Hub_preds.v (route_spec, step_C05).

   For every state h with WF h (Hub_wf.v), RI h (Hub_routing_inv.v; both hold in every reachable state)
   and an empty bus queue, and o = op_of ctl c to tag (OMsg c to tag / OCtl c to tag):
     route_core            do_message followed by the drain, for every recipient kind: outputs, queues, tables;
     msg_outputs           the outputs of qstep h o are, in order, exactly one ToConn per addressed session
                           that has a connection, carrying the sender block (sid, user) of the session of c
                           and the rewritten recipient for a virtual target: the list the reference computes;
     msg_step_C05          hence step_C05 (digest_of h) o (obs_of_outs outs) = true
                           (all_msgs_obs_perm: what the harness records per connection is a permutation of
                           what was written to connections; mset_eqb_perm: its multiset comparison);
     msg_not_to_sender     nothing to c itself, except the copy for a virtual session of the sender;
     msg_same_backend      nothing to a connection of a session of another backend;
     msg_queues            addressed sessions without a connection get it appended (enqueue), nobody else;
     msg_tables_unchanged  nothing else changes (erase_h; pq_tables), the bus queue is empty again;
   and the lift to histories: C05_every_history (P_hub 5 on the model's own trace is None),
   C05_every_step (all of the above at every message op of a history).
   The bus queue is NOT empty after every quiescent step: drain has fuel 500
   (bus_empty_after_qstep_refuted; qstep_bus_empty: it is when 500 deliveries suffice), and a history in
   which a message op starts with a publication still queued breaks the property
   (history_needs_empty_bus_refuted): the history theorems assume `quiet`. *)
From Coq Require Import List NArith ZArith Bool Lia Permutation.
From Verif Require Import model.Hub proofs.Hub_basics proofs.Hub_wf proofs.Hub_routing_inv.
From Verif Require Import corr.Hub_preds proofs.Hub_refuted.
Import ListNotations.
Open Scope N_scope.

(* ------------------------------------------------------------------ lists *)
Lemma flat_map_filter {A B} (f : A -> bool) (g : A -> list B) (l : list A) :
  flat_map g (filter f l) = flat_map (fun x => if f x then g x else []) l.
Proof. induction l as [|x l IH]; cbn; [reflexivity|]. destruct (f x); cbn; now rewrite IH. Qed.
Lemma flat_map_map {A B C} (f : A -> B) (g : B -> list C) (l : list A) :
  flat_map g (map f l) = flat_map (fun x => g (f x)) l.
Proof. induction l as [|x l IH]; cbn; [reflexivity|]. now rewrite IH. Qed.
Lemma filter_map_comm {A B} (f : A -> B) (p : B -> bool) (l : list A) :
  filter p (map f l) = map f (filter (fun x => p (f x)) l).
Proof. induction l as [|x l IH]; cbn; [reflexivity|]. destruct (p (f x)); cbn; now rewrite IH. Qed.
Lemma find_map {A B} (f : A -> B) (p : B -> bool) (l : list A) :
  find p (map f l) = option_map f (find (fun x => p (f x)) l).
Proof. induction l as [|x l IH]; cbn; [reflexivity|]. destruct (p (f x)); [reflexivity|exact IH]. Qed.
Lemma filter_all {A} (p : A -> bool) (l : list A) : (forall x, In x l -> p x = true) -> filter p l = l.
Proof.
  induction l as [|x l IH]; cbn; intros H; [reflexivity|]. rewrite (H x (or_introl eq_refl)). f_equal. apply IH. intros y Hy. apply H. now right.
Qed.
Lemma filter_none {A} (p : A -> bool) (l : list A) : (forall x, In x l -> p x = false) -> filter p l = [].
Proof.
  induction l as [|x l IH]; cbn; intros H; [reflexivity|]. rewrite (H x (or_introl eq_refl)). apply IH. intros y Hy. apply H. now right.
Qed.
Lemma filter_split_perm {A} (p : A -> bool) (l : list A) :
  Permutation l (filter p l ++ filter (fun x => negb (p x)) l).
Proof.
  induction l as [|x l IH]; cbn; [constructor|]. destruct (p x); cbn.
  - now constructor.
  - eapply perm_trans; [apply perm_skip, IH|]. apply Permutation_middle.
Qed.
Lemma filter_filter_and {A} (p q : A -> bool) (l : list A) : filter p (filter q l) = filter (fun x => p x && q x) l.
Proof. induction l as [|x l IH]; cbn; [reflexivity|]. destruct (q x); cbn; [destruct (p x); cbn; now rewrite IH|now rewrite andb_false_r]. Qed.
Lemma filter_ext_in' {A} (p q : A -> bool) (l : list A) : (forall x, In x l -> p x = q x) -> filter p l = filter q l.
Proof.
  induction l as [|x l IH]; cbn; intros H; [reflexivity|]. rewrite (H x (or_introl eq_refl)).
  rewrite IH; [reflexivity|]. intros y Hy. apply H. now right.
Qed.
Lemma flat_map_ext_in' {A B} (f g : A -> list B) (l : list A) : (forall x, In x l -> f x = g x) -> flat_map f l = flat_map g l.
Proof.
  induction l as [|x l IH]; cbn; intros H; [reflexivity|]. rewrite (H x (or_introl eq_refl)).
  rewrite IH; [reflexivity|]. intros y Hy. apply H. now right.
Qed.
Lemma NoDup_map_filter {A B} (g : A -> B) (f : A -> bool) (l : list A) : NoDup (map g l) -> NoDup (map g (filter f l)).
Proof.
  induction l as [|x l IH]; cbn; intros H; [constructor|]. inversion H as [|a b Hn Hr]; subst.
  destruct (f x); cbn; [|now apply IH]. constructor; [|now apply IH].
  intros Hi. apply Hn. apply in_map_iff in Hi as [y [Hy Hi]]. apply filter_In in Hi as [Hi _]. apply in_map_iff. eauto.
Qed.

(* grouping a keyed list by its keys (each once) is a permutation of it *)
Lemma group_perm {B} (L : list (N * B)) : forall D, NoDup D -> (forall e, In e L -> In (fst e) D) ->
  Permutation (flat_map (fun c => filter (fun e => N.eqb (fst e) c) L) D) L.
Proof.
  intros D. revert L. induction D as [|c D IH]; intros L Hnd Hin; cbn.
  - destruct L as [|e L]; [constructor|]. destruct (Hin e (or_introl eq_refl)).
  - inversion Hnd as [|a b Hc Hd]; subst.
    eapply perm_trans; [|apply Permutation_sym, (filter_split_perm (fun e => N.eqb (fst e) c))].
    apply Permutation_app_head.
    rewrite (flat_map_ext_in' _ (fun c' => filter (fun e => N.eqb (fst e) c') (filter (fun e => negb (N.eqb (fst e) c)) L))).
    + apply IH; [exact Hd|]. intros e He. apply filter_In in He as [He Hne].
      destruct (Hin e He) as [E|E]; [|exact E]. rewrite E, N.eqb_refl in Hne. discriminate.
    + intros c' Hc'. rewrite filter_filter_and. apply filter_ext_in'. intros e _.
      destruct (N.eqb_spec (fst e) c') as [E|]; [|reflexivity]. cbn.
      destruct (N.eqb_spec (fst e) c) as [E2|]; [|reflexivity]. exfalso. apply Hc. congruence.
Qed.

Lemma dedupN_spec l : NoDup (dedupN l) /\ forall x, In x (dedupN l) <-> In x l.
Proof.
  unfold dedupN.
  assert (G : forall acc, NoDup acc -> NoDup (fold_left (fun acc x => nadd x acc) l acc) /\
             forall x, In x (fold_left (fun acc x => nadd x acc) l acc) <-> In x acc \/ In x l).
  { induction l as [|y l IH]; intros acc Ha; cbn [fold_left]; [split; [exact Ha|intros x; cbn; tauto]|].
    assert (Hn : NoDup (nadd y acc)).
    { unfold nadd. destruct (nmem y acc) eqn:Hy; [exact Ha|]. apply nodup_app_single; [exact Ha|].
      intros Hi. apply nmem_In in Hi. congruence. }
    destruct (IH _ Hn) as [A B]. split; [exact A|]. intros x. rewrite B. cbn.
    rewrite <- !nmem_In, nmem_nadd, orb_true_iff, N.eqb_eq. rewrite !nmem_In. intuition. }
  destruct (G [] (NoDup_nil _)) as [A B]. split; [exact A|]. intros x. rewrite B. cbn. tauto.
Qed.

(* ------------------------------------------------------------------ multisets as Hub_preds compares them *)
Lemma remove_first_perm {A} (eq : A -> A -> bool) x (b : list A) :
  (forall y, eq x y = true -> x = y) -> eq x x = true -> In x b ->
  exists b', remove_first eq x b = Some b' /\ Permutation b (x :: b').
Proof.
  intros Hs Hr. induction b as [|y b IH]; cbn; [tauto|]. intros Hin.
  destruct (eq x y) eqn:E.
  - rewrite <- (Hs y E). exists b. split; [reflexivity|apply Permutation_refl].
  - destruct Hin as [->|Hin]; [congruence|]. destruct (IH Hin) as (b' & Hb & Hp). rewrite Hb.
    exists (y :: b'). split; [reflexivity|]. eapply perm_trans; [apply perm_skip, Hp|apply perm_swap].
Qed.
Lemma mset_eqb_perm {A} (eq : A -> A -> bool) (a : list A) : forall b,
  (forall x, In x a -> eq x x = true /\ forall y, eq x y = true -> x = y) ->
  Permutation a b -> mset_eqb eq a b = true.
Proof.
  induction a as [|x a IH]; intros b Hs Hp; cbn.
  - apply Permutation_nil in Hp. now subst.
  - destruct (Hs x (or_introl eq_refl)) as [Hr Hso].
    destruct (remove_first_perm eq x b Hso Hr) as (b' & Hb & Hp'); [eapply Permutation_in; [exact Hp|now left]|].
    rewrite Hb. apply IH; [intros y Hy; apply Hs; now right|].
    eapply Permutation_cons_inv. eapply perm_trans; [exact Hp|exact Hp'].
Qed.

(* ------------------------------------------------------------------ observations of a list of outputs *)
Definition conn_msgs (outs : list out) : list (N * smsg) :=
  flat_map (fun o => match o with ToConn c m => [(c, m)] | _ => [] end) outs.
Definition outs_of (l : list (N * smsg)) : list out := map (fun e => ToConn (fst e) (snd e)) l.

Lemma conn_msgs_outs_of l : conn_msgs (outs_of l) = l.
Proof.
  induction l as [|[c m] l IH]; [reflexivity|].
  change (conn_msgs (outs_of ((c, m) :: l))) with ((c, m) :: conn_msgs (outs_of l)). now rewrite IH.
Qed.
Lemma conn_msgs_app a b : conn_msgs (a ++ b) = conn_msgs a ++ conn_msgs b.
Proof. unfold conn_msgs. apply flat_map_app. Qed.

(* what the harness records per connection is, taken together, what was written to connections *)
Lemma all_msgs_obs_perm outs : Permutation (all_msgs (obs_of_outs outs)) (conn_msgs outs).
Proof.
  unfold all_msgs, obs_of_outs. cbn [o_recv]. rewrite flat_map_map. cbn [fst snd].
  destruct (dedupN_spec (conns_of outs)) as [Hnd Hin].
  rewrite (flat_map_ext_in' _ (fun c => filter (fun e => N.eqb (fst e) c) (conn_msgs outs))).
  - apply group_perm; [exact Hnd|]. intros e He. apply Hin. unfold conn_msgs in He. apply in_flat_map in He as [o [Ho He]].
    unfold conns_of. apply in_flat_map. exists o. split; [exact Ho|]. destruct o as [c' m| | |]; cbn in He; try contradiction. destruct He as [<-|[]]. now left.
  - intros c _. clear Hnd Hin. unfold raw_msgs_for, conn_msgs. induction outs as [|o outs IH]; cbn; [reflexivity|].
    rewrite map_app, filter_app, IH. f_equal. destruct o as [c' m| | |]; cbn; try reflexivity.
    rewrite (N.eqb_sym c' c). destruct (N.eqb_spec c c') as [->|]; reflexivity.
Qed.

(* ------------------------------------------------------------------ the digest of a model state, read back *)
Lemma stype_n_of to : stype_n to = stype_of to.
Proof. destruct to; reflexivity. Qed.
Lemma is_virtual_d_sd h x s : is_virtual_d (sd_of h (x, s)) = is_virtual (s_kind s).
Proof. unfold is_virtual_d. cbn [sd_of d_kind]. destruct (s_kind s); reflexivity. Qed.
Lemma is_internal_d_sd h x s : is_internal_d (sd_of h (x, s)) = is_internal (s_kind s).
Proof. unfold is_internal_d. cbn [sd_of d_kind]. destruct (s_kind s); reflexivity. Qed.
Lemma d_user_sd h x s : is_virtual (s_kind s) = false -> d_user (sd_of h (x, s)) = sess_userid h x s.
Proof. cbn [sd_of d_user]. destruct (s_kind s); [reflexivity|reflexivity|discriminate]. Qed.
Lemma d_authuser_sd h x s : is_virtual (s_kind s) = false -> d_authuser (sd_of h (x, s)) = s_user s.
Proof. cbn [sd_of d_authuser]. destruct (s_kind s); [reflexivity|reflexivity|discriminate]. Qed.
Lemma control_allowed_sd h x s : control_allowed (sd_of h (x, s)) = allowed_control s.
Proof.
  unfold control_allowed, allowed_control, perm_d, sess_has_perm. rewrite is_internal_d_sd, is_virtual_d_sd.
  cbn [sd_of d_perms]. destruct (s_kind s); cbn [is_internal is_virtual orb]; try reflexivity.
Qed.

Lemma find_sd_digest h n : find_sd (digest_of h) n = option_map (fun t => sd_of h (n, t)) (get_sess h n).
Proof.
  unfold find_sd, digest_of, get_sess. cbn [g_sessions]. rewrite find_map.
  induction (h_sessions h) as [|[k t] l IH]; [reflexivity|].
  cbn [find aget]. change (d_sid (sd_of h (k, t))) with k. rewrite (N.eqb_sym k n).
  destruct (N.eqb_spec n k) as [->|]; [reflexivity|exact IH].
Qed.

Lemma get_in h x t : NoDup (skeys h) -> In (x, t) (h_sessions h) -> get_sess h x = Some t.
Proof. intros K Hin. unfold get_sess. now apply aget_in. Qed.

(* the session the reference finds on a connection is the one the model finds *)
Lemma sd_of_conn_digest h c : WF h -> RI h ->
  sd_of_conn (digest_of h) c =
  match aget (h_conns h) c with
  | Some cn => match c_sess cn with
               | Some sid => option_map (fun s => sd_of h (sid, s)) (get_sess h sid)
               | None => None end
  | None => None
  end.
Proof.
  intros W I. unfold sd_of_conn, digest_of. cbn [g_sessions]. rewrite find_map.
  destruct (find (fun x => optN_eqb (d_conn (sd_of h x)) (Some c)) (h_sessions h)) as [[y sy]|] eqn:Hf.
  - apply find_some in Hf as [Hin Hc]. cbn [sd_of d_conn] in Hc.
    assert (Hcy : s_conn sy = Some c).
    { destruct (s_conn sy) as [c0|]; [|discriminate]. cbn in Hc. apply N.eqb_eq in Hc. now subst. }
    pose proof (get_in h y sy (ri_keys _ _ I) Hin) as Hy.
    destruct (ri_conn _ _ I y sy c Hy Hcy) as (cn & Hcn & Hl). rewrite Hcn, Hl, Hy. reflexivity.
  - destruct (aget (h_conns h) c) as [cn|] eqn:Hcn; [|reflexivity].
    destruct (c_sess cn) as [sid|] eqn:Hl; [|reflexivity].
    destruct (wf_conns _ _ h W c cn sid Hcn Hl) as (s & Hs & Hc). exfalso.
    pose proof (find_none _ _ Hf (sid, s) (aget_In _ _ _ Hs)) as Hn. cbn [sd_of d_conn] in Hn. rewrite Hc in Hn.
    cbn in Hn. now rewrite N.eqb_refl in Hn.
Qed.

Lemma pget_In {V} (l : list ((N * N) * V)) k v : pget l k = Some v -> In (k, v) l.
Proof.
  induction l as [|[k' v'] r IH]; cbn; [discriminate|].
  destruct (pair_eqb_spec k k') as [->|]; [intros H; injection H as ->; now left|right; auto].
Qed.

(* the table entry the reference finds for a virtual session is the one of its kind *)
Lemma find_vt_digest h n t p v : WF h -> RI h -> get_sess h n = Some t -> s_kind t = KVirtual p v ->
  find (fun e : N * N * N => let '(_, _, x) := e in N.eqb x n) (g_vt (digest_of h)) = Some (p, v, n).
Proof.
  intros W I Ht Hk. unfold digest_of. cbn [g_vt]. rewrite find_map.
  destruct (ri_vt _ _ I n t p v Ht Hk) as [[]|Hp].
  destruct (find (fun x : N * N * N => let '(_, _, x0) := (fst (fst x), snd (fst x), snd x) in N.eqb x0 n) (h_vtable h)) as [[[p' v'] n']|] eqn:Hf.
  - apply find_some in Hf as [Hin Hn]. cbn in Hn. apply N.eqb_eq in Hn. subst n'.
    pose proof (pget_in _ _ _ (ri_vkeys _ _ I) Hin) as Hp'.
    destruct (wf_vt _ _ h W p' v' n Hp') as (t' & Ht' & Hk'). rewrite Ht in Ht'. injection Ht' as <-.
    rewrite Hk in Hk'. injection Hk' as <- <-. reflexivity.
  - exfalso. pose proof (find_none _ _ Hf ((p, v), n) (pget_In _ _ _ Hp)) as Hn. cbn in Hn. now rewrite N.eqb_refl in Hn.
Qed.

(* filters over keyed tables without a key twice *)
Lemma find_keyed {V R} (l : alist V) (P : N * V -> bool) (r : R) y : NoDup (map fst l) ->
  find (fun e => N.eqb (fst e) y) (map (fun e => (fst e, r)) (filter P l)) =
  match aget l y with Some t => if P (y, t) then Some (y, r) else None | None => None end.
Proof.
  induction l as [|[k v] l IH]; intros Hnd; [reflexivity|]. inversion Hnd as [|a b Hk Hl]; subst.
  cbn [filter aget]. destruct (N.eqb_spec y k) as [->|Hne].
  - destruct (P (k, v)); cbn [map find fst]; [now rewrite N.eqb_refl|].
    rewrite (IH Hl). destruct (aget l k) as [t|] eqn:Hg; [|reflexivity].
    exfalso. apply Hk. apply in_map_iff. exists (k, t). split; [reflexivity|now apply aget_In].
  - destruct (P (k, v)); cbn [map find fst]; [|now apply IH].
    destruct (N.eqb_spec k y); [congruence|now apply IH].
Qed.
Lemma existsb_keyed {V} (l : alist V) (P : N * V -> bool) y : NoDup (map fst l) ->
  existsb (N.eqb y) (map fst (filter P l)) = match aget l y with Some t => P (y, t) | None => false end.
Proof.
  induction l as [|[k v] l IH]; intros Hnd; [reflexivity|]. inversion Hnd as [|a b Hk Hl]; subst.
  cbn [filter aget]. destruct (N.eqb_spec y k) as [->|Hne].
  - destruct (P (k, v)); cbn [map existsb fst]; [now rewrite N.eqb_refl|].
    rewrite (IH Hl). destruct (aget l k) as [t|] eqn:Hg; [|reflexivity].
    exfalso. apply Hk. apply in_map_iff. exists (k, t). split; [reflexivity|now apply aget_In].
  - destruct (P (k, v)); cbn [map existsb fst]; [|now apply IH].
    destruct (N.eqb_spec y k); [congruence|now apply IH].
Qed.

(* ------------------------------------------------------------------ states that differ in pending queues, clock and bus only *)
Definition erase (s : session) : session := sess_pending s [].
Definition blank_l (l : alist session) : alist session := map (fun e => (fst e, erase (snd e))) l.
(* the state with every pending queue emptied, the bus queue emptied and the clock reset *)
Definition erase_h (h : hub) : hub := set_clock (set_bus (set_sessions h (blank_l (h_sessions h))) []) 0.
Definition pq (h hh : hub) : Prop := erase_h hh = erase_h h.

Lemma aget_blank l k : aget (blank_l l) k = option_map erase (aget l k).
Proof. induction l as [|[k' v] l IH]; cbn; [reflexivity|]. destruct (N.eqb k k'); [reflexivity|exact IH]. Qed.
Lemma blank_aset l x t t' : aget l x = Some t -> erase t' = erase t -> blank_l (aset l x t') = blank_l l.
Proof.
  unfold blank_l. induction l as [|[k v] l IH]; cbn; [discriminate|]. destruct (N.eqb_spec x k) as [->|Hne]; intros H E; cbn.
  - injection H as ->. now rewrite E.
  - now rewrite IH.
Qed.
Lemma keys_blank l : map fst (blank_l l) = map fst l.
Proof. unfold blank_l. rewrite map_map. reflexivity. Qed.

Lemma pq_refl h : pq h h. Proof. reflexivity. Qed.
Lemma pq_sessions h hh : pq h hh -> blank_l (h_sessions hh) = blank_l (h_sessions h).
Proof. intros E. apply (f_equal h_sessions) in E. exact E. Qed.
Lemma pq_rooms h hh : pq h hh -> h_rooms hh = h_rooms h.
Proof. intros E. apply (f_equal h_rooms) in E. exact E. Qed.
Lemma pq_keys h hh : pq h hh -> skeys hh = skeys h.
Proof. intros E. unfold skeys. rewrite <- (keys_blank (h_sessions hh)), <- (keys_blank (h_sessions h)). now rewrite (pq_sessions _ _ E). Qed.
Lemma pq_get h hh x : pq h hh -> option_map erase (get_sess hh x) = option_map erase (get_sess h x).
Proof. intros E. unfold get_sess. rewrite <- !aget_blank. now rewrite (pq_sessions _ _ E). Qed.
Lemma pq_get_some h hh x t : pq h hh -> get_sess h x = Some t -> exists t', get_sess hh x = Some t' /\ erase t' = erase t.
Proof.
  intros E Ht. pose proof (pq_get h hh x E) as G. rewrite Ht in G. destruct (get_sess hh x) as [t'|]; [|discriminate].
  exists t'. split; [reflexivity|]. cbn [option_map] in G. congruence.
Qed.
Lemma pq_get_none h hh x : pq h hh -> get_sess h x = None -> get_sess hh x = None.
Proof. intros E Ht. pose proof (pq_get h hh x E) as G. rewrite Ht in G. destruct (get_sess hh x); [discriminate|reflexivity]. Qed.
Lemma pq_put h hh x t t' : pq h hh -> get_sess hh x = Some t -> erase t' = erase t -> pq h (put_sess hh x t').
Proof.
  unfold pq, erase_h. intros E Ht Et. cbn [h_sessions put_sess set_sessions]. rewrite (blank_aset _ x t t' Ht Et). exact E.
Qed.
Lemma pq_trans h1 h2 h3 : pq h1 h2 -> pq h2 h3 -> pq h1 h3.
Proof. unfold pq. congruence. Qed.

Lemma erase_conn t t' : erase t' = erase t -> s_conn t' = s_conn t.
Proof. intros E. apply (f_equal s_conn) in E. exact E. Qed.
Lemma erase_room t t' : erase t' = erase t -> s_room t' = s_room t.
Proof. intros E. apply (f_equal s_room) in E. exact E. Qed.
Lemma erase_kind t t' : erase t' = erase t -> s_kind t' = s_kind t.
Proof. intros E. apply (f_equal s_kind) in E. exact E. Qed.

Lemma pq_in_call h hh x t t' : pq h hh -> erase t' = erase t -> in_call hh x t' = in_call h x t.
Proof. intros E Et. unfold in_call, room_of. now rewrite (erase_room _ _ Et), (pq_rooms _ _ E). Qed.

(* ------------------------------------------------------------------ one listener *)
Definition is_msg (m : smsg) : bool := match m with SMsg _ _ _ _ _ _ => true | _ => false end.
Definition pend (h : hub) (x : N) : list smsg := match get_sess h x with Some t => s_pending t | None => [] end.
Definition disc (h : hub) (x : N) : bool :=
  match get_sess h x with Some t => match s_conn t with None => true | Some _ => false end | None => false end.
Definition out_for (h : hub) (m : smsg) (x : N) : list out :=
  match get_sess h x with Some t => match s_conn t with Some c' => [ToConn c' m] | None => [] end | None => [] end.
(* the listener's filters: not the sender; for the call only when in the call *)
Definition accepts (h : hub) (sender : N) (co : bool) (x : N) : bool :=
  match get_sess h x with Some t => negb (N.eqb sender x) && (negb co || in_call h x t) | None => false end.

Lemma send_msg hh x t m : is_msg m = true -> get_sess hh x = Some t -> is_virtual (s_kind t) = false ->
  send_session hh x m =
  match s_conn t with
  | Some c' => (put_sess hh x t, [ToConn c' m])
  | None => (put_sess hh x (sess_pending t (enqueue (s_pending t) m)), [])
  end.
Proof.
  intros Hm Ht Hv. destruct m; try discriminate. unfold send_session. rewrite Ht.
  assert (Hk : match s_kind t with KVirtual p _ => p | _ => x end = x) by (destruct (s_kind t); try reflexivity; discriminate).
  rewrite Hk. unfold deliver_to_session. rewrite Ht. destruct (s_conn t); reflexivity.
Qed.

Lemma send_msg_pq h hh x t m : is_msg m = true -> pq h hh -> get_sess h x = Some t -> is_virtual (s_kind t) = false ->
  exists hh1, send_session hh x m = (hh1, out_for h m x) /\ pq h hh1 /\ h_bus hh1 = h_bus hh /\ h_clock hh1 = h_clock hh /\
    forall y, pend hh1 y = if N.eqb y x && disc h x then enqueue (pend hh y) m else pend hh y.
Proof.
  intros Hm E Ht Hv. destruct (pq_get_some h hh x t E Ht) as (t' & Ht' & Et).
  rewrite (send_msg hh x t' m Hm Ht') by (now rewrite (erase_kind _ _ Et)).
  unfold out_for, disc. rewrite Ht, (erase_conn _ _ Et).
  destruct (s_conn t) as [c'|]; eexists; (split; [reflexivity|]); (split; [eapply pq_put; eauto|]);
    (split; [reflexivity|]); (split; [reflexivity|]); intros y; unfold pend; rewrite get_put;
    destruct (N.eqb_spec y x) as [->|]; cbn [andb]; try reflexivity.
  - now rewrite Ht'.
  - now rewrite Ht'.
Qed.

Lemma recv_msg h hh x t m sender co tm :
  is_msg m = true -> pq h hh -> get_sess h x = Some t -> is_virtual (s_kind t) = false -> sender <> 0 ->
  exists hh1, recv_event hh x m sender co false tm = (hh1, if accepts h sender co x then out_for h m x else []) /\
    pq h hh1 /\ h_bus hh1 = h_bus hh /\ h_clock hh1 = h_clock hh /\
    forall y, pend hh1 y = if N.eqb y x && accepts h sender co x && disc h x then enqueue (pend hh y) m else pend hh y.
Proof.
  intros Hm E Ht Hv H0. destruct (pq_get_some h hh x t E Ht) as (t' & Ht' & Et).
  unfold recv_event, accepts. rewrite Ht', Ht, (pq_in_call h hh x t t' E Et).
  assert (Hs0 : negb (N.eqb sender 0) = true) by (destruct (N.eqb_spec sender 0); [contradiction|reflexivity]).
  rewrite Hs0, andb_true_r.
  destruct (N.eqb sender x); cbn [negb andb].
  { exists hh. split; [reflexivity|]. split; [exact E|]. split; [reflexivity|]. split; [reflexivity|].
    intros y. now rewrite andb_false_r. }
  destruct co; cbn [negb andb orb].
  - destruct (in_call h x t); cbn [negb].
    + destruct (send_msg_pq h hh x t m Hm E Ht Hv) as (hh1 & A & B & C & D & F). exists hh1.
      split; [exact A|]. split; [exact B|]. split; [exact C|]. split; [exact D|].
      intros y. rewrite F. now rewrite andb_true_r.
    + exists hh. split; [reflexivity|]. split; [exact E|]. split; [reflexivity|]. split; [reflexivity|].
      intros y. now rewrite andb_false_r.
  - destruct (send_msg_pq h hh x t m Hm E Ht Hv) as (hh1 & A & B & C & D & F). exists hh1.
    split; [exact A|]. split; [exact B|]. split; [exact C|]. split; [exact D|].
    intros y. rewrite F. now rewrite andb_true_r.
Qed.

(* ------------------------------------------------------------------ the whole listener list *)
Lemma fold_recv h m sender co tm l : is_msg m = true -> sender <> 0 -> forall hh,
  pq h hh -> NoDup l -> (forall x, In x l -> exists t, get_sess h x = Some t /\ is_virtual (s_kind t) = false) ->
  exists hh', fold_sessions hh l (fun g x => recv_event g x m sender co false tm) =
              (hh', flat_map (fun x => if accepts h sender co x then out_for h m x else []) l) /\
    pq h hh' /\ h_bus hh' = h_bus hh /\ h_clock hh' = h_clock hh /\
    forall y, pend hh' y = if existsb (N.eqb y) l && accepts h sender co y && disc h y then enqueue (pend hh y) m else pend hh y.
Proof.
  intros Hm H0. induction l as [|x l IH]; intros hh E Hnd Hl.
  - exists hh. split; [reflexivity|]. split; [exact E|]. split; [reflexivity|]. split; [reflexivity|]. reflexivity.
  - inversion Hnd as [|a b Hx Hnd']; subst. destruct (Hl x (or_introl eq_refl)) as (t & Ht & Hv).
    destruct (recv_msg h hh x t m sender co tm Hm E Ht Hv H0) as (hh1 & A1 & E1 & B1 & C1 & P1).
    destruct (IH hh1 E1 Hnd' (fun y Hy => Hl y (or_intror Hy))) as (hh' & A2 & E2 & B2 & C2 & P2).
    exists hh'. rewrite fold_sessions_cons, A1, A2. cbn [flat_map]. split; [reflexivity|].
    split; [exact E2|]. split; [congruence|]. split; [congruence|].
    intros y. rewrite P2, P1. cbn [existsb]. destruct (N.eqb_spec y x) as [->|Hne]; cbn [orb andb].
    + assert (Hex : existsb (N.eqb x) l = false).
      { destruct (existsb (N.eqb x) l) eqn:He; [|reflexivity]. apply existsb_exists in He as (z & Hz & Hxz).
        apply N.eqb_eq in Hxz. subst z. contradiction. }
      rewrite Hex. reflexivity.
    + reflexivity.
Qed.

(* ------------------------------------------------------------------ draining one publication *)
Lemma drain_nil f h : h_bus h = [] -> drain f h = (h, []).
Proof. intros Hb. destruct f; cbn [drain]; [reflexivity|]. now rewrite Hb. Qed.
Lemma drain_single f h1 p h2 o2 :
  h_bus h1 = [p] -> deliver_pub (set_bus h1 []) p = (h2, o2) -> h_bus h2 = [] -> drain (S (S f)) h1 = (h2, o2).
Proof.
  intros Hb Hd Hb2. cbn [drain]. rewrite Hb. unfold deliver_at. rewrite Hb. cbn [take_nth]. rewrite Hd, Hb2.
  now rewrite app_nil_r.
Qed.

(* ------------------------------------------------------------------ a publication of a message, drained *)
Lemma publish_fold h subj m sid co L :
  is_msg m = true -> sid <> 0 -> h_bus h = [] ->
  deliver_pub (set_bus (publish h subj (AEvent m sid co)) []) (mkpub subj (AEvent m sid co) (h_clock h)) =
    fold_sessions (set_bus (publish h subj (AEvent m sid co)) []) L (fun g x => recv_event g x m sid co false (h_clock h)) ->
  NoDup L -> (forall x, In x L -> exists t, get_sess h x = Some t /\ is_virtual (s_kind t) = false) ->
  exists h2, drain 500 (publish h subj (AEvent m sid co)) =
             (h2, flat_map (fun x => if accepts h sid co x then out_for h m x else []) L) /\
    pq h h2 /\ h_bus h2 = [] /\ h_clock h2 = h_clock h + 1 /\
    forall y, pend h2 y = if existsb (N.eqb y) L && accepts h sid co y && disc h y then enqueue (pend h y) m else pend h y.
Proof.
  intros Hm H0 Hb Hd Hnd HL.
  set (hB := set_bus (publish h subj (AEvent m sid co)) []) in *.
  assert (EB : pq h hB) by reflexivity.
  destruct (fold_recv h m sid co (h_clock h) L Hm H0 hB EB Hnd HL) as (hh' & A & E & B & C & P).
  exists hh'. split.
  - apply drain_single with (p := mkpub subj (AEvent m sid co) (h_clock h)).
    + unfold publish. cbn [h_bus set_clock set_bus]. now rewrite Hb.
    + fold hB. rewrite Hd. exact A.
    + rewrite B. reflexivity.
  - split; [exact E|]. split; [rewrite B; reflexivity|]. split; [rewrite C; reflexivity|]. exact P.
Qed.

(* ------------------------------------------------------------------ the reference, in the model's terms *)
Definition the_msg (h : hub) (kindn sid : N) (s : session) (to : recipient) (rc : option rcpt) (tag : N) : smsg :=
  SMsg kindn (stype_of to) sid (sess_userid h sid s) rc tag.

(* "expect" of step_C05 *)
Definition ref_copies (pd : digest) (kindn : N) (s : sd) (to : recipient) (tag : N) (targets : list (N * option rcpt)) : list (N * smsg) :=
  flat_map (fun t => let '(r, rc) := t in
              match find_sd pd r with
              | Some x => match x.(d_conn) with
                          | Some c' => [(c', SMsg kindn (stype_n to) s.(d_sid) s.(d_user) rc tag)]
                          | None => [] end
              | None => [] end) targets.

Lemma ref_copies_model h kindn sid s to tag T : is_virtual (s_kind s) = false ->
  outs_of (ref_copies (digest_of h) kindn (sd_of h (sid, s)) to tag T) =
  flat_map (fun e => out_for h (the_msg h kindn sid s to (snd e) tag) (fst e)) T.
Proof.
  intros Hv. unfold ref_copies, outs_of. induction T as [|[r rc] T IH]; [reflexivity|].
  cbn [flat_map]. rewrite map_app, IH. f_equal. cbn [fst snd].
  rewrite find_sd_digest, (d_user_sd h sid s Hv), stype_n_of. unfold out_for.
  destruct (get_sess h r) as [t|]; [|reflexivity]. cbn [option_map sd_of d_conn d_sid].
  destruct (s_conn t); reflexivity.
Qed.

Lemma do_message_session h sid s kindn n tag :
  do_message h sid s kindn (RSession (IdPub n)) tag true =
  match get_sess h n with
  | Some t => if negb (N.eqb (s_backend t) (s_backend s)) then (h, [])
              else if N.eqb n sid then (h, [])
              else match s_kind t with
                   | KVirtual p v => send_session h p (the_msg h kindn sid s (RSession (IdPub n)) (Some (RcptVirtual v)) tag)
                   | _ => send_session h n (the_msg h kindn sid s (RSession (IdPub n)) None tag)
                   end
  | None => (publish h SubjNobody (AEvent (the_msg h kindn sid s (RSession (IdPub n)) (Some RcptOther) tag) sid false), [])
  end.
Proof. reflexivity. Qed.

(* what routing does, stated once for all recipient kinds *)
Definition routed (h : hub) (sid : N) (s : session) (kindn : N) (to : recipient) (tag : N) (T : list (N * option rcpt))
           (h1 : hub) (o1 : list out) (h2 : hub) (o2 : list out) : Prop :=
  o1 ++ o2 = flat_map (fun e => out_for h (the_msg h kindn sid s to (snd e) tag) (fst e)) T /\
  pq h h2 /\ h_bus h2 = [] /\ h_clock h <= h_clock h2 /\
  forall y, pend h2 y = match find (fun e => N.eqb (fst e) y) T with
                        | Some e => if disc h y then enqueue (pend h y) (the_msg h kindn sid s to (snd e) tag) else pend h y
                        | None => pend h y
                        end.

Lemma routed_nothing h sid s kindn to tag : h_bus h = [] -> routed h sid s kindn to tag [] h [] h [].
Proof. intros Hb. repeat split; auto. apply N.le_refl. Qed.

(* a publication nobody listens to *)
Lemma routed_nobody h sid s kindn to tag m :
  h_bus h = [] ->
  exists h2, drain 500 (publish h SubjNobody (AEvent m sid false)) = (h2, []) /\
             routed h sid s kindn to tag [] (publish h SubjNobody (AEvent m sid false)) [] h2 [].
Proof.
  intros Hb. exists (set_bus (publish h SubjNobody (AEvent m sid false)) []). split.
  - apply drain_single with (p := mkpub SubjNobody (AEvent m sid false) (h_clock h)); try reflexivity.
    unfold publish. cbn [h_bus set_clock set_bus]. now rewrite Hb.
  - split; [reflexivity|]. split; [reflexivity|]. split; [reflexivity|]. split; [|reflexivity].
    cbn [h_clock set_bus publish set_clock]. lia.
Qed.

(* a message handed to one session directly *)
Lemma routed_direct h sid s kindn to tag x t rc :
  h_bus h = [] -> get_sess h x = Some t -> is_virtual (s_kind t) = false ->
  exists h1 o1, send_session h x (the_msg h kindn sid s to rc tag) = (h1, o1) /\ drain 500 h1 = (h1, []) /\
                routed h sid s kindn to tag [(x, rc)] h1 o1 h1 [].
Proof.
  intros Hb Ht Hv.
  destruct (send_msg_pq h h x t (the_msg h kindn sid s to rc tag) eq_refl (pq_refl h) Ht Hv) as (h1 & A & E & B & C & P).
  exists h1, (out_for h (the_msg h kindn sid s to rc tag) x). split; [exact A|].
  assert (Hb1 : h_bus h1 = []) by congruence.
  split; [now apply drain_nil|]. split; [cbn [flat_map fst snd]; now rewrite !app_nil_r|].
  split; [exact E|]. split; [exact Hb1|]. split; [rewrite C; apply N.le_refl|].
  intros y. rewrite P. cbn [find fst snd]. rewrite (N.eqb_sym x y). destruct (N.eqb_spec y x) as [->|]; reflexivity.
Qed.

(* ------------------------------------------------------------------ recipient: a session *)
Lemma route_session h c sid s kindn i tag :
  WF h -> RI h -> h_bus h = [] -> get_sess h sid = Some s -> s_conn s = Some c ->
  exists h1 o1 h2 o2, do_message h sid s kindn (RSession i) tag true = (h1, o1) /\ drain 500 h1 = (h2, o2) /\
    routed h sid s kindn (RSession i) tag (route_spec (digest_of h) (sd_of h (sid, s)) (RSession i)) h1 o1 h2 o2.
Proof.
  intros W I Hb Hs Hc.
  assert (Hnobody : forall i' m, route_spec (digest_of h) (sd_of h (sid, s)) (RSession i') = [] ->
            exists h1 o1 h2 o2, (publish h SubjNobody (AEvent m sid false), @nil out) = (h1, o1) /\ drain 500 h1 = (h2, o2) /\
              routed h sid s kindn (RSession i') tag (route_spec (digest_of h) (sd_of h (sid, s)) (RSession i')) h1 o1 h2 o2).
  { intros i' m ->. destruct (routed_nobody h sid s kindn (RSession i') tag m Hb) as (h2 & D & R).
    exists (publish h SubjNobody (AEvent m sid false)), [], h2, []. auto. }
  destruct i as [n|n|k|n]; try (apply Hnobody; reflexivity).
  rewrite do_message_session. cbn [route_spec]. rewrite find_sd_digest.
  destruct (get_sess h n) as [t|] eqn:Ht; cbn [option_map].
  2:{ destruct (routed_nobody h sid s kindn (RSession (IdPub n)) tag
                 (the_msg h kindn sid s (RSession (IdPub n)) (Some RcptOther) tag) Hb) as (h2 & D & R).
      eexists _, _, h2, []. split; [reflexivity|]. split; [exact D|exact R]. }
  change (d_backend (sd_of h (n, t))) with (s_backend t). change (d_backend (sd_of h (sid, s))) with (s_backend s).
  change (d_sid (sd_of h (sid, s))) with sid. rewrite is_virtual_d_sd.
  destruct (negb (N.eqb (s_backend t) (s_backend s))); cbn [orb].
  { exists h, [], h, []. split; [reflexivity|]. split; [now apply drain_nil|now apply routed_nothing]. }
  destruct (N.eqb n sid).
  { exists h, [], h, []. split; [reflexivity|]. split; [now apply drain_nil|now apply routed_nothing]. }
  destruct (s_kind t) as [|f d|p v] eqn:Hk; cbn [is_virtual].
  - destruct (routed_direct h sid s kindn (RSession (IdPub n)) tag n t None Hb Ht) as (h1 & o1 & A & D & R); [now rewrite Hk|].
    exists h1, o1, h1, []. auto.
  - destruct (routed_direct h sid s kindn (RSession (IdPub n)) tag n t None Hb Ht) as (h1 & o1 & A & D & R); [now rewrite Hk|].
    exists h1, o1, h1, []. auto.
  - rewrite (find_vt_digest h n t p v W I Ht Hk).
    destruct (wf_parent _ _ h W n t p v Ht Hk) as [[]|(ps & Hps & Hint)].
    destruct (routed_direct h sid s kindn (RSession (IdPub n)) tag p ps (Some (RcptVirtual v)) Hb Hps) as (h1 & o1 & A & D & R).
    { destruct (s_kind ps); try discriminate; reflexivity. }
    exists h1, o1, h1, []. auto.
Qed.

(* ------------------------------------------------------------------ recipients: a user, the room, the call *)
(* the reference's target list when it is a filter of the session table *)
Lemma targets_keyed h (G : sd -> bool) :
  map (fun x : sd => (d_sid x, @None rcpt)) (filter G (map (sd_of h) (h_sessions h))) =
  map (fun e => (fst e, None)) (filter (fun e => G (sd_of h e)) (h_sessions h)).
Proof.
  rewrite filter_map_comm, map_map. apply map_ext. intros [x t]. reflexivity.
Qed.

Lemma route_listeners h sid s kindn to tag subj co (f : N * session -> bool) (G : sd -> bool) :
  RI h -> h_bus h = [] -> sid <> 0 ->
  let m := the_msg h kindn sid s to None tag in
  let L := map fst (filter f (h_sessions h)) in
  deliver_pub (set_bus (publish h subj (AEvent m sid co)) []) (mkpub subj (AEvent m sid co) (h_clock h)) =
    fold_sessions (set_bus (publish h subj (AEvent m sid co)) []) L (fun g x => recv_event g x m sid co false (h_clock h)) ->
  (forall x t, f (x, t) = true -> is_virtual (s_kind t) = false) ->
  (forall x t, get_sess h x = Some t -> G (sd_of h (x, t)) = f (x, t) && accepts h sid co x) ->
  exists h2 o2, drain 500 (publish h subj (AEvent m sid co)) = (h2, o2) /\
    routed h sid s kindn to tag (map (fun x : sd => (d_sid x, None)) (filter G (g_sessions (digest_of h))))
           (publish h subj (AEvent m sid co)) [] h2 o2.
Proof.
  intros I Hb H0 m L Hd Hfv HG.
  assert (HL : forall x, In x L -> exists t, get_sess h x = Some t /\ is_virtual (s_kind t) = false).
  { intros x Hx. apply in_map_iff in Hx as ([x' t] & <- & Hin). apply filter_In in Hin as [Hin Hf].
    exists t. split; [now apply get_in; [apply I|]|now apply (Hfv x')]. }
  destruct (publish_fold h subj m sid co L eq_refl H0 Hb Hd) as (h2 & D & E & B & C & P).
  { apply NoDup_map_filter. apply I. }
  { exact HL. }
  eexists h2, _. split; [exact D|].
  assert (HT : g_sessions (digest_of h) = map (sd_of h) (h_sessions h)) by reflexivity.
  rewrite HT, targets_keyed.
  split; [|split; [exact E|split; [exact B|split; [lia|]]]].
  - cbn [app]. unfold L. rewrite !flat_map_map, !flat_map_filter. apply flat_map_ext_in'.
    intros [x t] Hin. cbn [fst snd]. pose proof (get_in h x t (ri_keys _ _ I) Hin) as Hx.
    rewrite (HG x t Hx). destruct (f (x, t)); [|reflexivity]. cbn [andb]. reflexivity.
  - intros y. rewrite P. unfold L. rewrite existsb_keyed by apply I. rewrite find_keyed by apply I.
    fold (get_sess h y). destruct (get_sess h y) as [t|] eqn:Hy; [|reflexivity].
    rewrite (HG y t Hy). destruct (f (y, t) && accepts h sid co y); reflexivity.
Qed.

Lemma sender_not_zero h sid s : RI h -> get_sess h sid = Some s -> sid <> 0.
Proof. intros I Hs ->. rewrite (ri_zero _ _ I) in Hs. discriminate. Qed.

Lemma route_user h c sid s kindn u tag :
  WF h -> RI h -> h_bus h = [] -> get_sess h sid = Some s -> s_conn s = Some c ->
  exists h1 o1 h2 o2, do_message h sid s kindn (RUser u) tag true = (h1, o1) /\ drain 500 h1 = (h2, o2) /\
    routed h sid s kindn (RUser u) tag (route_spec (digest_of h) (sd_of h (sid, s)) (RUser u)) h1 o1 h2 o2.
Proof.
  intros W I Hb Hs Hc.
  pose proof (ri_novirt _ _ I sid s c Hs Hc) as Hv.
  unfold do_message. cbn [route_spec]. rewrite (d_user_sd h sid s Hv).
  destruct (N.eqb_spec u 0) as [->|Hu0]; cbn [orb].
  { exists h, [], h, []. split; [reflexivity|]. split; [now apply drain_nil|now apply routed_nothing]. }
  destruct (N.eqb_spec u (sess_userid h sid s)) as [Hu|Hu].
  { exists h, [], h, []. split; [reflexivity|]. split; [now apply drain_nil|now apply routed_nothing]. }
  change (d_backend (sd_of h (sid, s))) with (s_backend s).
  destruct (route_listeners h sid s kindn (RUser u) tag (SubjUser (s_backend s) u) false
              (fun e => negb (is_virtual (s_kind (snd e))) && N.eqb (s_backend (snd e)) (s_backend s) && N.eqb (s_user (snd e)) u)
              (fun x => negb (is_virtual_d x) && N.eqb (d_backend x) (s_backend s) && N.eqb (d_authuser x) u)
              I Hb (sender_not_zero h sid s I Hs)) as (h2 & o2 & D & R).
  - reflexivity.
  - intros x t Hf. cbn [snd] in Hf. apply andb_prop in Hf as [Hf _]. apply andb_prop in Hf as [Hf _]. now apply negb_true_iff.
  - intros x t Hx. rewrite is_virtual_d_sd. cbn [snd]. change (d_backend (sd_of h (x, t))) with (s_backend t).
    destruct (is_virtual (s_kind t)) eqn:Hvt; cbn [negb andb]; [reflexivity|]. rewrite (d_authuser_sd h x t Hvt).
    destruct (N.eqb (s_backend t) (s_backend s)); cbn [andb]; [|reflexivity].
    destruct (N.eqb_spec (s_user t) u) as [Eu|]; [|reflexivity]. cbn [andb].
    unfold accepts. rewrite Hx. cbn [negb orb]. rewrite andb_true_r.
    destruct (N.eqb_spec sid x) as [<-|]; [|reflexivity]. exfalso. rewrite Hs in Hx. injection Hx as <-.
    apply Hu. unfold sess_userid. destruct (N.eqb_spec (s_user s) 0); [congruence|now symmetry].
  - eexists _, _, h2, o2. split; [reflexivity|]. split; [exact D|exact R].
Qed.

Lemma route_room h c sid s kindn to tag :
  to = RRoom \/ to = RCall ->
  WF h -> RI h -> h_bus h = [] -> get_sess h sid = Some s -> s_conn s = Some c ->
  exists h1 o1 h2 o2, do_message h sid s kindn to tag true = (h1, o1) /\ drain 500 h1 = (h2, o2) /\
    routed h sid s kindn to tag (route_spec (digest_of h) (sd_of h (sid, s)) to) h1 o1 h2 o2.
Proof.
  intros Hto W I Hb Hs Hc.
  set (co := match to with RCall => true | _ => false end).
  assert (Hdm : do_message h sid s kindn to tag true =
                match s_room s with
                | Some k => (publish h (SubjRoom (fst k) (snd k)) (AEvent (the_msg h kindn sid s to None tag) sid co), [])
                | None => (h, []) end) by (destruct Hto as [-> | ->]; reflexivity).
  assert (Hrs : route_spec (digest_of h) (sd_of h (sid, s)) to =
                match s_room s with
                | None => []
                | Some k => map (fun x : sd => (d_sid x, None))
                              (filter (fun x => negb (is_virtual_d x) && opt_pair_eqb (d_room x) (Some k) && negb (N.eqb (d_sid x) sid)
                                                && (if co then d_incall x else true)) (g_sessions (digest_of h)))
                end) by (destruct Hto as [-> | ->]; reflexivity).
  rewrite Hdm, Hrs. destruct (s_room s) as [k|].
  2:{ exists h, [], h, []. split; [reflexivity|]. split; [now apply drain_nil|now apply routed_nothing]. }
  destruct (route_listeners h sid s kindn to tag (SubjRoom (fst k) (snd k)) co
              (fun e => negb (is_virtual (s_kind (snd e))) && opt_pair_eqb (s_room (snd e)) (Some k))
              (fun x => negb (is_virtual_d x) && opt_pair_eqb (d_room x) (Some k) && negb (N.eqb (d_sid x) sid)
                        && (if co then d_incall x else true))
              I Hb (sender_not_zero h sid s I Hs)) as (h2 & o2 & D & R).
  - destruct k as [b r]. reflexivity.
  - intros x t Hf. cbn [snd] in Hf. apply andb_prop in Hf as [Hf _]. now apply negb_true_iff.
  - intros x t Hx. rewrite is_virtual_d_sd. cbn [snd]. change (d_room (sd_of h (x, t))) with (s_room t).
    change (d_sid (sd_of h (x, t))) with x. change (d_incall (sd_of h (x, t))) with (in_call h x t).
    unfold accepts. rewrite Hx, (N.eqb_sym sid x). rewrite <- andb_assoc. f_equal. f_equal.
    destruct co; reflexivity.
  - eexists _, _, h2, o2. split; [reflexivity|]. split; [exact D|exact R].
Qed.

Theorem route_core h c sid s kindn to tag :
  WF h -> RI h -> h_bus h = [] -> get_sess h sid = Some s -> s_conn s = Some c ->
  exists h1 o1 h2 o2, do_message h sid s kindn to tag true = (h1, o1) /\ drain 500 h1 = (h2, o2) /\
    routed h sid s kindn to tag (route_spec (digest_of h) (sd_of h (sid, s)) to) h1 o1 h2 o2.
Proof.
  destruct to as [i|u| |].
  - apply route_session.
  - apply route_user.
  - apply route_room. now left.
  - apply route_room. now right.
Qed.

(* ------------------------------------------------------------------ the op, in both kinds *)
Definition op_of (ctl : bool) (c : N) (to : recipient) (tag : N) : op := if ctl then OCtl c to tag else OMsg c to tag.
Definition kind_of (ctl : bool) : N := if ctl then 1 else 0.
Definition is_msg_op (o : op) : bool := match o with OMsg _ _ _ | OCtl _ _ _ => true | _ => false end.

(* the reference's targets: nothing when a control message is not allowed *)
Definition ref_targets (pd : digest) (ctl : bool) (s : sd) (to : recipient) : list (N * option rcpt) :=
  if N.eqb (kind_of ctl) 1 && negb (control_allowed s) then [] else route_spec pd s to.

Lemma step_C05_eq ctl pd c to tag ob :
  step_C05 pd (op_of ctl c to tag) ob =
  let copies := filter (fun e => tagged (kind_of ctl) tag (snd e)) (all_msgs ob) in
  match sd_of_conn pd c with
  | None => match copies with [] => true | _ => false end
  | Some s =>
      mset_eqb (fun a b => N.eqb (fst a) (fst b) && smsg_eqb (snd a) (snd b)) copies
               (ref_copies pd (kind_of ctl) s to tag (ref_targets pd ctl s to))
      && forallb (fun e => negb (N.eqb (fst e) c) ||
                           match snd e with SMsg _ _ _ _ (Some (RcptVirtual _)) _ => true | _ => false end) copies
  end.
Proof. destruct ctl; reflexivity. Qed.

Lemma step_msg ctl h c to tag :
  step h (op_of ctl c to tag) =
  with_session h c (fun cn sid s => if negb ctl || allowed_control s then do_message h sid s (kind_of ctl) to tag true else (h, [])).
Proof. destruct ctl; reflexivity. Qed.

(* the session attached to connection c *)
Definition conn_sess (h : hub) (c sid : N) (s : session) : Prop :=
  exists cn, aget (h_conns h) c = Some cn /\ c_sess cn = Some sid /\ get_sess h sid = Some s.

Lemma conn_sess_conn h c sid s : WF h -> conn_sess h c sid s -> s_conn s = Some c.
Proof.
  intros W (cn & Hc & Hl & Hs). destruct (wf_conns _ _ h W c cn sid Hc Hl) as (s' & Hs' & Hc'). congruence.
Qed.
Lemma sd_of_conn_sess h c sid s : WF h -> RI h -> conn_sess h c sid s -> sd_of_conn (digest_of h) c = Some (sd_of h (sid, s)).
Proof. intros W I (cn & Hc & Hl & Hs). rewrite sd_of_conn_digest by assumption. now rewrite Hc, Hl, Hs. Qed.
Lemma sd_of_conn_none h c : WF h -> RI h -> (forall sid s, ~ conn_sess h c sid s) -> sd_of_conn (digest_of h) c = None.
Proof.
  intros W I Hn. rewrite sd_of_conn_digest by assumption. destruct (aget (h_conns h) c) as [cn|] eqn:Hc; [|reflexivity].
  destruct (c_sess cn) as [sid|] eqn:Hl; [|reflexivity]. destruct (wf_conns _ _ h W c cn sid Hc Hl) as (s & Hs & _).
  exfalso. apply (Hn sid s). exists cn. auto.
Qed.

(* ------------------------------------------------------------------ one message op, quiescent *)
Lemma qstep_msg ctl h c to tag sid s :
  WF h -> RI h -> h_bus h = [] -> conn_sess h c sid s ->
  exists h2 outs, qstep h (op_of ctl c to tag) = (h2, outs) /\
    routed h sid s (kind_of ctl) to tag (ref_targets (digest_of h) ctl (sd_of h (sid, s)) to) h [] h2 outs.
Proof.
  intros W I Hb Hcs. pose proof (conn_sess_conn h c sid s W Hcs) as Hc. destruct Hcs as (cn & Hcn & Hl & Hs).
  unfold qstep. rewrite step_msg. unfold with_session. rewrite Hcn, Hl, Hs.
  unfold ref_targets. rewrite control_allowed_sd.
  destruct ctl; cbn [negb orb kind_of].
  - change (N.eqb 1 1) with true. cbn [andb]. destruct (allowed_control s); cbn [negb].
    + destruct (route_core h c sid s 1 to tag W I Hb Hs Hc) as (h1 & o1 & h2 & o2 & A & D & R).
      rewrite A, D. exists h2, (o1 ++ o2). split; [reflexivity|]. exact R.
    + rewrite (drain_nil 500 h Hb). exists h, []. split; [reflexivity|]. now apply routed_nothing.
  - change (N.eqb 0 1) with false. cbn [andb].
    destruct (route_core h c sid s 0 to tag W I Hb Hs Hc) as (h1 & o1 & h2 & o2 & A & D & R).
    rewrite A, D. exists h2, (o1 ++ o2). split; [reflexivity|]. exact R.
Qed.

Lemma qstep_msg_nosess ctl h c to tag :
  h_bus h = [] -> (forall sid s, ~ conn_sess h c sid s) -> WF h ->
  qstep h (op_of ctl c to tag) = (h, []) \/ qstep h (op_of ctl c to tag) = (h, [ToConn c (SError E_hello_expected)]).
Proof.
  intros Hb Hn W. unfold qstep. rewrite step_msg. unfold with_session.
  destruct (aget (h_conns h) c) as [cn|] eqn:Hc; [|left; now rewrite (drain_nil 500 h Hb)].
  destruct (c_sess cn) as [sid|] eqn:Hl; [|right; now rewrite (drain_nil 500 h Hb)].
  destruct (wf_conns _ _ h W c cn sid Hc Hl) as (s & Hs & _). exfalso. apply (Hn sid s). exists cn. auto.
Qed.

(* ------------------------------------------------------------------ 1. the outputs are the reference's copies, in order *)
Theorem msg_outputs ctl h c to tag sid s :
  WF h -> RI h -> h_bus h = [] -> conn_sess h c sid s ->
  snd (qstep h (op_of ctl c to tag)) =
  outs_of (ref_copies (digest_of h) (kind_of ctl) (sd_of h (sid, s)) to tag
                      (ref_targets (digest_of h) ctl (sd_of h (sid, s)) to)).
Proof.
  intros W I Hb Hcs. destruct (qstep_msg ctl h c to tag sid s W I Hb Hcs) as (h2 & outs & Hq & R).
  rewrite Hq. cbn [snd]. destruct R as (Ho & _). cbn [app] in Ho. rewrite Ho. symmetry. apply ref_copies_model.
  pose proof (conn_sess_conn h c sid s W Hcs) as Hc. destruct Hcs as (cn & Hcn & Hl & Hs).
  exact (ri_novirt _ _ I sid s c Hs Hc).
Qed.

Theorem msg_outputs_nosess ctl h c to tag :
  WF h -> h_bus h = [] -> (forall sid s, ~ conn_sess h c sid s) ->
  snd (qstep h (op_of ctl c to tag)) = [] \/ snd (qstep h (op_of ctl c to tag)) = [ToConn c (SError E_hello_expected)].
Proof. intros W Hb Hn. destruct (qstep_msg_nosess ctl h c to tag Hb Hn W) as [-> | ->]; auto. Qed.

(* ------------------------------------------------------------------ who the reference addresses *)
Lemma opt_pair_eqb_true a b : opt_pair_eqb a b = true -> a = b.
Proof.
  destruct a as [x|], b as [y|]; cbn; try discriminate; try reflexivity.
  destruct (pair_eqb_spec x y); [congruence|discriminate].
Qed.

(* every target is a live, non-virtual session of the sender's backend, other than the sender - except
   the internal client of an addressed virtual session, which gets the recipient rewritten (and may be
   the sender itself: a client addressing one of its own virtual sessions) *)
Lemma targets_shape h c sid s to r rc :
  WF h -> RI h -> get_sess h sid = Some s -> s_conn s = Some c ->
  In (r, rc) (route_spec (digest_of h) (sd_of h (sid, s)) to) ->
  (exists tr, get_sess h r = Some tr /\ s_backend tr = s_backend s /\ is_virtual (s_kind tr) = false) /\
  ((rc = None /\ r <> sid) \/
   (exists n t v, to = RSession (IdPub n) /\ get_sess h n = Some t /\ s_kind t = KVirtual r v /\ rc = Some (RcptVirtual v))).
Proof.
  intros W I Hs Hc Hin. pose proof (ri_novirt _ _ I sid s c Hs Hc) as Hv.
  assert (Hfilt : forall (G : sd -> bool), In (r, rc) (map (fun x : sd => (d_sid x, None)) (filter G (g_sessions (digest_of h)))) ->
            exists t, get_sess h r = Some t /\ G (sd_of h (r, t)) = true /\ rc = None).
  { intros G Hi. apply in_map_iff in Hi as (x & Hx & Hi). apply filter_In in Hi as [Hi HG].
    change (g_sessions (digest_of h)) with (map (sd_of h) (h_sessions h)) in Hi. apply in_map_iff in Hi as ([y t] & <- & Hi).
    injection Hx as <- <-. exists t. split; [now apply get_in; [apply I|]|]. auto. }
  destruct to as [i|u| |].
  - destruct i as [n|n|k|n]; try destruct Hin. cbn [route_spec] in Hin. rewrite find_sd_digest in Hin.
    destruct (get_sess h n) as [t|] eqn:Ht; [|destruct Hin]. cbn [option_map] in Hin.
    change (d_backend (sd_of h (n, t))) with (s_backend t) in Hin. change (d_backend (sd_of h (sid, s))) with (s_backend s) in Hin.
    change (d_sid (sd_of h (sid, s))) with sid in Hin. rewrite is_virtual_d_sd in Hin.
    destruct (N.eqb_spec (s_backend t) (s_backend s)) as [Hbk|]; [|destruct Hin]. cbn [negb orb] in Hin.
    destruct (N.eqb_spec n sid) as [|Hne]; [destruct Hin|].
    destruct (s_kind t) as [|f d|p v] eqn:Hk; cbn [is_virtual] in Hin.
    + destruct Hin as [E|[]]. injection E as <- <-. split; [exists t; rewrite Hk; auto|left; auto].
    + destruct Hin as [E|[]]. injection E as <- <-. split; [exists t; rewrite Hk; auto|left; auto].
    + rewrite (find_vt_digest h n t p v W I Ht Hk) in Hin. destruct Hin as [E|[]]. injection E as <- <-.
      destruct (wf_parent _ _ h W n t p v Ht Hk) as [[]|(ps & Hps & Hint)]. split.
      * exists ps. split; [exact Hps|]. split; [rewrite (ri_parent _ _ I n t p v ps Ht Hk Hps); exact Hbk|].
        destruct (s_kind ps); try discriminate; reflexivity.
      * right. exists n, t, v. auto.
  - cbn [route_spec] in Hin. rewrite (d_user_sd h sid s Hv) in Hin.
    destruct (N.eqb_spec u 0) as [|Hu0]; [destruct Hin|]. cbn [orb] in Hin.
    destruct (N.eqb_spec u (sess_userid h sid s)) as [|Hu]; [destruct Hin|].
    destruct (Hfilt _ Hin) as (t & Ht & HG & ->). rewrite is_virtual_d_sd in HG.
    apply andb_prop in HG as [HG Hau]. apply andb_prop in HG as [Hvt Hbk]. apply negb_true_iff in Hvt.
    change (d_backend (sd_of h (r, t))) with (s_backend t) in Hbk. change (d_backend (sd_of h (sid, s))) with (s_backend s) in Hbk.
    apply N.eqb_eq in Hbk. rewrite (d_authuser_sd h r t Hvt) in Hau. apply N.eqb_eq in Hau.
    split; [exists t; auto|]. left. split; [reflexivity|]. intros ->. rewrite Hs in Ht. injection Ht as <-.
    apply Hu. unfold sess_userid. destruct (N.eqb_spec (s_user s) 0); [congruence|now symmetry].
  - cbn [route_spec] in Hin. change (d_room (sd_of h (sid, s))) with (s_room s) in Hin.
    destruct (s_room s) as [k|] eqn:Hk; [|destruct Hin].
    destruct (Hfilt _ Hin) as (t & Ht & HG & ->). rewrite is_virtual_d_sd in HG.
    apply andb_prop in HG as [HG _]. apply andb_prop in HG as [HG Hne]. apply andb_prop in HG as [Hvt Hrm].
    apply negb_true_iff in Hvt. change (d_room (sd_of h (r, t))) with (s_room t) in Hrm. apply opt_pair_eqb_true in Hrm.
    change (d_sid (sd_of h (r, t))) with r in Hne. change (d_sid (sd_of h (sid, s))) with sid in Hne.
    split; [exists t; split; [exact Ht|split; [|exact Hvt]]|left; split; [reflexivity|]].
    + rewrite <- (ri_room _ _ I r t k Ht Hrm). apply (ri_room _ _ I sid s k Hs Hk).
    + intros ->. now rewrite N.eqb_refl in Hne.
  - cbn [route_spec] in Hin. change (d_room (sd_of h (sid, s))) with (s_room s) in Hin.
    destruct (s_room s) as [k|] eqn:Hk; [|destruct Hin].
    destruct (Hfilt _ Hin) as (t & Ht & HG & ->). rewrite is_virtual_d_sd in HG.
    apply andb_prop in HG as [HG _]. apply andb_prop in HG as [HG Hne]. apply andb_prop in HG as [Hvt Hrm].
    apply negb_true_iff in Hvt. change (d_room (sd_of h (r, t))) with (s_room t) in Hrm. apply opt_pair_eqb_true in Hrm.
    change (d_sid (sd_of h (r, t))) with r in Hne. change (d_sid (sd_of h (sid, s))) with sid in Hne.
    split; [exists t; split; [exact Ht|split; [|exact Hvt]]|left; split; [reflexivity|]].
    + rewrite <- (ri_room _ _ I r t k Ht Hrm). apply (ri_room _ _ I sid s k Hs Hk).
    + intros ->. now rewrite N.eqb_refl in Hne.
Qed.

Lemma in_ref_targets pd ctl sd to e : In e (ref_targets pd ctl sd to) -> In e (route_spec pd sd to).
Proof. unfold ref_targets. destruct (N.eqb (kind_of ctl) 1 && negb (control_allowed sd)); [intros []|auto]. Qed.

(* an output of the op: the copy for one target *)
Lemma in_outputs h kindn sid s to tag T c' m :
  In (ToConn c' m) (flat_map (fun e => out_for h (the_msg h kindn sid s to (snd e) tag) (fst e)) T) ->
  exists r rc t, In (r, rc) T /\ get_sess h r = Some t /\ s_conn t = Some c' /\ m = the_msg h kindn sid s to rc tag.
Proof.
  intros Hin. apply in_flat_map in Hin as ([r rc] & HT & Ho). cbn [fst snd] in Ho. unfold out_for in Ho.
  destruct (get_sess h r) as [t|] eqn:Ht; [|destruct Ho]. destruct (s_conn t) as [c0|] eqn:Hc0; [|destruct Ho].
  destruct Ho as [E|[]]. injection E as <- <-. exists r, rc, t. auto.
Qed.

(* ------------------------------------------------------------------ comparing copies as step_C05 does *)
Lemma optrcpt_eqb_true a b : optrcpt_eqb a b = true -> a = b.
Proof.
  destruct a as [x|], b as [y|]; cbn; try discriminate; try reflexivity.
  destruct x, y; cbn; try discriminate; try reflexivity; intros H; apply N.eqb_eq in H; now subst.
Qed.
Lemma optrcpt_eqb_refl a : optrcpt_eqb a a = true.
Proof. destruct a as [[x|x|]|]; cbn; try reflexivity; apply N.eqb_refl. Qed.
Lemma smsg_eqb_msg_sound k st ss su r t m' : smsg_eqb (SMsg k st ss su r t) m' = true -> m' = SMsg k st ss su r t.
Proof.
  destruct m'; cbn; try discriminate. intros H.
  repeat (apply andb_prop in H as [H ?]).
  repeat match goal with E : N.eqb _ _ = true |- _ => apply N.eqb_eq in E end.
  match goal with E : optrcpt_eqb _ _ = true |- _ => apply optrcpt_eqb_true in E end. now subst.
Qed.
Lemma smsg_eqb_msg_refl k st ss su r t : smsg_eqb (SMsg k st ss su r t) (SMsg k st ss su r t) = true.
Proof. cbn. now rewrite !N.eqb_refl, optrcpt_eqb_refl. Qed.

Lemma in_ref_copies pd kindn s to tag T e : In e (ref_copies pd kindn s to tag T) ->
  exists r rc x, In (r, rc) T /\ find_sd pd r = Some x /\ d_conn x = Some (fst e) /\
                 snd e = SMsg kindn (stype_n to) (d_sid s) (d_user s) rc tag.
Proof.
  intros Hin. unfold ref_copies in Hin. apply in_flat_map in Hin as ([r rc] & HT & He).
  destruct (find_sd pd r) as [x|] eqn:Hx; [|destruct He]. destruct (d_conn x) as [c'|] eqn:Hc; [|destruct He].
  destruct He as [<-|[]]. exists r, rc, x. auto.
Qed.

(* ------------------------------------------------------------------ 1'. the predicate of the harness holds on the model's own step *)
Theorem msg_step_C05 ctl h c to tag :
  WF h -> RI h -> h_bus h = [] ->
  step_C05 (digest_of h) (op_of ctl c to tag) (obs_of_outs (snd (qstep h (op_of ctl c to tag)))) = true.
Proof.
  intros W I Hb. rewrite step_C05_eq. cbv zeta.
  assert (Hcase : (exists sid s, conn_sess h c sid s) \/ (forall sid s, ~ conn_sess h c sid s)).
  { destruct (aget (h_conns h) c) as [cn|] eqn:Hc; [|right; intros sid s (cn & H & _); congruence].
    destruct (c_sess cn) as [sid|] eqn:Hl; [|right; intros sid s (cn' & H & H' & _); congruence].
    destruct (get_sess h sid) as [s|] eqn:Hs; [left; exists sid, s, cn; auto|right; intros sid' s' (cn' & H & H' & H''); congruence]. }
  destruct Hcase as [(sid & s & Hcs)|Hn].
  - rewrite (sd_of_conn_sess h c sid s W I Hcs), (msg_outputs ctl h c to tag sid s W I Hb Hcs).
    set (X := ref_copies (digest_of h) (kind_of ctl) (sd_of h (sid, s)) to tag (ref_targets (digest_of h) ctl (sd_of h (sid, s)) to)).
    assert (HP : Permutation (all_msgs (obs_of_outs (outs_of X))) X).
    { eapply perm_trans; [apply all_msgs_obs_perm|]. rewrite conn_msgs_outs_of. apply Permutation_refl. }
    assert (HX : forall e, In e X -> exists r rc x, In (r, rc) (route_spec (digest_of h) (sd_of h (sid, s)) to) /\
                   find_sd (digest_of h) r = Some x /\ d_conn x = Some (fst e) /\
                   snd e = SMsg (kind_of ctl) (stype_n to) sid (d_user (sd_of h (sid, s))) rc tag).
    { intros e He. destruct (in_ref_copies _ _ _ _ _ _ e He) as (r & rc & x & HT & Hx & Hc & Hm).
      exists r, rc, x. split; [eapply in_ref_targets; eauto|auto]. }
    rewrite filter_all.
    2:{ intros e He. destruct (HX e (Permutation_in _ HP He)) as (r & rc & x & _ & _ & _ & ->). cbn. now rewrite !N.eqb_refl. }
    apply andb_true_intro. split.
    + apply mset_eqb_perm; [|exact HP]. intros e He.
      destruct (HX e (Permutation_in _ HP He)) as (r & rc & x & _ & _ & _ & Hm). destruct e as [c' m]. cbn [fst snd] in *. subst m. split.
      * now rewrite N.eqb_refl, smsg_eqb_msg_refl.
      * intros [c'' m'] H. cbn [fst snd] in H. apply andb_prop in H as [H1 H2]. apply N.eqb_eq in H1.
        apply smsg_eqb_msg_sound in H2. now subst.
    + apply forallb_forall. intros e He.
      destruct (HX e (Permutation_in _ HP He)) as (r & rc & x & HT & Hx & Hc & ->).
      pose proof (conn_sess_conn h c sid s W Hcs) as Hsc. destruct Hcs as (cn & Hcn & Hl & Hs).
      destruct (targets_shape h c sid s to r rc W I Hs Hsc HT) as [_ [[-> Hne]|(n & t & v & _ & _ & _ & ->)]]; [|now rewrite orb_true_r].
      rewrite find_sd_digest in Hx. destruct (get_sess h r) as [tr|] eqn:Hr; [|discriminate]. injection Hx as <-.
      cbn [sd_of d_conn] in Hc. destruct (N.eqb_spec (fst e) c) as [E|]; [|reflexivity]. exfalso. rewrite E in Hc.
      destruct (ri_conn _ _ I r tr c Hr Hc) as (cn' & Hcn' & Hl'). rewrite Hcn in Hcn'. injection Hcn' as <-. congruence.
  - rewrite (sd_of_conn_none h c W I Hn). rewrite filter_none; [reflexivity|].
    intros e He. pose proof (Permutation_in _ (all_msgs_obs_perm _) He) as He'.
    destruct (msg_outputs_nosess ctl h c to tag W Hb Hn) as [E|E]; rewrite E in He'; cbn in He'; [destruct He'|].
    destruct He' as [<-|[]]. reflexivity.
Qed.

(* ------------------------------------------------------------------ 2. not back to the sender; only the sender's backend *)
Lemma linked_unique h c x y : linked h c x -> linked h c y -> x = y.
Proof. intros (cn & A & B) (cn' & A' & B'). congruence. Qed.

(* every output is one copy of the message, written to a connection *)
Theorem msg_outputs_shape ctl h c to tag sid s o :
  WF h -> RI h -> h_bus h = [] -> conn_sess h c sid s ->
  In o (snd (qstep h (op_of ctl c to tag))) ->
  exists c' r rc t, o = ToConn c' (the_msg h (kind_of ctl) sid s to rc tag) /\
    In (r, rc) (ref_targets (digest_of h) ctl (sd_of h (sid, s)) to) /\ get_sess h r = Some t /\ s_conn t = Some c'.
Proof.
  intros W I Hb Hcs Hin. destruct (qstep_msg ctl h c to tag sid s W I Hb Hcs) as (h2 & outs & Hq & R).
  rewrite Hq in Hin. cbn [snd] in Hin. destruct R as (Ho & _). cbn [app] in Ho. rewrite Ho in Hin.
  apply in_flat_map in Hin as ([r rc] & HT & Hx). cbn [fst snd] in Hx. unfold out_for in Hx.
  destruct (get_sess h r) as [t|] eqn:Ht; [|destruct Hx]. destruct (s_conn t) as [c0|] eqn:Hc0; [|destruct Hx].
  destruct Hx as [<-|[]]. exists c0, r, rc, t. auto.
Qed.

(* no copy goes to the sender's own connection - except the copy for a virtual session whose internal
   client is the sender, with the recipient rewritten to the virtual session's id *)
Theorem msg_not_to_sender ctl h c to tag sid s m :
  WF h -> RI h -> h_bus h = [] -> conn_sess h c sid s ->
  In (ToConn c m) (snd (qstep h (op_of ctl c to tag))) ->
  exists n t v, to = RSession (IdPub n) /\ get_sess h n = Some t /\ s_kind t = KVirtual sid v /\
                m = the_msg h (kind_of ctl) sid s to (Some (RcptVirtual v)) tag.
Proof.
  intros W I Hb Hcs Hin.
  destruct (msg_outputs_shape ctl h c to tag sid s _ W I Hb Hcs Hin) as (c' & r & rc & t & E & HT & Hr & Hc).
  injection E as <- ->. pose proof (conn_sess_conn h c sid s W Hcs) as Hsc. pose proof Hcs as (cn & Hcn & Hl & Hs).
  assert (Hrs : r = sid).
  { apply (linked_unique h c); [exact (ri_conn _ _ I r t c Hr Hc)|exists cn; auto]. }
  subst r. destruct (targets_shape h c sid s to sid rc W I Hs Hsc (in_ref_targets _ _ _ _ _ HT)) as [_ [[_ Hne]|(n & tn & v & A & B & C & D)]].
  - now contradiction Hne.
  - exists n, tn, v. subst rc. auto.
Qed.

Theorem msg_same_backend ctl h c to tag sid s c' m :
  WF h -> RI h -> h_bus h = [] -> conn_sess h c sid s ->
  In (ToConn c' m) (snd (qstep h (op_of ctl c to tag))) ->
  exists r t, get_sess h r = Some t /\ s_conn t = Some c' /\ s_backend t = s_backend s /\ is_virtual (s_kind t) = false.
Proof.
  intros W I Hb Hcs Hin.
  destruct (msg_outputs_shape ctl h c to tag sid s _ W I Hb Hcs Hin) as (c0 & r & rc & t & E & HT & Hr & Hc).
  injection E as <- _. pose proof (conn_sess_conn h c sid s W Hcs) as Hsc. pose proof Hcs as (cn & Hcn & Hl & Hs).
  destruct (targets_shape h c sid s to r rc W I Hs Hsc (in_ref_targets _ _ _ _ _ HT)) as [(tr & Htr & Hbk & Hv) _].
  rewrite Hr in Htr. injection Htr as <-. exists r, t. auto.
Qed.

(* ------------------------------------------------------------------ 3. the queues of addressed sessions without a connection *)
Theorem msg_queues ctl h c to tag sid s y :
  WF h -> RI h -> h_bus h = [] -> conn_sess h c sid s ->
  pend (fst (qstep h (op_of ctl c to tag))) y =
  match find (fun e => N.eqb (fst e) y) (ref_targets (digest_of h) ctl (sd_of h (sid, s)) to) with
  | Some e => if disc h y then enqueue (pend h y) (the_msg h (kind_of ctl) sid s to (snd e) tag) else pend h y
  | None => pend h y
  end.
Proof.
  intros W I Hb Hcs. destruct (qstep_msg ctl h c to tag sid s W I Hb Hcs) as (h2 & outs & Hq & R).
  rewrite Hq. cbn [fst]. destruct R as (_ & _ & _ & _ & P). apply P.
Qed.

(* ------------------------------------------------------------------ 4. nothing else changes; the bus queue is empty again *)
Theorem msg_tables_unchanged ctl h c to tag :
  WF h -> RI h -> h_bus h = [] ->
  erase_h (fst (qstep h (op_of ctl c to tag))) = erase_h h /\
  h_bus (fst (qstep h (op_of ctl c to tag))) = [] /\ h_clock h <= h_clock (fst (qstep h (op_of ctl c to tag))).
Proof.
  intros W I Hb.
  assert (Hcase : (exists sid s, conn_sess h c sid s) \/ (forall sid s, ~ conn_sess h c sid s)).
  { destruct (aget (h_conns h) c) as [cn|] eqn:Hc; [|right; intros sid s (cn & H & _); congruence].
    destruct (c_sess cn) as [sid|] eqn:Hl; [|right; intros sid s (cn' & H & H' & _); congruence].
    destruct (get_sess h sid) as [s|] eqn:Hs; [left; exists sid, s, cn; auto|right; intros sid' s' (cn' & H & H' & H''); congruence]. }
  destruct Hcase as [(sid & s & Hcs)|Hn].
  - destruct (qstep_msg ctl h c to tag sid s W I Hb Hcs) as (h2 & outs & Hq & R). rewrite Hq. cbn [fst].
    destruct R as (_ & E & B & C & _). auto.
  - destruct (qstep_msg_nosess ctl h c to tag Hb Hn W) as [-> | ->]; cbn [fst]; repeat split; auto; apply N.le_refl.
Qed.

(* what "equal up to pending queues, clock and bus" says, table by table *)
Lemma pq_tables h h' : erase_h h' = erase_h h ->
  h_limits h' = h_limits h /\ h_nb h' = h_nb h /\ h_nextsid h' = h_nextsid h /\ h_conns h' = h_conns h /\
  h_rooms h' = h_rooms h /\ h_rs1 h' = h_rs1 h /\ h_rs2 h' = h_rs2 h /\ h_vtable h' = h_vtable h /\
  h_expired h' = h_expired h /\ h_anonymous h' = h_anonymous h /\ h_dialout h' = h_dialout h /\
  h_clients h' = h_clients h /\ h_counted h' = h_counted h /\ h_fail h' = h_fail h /\
  h_mcutok h' = h_mcutok h /\ h_mcupending h' = h_mcupending h /\ h_mcuopen h' = h_mcuopen h /\ h_gated h' = h_gated h /\
  map fst (h_sessions h') = map fst (h_sessions h) /\
  forall x, option_map erase (get_sess h' x) = option_map erase (get_sess h x).
Proof.
  intros E. repeat split;
    try (match goal with |- ?f h' = ?f h => exact (f_equal f E) end).
  - exact (pq_keys h h' E).
  - intros x. exact (pq_get h h' x E).
Qed.

(* ------------------------------------------------------------------ the bus queue after a quiescent step *)
Lemma drain_stable f : forall h, h_bus (fst (drain f h)) = [] -> forall f', (f <= f')%nat -> drain f' h = drain f h.
Proof.
  induction f as [|f IH]; intros h Hb f' Hle.
  - cbn [drain fst] in Hb. rewrite (drain_nil f' h Hb). reflexivity.
  - destruct f' as [|f']; [lia|]. cbn [drain] in *. destruct (h_bus h); [reflexivity|].
    destruct (deliver_at h 0) as [h1 o1]. destruct (drain f h1) as [h2 o2] eqn:Hd. cbn [fst] in Hb.
    rewrite (IH h1); [now rewrite Hd|now rewrite Hd|lia].
Qed.
(* it is empty exactly when 500 deliveries suffice *)
Theorem qstep_bus_empty h o f : (f <= 500)%nat -> h_bus (fst (drain f (fst (step h o)))) = [] -> h_bus (fst (qstep h o)) = [].
Proof.
  intros Hle Hb. unfold qstep. destruct (step h o) as [h1 o1]. cbn [fst] in Hb.
  rewrite (drain_stable f h1 Hb 500 Hle). destruct (drain f h1) as [h2 o2]. exact Hb.
Qed.

(* ------------------------------------------------------------------ every history *)
Lemma is_msg_op_inv o : is_msg_op o = true -> exists ctl c to tag, o = op_of ctl c to tag.
Proof.
  destruct o; try discriminate; intros _.
  - exists false, c, to, tag. reflexivity.
  - exists true, c, to, tag. reflexivity.
Qed.

(* the bus queue is empty whenever a message op starts *)
Fixpoint quiet (h : hub) (ops : list op) : Prop :=
  match ops with
  | [] => True
  | o :: r => (is_msg_op o = true -> h_bus h = []) /\ quiet (fst (qstep h o)) r
  end.
Fixpoint quietb (h : hub) (ops : list op) : bool :=
  match ops with
  | [] => true
  | o :: r => (negb (is_msg_op o) || match h_bus h with [] => true | _ => false end) && quietb (fst (qstep h o)) r
  end.
Lemma quietb_quiet ops : forall h, quietb h ops = true -> quiet h ops.
Proof.
  induction ops as [|o r IH]; intros h H; cbn [quiet quietb] in *; [exact I|].
  apply andb_prop in H as [H1 H2]. split; [|now apply IH].
  intros Hm. rewrite Hm in H1. cbn in H1. destruct (h_bus h); [reflexivity|discriminate].
Qed.

Lemma quiet_of_empty ops : forall h,
  (forall pre post, ops = pre ++ post -> h_bus (qrun h pre) = []) -> quiet h ops.
Proof.
  induction ops as [|o r IH]; intros h H; cbn [quiet]; [exact I|]. split.
  - intros _. exact (H [] (o :: r) eq_refl).
  - apply IH. intros pre post E. apply (H (o :: pre) post). cbn [app]. now rewrite E.
Qed.

Theorem step_C05_model h o : WF h -> RI h -> (is_msg_op o = true -> h_bus h = []) ->
  step_C05 (digest_of h) o (obs_of_outs (snd (qstep h o))) = true.
Proof.
  intros W I Hb. destruct (is_msg_op o) eqn:Hm.
  - destruct (is_msg_op_inv o Hm) as (ctl & c & to & tag & ->). apply msg_step_C05; auto.
  - destruct o; try discriminate; reflexivity.
Qed.

Definition model_case_g (limits : list N) (gated : bool) (ops : list op) : hcase :=
  mkcase 0 1 limits gated (model_trace 1 (init limits gated) ops).

Lemma check_from cfg ops : pc_quiescent cfg = true -> forall h ps i,
  WF h -> RI h -> quiet h ops -> (forall o ob, step_C05 (ps_prev ps) o ob = step_C05 (digest_of h) o ob) ->
  check_trace 5 cfg i ps (model_trace 1 h ops) = None.
Proof.
  intros Hq. induction ops as [|o r IH]; intros h ps i W I Q Hpd; [reflexivity|].
  cbn [model_trace]. change (sem_step 1 h o) with (qstep h o).
  destruct (qstep h o) as [h' outs] eqn:Hs. destruct Q as [Qo Qr]. rewrite Hs in Qr. cbn [fst] in Qr.
  cbn [check_trace]. unfold check_step. rewrite Hq. cbn [negb orb].
  assert (HC : step_C05 (ps_prev ps) o (obs_of_outs outs) = true).
  { rewrite Hpd. replace outs with (snd (qstep h o)) by (now rewrite Hs). now apply step_C05_model. }
  rewrite HC. apply IH; auto.
  - replace h' with (fst (qstep h o)) by (now rewrite Hs). now apply wf_qstep.
  - replace h' with (fst (qstep h o)) by (now rewrite Hs). now apply ri_qstep.
Qed.

(* P_hub 5 (the property as the harness evaluates it) on the model's own trace finds nothing *)
Theorem C05_every_history limits gated ops :
  quiet (init limits gated) ops -> P_hub 5 (model_case_g limits gated ops) = None.
Proof.
  intros Q. unfold P_hub, model_case_g. cbn [k_limits k_mode k_trace].
  apply check_from; [reflexivity|apply wf_init|apply ri_init|exact Q|intros o ob; destruct o; reflexivity].
Qed.

(* the same, op by op: at every message op of a history that starts with an empty bus queue *)
Theorem C05_every_step limits gated pre ctl c to tag :
  let h := qrun (init limits gated) pre in
  let o := op_of ctl c to tag in
  h_bus h = [] ->
  step_C05 (digest_of h) o (obs_of_outs (snd (qstep h o))) = true /\
  erase_h (fst (qstep h o)) = erase_h h /\ h_bus (fst (qstep h o)) = [] /\
  (forall sid s, conn_sess h c sid s ->
     snd (qstep h o) = outs_of (ref_copies (digest_of h) (kind_of ctl) (sd_of h (sid, s)) to tag
                                           (ref_targets (digest_of h) ctl (sd_of h (sid, s)) to)) /\
     (forall m, In (ToConn c m) (snd (qstep h o)) ->
        exists n t v, to = RSession (IdPub n) /\ get_sess h n = Some t /\ s_kind t = KVirtual sid v /\
                      m = the_msg h (kind_of ctl) sid s to (Some (RcptVirtual v)) tag) /\
     (forall c' m, In (ToConn c' m) (snd (qstep h o)) ->
        exists r t, get_sess h r = Some t /\ s_conn t = Some c' /\ s_backend t = s_backend s /\ is_virtual (s_kind t) = false) /\
     (forall y, pend (fst (qstep h o)) y =
        match find (fun e => N.eqb (fst e) y) (ref_targets (digest_of h) ctl (sd_of h (sid, s)) to) with
        | Some e => if disc h y then enqueue (pend h y) (the_msg h (kind_of ctl) sid s to (snd e) tag) else pend h y
        | None => pend h y
        end)).
Proof.
  intros h o Hb. assert (W : WF h) by apply wf_reachable_q. assert (I : RI h) by apply ri_reachable_q.
  split; [now apply msg_step_C05|].
  destruct (msg_tables_unchanged ctl h c to tag W I Hb) as (A & B & _). split; [exact A|]. split; [exact B|].
  intros sid s Hcs. split; [now apply msg_outputs|]. split; [intros m; now apply (msg_not_to_sender ctl h c to tag sid s m)|].
  split; [intros c' m; now apply (msg_same_backend ctl h c to tag sid s c' m)|]. intros y. now apply (msg_queues ctl h c to tag sid s y).
Qed.

(* ------------------------------------------------------------------ witnesses *)
(* the invariants and the empty bus are satisfiable by a non-trivial reachable state: two backends, a
   room with three members of which one is in the call, an internal client with a virtual session, a
   disconnected member; the theorem applies to all the message ops of this history *)
Definition demo_ops : list op :=
  [OConnect 1 0; OConnect 2 0; OConnect 3 0; OConnect 4 0; OConnect 5 0;
   OHello 1 (HV1 0 7 false); OHello 2 (HV1 0 8 false); OHello 3 (HV1 0 8 false); OHello 4 (HInternal 0 0 false false);
   OHello 5 (HV1 1 7 false);
   OJoin 1 5 11 (RepOk None 0); OJoin 2 5 12 (RepOk None 0); OJoin 3 5 13 (RepOk None 0); OJoin 4 5 0 (RepOk None 0);
   OInternal 4 (IAdd 9 5 70 None None);
   OApi 0 0 5 (AInCall [(IdRS 12, 1, None)]);
   ODrop 3;
   OMsg 1 RRoom 100; OMsg 1 RCall 101; OMsg 1 (RUser 8) 102; OMsg 1 (RSession (IdPub 2)) 103;
   OMsg 1 (RSession (IdPub 5)) 104; OMsg 1 (RSession (IdPub 6)) 105; OCtl 2 RRoom 106; OMsg 4 (RSession (IdPub 6)) 107].

Example demo_quiet : quiet (init [0; 0] false) demo_ops.
Proof. apply quietb_quiet. vm_compute. reflexivity. Qed.
Example demo_outputs :
  map (fun x => fst x) (skipn 17 (model_run 1 (init [0; 0] false) demo_ops)) =
  [ [ToConn 2 (SMsg 0 2 1 7 None 100); ToConn 4 (SMsg 0 2 1 7 None 100)];
    [ToConn 2 (SMsg 0 3 1 7 None 101)];
    [ToConn 2 (SMsg 0 1 1 7 None 102)];
    [ToConn 2 (SMsg 0 0 1 7 None 103)];
    [];
    [ToConn 4 (SMsg 0 0 1 7 (Some (RcptVirtual 9)) 105)];
    [ToConn 1 (SMsg 1 2 2 8 None 106); ToConn 4 (SMsg 1 2 2 8 None 106)];
    [ToConn 4 (SMsg 0 0 4 0 (Some (RcptVirtual 9)) 107)] ].
Proof. vm_compute. reflexivity. Qed.
Example demo_history : P_hub 5 (model_case_g [0; 0] false demo_ops) = None.
Proof. apply C05_every_history, demo_quiet. Qed.

(* The one copy that does come back on the sender's connection: an internal client addressing one of
   its own virtual sessions gets the message on its own connection, the recipient rewritten to the
   virtual session's id (msg_not_to_sender says this is the only case). *)
Definition own_virtual_ops : list op :=
  [OConnect 1 0; OConnect 2 0; OHello 1 (HInternal 0 0 false false); OHello 2 (HV1 0 5 false);
   OJoin 2 1 1 (RepOk None 0); OInternal 1 (IAdd 7 1 9 None None); OMsg 1 (RSession (IdPub 3)) 42].
Example message_to_own_virtual_session :
  snd (qstep (qrun (init [0] false) (removelast own_virtual_ops)) (OMsg 1 (RSession (IdPub 3)) 42)) =
    [ToConn 1 (SMsg 0 0 1 0 (Some (RcptVirtual 7)) 42)] /\
  P_hub 5 (model_case_g [0] false own_virtual_ops) = None.
Proof. split; vm_compute; reflexivity. Qed.

(* The bus queue is NOT empty after every quiescent step: drain has fuel 500, one op can publish more. *)
Definition flood_ops : list op := [OApi 0 0 5 (ADisinvite (repeat 99 501) [])].
Lemma bus_empty_after_qstep_refuted : exists limits ops, h_bus (qrun (init limits false) ops) <> [].
Proof. exists [0], flood_ops. vm_compute. discriminate. Qed.

(* ... and a message op that starts with a publication still queued is not routed as the reference
   prescribes: the left-over disinvite closes the addressee before the message is delivered *)
Definition leftover_ops : list op :=
  [OConnect 1 0; OConnect 2 0; OHello 1 (HV1 0 1 false); OHello 2 (HV1 0 2 false);
   OJoin 1 5 0 (RepOk None 0); OJoin 2 5 0 (RepOk None 0);
   OApi 0 0 5 (ADisinvite (repeat 99 500 ++ [2]) []); OMsg 1 (RUser 2) 42].
Lemma history_needs_empty_bus_refuted :
  quietb (init [0] false) leftover_ops = false /\ P_hub 5 (model_case_g [0] false leftover_ops) = Some (7, 1).
Proof. split; vm_compute; reflexivity. Qed.
