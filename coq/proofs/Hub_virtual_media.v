(* C09: virtual sessions hold no media objects, for every history.

   The two invariants the statement needed (DESIGN.md, C09) are fields of AT (Hub_attach.v):
     - a virtual session never has a connection (at_virtual_conn), so the session a client message is processed
       for (with_session: the session attached to the connection the message arrived on) is never virtual, and
       the owner of every creation started at the media server is a live session that is not virtual
       (at_pending; closing a session abandons its pending creations, session ids are never handed out twice);
     - a virtual session has an empty publisher table and an empty subscriber table (at_virtual_toks): the only
       place that enters an object into a session's tables is finish_create, for the owner of the creation.
   With Own of Hub_own.v: every object open at the media server is held by a live session that is NOT virtual. *)
From Coq Require Import List NArith Bool.
From Verif Require Import model.Hub proofs.Hub_basics proofs.Hub_wf proofs.Hub_own proofs.Hub_attach.
Import ListNotations.
Open Scope N_scope.

(* a virtual session: no connection, no publisher, no subscriber, owner of no pending creation *)
Theorem virtual_sessions_hold_nothing h : reachable h ->
  forall sid s, get_sess h sid = Some s -> is_virtual (s_kind s) = true ->
  s_conn s = None /\ s_pubs s = [] /\ s_subs s = [] /\
  (forall tok p, In (tok, p) (h_mcupending h) -> mp_owner p <> sid).
Proof.
  intros R sid s Hs Hv. pose proof (at_reachable h R) as A.
  split; [apply (at_virtual_conn _ A sid s Hs Hv)|].
  destruct (toks_nil_inv s (at_virtual_toks _ A sid s Hs Hv)) as [Hp Hsu]. split; [exact Hp|]. split; [exact Hsu|].
  intros tok p Hin E. destruct (at_pending _ A tok p Hin) as (t & Ht & Hvt). rewrite E, Hs in Ht. injection Ht as <-. congruence.
Qed.

(* every creation the media server has not answered yet was started for a session that is live and not virtual *)
Theorem pending_creations_have_client_owner h : reachable h ->
  forall tok p, In (tok, p) (h_mcupending h) ->
  exists s, get_sess h (mp_owner p) = Some s /\ is_virtual (s_kind s) = false.
Proof. intros R. exact (at_pending _ (at_reachable h R)). Qed.

(* the sharpened ownership statement *)
Theorem open_objects_owned_by_client_sessions h : reachable h ->
  forall tok, In tok (h_mcuopen h) ->
  exists sid s, get_sess h sid = Some s /\ is_virtual (s_kind s) = false /\
                In tok (map snd (s_pubs s) ++ map snd (s_subs s)).
Proof.
  intros R tok Hin. destruct (own_reachable h R tok Hin) as (sid & s & Hs & Ht). exists sid, s.
  split; [exact Hs|]. split; [|exact Ht].
  destruct (is_virtual (s_kind s)) eqn:Hv; [|reflexivity].
  pose proof (at_virtual_toks _ (at_reachable h R) sid s Hs Hv) as E. unfold toks in E. rewrite E in Ht. destruct Ht.
Qed.

(* ... of exactly one *)
Theorem open_object_owner_unique_client h : reachable h ->
  forall tok, In tok (h_mcuopen h) ->
  exists sid s, get_sess h sid = Some s /\ is_virtual (s_kind s) = false /\
    In tok (map snd (s_pubs s) ++ map snd (s_subs s)) /\
    forall sid' s', get_sess h sid' = Some s' -> In tok (map snd (s_pubs s') ++ map snd (s_subs s')) -> sid' = sid.
Proof.
  intros R tok Hin. destruct (owner_unique h (reachable_inv h R) tok Hin) as (sid & s & Hs & Ht & Hu). exists sid, s.
  split; [exact Hs|]. split; [|split; [exact Ht|exact Hu]].
  destruct (is_virtual (s_kind s)) eqn:Hv; [|reflexivity].
  pose proof (at_virtual_toks _ (at_reachable h R) sid s Hs Hv) as E. unfold toks in E. rewrite E in Ht. destruct Ht.
Qed.

(* the session a client message is processed for is never virtual: media requests (and every other request
   that goes through with_session) come from ordinary or internal clients *)
Theorem request_session_not_virtual h c cn sid s : reachable h ->
  aget (h_conns h) c = Some cn -> c_sess cn = Some sid -> get_sess h sid = Some s -> is_virtual (s_kind s) = false.
Proof.
  intros R Hc Hcs Hs. destruct (connection_session_agree h c cn sid R Hc Hcs) as (s' & Hs' & _ & Hv & _). congruence.
Qed.

(* ------------------------------------------------------------------ not vacuous *)
(* a client (connection 1, session 1), an internal client (connection 2, session 2) and a virtual session (3) it added,
   all in the call of room 1; the client publishes, the internal client subscribes: the two objects are held by
   sessions 1 and 2, the virtual session has no connection and holds nothing - with the media server answering at once,
   with a gated media server before the completions (both creations pending, owners 1 and 2) and after them *)
Definition vm_ops : list op :=
  [OConnect 1 0; OHello 1 (HV1 0 7 false); OJoin 1 1 0 (RepOk None 0);
   OConnect 2 0; OHello 2 (HInternal 0 0 true false); OJoin 2 1 0 (RepOk None 0);
   OInternal 2 (IAdd 5 1 9 None None); OApi 0 0 1 (AInCallAll 1);
   OMedia 1 (RSession (IdPub 1)) 0 0 3; OMedia 2 (RSession (IdPub 1)) 1 0 0].
Definition vm_view (h : hub) :=
  (h_mcuopen h, map (fun e => (fst e, mp_owner (snd e))) (h_mcupending h),
   map (fun e => (fst e, is_virtual (s_kind (snd e)), s_conn (snd e), s_pubs (snd e), s_subs (snd e))) (h_sessions h)).
Example vm_example :
  vm_view (qrun (init [0; 0] false) vm_ops) =
    ([1; 2], [], [(1, false, Some 1, [(0, 1)], []); (2, false, Some 2, [], [(1, 0, 2)]); (3, true, None, [], [])]) /\
  vm_view (qrun (init [0; 0] true) vm_ops) =
    ([], [(1, 1); (2, 2)], [(1, false, Some 1, [], []); (2, false, Some 2, [], []); (3, true, None, [], [])]) /\
  vm_view (run (init [0; 0] true) (vm_ops ++ [OMcuDone 2 true; OMcuDone 1 true])) =
    ([2; 1], [], [(1, false, Some 1, [(0, 1)], []); (2, false, Some 2, [], [(1, 0, 2)]); (3, true, None, [], [])]).
Proof. vm_compute. repeat split; reflexivity. Qed.
