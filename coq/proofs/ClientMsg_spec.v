(* The documented message format (corr/Run_C10.v [spec_invalid_doc], written by hand
   from the API documentation) against the code (model/ClientMsg.v): whatever is
   invalid for a reader of the documentation is rejected by the decoder or by
   CheckValid. *)
From Coq Require Import List ZArith NArith String Bool Ascii Lia.
From Verif Require Import gen.Params gen.Schema lib.Json lib.Decode model.ClientMsg corr.Run_C10
  proofs.Decode_proofs proofs.Decode_depth proofs.ClientMsg_proofs.
Import ListNotations.
Open Scope string_scope.
Open Scope list_scope.

(* ================= part A: a defined member of the wrong kind ================================= *)
(* [covers d t]: the documented kind d is what the Go type t accepts at most *)
Definition covers_np (covers : dk -> gty -> bool) (d : dk) (t : gty) : bool :=
  match d, t with
  | DAny, _ => true
  | DStr, TString => true
  | DInt, TInt _ _ => true
  | DStrs, TSlice TString => true
  | DObj ms, TStruct fs =>
      forallb (fun kd => match field_type (fst kd) fs with
                         | Some ft => covers (snd kd) ft
                         | None => false
                         end) ms
  | _, _ => false
  end.

Fixpoint dk_size (d : dk) : nat :=
  match d with
  | DObj ms => S (fold_right (fun kd acc => dk_size (snd kd) + acc) 0 ms)
  | _ => 1
  end%nat.

Fixpoint covers_fuel (n : nat) (d : dk) (t : gty) : bool :=
  match n with
  | O => false
  | S k =>
      match t with
      | TPtr t' => covers_np (covers_fuel k) d t'
      | _ => covers_np (covers_fuel k) d t
      end
  end.

Definition bad_kind (t : gty) (j : json) : Prop := forall cur, exists e, decode t cur j = Err e.

Lemma bad_kind_ptr : forall t j, j <> JNull -> bad_kind t j -> bad_kind (TPtr t) j.
Proof.
  intros t j Hn Hb cur. destruct j; try congruence; cbn [decode];
    match goal with |- context [decode t ?c ?x] => destruct (Hb c) as [err Herr]; rewrite Herr; eauto end.
Qed.

Lemma decode_list_bad : forall l, forallb is_string l = false -> exists e, decode_list TString l = Err e.
Proof.
  induction l as [|x r IH]; intros H; [discriminate|]. cbn in H. cbn [decode_list].
  destruct (is_string x) eqn:Ex.
  - cbn in H. destruct (IH H) as [e He]. destruct x; try discriminate. cbn. rewrite He. eauto.
  - destruct x; try discriminate; cbn; eauto.
Qed.

Lemma field_type_in : forall k fs ft, field_type k fs = Some ft -> exists gn, In (gn, k, ft) fs.
Proof.
  unfold field_type. intros k fs ft H.
  destruct (find (fun f => String.eqb k (snd (fst f))) fs) as [[[gn jn] t]|] eqn:E; [|discriminate].
  inversion H; subst. apply find_some in E as [Hin Hk]. cbn in Hk. apply String.eqb_eq in Hk. subst. eauto.
Qed.

Lemma conforms_null : forall d, conforms d JNull = true.
Proof. destruct d; reflexivity. Qed.

Lemma wrong_kind_np : forall n, (forall d t j, covers_fuel n d t = true -> conforms d j = false -> bad_kind t j) ->
  forall d t j, (forall t', t <> TPtr t') -> covers_np (covers_fuel n) d t = true -> conforms d j = false -> bad_kind t j.
Proof.
  intros n IH d t j Hnp Hc Hj.
  destruct d as [| | | |ms].
  - (* DStr *) destruct t; try discriminate. destruct j; try discriminate; intros cur; cbn; eauto.
  - (* DInt *) destruct t; try discriminate. destruct j; try discriminate; intros cur; cbn; eauto.
  - (* DAny *) destruct j; discriminate.
  - (* DStrs *) destruct t as [| | | | | |t0| | | |]; try discriminate. destruct t0; try discriminate.
    destruct j; try discriminate; intros cur; try (cbn; eauto; fail).
    cbn in Hj. rewrite decode_slice_arr. destruct (decode_list_bad l Hj) as [e ->]. eauto.
  - (* DObj *) destruct t as [| | | | | | | | |fs|]; try discriminate.
    destruct j as [| | | | | |mem]; try discriminate; intros cur; try (cbn; eauto; fail).
    cbn [covers_np] in Hc. rewrite decode_struct_obj.
    (* some member of a defined name does not conform *)
    assert (Hex : exists k v d', In (k, v) mem /\ assoc k ms = Some d' /\ conforms d' v = false).
    { cbn [conforms] in Hj. clear Hc. induction mem as [|[k v] r IHr]; [discriminate|].
      destruct (assoc k ms) as [d'|] eqn:Ea.
      - destruct (conforms d' v) eqn:Ecv.
        + cbn [andb] in Hj. destruct (IHr Hj) as (k0 & v0 & d0 & Hin & Ha & Hcf). exists k0, v0, d0. split; [now right | auto].
        + exists k, v, d'. split; [now left | auto].
      - cbn [andb] in Hj. destruct (IHr Hj) as (k0 & v0 & d0 & Hin & Ha & Hcf). exists k0, v0, d0. split; [now right | auto]. }
    destruct Hex as (k & v & d' & Hin & Ha & Hcf).
    assert (Hcov : exists ft, field_type k fs = Some ft /\ covers_fuel n d' ft = true).
    { rewrite forallb_forall in Hc.
      assert (Hkd : In (k, d') ms).
      { clear - Ha. induction ms as [|[k0 d0] r IHr]; [discriminate|]. cbn in Ha.
        destruct (String.eqb k k0) eqn:E; [apply String.eqb_eq in E; inversion Ha; subst; now left | right; auto]. }
      specialize (Hc _ Hkd). cbn in Hc. destruct (field_type k fs) as [ft|]; [eauto | discriminate]. }
    destruct Hcov as (ft & Hft & Hcv).
    apply field_type_in in Hft as (gn & Hfs).
    assert (Hv : In v (nonnull_occurrences k mem)).
    { apply in_nonnull_occurrences. split; [exact Hin|]. intros ->. rewrite conforms_null in Hcf. discriminate. }
    destruct (decode_fields_err fs cur mem gn k ft v Hfs Hv (IH d' ft v Hcv Hcf)) as [e ->]. eauto.
Qed.

Lemma wrong_kind : forall n d t j, covers_fuel n d t = true -> conforms d j = false -> bad_kind t j.
Proof.
  induction n as [|n IH]; intros d t j Hc Hj; [discriminate|].
  cbn [covers_fuel] in Hc.
  assert (Hnn : j <> JNull). { intros ->. rewrite conforms_null in Hj. discriminate. }
  destruct t; try (eapply wrong_kind_np; eauto; intros t' E; discriminate).
  apply bad_kind_ptr; [exact Hnn|].
  destruct t; try (eapply wrong_kind_np; eauto; intros t' E; discriminate).
  (* pointer to pointer: covers_np has no case for it *)
  destruct d; cbn in Hc; try discriminate. destruct j; discriminate.
Qed.

Lemma doc_covered : covers_fuel 8 doc_client ty_client = true.
Proof. vm_compute. reflexivity. Qed.

Lemma nonconforming_fails : forall j, conforms doc_client j = false ->
  exists e, decode ty_client (zero ty_client) j = Err e.
Proof. intros j H. exact (wrong_kind 8 doc_client ty_client j doc_covered H (zero ty_client)). Qed.

(* ================= part B: reading a decoded struct from the document ========================= *)
Fixpoint nodupb (l : list string) : bool :=
  match l with
  | [] => true
  | x :: r => negb (existsb (String.eqb x) r) && nodupb r
  end.
Lemma nodupb_NoDup : forall l, nodupb l = true -> NoDup l.
Proof.
  induction l as [|x r IH]; intros H; [constructor|]. cbn in H. apply andb_true_iff in H as [H1 H2].
  constructor; [|auto]. intros Hin. apply negb_true_iff in H1.
  assert (existsb (String.eqb x) r = true) by (apply (proj2 (existsb_exists _ _)); exists x; split; [assumption | apply String.eqb_refl]).
  congruence.
Qed.

Lemma sget_zero : forall fs gn jn ft, In (gn, jn, ft) fs -> NoDup (map fname fs) ->
  sget gn (zero (TStruct fs)) (zero ft) = zero ft.
Proof.
  intros fs gn jn ft Hin Hnd. rewrite zero_struct. cbn [sget].
  induction fs as [|[[g j] t] r IH]; [destruct Hin|].
  cbn [map fname fst snd assoc]. inversion Hnd as [|? ? Hnot Hnd']; subst.
  destruct Hin as [E|Hin].
  - inversion E; subst. now rewrite String.eqb_refl.
  - destruct (String.eqb gn g) eqn:Eg.
    + apply String.eqb_eq in Eg. subst. exfalso. apply Hnot. apply (in_map fname) in Hin. exact Hin.
    + now apply IH.
Qed.

Section Views.
  Context (fs : list (string * string * gty)) (ms : members) (v : gval)
          (Hnd : nodupb (map fname fs) = true)
          (Hdec : decode (TStruct fs) (zero (TStruct fs)) (JObj ms) = Ok v).

  Lemma view_occs : forall gn jn ft, In (gn, jn, ft) fs ->
    decode_occs ft (nonnull_occurrences jn ms) (zero ft) = Ok (fld gn v).
  Proof.
    intros gn jn ft Hin. pose proof (nodupb_NoDup _ Hnd) as Hn.
    rewrite decode_struct_obj in Hdec. destruct (decode_fields fs (zero (TStruct fs)) ms) as [vs|] eqn:E; [|discriminate].
    inversion Hdec; subst v.
    destruct (decode_fields_assoc _ _ _ _ gn jn ft E Hn Hin) as (x & Hx & Ha).
    rewrite (sget_zero fs gn jn ft Hin Hn) in Hx. rewrite fld_struct, Ha. exact Hx.
  Qed.

  Lemma view_str : forall gn jn, In (gn, jn, TString) fs -> sfld gn v = str_or_empty jn ms.
  Proof.
    intros gn jn Hin. pose proof (view_occs gn jn TString Hin) as H. cbn [zero] in H.
    unfold sfld, str_or_empty, eff_str.
    destruct (last_nonnull jn ms) as [x|] eqn:El.
    - destruct (last_nonnull_split _ _ _ El) as [vs Evs]. rewrite Evs in H.
      apply decode_occs_last in H; [|exact replacing_string].
      destruct x; cbn in H; try discriminate. inversion H. reflexivity.
    - apply last_nonnull_none in El. rewrite El in H. cbn in H. inversion H. reflexivity.
  Qed.

  Lemma absent_nil : forall k, absent k ms = true -> nonnull_occurrences k ms = [].
  Proof. unfold absent. intros k H. destruct (nonnull_occurrences k ms); [reflexivity | discriminate]. Qed.

  Lemma single_one : forall k sub, single_obj k ms = Some sub -> nonnull_occurrences k ms = [JObj sub].
  Proof.
    unfold single_obj. intros k sub H. destruct (nonnull_occurrences k ms) as [|x r]; [discriminate|].
    destruct x; try discriminate. destruct r; [|discriminate]. inversion H. reflexivity.
  Qed.

  Lemma view_ptr_absent : forall gn jn t, In (gn, jn, TPtr t) fs -> absent jn ms = true -> deref (fld gn v) = None.
  Proof.
    intros gn jn t Hin Ha. pose proof (view_occs gn jn _ Hin) as H. rewrite (absent_nil _ Ha) in H.
    cbn in H. inversion H. reflexivity.
  Qed.

  Lemma view_ptr_single : forall gn jn fs' sub, In (gn, jn, TPtr (TStruct fs')) fs -> single_obj jn ms = Some sub ->
    exists sv, deref (fld gn v) = Some sv /\ decode (TStruct fs') (zero (TStruct fs')) (JObj sub) = Ok sv.
  Proof.
    intros gn jn fs' sub Hin Hs. pose proof (view_occs gn jn _ Hin) as H. rewrite (single_one _ _ Hs) in H.
    cbn [decode_occs zero] in H.
    change (decode (TPtr (TStruct fs')) GNil (JObj sub)) with
      (match decode (TStruct fs') (zero (TStruct fs')) (JObj sub) with Ok x => Ok (GPtr x) | Err e => Err e end) in H.
    destruct (decode (TStruct fs') (zero (TStruct fs')) (JObj sub)) as [sv|]; [|discriminate].
    inversion H. exists sv. split; reflexivity.
  Qed.

  Lemma view_raw_absent : forall gn jn, In (gn, jn, TRaw) fs -> absent jn ms = true -> as_raw (fld gn v) = None.
  Proof.
    intros gn jn Hin Ha. pose proof (view_occs gn jn _ Hin) as H. rewrite (absent_nil _ Ha) in H.
    cbn in H. inversion H. reflexivity.
  Qed.

  Lemma view_struct_absent : forall gn jn fs', In (gn, jn, TStruct fs') fs -> absent jn ms = true ->
    fld gn v = zero (TStruct fs').
  Proof.
    intros gn jn fs' Hin Ha. pose proof (view_occs gn jn _ Hin) as H. rewrite (absent_nil _ Ha) in H.
    cbn [decode_occs] in H. inversion H. reflexivity.
  Qed.

  Lemma view_struct_single : forall gn jn fs' sub, In (gn, jn, TStruct fs') fs -> nonnull_occurrences jn ms = [JObj sub] ->
    decode (TStruct fs') (zero (TStruct fs')) (JObj sub) = Ok (fld gn v).
  Proof.
    intros gn jn fs' sub Hin Hs. pose proof (view_occs gn jn _ Hin) as H. rewrite Hs in H.
    cbn [decode_occs] in H.
    destruct (decode (TStruct fs') (zero (TStruct fs')) (JObj sub)) as [sv|]; [|discriminate]. exact H.
  Qed.
End Views.

(* ================= part C: required members ====================================================== *)
Definition auth_fields : list (string * string * gty) := [("Type", "type", TString); ("Params", "params", TRaw); ("Url", "url", TString)].
Definition hello_fields : list (string * string * gty) :=
  [("Version", "version", TString); ("ResumeId", "resumeid", TString); ("Features", "features", TSlice TString);
   ("Auth", "auth", TPtr (TStruct auth_fields))].
Definition fed_fields : list (string * string * gty) :=
  [("SignalingUrl", "signaling", TString); ("NextcloudUrl", "url", TString); ("RoomId", "roomid", TString); ("Token", "token", TString)].
Definition room_fields : list (string * string * gty) :=
  [("RoomId", "roomid", TString); ("SessionId", "sessionid", TString); ("Federation", "federation", TPtr (TStruct fed_fields))].
Definition add_fields : list (string * string * gty) :=
  [("SessionId", "sessionid", TString); ("RoomId", "roomid", TString); ("UserId", "userid", TString); ("User", "user", TRaw);
   ("Flags", "flags", u32_t); ("InCall", "incall", TPtr int_t);
   ("Options", "options", TPtr (TStruct [("ActorId", "actorId", TString); ("ActorType", "actorType", TString)]))].
Definition upd_fields : list (string * string * gty) :=
  [("SessionId", "sessionid", TString); ("RoomId", "roomid", TString); ("Flags", "flags", TPtr u32_t); ("InCall", "incall", TPtr int_t)].
Definition rem_fields : list (string * string * gty) :=
  [("SessionId", "sessionid", TString); ("RoomId", "roomid", TString); ("UserId", "userid", TString)].
Definition incall_fields : list (string * string * gty) := [("InCall", "incall", int_t)].
Definition err_fields : list (string * string * gty) := [("Code", "code", TString); ("Message", "message", TString); ("Details", "details", TRaw)].
Definition status_fields : list (string * string * gty) :=
  [("CallId", "callid", TString); ("Status", "status", TString); ("Cause", "cause", TString); ("Code", "code", int_t); ("Message", "message", TString)].
Definition dialout_fields : list (string * string * gty) :=
  [("Type", "type", TString); ("RoomId", "roomid", TString); ("Error", "error", TPtr (TStruct err_fields)); ("Status", "status", TPtr (TStruct status_fields))].
Definition internal_fields : list (string * string * gty) :=
  [("Type", "type", TString); ("AddSession", "addsession", TPtr (TStruct add_fields)); ("UpdateSession", "updatesession", TPtr (TStruct upd_fields));
   ("RemoveSession", "removesession", TPtr (TStruct rem_fields)); ("InCall", "incall", TPtr (TStruct incall_fields));
   ("Dialout", "dialout", TPtr (TStruct dialout_fields))].
Definition transient_fields : list (string * string * gty) :=
  [("Type", "type", TString); ("Key", "key", TString); ("Value", "value", TRaw); ("TTL", "ttl", int_t)].

Lemma client_fields_eq : client_fields =
  [("Id", "id", TString); ("Type", "type", TString); ("Hello", "hello", TPtr (TStruct hello_fields)); ("Bye", "bye", TPtr (TStruct []));
   ("Room", "room", TPtr (TStruct room_fields)); ("Message", "message", TPtr (TStruct message_fields));
   ("Control", "control", TPtr (TStruct message_fields)); ("Internal", "internal", TPtr (TStruct internal_fields));
   ("TransientData", "transient", TPtr (TStruct transient_fields))].
Proof. reflexivity. Qed.

Ltac infs := cbn; tauto.
Ltac nd := vm_compute; reflexivity.

Lemma in_list_or : forall s l, in_list s l = true -> In s l.
Proof.
  unfold in_list. intros s l H. apply existsb_exists in H as (x & Hin & E). apply String.eqb_eq in E. now subst.
Qed.

Section Required.
  Context (url_ok requri_ok : string -> bool).
  Notation check_valid := (check_valid url_ok requri_ok).
  Notation check_hello := (check_hello url_ok requri_ok).
  Notation check_room := (check_room url_ok).

  Lemma hello_bad : forall sub h, decode (TStruct hello_fields) (zero (TStruct hello_fields)) (JObj sub) = Ok h ->
    bad_sub "hello" sub = true -> exists c, check_hello h = CErr c.
  Proof.
    intros sub h Hd Hb. assert (Hn : nodupb (map fname hello_fields) = true) by nd.
    pose proof (view_str _ _ _ Hn Hd "Version" "version" ltac:(infs)) as Ev.
    pose proof (view_str _ _ _ Hn Hd "ResumeId" "resumeid" ltac:(infs)) as Er.
    unfold ClientMsg.check_hello. rewrite Ev, Er.
    change (bad_sub "hello" sub) with
      (negb (in_list (str_or_empty "version" sub) ["1.0"; "2.0"]) ||
       (String.eqb (str_or_empty "resumeid" sub) "" &&
        (absent "auth" sub ||
         match single_obj "auth" sub with
         | Some a => absent "params" a ||
                     (let aty := str_or_empty "type" a in
                      negb (in_list aty [""; "client"; "federation"; "internal"]) ||
                      (in_list aty [""; "client"; "federation"] && String.eqb (str_or_empty "url" a) ""))
         | None => false
         end))) in Hb.
    unfold in_list, existsb in Hb. unfold eqs.
    set (ver := str_or_empty "version" sub) in *.
    destruct (negb (String.eqb ver "1.0" || String.eqb ver "2.0")) eqn:E1; [eauto|].
    rewrite orb_false_r in Hb. rewrite E1 in Hb. cbn [orb] in Hb.
    apply andb_true_iff in Hb as [Hr Hb]. rewrite Hr. cbn [negb].
    apply orb_true_iff in Hb as [Ha|Hs].
    - rewrite (view_ptr_absent _ _ _ Hn Hd "Auth" "auth" _ ltac:(infs) Ha). eauto.
    - destruct (single_obj "auth" sub) as [a|] eqn:Es; [|discriminate].
      destruct (view_ptr_single _ _ _ Hn Hd "Auth" "auth" auth_fields a ltac:(infs) Es) as (av & Hav & Hdav).
      rewrite Hav. assert (Hna : nodupb (map fname auth_fields) = true) by nd.
      pose proof (view_str _ _ _ Hna Hdav "Type" "type" ltac:(infs)) as Et.
      pose proof (view_str _ _ _ Hna Hdav "Url" "url" ltac:(infs)) as Eu.
      apply orb_true_iff in Hs as [Hp|Hs].
      + rewrite (view_raw_absent _ _ _ Hna Hdav "Params" "params" ltac:(infs) Hp). eauto.
      + destruct (as_raw (fld "Params" av)) as [params|]; [|eauto].
        rewrite Et, Eu. cbn zeta in Hs. set (aty := str_or_empty "type" a) in *.
        rewrite !orb_false_r in Hs.
        destruct (String.eqb aty "") eqn:A0.
        { cbn [orb negb andb] in Hs. cbn [String.eqb Ascii.eqb Bool.eqb andb orb]. rewrite Hs. eauto. }
        cbv iota.
        destruct (String.eqb aty "client") eqn:A1.
        { cbn [orb negb andb] in Hs. cbn [orb]. rewrite Hs. eauto. }
        destruct (String.eqb aty "federation") eqn:A2.
        { cbn [orb negb andb] in Hs. cbn [orb]. rewrite Hs. eauto. }
        cbn [orb].
        destruct (String.eqb aty "internal") eqn:A3; [cbn in Hs; discriminate | eauto].
  Qed.

  Lemma room_bad : forall sub r, decode (TStruct room_fields) (zero (TStruct room_fields)) (JObj sub) = Ok r ->
    bad_sub "room" sub = true -> exists c, check_room r = CErr c.
  Proof.
    intros sub r Hd Hb. assert (Hn : nodupb (map fname room_fields) = true) by nd.
    change (bad_sub "room" sub) with
      (match single_obj "federation" sub with
       | Some f => String.eqb (str_or_empty "signaling" f) "" || String.eqb (str_or_empty "url" f) "" || String.eqb (str_or_empty "token" f) ""
       | None => false
       end) in Hb.
    destruct (single_obj "federation" sub) as [f|] eqn:Es; [|discriminate].
    destruct (view_ptr_single _ _ _ Hn Hd "Federation" "federation" fed_fields f ltac:(infs) Es) as (fv & Hfv & Hdf).
    unfold ClientMsg.check_room. rewrite Hfv. assert (Hnf : nodupb (map fname fed_fields) = true) by nd.
    unfold ClientMsg.check_federation, eqs.
    rewrite (view_str _ _ _ Hnf Hdf "SignalingUrl" "signaling" ltac:(infs)),
            (view_str _ _ _ Hnf Hdf "NextcloudUrl" "url" ltac:(infs)),
            (view_str _ _ _ Hnf Hdf "Token" "token" ltac:(infs)).
    destruct (String.eqb (str_or_empty "signaling" f) ""); [eauto|].
    destruct (negb (url_ok (with_slash (str_or_empty "signaling" f)))); [eauto|].
    destruct (String.eqb (str_or_empty "url" f) ""); [eauto|].
    destruct (negb (url_ok (str_or_empty "url" f))); [eauto|].
    cbn [orb] in Hb. rewrite Hb. eauto.
  Qed.

  Lemma message_bad : forall ty sub x, ty = "message" \/ ty = "control" ->
    decode (TStruct message_fields) (zero (TStruct message_fields)) (JObj sub) = Ok x ->
    bad_sub ty sub = true -> exists c, check_message x = CErr c.
  Proof.
    intros ty sub x Hty Hd Hb. assert (Hn : nodupb (map fname message_fields) = true) by nd.
    assert (Hb' : absent "data" sub || bad_recipient sub = true) by (destruct Hty as [-> | ->]; exact Hb).
    clear Hb. unfold check_message.
    apply orb_true_iff in Hb' as [Ha|Hr].
    { rewrite (view_raw_absent _ _ _ Hn Hd "Data" "data" ltac:(infs) Ha). eauto. }
    destruct (as_raw (fld "Data" x)); [|eauto].
    unfold bad_recipient in Hr.
    destruct (nonnull_occurrences "recipient" sub) as [|o [|o2 r2]] eqn:Eo.
    - assert (Ha : absent "recipient" sub = true) by (unfold absent; now rewrite Eo).
      rewrite (view_struct_absent _ _ _ Hn Hd "Recipient" "recipient" recipient_fields ltac:(infs) Ha). cbn. eauto.
    - destruct o; try discriminate.
      pose proof (view_struct_single _ _ _ Hn Hd "Recipient" "recipient" recipient_fields ms ltac:(infs) Eo) as Hrc.
      assert (Hnr : nodupb (map fname recipient_fields) = true) by nd.
      unfold eqs.
      rewrite (view_str _ _ _ Hnr Hrc "Type" "type" ltac:(infs)),
              (view_str _ _ _ Hnr Hrc "SessionId" "sessionid" ltac:(infs)),
              (view_str _ _ _ Hnr Hrc "UserId" "userid" ltac:(infs)).
      unfold in_list, existsb in Hr. set (t := str_or_empty "type" ms) in *.
      rewrite orb_false_r in Hr.
      destruct (String.eqb t "room") eqn:T1; [rewrite (proj1 (String.eqb_eq _ _) T1) in Hr; cbn in Hr; discriminate|].
      destruct (String.eqb t "call") eqn:T2; [rewrite (proj1 (String.eqb_eq _ _) T2) in Hr; cbn in Hr; discriminate|].
      cbn [orb].
      destruct (String.eqb t "session") eqn:T3.
      { cbn [orb negb andb] in Hr. destruct (String.eqb t "user") eqn:T4.
        - apply String.eqb_eq in T3, T4. congruence.
        - cbn [andb orb] in Hr. rewrite orb_false_r in Hr. rewrite Hr. eauto. }
      destruct (String.eqb t "user") eqn:T4; [|eauto].
      cbn [orb negb andb] in Hr. rewrite Hr. eauto.
    - destruct o; discriminate.
  Qed.

  Lemma common_bad : forall fs' sub s, In ("SessionId", "sessionid", TString) fs' -> In ("RoomId", "roomid", TString) fs' ->
    nodupb (map fname fs') = true ->
    decode (TStruct fs') (zero (TStruct fs')) (JObj sub) = Ok s -> bad_common sub = true -> exists c, check_common s = CErr c.
  Proof.
    intros fs' sub s H1 H2 Hn Hd Hb. unfold check_common, eqs.
    rewrite (view_str _ _ _ Hn Hd "SessionId" "sessionid" H1), (view_str _ _ _ Hn Hd "RoomId" "roomid" H2).
    unfold bad_common in Hb. destruct (String.eqb (str_or_empty "sessionid" sub) ""); [eauto|].
    cbn [orb] in Hb. rewrite Hb. eauto.
  Qed.

  Lemma dialout_bad : forall sub d, decode (TStruct dialout_fields) (zero (TStruct dialout_fields)) (JObj sub) = Ok d ->
    (let dty := str_or_empty "type" sub in
     String.eqb dty "" || (String.eqb dty "error" && absent "error" sub) || (String.eqb dty "status" && absent "status" sub)) = true ->
    exists c, check_dialout d = CErr c.
  Proof.
    intros sub d Hd Hb. assert (Hn : nodupb (map fname dialout_fields) = true) by nd. cbn zeta in Hb.
    unfold check_dialout, eqs. rewrite (view_str _ _ _ Hn Hd "Type" "type" ltac:(infs)).
    set (t := str_or_empty "type" sub) in *.
    destruct (String.eqb t "") eqn:T0; [eauto|]. cbn [orb] in Hb.
    destruct (String.eqb t "error") eqn:T1.
    { cbn [andb orb] in Hb. assert (T2 : String.eqb t "status" = false).
      { apply String.eqb_eq in T1. rewrite T1. reflexivity. }
      rewrite T2 in Hb. cbn [andb] in Hb. rewrite orb_false_r in Hb.
      rewrite (view_ptr_absent _ _ _ Hn Hd "Error" "error" _ ltac:(infs) Hb). eauto. }
    cbn [andb orb] in Hb. destruct (String.eqb t "status") eqn:T2; [|discriminate].
    cbn [andb] in Hb. rewrite (view_ptr_absent _ _ _ Hn Hd "Status" "status" _ ltac:(infs) Hb). eauto.
  Qed.

  Lemma internal_bad : forall sub i, decode (TStruct internal_fields) (zero (TStruct internal_fields)) (JObj sub) = Ok i ->
    bad_sub "internal" sub = true -> exists c, check_internal i = CErr c.
  Proof.
    intros sub i Hd Hb. assert (Hn : nodupb (map fname internal_fields) = true) by nd.
    change (bad_sub "internal" sub) with
      (let ity := str_or_empty "type" sub in
       String.eqb ity "" ||
       (in_list ity ["addsession"; "updatesession"; "removesession"; "incall"; "dialout"] && absent ity sub) ||
       (in_list ity ["addsession"; "updatesession"; "removesession"] &&
        match single_obj ity sub with Some s => bad_common s | None => false end) ||
       (String.eqb ity "dialout" &&
        match single_obj "dialout" sub with
        | Some d =>
            let dty := str_or_empty "type" d in
            String.eqb dty "" || (String.eqb dty "error" && absent "error" d) || (String.eqb dty "status" && absent "status" d)
        | None => false
        end)) in Hb.
    cbn zeta in Hb. unfold check_internal, eqs. rewrite (view_str _ _ _ Hn Hd "Type" "type" ltac:(infs)).
    set (t := str_or_empty "type" sub) in *.
    destruct (String.eqb t "") eqn:T0; [eauto|]. cbn [orb] in Hb.
    destruct (String.eqb t "addsession") eqn:T1.
    { apply String.eqb_eq in T1. rewrite T1 in Hb. cbn [in_list existsb String.eqb Ascii.eqb Bool.eqb andb orb] in Hb.
      rewrite !orb_false_r in Hb. apply orb_true_iff in Hb as [Ha|Hs]; unfold check_sub.
      - rewrite (view_ptr_absent _ _ _ Hn Hd "AddSession" "addsession" _ ltac:(infs) Ha). eauto.
      - destruct (single_obj "addsession" sub) as [s|] eqn:Es; [|discriminate].
        destruct (view_ptr_single _ _ _ Hn Hd "AddSession" "addsession" add_fields s ltac:(infs) Es) as (sv & -> & Hds).
        apply (common_bad add_fields s sv); [infs | infs | nd | exact Hds | exact Hs]. }
    destruct (String.eqb t "updatesession") eqn:T2.
    { apply String.eqb_eq in T2. rewrite T2 in Hb. cbn [in_list existsb String.eqb Ascii.eqb Bool.eqb andb orb] in Hb.
      rewrite !orb_false_r in Hb. apply orb_true_iff in Hb as [Ha|Hs]; unfold check_sub.
      - rewrite (view_ptr_absent _ _ _ Hn Hd "UpdateSession" "updatesession" _ ltac:(infs) Ha). eauto.
      - destruct (single_obj "updatesession" sub) as [s|] eqn:Es; [|discriminate].
        destruct (view_ptr_single _ _ _ Hn Hd "UpdateSession" "updatesession" upd_fields s ltac:(infs) Es) as (sv & -> & Hds).
        apply (common_bad upd_fields s sv); [infs | infs | nd | exact Hds | exact Hs]. }
    destruct (String.eqb t "removesession") eqn:T3.
    { apply String.eqb_eq in T3. rewrite T3 in Hb. cbn [in_list existsb String.eqb Ascii.eqb Bool.eqb andb orb] in Hb.
      rewrite !orb_false_r in Hb. apply orb_true_iff in Hb as [Ha|Hs]; unfold check_sub.
      - rewrite (view_ptr_absent _ _ _ Hn Hd "RemoveSession" "removesession" _ ltac:(infs) Ha). eauto.
      - destruct (single_obj "removesession" sub) as [s|] eqn:Es; [|discriminate].
        destruct (view_ptr_single _ _ _ Hn Hd "RemoveSession" "removesession" rem_fields s ltac:(infs) Es) as (sv & -> & Hds).
        apply (common_bad rem_fields s sv); [infs | infs | nd | exact Hds | exact Hs]. }
    destruct (String.eqb t "incall") eqn:T4.
    { apply String.eqb_eq in T4. rewrite T4 in Hb. cbn [in_list existsb String.eqb Ascii.eqb Bool.eqb andb orb] in Hb.
      rewrite !orb_false_r in Hb. unfold check_sub.
      rewrite (view_ptr_absent _ _ _ Hn Hd "InCall" "incall" _ ltac:(infs) Hb). eauto. }
    destruct (String.eqb t "dialout") eqn:T5.
    { apply String.eqb_eq in T5. rewrite T5 in Hb. cbn [in_list existsb String.eqb Ascii.eqb Bool.eqb andb orb] in Hb.
      rewrite !orb_false_r in Hb. apply orb_true_iff in Hb as [Ha|Hs]; unfold check_sub.
      - rewrite (view_ptr_absent _ _ _ Hn Hd "Dialout" "dialout" _ ltac:(infs) Ha). eauto.
      - destruct (single_obj "dialout" sub) as [s|] eqn:Es; [|discriminate].
        destruct (view_ptr_single _ _ _ Hn Hd "Dialout" "dialout" dialout_fields s ltac:(infs) Es) as (sv & -> & Hds).
        apply (dialout_bad s sv Hds). exact Hs. }
    exfalso. unfold in_list, existsb in Hb. rewrite T1, T2, T3, T4, T5 in Hb. cbn in Hb. discriminate.
  Qed.

  Lemma transient_bad : forall sub t, decode (TStruct transient_fields) (zero (TStruct transient_fields)) (JObj sub) = Ok t ->
    bad_sub "transient" sub = true -> exists c, check_transient t = CErr c.
  Proof.
    intros sub t Hd Hb. assert (Hn : nodupb (map fname transient_fields) = true) by nd.
    change (bad_sub "transient" sub) with
      (in_list (str_or_empty "type" sub) ["set"; "remove"] && String.eqb (str_or_empty "key" sub) "") in Hb.
    unfold check_transient, eqs.
    rewrite (view_str _ _ _ Hn Hd "Type" "type" ltac:(infs)), (view_str _ _ _ Hn Hd "Key" "key" ltac:(infs)).
    apply andb_true_iff in Hb as [H1 H2]. unfold in_list, existsb in H1. rewrite orb_false_r in H1.
    rewrite H1, H2. eauto.
  Qed.
End Required.

(* ================= the theorem ==================================================================== *)
Section Main.
  Context (url_ok requri_ok : string -> bool).
  Notation check_valid := (check_valid url_ok requri_ok).

  Lemma cv_is_hello : forall m, sfld "Type" m = "hello" -> check_valid m = check_sub "Hello" (check_hello url_ok requri_ok) m.
  Proof. intros m E. unfold ClientMsg.check_valid. rewrite E. reflexivity. Qed.
  Lemma cv_is_room : forall m, sfld "Type" m = "room" -> check_valid m = check_sub "Room" (check_room url_ok) m.
  Proof. intros m E. unfold ClientMsg.check_valid. rewrite E. reflexivity. Qed.
  Lemma cv_is_message : forall m, sfld "Type" m = "message" -> check_valid m = check_sub "Message" check_message m.
  Proof. intros m E. unfold ClientMsg.check_valid. rewrite E. reflexivity. Qed.
  Lemma cv_is_control : forall m, sfld "Type" m = "control" -> check_valid m = check_sub "Control" check_message m.
  Proof. intros m E. unfold ClientMsg.check_valid. rewrite E. reflexivity. Qed.
  Lemma cv_is_internal : forall m, sfld "Type" m = "internal" -> check_valid m = check_sub "Internal" check_internal m.
  Proof. intros m E. unfold ClientMsg.check_valid. rewrite E. reflexivity. Qed.
  Lemma cv_is_transient : forall m, sfld "Type" m = "transient" -> check_valid m = check_sub "TransientData" check_transient m.
  Proof. intros m E. unfold ClientMsg.check_valid. rewrite E. reflexivity. Qed.
  Lemma cv_is_empty : forall m, sfld "Type" m = "" -> check_valid m = CErr EInvalidFormat.
  Proof. intros m E. unfold ClientMsg.check_valid. rewrite E. reflexivity. Qed.

  Lemma typed_cases : forall ty, in_list ty typed_messages = true ->
    ty = "hello" \/ ty = "room" \/ ty = "message" \/ ty = "control" \/ ty = "internal" \/ ty = "transient".
  Proof. intros ty H. apply in_list_or in H. cbn in H. intuition. Qed.

  Theorem spec_invalid_rejected : forall j, spec_invalid_doc j = true -> exists r, rejected url_ok requri_ok j = Some r.
  Proof.
    intros j H. unfold rejected.
    destruct (negb (skipped_ok ty_client j)); [eauto|].
    destruct (decode ty_client (zero ty_client) j) as [m|] eqn:Hd; [|eauto].
    enough (exists c, check_valid m = CErr c) as [c ->] by eauto.
    rewrite ty_client_eq in Hd.
    destruct j as [| | | | | |ms]; try (cbn [decode] in Hd; discriminate).
    - cbn [decode] in Hd. inversion Hd; subst m. exists EInvalidFormat. apply cv_is_empty. reflexivity.
    - unfold spec_invalid_doc in H. apply orb_true_iff in H as [Hc|H].
      { apply negb_true_iff in Hc. destruct (nonconforming_fails _ Hc) as [e He].
        rewrite ty_client_eq in He. congruence. }
      rewrite client_fields_eq in Hd.
      set (cf := [("Id", "id", TString); ("Type", "type", TString); ("Hello", "hello", TPtr (TStruct hello_fields)); ("Bye", "bye", TPtr (TStruct []));
                  ("Room", "room", TPtr (TStruct room_fields)); ("Message", "message", TPtr (TStruct message_fields));
                  ("Control", "control", TPtr (TStruct message_fields)); ("Internal", "internal", TPtr (TStruct internal_fields));
                  ("TransientData", "transient", TPtr (TStruct transient_fields))]) in *.
      assert (Hn : nodupb (map fname cf) = true) by nd.
      pose proof (view_str _ _ _ Hn Hd "Type" "type" ltac:(infs)) as ET.
      unfold str_or_empty in ET.
      destruct (eff_str "type" ms) as [ty|] eqn:Ety.
      2: { exists EInvalidFormat. now apply cv_is_empty. }
      apply orb_true_iff in H as [H|H]; [apply orb_true_iff in H as [H|H]|].
      + apply String.eqb_eq in H. subst ty. exists EInvalidFormat. now apply cv_is_empty.
      + apply andb_true_iff in H as [Hty Habs]. apply typed_cases in Hty.
        destruct Hty as [-> | [-> | [-> | [-> | [-> | ->]]]]].
        * rewrite (cv_is_hello m ET). unfold check_sub. rewrite (view_ptr_absent _ _ _ Hn Hd "Hello" "hello" _ ltac:(infs) Habs). eauto.
        * rewrite (cv_is_room m ET). unfold check_sub. rewrite (view_ptr_absent _ _ _ Hn Hd "Room" "room" _ ltac:(infs) Habs). eauto.
        * rewrite (cv_is_message m ET). unfold check_sub. rewrite (view_ptr_absent _ _ _ Hn Hd "Message" "message" _ ltac:(infs) Habs). eauto.
        * rewrite (cv_is_control m ET). unfold check_sub. rewrite (view_ptr_absent _ _ _ Hn Hd "Control" "control" _ ltac:(infs) Habs). eauto.
        * rewrite (cv_is_internal m ET). unfold check_sub. rewrite (view_ptr_absent _ _ _ Hn Hd "Internal" "internal" _ ltac:(infs) Habs). eauto.
        * rewrite (cv_is_transient m ET). unfold check_sub. rewrite (view_ptr_absent _ _ _ Hn Hd "TransientData" "transient" _ ltac:(infs) Habs). eauto.
      + destruct (single_obj ty ms) as [sub|] eqn:Es; [|discriminate].
        apply andb_true_iff in H as [Hty Hbad]. apply typed_cases in Hty.
        destruct Hty as [-> | [-> | [-> | [-> | [-> | ->]]]]].
        * destruct (view_ptr_single _ _ _ Hn Hd "Hello" "hello" hello_fields sub ltac:(infs) Es) as (sv & Hsv & Hds).
          rewrite (cv_is_hello m ET). unfold check_sub. rewrite Hsv. now apply hello_bad with sub.
        * destruct (view_ptr_single _ _ _ Hn Hd "Room" "room" room_fields sub ltac:(infs) Es) as (sv & Hsv & Hds).
          rewrite (cv_is_room m ET). unfold check_sub. rewrite Hsv. now apply room_bad with sub.
        * destruct (view_ptr_single _ _ _ Hn Hd "Message" "message" message_fields sub ltac:(infs) Es) as (sv & Hsv & Hds).
          rewrite (cv_is_message m ET). unfold check_sub. rewrite Hsv. apply message_bad with "message" sub; auto.
        * destruct (view_ptr_single _ _ _ Hn Hd "Control" "control" message_fields sub ltac:(infs) Es) as (sv & Hsv & Hds).
          rewrite (cv_is_control m ET). unfold check_sub. rewrite Hsv. apply message_bad with "control" sub; auto.
        * destruct (view_ptr_single _ _ _ Hn Hd "Internal" "internal" internal_fields sub ltac:(infs) Es) as (sv & Hsv & Hds).
          rewrite (cv_is_internal m ET). unfold check_sub. rewrite Hsv. now apply internal_bad with sub.
        * destruct (view_ptr_single _ _ _ Hn Hd "TransientData" "transient" transient_fields sub ltac:(infs) Es) as (sv & Hsv & Hds).
          rewrite (cv_is_transient m ET). unfold check_sub. rewrite Hsv. now apply transient_bad with sub.
  Qed.
End Main.

Definition ex_spec_invalid : list json :=
  [JNull; JObj []; JObj [("type", JStr "room")]; JObj [("type", JNum 1)]; JObj [("type", JStr "bye"); ("hello", JArr [])];
   JObj [("type", JStr "message"); ("message", JObj [("recipient", JObj [("type", JStr "session")]); ("data", JNum 1)])];
   JObj [("type", JStr "hello"); ("hello", JObj [("version", JStr "3.0")])];
   JObj [("type", JStr "internal"); ("internal", JObj [("type", JStr "dialout"); ("dialout", JObj [("type", JStr "status")])])];
   JObj [("type", JStr "transient"); ("transient", JObj [("type", JStr "set")])]].
