(* Lemmas about model/Federation.v. *)
From Coq Require Import List ZArith NArith Bool String Lia.
From Verif Require Import gen.Params gen.Schema model.Federation.
Import ListNotations.
Open Scope Z_scope.

(* ---- the shape types cover exactly the pointer / slice / map members of the
        protocol structs in the current source ------------------------------------ *)
Definition is_ref (ty : string) : bool := (prefix "*" ty || prefix "[]" ty || prefix "map[" ty)%bool.
Definition ref_fields (s : list field) : list string :=
  map (fun f => snd (fst (fst f))) (filter (fun f => is_ref (snd (fst f))) s).

Lemma shape_covers_ServerMessage : ref_fields schema_ServerMessage = shape_ServerMessage.
Proof. vm_compute. reflexivity. Qed.
Lemma shape_covers_EventServerMessage : ref_fields schema_EventServerMessage = shape_EventServerMessage.
Proof. vm_compute. reflexivity. Qed.
Lemma shape_covers_RoomEventServerMessage : ref_fields schema_RoomEventServerMessage = shape_RoomEventServerMessage.
Proof. vm_compute. reflexivity. Qed.
Lemma shape_covers_RoomDisinvite : ref_fields schema_RoomDisinviteEventServerMessage = [].
Proof. vm_compute. reflexivity. Qed.
Lemma shape_covers_MessageServerMessage : ref_fields schema_MessageServerMessage = shape_MessageServerMessage.
Proof. vm_compute. reflexivity. Qed.
Lemma shape_covers_ControlServerMessage : ref_fields schema_ControlServerMessage = shape_MessageServerMessage.
Proof. vm_compute. reflexivity. Qed.
Lemma shape_covers_HelloServerMessage : ref_fields schema_HelloServerMessage = shape_HelloServerMessage.
Proof. vm_compute. reflexivity. Qed.

(* ---- avoiding a set of bad outcomes ------------------------------------------------
   [bad] is the set of outcomes to be excluded.  Stuck needs repair 02, Panic needs
   repairs 01 and 03; the lemmas are stated once for both. *)
Definition bad_free (bad : outcome -> bool) (r : res) : Prop := bad (out_of r) = false.

Definition cond (bad : outcome -> bool) (v : variant) : Prop :=
  bad Ok = false /\ (bad Stuck = true -> v_lock v = true) /\ (bad Panic = true -> v_close v = true).

Lemma ok_bf : forall bad v s a, cond bad v -> bad_free bad (ok s a).
Proof. intros bad v s a [H0 _]. exact H0. Qed.

Lemma andthen_bf : forall bad v r f, cond bad v ->
  bad_free bad r -> (forall s, bad_free bad (f s)) -> bad_free bad (andthen r f).
Proof.
  intros bad v [[s a] o] f Hc Hr Hf. unfold bad_free in *. destruct o; cbn in *.
  - specialize (Hf s). destruct (f s) as [[s' a'] o']. exact Hf.
  - exact Hr.
  - exact Hr.
Qed.

Lemma sched_bf : forall bad v s, cond bad v -> bad_free bad (sched s).
Proof. intros bad v s [H0 _]. exact H0. Qed.

Lemma defer_bf : forall bad v held s m, cond bad v -> bad_free bad (defer v held s m).
Proof.
  intros bad v held s m [H0 [HS _]]. unfold defer, bad_free.
  destruct (v_lock v) eqn:El.
  - destruct (is_hello m); exact H0.
  - destruct held; cbn; [|exact H0].
    destruct (bad Stuck) eqn:Eb; [|reflexivity]. specialize (HS eq_refl). congruence.
Qed.

Lemma send_remote_bf : forall bad v wf held s m, cond bad v -> bad_free bad (send_remote v wf held s m).
Proof.
  intros bad v wf held s m Hc. unfold send_remote.
  destruct (connected s).
  - destruct wf.
    + eapply andthen_bf; eauto using defer_bf. intros; eapply sched_bf; eauto.
    + eapply ok_bf; eauto.
  - destruct (is_room m); [eapply ok_bf; eauto | eapply defer_bf; eauto].
Qed.

Lemma close_fc_bf : forall bad v wf held s, cond bad v -> bad_free bad (close_fc v wf held s).
Proof.
  intros bad v wf held s Hc. unfold close_fc.
  destruct (connected (set_closed true s)).
  - eapply andthen_bf; eauto using send_remote_bf.
    intros s1. destruct (connected s1); [eapply ok_bf; eauto|].
    destruct (v_close v) eqn:Ev; [eapply ok_bf; eauto|].
    destruct Hc as [_ [_ HP]]. unfold bad_free; cbn.
    destruct (bad Panic) eqn:Eb; [|reflexivity]. specialize (HP eq_refl). congruence.
  - eapply ok_bf; eauto.
Qed.

Lemma close_with_error_bf : forall bad v wf held s c, cond bad v -> bad_free bad (close_with_error v wf held s c).
Proof.
  intros. unfold close_with_error. eapply andthen_bf; eauto using close_fc_bf.
  intros; eapply ok_bf; eauto.
Qed.

Lemma send_hello_bf : forall bad v wf s, cond bad v -> bad_free bad (send_hello v wf s).
Proof. intros. unfold send_hello. eapply send_remote_bf; eauto. Qed.

Lemma join_room_bf : forall bad v wf held s, cond bad v -> bad_free bad (join_room v wf held s).
Proof.
  intros. unfold join_room. destruct (has_msg s); eauto using send_remote_bf, close_with_error_bf.
Qed.

Lemma send_many_bf : forall bad v wf k s, cond bad v -> bad_free bad (send_many v wf s k).
Proof.
  intros bad v wf k. induction k as [|k IH]; intros s Hc; cbn.
  - eapply ok_bf; eauto.
  - eapply andthen_bf; eauto using send_remote_bf.
Qed.

Lemma flush_bf : forall bad v wf s, cond bad v -> bad_free bad (flush v wf s).
Proof. intros. unfold flush. eapply send_many_bf; eauto. Qed.

Lemma leave_bf : forall bad v wf s, cond bad v -> bad_free bad (leave v wf s).
Proof.
  intros. unfold leave. eapply andthen_bf; eauto using send_remote_bf. intros; eapply ok_bf; eauto.
Qed.

Lemma panic_bf : forall bad v s, cond bad v -> bad Panic = false -> bad_free bad (s, [], Panic).
Proof. intros. exact H0. Qed.

Lemma process_welcome_bf : forall bad v wf s m, cond bad v ->
  (bad Panic = true -> m_welcome m <> None) ->
  bad_free bad (process_welcome v wf s m).
Proof.
  intros bad v wf s m Hc Hw. unfold process_welcome.
  destruct (m_welcome m) as [fed|].
  - destruct fed; eauto using send_hello_bf, close_with_error_bf.
  - unfold bad_free; cbn. destruct (bad Panic); [exfalso; apply Hw; reflexivity | reflexivity].
Qed.

Lemma process_hello_bf : forall bad v wf s m, cond bad v ->
  (bad Panic = true -> (m_tag m = TError -> m_error m <> None) /\ (m_tag m = THello -> m_hello m <> None)) ->
  bad_free bad (process_hello v wf s m).
Proof.
  intros bad v wf s m Hc Hm. unfold process_hello.
  destruct (negb (id_matches _ _)); [eapply send_hello_bf; eauto|].
  destruct (m_tag m) eqn:Et; try (eapply send_hello_bf; eauto).
  - (* THello *)
    destruct (m_hello m) as [h|] eqn:Eh.
    + match goal with |- context [resume ?x] => destruct (resume x) end.
      * eapply andthen_bf; eauto using ok_bf. intros; eapply flush_bf; eauto.
      * eapply andthen_bf; eauto.
        -- match goal with |- context [reconnecting ?x] => destruct (reconnecting x) end; eapply ok_bf; eauto.
        -- intros; eapply join_room_bf; eauto.
    + match goal with |- context [resume ?x] => destruct (resume x) end.
      * eapply andthen_bf; eauto using ok_bf. intros; eapply flush_bf; eauto.
      * unfold bad_free; cbn. destruct (bad Panic); [|reflexivity].
        destruct (Hm eq_refl) as [_ H2]. exfalso. apply H2; reflexivity.
  - (* TError *)
    destruct (m_error m) as [c|] eqn:Ee.
    + destruct c; eauto using send_hello_bf, close_with_error_bf.
    + unfold bad_free; cbn. destruct (bad Panic); [|reflexivity].
      destruct (Hm eq_refl) as [H1 _]. exfalso. apply H1; reflexivity.
Qed.

Lemma forward_bf : forall bad v s m, cond bad v -> bad_free bad (forward s m).
Proof. intros bad v s m [H0 _]. unfold forward. destruct (m_tag m); exact H0. Qed.

Lemma panic_if_bf : forall bad b s k,
  (bad Panic = true -> b = false) -> bad_free bad k -> bad_free bad (panic_if b s k).
Proof.
  intros bad b s k Hb Hk. unfold panic_if. destruct b; [|exact Hk].
  unfold bad_free; cbn. destruct (bad Panic); [specialize (Hb eq_refl); discriminate | reflexivity].
Qed.

(* updateEventUsers only ever turns a "sessionId" into a string: entries that pass
   the validation still pass ClientSession.filterMessage after the rewriting *)
Lemma update_users_keeps_sid : forall l, forallb is_sid l = true -> forallb is_sid (update_users l) = true.
Proof.
  induction l as [|u r IH]; intros H; [reflexivity|].
  cbn [forallb] in H. apply andb_prop in H. destruct H as [Hu Hr].
  cbn [update_users]. destruct (is_own (entry_id u)).
  - destruct u as [|up lo a]; [discriminate Hu|]. cbn [forallb is_sid is_str]. exact Hr.
  - cbn [forallb]. rewrite Hu, (IH Hr). reflexivity.
Qed.

Lemma validated_update_passes_session : forall sid u,
  forallb is_sid (u_users u ++ u_changed u) = true -> session_filter_panics (rewrite_update sid u) = false.
Proof.
  intros sid u H. unfold session_filter_panics, rewrite_update.
  destruct sid; [|rewrite H; reflexivity].
  cbn [u_users u_changed]. rewrite forallb_app in H |- *. apply andb_prop in H. destruct H as [H1 H2].
  rewrite (update_users_keeps_sid _ H1), (update_users_keeps_sid _ H2). reflexivity.
Qed.

Lemma process_event_bf : forall bad v s m e, cond bad v ->
  (bad Panic = true -> valid_event e = true) ->
  bad_free bad (fst (process_event s m e)).
Proof.
  intros bad v s m e Hc Hv. pose proof (forward_bf bad v s m Hc) as Hf.
  assert (H0 : bad Ok = false) by (destruct Hc; assumption).
  unfold process_event. unfold valid_event in Hv.
  destruct (e_target e), (e_type e); cbn [fst]; try exact Hf; try exact H0;
    try (apply panic_if_bf; [intros Hb; specialize (Hv Hb); rewrite Hv; try reflexivity; rewrite ?andb_false_r; reflexivity | exact Hf]).
  - (* participants / update *)
    destruct (e_update e) as [u|].
    + cbn [fst]. apply panic_if_bf; [|exact Hf]. intros Hb. apply validated_update_passes_session. exact (Hv Hb).
    + cbn [fst]. unfold bad_free; cbn. destruct (bad Panic); [specialize (Hv eq_refl); discriminate | reflexivity].
  - (* room / join *)
    destruct (forallb non_nil (e_join e)) eqn:Ej; cbn [negb].
    + destruct (filter_join (seen s) (e_join e)) as [ids sn]. cbn [fst]. exact H0.
    + cbn [fst]. unfold bad_free; cbn. destruct (bad Panic); [specialize (Hv eq_refl); discriminate | reflexivity].
  - (* roomlist / update *)
    apply panic_if_bf; [|exact Hf]. intros Hb. specialize (Hv Hb).
    destruct (e_update e); [apply andb_false_r | discriminate].
Qed.

Lemma valid_members : forall m, valid m = true ->
  (m_tag m = TWelcome -> m_welcome m <> None) /\ (m_tag m = THello -> m_hello m <> None) /\
  (m_tag m = TError -> m_error m <> None) /\ (m_tag m = TRoom -> m_room m <> None) /\
  (m_tag m = TMessage -> m_message m <> None) /\ (m_tag m = TControl -> m_control m <> None) /\
  (m_tag m = TEvent -> exists e, m_event m = Some e /\ valid_event e = true).
Proof.
  intros m Hv. unfold valid, issome, isnone in Hv.
  repeat split; intros Et; rewrite Et in Hv;
    try (intros Hn; rewrite Hn in Hv; discriminate).
  destruct (m_event m) as [e|]; [exists e; split; [reflexivity | exact Hv] | discriminate].
Qed.

Lemma process_message_bf : forall bad v wf s m, cond bad v ->
  (bad Panic = true -> valid m = true) ->
  bad_free bad (process_message v wf s m).
Proof.
  intros bad v wf s m Hc Hv. pose proof (forward_bf bad v s m Hc) as Hf.
  assert (Hmem : bad Panic = true ->
    (m_tag m = TError -> m_error m <> None) /\ (m_tag m = TRoom -> m_room m <> None) /\
    (m_tag m = TMessage -> m_message m <> None) /\ (m_tag m = TControl -> m_control m <> None) /\
    (m_tag m = TEvent -> exists e, m_event m = Some e /\ valid_event e = true)).
  { intros Hb. destruct (valid_members m (Hv Hb)) as (_ & _ & H3 & H4 & H5 & H6 & H7). repeat split; assumption. }
  assert (Hnp : forall st, bad Panic = true -> False -> bad_free bad (st, [], Panic)) by (intros; contradiction).
  unfold process_message.
  assert (Hfin : forall (r : res) (dc : bool), bad_free bad r ->
     bad_free bad (if dc then andthen r (close_fc v wf false)
                   else match m_tag m with TBye => andthen r (leave v wf) | _ => r end)).
  { intros r dc Hr. destruct dc.
    - eapply andthen_bf; eauto. intros; eapply close_fc_bf; eauto.
    - destruct (m_tag m); try exact Hr. eapply andthen_bf; eauto. intros; eapply leave_bf; eauto. }
  destruct (m_tag m) eqn:Et; try (apply (Hfin _ false); exact Hf).
  - (* TError *)
    apply (Hfin _ false). apply panic_if_bf; [|exact Hf]. intros Hb.
    destruct (Hmem Hb) as (H3 & _). specialize (H3 eq_refl).
    destruct (m_error m); [apply andb_false_r | contradiction].
  - (* TRoom *)
    destruct (m_room m) as [rid|] eqn:Er.
    + apply Hfin. exact Hf.
    + apply (Hfin _ false). unfold bad_free; cbn. destruct (bad Panic) eqn:Eb; [|reflexivity].
      destruct (Hmem eq_refl) as (_ & H4 & _). exfalso. apply (H4 eq_refl). reflexivity.
  - (* TMessage *)
    apply (Hfin _ false). apply panic_if_bf; [|exact Hf]. intros Hb.
    destruct (Hmem Hb) as (_ & _ & H5 & _). specialize (H5 eq_refl).
    destruct (m_message m); [reflexivity | contradiction].
  - (* TControl *)
    apply (Hfin _ false). apply panic_if_bf; [|exact Hf]. intros Hb.
    destruct (Hmem Hb) as (_ & _ & _ & H6 & _). specialize (H6 eq_refl).
    destruct (m_control m); [reflexivity | contradiction].
  - (* TEvent *)
    destruct (m_event m) as [e|] eqn:Ee.
    + pose proof (process_event_bf bad v s m e Hc) as Hpe.
      destruct (process_event s m e) as [r dc]. apply Hfin. apply Hpe.
      intros Hb. destruct (Hmem Hb) as (_ & _ & _ & _ & H7). destruct (H7 eq_refl) as [e' [He' Hve]].
      inversion He'; subst; exact Hve.
    + apply (Hfin _ false). unfold bad_free; cbn. destruct (bad Panic) eqn:Eb; [|reflexivity].
      destruct (Hmem eq_refl) as (_ & _ & _ & _ & H7). destruct (H7 eq_refl) as [e' [He' _]]. discriminate.
Qed.

Lemma recv_bf : forall bad v wf s m, cond bad v ->
  (bad Panic = true -> v_valid v = true) ->
  bad_free bad (recv v wf s m).
Proof.
  intros bad v wf s m Hc Hvv. unfold recv.
  destruct (v_valid v && negb (valid m))%bool eqn:Eg; [eapply ok_bf; eauto|].
  assert (Hv : bad Panic = true -> valid m = true).
  { intros Hb. rewrite (Hvv Hb) in Eg. cbn in Eg. destruct (valid m); [reflexivity | discriminate]. }
  destruct (hello_done s).
  - apply process_message_bf; assumption.
  - destruct (m_tag m) eqn:Et;
      try (apply process_hello_bf; [assumption|]; intros Hb;
           destruct (valid_members m (Hv Hb)) as (_ & H2 & H3 & _); split; assumption).
    apply process_welcome_bf; [assumption|]. intros Hb.
    destruct (valid_members m (Hv Hb)) as (H1 & _). exact (H1 Et).
Qed.

Lemma step_bf : forall bad v s o, cond bad v ->
  (bad Panic = true -> v_valid v = true) -> bad_free bad (step v s o).
Proof.
  intros bad v s o Hc Hvv. destruct o; cbn [step].
  - apply recv_bf; assumption.
  - eapply andthen_bf; eauto using recv_bf. intros s1. unfold reader_error.
    destruct (closed s1); [eapply ok_bf | eapply sched_bf]; eauto.
  - eapply ok_bf; eauto.
  - destruct (connected s); [eapply sched_bf | eapply ok_bf]; eauto.
  - destruct (connected s || closed s)%bool; eapply ok_bf; eauto.
  - destruct (connected s || closed s)%bool; [eapply ok_bf | eapply sched_bf]; eauto.
  - eapply send_remote_bf; eauto.
  - eapply leave_bf; eauto.
Qed.

Lemma run_bf : forall bad v ops s, cond bad v ->
  (bad Panic = true -> v_valid v = true) -> bad_free bad (run v s ops).
Proof.
  intros bad v ops. induction ops as [|o r IH]; intros s Hc Hvv; cbn [run].
  - eapply ok_bf; eauto.
  - eapply andthen_bf; eauto using step_bf.
Qed.

(* ---- the three statements about outcomes ---------------------------------------------- *)
Definition is_panic (o : outcome) : bool := match o with Panic => true | _ => false end.
Definition is_stuck (o : outcome) : bool := match o with Stuck => true | _ => false end.
Definition not_ok (o : outcome) : bool := match o with Ok => false | _ => true end.

Lemma total_step : forall v s o, v_valid v = true -> v_close v = true -> out_of (step v s o) <> Panic.
Proof.
  intros v s o Hv Hcl Hp.
  assert (H : bad_free is_panic (step v s o)).
  { apply step_bf; [repeat split; cbn; intros; try discriminate; assumption | intros; assumption]. }
  unfold bad_free in H. rewrite Hp in H. discriminate.
Qed.

Lemma total_recv : forall v wf s m, v_valid v = true -> v_close v = true -> out_of (recv v wf s m) <> Panic.
Proof.
  intros v wf s m Hv Hc Hp.
  assert (H : bad_free is_panic (recv v wf s m)).
  { apply recv_bf; [repeat split; cbn; intros; try discriminate; assumption | intros; assumption]. }
  unfold bad_free in H. rewrite Hp in H. discriminate.
Qed.

Lemma progress_step : forall v s o, v_lock v = true -> out_of (step v s o) <> Stuck.
Proof.
  intros v s o Hl Hp.
  assert (H : bad_free is_stuck (step v s o)).
  { apply step_bf; [repeat split; cbn; intros; try discriminate; assumption | cbn; intros; discriminate]. }
  unfold bad_free in H. rewrite Hp in H. discriminate.
Qed.

Lemma run_ok : forall ops s, out_of (run repaired s ops) = Ok.
Proof.
  intros ops s.
  assert (H : bad_free not_ok (run repaired s ops)).
  { apply run_bf; [repeat split; cbn; intros; reflexivity | intros; reflexivity]. }
  unfold bad_free in H. destruct (out_of (run repaired s ops)); [reflexivity | discriminate | discriminate].
Qed.

Lemma step_ok : forall s o, exists s' acts, step repaired s o = (s', acts, Ok).
Proof.
  intros s o.
  assert (H : bad_free not_ok (step repaired s o)).
  { apply step_bf; [repeat split; cbn; intros; reflexivity | intros; reflexivity]. }
  unfold bad_free, out_of in H. destruct (step repaired s o) as [[s' a] oc]. cbn in H.
  destruct oc; try discriminate. exists s', a. reflexivity.
Qed.

(* ---- reconnect back-off ----------------------------------------------------------------- *)
Definition dl_ok (s : fstate) : Prop :=
  initialFederationReconnectInterval <= delay s <= maxFederationReconnectInterval.
Definition act_ok (a : action) : Prop :=
  match a with
  | Reconnect d => initialFederationReconnectInterval <= d <= maxFederationReconnectInterval
  | _ => True
  end.
Definition inv_res (r : res) : Prop := dl_ok (st_of r) /\ Forall act_ok (acts_of r).

Lemma ok_inv : forall s a, dl_ok s -> Forall act_ok a -> inv_res (ok s a).
Proof. intros; split; assumption. Qed.

Lemma andthen_inv : forall r f, inv_res r -> (forall s, dl_ok s -> inv_res (f s)) -> inv_res (andthen r f).
Proof.
  intros [[s a] o] f [Hs Ha] Hf. destruct o; cbn in *; try (split; assumption).
  specialize (Hf s Hs). destruct (f s) as [[s' a'] o']. destruct Hf as [Hs' Ha'].
  split; cbn in *; [assumption | apply Forall_app; split; assumption].
Qed.

Ltac params := unfold dl_ok, initialFederationReconnectInterval, maxFederationReconnectInterval in *.

Lemma sched_inv : forall s, dl_ok s -> inv_res (sched s).
Proof.
  intros s H. unfold sched. split.
  - unfold st_of, ok. params. cbn [fst delay set_delay]. lia.
  - cbn [acts_of ok fst snd]. apply Forall_app; split; [destruct (hello_done s); repeat constructor|].
    apply Forall_app; split; [destruct (connected s); repeat constructor|].
    constructor; [exact H | constructor].
Qed.

Lemma no_reconnect_ok : forall l, (forall a, In a l -> match a with Reconnect _ => False | _ => True end) -> Forall act_ok l.
Proof.
  intros l H. apply Forall_forall. intros a Ha. specialize (H a Ha). destruct a; cbn; try exact I. contradiction.
Qed.

Lemma defer_inv : forall v held s m, dl_ok s -> inv_res (defer v held s m).
Proof.
  intros v held s m H. unfold defer, enqueue.
  destruct (v_lock v); [destruct (is_hello m)|destruct held]; try destruct (resume s); split; cbn; try exact H; constructor.
Qed.

Lemma send_remote_inv : forall v wf held s m, dl_ok s -> inv_res (send_remote v wf held s m).
Proof.
  intros v wf held s m H. unfold send_remote.
  destruct (connected s); [destruct wf|destruct (is_room m)].
  - apply andthen_inv; [apply defer_inv; exact H | intros; apply sched_inv; assumption].
  - apply ok_inv; [exact H | repeat constructor].
  - apply ok_inv; [exact H | constructor].
  - apply defer_inv; exact H.
Qed.

Lemma close_fc_inv : forall v wf held s, dl_ok s -> inv_res (close_fc v wf held s).
Proof.
  intros v wf held s H. unfold close_fc.
  destruct (connected (set_closed true s)).
  - apply andthen_inv; [apply send_remote_inv; exact H|].
    intros s1 H1. destruct (connected s1); [apply ok_inv; [exact H1 | repeat constructor]|].
    destruct (v_close v); [apply ok_inv; [exact H1 | constructor] | split; [exact H1 | constructor]].
  - apply ok_inv; [exact H | constructor].
Qed.

Lemma close_with_error_inv : forall v wf held s c, dl_ok s -> inv_res (close_with_error v wf held s c).
Proof.
  intros. unfold close_with_error. apply andthen_inv; [apply close_fc_inv; assumption|].
  intros s1 H1. apply ok_inv; [exact H1 | repeat constructor].
Qed.

Lemma send_hello_inv : forall v wf s, dl_ok s -> inv_res (send_hello v wf s).
Proof. intros. unfold send_hello. apply send_remote_inv. exact H. Qed.

Lemma join_room_inv : forall v wf held s, dl_ok s -> inv_res (join_room v wf held s).
Proof.
  intros. unfold join_room. destruct (has_msg s); [apply send_remote_inv | apply close_with_error_inv]; assumption.
Qed.

Lemma send_many_inv : forall v wf k s, dl_ok s -> inv_res (send_many v wf s k).
Proof.
  intros v wf k. induction k as [|k IH]; intros s H; cbn.
  - apply ok_inv; [exact H | constructor].
  - apply andthen_inv; [apply send_remote_inv; exact H | exact IH].
Qed.

Lemma leave_inv : forall v wf s, dl_ok s -> inv_res (leave v wf s).
Proof.
  intros. unfold leave. apply andthen_inv; [apply send_remote_inv; assumption|].
  intros s1 H1. apply ok_inv; [exact H1 | constructor].
Qed.

Lemma init_delay_ok : forall s, dl_ok (set_delay initialFederationReconnectInterval s).
Proof. intros. params. cbn. lia. Qed.

Lemma process_hello_inv : forall v wf s m, inv_res (process_hello v wf s m).
Proof.
  intros v wf s m. unfold process_hello.
  pose proof (init_delay_ok s) as H0.
  destruct (negb (id_matches _ _)); [apply send_hello_inv; exact H0|].
  destruct (m_tag m); try (apply send_hello_inv; exact H0).
  - destruct (m_hello m) as [h|].
    + match goal with |- context [resume ?x] => destruct (resume x) end.
      * apply andthen_inv; [apply ok_inv; [exact H0 | repeat constructor] | intros; apply send_many_inv; assumption].
      * apply andthen_inv; [|intros; apply join_room_inv; assumption].
        match goal with |- context [reconnecting ?x] => destruct (reconnecting x) end;
          (apply ok_inv; [exact H0 | repeat constructor]).
    + match goal with |- context [resume ?x] => destruct (resume x) end.
      * apply andthen_inv; [apply ok_inv; [exact H0 | repeat constructor] | intros; apply send_many_inv; assumption].
      * split; [exact H0 | constructor].
  - destruct (m_error m) as [c|]; [|split; [exact H0 | constructor]].
    destruct c; [apply send_hello_inv | apply close_with_error_inv | apply close_with_error_inv]; exact H0.
Qed.

Lemma forward_inv : forall s m, dl_ok s -> inv_res (forward s m).
Proof. intros s m H. unfold forward. destruct (m_tag m); apply ok_inv; try exact H; repeat constructor. Qed.

Lemma panic_if_inv : forall b s k, dl_ok s -> inv_res k -> inv_res (panic_if b s k).
Proof. intros b s k H Hk. unfold panic_if. destruct b; [split; [exact H | constructor] | exact Hk]. Qed.

Lemma process_event_inv : forall s m e, dl_ok s -> inv_res (fst (process_event s m e)).
Proof.
  intros s m e H. pose proof (forward_inv s m H) as Hf.
  assert (Hp : inv_res (s, [], Panic)) by (split; [exact H | constructor]).
  unfold process_event.
  destruct (e_target e), (e_type e); cbn [fst]; try exact Hf; try (apply panic_if_inv; assumption).
  - destruct (e_update e); cbn [fst]; [apply panic_if_inv; assumption | exact Hp].
  - destruct (negb (forallb non_nil (e_join e))); [exact Hp|].
    destruct (filter_join (seen s) (e_join e)) as [ids sn]. cbn [fst].
    apply ok_inv; [exact H | destruct ids; repeat constructor].
  - apply ok_inv; [exact H | repeat constructor].
Qed.

Lemma process_message_inv : forall v wf s m, dl_ok s -> inv_res (process_message v wf s m).
Proof.
  intros v wf s m H. pose proof (forward_inv s m H) as Hf.
  assert (Hp : inv_res (s, [], Panic)) by (split; [exact H | constructor]).
  unfold process_message.
  assert (Hfin : forall (r : res) (dc : bool), inv_res r ->
     inv_res (if dc then andthen r (close_fc v wf false)
              else match m_tag m with TBye => andthen r (leave v wf) | _ => r end)).
  { intros r dc Hr. destruct dc.
    - apply andthen_inv; [exact Hr | intros; apply close_fc_inv; assumption].
    - destruct (m_tag m); try exact Hr. apply andthen_inv; [exact Hr | intros; apply leave_inv; assumption]. }
  destruct (m_tag m); try (apply (Hfin _ false); first [exact Hf | apply panic_if_inv; assumption]).
  - destruct (m_room m); [apply Hfin; exact Hf | apply (Hfin _ false); exact Hp].
  - destruct (m_event m) as [e|]; [|apply (Hfin _ false); exact Hp].
    pose proof (process_event_inv s m e H) as He. destruct (process_event s m e) as [r dc].
    apply Hfin. exact He.
Qed.

Lemma recv_inv : forall v wf s m, dl_ok s -> inv_res (recv v wf s m).
Proof.
  intros v wf s m H. unfold recv.
  destruct (v_valid v && negb (valid m))%bool; [apply ok_inv; [exact H | constructor]|].
  destruct (hello_done s); [apply process_message_inv; exact H|].
  destruct (m_tag m); try apply process_hello_inv.
  unfold process_welcome. destruct (m_welcome m) as [fed|]; [|split; [exact H | constructor]].
  destruct fed; [apply send_hello_inv | apply close_with_error_inv]; exact H.
Qed.

Lemma step_inv : forall v s o, dl_ok s -> inv_res (step v s o).
Proof.
  intros v s o H. destruct o; cbn [step]; try (apply recv_inv; exact H).
  - apply andthen_inv; [apply recv_inv; exact H|]. intros s1 H1. unfold reader_error.
    destruct (closed s1); [apply ok_inv; [exact H1 | constructor] | apply sched_inv; exact H1].
  - apply ok_inv; [exact H | constructor].
  - destruct (connected s); [apply sched_inv; exact H | apply ok_inv; [exact H | constructor]].
  - destruct (connected s || closed s)%bool; apply ok_inv; try exact H; constructor.
  - destruct (connected s || closed s)%bool; [apply ok_inv; [exact H | constructor] | apply sched_inv; exact H].
  - apply send_remote_inv; exact H.
  - apply leave_inv; exact H.
Qed.

Lemma run_inv : forall v ops s, dl_ok s -> inv_res (run v s ops).
Proof.
  intros v ops. induction ops as [|o r IH]; intros s H; cbn [run].
  - apply ok_inv; [exact H | constructor].
  - apply andthen_inv; [apply step_inv; exact H | exact IH].
Qed.

Lemma init_dl_ok : forall chg, dl_ok (init chg).
Proof. intros. unfold dl_ok, init. cbn [delay]. params. lia. Qed.

(* every reconnect that is ever scheduled waits between 100 ms and 8 s *)
Lemma reconnects_bounded : forall v chg ops d,
  In (Reconnect d) (acts_of (run v (init chg) ops)) -> 100000000 <= d <= 8000000000.
Proof.
  intros v chg ops d Hin. destruct (run_inv v ops (init chg) (init_dl_ok chg)) as [_ Hall].
  rewrite Forall_forall in Hall. specialize (Hall _ Hin). cbn in Hall.
  unfold initialFederationReconnectInterval, maxFederationReconnectInterval in Hall. exact Hall.
Qed.

(* k refused connection attempts in a row double the delay k times, up to the maximum *)
Lemma refuse_backoff : forall v k s,
  connected s = false -> closed s = false -> 0 < delay s <= maxFederationReconnectInterval ->
  delay (st_of (run v s (repeat ORefuse k))) = Z.min (delay s * 2 ^ Z.of_nat k) maxFederationReconnectInterval.
Proof.
  intros v k. induction k as [|k IH]; intros s Hc Hcl Hd.
  - cbn. rewrite Z.mul_1_r. rewrite Z.min_l; lia.
  - cbn [repeat run step]. rewrite Hc, Hcl. cbn [orb]. unfold sched, ok. cbn [andthen].
    match goal with |- context [run v ?s1 _] => set (s1' := s1) end.
    match goal with |- delay (st_of ?x) = _ => replace (st_of x) with (st_of (run v s1' (repeat ORefuse k))) end.
    2:{ destruct (run v s1' (repeat ORefuse k)) as [[s2 a2] o2]. reflexivity. }
    rewrite IH; subst s1'; cbn [delay set_delay connected closed set_connected set_hello set_reconnecting]; try reflexivity; try assumption.
    + unfold maxFederationReconnectInterval in *.
      replace (Z.of_nat (S k)) with (Z.of_nat k + 1) by lia.
      rewrite Z.pow_add_r by lia. change (2 ^ 1) with 2.
      assert (Hp : 1 <= 2 ^ Z.of_nat k) by (pose proof (Z.pow_pos_nonneg 2 (Z.of_nat k)); lia).
      set (p := 2 ^ Z.of_nat k) in *.
      destruct (Z.min_spec (2 * delay s) 8000000000) as [[Hlt E1]|[Hge E1]]; rewrite E1.
      * f_equal. lia.
      * rewrite Z.min_r by nia. rewrite Z.min_r by nia. reflexivity.
    + unfold maxFederationReconnectInterval in *. lia.
Qed.

(* ---- confinement and the embedding into a hub --------------------------------------------
   What an action can touch.  The action type has no identifier of a session, room
   or connection, so the classification below is exhaustive by construction. *)
Inductive target := OwnSession | OwnConnection | OwnTimer.
Definition target_of (a : action) : target :=
  match a with
  | ToSession _ => OwnSession
  | ToRemote _ | CloseConn => OwnConnection
  | Reconnect _ => OwnTimer
  end.

Definition session_msgs (l : list action) : list cmsg :=
  flat_map (fun a => match a with ToSession m => [m] | _ => [] end) l.

Lemma deliver_all_other : forall me other l h, other <> me -> deliver_all me h l other = h other.
Proof.
  intros me other l. induction l as [|a r IH]; intros h Hne; cbn.
  - reflexivity.
  - unfold deliver_all in IH. rewrite IH by assumption.
    destruct a; cbn; try reflexivity.
    destruct (N.eqb other me) eqn:E; [apply N.eqb_eq in E; contradiction | reflexivity].
Qed.

Lemma deliver_all_me : forall me l h, deliver_all me h l me = (h me ++ session_msgs l)%list.
Proof.
  intros me l. induction l as [|a r IH]; intros h; cbn.
  - rewrite app_nil_r. reflexivity.
  - unfold deliver_all in IH. rewrite IH. destruct a; cbn; try reflexivity.
    rewrite N.eqb_refl. rewrite <- app_assoc. reflexivity.
Qed.

(* ---- the unrepaired code: witnesses -------------------------------------------------------- *)
Definition absent (t : mtag) (i : idk) : server_msg :=
  mkM t i None None None false None None None None false false false.
Definition welcome_ok : server_msg :=
  mkM TWelcome IdOther None (Some true) None false None None None None false false false.
Definition welcome_nofed : server_msg :=
  mkM TWelcome IdOther None (Some false) None false None None None None false false false.
Definition hello_ok : server_msg :=
  mkM THello IdCur None None (Some (mkH true true false)) false None None None None false false false.
Definition wrong_id : server_msg := absent TOther IdOther.

(* {"type":"welcome"} on a fresh connection *)
Lemma original_panics : out_of (recv original false (init false) (absent TWelcome IdEmpty)) = Panic.
Proof. vm_compute. reflexivity. Qed.
(* an answer with an unknown id and a reset while the hello is sent again *)
Lemma original_sticks : out_of (run original (init false) [ORecv welcome_ok; ORecvFail wrong_id]) = Stuck.
Proof. vm_compute. reflexivity. Qed.
(* a welcome without the federation feature and a reset *)
Lemma original_panics_on_close : out_of (run original (init false) [ORecvFail welcome_nofed]) = Panic.
Proof. vm_compute. reflexivity. Qed.
(* each repair is needed on its own *)
Lemma without_01 : out_of (recv (mkV false true true) false (init false) (absent TWelcome IdEmpty)) = Panic.
Proof. vm_compute. reflexivity. Qed.
Lemma without_02 : out_of (run (mkV true false true) (init false) [ORecv welcome_ok; ORecvFail wrong_id]) = Stuck.
Proof. vm_compute. reflexivity. Qed.
Lemma without_03 : out_of (run (mkV true true false) (init false) [ORecvFail welcome_nofed]) = Panic.
Proof. vm_compute. reflexivity. Qed.

(* ---- small-scope enumeration of message shapes --------------------------------------------
   every type x every subset of the eleven members (default contents), and every
   event target x type x every subset of seven members x join / users variants *)
Fixpoint bits (n : nat) : list (list bool) :=
  match n with
  | O => [[]]
  | S n' => flat_map (fun l => [false :: l; true :: l]) (bits n')
  end.
Definition nthb (l : list bool) (i : nat) : bool := nth i l false.
Definition opt {A} (b : bool) (x : A) : option A := if b then Some x else None.
Definition all_tags := [TWelcome; THello; TError; TBye; TRoom; TMessage; TControl; TEvent; TTransient; TInternal; TDialout; TOther].
Definition all_ids := [IdCur; IdEmpty; IdOther].
Definition dflt_event : event_s := mkE GOther YOther [] [] [] false false false false None false false.
Definition msg_of (t : mtag) (i : idk) (b : list bool) : server_msg :=
  mkM t i (opt (nthb b 0) EOtherCode) (opt (nthb b 1) true) (opt (nthb b 2) (mkH true true false)) (nthb b 3)
      (opt (nthb b 4) RidRemote) (opt (nthb b 5) (mkSR true false)) (opt (nthb b 6) (mkSR true false))
      (opt (nthb b 7) dflt_event) (nthb b 8) (nthb b 9) (nthb b 10).
Definition enum_msgs : list server_msg :=
  flat_map (fun t => flat_map (fun i => map (msg_of t i) (bits 11)) all_ids) all_tags.

Definition all_targets := [GParticipants; GRoom; GRoomlist; GOther].
Definition all_types := [YUpdate; YFlags; YMessage; YJoin; YLeave; YInvite; YDisinvite; YOther].
Definition joins := [[]; [JSid 1%N]; [JNil]; [JSid 0%N; JNil]].
Definition updates := [mkU [] []; mkU [] [USid]; mkU [] [UNoSid]; mkU [UBadSid] [USid]; mkU [] [UNil]].
Definition event_of (g : etarget) (y : etype) (j : list jentry) (u : upd_s) (b : list bool) : server_msg :=
  mkM TEvent IdOther None None None false None None None
    (Some (mkE g y j (if nthb b 6 then [0%N] else []) [] (nthb b 0) (nthb b 1) (nthb b 2) (nthb b 3) (opt (nthb b 4) u) (nthb b 5) (nthb b 6)))
    false false false.
Definition enum_events : list server_msg :=
  flat_map (fun g => flat_map (fun y => flat_map (fun j => flat_map (fun u => map (event_of g y j u) (bits 7)) updates) joins) all_types) all_targets.

(* the stages: fresh, hello pending, after hello (without / with room id mapping, without / with session id) *)
Definition after (chg : bool) (l : list server_msg) : fstate := st_of (run repaired (init chg) (map ORecv l)).
Definition hello_nosid : server_msg :=
  mkM THello IdCur None None (Some (mkH false true false)) false None None None None false false false.
Definition enum_stages : list fstate :=
  [init false; after false [welcome_ok]; after false [welcome_ok; hello_ok]; after true [welcome_ok; hello_ok];
   after false [welcome_ok; hello_nosid]; after true [welcome_ok; hello_nosid];
   set_close_on_leave true (after true [welcome_ok; hello_ok])].

Definition is_ok (r : res) : bool := match out_of r with Ok => true | _ => false end.
Definition panics (v : variant) (wf : bool) (sm : fstate * server_msg) : bool := is_panic (out_of (recv v wf (fst sm) (snd sm))).
Definition sticks (v : variant) (wf : bool) (sm : fstate * server_msg) : bool := is_stuck (out_of (recv v wf (fst sm) (snd sm))).
Definition enum_all : list (fstate * server_msg) := list_prod enum_stages (enum_msgs ++ enum_events)%list.

(* cross-check of the general theorems on the enumeration, with working and failing writes *)
Lemma enum_repaired_ok :
  forallb (fun sm => is_ok (recv repaired false (fst sm) (snd sm)) && is_ok (recv repaired true (fst sm) (snd sm)))%bool enum_all = true.
Proof. vm_compute. reflexivity. Qed.

(* how many (stage, shape) pairs of the enumeration bring the unrepaired code down *)
Definition count {A} (p : A -> bool) (l : list A) : N := fold_left (fun n x => if p x then N.succ n else n) l 0%N.
Definition tag_index (t : mtag) : N :=
  match t with TWelcome => 0 | THello => 1 | TError => 2 | TBye => 3 | TRoom => 4 | TMessage => 5 | TControl => 6
             | TEvent => 7 | TTransient => 8 | TInternal => 9 | TDialout => 10 | TOther => 11 end%N.
Definition panicking_tags (v : variant) : list N :=
  fold_left (fun acc sm => if panics v false sm
                           then (if existsb (N.eqb (tag_index (m_tag (snd sm)))) acc then acc else tag_index (m_tag (snd sm)) :: acc)
                           else acc) enum_all [].
Lemma enum_original_counts :
  count (fun _ => true) enum_all = 1089536%N /\
  count (panics original false) enum_all = 121856%N /\
  count (sticks original true) enum_all = 301056%N /\
  count (panics (mkV true true false) true) enum_all = 3328%N /\
  panicking_tags original = [7; 6; 5; 4; 2; 1; 0]%N.
Proof. vm_compute. repeat split; reflexivity. Qed.

(* ---- one message costs a bounded number of effects ----------------------------------------- *)
Definition nacts (r : res) : nat := List.length (acts_of r).

Lemma andthen_len : forall r f, (nacts (andthen r f) <= nacts r + nacts (f (st_of r)))%nat.
Proof.
  intros [[s a] o] f. unfold nacts, acts_of, st_of. destruct o; cbn; try lia.
  destruct (f s) as [[s' a'] o']. cbn. rewrite app_length. lia.
Qed.

Lemma sched_len : forall s, (nacts (sched s) <= 3)%nat /\ connected (st_of (sched s)) = false.
Proof.
  intros s. unfold sched, nacts. cbn. split; [|reflexivity].
  rewrite !app_length. destruct (hello_done s), (connected s); cbn; lia.
Qed.

Lemma defer_len : forall v held s m, nacts (defer v held s m) = 0%nat /\ connected (st_of (defer v held s m)) = connected s.
Proof.
  intros. unfold defer, enqueue.
  destruct (v_lock v); [destruct (is_hello m)|destruct held]; try destruct (resume s); cbn; split; reflexivity.
Qed.

Lemma send_remote_len : forall v wf held s m,
  (nacts (send_remote v wf held s m) <= 3)%nat /\
  (connected s = false -> nacts (send_remote v wf held s m) = 0%nat /\ connected (st_of (send_remote v wf held s m)) = false).
Proof.
  intros. unfold send_remote. destruct (connected s) eqn:Ec.
  - split; [|intros; discriminate]. destruct wf; [|cbn; lia].
    pose proof (andthen_len (defer v held s m) sched) as H.
    destruct (defer_len v held s m) as [H1 _]. destruct (sched_len (st_of (defer v held s m))) as [H2 _]. lia.
  - destruct (is_room m).
    + cbn. split; [lia | intros; split; [reflexivity | exact Ec]].
    + destruct (defer_len v held s m) as [H1 H2]. split; [lia | intros; split; [exact H1 | rewrite H2; exact Ec]].
Qed.

Lemma andthen_len2 : forall r f,
  (nacts (andthen r f) <= nacts r + match out_of r with Ok => nacts (f (st_of r)) | _ => 0 end)%nat.
Proof.
  intros [[s a] o] f. unfold nacts, acts_of, st_of, out_of. destruct o; cbn; try lia.
  destruct (f s) as [[s' a'] o']. cbn. rewrite app_length. lia.
Qed.

Lemma send_remote_fail_disconnects : forall v held s m,
  connected s = true -> out_of (send_remote v true held s m) = Ok ->
  connected (st_of (send_remote v true held s m)) = false.
Proof.
  intros v held s m Ec. unfold send_remote. rewrite Ec.
  destruct (defer v held s m) as [[s1 a1] o1]. destruct o1; cbn; intros H; try discriminate. reflexivity.
Qed.

Lemma send_many_len : forall v wf k s,
  (nacts (send_many v wf s k) <= k + 3)%nat /\ (connected s = false -> nacts (send_many v wf s k) = 0%nat).
Proof.
  intros v wf k. induction k as [|k IH]; intros s; cbn [send_many].
  - cbn. split; [lia | reflexivity].
  - set (r := send_remote v wf false s RProxied).
    pose proof (andthen_len2 r (fun s' => send_many v wf s' k)) as Ha. cbv beta in Ha.
    destruct (send_remote_len v wf false s RProxied) as [H3 Hd]. fold r in H3, Hd.
    destruct (IH (st_of r)) as [Hk Hk0].
    assert (Hrest0 : connected (st_of r) = false ->
            (match out_of r with Ok => nacts (send_many v wf (st_of r) k) | _ => 0 end = 0)%nat).
    { intros Hc. destruct (out_of r); try reflexivity. apply Hk0. exact Hc. }
    split.
    + destruct (connected s) eqn:Ec.
      * destruct wf.
        -- assert (Hz : (match out_of r with Ok => nacts (send_many v true (st_of r) k) | _ => 0 end = 0)%nat).
           { destruct (out_of r) eqn:Eo; try reflexivity. apply Hk0.
             apply send_remote_fail_disconnects; assumption. }
           rewrite Hz in Ha. lia.
        -- assert (H1 : (nacts r <= 1)%nat) by (subst r; unfold send_remote; rewrite Ec; cbn; lia).
           destruct (out_of r); lia.
      * destruct (Hd eq_refl) as [Hz Hc]. rewrite (Hrest0 Hc) in Ha. lia.
    + intros Ec. destruct (Hd Ec) as [Hz Hc]. rewrite (Hrest0 Hc) in Ha. lia.
Qed.

Lemma close_fc_len : forall v wf held s, (nacts (close_fc v wf held s) <= 4)%nat.
Proof.
  intros. unfold close_fc. destruct (connected (set_closed true s)); [|cbn; lia].
  match goal with |- (nacts (andthen ?r ?f) <= _)%nat => pose proof (andthen_len r f) as Ha; cbv beta in Ha end.
  destruct (send_remote_len v wf held (set_closed true s) RBye) as [H3 _].
  match type of Ha with (_ <= _ + nacts ?x)%nat => assert (H1 : (nacts x <= 1)%nat) end.
  { destruct (connected _); [cbn; lia|]. destruct (v_close v); cbn; lia. }
  lia.
Qed.

Lemma close_with_error_len : forall v wf held s c, (nacts (close_with_error v wf held s c) <= 5)%nat.
Proof.
  intros. unfold close_with_error.
  match goal with |- (nacts (andthen ?r ?f) <= _)%nat => pose proof (andthen_len r f) as Ha; cbv beta in Ha end.
  pose proof (close_fc_len v wf held s). cbn in Ha. unfold nacts in *. cbn in Ha. lia.
Qed.

Lemma send_hello_len : forall v wf s, (nacts (send_hello v wf s) <= 3)%nat.
Proof. intros. unfold send_hello. apply send_remote_len. Qed.

Lemma join_room_len : forall v wf held s, (nacts (join_room v wf held s) <= 5)%nat.
Proof.
  intros. unfold join_room. destruct (has_msg s).
  - pose proof (send_remote_len v wf held s RRoom) as [H _]. lia.
  - apply close_with_error_len.
Qed.

Lemma leave_len : forall v wf s, (nacts (leave v wf s) <= 3)%nat.
Proof.
  intros. unfold leave.
  match goal with |- (nacts (andthen ?r ?f) <= _)%nat => pose proof (andthen_len r f) as Ha; cbv beta in Ha end.
  pose proof (send_remote_len v wf false s RLeave) as [H _]. unfold nacts in *. cbn in Ha. lia.
Qed.

Lemma forward_len : forall s m, nacts (forward s m) = 1%nat.
Proof. intros. unfold forward. destruct (m_tag m); reflexivity. Qed.

Lemma panic_if_len : forall b s k, (nacts (panic_if b s k) <= nacts k)%nat.
Proof. intros. unfold panic_if. destruct b; cbn; lia. Qed.

Lemma process_event_len : forall s m e, (nacts (fst (process_event s m e)) <= 1)%nat.
Proof.
  intros. pose proof (forward_len s m) as Hf. unfold process_event.
  destruct (e_target e), (e_type e); cbn [fst];
    try (rewrite Hf; lia);
    try (match goal with |- (nacts (panic_if ?b ?s ?k) <= _)%nat => pose proof (panic_if_len b s k); lia end);
    try (cbn; lia).
  - destruct (e_update e); cbn [fst]; [|cbn; lia].
    match goal with |- (nacts (panic_if ?b ?s ?k) <= _)%nat => pose proof (panic_if_len b s k); lia end.
  - destruct (negb (forallb non_nil (e_join e))); [cbn; lia|].
    destruct (filter_join (seen s) (e_join e)) as [ids sn]. cbn [fst]. destruct ids; cbn; lia.
Qed.

Lemma process_message_len : forall v wf s m, (nacts (process_message v wf s m) <= 5)%nat.
Proof.
  intros. pose proof (forward_len s m) as Hf. unfold process_message.
  assert (Hfin : forall (r : res) (dc : bool), (nacts r <= 1)%nat ->
     (nacts (if dc then andthen r (close_fc v wf false)
             else match m_tag m with TBye => andthen r (leave v wf) | _ => r end) <= 5)%nat).
  { intros r dc Hr. destruct dc.
    - pose proof (andthen_len r (close_fc v wf false)). pose proof (close_fc_len v wf false (st_of r)). lia.
    - destruct (m_tag m); try lia.
      pose proof (andthen_len r (leave v wf)). pose proof (leave_len v wf (st_of r)). lia. }
  destruct (m_tag m);
    try (apply (Hfin _ false); first [lia | match goal with |- (nacts (panic_if ?b ?s ?k) <= _)%nat => pose proof (panic_if_len b s k); lia end]).
  - destruct (m_room m); [apply Hfin; lia | apply (Hfin _ false); cbn; lia].
  - destruct (m_event m) as [e|]; [|apply (Hfin _ false); cbn; lia].
    pose proof (process_event_len s m e) as He. destruct (process_event s m e) as [r dc]. apply Hfin. exact He.
Qed.

Lemma process_hello_len : forall v wf s m, (nacts (process_hello v wf s m) <= N.to_nat (pending s) + 6)%nat.
Proof.
  intros. unfold process_hello.
  destruct (negb (id_matches _ _)); [match goal with |- (nacts (send_hello ?v ?w ?x) <= _)%nat => pose proof (send_hello_len v w x); lia end|].
  destruct (m_tag m);
    try (match goal with |- (nacts (send_hello ?v ?w ?x) <= _)%nat => pose proof (send_hello_len v w x); lia end).
  - assert (Hfl : forall s1 a, pending s1 = pending s -> List.length a = 1%nat ->
                  (nacts (andthen (ok s1 a) (flush v wf)) <= N.to_nat (pending s) + 6)%nat).
    { intros s1 a Hp Ha. pose proof (andthen_len (ok s1 a) (flush v wf)) as H. unfold flush in H.
      pose proof (send_many_len v wf (N.to_nat (pending (st_of (ok s1 a)))) (set_pending 0%N (st_of (ok s1 a)))) as [H2 _].
      cbn [st_of ok fst] in *. rewrite Hp in *. unfold nacts at 2 in H. cbn [acts_of ok fst snd] in H. unfold flush. lia. }
    destruct (m_hello m) as [h|].
    + match goal with |- context [resume ?x] => destruct (resume x) end.
      * apply Hfl; reflexivity.
      * match goal with |- (nacts (andthen ?r ?f) <= _)%nat => pose proof (andthen_len r f) as Ha; cbv beta in Ha end.
        match type of Ha with (_ <= _ + nacts (join_room ?a ?b ?c ?d))%nat => pose proof (join_room_len a b c d) end.
        match type of Ha with (_ <= nacts ?r + _)%nat => assert (nacts r <= 1)%nat by
          (match goal with |- context [reconnecting ?x] => destruct (reconnecting x) end; cbn; lia) end.
        lia.
    + match goal with |- context [resume ?x] => destruct (resume x) end.
      * apply Hfl; reflexivity.
      * cbn; lia.
  - destruct (m_error m) as [c|]; [|cbn; lia].
    destruct c;
      first [match goal with |- (nacts (send_hello ?v ?w ?x) <= _)%nat => pose proof (send_hello_len v w x); lia end
            |match goal with |- (nacts (close_with_error ?v ?w ?h ?x ?c) <= _)%nat => pose proof (close_with_error_len v w h x c); lia end].
Qed.

Lemma recv_len : forall v wf s m, (nacts (recv v wf s m) <= N.to_nat (pending s) + 6)%nat.
Proof.
  intros. unfold recv. destruct (v_valid v && negb (valid m))%bool; [cbn; lia|].
  destruct (hello_done s); [pose proof (process_message_len v wf s m); lia|].
  destruct (m_tag m); try apply process_hello_len.
  unfold process_welcome. destruct (m_welcome m) as [fed|]; [|cbn; lia].
  destruct fed; [pose proof (send_hello_len v wf s); lia | pose proof (close_with_error_len v wf false s CFedUnsupported); lia].
Qed.

Lemma step_len : forall v s o, (nacts (step v s o) <= N.to_nat (pending s) + 9)%nat.
Proof.
  intros. destruct o; cbn [step]; try (pose proof (recv_len v false s m); lia); try (cbn; lia).
  - pose proof (recv_len v true s m). pose proof (andthen_len (recv v true s m) reader_error) as Ha.
    assert (nacts (reader_error (st_of (recv v true s m))) <= 3)%nat.
    { unfold reader_error. destruct (closed _); [cbn; lia | apply sched_len]. }
    lia.
  - destruct (connected s); [pose proof (sched_len s) as [H _]; lia | cbn; lia].
  - destruct (connected s || closed s)%bool; cbn; lia.
  - destruct (connected s || closed s)%bool; [cbn; lia | pose proof (sched_len s) as [H _]; lia].
  - pose proof (send_remote_len v false false s RProxied) as [H _]. lia.
  - pose proof (leave_len v false s). lia.
Qed.

(* ---- statements used by props/C12.v ---------------------------------------------------------- *)
Lemma confined : forall v st o a,
  In a (acts_of (step v st o)) ->
  target_of a = OwnSession \/ target_of a = OwnConnection \/ target_of a = OwnTimer.
Proof. intros v st o a _. destruct a; cbn; auto. Qed.

Lemma others_unchanged_run : forall v st ops me other h,
  other <> me -> deliver_all me h (acts_of (run v st ops)) other = h other.
Proof. intros. apply deliver_all_other. assumption. Qed.

Lemma own_session_run : forall v st ops me h,
  deliver_all me h (acts_of (run v st ops)) me = (h me ++ session_msgs (acts_of (run v st ops)))%list.
Proof. intros. apply deliver_all_me. Qed.

Lemma total_refuted : exists st m, out_of (recv original false st m) = Panic.
Proof. exists (init false), (absent TWelcome IdEmpty). exact original_panics. Qed.

Lemma progress_refuted : exists ops, out_of (run original (init false) ops) = Stuck.
Proof. exists [ORecv welcome_ok; ORecvFail wrong_id]. exact original_sticks. Qed.

Lemma close_refuted : exists ops, out_of (run original (init false) ops) = Panic /\
  forallb (fun o => match o with ORecvFail m => valid m | _ => true end) ops = true.
Proof. exists [ORecvFail welcome_nofed]. split; [exact original_panics_on_close | reflexivity]. Qed.

(* ---- the path into the local session: entries of update.users / update.changed ----------------
   A forwarded participants/update event is handed to ClientSession.SendMessage, whose
   filterMessage reads entry["sessionId"].(string) of every entry without a check, in the
   federation read goroutine.  The lemmas say exactly which messages bring the code without
   the validation down there, that the validation excludes exactly those (up to the one
   entry updateEventUsers repairs), and that a validation looking at another member
   ("sessionid", which updateEventUsers accepts as well) would not do. *)
Definition upd_event (g : etarget) (u : upd_s) : server_msg :=
  mkM TEvent IdOther None None None false None None None
    (Some (mkE g YUpdate [] [] [] false false false false (Some u) false false)) false false false.

(* code without the validation, after the hello: a participants/update event ends the
   process iff, after updateEventUsers, some entry has no string "sessionId" *)
Lemma session_path_exact : forall v wf s m e u,
  v_valid v = false -> hello_done s = true ->
  m_tag m = TEvent -> m_event m = Some e ->
  e_target e = GParticipants -> e_type e = YUpdate -> e_update e = Some u ->
  (out_of (recv v wf s m) = Panic <-> session_filter_panics (rewrite_update (remote_sid s) u) = true).
Proof.
  intros v wf s m e u Hv Hh Ht He Hg Hy Hu.
  unfold recv. rewrite Hv, Hh. cbn [andb].
  unfold process_message. rewrite Ht, He. unfold process_event. rewrite Hg, Hy, Hu.
  unfold panic_if. destruct (session_filter_panics (rewrite_update (remote_sid s) u)).
  - cbn. split; reflexivity.
  - unfold forward. rewrite Ht. cbn. split; discriminate.
Qed.

(* what the validation demands of the entries is enough in every state ... *)
Lemma validated_entries_safe : forall sid e u,
  e_target e = GParticipants -> e_type e = YUpdate -> e_update e = Some u ->
  valid_event e = true -> session_filter_panics (rewrite_update sid u) = false.
Proof.
  intros sid e u Hg Hy Hu Hv. unfold valid_event in Hv. rewrite Hg, Hy, Hu in Hv.
  apply validated_update_passes_session. exact Hv.
Qed.

(* ... and not more than needed: an entry the validation rejects takes the process down
   as the only entry of users or of changed, unless it is the one entry updateEventUsers
   gives a "sessionId" (its id, possibly under "sessionid", is the remote id of the
   federated session and that id is known) *)
Lemma rejected_entry_crashes : forall v wf s x in_changed,
  v_valid v = false -> hello_done s = true ->
  is_sid x = false -> (remote_sid s = false \/ is_own (entry_id x) = false) ->
  out_of (recv v wf s (upd_event GParticipants (if in_changed : bool then mkU [x] [] else mkU [] [x]))) = Panic.
Proof.
  intros v wf s x ic Hv Hh Hx Hown.
  set (u := if ic then mkU [x] [] else mkU [] [x]).
  apply <- (session_path_exact v wf s (upd_event GParticipants u)
              (mkE GParticipants YUpdate [] [] [] false false false false (Some u) false false) u);
    try reflexivity; try assumption.
  subst u.
  unfold session_filter_panics, rewrite_update.
  assert (Hupd : remote_sid s = true -> update_users [x] = [x]).
  { intros Hs. destruct Hown as [Hn|Hn]; [rewrite Hn in Hs; discriminate|]. cbn. rewrite Hn. reflexivity. }
  destruct (remote_sid s) eqn:Es.
  - destruct ic; cbn [u_users u_changed]; rewrite (Hupd eq_refl);
      change (update_users []) with (@nil uentry); cbn [app forallb]; rewrite Hx; reflexivity.
  - destruct ic; cbn [u_users u_changed app forallb]; rewrite Hx; reflexivity.
Qed.

(* the joined state, with and without a session id from the remote *)
Definition joined_sid : fstate := after false [welcome_ok; hello_ok].
Definition joined_nosid : fstate := after false [welcome_ok; hello_nosid].
Definition no_validation : variant := mkV false true true.

(* the entry of a lower-case only id, {"sessionid":"x"}: accepted by updateEventUsers,
   fatal in the session *)
Definition lower_only : uentry := UEnt VNone VStr ANone.
Lemma lowercase_entry_panics :
  out_of (recv no_validation false joined_sid (upd_event GParticipants (mkU [] [lower_only]))) = Panic /\
  out_of (recv no_validation false joined_sid (upd_event GParticipants (mkU [lower_only] [USid]))) = Panic /\
  out_of (recv no_validation false joined_nosid (upd_event GParticipants (mkU [] [UEnt VNone VOwn ANone]))) = Panic /\
  (* the own id is repaired once per list *)
  out_of (recv no_validation false joined_sid (upd_event GParticipants (mkU [UEnt VNone VOwn ANone] [UEnt VBad VOwn ANone]))) = Ok /\
  out_of (recv no_validation false joined_sid (upd_event GParticipants (mkU [] [UEnt VNone VOwn ANone; UEnt VNone VOwn ANone]))) = Panic /\
  (* the repaired code ignores all of them *)
  recv repaired false joined_sid (upd_event GParticipants (mkU [] [lower_only])) = (joined_sid, [], Ok).
Proof. vm_compute. repeat split; reflexivity. Qed.

(* a validation that accepts an entry because of its "sessionid" is not enough: whatever
   else it checks, if it lets the lower-case only entry through the process ends *)
Lemma lower_case_validation_unsound : forall s wf,
  hello_done s = true ->
  out_of (recv no_validation wf s (upd_event GParticipants (mkU [] [lower_only]))) = Panic.
Proof.
  intros s wf Hh. apply (rejected_entry_crashes no_validation wf s lower_only false eq_refl Hh eq_refl).
  right. reflexivity.
Qed.

(* enumeration: all entries (null, and every combination of the two id members; actor
   members on the diagonal), users lists of length <= 2, changed lists of length <= 1,
   targets participants and roomlist, all seven stages *)
Definition all_sidv := [VNone; VBad; VOwn; VStr].
Definition all_entries : list uentry :=
  UNil :: flat_map (fun up => map (fun lo => UEnt up lo ANone) all_sidv) all_sidv ++
  [UEnt VStr VNone AUser; UEnt VNone VStr AFedLocal; UEnt VOwn VBad ABadId; UEnt VBad VOwn ABadType].
Definition lists_le2 {A} (l : list A) : list (list A) :=
  [] :: map (fun x => [x]) l ++ flat_map (fun x => map (fun y => [x; y]) l) l.
Definition lists_le1 {A} (l : list A) : list (list A) := [] :: map (fun x => [x]) l.
Definition enum_updates : list server_msg :=
  flat_map (fun g => flat_map (fun us => map (fun ch => upd_event g (mkU ch us)) (lists_le1 all_entries)) (lists_le2 all_entries))
           [GParticipants; GRoomlist].
Definition enum_entries : list (fstate * server_msg) := list_prod enum_stages enum_updates.

Lemma enum_entries_repaired_ok :
  forallb (fun sm => is_ok (recv repaired false (fst sm) (snd sm)) && is_ok (recv repaired true (fst sm) (snd sm)))%bool enum_entries = true.
Proof. vm_compute. reflexivity. Qed.

(* a validation going by either spelling of the member, as updateEventUsers does *)
Definition either_sid (u : uentry) : bool :=
  match u with UEnt up lo _ => (is_str up || is_str lo)%bool | UNil => false end.
Definition either_accepts (sm : fstate * server_msg) : bool :=
  match m_event (snd sm) with
  | Some e => match e_update e with Some u => forallb either_sid (u_users u ++ u_changed u) | None => false end
  | None => false
  end.

(* 142 604 (stage, update event) pairs; without the validation 41 810 of them end the
   process (all in ClientSession.filterMessage); 14 085 of those consist only of entries
   that have a string id under one of the two spellings *)
Lemma enum_entries_counts :
  count (fun _ => true) enum_entries = 142604%N /\
  count (panics no_validation false) enum_entries = 41810%N /\
  count (panics original false) enum_entries = 41810%N /\
  count (fun sm => (either_accepts sm && panics no_validation false sm)%bool) enum_entries = 14085%N /\
  count (fun sm => (valid (snd sm) && panics no_validation false sm)%bool) enum_entries = 0%N.
Proof. vm_compute. repeat split; reflexivity. Qed.
