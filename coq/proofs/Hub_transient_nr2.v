From Coq Require Import List NArith Bool Lia.
From Verif Require Import model.Hub proofs.Hub_basics proofs.Hub_wf proofs.Hub_easy proofs.Hub_pending proofs.Hub_transient_frame proofs.Hub_transient_nr.
Import ListNotations.
Open Scope N_scope.

Lemma nr_do_message ex h0 h sid s kindn to tag cb : NR ex h0 h -> nres ex h0 (do_message h sid s kindn to tag cb).
Proof. intros B. unfold do_message. ngo. Qed.
#[export] Hint Resolve nr_do_message : nrdb.

Lemma nr_recv_event ex h0 h sid m sender co re t : rmsg m = false -> NR ex h0 h -> nres ex h0 (recv_event h sid m sender co re t).
Proof. intros Hm B. unfold recv_event. ngo. Qed.
#[export] Hint Resolve nr_recv_event : nrdb.

Lemma get_set_mcu h a b c x : get_sess (set_mcu h a b c) x = get_sess h x.
Proof. reflexivity. Qed.

Lemma nr_finish_create ex h0 h tok p ok : NR ex h0 h -> nres ex h0 (finish_create h tok p ok).
Proof. intros B. unfold finish_create. ngo. Qed.
#[export] Hint Resolve nr_finish_create : nrdb.

Lemma nr_start_create ex h0 h p : NR ex h0 h -> nres ex h0 (start_create h p).
Proof. intros B. unfold start_create. ngo. Qed.
#[export] Hint Resolve nr_start_create : nrdb.

Lemma nr_do_mcudone ex h0 h tok ok : NR ex h0 h -> nres ex h0 (do_mcudone h tok ok).
Proof. intros B. unfold do_mcudone. ngo. Qed.
#[export] Hint Resolve nr_do_mcudone : nrdb.

Lemma nr_do_sendoffer ex h0 h c sid s i stream : NR ex h0 h -> nres ex h0 (do_sendoffer h c sid s i stream).
Proof. intros B. unfold do_sendoffer. ngo. Qed.
#[export] Hint Resolve nr_do_sendoffer : nrdb.

Lemma nr_do_media ex h0 h c sid s to mk stream media : get_sess h sid = Some s -> NR ex h0 h -> nres ex h0 (do_media h c sid s to mk stream media).
Proof. intros Hs B. unfold do_media. ngo. Qed.
#[export] Hint Resolve nr_do_media : nrdb.

Lemma nr_do_api ex h0 h b room q : NR ex h0 h -> nres ex h0 (do_api h b room q).
Proof. intros B. unfold do_api. ngo. Qed.
#[export] Hint Resolve nr_do_api : nrdb.

Lemma nr_do_tick ex h0 h secs : NR ex h0 h -> nres ex h0 (do_tick h secs).
Proof. intros B. unfold do_tick. ngo. Qed.
#[export] Hint Resolve nr_do_tick : nrdb.

