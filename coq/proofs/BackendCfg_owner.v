(* C13, second clause of the trace predicate (corr/Run_C13.v, Section Owner): an
   accepted URL belongs to the backend it is accepted for - the configured URL of
   that backend, slash-terminated, is a prefix of the looked-up URL, slash-terminated.

   Static storage: proved for every history of new-style configurations.
   Etcd storage: the code stores the URL of an etcd value as it is written
   (api_backend.go BackendInformationEtcd.CheckValid adds no "/"), so the clause
   holds for histories whose URLs end in "/" and is refuted otherwise
   (finding C13/etcd/url-without-trailing-slash).

   The one assumption on the url.Parse oracle: String() of a URL whose text ends
   in "/" ends in "/" (only used when a standard port is dropped). *)
From Coq Require Import List ZArith NArith Bool String Ascii Lia.
From Verif Require Import model.BackendCfg corr.Run_C13 proofs.BackendCfg_proofs.
Import ListNotations.
Local Open Scope string_scope.

(* ---- strings ---------------------------------------------------------------------------- *)
Lemma ends_with_slash_app s : ends_with_slash (s ++ "/") = true.
Proof.
  induction s as [|c r IH]; [reflexivity|].
  cbn [append ends_with_slash]. destruct (r ++ "/") eqn:E.
  - destruct r; discriminate.
  - exact IH.
Qed.

Lemma add_slash_ends s : ends_with_slash (add_slash s) = true.
Proof. unfold add_slash. destruct (ends_with_slash s) eqn:E; [exact E|apply ends_with_slash_app]. Qed.

Lemma add_slash_fix s : ends_with_slash s = true -> add_slash s = s.
Proof. unfold add_slash. now intros ->. Qed.

Definition slash_stable (up : string -> option purl) : Prop :=
  forall s p, up s = Some p -> ends_with_slash s = true -> ends_with_slash (p_nstr p) = true.

Lemma dedupe_ids_subset toks : forall seen id, In id (dedupe_ids seen toks) -> In id toks.
Proof.
  induction toks as [|t r IH]; intros seen id; cbn [dedupe_ids]; [auto|].
  destruct (N.eqb t 0); [intros H; right; eauto|].
  destruct (existsb (N.eqb t) seen); [intros H; right; eauto|].
  intros [<-|H]; [left; reflexivity|right; eauto].
Qed.

Lemma owner_ok_none up urls probe : owner_ok up urls probe ANone = true.
Proof. reflexivity. Qed.
Lemma owner_ok_panic up urls probe : owner_ok up urls probe APanic = true.
Proof. reflexivity. Qed.

(* ---- static storage ------------------------------------------------------------------------ *)
Section Static.
Context (up : string -> option purl).
Context (Hup : slash_stable up).

Lemma mk_backend_spec common id s h b : mk_backend up common id s = Some (h, b) ->
  b_id b = id /\ b_compat b = false /\ ends_with_slash (b_url b) = true /\ spec_url up (s_url s) = Some (b_url b).
Proof.
  unfold mk_backend, spec_url. destruct (s_url s =? ""); [discriminate|].
  destruct (up (add_slash (s_url s))) as [p|] eqn:Ep; [|discriminate].
  set (u' := if normalised p then p_nstr p else add_slash (s_url s)).
  destruct ((u' =? "") || _)%bool; [discriminate|]. intros H. injection H as _ <-. cbn.
  assert (He : ends_with_slash u' = true).
  { unfold u'. destruct (normalised p); [apply (Hup _ _ Ep), add_slash_ends|apply add_slash_ends]. }
  repeat split; try assumption. now rewrite (add_slash_fix _ He).
Qed.

Lemma fresh_lookup_owner c probe : new_style c ->
  owner_ok up (cfg_urls c) probe (answer_of (lookup_static up (fresh up c) probe)) = true.
Proof.
  intros Hn. destruct (lookup_static up (fresh up c) probe) as [|[b|]] eqn:El; try reflexivity.
  destruct (fresh_new_style up c Hn) as (Hc & _ & Ht).
  destruct (lookup_some_in up _ _ _ El Hc) as (p & Hp & Hin & _ & Hpre).
  assert (Hcb : configured_backend up c (n_host p) b).
  { apply configured_mem. unfold tget_d in *. now rewrite <- Ht. }
  destruct Hcb as (id & s & Hid & Hs & Hm).
  destruct (mk_backend_spec _ _ _ _ _ Hm) as (Hbid & Hbc & He & Hsp).
  cbn [answer_of owner_ok proj]. rewrite Hbc, Hp. cbn [orb].
  apply existsb_exists. exists (id, s_url s). split.
  - unfold cfg_urls. apply in_flat_map. exists id. split; [eapply dedupe_ids_subset; eauto|].
    rewrite Hs. left. reflexivity.
  - cbn [fst snd]. rewrite Hbid, N.eqb_refl. cbn [andb]. unfold belongs_to. now rewrite Hsp.
Qed.

Definition st_ok2 (cur : list (N * string)) (st : option (sstate * config)) : Prop :=
  match st with None => True | Some (s, c) => state_eq s (fresh up c) /\ new_style c /\ cur = cfg_urls c end.

Lemma owner_static_from ops : forall cur st, st_ok2 cur st ->
  Forall new_style (flat_map op_config ops) -> owner_static up cur (mtrace_static up st ops) = true.
Proof.
  induction ops as [|o r IH]; intros cur st Hst Hn; [reflexivity|].
  cbn [flat_map] in Hn. apply Forall_app in Hn as [Ho Hr].
  destruct o as [c|c|e|u]; cbn [mtrace_static].
  - (* OInit *)
    cbn [owner_static]. apply IH; [|exact Hr]. cbn. split; [repeat split|]. split; [now inversion Ho|reflexivity].
  - (* OReload *)
    destruct st as [[s c0]|]; [|now apply IH].
    destruct Hst as (He & Hc0 & _). inversion Ho as [|? ? Hc _]; subst.
    destruct (fresh_new_style up c0 Hc0) as (F1 & F2 & F3).
    destruct He as (E1 & E2 & E3).
    destruct (reload_table up s c ltac:(congruence)) as (s' & Hrl & R1 & R2 & R3).
    rewrite Hrl. cbn [owner_static]. apply IH; [|exact Hr].
    destruct (fresh_new_style up c Hc) as (G1 & G2 & G3).
    cbn. split; [|split; [exact Hc|reflexivity]]. split; [congruence|]. split; [congruence|]. intros h. now rewrite R3, G3.
  - (* OEvent: not applicable *)
    destruct st as [[s c0]|]; now apply IH.
  - (* OProbe *)
    destruct st as [[s c0]|]; [|now apply IH].
    destruct Hst as (He & Hc0 & ->). cbn [owner_static owner_out].
    rewrite (lookup_state_eq up s _ u He), (fresh_lookup_owner c0 u Hc0). cbn [andb].
    apply IH; [|exact Hr]. cbn. auto.
Qed.

Lemma owner_static_trace ops : Forall new_style (flat_map op_config ops) ->
  owner_static up [] (mtrace_static up None ops) = true.
Proof. apply owner_static_from. exact I. Qed.
End Static.

(* ---- etcd storage ---------------------------------------------------------------------------- *)
Definition put_slashed (o : op) : Prop :=
  match o with
  | OEvent (EPut _ (Some i)) => ends_with_slash (e_url i) = true
  | _ => True
  end.

Section Etcd.
Context (up : string -> option purl).
Context (Hup : slash_stable up).

Definition kv_slashed (kv : list (N * option einfo)) : Prop :=
  forall k i, In (k, Some i) kv -> ends_with_slash (e_url i) = true.

Lemma kv_get_In k kv v : kv_get k kv = Some v -> In (k, v) kv.
Proof.
  induction kv as [|[k' v'] r IH]; cbn; [discriminate|].
  destruct (N.eqb_spec k' k) as [->|Hn]; [intros H; injection H as ->; auto|auto].
Qed.

Lemma check_valid_spec k i h b : check_valid up k i = Some (h, b) -> ends_with_slash (e_url i) = true ->
  b_id b = k /\ b_compat b = false /\ spec_url up (e_url i) = Some (b_url b).
Proof.
  unfold check_valid, spec_url. intros H He. rewrite (add_slash_fix _ He).
  destruct (e_url i =? ""); [discriminate|]. destruct (e_secret i =? 0)%N; [discriminate|].
  destruct (up (e_url i)) as [p|] eqn:Ep; [|discriminate]. injection H as _ <-. cbn.
  repeat split. f_equal. apply add_slash_fix. destruct (normalised p); [apply (Hup _ _ Ep He)|exact He].
Qed.

Lemma etcd_lookup_owner evs probe : kv_slashed (final_kv evs) ->
  owner_ok up (kv_urls (final_kv evs)) probe (answer_of (lookup_etcd up (run_etcd up evs) probe)) = true.
Proof.
  intros Hsl. destruct (lookup_etcd up (run_etcd up evs) probe) as [|[b|]] eqn:El; try reflexivity.
  destruct (etcd_accepted_only_if_live up evs probe b El) as (p & Hp & Hlive & _ & Hpre).
  destruct (final_kv_rel up evs [] (fun _ => None) I (fun _ => eq_refl)) as [_ Hl].
  unfold live in Hlive. rewrite Hl in Hlive. unfold kv_live in Hlive.
  change (fold_left (kv_step) evs []) with (final_kv evs) in Hlive.
  destruct (kv_get (b_id b) (final_kv evs)) as [v|] eqn:Eg; [|discriminate].
  apply kv_get_In in Eg. destruct v as [i|]; [|discriminate]. cbn [validate] in Hlive.
  destruct (check_valid_spec _ _ _ _ Hlive (Hsl _ _ Eg)) as (_ & Hbc & Hsp).
  cbn [answer_of owner_ok proj]. rewrite Hbc, Hp. cbn [orb].
  apply existsb_exists. exists (b_id b, e_url i). split.
  - unfold kv_urls. apply in_flat_map. exists (b_id b, Some i). split; [exact Eg|]. left. reflexivity.
  - cbn [fst snd]. rewrite N.eqb_refl. cbn [andb]. unfold belongs_to. now rewrite Hsp.
Qed.

Lemma kv_step_slashed kv e : kv_slashed kv -> put_slashed (OEvent e) ->
  kv_slashed (match e with EPut k x => kv_set k x kv | EDel k => kv_del k kv end).
Proof.
  intros Hs Hp k i Hin. destruct e as [k0 v|k0].
  - apply kv_set_In in Hin as [Heq|Hin]; [|eauto]. injection Heq as -> <-. exact Hp.
  - unfold kv_del in Hin. apply filter_In in Hin as [Hin _]. eauto.
Qed.

Lemma owner_etcd_from ops : forall evs, kv_slashed (final_kv evs) -> Forall put_slashed ops ->
  owner_etcd up (final_kv evs) (mtrace_etcd up (run_etcd up evs) (final_kv evs) ops) = true.
Proof.
  induction ops as [|o r IH]; intros evs Hs Hp; [reflexivity|].
  inversion Hp as [|? ? Ho Hr]; subst.
  destruct o as [c|c|e|u]; cbn [mtrace_etcd]; try (apply IH; assumption).
  - cbn [owner_etcd].
    specialize (IH (evs ++ [e])%list). unfold run_etcd, final_kv in IH. rewrite !fold_left_app in IH. cbn [fold_left] in IH.
    apply IH; [|exact Hr]. apply (kv_step_slashed _ e Hs Ho).
  - cbn [owner_etcd owner_out]. rewrite <- (etcd_eq_fresh up evs u), (etcd_lookup_owner evs u Hs). cbn [andb].
    now apply IH.
Qed.

Lemma owner_etcd_trace ops : Forall put_slashed ops ->
  owner_etcd up [] (mtrace_etcd up einit [] ops) = true.
Proof. apply (owner_etcd_from ops []). intros k i []. Qed.
End Etcd.

(* ---- the finding: an etcd value whose URL does not end in "/" ---------------------------------- *)
Definition own_tbl : list (string * purl) :=
  [ wit_url "cloud.example" "https://cloud.example/nextcloud";
    wit_url "cloud.example" "https://cloud.example/nextcloud/";
    wit_url "cloud.example" "https://cloud.example/nextcloud-test/ocs/v2.php" ].
Definition own_up (s : string) : option purl :=
  match find (fun e => fst e =? s) own_tbl with Some e => Some (snd e) | None => None end.

Lemma own_up_stable : slash_stable own_up.
Proof.
  intros s p H He. unfold own_up in H.
  destruct (find (fun e => fst e =? s) own_tbl) as [e|] eqn:Ef; [|discriminate]. injection H as <-.
  apply find_some in Ef as [Hin Heq]. apply String.eqb_eq in Heq. subst s.
  cbn in Hin. destruct Hin as [<-|[<-|[<-|[]]]]; cbn in *; try discriminate; reflexivity.
Qed.

Definition own_ops : list op :=
  [OEvent (EPut 1 (Some (mkE "https://cloud.example/nextcloud" 1 0 0 0)));
   OProbe "https://cloud.example/nextcloud-test/ocs/v2.php"].

Lemma etcd_owner_refuted :
  slash_stable own_up /\
  map snd (mtrace_etcd own_up einit [] own_ops) =
    [VOk; VAns (ASome (1%N, 1%N, 0%Z, 0%Z, 0%Z, false)) (ASome (1%N, 1%N, 0%Z, 0%Z, 0%Z, false))] /\
  P_C13 (mtrace_etcd own_up einit [] own_ops) = true /\
  owner_etcd own_up [] (mtrace_etcd own_up einit [] own_ops) = false.
Proof. split; [exact own_up_stable|]. repeat split; vm_compute; reflexivity. Qed.

(* the same value written with the trailing slash refuses the foreign URL *)
Lemma etcd_owner_slashed_example :
  map snd (mtrace_etcd own_up einit []
    [OEvent (EPut 1 (Some (mkE "https://cloud.example/nextcloud/" 1 0 0 0)));
     OProbe "https://cloud.example/nextcloud-test/ocs/v2.php"]) = [VOk; VAns ANone ANone].
Proof. vm_compute. reflexivity. Qed.

(* non-vacuity of the static theorem: two backends whose paths share a string prefix,
   in both orders; each URL is accepted for its own backend only *)
Definition seg_tbl : list (string * purl) :=
  [ wit_url "cloud.example" "https://cloud.example/nextcloud/";
    wit_url "cloud.example" "https://cloud.example/nextcloud-test/";
    wit_url "cloud.example" "https://cloud.example/nextcloud-test/ocs";
    wit_url "cloud.example" "https://cloud.example/nextcloud/ocs";
    wit_url "cloud.example" "https://cloud.example/nextcloudx" ].
Definition seg_up (s : string) : option purl :=
  match find (fun e => fst e =? s) seg_tbl with Some e => Some (snd e) | None => None end.
Definition seg_cfg (ids : list N) : config :=
  wit_cfg ids [(1%N, wit_sec "https://cloud.example/nextcloud" 1); (2%N, wit_sec "https://cloud.example/nextcloud-test" 2)].
Definition seg_ops : list op :=
  [OInit (seg_cfg [1; 2]%N); OProbe "https://cloud.example/nextcloud-test/ocs"; OProbe "https://cloud.example/nextcloud/ocs";
   OProbe "https://cloud.example/nextcloudx";
   OReload (seg_cfg [2; 1]%N); OProbe "https://cloud.example/nextcloud-test/ocs"; OProbe "https://cloud.example/nextcloud/ocs"].
Lemma seg_example :
  Forall new_style (flat_map op_config seg_ops) /\
  map snd (mtrace_static seg_up None seg_ops) =
    [VOk; VAns (ASome (2%N, 2%N, 0%Z, 0%Z, 0%Z, false)) (ASome (2%N, 2%N, 0%Z, 0%Z, 0%Z, false));
     VAns (ASome (1%N, 1%N, 0%Z, 0%Z, 0%Z, false)) (ASome (1%N, 1%N, 0%Z, 0%Z, 0%Z, false));
     VAns ANone ANone; VOk;
     VAns (ASome (2%N, 2%N, 0%Z, 0%Z, 0%Z, false)) (ASome (2%N, 2%N, 0%Z, 0%Z, 0%Z, false));
     VAns (ASome (1%N, 1%N, 0%Z, 0%Z, 0%Z, false)) (ASome (1%N, 1%N, 0%Z, 0%Z, 0%Z, false))] /\
  owner_static seg_up [] (mtrace_static seg_up None seg_ops) = true.
Proof.
  split; [|split; vm_compute; reflexivity].
  cbn. repeat constructor; cbn; discriminate.
Qed.
