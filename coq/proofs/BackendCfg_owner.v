(* C13, second clause of the trace predicate (corr/Run_C13.v, Section Owner): an
   accepted URL belongs to the backend it is accepted for - the configured URL of
   that backend, slash-terminated, is a prefix of the looked-up URL, slash-terminated.

   With the lookup stopping at a path-segment boundary (fixes/C13/07, find_entry) the
   clause holds for EVERY history of both storages:
   - static storage: no hypothesis at all (deprecated modes included: there the
     answers name the compat backend, which the clause does not judge);
   - etcd storage: every history, URLs with and without trailing "/".  One assumption
     on the url.Parse oracle (oracle_regular), because the clause reads the configured
     URL slash-terminated and THEN parsed, while the etcd storage parses the URL as
     written and keeps String() unchecked: parsing a text and the same text with "/"
     appended agree, and String() of a URL with a port is not empty.  The harness
     checks both for every URL it writes to etcd.
   The lookup as it was (find_entry_unrepaired, plain string prefix) is refuted with
   the witnesses of the former finding C13/etcd/url-without-trailing-slash. *)
From Coq Require Import List ZArith NArith Bool String Ascii Lia.
From Verif Require Import model.BackendCfg corr.Run_C13 proofs.BackendCfg_proofs.
Import ListNotations.
Local Open Scope string_scope.

(* ---- strings ---------------------------------------------------------------------------- *)
Lemma ends_with_slash_app s : ends_with_slash (s ++ "/") = true.
Proof.
  induction s as [|c r IH]; [reflexivity|].
  cbn [append ends_with_slash]. destruct (r ++ "/") eqn:E.
  - destruct r; discriminate.
  - exact IH.
Qed.

Lemma add_slash_ends s : ends_with_slash (add_slash s) = true.
Proof. unfold add_slash. destruct (ends_with_slash s) eqn:E; [exact E|apply ends_with_slash_app]. Qed.

Lemma add_slash_fix s : ends_with_slash s = true -> add_slash s = s.
Proof. unfold add_slash. now intros ->. Qed.

Lemma add_slash_idem s : add_slash (add_slash s) = add_slash s.
Proof. apply add_slash_fix, add_slash_ends. Qed.

(* The assumption on the url.Parse oracle (etcd theorem only).
   (1) String() of a URL that has a port (a standard one, which is dropped) is not empty.
   (2) A text that parses and does not end in "/" also parses with "/" appended, a
       standard port is written out in both or in neither, and where it is, the
       String() forms agree up to that slash. *)
Definition oracle_regular (up : string -> option purl) : Prop :=
  (forall s p, up s = Some p -> normalised p = true -> p_nstr p <> "") /\
  (forall s p, up s = Some p -> ends_with_slash s = false ->
     exists p', up (s ++ "/") = Some p' /\ normalised p' = normalised p /\
                (normalised p = true -> add_slash (p_nstr p') = add_slash (p_nstr p))).

Lemma dedupe_ids_subset toks : forall seen id, In id (dedupe_ids seen toks) -> In id toks.
Proof.
  induction toks as [|t r IH]; intros seen id; cbn [dedupe_ids]; [auto|].
  destruct (N.eqb t 0); [intros H; right; eauto|].
  destruct (existsb (N.eqb t) seen); [intros H; right; eauto|].
  intros [<-|H]; [left; reflexivity|right; eauto].
Qed.

Lemma owner_ok_none up urls probe : owner_ok up urls probe ANone = true.
Proof. reflexivity. Qed.
Lemma owner_ok_panic up urls probe : owner_ok up urls probe APanic = true.
Proof. reflexivity. Qed.

(* ---- static storage ------------------------------------------------------------------------ *)
Section Static.
Context (up : string -> option purl).

Lemma mk_backend_spec common id s h b : mk_backend up common id s = Some (h, b) ->
  b_id b = id /\ b_compat b = false /\ b_url b <> "" /\ spec_url up (s_url s) = Some (add_slash (b_url b)).
Proof.
  intros Hm. pose proof (mk_backend_url_nonempty up _ _ _ _ _ Hm) as Hne. revert Hm.
  unfold mk_backend, spec_url. destruct (s_url s =? ""); [discriminate|].
  destruct (up (add_slash (s_url s))) as [p|] eqn:Ep; [|discriminate].
  set (u' := if normalised p then p_nstr p else add_slash (s_url s)).
  destruct ((u' =? "") || _)%bool; [discriminate|]. intros H. injection H as _ <-. cbn in *.
  repeat split. exact Hne.
Qed.

(* Every state a history reaches: either the server runs in a deprecated mode (it has a
   compat backend; then every backend it can answer with is a compat backend), or every
   entry of its table is a backend of the configuration loaded last. *)
Definition owned (c : config) (s : sstate) : Prop :=
  (st_compat s = None /\ forall h b, In b (tget_d (st_tab s) h) -> configured_backend up c h b) \/
  ((exists cb, st_compat s = Some cb) /\ (forall cb, st_compat s = Some cb -> b_compat cb = true) /\
   forall h b, In b (tget_d (st_tab s) h) -> b_compat b = true).

Lemma allowed_table_mem cb hs : forall t h b,
  In b (tget_d (fold_left (fun t h => tset t h [cb]) hs t) h) -> b = cb \/ In b (tget_d t h).
Proof.
  induction hs as [|x r IH]; intros t h b; cbn [fold_left]; [auto|].
  intros H. apply IH in H as [H|H]; [auto|].
  destruct (String.eqb_spec x h) as [->|Hne].
  - rewrite tget_d_tset_same in H. destruct H as [<-|[]]. auto.
  - rewrite tget_d_tset_other in H by exact Hne. auto.
Qed.

Lemma fresh_owned c : owned c (fresh up c).
Proof.
  unfold fresh. destruct (c_allowall c).
  - right. cbn. split; [eauto|]. split; [intros cb H; now injection H as <-|]. intros h b [].
  - destruct (ids_raw_empty (c_ids c)) eqn:E; cbn [negb].
    + destruct (c_allowed c) as [|a hs] eqn:Ea.
      * left. cbn. split; [reflexivity|]. intros h b [].
      * right. cbn [st_compat st_tab]. split; [eauto|]. split; [intros cb H; now injection H as <-|].
        intros h b H. apply allowed_table_mem in H as [->|[]]. reflexivity.
    + left. cbn. split; [reflexivity|]. intros h b H. now apply configured_mem.
Qed.

Lemma reload_owned c0 s c : owned c0 s -> exists s', reload up s c = Some s' /\ owned c s'.
Proof.
  intros [[Hc Ht]|[[cb Hc] H]].
  - destruct (reload_table up s c Hc) as (s' & Hrl & R1 & _ & R3). exists s'. split; [exact Hrl|].
    left. split; [exact R1|]. intros h b Hin. apply configured_mem. unfold tget_d in *. now rewrite <- R3.
  - exists s. split; [unfold reload, reload_with; now rewrite Hc|]. right. split; [eauto|exact H].
Qed.

Lemma lookup_some_cases st probe b : lookup_static up st probe = LRes (Some b) ->
  exists p, up probe = Some p /\
    (st_compat st = Some b \/
     (In b (tget_d (st_tab st) (n_host p)) /\
      (b_url b = "" \/ String.prefix (add_slash (b_url b)) (add_slash (n_str p)) = true))).
Proof.
  unfold lookup_static, lookup_static_with. destruct (up probe) as [p|]; [|discriminate]. intros H. exists p. split; [reflexivity|].
  unfold get_backend_static_with, get_backend_locked_with in H.
  destruct (st_tab st (n_host p)) as [entries|] eqn:Et.
  - right. destruct (n_str p =? ""); [discriminate|]. injection H as H. apply find_entry_some in H as (H1 & _ & _ & H4).
    unfold tget_d. rewrite Et. auto.
  - left. destruct (st_allowall st); [now injection H|discriminate].
Qed.

Lemma lookup_owner c s probe : owned c s ->
  owner_ok up (cfg_urls c) probe (answer_of (lookup_static up s probe)) = true.
Proof.
  intros Ho. destruct (lookup_static up s probe) as [|[b|]] eqn:El; try reflexivity.
  destruct (lookup_some_cases _ _ _ El) as (p & Hp & Hcase).
  cbn [answer_of owner_ok proj].
  assert (Hgoal : b_compat b = true \/ configured_backend up c (n_host p) b /\
            (b_url b = "" \/ String.prefix (add_slash (b_url b)) (add_slash (n_str p)) = true)).
  { destruct Ho as [[Hc Ht]|[_ [Hc Ht]]]; destruct Hcase as [Hs|[Hin Hb]]; eauto; congruence. }
  destruct Hgoal as [->|[(id & sc & Hid & Hs & Hm) Hb]]; [reflexivity|].
  destruct (mk_backend_spec _ _ _ _ _ Hm) as (Hbid & _ & Hne & Hsp).
  destruct Hb as [Hb|Hb]; [contradiction|].
  rewrite Hp. apply orb_true_iff. right.
  apply existsb_exists. exists (id, s_url sc). split.
  - unfold cfg_urls. apply in_flat_map. exists id. split; [eapply dedupe_ids_subset; eauto|].
    rewrite Hs. left. reflexivity.
  - cbn [fst snd]. rewrite Hbid, N.eqb_refl. cbn [andb]. unfold belongs_to. now rewrite Hsp.
Qed.

Definition st_ok2 (cur : list (N * string)) (st : option (sstate * config)) : Prop :=
  match st with None => True | Some (s, c) => owned c s /\ cur = cfg_urls c end.

Lemma owner_static_from ops : forall cur st, st_ok2 cur st ->
  owner_static up cur (mtrace_static up st ops) = true.
Proof.
  induction ops as [|o r IH]; intros cur st Hst; [reflexivity|].
  destruct o as [c|c|e|u]; cbn [mtrace_static].
  - (* OInit *)
    cbn [owner_static]. apply IH. cbn. split; [apply fresh_owned|reflexivity].
  - (* OReload *)
    destruct st as [[s c0]|]; [|now apply IH].
    destruct Hst as (Ho & _). destruct (reload_owned _ _ c Ho) as (s' & Hrl & Ho').
    rewrite Hrl. cbn [owner_static]. apply IH. cbn. auto.
  - (* OEvent: not applicable *)
    destruct st as [[s c0]|]; now apply IH.
  - (* OProbe *)
    destruct st as [[s c0]|]; [|now apply IH].
    destruct Hst as (Ho & ->). cbn [owner_static owner_out].
    rewrite (lookup_owner c0 s u Ho), (lookup_owner c0 _ u (fresh_owned c0)). cbn [andb].
    apply IH. cbn. auto.
Qed.

Lemma owner_static_trace ops : owner_static up [] (mtrace_static up None ops) = true.
Proof. apply owner_static_from. exact I. Qed.
End Static.

(* ---- etcd storage ---------------------------------------------------------------------------- *)
Section Etcd.
Context (up : string -> option purl).
Context (Hup : oracle_regular up).

Lemma kv_get_In k kv v : kv_get k kv = Some v -> In (k, v) kv.
Proof.
  induction kv as [|[k' v'] r IH]; cbn; [discriminate|].
  destruct (N.eqb_spec k' k) as [->|Hn]; [intros H; injection H as ->; auto|auto].
Qed.

(* the URL as the clause reads it (slash-terminated, parsed, standard port dropped) is the
   URL the storage keeps (parsed as written, standard port dropped), slash-terminated *)
Lemma check_valid_spec k i h b : check_valid up k i = Some (h, b) ->
  b_id b = k /\ b_compat b = false /\ b_url b <> "" /\ spec_url up (e_url i) = Some (add_slash (b_url b)).
Proof.
  destruct Hup as [Hne Hsl].
  unfold check_valid, spec_url. intros H.
  destruct (e_url i =? "") eqn:E0; [discriminate|]. destruct (e_secret i =? 0)%N; [discriminate|].
  destruct (up (e_url i)) as [p|] eqn:Ep; [|discriminate]. injection H as _ <-. cbn.
  split; [reflexivity|]. split; [reflexivity|]. split.
  { destruct (normalised p) eqn:En; [exact (Hne _ _ Ep En)|]. intros E. rewrite E in E0. discriminate. }
  destruct (ends_with_slash (e_url i)) eqn:He.
  - rewrite (add_slash_fix _ He), Ep. reflexivity.
  - assert (Ha : add_slash (e_url i) = e_url i ++ "/") by (unfold add_slash; now rewrite He).
    rewrite Ha. destruct (Hsl _ _ Ep He) as (p' & Ep' & Hn & Hs). rewrite Ep', Hn. f_equal.
    destruct (normalised p); [now apply Hs|]. rewrite <- Ha. apply add_slash_idem.
Qed.

Lemma etcd_lookup_owner evs probe :
  owner_ok up (kv_urls (final_kv evs)) probe (answer_of (lookup_etcd up (run_etcd up evs) probe)) = true.
Proof.
  destruct (lookup_etcd up (run_etcd up evs) probe) as [|[b|]] eqn:El; try reflexivity.
  destruct (etcd_accepted_only_if_live up evs probe b El) as (p & Hp & Hlive & _ & _ & Hpre).
  destruct (final_kv_rel up evs [] (fun _ => None) I (fun _ => eq_refl)) as [_ Hl].
  unfold live in Hlive. rewrite Hl in Hlive. unfold kv_live in Hlive.
  change (fold_left (kv_step) evs []) with (final_kv evs) in Hlive.
  destruct (kv_get (b_id b) (final_kv evs)) as [v|] eqn:Eg; [|discriminate].
  apply kv_get_In in Eg. destruct v as [i|]; [|discriminate]. cbn [validate] in Hlive.
  destruct (check_valid_spec _ _ _ _ Hlive) as (_ & Hbc & Hne & Hsp).
  cbn [answer_of owner_ok proj]. rewrite Hbc, Hp. cbn [orb].
  apply existsb_exists. exists (b_id b, e_url i). split.
  - unfold kv_urls. apply in_flat_map. exists (b_id b, Some i). split; [exact Eg|]. left. reflexivity.
  - cbn [fst snd]. rewrite N.eqb_refl. cbn [andb]. unfold belongs_to. rewrite Hsp.
    destruct Hpre as [Hb|Hpre]; [contradiction|exact Hpre].
Qed.

Lemma owner_etcd_from ops : forall evs,
  owner_etcd up (final_kv evs) (mtrace_etcd up (run_etcd up evs) (final_kv evs) ops) = true.
Proof.
  induction ops as [|o r IH]; intros evs; [reflexivity|].
  destruct o as [c|c|e|u]; cbn [mtrace_etcd]; try apply IH.
  - cbn [owner_etcd].
    specialize (IH (evs ++ [e])%list). unfold run_etcd, final_kv in IH. rewrite !fold_left_app in IH. cbn [fold_left] in IH.
    apply IH.
  - cbn [owner_etcd owner_out]. rewrite <- (etcd_eq_fresh up evs u), (etcd_lookup_owner evs u). cbn [andb].
    apply IH.
Qed.

Lemma owner_etcd_trace ops : owner_etcd up [] (mtrace_etcd up einit [] ops) = true.
Proof. apply (owner_etcd_from ops []). Qed.
End Etcd.

(* ---- the lookup as it was: plain string prefix ------------------------------------------------------
   An etcd value whose URL does not end in "/" (the form of the example in server.conf.in)
   also accepted the URLs of a sibling whose path continues the last segment. *)
Definition own_tbl : list (string * purl) :=
  [ wit_url "cloud.example" "https://cloud.example/nextcloud";
    wit_url "cloud.example" "https://cloud.example/nextcloud/";
    wit_url "cloud.example" "https://cloud.example/nextcloud-test";
    wit_url "cloud.example" "https://cloud.example/nextcloud-test/";
    wit_url "cloud.example" "https://cloud.example/nextcloud/ocs/v2.php";
    wit_url "cloud.example" "https://cloud.example/nextcloud/ocs/v2.php/";
    wit_url "cloud.example" "https://cloud.example/nextcloud-test/ocs/v2.php";
    wit_url "cloud.example" "https://cloud.example/nextcloud-test/ocs/v2.php/" ].
Definition own_up (s : string) : option purl :=
  match find (fun e => fst e =? s) own_tbl with Some e => Some (snd e) | None => None end.

Lemma own_up_regular : oracle_regular own_up.
Proof.
  assert (Hin : forall s p, own_up s = Some p -> In (s, p) own_tbl).
  { intros s p H. unfold own_up in H. destruct (find (fun e => fst e =? s) own_tbl) as [e|] eqn:Ef; [|discriminate].
    injection H as <-. apply find_some in Ef as [Hin Heq]. apply String.eqb_eq in Heq. subst s. now destruct e. }
  split; intros s p H; apply Hin in H; unfold own_tbl, wit_url in H; cbn [In] in H.
  - intros Hn.
    repeat (destruct H as [H|H]; [injection H as <- <-; vm_compute in Hn; discriminate|]). contradiction.
  - intros He.
    repeat (destruct H as [H|H];
      [injection H as <- <-;
       first [ vm_compute in He; discriminate
             | eexists; split; [vm_compute; reflexivity|split; [reflexivity|intros Hn; vm_compute in Hn; discriminate]] ]|]).
    contradiction.
Qed.

Definition own_put (k : N) (u : string) : eop := EPut k (Some (mkE u k 0 0 0)).
(* witness 1 (directed case 900103): one key, a sibling path is looked up *)
Definition own_evs : list eop := [own_put 1 "https://cloud.example/nextcloud"].
Definition own_ops : list op :=
  [OEvent (own_put 1 "https://cloud.example/nextcloud");
   OProbe "https://cloud.example/nextcloud/ocs/v2.php";
   OProbe "https://cloud.example/nextcloud-test/ocs/v2.php"].
(* witness 2 (directed case 900104): the sibling is configured too, under a later key *)
Definition own_evs2 : list eop :=
  [own_put 1 "https://cloud.example/nextcloud"; own_put 2 "https://cloud.example/nextcloud-test"].
Definition own_ops2 : list op :=
  map OEvent own_evs2 ++
  [OProbe "https://cloud.example/nextcloud-test/ocs/v2.php"; OProbe "https://cloud.example/nextcloud/ocs/v2.php"].

Definition own_k1 : N * N * Z * Z * Z * bool := (1%N, 1%N, 0%Z, 0%Z, 0%Z, false).
Definition own_k2 : N * N * Z * Z * Z * bool := (2%N, 2%N, 0%Z, 0%Z, 0%Z, false).

(* unrepaired: running and freshly started instance accept the sibling's URL for key 1
   (so P_C13 alone is satisfied) and the clause is false on that answer; repaired: refused *)
Lemma lookup_unrepaired_refuted :
  let probe := "https://cloud.example/nextcloud-test/ocs/v2.php" in
  answer_of (lookup_etcd_unrepaired own_up (run_etcd own_up own_evs) probe) = ASome own_k1 /\
  answer_of (lookup_etcd_unrepaired own_up (fresh_etcd own_up (final_kv own_evs)) probe) = ASome own_k1 /\
  owner_ok own_up (kv_urls (final_kv own_evs)) probe (ASome own_k1) = false /\
  answer_of (lookup_etcd own_up (run_etcd own_up own_evs) probe) = ANone.
Proof. repeat split; vm_compute; reflexivity. Qed.

(* unrepaired: with both keys configured the URL of the second instance is answered with
   the first one's secret; repaired: each URL is accepted for its own key *)
Lemma lookup_unrepaired_refuted2 :
  let probe := "https://cloud.example/nextcloud-test/ocs/v2.php" in
  answer_of (lookup_etcd_unrepaired own_up (run_etcd own_up own_evs2) probe) = ASome own_k1 /\
  owner_ok own_up (kv_urls (final_kv own_evs2)) probe (ASome own_k1) = false /\
  answer_of (lookup_etcd own_up (run_etcd own_up own_evs2) probe) = ASome own_k2 /\
  owner_ok own_up (kv_urls (final_kv own_evs2)) probe (ASome own_k2) = true.
Proof. repeat split; vm_compute; reflexivity. Qed.

(* the model traces of the two witness histories (what the directed cases 900103/900104 must show now) *)
Lemma etcd_owner_witness_traces :
  map snd (mtrace_etcd own_up einit [] own_ops) =
    [VOk; VAns (ASome own_k1) (ASome own_k1); VAns ANone ANone] /\
  map snd (mtrace_etcd own_up einit [] own_ops2) =
    [VOk; VOk; VAns (ASome own_k2) (ASome own_k2); VAns (ASome own_k1) (ASome own_k1)] /\
  owner_etcd own_up [] (mtrace_etcd own_up einit [] own_ops) = true /\
  owner_etcd own_up [] (mtrace_etcd own_up einit [] own_ops2) = true.
Proof. repeat split; vm_compute; reflexivity. Qed.

(* the repair changes nothing for entries whose URL ends in "/" (all entries of the static storage
   whenever String() keeps the trailing slash) *)
Lemma find_entry_repair_conservative entries sch url :
  (forall e, In e entries -> b_url e = "" \/ ends_with_slash (b_url e) = true) ->
  find_entry entries sch url = find_entry_unrepaired entries sch url.
Proof.
  unfold find_entry, find_entry_unrepaired.
  induction entries as [|x r IH]; intros H; [reflexivity|]. cbn [find_entry_with].
  rewrite IH by (intros e He; apply H; now right).
  destruct (H x (or_introl eq_refl)) as [E|E].
  - rewrite E. cbn. reflexivity.
  - unfold url_matches. rewrite E. cbn [negb orb]. reflexivity.
Qed.

(* non-vacuity of the static theorem: two backends whose paths share a string prefix,
   in both orders; each URL is accepted for its own backend only *)
Definition seg_tbl : list (string * purl) :=
  [ wit_url "cloud.example" "https://cloud.example/nextcloud/";
    wit_url "cloud.example" "https://cloud.example/nextcloud-test/";
    wit_url "cloud.example" "https://cloud.example/nextcloud-test/ocs";
    wit_url "cloud.example" "https://cloud.example/nextcloud/ocs";
    wit_url "cloud.example" "https://cloud.example/nextcloudx" ].
Definition seg_up (s : string) : option purl :=
  match find (fun e => fst e =? s) seg_tbl with Some e => Some (snd e) | None => None end.
Definition seg_cfg (ids : list N) : config :=
  wit_cfg ids [(1%N, wit_sec "https://cloud.example/nextcloud" 1); (2%N, wit_sec "https://cloud.example/nextcloud-test" 2)].
Definition seg_ops : list op :=
  [OInit (seg_cfg [1; 2]%N); OProbe "https://cloud.example/nextcloud-test/ocs"; OProbe "https://cloud.example/nextcloud/ocs";
   OProbe "https://cloud.example/nextcloudx";
   OReload (seg_cfg [2; 1]%N); OProbe "https://cloud.example/nextcloud-test/ocs"; OProbe "https://cloud.example/nextcloud/ocs"].
Lemma seg_example :
  Forall new_style (flat_map op_config seg_ops) /\
  map snd (mtrace_static seg_up None seg_ops) =
    [VOk; VAns (ASome (2%N, 2%N, 0%Z, 0%Z, 0%Z, false)) (ASome (2%N, 2%N, 0%Z, 0%Z, 0%Z, false));
     VAns (ASome (1%N, 1%N, 0%Z, 0%Z, 0%Z, false)) (ASome (1%N, 1%N, 0%Z, 0%Z, 0%Z, false));
     VAns ANone ANone; VOk;
     VAns (ASome (2%N, 2%N, 0%Z, 0%Z, 0%Z, false)) (ASome (2%N, 2%N, 0%Z, 0%Z, 0%Z, false));
     VAns (ASome (1%N, 1%N, 0%Z, 0%Z, 0%Z, false)) (ASome (1%N, 1%N, 0%Z, 0%Z, 0%Z, false))] /\
  owner_static seg_up [] (mtrace_static seg_up None seg_ops) = true.
Proof.
  split; [|split; vm_compute; reflexivity].
  cbn. repeat constructor; cbn; discriminate.
Qed.
