(* Progress of non-reentrant lock programs on one RWMutex under every schedule,
   and the deadlock of the re-entrant read lock. *)
From Coq Require Import List Arith Lia Bool.
From Verif Require Import gen.LockProgs model.BackendLocks.
Import ListNotations.

Definition b2n (b : bool) : nat := if b then 1 else 0.
Fixpoint count (f : thread -> bool) (l : list thread) : nat :=
  match l with [] => 0 | a :: r => b2n (f a) + count f r end.
Definition holdsR t := match held t with Some MR => true | _ => false end.
Definition holdsW t := match held t with Some MW => true | _ => false end.

Definition tok (t : thread) : Prop :=
  nr (held t) (prog t) = true /\
  (announced t = true -> held t = None /\ exists r, prog t = Lock :: r).

Record J (s : st) : Prop := {
  j_r : readers (fst s) = count holdsR (snd s);
  j_w : b2n (writer (fst s)) = count holdsW (snd s);
  j_a : b2n (pending (fst s)) = count announced (snd s);
  j_t : Forall tok (snd s)
}.

Lemma count_upd f l i old x : nth_error l i = Some old ->
  count f (upd i x l) + b2n (f old) = count f l + b2n (f x).
Proof.
  revert i; induction l as [|a r IH]; intros i H; destruct i as [|i]; cbn in *; try discriminate.
  - injection H as ->. lia.
  - specialize (IH i H). lia.
Qed.
Lemma Forall_upd {A} (P : A -> Prop) l i x : Forall P l -> P x -> Forall P (upd i x l).
Proof.
  revert i; induction l as [|a r IH]; intros i Hl Hx; destruct i; cbn; auto; inversion Hl; subst; constructor; auto.
Qed.
Lemma count_pos f l : 0 < count f l -> exists i t, nth_error l i = Some t /\ f t = true.
Proof.
  induction l as [|a r IH]; cbn; intros H; [lia|].
  destruct (f a) eqn:E.
  - exists 0, a. auto.
  - cbn in H. destruct (IH H) as (i & t & Hi & Ht). exists (S i), t. auto.
Qed.
Lemma count_zero f l i t : count f l = 0 -> nth_error l i = Some t -> f t = false.
Proof.
  revert i; induction l as [|a r IH]; intros i H Hi; destruct i; cbn in *; try discriminate.
  - injection Hi as ->. destruct (f t); cbn in H; [lia|reflexivity].
  - apply (IH i); [destruct (f a); cbn in H; lia|exact Hi].
Qed.

Lemma tok_not_announced t o r : tok t -> prog t = o :: r -> o <> Lock -> announced t = false.
Proof.
  intros [_ Ha] Hp Ho. destruct (announced t); [|reflexivity].
  destruct (Ha eq_refl) as [_ [r' Hr']]. rewrite Hp in Hr'. injection Hr' as -> _. now elim Ho.
Qed.

Theorem step_preserves s tid : J s -> J (step s tid).
Proof.
  intros [Hr Hw Ha Ht]. unfold step. destruct (nth_error (snd s) tid) as [t|] eqn:E; [|constructor; auto].
  assert (Htk : tok t) by (rewrite Forall_forall in Ht; apply Ht; eapply nth_error_In; eauto).
  pose proof Htk as [Hnr Hann].
  destruct (tstep (fst s) t) as [[m' t']|] eqn:Hs; [|constructor; auto].
  pose proof (count_upd holdsR (snd s) tid t t' E) as CR.
  pose proof (count_upd holdsW (snd s) tid t t' E) as CW.
  pose proof (count_upd announced (snd s) tid t t' E) as CA.
  unfold tstep in Hs. destruct (prog t) as [|o r] eqn:Hp; [discriminate|].
  assert (Hfin :
            readers m' + b2n (holdsR t) = readers (fst s) + b2n (holdsR t') ->
            b2n (writer m') + b2n (holdsW t) = b2n (writer (fst s)) + b2n (holdsW t') ->
            b2n (pending m') + b2n (announced t) = b2n (pending (fst s)) + b2n (announced t') ->
            tok t' -> J (m', upd tid t' (snd s))).
  { intros H1 H2 H3 H4. constructor; cbn [fst snd]; try lia. apply Forall_upd; auto. }
  clear CR CW CA.
  destruct o.
  - (* Lock *)
    cbn in Hnr. destruct (held t) as [[|]|] eqn:Hh; try discriminate.
    destruct (announced t) eqn:An; cbn [negb] in Hs.
    + destruct (writer (fst s) || (0 <? readers (fst s))) eqn:Hb; [discriminate|]. injection Hs as <- <-.
      apply orb_false_iff in Hb as [Hwf _].
      assert (Hpt : pending (fst s) = true).
      { destruct (pending (fst s)) eqn:Pe; [reflexivity|]. cbn in Ha. symmetry in Ha.
        pose proof (count_zero announced (snd s) tid t Ha E). congruence. }
      apply Hfin; unfold holdsR, holdsW; cbn [readers writer pending held announced prog]; rewrite ?Hh, ?An, ?Hwf, ?Hpt; cbn; try lia.
      split; cbn; [exact Hnr|discriminate].
    + destruct (writer (fst s) || pending (fst s)) eqn:Hb; [discriminate|]. injection Hs as <- <-.
      apply orb_false_iff in Hb as [Hwf Hpf].
      apply Hfin; unfold holdsR, holdsW; cbn [readers writer pending held announced prog]; rewrite ?Hh, ?An, ?Hwf, ?Hpf; cbn; try lia.
      split; cbn; [exact Hnr|]. intros _. split; [reflexivity|eauto].
  - (* RLock *)
    destruct (writer (fst s) || pending (fst s)); [discriminate|]. injection Hs as <- <-.
    cbn in Hnr. destruct (held t) as [[|]|] eqn:Hh; try discriminate.
    assert (An : announced t = false) by (eapply tok_not_announced; eauto; discriminate).
    apply Hfin; unfold holdsR, holdsW; cbn [readers writer pending held announced prog]; rewrite ?Hh, ?An; cbn; try lia.
    split; cbn; [exact Hnr|discriminate].
  - (* Unlock *)
    injection Hs as <- <-. cbn in Hnr. destruct (held t) as [[|]|] eqn:Hh; try discriminate.
    assert (An : announced t = false) by (eapply tok_not_announced; eauto; discriminate).
    assert (Hwt : writer (fst s) = true).
    { destruct (writer (fst s)) eqn:Wr; [reflexivity|]. cbn in Hw. symmetry in Hw.
      pose proof (count_zero holdsW (snd s) tid t Hw E) as Hz. unfold holdsW in Hz. rewrite Hh in Hz. discriminate. }
    apply Hfin; unfold holdsR, holdsW; cbn [readers writer pending held announced prog]; rewrite ?Hh, ?An, ?Hwt; cbn; try lia.
    split; cbn; [exact Hnr|discriminate].
  - (* RUnlock *)
    injection Hs as <- <-. cbn in Hnr. destruct (held t) as [[|]|] eqn:Hh; try discriminate.
    assert (An : announced t = false) by (eapply tok_not_announced; eauto; discriminate).
    assert (0 < readers (fst s)).
    { rewrite Hr. destruct (count holdsR (snd s)) eqn:C; [|lia].
      pose proof (count_zero holdsR (snd s) tid t C E) as Hz. unfold holdsR in Hz. rewrite Hh in Hz. discriminate. }
    apply Hfin; unfold holdsR, holdsW; cbn [readers writer pending held announced prog]; rewrite ?Hh, ?An; cbn; try lia.
    split; cbn; [exact Hnr|discriminate].
Qed.

Lemma run_preserves sched : forall s, J s -> J (run sched s).
Proof. induction sched as [|tid r IH]; intros s H; [exact H|]. cbn. apply IH. now apply step_preserves. Qed.

Lemma forallb_false_ex {A} (f : A -> bool) l : forallb f l = false -> exists x, In x l /\ f x = false.
Proof.
  induction l as [|a r IH]; cbn; intros H; [discriminate|].
  destruct (f a) eqn:E; [destruct (IH H) as (x & Hx & Hf); exists x; auto|exists a; auto].
Qed.

(* progress: in a well-formed, unfinished state some thread can move *)
Theorem progress s : J s -> all_done s = false -> exists tid, tid < length (snd s) /\ enabled s tid = true.
Proof.
  intros [Hr Hw Ha Ht] Hnd. rewrite Forall_forall in Ht.
  assert (Hlt : forall i t, nth_error (snd s) i = Some t -> i < length (snd s)).
  { intros i t Hi. apply nth_error_Some. congruence. }
  (* case 1: somebody holds the mutex: its next operation is an unlock, never blocked *)
  destruct (Nat.eq_dec (count holdsR (snd s) + count holdsW (snd s)) 0) as [Hz|Hnz].
  2:{ assert (Hex : exists i t, nth_error (snd s) i = Some t /\ (holdsR t = true \/ holdsW t = true)).
      { destruct (count holdsR (snd s)) eqn:CR.
        - destruct (count_pos holdsW (snd s)) as (i & t & Hi & Hh); [lia|]. eauto.
        - destruct (count_pos holdsR (snd s)) as (i & t & Hi & Hh); [lia|]. eauto. }
      destruct Hex as (i & t & Hi & Hh). exists i. split; [eauto|]. unfold enabled. rewrite Hi.
      destruct (Ht t (nth_error_In _ _ Hi)) as [Hnr _]. unfold tstep.
      unfold holdsR, holdsW in Hh. destruct (held t) as [[|]|] eqn:Hhe; [| |destruct Hh; discriminate].
      - destruct (prog t) as [|[] r]; cbn in Hnr; try discriminate; reflexivity.
      - destruct (prog t) as [|[] r]; cbn in Hnr; try discriminate; reflexivity. }
  (* case 2: nobody holds it *)
  assert (HR0 : readers (fst s) = 0) by lia.
  assert (HW0 : writer (fst s) = false) by (destruct (writer (fst s)); cbn in Hw; [lia|reflexivity]).
  destruct (pending (fst s)) eqn:Hp.
  - (* the announced writer can take the lock *)
    destruct (count_pos announced (snd s)) as (i & t & Hi & Han); [cbn in Ha; lia|]. exists i. split; [eauto|].
    unfold enabled. rewrite Hi. destruct (Ht t (nth_error_In _ _ Hi)) as [_ Hann].
    destruct (Hann Han) as [_ [r Hpr]]. unfold tstep. rewrite Hpr, Han, HW0, HR0. reflexivity.
  - (* no writer around: any unfinished thread takes its first lock or announces *)
    unfold all_done in Hnd. apply forallb_false_ex in Hnd.
    destruct Hnd as (t & Hin & Hd). apply In_nth_error in Hin as [i Hi]. exists i. split; [eauto|].
    unfold enabled. rewrite Hi. destruct (Ht t (nth_error_In _ _ Hi)) as [Hnr Hann]. unfold tstep.
    assert (Hh : held t = None).
    { pose proof (count_zero holdsR (snd s) i t ltac:(lia) Hi) as H1. pose proof (count_zero holdsW (snd s) i t ltac:(lia) Hi) as H2.
      unfold holdsR, holdsW in *. destruct (held t) as [[|]|]; try discriminate; reflexivity. }
    assert (Han : announced t = false) by (apply (count_zero announced (snd s) i t); [cbn in Ha; lia|exact Hi]).
    unfold done_t in Hd. destruct (prog t) as [|[] r] eqn:Hpr; try discriminate; rewrite Hh in Hnr; cbn in Hnr; try discriminate.
    + rewrite Han, HW0, Hp. reflexivity.
    + rewrite HW0, Hp. reflexivity.
Qed.

Lemma not_deadlocked s : J s -> deadlocked s = false.
Proof.
  intros HJ. unfold deadlocked. destruct (all_done s) eqn:Hd; [reflexivity|]. cbn [negb andb].
  destruct (progress s HJ Hd) as (tid & Hlt & He).
  destruct (forallb (fun i => negb (enabled s i)) (seq 0 (length (snd s)))) eqn:Hf; [|reflexivity].
  rewrite forallb_forall in Hf. specialize (Hf tid). rewrite He in Hf. cbn in Hf.
  assert (false = true); [apply Hf; apply in_seq; lia|discriminate].
Qed.

(* ---- every step consumes program text or an announcement --------------------------------- *)
Definition weight_t (t : thread) : nat := 2 * length (prog t) - b2n (announced t).
Fixpoint weight_l (l : list thread) : nat := match l with [] => 0 | t :: r => weight_t t + weight_l r end.
Definition weight (s : st) : nat := weight_l (snd s).

Lemma weight_upd l i old x : nth_error l i = Some old ->
  weight_l (upd i x l) + weight_t old = weight_l l + weight_t x.
Proof.
  revert i; induction l as [|a r IH]; intros i H; destruct i as [|i]; cbn in *; try discriminate.
  - injection H as ->. lia.
  - specialize (IH i H). lia.
Qed.

Lemma step_decreases s tid : J s -> enabled s tid = true -> weight (step s tid) < weight s.
Proof.
  intros [_ _ _ Ht] He. unfold enabled in He. unfold step.
  destruct (nth_error (snd s) tid) as [t|] eqn:E; [|discriminate].
  assert (Htk : tok t) by (rewrite Forall_forall in Ht; apply Ht; eapply nth_error_In; eauto).
  destruct (tstep (fst s) t) as [[m' t']|] eqn:Hs; [|discriminate].
  unfold weight. cbn [snd]. pose proof (weight_upd (snd s) tid t t' E) as HW.
  assert (weight_t t' < weight_t t); [|lia].
  unfold tstep in Hs. destruct (prog t) as [|o r] eqn:Hp; [discriminate|].
  unfold weight_t. rewrite Hp. cbn [length].
  destruct o.
  - destruct (announced t) eqn:An; cbn [negb] in Hs.
    + destruct (writer (fst s) || (0 <? readers (fst s))); [discriminate|]. injection Hs as _ <-. cbn. lia.
    + destruct (writer (fst s) || pending (fst s)); [discriminate|]. injection Hs as _ <-. cbn. lia.
  - assert (An : announced t = false) by (eapply tok_not_announced; eauto; discriminate).
    destruct (writer (fst s) || pending (fst s)); [discriminate|]. injection Hs as _ <-. rewrite An. cbn. lia.
  - assert (An : announced t = false) by (eapply tok_not_announced; eauto; discriminate).
    injection Hs as _ <-. rewrite An. cbn. lia.
  - assert (An : announced t = false) by (eapply tok_not_announced; eauto; discriminate).
    injection Hs as _ <-. rewrite An. cbn. lia.
Qed.

Lemma step_disabled s tid : enabled s tid = false -> step s tid = s.
Proof.
  unfold enabled, step. destruct (nth_error (snd s) tid) as [t|]; [|reflexivity].
  destruct (tstep (fst s) t); [discriminate|reflexivity].
Qed.

Lemma effective_bounded sched : forall s, J s -> effective sched s + weight (run sched s) <= weight s.
Proof.
  induction sched as [|tid r IH]; intros s HJ; cbn [effective run fold_left]; [lia|].
  specialize (IH (step s tid) (step_preserves s tid HJ)). unfold run in IH.
  destruct (enabled s tid) eqn:He.
  - pose proof (step_decreases s tid HJ He). lia.
  - rewrite (step_disabled s tid He) in *. lia.
Qed.

(* ---- initial states ---------------------------------------------------------------------------- *)
Lemma init_J ps : forallb non_reentrant ps = true -> J (init ps).
Proof.
  intros H. unfold init.
  assert (Hc : forall f, (forall p, f (mkT p false None) = false) -> count f (map (fun p => mkT p false None) ps) = 0).
  { intros f Hf. clear H. induction ps as [|p r IH]; [reflexivity|]. cbn [map count]. rewrite Hf, IH. reflexivity. }
  constructor; cbn [fst snd readers writer pending b2n].
  - symmetry. apply Hc. reflexivity.
  - symmetry. apply Hc. reflexivity.
  - symmetry. apply Hc. reflexivity.
  - clear Hc. induction ps as [|p r IH]; cbn; constructor.
    + cbn in H. apply andb_true_iff in H as [Hp _]. split; cbn; [exact Hp|discriminate].
    + apply IH. cbn in H. now apply andb_true_iff in H as [_ Hr].
Qed.

Lemma init_weight ps : weight (init ps) = budget ps.
Proof. unfold weight, init, budget. cbn [snd]. induction ps as [|p r IH]; cbn; [reflexivity|]. rewrite IH. unfold weight_t. cbn. lia. Qed.

Lemma upd_length {A} (l : list A) i x : length (upd i x l) = length l.
Proof. revert i. induction l as [|a r IH]; intros [|i]; cbn; auto. Qed.
Lemma step_length s tid : length (snd (step s tid)) = length (snd s).
Proof.
  unfold step. destruct (nth_error (snd s) tid) as [t|]; [|reflexivity].
  destruct (tstep (fst s) t) as [[m' t']|]; [|reflexivity]. cbn [snd]. apply upd_length.
Qed.
Lemma run_length sched : forall s, length (snd (run sched s)) = length (snd s).
Proof. induction sched as [|tid r IH]; intros s; [reflexivity|]. cbn. unfold run in IH. rewrite IH. apply step_length. Qed.

(* Every interleaving of threads running non-reentrant programs on one RWMutex:
   the state reached by ANY schedule is not a deadlock - either all threads are
   done or some thread can move -, and no schedule takes more than `budget`
   steps; so every schedule that keeps choosing threads that can move ends,
   after at most `budget` steps, with all threads done. *)
Theorem non_reentrant_progs_complete ps : forallb non_reentrant ps = true ->
  forall sched,
    let s := run sched (init ps) in
    (all_done s = true \/ exists tid, tid < length ps /\ enabled s tid = true) /\
    deadlocked s = false /\
    ((forall tid, enabled s tid = false) -> all_done s = true) /\
    effective sched (init ps) <= budget ps.
Proof.
  intros Hnr sched s. pose proof (init_J ps Hnr) as H0. pose proof (run_preserves sched _ H0) as HJ. fold s in HJ.
  assert (Hlen : length (snd s) = length ps) by (subst s; rewrite run_length; unfold init; cbn [snd]; apply map_length).
  repeat split.
  - destruct (all_done s) eqn:Hd; [now left|right]. destruct (progress s HJ Hd) as (tid & Hlt & He). exists tid. split; [lia|exact He].
  - now apply not_deadlocked.
  - intros Hno. destruct (all_done s) eqn:Hd; [reflexivity|]. destruct (progress s HJ Hd) as (tid & _ & He). rewrite Hno in He. discriminate.
  - pose proof (effective_bounded sched (init ps) H0). rewrite init_weight in H. lia.
Qed.

(* threads that call entry points again and again: sequences of non-reentrant programs *)
Lemma nr_app h p q : nr h p = true -> nr None q = true -> nr h (p ++ q) = true.
Proof.
  revert h. induction p as [|o r IH]; intros h Hp Hq.
  - destruct h; cbn in Hp; [discriminate|exact Hq].
  - destruct o, h as [[|]|]; cbn in Hp |- *; try discriminate; now apply IH.
Qed.
Lemma nr_concat ps : forallb non_reentrant ps = true -> non_reentrant (concat ps) = true.
Proof.
  induction ps as [|p r IH]; cbn; [reflexivity|]. intros H. apply andb_true_iff in H as [Hp Hr].
  apply nr_app; [exact Hp|now apply IH].
Qed.

Lemma call_sequences_non_reentrant (progs : list (list lockop)) (calls : list (list (list lockop))) :
  forallb non_reentrant progs = true ->
  (forall cs p, In cs calls -> In p cs -> In p progs) ->
  forallb non_reentrant (map (@concat lockop) calls) = true.
Proof.
  intros Hp Hin. apply forallb_forall. intros x Hx. apply in_map_iff in Hx as (cs & <- & Hcs).
  apply nr_concat. apply forallb_forall. intros p Hpin. rewrite forallb_forall in Hp. apply Hp. eapply Hin; eauto.
Qed.

(* the re-entrant read lock: lookup takes RLock, a reload announces itself, the lookup's second RLock blocks *)
Lemma reentrant_deadlock :
  deadlocked (run [0; 1] (init [unrepaired_GetBackend; unrepaired_Reload])) = true.
Proof. vm_compute. reflexivity. Qed.
