(* Transient room data of the hub model, for every history (C14, scenario C14H): the replica of every member session
   - ghost state computed from the outputs only, continued over a resume by what the resume flushes - is the data of
   its room after every history of operations, every delivery order of the bus included. *)
From Coq Require Import List NArith Bool Lia.
From Verif Require corr.Hub_preds.
From Verif Require Import model.Hub proofs.Hub_basics proofs.Hub_wf proofs.Hub_easy proofs.Hub_corollaries proofs.Hub_pending
  proofs.Hub_transient_frame proofs.Hub_transient_bus proofs.Hub_transient_nr.
Import ListNotations.
Open Scope N_scope.

Lemma tapply_is_apply_trans v m : tapply v m = Hub_preds.apply_trans v m.
Proof. reflexivity. Qed.

(* ------------------------------------------------------------------ RI under the relation *)
Lemma rix_olds h h' g x s s' :
  (forall k r', room_of h' k = Some r' -> exists r, room_of h k = Some r /\ r_transient r' = r_transient r) ->
  s_kind s' = s_kind s -> s_conn s' = s_conn s -> (is_virtual (s_kind s) = true \/ s_room s' = s_room s) ->
  (forall v, replayT (s_pending s') v = replayT (s_pending s) v) -> (hello_free (s_pending s) -> hello_free (s_pending s')) ->
  RIx h g x s -> RIx h' g x s'.
Proof.
  intros R K C Rm P Hf [Bn Vc Hh Rp]. constructor.
  - intros c Hc. apply Bn. congruence.
  - intros V. rewrite C. apply Vc. congruence.
  - auto.
  - intros V. rewrite K in V. specialize (Rp V). destruct Rm as [V'|Rm]; [congruence|]. rewrite Rm, P.
    destruct (s_room s) as [k|]; [|exact Rp]. destruct Rp as (Nz & d & Hd & Hr). split; [exact Nz|]. exists d. split; [exact Hd|].
    intros r' Hr'. destruct (R k r' Hr') as (r & Hr0 & T). rewrite T. now apply Hr.
Qed.

Lemma ri_nr (ex : N -> Prop) h h' g :
  RI h g -> NR ex h h' -> (forall x s', ex x -> get_sess h' x = Some s' -> RIx h' g x s') -> RI h' g.
Proof.
  intros [S F] (Ss & R & Nx) Hex. constructor.
  - intros x s' Hs'. destruct (Ss x s' Hs') as [E|[(s & Hs & K & C & Rm & (_ & P & Hf))|(V & C & Hf)]].
    + now apply Hex.
    + eapply rix_olds; eauto.
    + constructor; [intros c Hc; congruence|auto|exact Hf|intros V'; congruence].
  - intros x Hx. apply F. lia.
Qed.

Lemma ri_quiet h g r : RI h g -> nres noex h r -> RI (fst r) (gouts g (snd r)).
Proof.
  intros I [B Q]. rewrite (gouts_quiet _ _ Q). eapply ri_nr; [exact I|exact B|]. intros x s' [].
Qed.

Lemma get_put_sessT h sid s y : get_sess (put_sess h sid s) y = if N.eqb y sid then Some s else get_sess h y.
Proof. unfold get_sess, put_sess. cbn [h_sessions set_sessions]. apply aget_aset. Qed.

(* ------------------------------------------------------------------ sending a room / transient message *)
Definition relm (m : smsg) : Prop := match m with SRoom _ | STransient _ => True | _ => False end.

Lemma send_relm_eq h x s m : get_sess h x = Some s -> is_virtual (s_kind s) = false -> relm m ->
  send_session h x m = match s_conn s with
                       | Some c => (put_sess h x s, [ToConn c m])
                       | None => (put_sess h x (sess_pending s (s_pending s ++ [m])), []) end.
Proof.
  intros Hs Hv Hm. unfold send_session. rewrite Hs.
  assert (Ht : match s_kind s with KVirtual p _ => p | _ => x end = x) by (destruct (s_kind s); [reflexivity|reflexivity|discriminate]).
  rewrite Ht. unfold deliver_to_session. rewrite Hs.
  destruct m; try destruct Hm; cbv zeta; destruct (s_conn s) as [c|]; reflexivity.
Qed.

(* what the sends need: a connection's messages are attributed to its session, a connected session has nothing queued *)
Definition SI (h : hub) (g : ghost) : Prop :=
  forall x s, get_sess h x = Some s -> (forall c, s_conn s = Some c -> g_bind g c = Some x) /\ (s_conn s <> None -> s_pending s = []).

Definition core4 (g : ghost) (y : N) (s : session) := (s_kind s, s_conn s, s_room s, replayT (s_pending s) (g_rep g y)).
Definition coreo (h : hub) (g : ghost) (y : N) := option_map (core4 g y) (get_sess h y).
Definition upd4 (m : smsg) (t : kind * option N * option (N * N) * rep) := let '(k, c, r, e) := t in (k, c, r, tapply e m).

Record sent (h : hub) (g : ghost) (h' : hub) (g' : ghost) (m : smsg) (T : N -> bool) : Prop := {
  st_si : SI h' g';
  st_rooms : h_rooms h' = h_rooms h;
  st_next : h_nextsid h' = h_nextsid h;
  st_bind : forall c, g_bind g' c = g_bind g c;
  st_core : forall y, coreo h' g' y = if T y then option_map (upd4 m) (coreo h g y) else coreo h g y;
  st_dead : forall y, get_sess h y = None -> g_rep g' y = g_rep g y;
  st_other : forall y, T y = false -> g_rep g' y = g_rep g y;
  st_hf : (forall y s, get_sess h y = Some s -> hello_free (s_pending s)) ->
          forall y s', get_sess h' y = Some s' -> hello_free (s_pending s');
}.

Lemma send1 m h g x s : relm m -> SI h g -> get_sess h x = Some s -> is_virtual (s_kind s) = false ->
  sent h g (fst (send_session h x m)) (gouts g (snd (send_session h x m))) m (fun y => N.eqb y x).
Proof.
  intros Hm Si Hs Hv. rewrite (send_relm_eq h x s m Hs Hv Hm). destruct (Si x s Hs) as [Bn Pe].
  destruct (s_conn s) as [c|] eqn:Hc; cbn [fst snd].
  - assert (Hp : s_pending s = []) by (apply Pe; discriminate).
    assert (Hg : gouts g [ToConn c m] = mkg (g_bind g) (fun y => if N.eqb y x then tapply (g_rep g x) m else g_rep g y)).
    { unfold gouts. cbn [fold_left]. destruct m; try destruct Hm; cbn [gout]; rewrite (Bn c eq_refl); reflexivity. }
    rewrite Hg. constructor; try reflexivity.
    + intros y t. rewrite get_put_sessT. destruct (N.eqb_spec y x) as [->|Hne]; [intros E; injection E as <-; split; [intros c' Hc'; cbn; apply Bn; congruence|auto]|].
      intros Hy. apply (Si y t Hy).
    + intros y. unfold coreo. rewrite get_put_sessT. destruct (N.eqb_spec y x) as [->|Hne].
      * rewrite Hs. cbn [option_map]. unfold core4, upd4. cbn [g_rep]. rewrite N.eqb_refl, Hp. reflexivity.
      * destruct (get_sess h y) as [t|]; [|reflexivity]. cbn [option_map]. unfold core4. cbn [g_rep].
        destruct (N.eqb_spec y x); [contradiction|reflexivity].
    + intros y Hy. cbn [g_rep]. destruct (N.eqb_spec y x) as [->|]; [congruence|reflexivity].
    + intros y Hy. cbn [g_rep]. rewrite Hy. reflexivity.
    + intros HF y t. rewrite get_put_sessT. destruct (N.eqb y x); [intros E; injection E as <-; now apply (HF x)|apply HF].
  - change (gouts g []) with g. constructor; try reflexivity.
    + intros y t. rewrite get_put_sessT. destruct (N.eqb_spec y x) as [->|Hne]; [|intros Hy; apply (Si y t Hy)].
      intros E. injection E as <-. cbn. split; [intros c' Hc'; congruence|intros Hn; congruence].
    + intros y. unfold coreo. rewrite get_put_sessT. destruct (N.eqb_spec y x) as [->|Hne]; [|reflexivity].
      rewrite Hs. cbn [option_map]. unfold core4, upd4. cbn [s_kind s_conn s_room s_pending sess_pending upd_sess].
      rewrite replayT_app. reflexivity.
    + intros HF y t. rewrite get_put_sessT. destruct (N.eqb y x); [|apply HF]. intros E. injection E as <-.
      cbn [s_pending sess_pending upd_sess]. intros u v Hin. apply in_app_or in Hin as [Hin|[Hin|[]]]; [exact (HF x s Hs u v Hin)|].
      subst m. destruct Hm.
Qed.

Definition idem (m : smsg) : Prop := forall v, tapply (tapply v m) m = tapply v m.

Lemma adel_adel {V} (l : alist V) k : adel (adel l k) k = adel l k.
Proof.
  induction l as [|[k' v] r IH]; cbn; [reflexivity|]. destruct (N.eqb k k') eqn:E; [exact IH|]. cbn. rewrite E. now rewrite IH.
Qed.
Lemma idem_relm m : relm m -> idem m.
Proof.
  intros Hm v. destruct m; try destruct Hm.
  - destruct room as [|p]; [reflexivity|]. cbn. destruct v as [[r' d]|]; [|cbn; now rewrite Pos.eqb_refl].
    destruct r' as [|p']; cbn; [now rewrite Pos.eqb_refl|]. destruct (Pos.eqb p p') eqn:E; cbn; [now rewrite E|now rewrite Pos.eqb_refl].
  - cbn. destruct v as [[r d]|]; [|reflexivity]. destruct t; [reflexivity| |]; f_equal; f_equal; [apply aset_aset|apply adel_adel].
Qed.

Lemma sent_refl h g m : SI h g -> sent h g h g m (fun _ => false).
Proof. intros Si. constructor; auto. Qed.

Lemma sent_ext h g h' g' m (T T' : N -> bool) : (forall y, T y = T' y) -> sent h g h' g' m T -> sent h g h' g' m T'.
Proof. intros E [A B C D F G O H]. constructor; auto; intros y; rewrite <- E; auto. Qed.

Lemma sent_live h g h' g' m T y : sent h g h' g' m T ->
  match get_sess h' y, get_sess h y with
  | Some s', Some s => s_kind s' = s_kind s /\ s_conn s' = s_conn s /\ s_room s' = s_room s /\
                       replayT (s_pending s') (g_rep g' y) = if T y then tapply (replayT (s_pending s) (g_rep g y)) m
                                                              else replayT (s_pending s) (g_rep g y)
  | None, None => True
  | _, _ => False end.
Proof.
  intros St. pose proof (st_core _ _ _ _ _ _ St y) as H. unfold coreo in H.
  destruct (get_sess h' y) as [s'|], (get_sess h y) as [s|]; cbn [option_map] in H; auto.
  - unfold core4, upd4 in H. destruct (T y); injection H as -> -> -> ->; auto.
  - destruct (T y); discriminate H.
  - destruct (T y); discriminate H.
Qed.

Lemma sent_trans h g h1 g1 h2 g2 m (T1 T2 : N -> bool) : idem m ->
  sent h g h1 g1 m T1 -> sent h1 g1 h2 g2 m T2 -> sent h g h2 g2 m (fun y => T1 y || T2 y).
Proof.
  intros Id S1 S2. constructor.
  - apply S2.
  - rewrite (st_rooms _ _ _ _ _ _ S2). apply S1.
  - rewrite (st_next _ _ _ _ _ _ S2). apply S1.
  - intros c. rewrite (st_bind _ _ _ _ _ _ S2). apply S1.
  - intros y. rewrite (st_core _ _ _ _ _ _ S2), (st_core _ _ _ _ _ _ S1).
    destruct (T1 y), (T2 y); cbn [orb]; try reflexivity.
    destruct (coreo h g y) as [[[[k c] r] e]|]; [|reflexivity]. cbn [option_map upd4]. now rewrite Id.
  - intros y Hy. pose proof (sent_live _ _ _ _ _ _ y S1) as L. rewrite Hy in L.
    destruct (get_sess h1 y) eqn:E; [destruct L|]. rewrite (st_dead _ _ _ _ _ _ S2 y E). now apply S1.
  - intros y Hy. apply orb_false_iff in Hy as [H1 H2]. rewrite (st_other _ _ _ _ _ _ S2 y H2). exact (st_other _ _ _ _ _ _ S1 y H1).
  - intros HF. apply (st_hf _ _ _ _ _ _ S2). now apply (st_hf _ _ _ _ _ _ S1).
Qed.

Lemma fold_send m l : relm m -> forall h g, SI h g ->
  (forall x, In x l -> exists s, get_sess h x = Some s /\ is_virtual (s_kind s) = false) ->
  let r := fold_sessions h l (fun hh x => send_session hh x m) in
  sent h g (fst r) (gouts g (snd r)) m (fun y => nmem y l).
Proof.
  intros Hm. induction l as [|x l IH]; intros h g Si Hl; cbv zeta.
  - cbn. now apply sent_refl.
  - rewrite fold_sessions_cons. destruct (Hl x (or_introl eq_refl)) as (s & Hs & Hv).
    pose proof (send1 m h g x s Hm Si Hs Hv) as S1. destruct (send_session h x m) as [h1 o1]. cbn [fst snd] in S1.
    assert (Hl1 : forall y, In y l -> exists t, get_sess h1 y = Some t /\ is_virtual (s_kind t) = false).
    { intros y Hy. destruct (Hl y (or_intror Hy)) as (t & Ht & Vt). pose proof (sent_live _ _ _ _ _ _ y S1) as L. rewrite Ht in L.
      destruct (get_sess h1 y) as [t'|]; [|destruct L]. exists t'. split; [reflexivity|]. destruct L as (K & _). congruence. }
    pose proof (IH h1 (gouts g o1) (st_si _ _ _ _ _ _ S1) Hl1) as S2. cbv zeta in S2.
    destruct (fold_sessions h1 l (fun hh x0 => send_session hh x0 m)) as [h2 o2]. cbn [fst snd] in *.
    rewrite gouts_app. eapply sent_ext; [|eapply sent_trans; [now apply idem_relm|exact S1|exact S2]].
    intros y. reflexivity.
Qed.

(* ------------------------------------------------------------------ a change of a room's data *)
Lemma si_of_ri h g : Inv h -> RI h g -> SI h g.
Proof.
  intros Iv I x s Hs. split; [apply (ri_bind _ _ _ _ (ri_sess _ _ I x s Hs))|apply (inv_conn h Iv x s Hs)].
Qed.

Lemma nmem_false_iff x l : nmem x l = false <-> ~ In x l.
Proof. rewrite <- nmem_In. destruct (nmem x l); split; congruence. Qed.

Lemma listeners_spec' h r x :
  In x (transient_listeners h r) <-> In x (r_members r) /\ exists s, get_sess h x = Some s /\ is_virtual (s_kind s) = false.
Proof.
  unfold transient_listeners. rewrite filter_In. split.
  - intros [Hin Hf]. split; [exact Hin|]. destruct (get_sess h x) as [s|]; [|discriminate]. exists s. split; [reflexivity|].
    now apply negb_true_iff in Hf.
  - intros [Hin [s [Hs Hv]]]. split; [exact Hin|]. rewrite Hs, Hv. reflexivity.
Qed.

Lemma ri_notify h g k r d' t : WF h -> Inv h -> RI h g -> room_of h k = Some r ->
  tapply (Some (snd k, r_transient r)) (STransient t) = Some (snd k, d') ->
  RI (fst (transient_notify h k r d' t)) (gouts g (snd (transient_notify h k r d' t))).
Proof.
  intros W Iv I Hr Ht. unfold transient_notify.
  set (h1 := set_rooms h (pset (h_rooms h) k (room_set_transient r d'))).
  assert (Si : SI h1 g) by (apply (si_of_ri h g Iv I)).
  pose proof (fold_send (STransient t) (transient_listeners h r) Logic.I h1 g Si) as St.
  assert (HL : forall x, In x (transient_listeners h r) -> exists s, get_sess h1 x = Some s /\ is_virtual (s_kind s) = false).
  { intros x Hx. apply listeners_spec' in Hx as [_ Hs]. exact Hs. }
  specialize (St HL). cbv zeta in St.
  destruct (fold_sessions h1 (transient_listeners h r) (fun hh x => send_session hh x (STransient t))) as [hf outs]. cbn [fst snd] in *.
  constructor.
  - intros y s' Hs'. pose proof (sent_live _ _ _ _ _ _ y St) as L. rewrite Hs' in L.
    change (get_sess h1 y) with (get_sess h y) in L. destruct (get_sess h y) as [s|] eqn:Hs; [|destruct L].
    destruct L as (K & C & Rm & E). destruct (ri_sess _ _ I y s Hs) as [Bn Vc Hh Rp]. constructor.
    + intros c Hc. rewrite (st_bind _ _ _ _ _ _ St). apply Bn. congruence.
    + intros V. rewrite C. apply Vc. congruence.
    + apply (st_hf _ _ _ _ _ _ St) with y; [|exact Hs'].
      intros z tz Hz. apply (ri_hf _ _ _ _ (ri_sess _ _ I z tz Hz)).
    + intros V. rewrite K in V. specialize (Rp V). rewrite Rm, E.
      destruct (s_room s) as [k2|] eqn:Hk2.
      * destruct Rp as (Nz & d & Hd & Hroom). split; [exact Nz|].
        destruct (wf_room _ _ h W y s k2 Hs Hk2) as [[]|(r2 & Hr2 & Hm2)].
        destruct (pair_eqb_spec k2 k) as [->|Hne].
        -- assert (r2 = r) by congruence. subst r2.
           assert (Hin : nmem y (transient_listeners h r) = true).
           { apply nmem_In, listeners_spec'. split; [exact Hm2|]. exists s. auto. }
           rewrite Hin, Hd. rewrite <- (Hroom r Hr). exists d'. split; [exact Ht|].
           intros r' Hr'. unfold room_of in Hr'. rewrite (st_rooms _ _ _ _ _ _ St) in Hr'. unfold h1 in Hr'. cbn [h_rooms set_rooms] in Hr'.
           rewrite pget_pset_same in Hr'. injection Hr' as <-. reflexivity.
        -- assert (Hin : nmem y (transient_listeners h r) = false).
           { apply nmem_false_iff. intros Hin. apply listeners_spec' in Hin as [Hm _].
             destruct (wf_members _ _ h W k r y Hr Hm) as (s0 & Hs0 & Hk0). congruence. }
           rewrite Hin. exists d. split; [exact Hd|]. intros r' Hr'. apply Hroom.
           unfold room_of in Hr'. rewrite (st_rooms _ _ _ _ _ _ St) in Hr'. unfold h1 in Hr'. cbn [h_rooms set_rooms] in Hr'.
           rewrite pget_pset_other in Hr' by exact Hne. exact Hr'.
      * assert (Hin : nmem y (transient_listeners h r) = false).
        { apply nmem_false_iff. intros Hin. apply listeners_spec' in Hin as [Hm _].
          destruct (wf_members _ _ h W k r y Hr Hm) as (s0 & Hs0 & Hk0). congruence. }
        rewrite Hin. exact Rp.
  - intros x Hx. rewrite (st_next _ _ _ _ _ _ St) in Hx. change (h_nextsid h1) with (h_nextsid h) in Hx.
    rewrite (st_dead _ _ _ _ _ _ St x).
    + now apply (ri_fresh _ _ I).
    + change (get_sess h1 x) with (get_sess h x). destruct (get_sess h x) as [s|] eqn:Hs; [|reflexivity].
      assert (x <= h_nextsid h) by (apply (inv_ids h Iv); eexists; exact Hs). lia.
Qed.

Lemma ri_transient_update h g k r del key val : WF h -> Inv h -> RI h g -> room_of h k = Some r ->
  RI (fst (transient_update h k r del key val)) (gouts g (snd (transient_update h k r del key val))).
Proof.
  intros W Iv I Hr. unfold transient_update. cbv zeta.
  destruct (del || N.eqb val 0).
  - destruct (aget (r_transient r) key) as [v|]; [|exact I]. apply ri_notify; auto.
  - destruct (aget (r_transient r) key) as [v|]; [destruct (N.eqb v val); [exact I|]|]; apply ri_notify; auto.
Qed.

(* ------------------------------------------------------------------ RI with exceptions; states that differ in other tables *)
Definition RIe (P : N -> Prop) (h : hub) (g : ghost) : Prop :=
  (forall x s, ~ P x -> get_sess h x = Some s -> RIx h g x s) /\ (forall x, h_nextsid h < x -> g_rep g x = None).

Lemma rie_of_ri P h g : RI h g -> RIe P h g.
Proof. intros [S F]. split; auto. Qed.

Lemma ri_nr_e (P : N -> Prop) h h' g :
  RIe P h g -> NR noex h h' -> (forall y, P y -> get_sess h' y = None) -> RI h' g.
Proof.
  intros [S F] (Ss & R & Nx) Hd. constructor.
  - intros x s' Hs'. assert (Np : ~ P x) by (intros Hp; rewrite (Hd x Hp) in Hs'; discriminate).
    destruct (Ss x s' Hs') as [[]|[(s & Hs & K & C & Rm & (_ & Pe & Hf))|(V & C & Hf)]].
    + eapply rix_olds; eauto.
    + constructor; [intros c Hc; congruence|auto|exact Hf|intros V'; congruence].
  - intros x Hx. apply F. lia.
Qed.

Lemma ri_eq h h' g : h_sessions h' = h_sessions h -> h_rooms h' = h_rooms h -> h_nextsid h' = h_nextsid h -> RI h g -> RI h' g.
Proof.
  intros A B C I. eapply ri_nr; [exact I|apply (nr_eq noex h h h'); auto; apply nr_refl|]. intros x s' [].
Qed.

(* ------------------------------------------------------------------ hello: a new session *)
Lemma ri_register h g c cn b k u : is_virtual k = false -> RI h g ->
  (forall y t, get_sess h y = Some t -> s_conn t <> Some c) ->
  RI (fst (register h c cn b k u)) (gouts g (snd (register h c cn b k u))).
Proof.
  intros Hk I Hc. unfold register. set (sid := next_id h).
  destruct (negb (is_internal k) && negb (limit_of h b =? 0) && negb match counted_of h b with [] => true | _ :: _ => false end
            && (limit_of h b <=? N.of_nat (length (counted_of h b)))).
  - apply (ri_quiet h); [exact I|]. split; cbn [fst snd].
    + change (NR noex h (set_nextsid h sid)). apply nr_nextsid; [apply nr_refl|]. pose proof (next_id_gt h). unfold sid. lia.
    + apply qouts_cons; [intros ? ? E; injection E as <- <-; reflexivity|apply qouts_nil].
  - match goal with |- RI (fst (?H, _)) _ => set (h5 := H) end. cbn [fst snd].
    assert (Hg : forall y, get_sess h5 y = if N.eqb y sid then Some (new_session b k u c) else get_sess h y).
    { intros y. unfold h5. destruct (negb (is_internal k) && negb (limit_of h b =? 0)); destruct (N.eqb u 0 && negb (is_internal k));
        try (destruct k as [|f d|]; try destruct d); unfold get_sess; cbn; apply aget_aset. }
    assert (Hr : h_rooms h5 = h_rooms h).
    { unfold h5. destruct (negb (is_internal k) && negb (limit_of h b =? 0)); destruct (N.eqb u 0 && negb (is_internal k));
        try (destruct k as [|f d|]; try destruct d); reflexivity. }
    assert (Hn : h_nextsid h5 = sid).
    { unfold h5. destruct (negb (is_internal k) && negb (limit_of h b =? 0)); destruct (N.eqb u 0 && negb (is_internal k));
        try (destruct k as [|f d|]; try destruct d); reflexivity. }
    clearbody h5. unfold gouts. cbn [fold_left gout]. destruct I as [S F]. constructor.
    + intros y t. rewrite Hg. destruct (N.eqb_spec y sid) as [->|Hne].
      * intros E. injection E as <-. constructor; cbn [new_session s_conn s_kind s_room s_pending g_bind g_rep].
        -- intros c' E. injection E as <-. now rewrite N.eqb_refl.
        -- congruence.
        -- apply hello_free_nil.
        -- intros _. cbn. apply F. apply next_id_gt.
      * intros Ht. destruct (S y t Ht) as [Bn Vc Hh Rp]. constructor; cbn [g_bind g_rep].
        -- intros c' Hc'. destruct (N.eqb_spec c' c) as [->|]; [exfalso; exact (Hc y t Ht Hc')|now apply Bn].
        -- exact Vc.
        -- exact Hh.
        -- intros V. specialize (Rp V). unfold room_of. rewrite Hr. exact Rp.
    + intros x Hx. cbn [g_rep]. apply F. rewrite Hn in Hx. pose proof (next_id_gt h). unfold sid in Hx. lia.
Qed.

(* ------------------------------------------------------------------ hello: a resume flushes the queue *)
Lemma gouts_flush_bind c l : forall g, hello_free l -> g_bind (gouts g (flush c l)) = g_bind g.
Proof.
  induction l as [|m l IH]; intros g Hf; [reflexivity|]. cbn [flush map]. rewrite gouts_cons.
  rewrite IH; [|intros u v Hin; apply (Hf u v); now right].
  destruct m; cbn [gout]; try reflexivity; try (destruct (g_bind g c); reflexivity).
  exfalso. apply (Hf sid user). now left.
Qed.
Lemma gouts_flush_rep c n l : forall g, hello_free l -> g_bind g c = Some n ->
  forall y, g_rep (gouts g (flush c l)) y = if N.eqb y n then replayT l (g_rep g n) else g_rep g y.
Proof.
  induction l as [|m l IH]; intros g Hf Hb y; [cbn; destruct (N.eqb y n) eqn:E; [apply N.eqb_eq in E; now subst|reflexivity]|].
  cbn [flush map]. rewrite gouts_cons.
  assert (Hf' : hello_free l) by (intros u v Hin; apply (Hf u v); now right).
  assert (Hm : (rmsg m = false /\ gout g (ToConn c m) = g) \/
               (relm m /\ gout g (ToConn c m) = mkg (g_bind g) (fun x => if N.eqb x n then tapply (g_rep g n) m else g_rep g x))).
  { destruct m; try (left; split; reflexivity); try (right; split; [exact Logic.I|cbn [gout]; rewrite Hb; reflexivity]).
    exfalso. apply (Hf sid user). now left. }
  destruct Hm as [[Hi ->]|[Hr ->]].
  - rewrite (IH g Hf' Hb). cbn [replayT fold_left]. rewrite (tapply_irr _ _ Hi). reflexivity.
  - rewrite IH; [|exact Hf'|exact Hb]. cbn [g_rep]. rewrite N.eqb_refl. cbn [replayT fold_left].
    destruct (N.eqb_spec y n); reflexivity.
Qed.

Lemma close_conn_gone h c cn n : aget (h_conns h) c = Some cn -> c_sess cn = Some n -> get_sess (fst (close_conn h c)) n = None.
Proof.
  intros Hc Hn. unfold close_conn. rewrite Hc, Hn.
  match goal with |- context [close_session ?H n] => pose proof (close_session_gone H n) as D; destruct (close_session H n) as [h3 o3] end.
  exact D.
Qed.

Lemma ri_resume h g c cn i : Inv h -> RI h g ->
  (forall y t, get_sess h y = Some t -> s_conn t <> Some c) ->
  RI (fst (do_hello h c cn (HResume i))) (gouts g (snd (do_hello h c cn (HResume i)))).
Proof.
  intros Iv I Hc. unfold do_hello.
  assert (Qerr : forall e, qouts [ToConn c (SError e)]) by (intros e; apply qouts_cons; [intros ? ? E; injection E as <- <-; reflexivity|apply qouts_nil]).
  destruct (throttled h (c_addr cn) ACT_RESUME); [apply (ri_quiet h); [exact I|split; [apply nr_refl|apply Qerr]]|].
  destruct i as [n| | |]; try (apply (ri_quiet h); [exact I|split; [cbn [fst]; nrs; apply nr_refl|apply Qerr]]).
  destruct (get_sess h n) as [s|] eqn:Hs; [|apply (ri_quiet h); [exact I|split; [apply nr_refl|apply Qerr]]].
  destruct (is_virtual (s_kind s)) eqn:Hv; [apply (ri_quiet h); [exact I|split; [apply nr_refl|apply Qerr]]|].
  pose proof (ri_hf _ _ _ _ (ri_sess _ _ I n s Hs)) as Hf.
  (* the takeover *)
  assert (T : nres noex h (match s_conn s with
                           | Some c' => if N.eqb c' c then (h, [])
                                        else send_conn (match aget (h_conns h) c' with
                                                        | Some cn' => set_conns h (aset (h_conns h) c' (mkconn (c_addr cn') None (c_expect cn')))
                                                        | None => h end) c' (SBye B_session_resumed)
                           | None => (h, []) end)).
  { destruct (s_conn s) as [c'|]; [|split; [apply nr_refl|apply qouts_nil]].
    destruct (N.eqb c' c); [split; [apply nr_refl|apply qouts_nil]|].
    apply nr_send_conn; [reflexivity|]. destruct (aget (h_conns h) c'); [change (NR noex h h)|]; apply nr_refl. }
  destruct T as [B1 Q1].
  destruct (match s_conn s with
            | Some c' => if N.eqb c' c then (h, []) else send_conn _ c' (SBye B_session_resumed)
            | None => (h, []) end) as [h1 outs1]. cbn [fst snd] in B1, Q1.
  set (s1 := sess_pending (sess_conn s (Some c)) []).
  set (h5 := set_conns (set_clients (set_expired (put_sess h1 n s1) (nrem n (h_expired (put_sess h1 n s1))))
               (nadd n (h_clients (set_expired (put_sess h1 n s1) (nrem n (h_expired (put_sess h1 n s1)))))))
               (aset (h_conns (set_clients (set_expired (put_sess h1 n s1) (nrem n (h_expired (put_sess h1 n s1))))
               (nadd n (h_clients (set_expired (put_sess h1 n s1) (nrem n (h_expired (put_sess h1 n s1)))))))) c (mkconn (c_addr cn) (Some n) false))).
  set (L := upto_closing (s_room s) (s_pending s)).
  set (outs := outs1 ++ ToConn c (SHello n (sess_userid h n s)) :: flush c L).
  assert (HfL : hello_free L) by (intros u v Hin; apply (Hf u v); eapply upto_closing_incl; exact Hin).
  set (gb := mkg (fun x => if N.eqb x c then Some n else g_bind g x) (g_rep g)).
  assert (Hgo : gouts g outs = gouts gb (flush c L)).
  { unfold outs. rewrite gouts_app, (gouts_quiet _ _ Q1). reflexivity. }
  assert (Hgb : g_bind (gouts g outs) = g_bind gb) by (rewrite Hgo; now apply gouts_flush_bind).
  assert (Hgr : forall y, g_rep (gouts g outs) y = if N.eqb y n then replayT L (g_rep g n) else g_rep g y).
  { intros y. rewrite Hgo. apply (gouts_flush_rep c n L gb HfL). cbn. now rewrite N.eqb_refl. }
  assert (I1 : RI h1 g) by (eapply ri_nr; [exact I|exact B1|intros x s' []]).
  assert (Hg5 : forall y, get_sess h5 y = if N.eqb y n then Some s1 else get_sess h1 y) by (intros y; unfold h5, get_sess; cbn; apply aget_aset).
  assert (Hle : n <= h_nextsid h) by (apply (inv_ids h Iv); eexists; exact Hs).
  assert (R5 : RIe (fun y => y = n /\ queue_closes s = true) h5 (gouts g outs)).
  { split.
    - intros y t Np. rewrite Hg5. destruct (N.eqb_spec y n) as [->|Hne].
      + intros E. injection E as <-. assert (Hq : queue_closes s = false) by (destruct (queue_closes s); [exfalso; apply Np; auto|reflexivity]).
        destruct (ri_sess _ _ I n s Hs) as [Bn Vc Hh Rp]. constructor.
        * intros c' E. cbn in E. injection E as <-. rewrite Hgb. cbn. now rewrite N.eqb_refl.
        * cbn. congruence.
        * apply hello_free_nil.
        * intros _. specialize (Rp Hv). cbn [s1 s_room s_pending sess_pending sess_conn upd_sess]. cbn [replayT fold_left].
          rewrite Hgr, N.eqb_refl. unfold L. rewrite (upto_closing_none s Hq).
          destruct (s_room s) as [k|]; [|exact Rp]. destruct Rp as (Nz & d & Hd & Hroom). split; [exact Nz|]. exists d. split; [exact Hd|].
          intros r' Hr'. destruct B1 as (_ & Rr & _). destruct (Rr k r' Hr') as (r0 & Hr0 & T0). rewrite T0. now apply Hroom.
      + intros Ht. destruct (ri_sess _ _ I1 y t Ht) as [Bn Vc Hh Rp]. constructor.
        * intros c' Hc'. rewrite Hgb. cbn. destruct (N.eqb_spec c' c) as [->|]; [|now apply Bn].
          exfalso. destruct B1 as (Ss & _ & _). destruct (Ss y t Ht) as [[]|[(t0 & Ht0 & _ & C0 & _)|(_ & C0 & _)]]; [|congruence].
          apply (Hc y t0 Ht0). congruence.
        * exact Vc.
        * exact Hh.
        * intros V. specialize (Rp V). rewrite Hgr. destruct (N.eqb_spec y n); [contradiction|]. exact Rp.
    - intros x Hx. change (h_nextsid h5) with (h_nextsid h1) in Hx. destruct B1 as (_ & _ & Nx).
      rewrite Hgr. destruct (N.eqb_spec x n) as [->|]; [lia|]. apply (ri_fresh _ _ I). lia. }
  fold s1. fold h5. fold L. fold outs.
  destruct (queue_closes s) eqn:Hq.
  - pose proof (nr_close_conn noex h5 h5 c (nr_refl _ _)) as [B6 Q6].
    assert (D : get_sess (fst (close_conn h5 c)) n = None).
    { apply (close_conn_gone h5 c (mkconn (c_addr cn) (Some n) false)); [unfold h5; cbn; apply aget_aset_same|reflexivity]. }
    destruct (close_conn h5 c) as [h6 outs6]. cbn [fst snd] in *. rewrite gouts_app, (gouts_quiet _ _ Q6).
    eapply ri_nr_e; [exact R5|exact B6|]. intros y [-> _]. exact D.
  - cbn [fst snd]. eapply ri_nr_e; [exact R5|apply nr_refl|]. intros y [_ E]. discriminate E.
  - apply (ri_quiet h); [exact I|split; [change (NR noex h h); apply nr_refl|apply Qerr]].
  - apply (ri_quiet h); [exact I|split; [change (NR noex h h); apply nr_refl|apply Qerr]].
  - apply (ri_quiet h); [exact I|split; [change (NR noex h h); apply nr_refl|apply Qerr]].
Qed.

(* ------------------------------------------------------------------ the steps *)
From Verif Require Import proofs.Hub_isolation proofs.Hub_transient_nr2.

Lemma nr_with_session ex h0 h c f :
  (forall cn sid s, aget (h_conns h) c = Some cn -> c_sess cn = Some sid -> get_sess h sid = Some s -> nres ex h0 (f cn sid s)) ->
  NR ex h0 h -> nres ex h0 (with_session h c f).
Proof.
  intros Hf B. unfold with_session.
  assert (Qerr : forall e, qouts [ToConn c (SError e)]) by (intros e; apply qouts_cons; [intros ? ? E; injection E as <- <-; reflexivity|apply qouts_nil]).
  destruct (aget (h_conns h) c) as [cn|] eqn:E1; [|split; [exact B|apply qouts_nil]].
  destruct (c_sess cn) as [sid|] eqn:E2; [|split; [exact B|apply Qerr]].
  destruct (get_sess h sid) as [s|] eqn:E3; [|split; [exact B|apply Qerr]].
  now apply Hf.
Qed.

(* a transient room request taken from the bus *)
Definition is_treq (p : pub) : Prop :=
  exists b rn del key val, p_subj p = SubjBackendRoom b rn /\ p_msg p = ARoomReq (ATransient del key val).

(* the operations for which the step of the induction is proved in THIS file.  The others - a join (OJoin), the requests
   of an internal client (OInternal), the delivery of the other publications - are in proofs/Hub_transient_join.v and
   proofs/Hub_transient_run.v (ri_step_all covers every operation). *)
Definition covered (h : hub) (o : op) : Prop :=
  match o with
  | OJoin _ _ _ _ | OInternal _ _ => False
  | ODeliver pos => match take_nth (N.to_nat pos) (h_bus h) with Some (p, _) => is_treq p | None => True end
  | _ => True
  end.

Lemma ri_drop h g c : Inv h -> RI h g -> RI (fst (step h (ODrop c))) (gouts g (snd (step h (ODrop c)))).
Proof.
  intros Iv I. cbn [step]. destruct (aget (h_conns h) c) as [cn|]; [|exact I].
  assert (Qc : qouts [Closed c]) by (apply qouts_cons; [intros; discriminate|apply qouts_nil]).
  destruct (c_sess cn) as [sid|]; [|cbn [fst snd]; rewrite (gouts_quiet _ _ Qc); eapply ri_eq; [| | |exact I]; reflexivity].
  change (get_sess (set_conns h (adel (h_conns h) c)) sid) with (get_sess h sid).
  destruct (get_sess h sid) as [s|] eqn:Hs; [|cbn [fst snd]; rewrite (gouts_quiet _ _ Qc); eapply ri_eq; [| | |exact I]; reflexivity].
  cbn [fst snd]. rewrite (gouts_quiet _ _ Qc).
  apply (ri_nr (fun y => y = sid) h); [exact I| |].
  - match goal with |- NR _ _ ?H => change (NR (fun y => y = sid) h (put_sess h sid (sess_conn s None))) end.
    apply nr_put_ex; [reflexivity|apply nr_refl].
  - intros x s' -> Hs'. unfold get_sess in Hs'. cbn in Hs'. rewrite aget_aset_same in Hs'. injection Hs' as <-.
    destruct (ri_sess _ _ I sid s Hs) as [Bn Vc Hh Rp]. constructor; cbn; [intros c' E; discriminate|auto|exact Hh|].
    intros V. specialize (Rp V). exact Rp.
Qed.

Theorem ri_step h g o : WF h -> Inv h -> Bij h -> BusNT h -> RI h g -> covered h o ->
  RI (fst (step h o)) (gouts g (snd (step h o))).
Proof.
  intros W Iv Bj Bn I Cv.
  assert (Q : forall r, nres noex h r -> RI (fst r) (gouts g (snd r))) by (intros r; now apply ri_quiet).
  assert (Qerr : forall c e, qouts [ToConn c (SError e)]) by (intros c e; apply qouts_cons; [intros ? ? E; injection E as <- <-; reflexivity|apply qouts_nil]).
  destruct o as [c a|c hl|c rn rs rep|c to tag|c to tag|c|c|secs|b sg rm q|c q|c to mk st md|tok ok|c kindn key val|pos|c hl late];
    try destruct Cv.
  - (* OConnect *) apply Q. cbn [step]. destruct (aget (h_conns h) c); split; cbn [fst snd]; try apply nr_refl; try apply qouts_nil.
    + change (NR noex h h). apply nr_refl.
    + apply qouts_cons; [intros ? ? E; injection E as <- <-; reflexivity|apply qouts_nil].
  - (* OHello *) cbn [step]. destruct (aget (h_conns h) c) as [cn|] eqn:Ec; [|exact I]. destruct (c_sess cn) eqn:Es; [exact I|].
    set (h' := set_conns h _).
    assert (I' : RI h' g) by (eapply ri_eq; [| | |exact I]; reflexivity).
    assert (Iv' : Inv h') by (destruct Iv as [A B]; constructor; [exact A|exact B]).
    assert (Hc : forall y t, get_sess h' y = Some t -> s_conn t <> Some c).
    { intros y t Ht Hct. destruct (Bj y c) as (cn' & Hcn' & Hs'); [exists t; split; [exact Ht|exact Hct]|]. congruence. }
    destruct hl as [b u rej|b u t|b tok f d|i].
    + unfold do_hello. destruct (h_nb h' <=? b); [apply (ri_quiet h'); [exact I'|split; [change (NR noex h' h'); apply nr_refl|apply Qerr]]|].
      destruct rej.
      * apply (ri_quiet h'); [exact I'|split; [change (NR noex h' h'); apply nr_refl|]].
        apply qouts_cons; [intros; discriminate|apply Qerr].
      * pose proof (ri_register h' g c cn b KClient u eq_refl I' Hc) as R. destruct (register h' c cn b KClient u) as [h1 outs]. exact R.
    + unfold do_hello. destruct (v2_check (h_nb h') b t); [now apply ri_register|].
      apply (ri_quiet h'); [exact I'|split; [change (NR noex h' h'); apply nr_refl|apply Qerr]].
    + unfold do_hello. destruct (N.eqb tok 4); [apply (ri_quiet h'); [exact I'|split; [change (NR noex h' h'); apply nr_refl|apply Qerr]]|].
      destruct (throttled h' (c_addr cn) ACT_INTERNAL); [apply (ri_quiet h'); [exact I'|split; [change (NR noex h' h'); apply nr_refl|apply Qerr]]|].
      destruct (negb (N.eqb tok 0)); [apply (ri_quiet h'); [exact I'|split; [change (NR noex h' h'); apply nr_refl|apply Qerr]]|].
      destruct (h_nb h' <=? b); [apply (ri_quiet h'); [exact I'|split; [change (NR noex h' h'); apply nr_refl|apply Qerr]]|].
      now apply ri_register.
    + apply ri_resume; auto.
  - (* OMsg *) apply Q. cbn [step]. apply nr_with_session; [|apply nr_refl]. intros. apply nr_do_message, nr_refl.
  - (* OCtl *) apply Q. cbn [step]. apply nr_with_session; [|apply nr_refl]. intros.
    destruct (allowed_control s); [apply nr_do_message, nr_refl|split; [apply nr_refl|apply qouts_nil]].
  - (* OBye *) apply Q. cbn [step]. destruct (aget (h_conns h) c) as [cn|]; [|split; [apply nr_refl|apply qouts_nil]].
    destruct (c_sess cn); [apply nr_send_conn; [reflexivity|apply nr_refl]|split; [apply nr_refl|apply Qerr]].
  - (* ODrop *) now apply ri_drop.
  - (* OTick *) apply Q. cbn [step]. apply nr_do_tick, nr_refl.
  - (* OApi *) apply Q. cbn [step]. destruct (negb (b =? sg) || (h_nb h <=? b)); [split; [apply nr_refl|apply qouts_nil]|apply nr_do_api, nr_refl].
  - (* OMedia *) apply Q. cbn [step]. apply nr_with_session; [|apply nr_refl]. intros. apply nr_do_media; [assumption|apply nr_refl].
  - (* OMcuDone *) apply Q. cbn [step]. apply nr_do_mcudone, nr_refl.
  - (* OTransient *) cbn [step]. unfold with_session.
    destruct (aget (h_conns h) c) as [cn|]; [|exact I].
    destruct (c_sess cn) as [sid|]; [|apply Q; split; [apply nr_refl|apply Qerr]].
    destruct (get_sess h sid) as [s|]; [|apply Q; split; [apply nr_refl|apply Qerr]].
    destruct (s_room s) as [k|]; [|apply Q; split; [apply nr_refl|apply Qerr]].
    destruct (2 <=? kindn); [apply Q; split; [apply nr_refl|apply Qerr]|].
    destruct (negb (allowed_transient s)); [apply Q; split; [apply nr_refl|apply Qerr]|].
    destruct (room_of h k) as [r|] eqn:Hr; [|exact I]. now apply ri_transient_update.
  - (* ODeliver: a transient room request *) cbn [step covered] in *. unfold deliver_at.
    destruct (take_nth (N.to_nat pos) (h_bus h)) as [[p rest]|]; [|exact I].
    destruct Cv as (b & rn & del & key & val & Es & Em). unfold deliver_pub. rewrite Es, Em. unfold room_request.
    set (h' := set_bus h rest).
    assert (I' : RI h' g) by (eapply ri_eq; [| | |exact I]; reflexivity).
    assert (Iv' : Inv h') by (destruct Iv as [A B]; constructor; [exact A|exact B]).
    assert (W' : WF h') by (apply (wf_equiv _ _ h); [apply equiv_bus|exact W]).
    destruct (room_of h' (b, rn)) as [r|] eqn:Hr; [|exact I']. now apply ri_transient_update.
  - (* OHelloAborted *) apply Q. cbn [step]. destruct (aget (h_conns h) c) as [cn|]; [|split; [apply nr_refl|apply qouts_nil]].
    destruct (c_sess cn); [split; [apply nr_refl|apply qouts_nil]|].
    destruct hl as [b u rej|b u t|b tok f d|i]; try (split; [apply nr_refl|apply qouts_nil]).
    + destruct rej; [split; [apply nr_refl|apply qouts_nil]|]. destruct (h_nb h <=? b); [split; [apply nr_refl|apply qouts_nil]|].
      assert (B1 : NR noex h (if late then set_nextsid h (next_id h) else h)).
      { destruct late; [apply nr_nextsid; [apply nr_refl|pose proof (next_id_gt h); lia]|apply nr_refl]. }
      pose proof (nr_close_conn noex h _ c B1) as [B2 Q2]. destruct (close_conn (if late then set_nextsid h (next_id h) else h) c) as [h2 outs].
      split; cbn [fst snd] in *; [exact B2|apply qouts_cons; [intros; discriminate|exact Q2]].
    + apply nr_close_conn, nr_refl.
Qed.

(* ------------------------------------------------------------------ histories (async semantics: Hub_wf.run, deliveries in any order) *)
Definition gstep (st : hub * ghost) (o : op) : hub * ghost := (fst (step (fst st) o), gouts (snd st) (snd (step (fst st) o))).
Definition grun (st : hub * ghost) (ops : list op) : hub * ghost := fold_left gstep ops st.

Fixpoint covered_hist (h : hub) (ops : list op) : Prop :=
  match ops with [] => True | o :: r => covered h o /\ covered_hist (fst (step h o)) r end.

Lemma grun_hub ops : forall st, fst (grun st ops) = run (fst st) ops.
Proof. induction ops as [|o r IH]; intros st; cbn [grun fold_left run]; [reflexivity|]. apply IH. Qed.

(* the replica of a member is the data of its room: what RI says for one session *)
Definition replica_ok (h : hub) (g : ghost) : Prop :=
  forall x s k, get_sess h x = Some s -> is_virtual (s_kind s) = false -> s_room s = Some k ->
    exists r d, room_of h k = Some r /\ r_transient r = d /\
                replayT (s_pending s) (g_rep g x) = Some (snd k, d) /\
                (forall c, s_conn s = Some c -> s_pending s = [] /\ g_rep g x = Some (snd k, d)).

Lemma ri_replica_ok h g : WF h -> Inv h -> RI h g -> replica_ok h g.
Proof.
  intros W Iv I x s k Hs Hv Hk. pose proof (ri_rep _ _ _ _ (ri_sess _ _ I x s Hs) Hv) as Rp. rewrite Hk in Rp.
  destruct Rp as (_ & d & Hd & Hroom). destruct (wf_room _ _ h W x s k Hs Hk) as [[]|(r & Hr & _)].
  exists r, d. split; [exact Hr|]. split; [now apply Hroom|]. split; [exact Hd|].
  intros c Hc. assert (Hp : s_pending s = []) by (apply (inv_conn h Iv x s Hs); congruence). split; [exact Hp|].
  rewrite Hp in Hd. exact Hd.
Qed.

(* T2, partial: from any state that satisfies the invariants of reachable states and RI, every continuation made
   of covered operations keeps RI *)
Theorem ri_run ops : forall h g, WF h -> Inv h -> TI h -> BusNT h -> RI h g -> covered_hist h ops ->
  let st := grun (h, g) ops in WF (fst st) /\ Inv (fst st) /\ RI (fst st) (snd st).
Proof.
  induction ops as [|o r IH]; intros h g W Iv Ti Bn I Cv; cbn [grun fold_left]; [cbn; auto|].
  destruct Cv as [Co Cr]. apply IH; cbn [gstep fst snd].
  - now apply wf_step.
  - apply (inv_stepx false h o Iv).
  - now apply ti_step.
  - now apply busnt_step.
  - apply ri_step; auto. apply Ti.
  - exact Cr.
Qed.

Lemma ri_init limits gated : RI (init limits gated) g0.
Proof. constructor; [intros x s H; unfold get_sess, init in H; cbn in H; discriminate|reflexivity]. Qed.

Theorem replica_converges_covered limits gated ops :
  covered_hist (init limits gated) ops ->
  let st := grun (init limits gated, g0) ops in replica_ok (fst st) (snd st).
Proof.
  intros Cv. destruct (ri_run ops (init limits gated) g0 (wf_init _ _) (inv_init _ _) (ti_init _ _) (busnt_init _ _) (ri_init _ _) Cv) as (W & Iv & I).
  now apply ri_replica_ok.
Qed.
Print Assumptions ri_run.
Print Assumptions replica_converges_covered.
