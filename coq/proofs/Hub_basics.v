(* Basic lemmas about the association lists and the record updates of model/Hub.v *)
From Coq Require Import List NArith Bool Lia.
From Verif Require Import model.Hub.
Import ListNotations.
Open Scope N_scope.

(* ---- alists ---- *)
Lemma aget_aset_same {V} (l : alist V) k v : aget (aset l k v) k = Some v.
Proof. induction l as [|[k' v'] r IH]; cbn; [now rewrite N.eqb_refl|]. destruct (N.eqb_spec k k'); cbn; [now rewrite N.eqb_refl|]. destruct (N.eqb_spec k k'); [contradiction|assumption]. Qed.
Lemma aget_aset_other {V} (l : alist V) k k' v : k' <> k -> aget (aset l k v) k' = aget l k'.
Proof.
  intros Hne. induction l as [|[k0 v0] r IH]; cbn.
  - destruct (N.eqb_spec k' k); [contradiction|reflexivity].
  - destruct (N.eqb_spec k k0) as [->|]; cbn.
    + destruct (N.eqb_spec k' k0); [contradiction|reflexivity].
    + destruct (N.eqb_spec k' k0); [reflexivity|assumption].
Qed.
Lemma aget_adel_same {V} (l : alist V) k : aget (adel l k) k = None.
Proof. induction l as [|[k' v'] r IH]; cbn; [reflexivity|]. destruct (N.eqb_spec k k'); [assumption|]. cbn. destruct (N.eqb_spec k k'); [contradiction|assumption]. Qed.
Lemma aget_adel_other {V} (l : alist V) k k' : k' <> k -> aget (adel l k) k' = aget l k'.
Proof.
  intros Hne. induction l as [|[k0 v0] r IH]; cbn; [reflexivity|].
  destruct (N.eqb_spec k k0) as [->|]; cbn.
  - destruct (N.eqb_spec k' k0); [contradiction|assumption].
  - destruct (N.eqb_spec k' k0); [reflexivity|assumption].
Qed.
Lemma aget_aset {V} (l : alist V) k k' v : aget (aset l k v) k' = if N.eqb k' k then Some v else aget l k'.
Proof. destruct (N.eqb_spec k' k) as [->|Hne]; [apply aget_aset_same|now apply aget_aset_other]. Qed.
Lemma aget_adel {V} (l : alist V) k k' : aget (adel l k) k' = if N.eqb k' k then None else aget l k'.
Proof. destruct (N.eqb_spec k' k) as [->|Hne]; [apply aget_adel_same|now apply aget_adel_other]. Qed.

Lemma ahas_aset {V} (l : alist V) k k' v : ahas (aset l k v) k' = N.eqb k' k || ahas l k'.
Proof. unfold ahas. rewrite aget_aset. destruct (N.eqb k' k); reflexivity. Qed.
Lemma ahas_adel {V} (l : alist V) k k' : ahas (adel l k) k' = negb (N.eqb k' k) && ahas l k'.
Proof. unfold ahas. rewrite aget_adel. destruct (N.eqb k' k); reflexivity. Qed.

(* ---- lists of N ---- *)
Lemma nmem_In x l : nmem x l = true <-> In x l.
Proof.
  induction l as [|y r IH]; cbn; [split; [discriminate|tauto]|].
  destruct (N.eqb_spec x y) as [->|Hne]; cbn; [tauto|]. rewrite IH. split; [tauto|]. intros [H|H]; [congruence|assumption].
Qed.
Lemma nmem_nrem x y l : nmem x (nrem y l) = negb (N.eqb x y) && nmem x l.
Proof.
  induction l as [|z r IH]; cbn; [now rewrite andb_false_r|].
  destruct (N.eqb_spec y z) as [->|Hyz]; cbn.
  - rewrite IH. destruct (N.eqb_spec x z); cbn; reflexivity.
  - rewrite IH. destruct (N.eqb_spec x z) as [->|]; cbn.
    + destruct (N.eqb_spec z y); [congruence|reflexivity].
    + reflexivity.
Qed.
Lemma nmem_app x a b : nmem x (a ++ b) = nmem x a || nmem x b.
Proof. induction a as [|y r IH]; cbn; [reflexivity|]. rewrite IH. now rewrite orb_assoc. Qed.
Lemma nmem_nadd x y l : nmem x (nadd y l) = N.eqb x y || nmem x l.
Proof.
  unfold nadd. destruct (nmem y l) eqn:Hy.
  - destruct (N.eqb_spec x y) as [->|]; cbn; [now rewrite Hy|reflexivity].
  - rewrite nmem_app. cbn. rewrite orb_false_r. apply orb_comm.
Qed.

(* ---- pair-keyed lists ---- *)
Lemma pair_eqb_spec a b : reflect (a = b) (pair_eqb a b).
Proof.
  destruct a as [a1 a2], b as [b1 b2]. unfold pair_eqb. cbn.
  destruct (N.eqb_spec a1 b1), (N.eqb_spec a2 b2); cbn; constructor; congruence.
Qed.
Lemma pair_eqb_refl a : pair_eqb a a = true.
Proof. destruct (pair_eqb_spec a a); congruence. Qed.
Lemma pget_pset_same {V} (l : list ((N * N) * V)) k v : pget (pset l k v) k = Some v.
Proof.
  induction l as [|[k' v'] r IH]; cbn; [now rewrite pair_eqb_refl|].
  destruct (pair_eqb_spec k k'); cbn; [now rewrite pair_eqb_refl|]. destruct (pair_eqb_spec k k'); [contradiction|assumption].
Qed.
Lemma pget_pset_other {V} (l : list ((N * N) * V)) k k' v : k' <> k -> pget (pset l k v) k' = pget l k'.
Proof.
  intros Hne. induction l as [|[k0 v0] r IH]; cbn.
  - destruct (pair_eqb_spec k' k); [contradiction|reflexivity].
  - destruct (pair_eqb_spec k k0) as [->|]; cbn.
    + destruct (pair_eqb_spec k' k0); [contradiction|reflexivity].
    + destruct (pair_eqb_spec k' k0); [reflexivity|assumption].
Qed.
Lemma pget_pdel_same {V} (l : list ((N * N) * V)) k : pget (pdel l k) k = None.
Proof.
  induction l as [|[k' v'] r IH]; cbn; [reflexivity|].
  destruct (pair_eqb_spec k k'); [assumption|]. cbn. destruct (pair_eqb_spec k k'); [contradiction|assumption].
Qed.
Lemma pget_pdel_other {V} (l : list ((N * N) * V)) k k' : k' <> k -> pget (pdel l k) k' = pget l k'.
Proof.
  intros Hne. induction l as [|[k0 v0] r IH]; cbn; [reflexivity|].
  destruct (pair_eqb_spec k k0) as [->|]; cbn.
  - destruct (pair_eqb_spec k' k0); [contradiction|assumption].
  - destruct (pair_eqb_spec k' k0); [reflexivity|assumption].
Qed.
Lemma pget_pset {V} (l : list ((N * N) * V)) k k' v : pget (pset l k v) k' = if pair_eqb k' k then Some v else pget l k'.
Proof. destruct (pair_eqb_spec k' k) as [->|Hne]; [apply pget_pset_same|now apply pget_pset_other]. Qed.
Lemma pget_pdel {V} (l : list ((N * N) * V)) k k' : pget (pdel l k) k' = if pair_eqb k' k then None else pget l k'.
Proof. destruct (pair_eqb_spec k' k) as [->|Hne]; [apply pget_pdel_same|now apply pget_pdel_other]. Qed.
Lemma pget_app_new {V} (l : list ((N * N) * V)) k v k' : pget l k = None -> pget (l ++ [(k, v)]) k' = if pair_eqb k' k then Some v else pget l k'.
Proof.
  intros Hn. induction l as [|[k0 v0] r IH]; cbn.
  - reflexivity.
  - cbn in Hn. destruct (pair_eqb_spec k k0) as [->|Hk]; [discriminate|].
    destruct (pair_eqb_spec k' k0) as [->|].
    + destruct (pair_eqb_spec k0 k); [congruence|reflexivity].
    + now apply IH.
Qed.

(* ---- the unfolding tactic for record projections over setters ---- *)
Ltac hsimpl :=
  unfold get_sess, put_sess in *;
  cbn [h_limits h_nb h_nextsid h_clock h_conns h_sessions h_rooms h_rs1 h_rs2 h_vtable h_expired h_anonymous
       h_dialout h_clients h_counted h_fail h_bus h_mcutok h_mcupending h_mcuopen h_gated
       set_conns set_sessions set_rooms set_rs set_vtable set_expired set_anonymous set_dialout set_clients
       set_counted set_fail set_bus set_nextsid set_clock set_mcu put_sess get_sess
       s_backend s_kind s_user s_room s_rs s_conn s_perms s_pending s_seen s_join s_incall s_flags s_pubs s_subs
       s_pubmedia s_rel upd_sess sess_room sess_rs sess_conn sess_perms sess_pending sess_seen sess_join sess_media sess_rel
       c_addr c_sess c_expect fst snd] in *.
