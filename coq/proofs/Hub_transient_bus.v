(* The shape of the publications queued on the bus of the hub model (BusOK, an invariant of every reachable
   state): a queued "message" event never carries a hello reply or a transient message, and carries a "room"
   message SRoom r only on the subject of the room r of some backend; a queued room event carries none of the
   three.  Same pass over every function of the model as proofs/Hub_transient_frame.v (BusNT), for a stronger
   predicate; only the bus matters here, the outputs are not looked at. *)
From Coq Require Import List NArith Bool Lia.
From Verif Require Import model.Hub proofs.Hub_basics proofs.Hub_wf proofs.Hub_transient_frame.
Import ListNotations.
Open Scope N_scope.

Definition okpub (p : pub) : Prop :=
  match p_msg p with
  | AEvent m _ _ => match m with
                    | SHello _ _ | STransient _ => False
                    | SRoom r => exists b, p_subj p = SubjRoom b r
                    | _ => True end
  | ARoomEvent m => match m with SHello _ _ | STransient _ | SRoom _ => False | _ => True end
  | _ => True
  end.
Definition BusOK (h : hub) : Prop := forall p, In p h.(h_bus) -> okpub p.

(* the same condition on what is handed to publish *)
Definition okam (subj : subject) (a : amsg) : Prop :=
  match a with
  | AEvent m _ _ => match m with
                    | SHello _ _ | STransient _ => False
                    | SRoom r => exists b, subj = SubjRoom b r
                    | _ => True end
  | ARoomEvent m => match m with SHello _ _ | STransient _ | SRoom _ => False | _ => True end
  | _ => True
  end.

Lemma okpub_okam subj a t : okam subj a -> okpub (mkpub subj a t).
Proof. intros H. exact H. Qed.

Definition resb (r : hub * list out) : Prop := BusOK (fst r).

(* ---- the bus under the functions that return a hub ---- *)
Lemma busok_eq h h' : h_bus h' = h_bus h -> BusOK h -> BusOK h'.
Proof. unfold BusOK. intros ->. auto. Qed.
Lemma busok_publish h subj a : BusOK h -> okam subj a -> BusOK (publish h subj a).
Proof.
  intros B Hm p. unfold publish. cbn [h_bus set_clock set_bus]. intros Hin.
  apply in_app_or in Hin as [Hin|[<-|[]]]; [now apply B|now apply okpub_okam].
Qed.
Lemma busok_set_bus h l : (forall p, In p l -> In p (h_bus h)) -> BusOK h -> BusOK (set_bus h l).
Proof. intros Hl B p Hin. apply B, Hl, Hin. Qed.

Lemma busok_room_remove h k sid : BusOK h -> BusOK (room_remove h k sid).
Proof.
  intros B. unfold room_remove. destruct (room_of h k) as [r|]; [|exact B].
  destruct (nmem sid (r_members r)); [|exact B].
  apply busok_publish; [|exact I]. eapply busok_eq; [apply remove_room_if_empty_bus|]. exact B.
Qed.
Lemma busok_fold_left {A} (f : hub -> A -> hub) l : forall h,
  BusOK h -> (forall hh x, BusOK hh -> BusOK (f hh x)) -> BusOK (fold_left f l h).
Proof. intros h. apply (wf_fold_left_hub BusOK). Qed.

Ltac okp := cbn [okam]; first [exact I | eexists; reflexivity | assumption].

Ltac busok :=
  first
  [ assumption
  | lazymatch goal with
    | |- BusOK (publish _ _ _) => apply busok_publish; [busok | okp]
    | |- BusOK (room_remove _ _ _) => apply busok_room_remove; busok
    | |- BusOK (rs_set ?h _ _) => apply (busok_eq h); [apply rs_set_bus | busok]
    | |- BusOK (rs_del ?h _) => apply (busok_eq h); [apply rs_set_bus | busok]
    | |- BusOK (remove_room_if_empty ?h _) => apply (busok_eq h); [apply remove_room_if_empty_bus | busok]
    | |- BusOK (detach_conn ?h _) => apply (busok_eq h); [apply detach_conn_bus | busok]
    | |- BusOK (drop_vt ?h _ _) => apply (busok_eq h); [apply drop_vt_bus | busok]
    | |- BusOK (set_incall ?h _ _ _) => apply (busok_eq h); [apply set_incall_bus | busok]
    | |- BusOK (scrub ?h _) => apply (busok_eq h); [reflexivity | busok]
    | |- BusOK (record_failure ?h _ _) => apply (busok_eq h); [reflexivity | busok]
    | |- BusOK (fold_left _ _ _) => apply busok_fold_left; [busok | intros; busok]
    | |- BusOK (match ?x with _ => _ end) => destruct x; busok
    | |- BusOK (?f ?h _ _ _) => change (BusOK h); busok
    | |- BusOK (?f ?h _ _) => change (BusOK h); busok
    | |- BusOK (?f ?h _) => change (BusOK h); busok
    end ].

Create HintDb bokdb.
#[export] Hint Extern 1 (BusOK _) => busok : bokdb.

Ltac callb X :=
  let H := fresh "Hc" in
  assert (H : resb X) by (solve [eauto 3 with bokdb nocore]);
  destruct X as [? ?]; unfold resb in H; cbn [fst] in H.

Ltac leafb := unfold resb; cbn [fst]; try busok.

Ltac gob :=
  cbv beta iota zeta;
  lazymatch goal with
  | |- resb (match (match ?Y with _ => _ end) with _ => _ end) => destruct Y; gob
  | |- resb (match ?X with _ => _ end) => first [ callb X | destruct X ]; gob
  | |- resb (_, _) => leafb
  | |- resb _ => first [ solve [eauto 3 with bokdb nocore] | idtac ]
  end.

(* ---- media objects, leaving a room, closing ---- *)
Lemma bok_close_tokens h toks : BusOK h -> resb (close_tokens h toks).
Proof. intros B. unfold close_tokens. gob. Qed.
#[export] Hint Resolve bok_close_tokens : bokdb.

Lemma bok_release_mcu h sid : BusOK h -> resb (release_mcu h sid).
Proof. intros B. unfold release_mcu. gob. Qed.
#[export] Hint Resolve bok_release_mcu : bokdb.

Lemma bok_leave_room h sid notify : BusOK h -> resb (leave_room h sid notify).
Proof. intros B. unfold leave_room. gob. Qed.
#[export] Hint Resolve bok_leave_room : bokdb.

Lemma bok_close_one h sid : BusOK h -> resb (close_one h sid).
Proof. intros B. unfold close_one. gob. Qed.
#[export] Hint Resolve bok_close_one : bokdb.

Lemma bok_close_all kids : forall hh oo, BusOK hh -> resb (close_all kids (hh, oo)).
Proof.
  induction kids as [|k kids IH]; intros hh oo B; unfold close_all; cbn [fold_left]; [exact B|].
  pose proof (bok_close_one hh k B) as B1. destruct (close_one hh k) as [h1 o1]. unfold resb in B1. cbn [fst] in B1.
  apply IH. exact B1.
Qed.

Lemma bok_close_session h sid : BusOK h -> resb (close_session h sid).
Proof.
  intros B. unfold close_session.
  pose proof (bok_close_one h sid B) as B1. destruct (close_one h sid) as [h1 o1]. unfold resb in B1. cbn [fst] in B1.
  now apply bok_close_all.
Qed.
#[export] Hint Resolve bok_close_session : bokdb.

Lemma bok_close_conn h c : BusOK h -> resb (close_conn h c).
Proof. intros B. unfold close_conn. gob. Qed.
#[export] Hint Resolve bok_close_conn : bokdb.

Lemma bok_fold_sessions l f : forall h,
  (forall hh x, BusOK hh -> resb (f hh x)) -> BusOK h -> resb (fold_sessions h l f).
Proof.
  induction l as [|x l IH]; intros h Hf B; [exact B|].
  rewrite fold_sessions_cons.
  pose proof (Hf h x B) as B1. destruct (f h x) as [h1 o1]. unfold resb in B1. cbn [fst] in B1.
  pose proof (IH h1 Hf B1) as B2. destruct (fold_sessions h1 l f) as [h2 o2]. exact B2.
Qed.

(* ---- sending ---- *)
Lemma bok_deliver_to_session h sid m : BusOK h -> resb (deliver_to_session h sid m).
Proof. intros B. unfold deliver_to_session. gob. Qed.
#[export] Hint Resolve bok_deliver_to_session : bokdb.

Lemma bok_send_session h sid m : BusOK h -> resb (send_session h sid m).
Proof. intros B. unfold send_session. gob. Qed.
#[export] Hint Resolve bok_send_session : bokdb.

Lemma bok_send_conn h c m : BusOK h -> resb (send_conn h c m).
Proof. intros B. unfold send_conn. gob. Qed.
#[export] Hint Resolve bok_send_conn : bokdb.

(* ---- hello ---- *)
Lemma bok_register h c cn b k u : BusOK h -> resb (register h c cn b k u).
Proof. intros B. unfold register. gob. Qed.
#[export] Hint Resolve bok_register : bokdb.

Lemma bok_do_hello h c cn hl : BusOK h -> resb (do_hello h c cn hl).
Proof. intros B. unfold do_hello. destruct hl; gob. Qed.

(* ---- joining ---- *)
Lemma bok_kick_room_session h rs : BusOK h -> resb (kick_room_session h rs).
Proof. intros B. unfold kick_room_session. gob. Qed.
#[export] Hint Resolve bok_kick_room_session : bokdb.

Lemma bok_join_room h c sid k rs perms su : BusOK h -> resb (join_room h c sid k rs perms su).
Proof. intros B. unfold join_room. gob. Qed.
#[export] Hint Resolve bok_join_room : bokdb.

Lemma bok_do_join h c sid s rn rs rep : BusOK h -> resb (do_join h c sid s rn rs rep).
Proof. intros B. unfold do_join. gob. Qed.
#[export] Hint Resolve bok_do_join : bokdb.

Lemma bok_revoke h sid : BusOK h -> resb (revoke h sid).
Proof. intros B. unfold revoke. gob. Qed.
#[export] Hint Resolve bok_revoke : bokdb.

(* ---- messages, delivery ---- *)
Lemma bok_do_message h sid s kindn to tag cb : BusOK h -> resb (do_message h sid s kindn to tag cb).
Proof. intros B. unfold do_message. gob. Qed.
#[export] Hint Resolve bok_do_message : bokdb.

Lemma bok_recv_event h sid m sender co re t : BusOK h -> resb (recv_event h sid m sender co re t).
Proof. intros B. unfold recv_event. gob. Qed.
#[export] Hint Resolve bok_recv_event : bokdb.

Lemma bok_leave_call h sid : BusOK h -> resb (leave_call h sid).
Proof. intros B. unfold leave_call. gob. Qed.
#[export] Hint Resolve bok_leave_call : bokdb.

Lemma bok_delete_member h m : BusOK h -> resb (delete_member h m).
Proof. intros B. unfold delete_member. gob. Qed.
#[export] Hint Resolve bok_delete_member : bokdb.

Lemma bok_fold_sessions' l f h :
  BusOK h -> (forall hh x, BusOK hh -> resb (f hh x)) -> resb (fold_sessions h l f).
Proof. intros B Hf. now apply bok_fold_sessions. Qed.

Ltac foldsb := apply bok_fold_sessions'; [busok | cbv beta; intros; gob].
#[export] Hint Extern 2 (resb (fold_sessions _ _ _)) => foldsb : bokdb.

Lemma bok_transient_update h k r del key val : BusOK h -> resb (transient_update h k r del key val).
Proof. intros B. unfold transient_update, transient_notify. gob. Qed.
#[export] Hint Resolve bok_transient_update : bokdb.

Lemma bok_fold_left_acc {A} (f : hub * list out -> A -> hub * list out) l :
  (forall hh oo a, BusOK hh -> resb (f (hh, oo) a)) ->
  forall hh oo, BusOK hh -> resb (fold_left f l (hh, oo)).
Proof.
  intros Hf. induction l as [|a l IH]; intros hh oo B; cbn [fold_left]; [exact B|].
  pose proof (Hf hh oo a B) as B1. destruct (f (hh, oo) a) as [h1 o1]. now apply IH.
Qed.

(* the only place that publishes a "room" message: the update of a room's properties, on the room's subject *)
Lemma bok_room_request h k q : BusOK h -> resb (room_request h k q).
Proof.
  intros B. unfold room_request. destruct (room_of h k) as [r|]; [|gob].
  destruct q; try (gob; fail).
  match goal with |- resb (let '(h1, outs) := ?X in _) =>
    assert (Hc : resb X) by (apply bok_fold_left_acc; [intros; gob|exact B]);
    destruct X as [h1 outs]; unfold resb in Hc; cbn [fst] in Hc end.
  gob.
Qed.
#[export] Hint Resolve bok_room_request : bokdb.

(* a delivery publishes nothing of what it took from the bus (a joined notice publishes a join list and flags) *)
Lemma bok_deliver_pub h p : BusOK h -> resb (deliver_pub h p).
Proof.
  intros B. destruct p as [subj msg t]. unfold deliver_pub. cbn [p_subj p_msg p_time].
  destruct subj; destruct msg; gob.
Qed.

Lemma bok_deliver_at h pos : BusOK h -> resb (deliver_at h pos).
Proof.
  intros B. unfold deliver_at. destruct (take_nth pos (h_bus h)) as [[p rest]|] eqn:E; [|gob].
  destruct (take_nth_In _ _ _ _ E) as [Hp Hrest].
  apply bok_deliver_pub. apply busok_set_bus; assumption.
Qed.

(* ---- room API, housekeeping, virtual sessions, media ---- *)
Lemma bok_do_api h b room q : BusOK h -> resb (do_api h b room q).
Proof. intros B. unfold do_api. gob. Qed.

Lemma bok_do_tick h secs : BusOK h -> resb (do_tick h secs).
Proof. intros B. unfold do_tick. gob. Qed.

Lemma bok_do_internal h c sid s q : BusOK h -> resb (do_internal h c sid s q).
Proof. intros B. unfold do_internal. gob. Qed.

Lemma bok_finish_create h tok p ok : BusOK h -> resb (finish_create h tok p ok).
Proof. intros B. unfold finish_create. gob. Qed.
#[export] Hint Resolve bok_finish_create : bokdb.

Lemma bok_start_create h p : BusOK h -> resb (start_create h p).
Proof. intros B. unfold start_create. gob. Qed.
#[export] Hint Resolve bok_start_create : bokdb.

Lemma bok_do_mcudone h tok ok : BusOK h -> resb (do_mcudone h tok ok).
Proof. intros B. unfold do_mcudone. gob. Qed.

Lemma bok_do_sendoffer h c sid s i stream : BusOK h -> resb (do_sendoffer h c sid s i stream).
Proof. intros B. unfold do_sendoffer. gob. Qed.
#[export] Hint Resolve bok_do_sendoffer : bokdb.

Lemma bok_do_media h c sid s to mk stream media : BusOK h -> resb (do_media h c sid s to mk stream media).
Proof. intros B. unfold do_media. gob. Qed.

Lemma bok_with_session h c f :
  (forall cn sid s, resb (f cn sid s)) -> BusOK h -> resb (with_session h c f).
Proof.
  intros Hf B. unfold with_session.
  destruct (aget (h_conns h) c) as [cn|]; [|gob].
  destruct (c_sess cn) as [sid|]; [|gob].
  destruct (get_sess h sid) as [s|]; [|gob].
  apply Hf.
Qed.

(* ------------------------------------------------------------------ the steps *)
Lemma step_resb h o : BusOK h -> resb (step h o).
Proof.
  intros B. destruct o; unfold step.
  - gob.
  - destruct (aget (h_conns h) c) as [cn|]; [|gob]. destruct (c_sess cn); [gob|].
    apply bok_do_hello. busok.
  - apply bok_with_session; [|exact B]. intros. gob.
  - apply bok_with_session; [|exact B]. intros. gob.
  - apply bok_with_session; [|exact B]. intros. gob.
  - gob.
  - gob.
  - apply bok_do_tick, B.
  - destruct (negb (b =? signas) || (h_nb h <=? b)); [gob|apply bok_do_api, B].
  - apply bok_with_session; [|exact B]. intros. destruct (is_internal (s_kind s)); [apply bok_do_internal, B|gob].
  - apply bok_with_session; [|exact B]. intros. apply bok_do_media, B.
  - apply bok_do_mcudone, B.
  - apply bok_with_session; [|exact B]. intros. gob.
  - apply bok_deliver_at, B.
  - gob.
Qed.

(* the shape of the queued publications: preserved by every step, true of every reachable state *)
Theorem busok_step h o : BusOK h -> BusOK (fst (step h o)).
Proof. intros B. apply (step_resb h o B). Qed.

Lemma busok_init limits gated : BusOK (init limits gated).
Proof. intros p []. Qed.

Theorem busok_run ops : forall h, BusOK h -> BusOK (run h ops).
Proof. induction ops as [|o r IH]; intros h B; cbn [run]; [exact B|]. apply IH. now apply busok_step. Qed.

Corollary busok_reachable limits gated ops : BusOK (run (init limits gated) ops).
Proof. apply busok_run, busok_init. Qed.

Lemma busok_drain fuel : forall h, BusOK h -> BusOK (fst (drain fuel h)).
Proof.
  induction fuel as [|f IH]; intros h B; cbn [drain]; [exact B|].
  destruct (h_bus h) eqn:E; [exact B|]. clear E.
  pose proof (bok_deliver_at h 0 B) as B1. destruct (deliver_at h 0) as [h1 o1]. unfold resb in B1. cbn [fst] in B1.
  specialize (IH h1 B1). destruct (drain f h1) as [h2 o2]. exact IH.
Qed.

Theorem busok_qstep h o : BusOK h -> BusOK (fst (qstep h o)).
Proof.
  intros B. unfold qstep. pose proof (busok_step h o B) as B1. destruct (step h o) as [h1 o1]. cbn [fst] in B1.
  pose proof (busok_drain 500 h1 B1) as B2. destruct (drain 500 h1) as [h2 o2]. exact B2.
Qed.

Theorem busok_qrun ops : forall h, BusOK h -> BusOK (qrun h ops).
Proof. induction ops as [|o r IH]; intros h B; cbn [qrun]; [exact B|]. apply IH. now apply busok_qstep. Qed.

Print Assumptions busok_reachable.
