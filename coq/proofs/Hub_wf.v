(* The structural invariant of the hub model: every identifier stored in any table
   names a live session; a session's own room and the rooms' member lists agree;
   no room is empty.  Preserved by every step, hence by every history and every
   delivery order of the bus (deliveries are steps).  (C04, C07, C19) *)
From Coq Require Import List NArith Bool Lia.
From Verif Require Import model.Hub proofs.Hub_basics.
Import ListNotations.
Open Scope N_scope.

Definition live (h : hub) (sid : N) : Prop := exists s, get_sess h sid = Some s.

Record WF (h : hub) : Prop := {
  wf_members : forall k r m, room_of h k = Some r -> In m r.(r_members) ->
                 exists s, get_sess h m = Some s /\ s.(s_room) = Some k;
  wf_nonempty : forall k r, room_of h k = Some r -> r.(r_members) <> [];
  wf_incall : forall k r m, room_of h k = Some r -> In m r.(r_incall) -> In m r.(r_members);
  wf_room : forall sid s k, get_sess h sid = Some s -> s.(s_room) = Some k ->
              exists r, room_of h k = Some r /\ In sid r.(r_members);
  wf_rs1 : forall sid x, aget h.(h_rs1) sid = Some x ->
              exists s k, get_sess h sid = Some s /\ s.(s_room) = Some k;
  wf_rs2 : forall x sid, aget h.(h_rs2) x = Some sid -> aget h.(h_rs1) sid = Some x;
  wf_vt : forall p v vs, pget h.(h_vtable) (p, v) = Some vs ->
              exists s, get_sess h vs = Some s /\ s.(s_kind) = KVirtual p v;
  wf_parent : forall vs s p v, get_sess h vs = Some s -> s.(s_kind) = KVirtual p v -> live h p;
  wf_expired : forall sid, In sid h.(h_expired) -> live h sid;
  wf_anonymous : forall sid, In sid h.(h_anonymous) -> live h sid;
  wf_dialout : forall sid, In sid h.(h_dialout) -> live h sid;
  wf_clients : forall sid, In sid h.(h_clients) -> live h sid;
  wf_counted : forall b l sid, aget h.(h_counted) b = Some l -> In sid l -> live h sid;
  wf_conns : forall c cn sid, aget h.(h_conns) c = Some cn -> cn.(c_sess) = Some sid ->
              exists s, get_sess h sid = Some s /\ s.(s_conn) = Some c;
}.

Lemma wf_init limits gated : WF (init limits gated).
Proof.
  constructor; unfold init, room_of, live, get_sess; cbn; intros; try discriminate; try contradiction.
Qed.

(* ------------------------------------------------------------------ states that agree on everything the invariant reads *)
Definition core (s : session) := (s.(s_room), s.(s_kind), s.(s_conn)).
Arguments core : simpl never.

Record equiv (h h' : hub) : Prop := {
  eq_sess : forall sid, option_map core (get_sess h' sid) = option_map core (get_sess h sid);
  eq_rooms : h_rooms h' = h_rooms h;
  eq_rs1 : h_rs1 h' = h_rs1 h;
  eq_rs2 : h_rs2 h' = h_rs2 h;
  eq_vt : h_vtable h' = h_vtable h;
  eq_expired : h_expired h' = h_expired h;
  eq_anonymous : h_anonymous h' = h_anonymous h;
  eq_dialout : h_dialout h' = h_dialout h;
  eq_clients : h_clients h' = h_clients h;
  eq_counted : h_counted h' = h_counted h;
  eq_conns : h_conns h' = h_conns h;
}.

Lemma equiv_refl h : equiv h h.
Proof. constructor; reflexivity. Qed.
Lemma equiv_trans h1 h2 h3 : equiv h1 h2 -> equiv h2 h3 -> equiv h1 h3.
Proof. intros [] []. constructor; intros; congruence. Qed.

Lemma equiv_get h h' sid s' : equiv h h' -> get_sess h' sid = Some s' ->
  exists s, get_sess h sid = Some s /\ core s = core s'.
Proof.
  intros E H. pose proof (eq_sess _ _ E sid) as Hs. rewrite H in Hs. cbn in Hs.
  destruct (get_sess h sid) as [s|]; [|discriminate]. cbn in Hs. injection Hs as Hs. exists s. split; [reflexivity|unfold core; congruence].
Qed.
Lemma equiv_get' h h' sid s : equiv h h' -> get_sess h sid = Some s ->
  exists s', get_sess h' sid = Some s' /\ core s' = core s.
Proof.
  intros E H. pose proof (eq_sess _ _ E sid) as Hs. rewrite H in Hs. cbn in Hs.
  destruct (get_sess h' sid) as [s'|]; [|discriminate]. cbn in Hs. injection Hs as Hs. exists s'. split; [reflexivity|unfold core; congruence].
Qed.
Lemma equiv_live h h' sid : equiv h h' -> (live h' sid <-> live h sid).
Proof.
  intros E. split; intros [s H].
  - destruct (equiv_get _ _ _ _ E H) as [s0 [H0 _]]. now exists s0.
  - destruct (equiv_get' _ _ _ _ E H) as [s0 [H0 _]]. now exists s0.
Qed.

Ltac core_inj H := unfold core in H; injection H as ? ? ?.

Lemma wf_equiv h h' : equiv h h' -> WF h -> WF h'.
Proof.
  intros E W. pose proof (equiv_live h h') as EL.
  constructor; unfold room_of in *.
  - intros k r m Hr Hm. rewrite (eq_rooms _ _ E) in Hr. destruct (wf_members h W k r m Hr Hm) as [s [Hs Hk]].
    destruct (equiv_get' _ _ _ _ E Hs) as [s' [Hs' Hc]]. core_inj Hc. exists s'. split; congruence.
  - intros k r Hr. rewrite (eq_rooms _ _ E) in Hr. eapply wf_nonempty; eauto.
  - intros k r m Hr. rewrite (eq_rooms _ _ E) in Hr. eapply wf_incall; eauto.
  - intros sid s' k Hs Hk. destruct (equiv_get _ _ _ _ E Hs) as [s [Hs0 Hc]]. core_inj Hc.
    rewrite (eq_rooms _ _ E). eapply wf_room; eauto. congruence.
  - intros sid x Hx. rewrite (eq_rs1 _ _ E) in Hx. destruct (wf_rs1 h W sid x Hx) as [s [k [Hs Hk]]].
    destruct (equiv_get' _ _ _ _ E Hs) as [s' [Hs' Hc]]. core_inj Hc. exists s', k. split; congruence.
  - intros x sid Hx. rewrite (eq_rs2 _ _ E) in Hx. rewrite (eq_rs1 _ _ E). eapply wf_rs2; eauto.
  - intros p v vs Hv. rewrite (eq_vt _ _ E) in Hv. destruct (wf_vt h W p v vs Hv) as [s [Hs Hk]].
    destruct (equiv_get' _ _ _ _ E Hs) as [s' [Hs' Hc]]. core_inj Hc. exists s'. split; congruence.
  - intros vs s' p v Hs Hk. destruct (equiv_get _ _ _ _ E Hs) as [s [Hs0 Hc]]. core_inj Hc.
    apply EL; [assumption|]. apply (wf_parent h W vs s p v Hs0). congruence.
  - intros sid Hi. rewrite (eq_expired _ _ E) in Hi. apply EL; auto. eapply wf_expired; eauto.
  - intros sid Hi. rewrite (eq_anonymous _ _ E) in Hi. apply EL; auto. eapply wf_anonymous; eauto.
  - intros sid Hi. rewrite (eq_dialout _ _ E) in Hi. apply EL; auto. eapply wf_dialout; eauto.
  - intros sid Hi. rewrite (eq_clients _ _ E) in Hi. apply EL; auto. eapply wf_clients; eauto.
  - intros b l sid Hb Hi. rewrite (eq_counted _ _ E) in Hb. apply EL; auto. eapply wf_counted; eauto.
  - intros c cn sid Hc Hs. rewrite (eq_conns _ _ E) in Hc. destruct (wf_conns h W c cn sid Hc Hs) as [s [Hs0 Hcn]].
    destruct (equiv_get' _ _ _ _ E Hs0) as [s' [Hs' Hco]]. core_inj Hco. exists s'. split; congruence.
Qed.

(* updating a session without touching room, kind, connection *)
Lemma equiv_put h sid s s' : get_sess h sid = Some s -> core s' = core s -> equiv h (put_sess h sid s').
Proof.
  intros Hs Hc. constructor; try reflexivity.
  intros x. unfold get_sess, put_sess in *. hsimpl. rewrite aget_aset.
  destruct (N.eqb_spec x sid) as [->|]; [|reflexivity]. rewrite Hs. cbn. congruence.
Qed.

Lemma equiv_publish h subj m : equiv h (publish h subj m).
Proof. constructor; reflexivity. Qed.
Lemma equiv_fail h a b : equiv h (record_failure h a b).
Proof. constructor; reflexivity. Qed.
Lemma equiv_mcu h a b c : equiv h (set_mcu h a b c).
Proof. constructor; reflexivity. Qed.
Lemma equiv_nextsid h v : equiv h (set_nextsid h v).
Proof. constructor; reflexivity. Qed.
Lemma equiv_clock h v : equiv h (set_clock h v).
Proof. constructor; reflexivity. Qed.
Lemma equiv_bus h v : equiv h (set_bus h v).
Proof. constructor; reflexivity. Qed.

Lemma equiv_close_tokens h toks : equiv h (fst (close_tokens h toks)).
Proof. unfold close_tokens. cbn [fst]. apply equiv_mcu. Qed.

Lemma equiv_release_mcu h sid : equiv h (fst (release_mcu h sid)).
Proof.
  unfold release_mcu. destruct (get_sess h sid) as [s|] eqn:Hs; [|apply equiv_refl].
  eapply equiv_trans; [|apply equiv_close_tokens]. apply equiv_put with s; auto.
Qed.

Lemma equiv_deliver_to_session h sid m : equiv h (fst (deliver_to_session h sid m)).
Proof.
  unfold deliver_to_session. destruct (get_sess h sid) as [s|] eqn:Hs; [|apply equiv_refl].
  match goal with |- context [let '(m', s1) := ?X in _] => destruct X as [m' s1] eqn:HX end.
  assert (Hc : core s1 = core s).
  { destruct m; try (injection HX as <- <-; reflexivity).
    - destruct (filter_seen (s_seen s) l) as [keep seen']. injection HX as <- <-. reflexivity. }
  destruct m' as [mm|]; cbn [fst].
  - destruct (s_conn s1); cbn [fst]; apply equiv_put with s; auto.
  - apply equiv_put with s; auto.
Qed.

Lemma equiv_revoke h sid : equiv h (fst (revoke h sid)).
Proof.
  unfold revoke. destruct (get_sess h sid) as [s|] eqn:Hs; [|apply equiv_refl].
  eapply equiv_trans; [|apply equiv_close_tokens]. apply equiv_put with s; auto.
Qed.

Lemma equiv_leave_call h sid : equiv h (fst (leave_call h sid)).
Proof.
  unfold leave_call. destruct (get_sess h sid) as [s|]; [|apply equiv_refl].
  destruct (s_kind s); destruct (s_room s); try apply equiv_refl; apply equiv_release_mcu.
Qed.
