(* The structural invariant of the hub model: every identifier stored in any table
   names a live session; a session's own room and the rooms' member lists agree;
   no room is empty.  Preserved by every step, hence by every history and every
   delivery order of the bus (deliveries are steps).  (C04, C07, C19) *)
From Coq Require Import List NArith Bool Lia.
From Verif Require Import model.Hub proofs.Hub_basics.
Import ListNotations.
Open Scope N_scope.

Definition live (h : hub) (sid : N) : Prop := exists s, get_sess h sid = Some s.

(* xr: rooms that may be missing although sessions still name them (while a room is being
   closed); xp: parents that may be gone although their virtual sessions are still there
   (while a session and its virtual sessions are being closed) *)
Record WFg (xr : N * N -> Prop) (xp : N -> Prop) (h : hub) : Prop := {
  wf_members : forall k r m, room_of h k = Some r -> In m r.(r_members) ->
                 exists s, get_sess h m = Some s /\ s.(s_room) = Some k;
  wf_nonempty : forall k r, room_of h k = Some r -> r.(r_members) <> [];
  wf_incall : forall k r m, room_of h k = Some r -> In m r.(r_incall) -> In m r.(r_members);
  wf_room : forall sid s k, get_sess h sid = Some s -> s.(s_room) = Some k ->
              xr k \/ exists r, room_of h k = Some r /\ In sid r.(r_members);
  wf_rs1 : forall sid x, aget h.(h_rs1) sid = Some x ->
              exists s k, get_sess h sid = Some s /\ s.(s_room) = Some k;
  wf_rs2 : forall x sid, aget h.(h_rs2) x = Some sid -> aget h.(h_rs1) sid = Some x;
  wf_vt : forall p v vs, pget h.(h_vtable) (p, v) = Some vs ->
              exists s, get_sess h vs = Some s /\ s.(s_kind) = KVirtual p v;
  wf_parent : forall vs s p v, get_sess h vs = Some s -> s.(s_kind) = KVirtual p v ->
              xp p \/ exists ps, get_sess h p = Some ps /\ is_internal ps.(s_kind) = true;
  wf_expired : forall sid, In sid h.(h_expired) -> live h sid;
  wf_anonymous : forall sid, In sid h.(h_anonymous) -> live h sid;
  wf_dialout : forall sid, In sid h.(h_dialout) -> live h sid;
  wf_clients : forall sid, In sid h.(h_clients) -> live h sid;
  wf_counted : forall b l sid, aget h.(h_counted) b = Some l -> In sid l -> live h sid;
  wf_conns : forall c cn sid, aget h.(h_conns) c = Some cn -> cn.(c_sess) = Some sid ->
              exists s, get_sess h sid = Some s /\ s.(s_conn) = Some c;
  (* the sessions counted for a backend never exceed its limit *)
  wf_limit : forall b l, aget h.(h_counted) b = Some l -> N.of_nat (length l) <= limit_of h b;
}.

Definition none2 : N * N -> Prop := fun _ => False.
Definition none1 : N -> Prop := fun _ => False.
Definition WF (h : hub) : Prop := WFg none2 none1 h.

Lemma wf_weaken (xr xr' : N * N -> Prop) (xp xp' : N -> Prop) h :
  (forall k, xr k -> xr' k) -> (forall p, xp p -> xp' p) -> WFg xr xp h -> WFg xr' xp' h.
Proof.
  intros Hr Hp W. constructor; try apply W.
  - intros sid s k Hs Hk. destruct (wf_room _ _ h W sid s k Hs Hk); [left|right]; auto.
  - intros vs s p v Hs Hk. destruct (wf_parent _ _ h W vs s p v Hs Hk); [left|right]; auto.
Qed.

Lemma wf_init limits gated : WF (init limits gated).
Proof.
  constructor; unfold init, room_of, live, get_sess; cbn; intros; try discriminate; try contradiction.
Qed.

(* ------------------------------------------------------------------ states that agree on everything the invariant reads *)
Definition core (s : session) := (s.(s_room), s.(s_kind), s.(s_conn)).
Arguments core : simpl never.

Record equiv (h h' : hub) : Prop := {
  eq_sess : forall sid, option_map core (get_sess h' sid) = option_map core (get_sess h sid);
  eq_rooms : h_rooms h' = h_rooms h;
  eq_rs1 : h_rs1 h' = h_rs1 h;
  eq_rs2 : h_rs2 h' = h_rs2 h;
  eq_vt : h_vtable h' = h_vtable h;
  eq_expired : h_expired h' = h_expired h;
  eq_anonymous : h_anonymous h' = h_anonymous h;
  eq_dialout : h_dialout h' = h_dialout h;
  eq_clients : h_clients h' = h_clients h;
  eq_counted : h_counted h' = h_counted h;
  eq_conns : h_conns h' = h_conns h;
  eq_limits : h_limits h' = h_limits h;
}.

Lemma equiv_refl h : equiv h h.
Proof. constructor; reflexivity. Qed.
Lemma equiv_trans h1 h2 h3 : equiv h1 h2 -> equiv h2 h3 -> equiv h1 h3.
Proof. intros [] []. constructor; intros; congruence. Qed.

Lemma equiv_get h h' sid s' : equiv h h' -> get_sess h' sid = Some s' ->
  exists s, get_sess h sid = Some s /\ core s = core s'.
Proof.
  intros E H. pose proof (eq_sess _ _ E sid) as Hs. rewrite H in Hs. cbn in Hs.
  destruct (get_sess h sid) as [s|]; [|discriminate]. cbn in Hs. injection Hs as Hs. exists s. split; [reflexivity|unfold core; congruence].
Qed.
Lemma equiv_get' h h' sid s : equiv h h' -> get_sess h sid = Some s ->
  exists s', get_sess h' sid = Some s' /\ core s' = core s.
Proof.
  intros E H. pose proof (eq_sess _ _ E sid) as Hs. rewrite H in Hs. cbn in Hs.
  destruct (get_sess h' sid) as [s'|]; [|discriminate]. cbn in Hs. injection Hs as Hs. exists s'. split; [reflexivity|unfold core; congruence].
Qed.
Lemma equiv_live h h' sid : equiv h h' -> (live h' sid <-> live h sid).
Proof.
  intros E. split; intros [s H].
  - destruct (equiv_get _ _ _ _ E H) as [s0 [H0 _]]. now exists s0.
  - destruct (equiv_get' _ _ _ _ E H) as [s0 [H0 _]]. now exists s0.
Qed.

Ltac core_inj H := unfold core in H; injection H as ? ? ?.

Lemma core_some_eq s s0 : Some (core s) = Some (core s0) ->
  s_room s = s_room s0 /\ s_kind s = s_kind s0 /\ s_conn s = s_conn s0.
Proof. unfold core. intros H. inversion H. auto. Qed.
Lemma core_some_eq' s s0 : core s = core s0 ->
  s_room s = s_room s0 /\ s_kind s = s_kind s0 /\ s_conn s = s_conn s0.
Proof. unfold core. intros H. inversion H. auto. Qed.

Lemma wf_equiv xr xp h h' : equiv h h' -> WFg xr xp h -> WFg xr xp h'.
Proof.
  intros E W. pose proof (equiv_live h h') as EL.
  constructor; unfold room_of in *.
  - intros k r m Hr Hm. rewrite (eq_rooms _ _ E) in Hr. destruct (wf_members _ _ h W k r m Hr Hm) as [s [Hs Hk]].
    destruct (equiv_get' _ _ _ _ E Hs) as [s' [Hs' Hc]]. core_inj Hc. exists s'. split; congruence.
  - intros k r Hr. rewrite (eq_rooms _ _ E) in Hr. eapply wf_nonempty; eauto.
  - intros k r m Hr. rewrite (eq_rooms _ _ E) in Hr. eapply wf_incall; eauto.
  - intros sid s' k Hs Hk. destruct (equiv_get _ _ _ _ E Hs) as [s [Hs0 Hc]]. core_inj Hc.
    rewrite (eq_rooms _ _ E). eapply (wf_room _ _ h W); eauto. congruence.
  - intros sid x Hx. rewrite (eq_rs1 _ _ E) in Hx. destruct (wf_rs1 _ _ h W sid x Hx) as [s [k [Hs Hk]]].
    destruct (equiv_get' _ _ _ _ E Hs) as [s' [Hs' Hc]]. core_inj Hc. exists s', k. split; congruence.
  - intros x sid Hx. rewrite (eq_rs2 _ _ E) in Hx. rewrite (eq_rs1 _ _ E). eapply wf_rs2; eauto.
  - intros p v vs Hv. rewrite (eq_vt _ _ E) in Hv. destruct (wf_vt _ _ h W p v vs Hv) as [s [Hs Hk]].
    destruct (equiv_get' _ _ _ _ E Hs) as [s' [Hs' Hc]]. core_inj Hc. exists s'. split; congruence.
  - intros vs s' p v Hs Hk. destruct (equiv_get _ _ _ _ E Hs) as [s [Hs0 Hc]]. core_inj Hc.
    assert (Hk' : s_kind s = KVirtual p v) by congruence.
    destruct (wf_parent _ _ h W vs s p v Hs0 Hk') as [?|[ps [Hps Hpi]]]; [left; assumption|right].
    destruct (equiv_get' _ _ _ _ E Hps) as [ps' [Hps' Hcp]]. core_inj Hcp. exists ps'. split; [assumption|congruence].
  - intros sid Hi. rewrite (eq_expired _ _ E) in Hi. apply EL; auto. eapply wf_expired; eauto.
  - intros sid Hi. rewrite (eq_anonymous _ _ E) in Hi. apply EL; auto. eapply wf_anonymous; eauto.
  - intros sid Hi. rewrite (eq_dialout _ _ E) in Hi. apply EL; auto. eapply wf_dialout; eauto.
  - intros sid Hi. rewrite (eq_clients _ _ E) in Hi. apply EL; auto. eapply wf_clients; eauto.
  - intros b l sid Hb Hi. rewrite (eq_counted _ _ E) in Hb. apply EL; auto. eapply wf_counted; eauto.
  - intros c cn sid Hc Hs. rewrite (eq_conns _ _ E) in Hc. destruct (wf_conns _ _ h W c cn sid Hc Hs) as [s [Hs0 Hcn]].
    destruct (equiv_get' _ _ _ _ E Hs0) as [s' [Hs' Hco]]. core_inj Hco. exists s'. split; congruence.
  - intros b l. rewrite (eq_counted _ _ E). unfold limit_of. rewrite (eq_limits _ _ E). apply (wf_limit _ _ h W).
Qed.

(* updating a session without touching room, kind, connection *)
Lemma equiv_put h sid s s' : get_sess h sid = Some s -> core s' = core s -> equiv h (put_sess h sid s').
Proof.
  intros Hs Hc. constructor; try reflexivity.
  intros x. unfold get_sess, put_sess in *. hsimpl. rewrite aget_aset.
  destruct (N.eqb_spec x sid) as [->|]; [|reflexivity]. rewrite Hs. cbn. congruence.
Qed.

Lemma equiv_publish h subj m : equiv h (publish h subj m).
Proof. constructor; reflexivity. Qed.
Lemma equiv_fail h a b : equiv h (record_failure h a b).
Proof. constructor; reflexivity. Qed.
Lemma equiv_mcu h a b c : equiv h (set_mcu h a b c).
Proof. constructor; reflexivity. Qed.
Lemma equiv_nextsid h v : equiv h (set_nextsid h v).
Proof. constructor; reflexivity. Qed.
Lemma equiv_clock h v : equiv h (set_clock h v).
Proof. constructor; reflexivity. Qed.
Lemma equiv_bus h v : equiv h (set_bus h v).
Proof. constructor; reflexivity. Qed.

Lemma equiv_close_tokens h toks : equiv h (fst (close_tokens h toks)).
Proof. unfold close_tokens. cbn [fst]. apply equiv_mcu. Qed.

Lemma equiv_release_mcu h sid : equiv h (fst (release_mcu h sid)).
Proof.
  unfold release_mcu. destruct (get_sess h sid) as [s|] eqn:Hs; [|apply equiv_refl].
  eapply equiv_trans; [|apply equiv_close_tokens]. apply equiv_put with s; auto.
Qed.

Lemma equiv_deliver_to_session h sid m : equiv h (fst (deliver_to_session h sid m)).
Proof.
  unfold deliver_to_session. destruct (get_sess h sid) as [s|] eqn:Hs; [|apply equiv_refl].
  match goal with |- context [let '(m', s1) := ?X in _] => destruct X as [m' s1] eqn:HX end.
  assert (Hc : core s1 = core s).
  { destruct m; try (injection HX as <- <-; reflexivity).
    - destruct (filter_seen (s_seen s) l) as [keep seen']. injection HX as <- <-. reflexivity. }
  destruct m' as [mm|]; cbn [fst].
  - destruct (s_conn s1); cbn [fst]; apply equiv_put with s; auto.
  - apply equiv_put with s; auto.
Qed.

Lemma equiv_revoke h sid : equiv h (fst (revoke h sid)).
Proof.
  unfold revoke. destruct (get_sess h sid) as [s|] eqn:Hs; [|apply equiv_refl].
  eapply equiv_trans; [|apply equiv_close_tokens]. apply equiv_put with s; auto.
Qed.

Lemma equiv_leave_call h sid : equiv h (fst (leave_call h sid)).
Proof.
  unfold leave_call. destruct (get_sess h sid) as [s|]; [|apply equiv_refl].
  destruct (s_kind s); destruct (s_room s); try apply equiv_refl; apply equiv_release_mcu.
Qed.

(* ------------------------------------------------------------------ list tables *)
Section Lists.
  Context (xr : N * N -> Prop).
  Context (xp : N -> Prop).

  Lemma wf_set_expired h v : WFg xr xp h -> (forall x, In x v -> live h x) -> WFg xr xp (set_expired h v).
  Proof. intros W Hv. constructor; try apply W. exact Hv. Qed.
  Lemma wf_set_anonymous h v : WFg xr xp h -> (forall x, In x v -> live h x) -> WFg xr xp (set_anonymous h v).
  Proof. intros W Hv. constructor; try apply W. exact Hv. Qed.
  Lemma wf_set_dialout h v : WFg xr xp h -> (forall x, In x v -> live h x) -> WFg xr xp (set_dialout h v).
  Proof. intros W Hv. constructor; try apply W. exact Hv. Qed.
  Lemma wf_set_clients h v : WFg xr xp h -> (forall x, In x v -> live h x) -> WFg xr xp (set_clients h v).
  Proof. intros W Hv. constructor; try apply W. exact Hv. Qed.

  Lemma in_nrem x y l : In x (nrem y l) -> In x l.
  Proof. intros H. apply nmem_In in H. rewrite nmem_nrem in H. apply andb_prop in H as [_ H]. now apply nmem_In. Qed.
  Lemma in_nrem_ne x y l : In x (nrem y l) -> x <> y.
  Proof. intros H. apply nmem_In in H. rewrite nmem_nrem in H. apply andb_prop in H as [H _]. intros ->. now rewrite N.eqb_refl in H. Qed.
  Lemma in_nadd x y l : In x (nadd y l) -> x = y \/ In x l.
  Proof.
    intros H. apply nmem_In in H. rewrite nmem_nadd in H. apply orb_prop in H as [H|H].
    - left. now apply N.eqb_eq. - right. now apply nmem_In.
  Qed.
  Lemma in_nadd_intro x y l : x = y \/ In x l -> In x (nadd y l).
  Proof.
    intros H. apply nmem_In. rewrite nmem_nadd. destruct H as [->|H]; [now rewrite N.eqb_refl|].
    apply nmem_In in H. rewrite H. apply orb_true_r.
  Qed.
End Lists.

(* ------------------------------------------------------------------ the room-session map *)
Lemma wf_rs_del xr xp h sid : WFg xr xp h -> WFg xr xp (rs_del h sid).
Proof.
  intros W. unfold rs_del, rs_set. cbn [N.eqb]. destruct (aget (h_rs1 h) sid) as [prev|] eqn:Hp; [|exact W].
  constructor; try apply W.
  - intros s x. hsimpl. rewrite aget_adel. destruct (N.eqb_spec s sid); [discriminate|]. apply (wf_rs1 _ _ h W).
  - intros x s. hsimpl. intros Hx.
    assert (Hx0 : aget (h_rs2 h) x = Some s /\ (x = prev -> s <> sid)).
    { destruct (aget (h_rs2 h) prev) as [owner|] eqn:Ho.
      - destruct (N.eqb_spec owner sid) as [->|Hne].
        + rewrite aget_adel in Hx. destruct (N.eqb_spec x prev); [discriminate|]. split; [assumption|contradiction].
        + split; [assumption|]. intros ->. congruence.
      - split; [assumption|]. intros ->. congruence. }
    destruct Hx0 as [Hx0 Hne]. pose proof (wf_rs2 _ _ h W x s Hx0) as H1.
    rewrite aget_adel. destruct (N.eqb_spec s sid) as [->|]; [|assumption].
    exfalso. rewrite Hp in H1. injection H1 as ->. now apply Hne.
Qed.

(* setting the room session id of a session that is in a room *)
Lemma wf_rs_set xr xp h sid rs s k : WFg xr xp h -> get_sess h sid = Some s -> s.(s_room) = Some k ->
  WFg xr xp (rs_set h sid rs).
Proof.
  intros W Hs Hk. destruct (N.eqb_spec rs 0) as [->|Hrs]; [apply wf_rs_del; exact W|].
  unfold rs_set. destruct (N.eqb_spec rs 0); [contradiction|].
  destruct (aget (h_rs1 h) sid) as [prev|] eqn:Hp.
  - destruct (N.eqb_spec prev rs); [exact W|].
    constructor; try apply W.
    + intros s0 x. hsimpl. rewrite aget_aset. destruct (N.eqb_spec s0 sid) as [->|]; [intros _; eauto|apply (wf_rs1 _ _ h W)].
    + intros x s0. hsimpl. rewrite !aget_aset. destruct (N.eqb_spec x rs) as [->|Hx].
      * intros H. injection H as <-. now rewrite N.eqb_refl.
      * rewrite aget_adel. destruct (N.eqb_spec x prev) as [->|]; [discriminate|]. intros H.
        pose proof (wf_rs2 _ _ h W x s0 H) as H1. destruct (N.eqb_spec s0 sid) as [->|]; [|assumption].
        rewrite Hp in H1. congruence.
  - constructor; try apply W.
    + intros s0 x. hsimpl. rewrite aget_aset. destruct (N.eqb_spec s0 sid) as [->|]; [intros _; eauto|apply (wf_rs1 _ _ h W)].
    + intros x s0. hsimpl. rewrite !aget_aset. destruct (N.eqb_spec x rs) as [->|Hx].
      * intros H. injection H as <-. now rewrite N.eqb_refl.
      * intros H. pose proof (wf_rs2 _ _ h W x s0 H) as H1. destruct (N.eqb_spec s0 sid) as [->|]; [|assumption].
        rewrite Hp in H1. discriminate.
Qed.

(* ------------------------------------------------------------------ leaving a room *)
Lemma room_of_set_rooms h v k : room_of (set_rooms h v) k = pget v k.
Proof. reflexivity. Qed.

(* the rooms table after Room.RemoveSession *)
Definition rooms_after_remove (h : hub) (k : N * N) (sid : N) : list ((N * N) * room) :=
  match room_of h k with
  | None => h.(h_rooms)
  | Some r =>
      if nmem sid r.(r_members) then
        let r' := mkroom (nrem sid r.(r_members)) (nrem sid r.(r_incall)) (adel r.(r_sessdata) sid) r.(r_transient) r.(r_props) in
        match nrem sid r.(r_members) with
        | [] => pdel (pset h.(h_rooms) k r') k
        | _ => pset h.(h_rooms) k r'
        end
      else h.(h_rooms)
  end.

Lemma room_remove_equiv h k sid : equiv (set_rooms h (rooms_after_remove h k sid)) (room_remove h k sid).
Proof.
  unfold room_remove, rooms_after_remove. destruct (room_of h k) as [r|] eqn:Hr.
  - destruct (nmem sid (r_members r)) eqn:Hm.
    + eapply equiv_trans; [|apply equiv_publish]. unfold remove_room_if_empty.
      rewrite room_of_set_rooms, pget_pset_same. cbn [r_members].
      destruct (nrem sid (r_members r)); constructor; reflexivity.
    + destruct h; constructor; reflexivity.
  - destruct h; constructor; reflexivity.
Qed.

Lemma pget_rooms_after_remove h k sid k' :
  pget (rooms_after_remove h k sid) k' =
  if pair_eqb k' k then
    match room_of h k with
    | Some r => if nmem sid r.(r_members) then
                  match nrem sid r.(r_members) with
                  | [] => None
                  | _ => Some (mkroom (nrem sid r.(r_members)) (nrem sid r.(r_incall)) (adel r.(r_sessdata) sid) r.(r_transient) r.(r_props))
                  end
                else Some r
    | None => None
    end
  else room_of h k'.
Proof.
  unfold rooms_after_remove. destruct (pair_eqb_spec k' k) as [->|Hne].
  - destruct (room_of h k) as [r|] eqn:Hr; [|exact Hr].
    destruct (nmem sid (r_members r)); [|exact Hr].
    destruct (nrem sid (r_members r)); [apply pget_pdel_same|apply pget_pset_same].
  - destruct (room_of h k) as [r|]; [|reflexivity].
    destruct (nmem sid (r_members r)); [|reflexivity].
    destruct (nrem sid (r_members r)); [rewrite pget_pdel_other by assumption|]; now rewrite pget_pset_other.
Qed.

(* the core step: a session that was in room k gets its room cleared and is taken off the member list *)
Lemma wf_unroom xr xp h sid s s' k :
  WFg xr xp h -> get_sess h sid = Some s -> s.(s_room) = Some k ->
  s'.(s_room) = None -> s'.(s_kind) = s.(s_kind) -> s'.(s_conn) = s.(s_conn) ->
  aget h.(h_rs1) sid = None ->
  WFg xr xp (set_rooms (put_sess h sid s') (rooms_after_remove h k sid)).
Proof.
  intros W Hs Hk Hr' Hkind Hconn Hrs.
  assert (Hget : forall x, get_sess (set_rooms (put_sess h sid s') (rooms_after_remove h k sid)) x =
                           if N.eqb x sid then Some s' else get_sess h x).
  { intros x. unfold get_sess, put_sess. hsimpl. apply aget_aset. }
  assert (Hlive : forall x, live h x -> live (set_rooms (put_sess h sid s') (rooms_after_remove h k sid)) x).
  { intros x [sx Hx]. unfold live. rewrite Hget. destruct (N.eqb_spec x sid); eauto. }
  assert (Hroom : forall k', room_of (set_rooms (put_sess h sid s') (rooms_after_remove h k sid)) k' = pget (rooms_after_remove h k sid) k') by reflexivity.
  constructor.
  - (* members *)
    intros k' r0 m. rewrite Hroom, pget_rooms_after_remove. intros Hr0 Hm.
    assert (Hmm : exists r1, room_of h k' = Some r1 /\ In m (r_members r1) /\ m <> sid).
    { destruct (pair_eqb_spec k' k) as [->|Hne].
      - destruct (room_of h k) as [r|] eqn:Hrk; [|discriminate].
        destruct (nmem sid (r_members r)) eqn:Hmem.
        + destruct (nrem sid (r_members r)) eqn:Hn; [discriminate|]. injection Hr0 as Heq. subst r0. cbn [r_members] in Hm.
          rewrite <- Hn in Hm. exists r. split; [reflexivity|]. split; [eapply in_nrem; eauto|eapply in_nrem_ne; eauto].
        + injection Hr0 as Heq. subst r0. exists r. split; [reflexivity|]. split; [assumption|].
          intros ->. apply nmem_In in Hm. congruence.
      - exists r0. split; [assumption|]. split; [assumption|]. intros ->.
        destruct (wf_members _ _ h W k' r0 sid Hr0 Hm) as [s0 [Hs0 Hk0]]. rewrite Hs in Hs0. injection Hs0 as <-. congruence. }
    destruct Hmm as [r1 [Hr1 [Hm1 Hne]]]. destruct (wf_members _ _ h W k' r1 m Hr1 Hm1) as [sm [Hsm Hkm]].
    exists sm. rewrite Hget. destruct (N.eqb_spec m sid); [contradiction|]. auto.
  - (* nonempty *)
    intros k' r0. rewrite Hroom, pget_rooms_after_remove.
    destruct (pair_eqb_spec k' k) as [->|Hne]; [|apply (wf_nonempty _ _ h W)].
    destruct (room_of h k) as [r|] eqn:Hrk; [|discriminate].
    destruct (nmem sid (r_members r)).
    + destruct (nrem sid (r_members r)) eqn:Hn; [discriminate|]. intros H. injection H as Heq. subst r0. cbn [r_members]. discriminate.
    + intros H. injection H as Heq. subst r0. eapply wf_nonempty; eauto.
  - (* incall *)
    intros k' r0 m. rewrite Hroom, pget_rooms_after_remove.
    destruct (pair_eqb_spec k' k) as [->|Hne]; [|apply (wf_incall _ _ h W)].
    destruct (room_of h k) as [r|] eqn:Hrk; [|discriminate].
    destruct (nmem sid (r_members r)).
    + destruct (nrem sid (r_members r)) eqn:Hn; [discriminate|]. intros H. injection H as Heq. subst r0. cbn [r_members r_incall].
      intros Hi. rewrite <- Hn. apply nmem_In. rewrite nmem_nrem.
      pose proof (in_nrem_ne _ _ _ Hi) as Hne. apply in_nrem in Hi.
      pose proof (wf_incall _ _ h W k r m Hrk Hi) as Hmem. apply nmem_In in Hmem. rewrite Hmem.
      destruct (N.eqb_spec m sid); [contradiction|reflexivity].
    + intros H. injection H as Heq. subst r0. eapply wf_incall; eauto.
  - (* room of a session *)
    intros x sx k'. rewrite Hget. destruct (N.eqb_spec x sid) as [->|Hne].
    + intros H. injection H as <-. congruence.
    + intros Hx Hkx. destruct (wf_room _ _ h W x sx k' Hx Hkx) as [Hxr|[r1 [Hr1 Hm1]]]; [now left|right].
      rewrite Hroom, pget_rooms_after_remove. destruct (pair_eqb_spec k' k) as [->|]; [|eauto].
      rewrite Hr1. destruct (nmem sid (r_members r1)) eqn:Hmem; [|eauto].
      assert (Hin : In x (nrem sid (r_members r1))).
      { apply nmem_In. rewrite nmem_nrem. apply nmem_In in Hm1. rewrite Hm1. destruct (N.eqb_spec x sid); [contradiction|reflexivity]. }
      destruct (nrem sid (r_members r1)) eqn:Hn; [destruct Hin|]. eexists. split; [reflexivity|]. cbn [r_members]. rewrite <- Hn at 1. rewrite Hn. exact Hin.
  - (* rs1 *)
    intros x v Hx. assert (x <> sid) by (intros ->; hsimpl; congruence).
    destruct (wf_rs1 _ _ h W x v Hx) as [sx [kx [Hsx Hkx]]]. exists sx, kx. rewrite Hget. destruct (N.eqb_spec x sid); [contradiction|]. auto.
  - apply (wf_rs2 _ _ h W).
  - (* vtable *)
    intros p v vs Hv. destruct (wf_vt _ _ h W p v vs Hv) as [sv [Hsv Hkv]]. rewrite Hget.
    destruct (N.eqb_spec vs sid) as [->|]; [|eauto]. exists s'. split; [reflexivity|]. rewrite Hs in Hsv. injection Hsv as <-. congruence.
  - (* parent *)
    intros vs sv p v. rewrite Hget. destruct (N.eqb_spec vs sid) as [->|].
    + intros H. injection H as <-. rewrite Hkind. intros Hkv.
      destruct (wf_parent _ _ h W sid s p v Hs Hkv) as [?|[ps [Hps Hpi]]]; [now left|right].
      rewrite Hget. destruct (N.eqb_spec p sid) as [->|]; [|eauto]. exists s'. split; [reflexivity|]. rewrite Hs in Hps. injection Hps as <-. congruence.
    + intros Hsv Hkv. destruct (wf_parent _ _ h W vs sv p v Hsv Hkv) as [?|[ps [Hps Hpi]]]; [now left|right].
      rewrite Hget. destruct (N.eqb_spec p sid) as [->|]; [|eauto]. exists s'. split; [reflexivity|]. rewrite Hs in Hps. injection Hps as <-. congruence.
  - intros x Hx. apply Hlive. eapply wf_expired; eauto.
  - intros x Hx. apply Hlive. eapply wf_anonymous; eauto.
  - intros x Hx. apply Hlive. eapply wf_dialout; eauto.
  - intros x Hx. apply Hlive. eapply wf_clients; eauto.
  - intros b l x Hb Hx. apply Hlive. eapply wf_counted; eauto.
  - intros c cn x Hc Hx. destruct (wf_conns _ _ h W c cn x Hc Hx) as [sx [Hsx Hcx]]. rewrite Hget.
    destruct (N.eqb_spec x sid) as [->|]; [|eauto]. exists s'. split; [reflexivity|]. rewrite Hs in Hsx. injection Hsx as <-. congruence.
  - apply (wf_limit _ _ h W).
Qed.

Lemma rs_del_sessions h sid : h_sessions (rs_del h sid) = h_sessions h.
Proof.
  unfold rs_del, rs_set. cbn [N.eqb]. destruct (aget (h_rs1 h) sid); reflexivity.
Qed.
Lemma rs_set_sessions h sid rs : h_sessions (rs_set h sid rs) = h_sessions h.
Proof.
  unfold rs_set. destruct (N.eqb rs 0).
  - destruct (aget (h_rs1 h) sid); reflexivity.
  - destruct (aget (h_rs1 h) sid) as [prev|]; [destruct (N.eqb prev rs)|]; reflexivity.
Qed.
Lemma rs_del_rooms h sid : h_rooms (rs_del h sid) = h_rooms h.
Proof. unfold rs_del, rs_set. cbn [N.eqb]. destruct (aget (h_rs1 h) sid); reflexivity. Qed.
Lemma rs_del_clears h sid : aget (h_rs1 (rs_del h sid)) sid = None.
Proof.
  unfold rs_del, rs_set. cbn [N.eqb]. destruct (aget (h_rs1 h) sid) eqn:H; [|exact H].
  hsimpl. apply aget_adel_same.
Qed.

Lemma equiv_set_rooms h h' v : equiv h h' -> equiv (set_rooms h v) (set_rooms h' v).
Proof. intros []. constructor; auto. Qed.

Lemma rooms_after_remove_ext h h' k sid : h_rooms h' = h_rooms h -> rooms_after_remove h' k sid = rooms_after_remove h k sid.
Proof. intros E. unfold rooms_after_remove, room_of. now rewrite E. Qed.

Lemma equiv_sym_rooms h h' : equiv h h' -> h_rooms h' = h_rooms h.
Proof. intros []. assumption. Qed.

(* what leaving does to the sessions: the leaver's room is cleared, nothing else the invariant reads changes *)
Definition unroomed (s : session) := (@None (N * N), s.(s_kind), s.(s_conn)).

Lemma wf_leave_room xr xp h sid notify :
  WFg xr xp h -> WFg xr xp (fst (leave_room h sid notify)).
Proof.
  intros W. unfold leave_room. destruct (get_sess h sid) as [s|] eqn:Hs; [|exact W].
  destruct (s_room s) as [k|] eqn:Hk; [|exact W].
  pose proof (wf_rs_del _ _ h sid W) as W1.
  assert (Hs1 : get_sess (rs_del h sid) sid = Some s) by (unfold get_sess; now rewrite rs_del_sessions).
  destruct (is_virtual (s_kind s)).
  - cbn [fst]. eapply wf_equiv; [apply room_remove_equiv|].
    rewrite (rooms_after_remove_ext (rs_del h sid)) by reflexivity.
    apply (wf_unroom _ _ (rs_del h sid) sid s _ k); auto using rs_del_clears.
  - set (s1 := upd_sess s None 0 (s_conn s) (s_perms s) (s_pending s) [] 0).
    set (h2 := put_sess (rs_del h sid) sid s1).
    destruct (release_mcu h2 sid) as [h3 outs2] eqn:Hrel. cbn [fst].
    assert (E23 : equiv h2 h3) by (replace h3 with (fst (release_mcu h2 sid)) by (now rewrite Hrel); apply equiv_release_mcu).
    eapply wf_equiv; [apply room_remove_equiv|].
    rewrite (rooms_after_remove_ext (rs_del h sid)) by (rewrite (equiv_sym_rooms _ _ E23); reflexivity).
    eapply wf_equiv; [apply equiv_set_rooms; exact E23|].
    apply (wf_unroom _ _ (rs_del h sid) sid s s1 k); auto using rs_del_clears.
Qed.

Lemma leave_room_core h sid notify x :
  option_map core (get_sess (fst (leave_room h sid notify)) x) =
  if N.eqb x sid then
    match get_sess h sid with
    | Some s => match s.(s_room) with Some _ => Some (unroomed s) | None => Some (core s) end
    | None => None
    end
  else option_map core (get_sess h x).
Proof.
  unfold leave_room. destruct (get_sess h sid) as [s|] eqn:Hs.
  2:{ cbn [fst]. destruct (N.eqb_spec x sid) as [->|]; [now rewrite Hs|reflexivity]. }
  destruct (s_room s) as [k|] eqn:Hk.
  2:{ cbn [fst]. destruct (N.eqb_spec x sid) as [->|]; [now rewrite Hs|reflexivity]. }
  assert (Hput : forall s1 y, get_sess (put_sess (rs_del h sid) sid s1) y = if N.eqb y sid then Some s1 else get_sess h y).
  { intros s1 y. unfold get_sess, put_sess. hsimpl. rewrite aget_aset, rs_del_sessions. reflexivity. }
  destruct (is_virtual (s_kind s)).
  - cbn [fst]. rewrite (eq_sess _ _ (room_remove_equiv _ k sid) x).
    unfold get_sess at 1. hsimpl. fold (get_sess (put_sess (rs_del h sid) sid (sess_room s None)) x).
    unfold get_sess, put_sess. hsimpl. rewrite aget_aset, rs_del_sessions.
    destruct (N.eqb_spec x sid); reflexivity.
  - set (s1 := upd_sess s None 0 (s_conn s) (s_perms s) (s_pending s) [] 0).
    set (h2 := put_sess (rs_del h sid) sid s1).
    destruct (release_mcu h2 sid) as [h3 outs2] eqn:Hrel. cbn [fst].
    assert (E23 : equiv h2 h3) by (replace h3 with (fst (release_mcu h2 sid)) by (now rewrite Hrel); apply equiv_release_mcu).
    rewrite (eq_sess _ _ (room_remove_equiv _ k sid) x).
    assert (Hx : get_sess (set_rooms h3 (rooms_after_remove h3 k sid)) x = get_sess h3 x) by reflexivity.
    rewrite Hx, (eq_sess _ _ E23 x). subst h2. rewrite Hput.
    destruct (N.eqb_spec x sid); reflexivity.
Qed.

(* ------------------------------------------------------------------ closing one session *)
Definition or_sid (xp : N -> Prop) (sid : N) : N -> Prop := fun p => xp p \/ p = sid.

Lemma detach_conn_get h oc c :
  aget (h_conns (detach_conn h oc)) c =
  match oc with
  | Some c0 => if N.eqb c c0 then option_map (fun cn => mkconn cn.(c_addr) None cn.(c_expect)) (aget (h_conns h) c0)
               else aget (h_conns h) c
  | None => aget (h_conns h) c
  end.
Proof.
  unfold detach_conn. destruct oc as [c0|]; [|reflexivity].
  destruct (aget (h_conns h) c0) as [cn|] eqn:Hc; hsimpl.
  - rewrite aget_aset. destruct (N.eqb_spec c c0); reflexivity.
  - destruct (N.eqb_spec c c0) as [->|]; [now rewrite Hc|reflexivity].
Qed.

Lemma drop_vt_get h kd sid k :
  pget (h_vtable (drop_vt h kd sid)) k =
  match kd with
  | KVirtual p v => if pair_eqb k (p, v) then
                      match pget (h_vtable h) (p, v) with
                      | Some x => if N.eqb x sid then None else Some x
                      | None => None end
                    else pget (h_vtable h) k
  | _ => pget (h_vtable h) k
  end.
Proof.
  unfold drop_vt. destruct kd as [| |p v]; try reflexivity.
  destruct (pget (h_vtable h) (p, v)) as [x|] eqn:Hv.
  - destruct (N.eqb_spec x sid); hsimpl.
    + rewrite pget_pdel. destruct (pair_eqb_spec k (p, v)); reflexivity.
    + destruct (pair_eqb_spec k (p, v)) as [->|]; [exact Hv|reflexivity].
  - destruct (pair_eqb_spec k (p, v)) as [->|]; [exact Hv|reflexivity].
Qed.

(* dropping a table entry / detaching a connection change only that table *)
Lemma drop_vt_other h kd sid :
  h_sessions (drop_vt h kd sid) = h_sessions h /\ h_rooms (drop_vt h kd sid) = h_rooms h /\
  h_rs1 (drop_vt h kd sid) = h_rs1 h /\ h_rs2 (drop_vt h kd sid) = h_rs2 h /\
  h_expired (drop_vt h kd sid) = h_expired h /\ h_anonymous (drop_vt h kd sid) = h_anonymous h /\
  h_dialout (drop_vt h kd sid) = h_dialout h /\ h_clients (drop_vt h kd sid) = h_clients h /\
  h_counted (drop_vt h kd sid) = h_counted h /\ h_conns (drop_vt h kd sid) = h_conns h.
Proof.
  unfold drop_vt. destruct kd as [| |p v]; try (repeat split; reflexivity).
  destruct (pget (h_vtable h) (p, v)) as [x|]; [destruct (N.eqb x sid)|]; repeat split; reflexivity.
Qed.
Lemma detach_conn_other h oc :
  h_sessions (detach_conn h oc) = h_sessions h /\ h_rooms (detach_conn h oc) = h_rooms h /\
  h_rs1 (detach_conn h oc) = h_rs1 h /\ h_rs2 (detach_conn h oc) = h_rs2 h /\
  h_expired (detach_conn h oc) = h_expired h /\ h_anonymous (detach_conn h oc) = h_anonymous h /\
  h_dialout (detach_conn h oc) = h_dialout h /\ h_clients (detach_conn h oc) = h_clients h /\
  h_counted (detach_conn h oc) = h_counted h /\ h_vtable (detach_conn h oc) = h_vtable h.
Proof.
  unfold detach_conn. destruct oc as [c0|]; [|repeat split; reflexivity].
  destruct (aget (h_conns h) c0); repeat split; reflexivity.
Qed.

Lemma drop_vt_limits h kd sid : h_limits (drop_vt h kd sid) = h_limits h.
Proof.
  unfold drop_vt. destruct kd as [| |p v]; try reflexivity.
  destruct (pget (h_vtable h) (p, v)) as [x|]; [destruct (N.eqb x sid)|]; reflexivity.
Qed.
Lemma detach_conn_limits h oc : h_limits (detach_conn h oc) = h_limits h.
Proof. unfold detach_conn. destruct oc as [c0|]; [|reflexivity]. destruct (aget (h_conns h) c0); reflexivity. Qed.

Lemma scrub_proj h sid :
  h_sessions (scrub h sid) = adel (h_sessions h) sid /\ h_rooms (scrub h sid) = h_rooms h /\
  h_rs1 (scrub h sid) = h_rs1 h /\ h_rs2 (scrub h sid) = h_rs2 h /\
  h_expired (scrub h sid) = nrem sid (h_expired h) /\ h_anonymous (scrub h sid) = nrem sid (h_anonymous h) /\
  h_dialout (scrub h sid) = nrem sid (h_dialout h) /\ h_clients (scrub h sid) = nrem sid (h_clients h) /\
  h_counted (scrub h sid) = map (fun e => (fst e, nrem sid (snd e))) (h_counted h) /\
  h_conns (scrub h sid) = h_conns h /\ h_vtable (scrub h sid) = h_vtable h.
Proof. repeat split; reflexivity. Qed.

(* removing a session that is in no room and in no room-session entry, together with every
   list entry, its connection's attachment and its table entry: the invariant survives,
   except that its virtual sessions (closed next) now have a dead parent *)
Lemma wf_remove xr xp H sid s :
  WFg xr xp H -> get_sess H sid = Some s -> s.(s_room) = None ->
  WFg xr (or_sid xp sid) (drop_vt (detach_conn (scrub H sid) s.(s_conn)) s.(s_kind) sid).
Proof.
  intros W Hs Hroom.
  set (F := drop_vt (detach_conn (scrub H sid) (s_conn s)) (s_kind s) sid).
  destruct (drop_vt_other (detach_conn (scrub H sid) (s_conn s)) (s_kind s) sid) as (D1 & D2 & D3 & D4 & D5 & D6 & D7 & D8 & D9 & D10).
  destruct (detach_conn_other (scrub H sid) (s_conn s)) as (E1 & E2 & E3 & E4 & E5 & E6 & E7 & E8 & E9 & E10).
  destruct (scrub_proj H sid) as (S1 & S2 & S3 & S4 & S5 & S6 & S7 & S8 & S9 & S10 & S11).
  assert (Hget : forall x, get_sess F x = if N.eqb x sid then None else get_sess H x).
  { intros x. unfold get_sess, F. rewrite D1, E1, S1. apply aget_adel. }
  assert (Hlive : forall x, x <> sid -> live H x -> live F x).
  { intros x Hne [sx Hx]. exists sx. rewrite Hget. destruct (N.eqb_spec x sid); [contradiction|assumption]. }
  assert (Hrooms : h_rooms F = h_rooms H) by (unfold F; rewrite D2, E2, S2; reflexivity).
  assert (Hnors : aget (h_rs1 H) sid = None).
  { destruct (aget (h_rs1 H) sid) as [x|] eqn:Hx; [|reflexivity].
    destruct (wf_rs1 _ _ H W sid x Hx) as [s0 [k [Hs0 Hk0]]]. rewrite Hs in Hs0. injection Hs0 as <-. congruence. }
  assert (Hnomem : forall k r, room_of H k = Some r -> ~ In sid (r_members r)).
  { intros k r Hr Hin. destruct (wf_members _ _ H W k r sid Hr Hin) as [s0 [Hs0 Hk0]]. rewrite Hs in Hs0. injection Hs0 as <-. congruence. }
  constructor.
  - intros k r m. unfold room_of. rewrite Hrooms. intros Hr Hm.
    destruct (wf_members _ _ H W k r m Hr Hm) as [sm [Hsm Hkm]]. exists sm. rewrite Hget.
    destruct (N.eqb_spec m sid) as [->|]; [exfalso; eapply Hnomem; eauto|auto].
  - intros k r. unfold room_of. rewrite Hrooms. apply (wf_nonempty _ _ H W).
  - intros k r m. unfold room_of. rewrite Hrooms. apply (wf_incall _ _ H W).
  - intros x sx k. rewrite Hget. destruct (N.eqb_spec x sid); [discriminate|]. intros Hx Hk.
    unfold room_of. rewrite Hrooms. apply (wf_room _ _ H W x sx k Hx Hk).
  - intros x v. unfold F. rewrite D3, E3, S3. intros Hx.
    destruct (wf_rs1 _ _ H W x v Hx) as [sx [k [Hsx Hkx]]]. exists sx, k. rewrite Hget.
    destruct (N.eqb_spec x sid) as [->|]; [congruence|auto].
  - intros x y. unfold F. rewrite D3, D4, E3, E4, S3, S4. apply (wf_rs2 _ _ H W).
  - intros p v vs. unfold F. rewrite drop_vt_get. rewrite E10, S11. intros Hv.
    assert (Hv0 : pget (h_vtable H) (p, v) = Some vs /\ vs <> sid).
    { destruct (s_kind s) as [| |p0 v0] eqn:Hkd.
      - split; [assumption|]. intros ->. destruct (wf_vt _ _ H W p v sid Hv) as [s0 [Hs0 Hk0]]. rewrite Hs in Hs0. injection Hs0 as <-. congruence.
      - split; [assumption|]. intros ->. destruct (wf_vt _ _ H W p v sid Hv) as [s0 [Hs0 Hk0]]. rewrite Hs in Hs0. injection Hs0 as <-. congruence.
      - destruct (pair_eqb_spec (p, v) (p0, v0)) as [Heq|Hne].
        + injection Heq as -> ->. destruct (pget (h_vtable H) (p0, v0)) as [x|] eqn:Hx; [|discriminate].
          destruct (N.eqb_spec x sid); [discriminate|]. injection Hv as <-. auto.
        + split; [assumption|]. intros ->. destruct (wf_vt _ _ H W p v sid Hv) as [s0 [Hs0 Hk0]].
          rewrite Hs in Hs0. injection Hs0 as <-. rewrite Hkd in Hk0. injection Hk0 as -> ->. now apply Hne. }
    destruct Hv0 as [Hv0 Hne]. destruct (wf_vt _ _ H W p v vs Hv0) as [sv [Hsv Hkv]]. exists sv. rewrite Hget.
    destruct (N.eqb_spec vs sid); [contradiction|auto].
  - intros vs sv p v. rewrite Hget. destruct (N.eqb_spec vs sid); [discriminate|]. intros Hsv Hkv.
    destruct (wf_parent _ _ H W vs sv p v Hsv Hkv) as [Hx|[ps [Hps Hpi]]]; [left; now left|].
    destruct (N.eq_dec p sid) as [->|Hne]; [left; now right|right]. exists ps. rewrite Hget.
    destruct (N.eqb_spec p sid); [contradiction|auto].
  - intros x. unfold F. rewrite D5, E5, S5. intros Hx.
    apply Hlive; [eapply in_nrem_ne; eauto|]. apply (wf_expired _ _ H W). eapply in_nrem; eauto.
  - intros x. unfold F. rewrite D6, E6, S6. intros Hx.
    apply Hlive; [eapply in_nrem_ne; eauto|]. apply (wf_anonymous _ _ H W). eapply in_nrem; eauto.
  - intros x. unfold F. rewrite D7, E7, S7. intros Hx.
    apply Hlive; [eapply in_nrem_ne; eauto|]. apply (wf_dialout _ _ H W). eapply in_nrem; eauto.
  - intros x. unfold F. rewrite D8, E8, S8. intros Hx.
    apply Hlive; [eapply in_nrem_ne; eauto|]. apply (wf_clients _ _ H W). eapply in_nrem; eauto.
  - intros b l x. unfold F. rewrite D9, E9, S9. intros Hb Hx.
    assert (Hb0 : exists l0, aget (h_counted H) b = Some l0 /\ l = nrem sid l0).
    { clear - Hb. induction (h_counted H) as [|[b0 l0] r IH]; cbn in *; [discriminate|].
      destruct (N.eqb b b0); [injection Hb as <-; eauto|auto]. }
    destruct Hb0 as [l0 [Hb0 ->]]. apply Hlive; [eapply in_nrem_ne; eauto|].
    apply (wf_counted _ _ H W b l0). assumption. eapply in_nrem; eauto.
  - intros c cn x. unfold F. rewrite D10, detach_conn_get, S10. intros Hc Hx.
    assert (Hc0 : aget (h_conns H) c = Some cn /\ s_conn s <> Some c).
    { destruct (s_conn s) as [c0|] eqn:Hc0.
      - destruct (N.eqb_spec c c0) as [->|Hne].
        + destruct (aget (h_conns H) c0); [|discriminate]. cbn in Hc. injection Hc as <-. cbn in Hx. discriminate.
        + split; [assumption|congruence].
      - split; [assumption|discriminate]. }
    destruct Hc0 as [Hc0 Hnc]. destruct (wf_conns _ _ H W c cn x Hc0 Hx) as [sx [Hsx Hcx]]. exists sx. rewrite Hget.
    destruct (N.eqb_spec x sid) as [->|]; [|auto]. rewrite Hs in Hsx. injection Hsx as <-. contradiction.
  - intros b l Hb.
    assert (Hlim : limit_of F b = limit_of H b).
    { unfold limit_of, F. rewrite drop_vt_limits, detach_conn_limits. reflexivity. }
    rewrite Hlim. unfold F in Hb. rewrite D9, E9, S9 in Hb.
    assert (Hb0 : exists l0, aget (h_counted H) b = Some l0 /\ l = nrem sid l0).
    { clear - Hb. induction (h_counted H) as [|[b0 l0] r IH]; cbn in *; [discriminate|].
      destruct (N.eqb b b0); [injection Hb as <-; eauto|auto]. }
    destruct Hb0 as [l0 [Hb0 ->]]. pose proof (wf_limit _ _ H W b l0 Hb0) as Hl.
    assert (Hlen : (length (nrem sid l0) <= length l0)%nat).
    { clear. induction l0 as [|y r IH]; cbn; [lia|]. destruct (N.eqb sid y); cbn; lia. }
    lia.
Qed.

Lemma fst_eq {A B} (p : A * B) a b : p = (a, b) -> a = fst p.
Proof. intros ->. reflexivity. Qed.

Lemma wf_close_one xr xp h sid : WFg xr xp h -> WFg xr (or_sid xp sid) (fst (close_one h sid)).
Proof.
  intros W. unfold close_one. destruct (get_sess h sid) as [s|] eqn:Hs.
  2:{ cbn [fst]. eapply wf_weaken; [| |exact W]; auto. intros p Hp. now left. }
  destruct (leave_room h sid true) as [h1 o1] eqn:Hl.
  destruct (release_mcu h1 sid) as [h2a o2a] eqn:Hr.
  set (h2 := set_mcu h2a (h_mcutok h2a) (filter (fun e => negb (N.eqb (mp_owner (snd e)) sid)) (h_mcupending h2a)) (h_mcuopen h2a)).
  pose proof (fst_eq _ _ _ Hl) as E1. pose proof (fst_eq _ _ _ Hr) as E2a.
  assert (E12 : equiv h1 h2).
  { eapply equiv_trans; [|apply equiv_mcu]. rewrite E2a. apply equiv_release_mcu. }
  assert (W2 : WFg xr xp h2).
  { eapply wf_equiv; [exact E12|]. rewrite E1. apply wf_leave_room. exact W. }
  assert (Hc2 : exists s2, get_sess h2 sid = Some s2 /\ s_room s2 = None /\ s_kind s2 = s_kind s /\ s_conn s2 = s_conn s).
  { pose proof (eq_sess _ _ E12 sid) as Hq. rewrite E1, leave_room_core, N.eqb_refl, Hs in Hq.
    destruct (get_sess h2 sid) as [s2|]; [|destruct (s_room s); discriminate].
    exists s2. split; [reflexivity|]. cbn in Hq.
    unfold core, unroomed in Hq. destruct (s_room s) eqn:Hrm; inversion Hq; repeat split; congruence. }
  destruct Hc2 as [s2 [Hs2 [Hr2 [Hk2 Hcn2]]]].
  assert (Hfin : WFg xr (or_sid xp sid) (drop_vt (detach_conn (scrub h2 sid) (s_conn s)) (s_kind s) sid)).
  { rewrite <- Hk2, <- Hcn2. apply wf_remove; assumption. }
  destruct (s_kind s); cbn [fst]; exact Hfin.
Qed.

(* ------------------------------------------------------------------ closing a session with its virtual sessions *)
Lemma close_one_core h x y : y <> x ->
  option_map core (get_sess (fst (close_one h x)) y) = option_map core (get_sess h y).
Proof.
  intros Hne. unfold close_one. destruct (get_sess h x) as [s|] eqn:Hs; [|reflexivity].
  destruct (leave_room h x true) as [h1 o1] eqn:Hl.
  destruct (release_mcu h1 x) as [h2a o2a] eqn:Hr.
  set (h2 := set_mcu h2a (h_mcutok h2a) (filter (fun e => negb (N.eqb (mp_owner (snd e)) x)) (h_mcupending h2a)) (h_mcuopen h2a)).
  pose proof (fst_eq _ _ _ Hl) as E1. pose proof (fst_eq _ _ _ Hr) as E2a.
  assert (E12 : equiv h1 h2).
  { eapply equiv_trans; [|apply equiv_mcu]. rewrite E2a. apply equiv_release_mcu. }
  assert (Hfin : option_map core (get_sess (drop_vt (detach_conn (scrub h2 x) (s_conn s)) (s_kind s) x) y) = option_map core (get_sess h y)).
  { destruct (drop_vt_other (detach_conn (scrub h2 x) (s_conn s)) (s_kind s) x) as (D1 & _).
    destruct (detach_conn_other (scrub h2 x) (s_conn s)) as (F1 & _).
    destruct (scrub_proj h2 x) as (S1 & _).
    unfold get_sess at 1. rewrite D1, F1, S1, aget_adel. destruct (N.eqb_spec y x); [contradiction|].
    fold (get_sess h2 y). rewrite (eq_sess _ _ E12 y), E1, leave_room_core.
    destruct (N.eqb_spec y x); [contradiction|reflexivity]. }
  destruct (s_kind s); cbn [fst]; exact Hfin.
Qed.

Lemma close_one_gone h x : get_sess (fst (close_one h x)) x = None.
Proof.
  unfold close_one. destruct (get_sess h x) as [s|] eqn:Hs; [|exact Hs].
  destruct (leave_room h x true) as [h1 o1]. destruct (release_mcu h1 x) as [h2a o2a].
  match goal with |- context [drop_vt (detach_conn (scrub ?hh x) ?c) ?k x] => set (h2 := hh) end.
  assert (Hfin : get_sess (drop_vt (detach_conn (scrub h2 x) (s_conn s)) (s_kind s) x) x = None).
  { destruct (drop_vt_other (detach_conn (scrub h2 x) (s_conn s)) (s_kind s) x) as (D1 & _).
    destruct (detach_conn_other (scrub h2 x) (s_conn s)) as (F1 & _).
    destruct (scrub_proj h2 x) as (S1 & _).
    unfold get_sess. rewrite D1, F1, S1. apply aget_adel_same. }
  destruct (s_kind s); cbn [fst]; exact Hfin.
Qed.

(* an exception for a parent that no remaining session names can be dropped *)
Lemma wf_drop_exception xr xp h x :
  WFg xr (or_sid xp x) h ->
  (forall vs s v, get_sess h vs = Some s -> s.(s_kind) <> KVirtual x v) ->
  WFg xr xp h.
Proof.
  intros W Hno. constructor; try apply W.
  intros vs s p v Hs Hk. destruct (wf_parent _ _ h W vs s p v Hs Hk) as [[Hx|Hx]|Hl]; auto.
  subst p. exfalso. eapply Hno; eauto.
Qed.

Lemma in_children h sid vs : In vs (children h sid) <->
  In vs (map fst (h_sessions h)) /\ exists s v, get_sess h vs = Some s /\ s.(s_kind) = KVirtual sid v.
Proof.
  unfold children. rewrite in_map_iff. split.
  - intros [[vs' s] [Hf Hin]]. cbn in Hf. subst vs'. apply filter_In in Hin as [Hin Hk]. cbn [fst] in Hk.
    split; [apply in_map_iff; exists (vs, s); auto|].
    destruct (get_sess h vs) as [s0|]; [|discriminate]. destruct (s_kind s0) as [| |p v] eqn:Hkd; try discriminate.
    apply N.eqb_eq in Hk. subst p. eauto.
  - intros [Hin [s [v [Hs Hk]]]]. apply in_map_iff in Hin as [[vs' s'] [Hf Hin]]. cbn in Hf. subst vs'.
    exists (vs, s'). split; [reflexivity|]. apply filter_In. split; [assumption|]. cbn [fst]. rewrite Hs, Hk. apply N.eqb_refl.
Qed.

Lemma aget_In {V} (l : alist V) k v : aget l k = Some v -> In (k, v) l.
Proof.
  induction l as [|[k' v'] r IH]; cbn; [discriminate|].
  destruct (N.eqb_spec k k') as [->|]; [intros H; injection H as ->; now left|right; auto].
Qed.

Definition close_all (kids : list N) (acc : hub * list out) : hub * list out :=
  fold_left (fun acc k => let '(hh, oo) := acc in let '(hh', oo') := close_one hh k in (hh', oo ++ oo')) kids acc.

Lemma close_one_dead h x : get_sess h x = None -> close_one h x = (h, []).
Proof. intros H. unfold close_one. now rewrite H. Qed.

(* closing the virtual sessions of a parent that is already gone *)
Lemma wf_close_all xr sid kids : forall hh o,
  WFg xr (or_sid none1 sid) hh -> get_sess hh sid = None ->
  (forall k s, In k kids -> get_sess hh k = Some s -> is_virtual s.(s_kind) = true) ->
  let F := fst (close_all kids (hh, o)) in
  WFg xr (or_sid none1 sid) F /\ get_sess F sid = None /\
  (forall y, ~ In y kids -> option_map core (get_sess F y) = option_map core (get_sess hh y)) /\
  (forall y, In y kids -> get_sess F y = None).
Proof.
  induction kids as [|k kids IH]; intros hh o W Hsid Hv; cbn [close_all fold_left fst].
  - split; [exact W|]. split; [exact Hsid|]. split; [reflexivity|]. intros y [].
  - destruct (close_one hh k) as [h1 o1] eqn:Hc. pose proof (fst_eq _ _ _ Hc) as E1.
    fold (close_all kids (h1, o ++ o1)).
    assert (Hcore1 : forall y, y <> k -> option_map core (get_sess h1 y) = option_map core (get_sess hh y)).
    { intros y Hy. rewrite E1. now apply close_one_core. }
    assert (Hgone1 : get_sess h1 k = None) by (rewrite E1; apply close_one_gone).
    assert (Hsid1 : get_sess h1 sid = None).
    { destruct (N.eq_dec sid k) as [->|Hne]; [assumption|]. specialize (Hcore1 sid Hne). rewrite Hsid in Hcore1.
      destruct (get_sess h1 sid); [discriminate|reflexivity]. }
    assert (W1 : WFg xr (or_sid none1 sid) h1).
    { destruct (get_sess hh k) as [sk|] eqn:Hk.
      2:{ rewrite (close_one_dead hh k Hk) in Hc. injection Hc as <- <-. exact W. }
      apply (wf_drop_exception xr (or_sid none1 sid) h1 k).
      - rewrite E1. apply wf_close_one. exact W.
      - intros vs s v Hs Hkd.
        assert (Hne : vs <> k) by (intros ->; rewrite Hgone1 in Hs; discriminate).
        pose proof (Hcore1 vs Hne) as Hq. rewrite Hs in Hq. cbn in Hq.
        destruct (get_sess hh vs) as [s0|] eqn:Hs0; [|discriminate]. cbn in Hq. apply core_some_eq in Hq as (_ & Hq & _).
        assert (Hk0 : s_kind s0 = KVirtual k v) by congruence.
        destruct (wf_parent _ _ hh W vs s0 k v Hs0 Hk0) as [[[]|Hx]|[ps [Hps Hpi]]].
        + subst k. rewrite Hsid in Hk. discriminate.
        + rewrite Hk in Hps. injection Hps as <-.
          pose proof (Hv k sk (or_introl eq_refl) Hk) as Hvk. destruct (s_kind sk); discriminate. }
    assert (Hv1 : forall k' s, In k' kids -> get_sess h1 k' = Some s -> is_virtual (s_kind s) = true).
    { intros k' s Hin Hs. destruct (N.eq_dec k' k) as [->|Hne]; [rewrite Hgone1 in Hs; discriminate|].
      pose proof (Hcore1 k' Hne) as Hq. rewrite Hs in Hq. cbn in Hq.
      destruct (get_sess hh k') as [s0|] eqn:Hs0; [|discriminate]. cbn in Hq. apply core_some_eq in Hq as (_ & Hq & _).
      rewrite Hq. eapply Hv; eauto. now right. }
    destruct (IH h1 (o ++ o1) W1 Hsid1 Hv1) as (WF' & HsidF & HcoreF & HgoneF).
    split; [exact WF'|]. split; [exact HsidF|]. split.
    + intros y Hy. rewrite HcoreF by (intros Hin; apply Hy; now right). apply Hcore1. intros ->. apply Hy. now left.
    + intros y [<-|Hin]; [|auto].
      destruct (in_dec N.eq_dec k kids) as [Hin|Hnin]; [auto|].
      pose proof (HcoreF k Hnin) as Hq. rewrite Hgone1 in Hq. cbn in Hq.
      destruct (get_sess (fst (close_all kids (h1, o ++ o1))) k); [discriminate Hq|reflexivity].
Qed.

Lemma wf_close_session xr h sid : WFg xr none1 h -> WFg xr none1 (fst (close_session h sid)).
Proof.
  intros W. unfold close_session.
  destruct (close_one h sid) as [h1 o1] eqn:Hc. pose proof (fst_eq _ _ _ Hc) as E1.
  fold (close_all (children h sid) (h1, o1)).
  assert (W1 : WFg xr (or_sid none1 sid) h1) by (rewrite E1; apply wf_close_one; exact W).
  assert (Hsid1 : get_sess h1 sid = None) by (rewrite E1; apply close_one_gone).
  assert (Hcore1 : forall y, y <> sid -> option_map core (get_sess h1 y) = option_map core (get_sess h y)).
  { intros y Hy. rewrite E1. now apply close_one_core. }
  assert (Hv1 : forall k s, In k (children h sid) -> get_sess h1 k = Some s -> is_virtual (s_kind s) = true).
  { intros k s Hin Hs. destruct (N.eq_dec k sid) as [->|Hne]; [rewrite Hsid1 in Hs; discriminate|].
    pose proof (Hcore1 k Hne) as Hq. rewrite Hs in Hq. cbn in Hq.
    destruct (get_sess h k) as [s0|] eqn:Hs0; [|discriminate]. cbn in Hq. apply core_some_eq in Hq as (_ & Hq & _).
    apply in_children in Hin as [_ [sk [v [Hsk Hkk]]]]. rewrite Hs0 in Hsk. injection Hsk as <-. rewrite Hq, Hkk. reflexivity. }
  destruct (wf_close_all xr sid (children h sid) h1 o1 W1 Hsid1 Hv1) as (WF' & HsidF & HcoreF & HgoneF).
  apply (wf_drop_exception xr none1 _ sid); [exact WF'|].
  intros vs s v Hs Hkd.
  (* a remaining session naming sid as parent was one of the children, and those are gone *)
  destruct (in_dec N.eq_dec vs (children h sid)) as [Hin|Hnin].
  - rewrite (HgoneF vs Hin) in Hs. discriminate.
  - pose proof (HcoreF vs Hnin) as Hq. rewrite Hs in Hq. cbn in Hq.
    destruct (get_sess h1 vs) as [s1|] eqn:Hs1; [|discriminate]. cbn in Hq. apply core_some_eq in Hq as (_ & Hq & _).
    assert (Hne : vs <> sid) by (intros ->; rewrite Hsid1 in Hs1; discriminate).
    pose proof (Hcore1 vs Hne) as Hq1. rewrite Hs1 in Hq1. cbn in Hq1.
    destruct (get_sess h vs) as [s0|] eqn:Hs0; [|discriminate]. cbn in Hq1. apply core_some_eq in Hq1 as (_ & Hq1 & _).
    apply Hnin. apply in_children. split.
    + unfold get_sess in Hs0. apply aget_In in Hs0. apply in_map_iff. exists (vs, s0). auto.
    + exists s0, v. split; [exact Hs0|congruence].
Qed.

(* ------------------------------------------------------------------ connections *)
(* detaching a session from its connection when no connection entry names the session any more *)
Lemma wf_sess_conn_none xr xp h sid s :
  WFg xr xp h -> get_sess h sid = Some s ->
  (forall c cn, aget (h_conns h) c = Some cn -> c_sess cn <> Some sid) ->
  WFg xr xp (put_sess h sid (sess_conn s None)).
Proof.
  intros W Hs Hno.
  assert (Hget : forall x, get_sess (put_sess h sid (sess_conn s None)) x = if N.eqb x sid then Some (sess_conn s None) else get_sess h x).
  { intros x. unfold get_sess, put_sess. hsimpl. apply aget_aset. }
  assert (Hlive : forall x, live h x -> live (put_sess h sid (sess_conn s None)) x).
  { intros x [sx Hx]. unfold live. rewrite Hget. destruct (N.eqb_spec x sid); eauto. }
  constructor.
  - intros k r m Hr Hm. destruct (wf_members _ _ h W k r m Hr Hm) as [sm [Hsm Hkm]]. rewrite Hget.
    destruct (N.eqb_spec m sid) as [->|]; [|eauto]. rewrite Hs in Hsm. injection Hsm as <-. eexists; split; [reflexivity|exact Hkm].
  - apply (wf_nonempty _ _ h W).
  - apply (wf_incall _ _ h W).
  - intros x sx k. rewrite Hget. destruct (N.eqb_spec x sid) as [->|].
    + intros H. injection H as <-. intros Hk. apply (wf_room _ _ h W sid s k Hs Hk).
    + apply (wf_room _ _ h W).
  - intros x v Hx. destruct (wf_rs1 _ _ h W x v Hx) as [sx [k [Hsx Hkx]]]. rewrite Hget.
    destruct (N.eqb_spec x sid) as [->|]; [|eauto]. rewrite Hs in Hsx. injection Hsx as <-. eexists _, k; split; [reflexivity|exact Hkx].
  - apply (wf_rs2 _ _ h W).
  - intros p v vs Hv. destruct (wf_vt _ _ h W p v vs Hv) as [sv [Hsv Hkv]]. rewrite Hget.
    destruct (N.eqb_spec vs sid) as [->|]; [|eauto]. rewrite Hs in Hsv. injection Hsv as <-. eexists; split; [reflexivity|exact Hkv].
  - intros vs sv p v. rewrite Hget. intros Hsv Hkv.
    assert (Hp : xp p \/ exists ps, get_sess h p = Some ps /\ is_internal (s_kind ps) = true).
    { destruct (N.eqb_spec vs sid) as [->|]; [injection Hsv as <-; apply (wf_parent _ _ h W sid s p v Hs Hkv)|apply (wf_parent _ _ h W vs sv p v Hsv Hkv)]. }
    destruct Hp as [?|[ps [Hps Hpi]]]; [now left|right]. rewrite Hget.
    destruct (N.eqb_spec p sid) as [->|]; [|eauto]. rewrite Hs in Hps. injection Hps as <-. eexists; split; [reflexivity|exact Hpi].
  - intros x Hx. apply Hlive. eapply wf_expired; eauto.
  - intros x Hx. apply Hlive. eapply wf_anonymous; eauto.
  - intros x Hx. apply Hlive. eapply wf_dialout; eauto.
  - intros x Hx. apply Hlive. eapply wf_clients; eauto.
  - intros b l x Hb Hx. apply Hlive. eapply wf_counted; eauto.
  - intros c cn x Hc Hx. destruct (wf_conns _ _ h W c cn x Hc Hx) as [sx [Hsx Hcx]]. rewrite Hget.
    destruct (N.eqb_spec x sid) as [->|]; [|eauto]. exfalso. eapply Hno; eauto.
  - apply (wf_limit _ _ h W).
Qed.

Lemma wf_del_conn xr xp h c : WFg xr xp h -> WFg xr xp (set_conns h (adel (h_conns h) c)).
Proof.
  intros W. constructor; try apply W.
  intros c' cn x. hsimpl. rewrite aget_adel. destruct (N.eqb_spec c' c); [discriminate|]. apply (wf_conns _ _ h W).
Qed.

(* updating a connection entry without (re)attaching a session *)
Lemma wf_set_conn_nosess xr xp h c cn : WFg xr xp h -> c_sess cn = None -> WFg xr xp (set_conns h (aset (h_conns h) c cn)).
Proof.
  intros W Hn. constructor; try apply W.
  intros c' cn' x. hsimpl. rewrite aget_aset. destruct (N.eqb_spec c' c) as [->|]; [|apply (wf_conns _ _ h W)].
  intros H. injection H as <-. congruence.
Qed.

Lemma wf_close_conn xr h c : WFg xr none1 h -> WFg xr none1 (fst (close_conn h c)).
Proof.
  intros W. unfold close_conn. destruct (aget (h_conns h) c) as [cn|] eqn:Hc; [|exact W].
  pose proof (wf_del_conn _ _ h c W) as W1.
  destruct (c_sess cn) as [sid|] eqn:Hcs; [|exact W1].
  destruct (close_session _ sid) as [h3 outs] eqn:Hcl. cbn [fst].
  rewrite (fst_eq _ _ _ Hcl). apply wf_close_session.
  destruct (get_sess (set_conns h (adel (h_conns h) c)) sid) as [s|] eqn:Hs; [|exact W1].
  apply wf_sess_conn_none; [exact W1|exact Hs|].
  intros c' cn'. hsimpl. rewrite aget_adel. destruct (N.eqb_spec c' c) as [->|Hne]; [discriminate|].
  intros Hc' Hx.
  (* two connection entries naming the same session: the session names only one connection *)
  destruct (wf_conns _ _ h W c cn sid Hc Hcs) as [s1 [Hs1 Hc1]].
  destruct (wf_conns _ _ h W c' cn' sid Hc' Hx) as [s2 [Hs2 Hc2]]. rewrite Hs1 in Hs2. injection Hs2 as <-. congruence.
Qed.

Lemma wf_send_session xr h sid m : WFg xr none1 h -> WFg xr none1 (fst (send_session h sid m)).
Proof.
  intros W. unfold send_session.
  match goal with |- context [deliver_to_session h ?t m] => set (target := t) end.
  destruct (deliver_to_session h target m) as [h1 outs] eqn:Hd. pose proof (fst_eq _ _ _ Hd) as E1.
  assert (W1 : WFg xr none1 h1) by (rewrite E1; eapply wf_equiv; [apply equiv_deliver_to_session|exact W]).
  destruct outs as [|[c mm| | |] [|o2 outs2]]; cbn [fst]; try exact W1.
  destruct (is_closing h1 c mm); [|exact W1].
  destruct (close_conn h1 c) as [h2 outs2] eqn:Hc. cbn [fst]. rewrite (fst_eq _ _ _ Hc). now apply wf_close_conn.
Qed.

Lemma wf_send_conn xr h c m : WFg xr none1 h -> WFg xr none1 (fst (send_conn h c m)).
Proof.
  intros W. unfold send_conn. destruct (aget (h_conns h) c); [|exact W].
  destruct (is_closing h c m); [|exact W].
  destruct (close_conn h c) as [h2 outs2] eqn:Hc. cbn [fst]. rewrite (fst_eq _ _ _ Hc). now apply wf_close_conn.
Qed.

Lemma wf_fold_sessions (P : hub -> Prop) h l f :
  P h -> (forall hh x, P hh -> P (fst (f hh x))) -> P (fst (fold_sessions h l f)).
Proof.
  intros Hh Hf. unfold fold_sessions.
  assert (forall acc, P (fst acc) -> P (fst (fold_left (fun acc x => let '(hh, oo) := acc in let '(hh', oo') := f hh x in (hh', oo ++ oo')) l acc))).
  { induction l as [|x l IH]; intros [hh oo] Hacc; cbn [fold_left]; [exact Hacc|].
    apply IH. destruct (f hh x) as [hh' oo'] eqn:Hfx. cbn [fst] in *. rewrite (fst_eq _ _ _ Hfx). now apply Hf. }
  now apply H.
Qed.

(* ------------------------------------------------------------------ new sessions *)
Lemma max_key_ge {V} (l : alist V) : forall acc k v, In (k, v) l -> k <= fold_left (fun a e => N.max a (fst e)) l acc.
Proof.
  induction l as [|[k0 v0] r IH]; intros acc k v; cbn; [intros []|].
  intros [H|H].
  - injection H as -> ->. clear IH. revert acc. induction r as [|[k1 v1] r IH]; intros acc; cbn; [lia|].
    etransitivity; [apply (IH acc)|]. clear. revert acc.
    assert (forall a b, a <= b -> fold_left (fun a0 e => N.max a0 (fst e)) r a <= fold_left (fun a0 e => N.max a0 (fst e)) r b).
    { induction r as [|[k2 v2] r IH]; intros a b Hab; cbn; [assumption|]. apply IH. lia. }
    intros acc. apply H. lia.
  - now apply IH with v.
Qed.

Lemma next_id_fresh h : get_sess h (next_id h) = None.
Proof.
  destruct (get_sess h (next_id h)) as [s|] eqn:Hs; [|reflexivity].
  unfold get_sess in Hs. apply aget_In in Hs. pose proof (max_key_ge (h_sessions h) 0 _ _ Hs) as Hle.
  unfold next_id, max_key in *. lia.
Qed.

Lemma wf_new_session xr xp h sid s :
  WFg xr xp h -> get_sess h sid = None -> s_room s = None ->
  (forall p v, s_kind s = KVirtual p v -> xp p \/ exists ps, get_sess h p = Some ps /\ is_internal (s_kind ps) = true) ->
  WFg xr xp (put_sess h sid s).
Proof.
  intros W Hn Hroom Hpar.
  assert (Hget : forall x, get_sess (put_sess h sid s) x = if N.eqb x sid then Some s else get_sess h x).
  { intros x. unfold get_sess, put_sess. hsimpl. apply aget_aset. }
  assert (Hold : forall x sx, get_sess h x = Some sx -> get_sess (put_sess h sid s) x = Some sx).
  { intros x sx Hx. rewrite Hget. destruct (N.eqb_spec x sid) as [->|]; [congruence|assumption]. }
  assert (Hlive : forall x, live h x -> live (put_sess h sid s) x).
  { intros x [sx Hx]. exists sx. now apply Hold. }
  constructor.
  - intros k r m Hr Hm. destruct (wf_members _ _ h W k r m Hr Hm) as [sm [Hsm Hkm]]. eauto.
  - apply (wf_nonempty _ _ h W).
  - apply (wf_incall _ _ h W).
  - intros x sx k. rewrite Hget. destruct (N.eqb_spec x sid) as [->|]; [intros H; injection H as <-; congruence|apply (wf_room _ _ h W)].
  - intros x v Hx. destruct (wf_rs1 _ _ h W x v Hx) as [sx [k [Hsx Hkx]]]. eauto.
  - apply (wf_rs2 _ _ h W).
  - intros p v vs Hv. destruct (wf_vt _ _ h W p v vs Hv) as [sv [Hsv Hkv]]. eauto.
  - intros vs sv p v. rewrite Hget. destruct (N.eqb_spec vs sid) as [->|].
    + intros H. injection H as <-. intros Hk. destruct (Hpar p v Hk) as [?|[ps [Hps Hpi]]]; [now left|right; eauto].
    + intros Hsv Hkv. destruct (wf_parent _ _ h W vs sv p v Hsv Hkv) as [?|[ps [Hps Hpi]]]; [now left|right; eauto].
  - intros x Hx. apply Hlive. eapply wf_expired; eauto.
  - intros x Hx. apply Hlive. eapply wf_anonymous; eauto.
  - intros x Hx. apply Hlive. eapply wf_dialout; eauto.
  - intros x Hx. apply Hlive. eapply wf_clients; eauto.
  - intros b l x Hb Hx. apply Hlive. eapply wf_counted; eauto.
  - intros c cn x Hc Hx. destruct (wf_conns _ _ h W c cn x Hc Hx) as [sx [Hsx Hcx]]. eauto.
  - apply (wf_limit _ _ h W).
Qed.

Lemma live_put_same h sid s : live (put_sess h sid s) sid.
Proof. exists s. unfold get_sess, put_sess. hsimpl. apply aget_aset_same. Qed.

Lemma wf_set_counted xr xp h v : WFg xr xp h ->
  (forall b l x, aget v b = Some l -> In x l -> live h x) ->
  (forall b l, aget v b = Some l -> N.of_nat (length l) <= limit_of h b) -> WFg xr xp (set_counted h v).
Proof. intros W Hv Hl. constructor; try apply W; [exact Hv|exact Hl]. Qed.

(* attaching a connection to a session that names it *)
Lemma wf_attach_conn xr xp h c cn sid s :
  WFg xr xp h -> get_sess h sid = Some s -> s_conn s = Some c -> c_sess cn = Some sid ->
  WFg xr xp (set_conns h (aset (h_conns h) c cn)).
Proof.
  intros W Hs Hc Hcs. constructor; try apply W.
  intros c' cn' x. hsimpl. rewrite aget_aset. destruct (N.eqb_spec c' c) as [->|]; [|apply (wf_conns _ _ h W)].
  intros H. injection H as <-. rewrite Hcs. intros Hx. injection Hx as <-. eauto.
Qed.

Lemma wf_register xr xp h c cn b k u :
  WFg xr xp h -> is_virtual k = false -> WFg xr xp (fst (register h c cn b k u)).
Proof.
  intros W Hk. unfold register.
  set (sid := next_id h).
  assert (Hfresh : get_sess (set_nextsid h sid) sid = None) by (exact (next_id_fresh h)).
  assert (W0 : WFg xr xp (set_nextsid h sid)) by (eapply wf_equiv; [apply equiv_nextsid|exact W]).
  match goal with |- context [if ?cond then _ else _] => destruct cond eqn:Hcond end.
  - cbn [fst]. now apply wf_set_conn_nosess.
  - cbn [fst].
    set (h1 := if negb (is_internal k) && negb (N.eqb (limit_of h b) 0)
               then set_counted (set_nextsid h sid) (aset (h_counted (set_nextsid h sid)) b (counted_of (set_nextsid h sid) b ++ [sid]))
               else set_nextsid h sid).
    set (h2 := put_sess h1 sid (new_session b k u c)).
    assert (Hs2 : get_sess h2 sid = Some (new_session b k u c)).
    { unfold h2, get_sess, put_sess. hsimpl. apply aget_aset_same. }
    assert (W2 : WFg xr xp h2).
    { (* the counted list may name the new session: add the session first, then the entry *)
      assert (Wp : WFg xr xp (put_sess (set_nextsid h sid) sid (new_session b k u c))).
      { apply wf_new_session; auto. intros p v Hkv. unfold new_session in Hkv. cbn in Hkv. subst k. discriminate. }
      unfold h2, h1. destruct (negb (is_internal k) && negb (N.eqb (limit_of h b) 0)) eqn:Hlimd; [|exact Wp].
      assert (E : put_sess (set_counted (set_nextsid h sid) (aset (h_counted (set_nextsid h sid)) b (counted_of (set_nextsid h sid) b ++ [sid]))) sid (new_session b k u c)
                  = set_counted (put_sess (set_nextsid h sid) sid (new_session b k u c)) (aset (h_counted h) b (counted_of h b ++ [sid]))) by reflexivity.
      rewrite E. apply wf_set_counted; [exact Wp| |].
      2:{ intros b' l. rewrite aget_aset. assert (Hlo : forall bb, limit_of (put_sess (set_nextsid h sid) sid (new_session b k u c)) bb = limit_of h bb) by reflexivity.
          rewrite Hlo. destruct (N.eqb_spec b' b) as [->|]; [|apply (wf_limit _ _ h W)].
          intros H. injection H as <-. rewrite app_length. cbn [length].
          apply andb_prop in Hlimd as [_ Hl0]. apply negb_true_iff in Hl0. apply N.eqb_neq in Hl0.
          cbn [andb] in Hcond. unfold counted_of in *.
          destruct (aget (h_counted h) b) as [l0|] eqn:Hb0; [|cbn; lia].
          pose proof (wf_limit _ _ h W b l0 Hb0) as Hle.
          destruct l0 as [|y l0]; [cbn; lia|]. cbn [negb andb] in Hcond. apply N.leb_gt in Hcond. cbn [length] in *. lia. }
      intros b' l x. rewrite aget_aset. destruct (N.eqb_spec b' b) as [->|].
      - intros H. injection H as <-. intros Hin. apply in_app_or in Hin as [Hin|[<-|[]]]; [|apply live_put_same].
        assert (Hl : live (set_nextsid h sid) x).
        { unfold counted_of in Hin. destruct (aget (h_counted h) b) as [l0|] eqn:Hb; [|destruct Hin]. apply (wf_counted _ _ _ W0 b l0); assumption. }
        destruct Hl as [sx Hx]. exists sx. unfold get_sess, put_sess in *. hsimpl. rewrite aget_aset.
        destruct (N.eqb_spec x sid) as [->|]; [|assumption]. unfold sid in Hx. pose proof (next_id_fresh h) as Hf. unfold get_sess in Hf. congruence.
      - intros Hb Hin. assert (Hl : live (set_nextsid h sid) x) by (apply (wf_counted _ _ _ W0 b' l); assumption).
        destruct Hl as [sx Hx]. exists sx. unfold get_sess, put_sess in *. hsimpl. rewrite aget_aset.
        destruct (N.eqb_spec x sid) as [->|]; [|assumption]. pose proof (next_id_fresh h) as Hf. unfold get_sess in Hf. unfold sid in Hx. congruence. }
    set (h3 := set_clients h2 (nadd sid (h_clients h2))).
    assert (W3 : WFg xr xp h3).
    { apply wf_set_clients; [exact W2|]. intros x Hx. apply in_nadd in Hx as [->|Hx]; [eexists; exact Hs2|apply (wf_clients _ _ _ W2 x Hx)]. }
    set (h4 := set_conns h3 (aset (h_conns h3) c (mkconn (c_addr cn) (Some sid) false))).
    assert (W4 : WFg xr xp h4).
    { apply (wf_attach_conn _ _ h3 c _ sid (new_session b k u c)); auto. }
    assert (Hs4 : live h4 sid) by (eexists; exact Hs2).
    destruct (N.eqb u 0 && negb (is_internal k)).
    + apply wf_set_anonymous; [exact W4|]. intros x Hx. apply in_nadd in Hx as [->|Hx]; [exact Hs4|apply (wf_anonymous _ _ _ W4 x Hx)].
    + destruct k as [|f d|]; try exact W4. destruct d; [|exact W4].
      apply wf_set_dialout; [exact W4|]. intros x Hx. apply in_nadd in Hx as [->|Hx]; [exact Hs4|apply (wf_dialout _ _ _ W4 x Hx)].
Qed.

(* ------------------------------------------------------------------ hello *)
(* replacing a session by one with the same room and kind but another connection, when no
   connection entry names the session *)
Lemma wf_sess_reconn xr xp h sid s0 s1 :
  WFg xr xp h -> get_sess h sid = Some s0 -> s_room s1 = s_room s0 -> s_kind s1 = s_kind s0 ->
  (forall c cn, aget (h_conns h) c = Some cn -> c_sess cn <> Some sid) ->
  WFg xr xp (put_sess h sid s1).
Proof.
  intros W Hs Hr Hk Hno.
  assert (Hget : forall x, get_sess (put_sess h sid s1) x = if N.eqb x sid then Some s1 else get_sess h x).
  { intros x. unfold get_sess, put_sess. hsimpl. apply aget_aset. }
  assert (Hlive : forall x, live h x -> live (put_sess h sid s1) x).
  { intros x [sx Hx]. unfold live. rewrite Hget. destruct (N.eqb_spec x sid); eauto. }
  constructor.
  - intros k r m Hr0 Hm. destruct (wf_members _ _ h W k r m Hr0 Hm) as [sm [Hsm Hkm]]. rewrite Hget.
    destruct (N.eqb_spec m sid) as [->|]; [|eauto]. rewrite Hs in Hsm. injection Hsm as <-. eexists; split; [reflexivity|congruence].
  - apply (wf_nonempty _ _ h W).
  - apply (wf_incall _ _ h W).
  - intros x sx k. rewrite Hget. destruct (N.eqb_spec x sid) as [->|].
    + intros H. injection H as <-. intros Hk1. apply (wf_room _ _ h W sid s0 k Hs). congruence.
    + apply (wf_room _ _ h W).
  - intros x v Hx. destruct (wf_rs1 _ _ h W x v Hx) as [sx [k [Hsx Hkx]]]. rewrite Hget.
    destruct (N.eqb_spec x sid) as [->|]; [|eauto]. rewrite Hs in Hsx. injection Hsx as <-. eexists _, k; split; [reflexivity|congruence].
  - apply (wf_rs2 _ _ h W).
  - intros p v vs Hv. destruct (wf_vt _ _ h W p v vs Hv) as [sv [Hsv Hkv]]. rewrite Hget.
    destruct (N.eqb_spec vs sid) as [->|]; [|eauto]. rewrite Hs in Hsv. injection Hsv as <-. eexists; split; [reflexivity|congruence].
  - intros vs sv p v. rewrite Hget. intros Hsv Hkv.
    assert (Hp : xp p \/ exists ps, get_sess h p = Some ps /\ is_internal (s_kind ps) = true).
    { destruct (N.eqb_spec vs sid) as [->|]; [injection Hsv as <-; apply (wf_parent _ _ h W sid s0 p v Hs); congruence|apply (wf_parent _ _ h W vs sv p v Hsv Hkv)]. }
    destruct Hp as [?|[ps [Hps Hpi]]]; [now left|right]. rewrite Hget.
    destruct (N.eqb_spec p sid) as [->|]; [|eauto]. rewrite Hs in Hps. injection Hps as <-. eexists; split; [reflexivity|congruence].
  - intros x Hx. apply Hlive. eapply wf_expired; eauto.
  - intros x Hx. apply Hlive. eapply wf_anonymous; eauto.
  - intros x Hx. apply Hlive. eapply wf_dialout; eauto.
  - intros x Hx. apply Hlive. eapply wf_clients; eauto.
  - intros b l x Hb Hx. apply Hlive. eapply wf_counted; eauto.
  - intros c cn x Hc Hx. destruct (wf_conns _ _ h W c cn x Hc Hx) as [sx [Hsx Hcx]]. rewrite Hget.
    destruct (N.eqb_spec x sid) as [->|]; [|eauto]. exfalso. eapply Hno; eauto.
  - apply (wf_limit _ _ h W).
Qed.

Lemma send_bye_detached h c cn r :
  aget (h_conns h) c = Some cn -> c_sess cn = None ->
  fst (send_conn h c (SBye r)) = set_conns h (adel (h_conns h) c).
Proof.
  intros Hc Hs. unfold send_conn. rewrite Hc. cbn [is_closing]. unfold close_conn. rewrite Hc, Hs. reflexivity.
Qed.

(* a resume, after the session was attached to the new connection and its queue flushed (the state in
   which a queued closing message then closes the connection again) *)
Lemma wf_resume_attached xr h c cn n s :
  WFg xr none1 h -> aget (h_conns h) c = Some (mkconn (c_addr cn) None (c_expect cn)) ->
  get_sess h n = Some s -> is_virtual (s_kind s) = false ->
  let h1 := fst (match s_conn s with
                 | Some c' => if N.eqb c' c then (h, [])
                              else send_conn (match aget (h_conns h) c' with
                                              | Some cn' => set_conns h (aset (h_conns h) c' (mkconn (c_addr cn') None (c_expect cn')))
                                              | None => h end) c' (SBye B_session_resumed)
                 | None => (h, []) end) in
  let h2 := put_sess h1 n (sess_pending (sess_conn s (Some c)) []) in
  let h3 := set_expired h2 (nrem n (h_expired h2)) in
  let h4 := set_clients h3 (nadd n (h_clients h3)) in
  WFg xr none1 (set_conns h4 (aset (h_conns h4) c (mkconn (c_addr cn) (Some n) false))).
Proof.
  intros W Hc Hs Hv. cbv zeta.
    (* state after the previous connection was told to go *)
    set (P := match s_conn s with
              | Some c' => if N.eqb c' c then (h, [])
                           else send_conn (match aget (h_conns h) c' with
                                           | Some cn' => set_conns h (aset (h_conns h) c' (mkconn (c_addr cn') None (c_expect cn')))
                                           | None => h end) c' (SBye B_session_resumed)
              | None => (h, []) end).
    assert (HP : WFg xr none1 (fst P) /\ get_sess (fst P) n = Some s /\
                 (forall c0 cn0, aget (h_conns (fst P)) c0 = Some cn0 -> c_sess cn0 <> Some n) /\
                 aget (h_conns (fst P)) c = Some (mkconn (c_addr cn) None (c_expect cn))).
    { assert (Hbase : forall c0 cn0, aget (h_conns h) c0 = Some cn0 -> c_sess cn0 = Some n -> s_conn s = Some c0).
      { intros c0 cn0 H0 H1. destruct (wf_conns _ _ h W c0 cn0 n H0 H1) as [s' [Hs' Hc']]. rewrite Hs in Hs'. injection Hs' as <-. exact Hc'. }
      unfold P. destruct (s_conn s) as [c'|] eqn:Hcs.
      - destruct (N.eqb_spec c' c) as [->|Hne].
        + cbn [fst]. split; [exact W|]. split; [exact Hs|]. split; [|exact Hc].
          intros c0 cn0 H0 H1. pose proof (Hbase c0 cn0 H0 H1) as Hx. injection Hx as <-. rewrite Hc in H0. injection H0 as <-. discriminate.
        + destruct (aget (h_conns h) c') as [cn'|] eqn:Hc'.
          * rewrite (send_bye_detached _ c' (mkconn (c_addr cn') None (c_expect cn')) B_session_resumed); [|hsimpl; apply aget_aset_same|reflexivity].
            hsimpl. split; [apply wf_del_conn; now apply wf_set_conn_nosess|]. split; [exact Hs|]. split.
            -- intros c0 cn0. rewrite aget_adel. destruct (N.eqb_spec c0 c'); [discriminate|]. rewrite aget_aset_other by assumption.
               intros H0 H1. pose proof (Hbase c0 cn0 H0 H1). congruence.
            -- rewrite aget_adel. destruct (N.eqb_spec c c'); [congruence|]. rewrite aget_aset_other by assumption. exact Hc.
          * unfold send_conn. rewrite Hc'. cbn [fst]. split; [exact W|]. split; [exact Hs|]. split; [|exact Hc].
            intros c0 cn0 H0 H1. pose proof (Hbase c0 cn0 H0 H1) as Hx. injection Hx as <-. congruence.
      - cbn [fst]. split; [exact W|]. split; [exact Hs|]. split; [|exact Hc].
        intros c0 cn0 H0 H1. pose proof (Hbase c0 cn0 H0 H1). discriminate. }
    destruct P as [h1 outs1]. cbn [fst] in HP. destruct HP as (W1 & Hs1 & Hno1 & Hc1). cbn [fst].
    set (s1 := sess_pending (sess_conn s (Some c)) []).
    assert (W2 : WFg xr none1 (put_sess h1 n s1)) by (apply (wf_sess_reconn _ _ h1 n s s1); auto).
    assert (Hs2 : get_sess (put_sess h1 n s1) n = Some s1) by (unfold get_sess, put_sess; hsimpl; apply aget_aset_same).
    assert (W3 : WFg xr none1 (set_expired (put_sess h1 n s1) (nrem n (h_expired (put_sess h1 n s1))))).
    { apply wf_set_expired; [exact W2|]. intros x Hx. apply (wf_expired _ _ _ W2). eapply in_nrem; eauto. }
    set (h3 := set_expired (put_sess h1 n s1) (nrem n (h_expired (put_sess h1 n s1)))) in *.
    assert (W4 : WFg xr none1 (set_clients h3 (nadd n (h_clients h3)))).
    { apply wf_set_clients; [exact W3|]. intros x Hx. apply in_nadd in Hx as [->|Hx]; [eexists; exact Hs2|apply (wf_clients _ _ _ W3 x Hx)]. }
    apply (wf_attach_conn _ _ _ c _ n s1); auto.
Qed.

Lemma wf_do_hello xr h c cn hl :
  WFg xr none1 h -> aget (h_conns h) c = Some (mkconn (c_addr cn) None (match hl with HResume _ => c_expect cn | _ => false end)) ->
  WFg xr none1 (fst (do_hello h c cn hl)).
Proof.
  intros W Hc. unfold do_hello.
  assert (Wexp : WFg xr none1 (set_conns h (aset (h_conns h) c (mkconn (c_addr cn) None true)))) by now apply wf_set_conn_nosess.
  destruct hl as [b u rej|b u t|b tok f d|i].
  - (* v1 *)
    destruct (h_nb h <=? b); [exact Wexp|]. destruct rej; [exact Wexp|].
    destruct (register h c cn b KClient u) as [h1 o1] eqn:Hr. cbn [fst]. rewrite (fst_eq _ _ _ Hr). now apply wf_register.
  - (* v2 *)
    destruct (v2_check (h_nb h) b t); [now apply wf_register|exact Wexp].
  - (* internal *)
    destruct (N.eqb tok 4); [exact Wexp|].
    destruct (throttled h (c_addr cn) ACT_INTERNAL); [exact Wexp|].
    destruct (negb (N.eqb tok 0)).
    { cbn [fst]. apply wf_set_conn_nosess; [|reflexivity]. eapply wf_equiv; [apply equiv_fail|exact W]. }
    destruct (h_nb h <=? b).
    { cbn [fst]. apply wf_set_conn_nosess; [|reflexivity]. eapply wf_equiv; [apply equiv_fail|exact W]. }
    now apply wf_register.
  - (* resume *)
    destruct (throttled h (c_addr cn) ACT_RESUME); [exact W|].
    destruct i as [n|n|k|n]; try (cbn [fst]; eapply wf_equiv; [apply equiv_fail|exact W]).
    destruct (get_sess h n) as [s|] eqn:Hs; [|exact W].
    destruct (is_virtual (s_kind s)) eqn:Hv; [exact W|].
    pose proof (wf_resume_attached xr h c cn n s W Hc Hs Hv) as W5. cbv zeta in W5.
    match type of W5 with context [fst ?X] => destruct X as [h1 outs1] end. cbn [fst] in *.
    destruct (queue_closes s); [|exact W5].
    match goal with |- context [close_conn ?hh c] => destruct (close_conn hh c) as [h6 o6] eqn:H6 end. cbn [fst].
    rewrite (fst_eq _ _ _ H6). now apply wf_close_conn.
Qed.

(* ------------------------------------------------------------------ joining *)
Lemma wf_enter_room xr xp h sid s s1 k r' :
  WFg xr xp h -> get_sess h sid = Some s -> s_room s = None ->
  s_room s1 = Some k -> s_kind s1 = s_kind s -> s_conn s1 = s_conn s ->
  let r := match room_of h k with Some x => x | None => empty_room end in
  r_members r' = nadd sid (r_members r) -> r_incall r' = r_incall r ->
  WFg xr xp (put_sess (set_rooms h (pset (h_rooms h) k r')) sid s1).
Proof.
  intros W Hs Hnone Hk1 Hkind Hconn r Hmem Hinc.
  set (F := put_sess (set_rooms h (pset (h_rooms h) k r')) sid s1).
  assert (Hget : forall x, get_sess F x = if N.eqb x sid then Some s1 else get_sess h x).
  { intros x. unfold F, get_sess, put_sess. hsimpl. apply aget_aset. }
  assert (Hlive : forall x, live h x -> live F x).
  { intros x [sx Hx]. unfold live. rewrite Hget. destruct (N.eqb_spec x sid); eauto. }
  assert (Hroom : forall k', room_of F k' = if pair_eqb k' k then Some r' else room_of h k').
  { intros k'. unfold F, room_of, put_sess. hsimpl. apply pget_pset. }
  assert (Hnomem : forall k' r0, room_of h k' = Some r0 -> ~ In sid (r_members r0)).
  { intros k' r0 Hr Hin. destruct (wf_members _ _ h W k' r0 sid Hr Hin) as [s0 [Hs0 Hk0]]. rewrite Hs in Hs0. injection Hs0 as <-. congruence. }
  assert (Hrold : forall m, In m (r_members r) -> exists sm, get_sess h m = Some sm /\ s_room sm = Some k).
  { intros m Hm. unfold r in Hm. destruct (room_of h k) as [r0|] eqn:Hr0; [|destruct Hm]. eapply wf_members; eauto. }
  constructor.
  - intros k' r0 m. rewrite Hroom. destruct (pair_eqb_spec k' k) as [->|Hne].
    + intros H. injection H as <-. rewrite Hmem. intros Hm. apply in_nadd in Hm as [->|Hm].
      * exists s1. rewrite Hget, N.eqb_refl. auto.
      * destruct (Hrold m Hm) as [sm [Hsm Hkm]]. exists sm. rewrite Hget.
        destruct (N.eqb_spec m sid) as [->|]; [|auto]. rewrite Hs in Hsm. injection Hsm as <-. congruence.
    + intros Hr0 Hm. destruct (wf_members _ _ h W k' r0 m Hr0 Hm) as [sm [Hsm Hkm]]. exists sm. rewrite Hget.
      destruct (N.eqb_spec m sid) as [->|]; [|auto]. exfalso. eapply Hnomem; eauto.
  - intros k' r0. rewrite Hroom. destruct (pair_eqb_spec k' k) as [->|]; [|apply (wf_nonempty _ _ h W)].
    intros H. injection H as <-. rewrite Hmem. intros Hnil.
    assert (In sid (nadd sid (r_members r))) by (apply in_nadd_intro; now left). rewrite Hnil in H. destruct H.
  - intros k' r0 m. rewrite Hroom. destruct (pair_eqb_spec k' k) as [->|]; [|apply (wf_incall _ _ h W)].
    intros H. injection H as <-. rewrite Hinc, Hmem. intros Hi. apply in_nadd_intro. right.
    unfold r in *. destruct (room_of h k) as [r0|] eqn:Hr0; [|destruct Hi]. eapply wf_incall; eauto.
  - intros x sx k'. rewrite Hget. destruct (N.eqb_spec x sid) as [->|].
    + intros H. injection H as <-. rewrite Hk1. intros H. injection H as <-. right. exists r'. rewrite Hroom, pair_eqb_refl.
      split; [reflexivity|]. rewrite Hmem. apply in_nadd_intro. now left.
    + intros Hx Hkx. destruct (wf_room _ _ h W x sx k' Hx Hkx) as [?|[r0 [Hr0 Hm0]]]; [now left|right].
      rewrite Hroom. destruct (pair_eqb_spec k' k) as [->|]; [|eauto].
      exists r'. split; [reflexivity|]. rewrite Hmem. apply in_nadd_intro. right. unfold r. now rewrite Hr0.
  - intros x v Hx. destruct (wf_rs1 _ _ h W x v Hx) as [sx [kx [Hsx Hkx]]]. rewrite Hget.
    destruct (N.eqb_spec x sid) as [->|]; [|eauto]. rewrite Hs in Hsx. injection Hsx as <-. congruence.
  - apply (wf_rs2 _ _ h W).
  - intros p v vs Hv. destruct (wf_vt _ _ h W p v vs Hv) as [sv [Hsv Hkv]]. rewrite Hget.
    destruct (N.eqb_spec vs sid) as [->|]; [|eauto]. rewrite Hs in Hsv. injection Hsv as <-. eexists; split; [reflexivity|congruence].
  - intros vs sv p v. rewrite Hget. intros Hsv Hkv.
    assert (Hp : xp p \/ exists ps, get_sess h p = Some ps /\ is_internal (s_kind ps) = true).
    { destruct (N.eqb_spec vs sid) as [->|]; [injection Hsv as <-; apply (wf_parent _ _ h W sid s p v Hs); congruence|apply (wf_parent _ _ h W vs sv p v Hsv Hkv)]. }
    destruct Hp as [?|[ps [Hps Hpi]]]; [now left|right]. rewrite Hget.
    destruct (N.eqb_spec p sid) as [->|]; [|eauto]. rewrite Hs in Hps. injection Hps as <-. eexists; split; [reflexivity|congruence].
  - intros x Hx. apply Hlive. eapply wf_expired; eauto.
  - intros x Hx. apply Hlive. eapply wf_anonymous; eauto.
  - intros x Hx. apply Hlive. eapply wf_dialout; eauto.
  - intros x Hx. apply Hlive. eapply wf_clients; eauto.
  - intros b l x Hb Hx. apply Hlive. eapply wf_counted; eauto.
  - intros c cn x Hc Hx. destruct (wf_conns _ _ h W c cn x Hc Hx) as [sx [Hsx Hcx]]. rewrite Hget.
    destruct (N.eqb_spec x sid) as [->|]; [|eauto]. rewrite Hs in Hsx. injection Hsx as <-. eexists; split; [reflexivity|congruence].
  - apply (wf_limit _ _ h W).
Qed.

Lemma leave_room_noroom h sid notify s' :
  get_sess (fst (leave_room h sid notify)) sid = Some s' -> s_room s' = None.
Proof.
  intros Hs. pose proof (leave_room_core h sid notify sid) as Hq. rewrite Hs, N.eqb_refl in Hq. cbn in Hq.
  destruct (get_sess h sid) as [s|]; [|discriminate]. unfold core, unroomed in Hq.
  destruct (s_room s) eqn:Hr; inversion Hq; congruence.
Qed.

Lemma wf_join_room xr h c sid k rs perms su :
  WFg xr none1 h -> WFg xr none1 (fst (join_room h c sid k rs perms su)).
Proof.
  intros W. unfold join_room.
  destruct (leave_room h sid true) as [h1 o1] eqn:Hl. pose proof (fst_eq _ _ _ Hl) as E1.
  assert (W1 : WFg xr none1 h1) by (rewrite E1; now apply wf_leave_room).
  destruct (get_sess h1 sid) as [s|] eqn:Hs; [|exact W1].
  assert (Hnone : s_room s = None) by (rewrite E1 in Hs; eapply leave_room_noroom; eauto).
  set (r := match room_of h1 k with Some x => x | None => empty_room end).
  set (r' := mkroom (nadd sid (r_members r)) (r_incall r) (if N.eqb su 0 then r_sessdata r else aset (r_sessdata r) sid su) (r_transient r) (r_props r)).
  set (s1 := upd_sess s (Some k) rs (s_conn s) (match perms with Some p => Some p | None => s_perms s end) (s_pending s) [] (h_clock h1)).
  set (hA := put_sess (set_rooms h1 (pset (h_rooms h1) k r')) sid s1).
  assert (WA : WFg xr none1 hA) by (apply (wf_enter_room _ _ h1 sid s s1 k r'); auto).
  assert (HsA : get_sess hA sid = Some s1) by (unfold hA, get_sess, put_sess; hsimpl; apply aget_aset_same).
  set (h2 := set_clock hA (h_clock h1 + 1)).
  assert (W2 : WFg xr none1 h2) by (eapply wf_equiv; [apply equiv_clock|exact WA]).
  set (h3 := if N.eqb rs 0 then h2 else rs_set h2 sid rs).
  assert (W3 : WFg xr none1 h3).
  { unfold h3. destruct (N.eqb rs 0); [exact W2|]. apply (wf_rs_set _ _ h2 sid rs s1 k); auto. }
  set (h4 := set_anonymous h3 (nrem sid (h_anonymous h3))).
  assert (W4 : WFg xr none1 h4).
  { apply wf_set_anonymous; [exact W3|]. intros x Hx. apply (wf_anonymous _ _ _ W3). eapply in_nrem; eauto. }
  set (h5 := match s_kind s with KInternal _ true => set_dialout h4 (nrem sid (h_dialout h4)) | _ => h4 end).
  assert (W5 : WFg xr none1 h5).
  { unfold h5. destruct (s_kind s) as [|f d|]; try exact W4. destruct d; [|exact W4].
    apply wf_set_dialout; [exact W4|]. intros x Hx. apply (wf_dialout _ _ _ W4). eapply in_nrem; eauto. }
  destruct (send_session h5 sid (SRoom (snd k))) as [h7 o2] eqn:Hsend. pose proof (fst_eq _ _ _ Hsend) as E7.
  assert (W7 : WFg xr none1 h7) by (rewrite E7; now apply wf_send_session).
  destruct (room_of h7 k); [|exact W7].
  set (h9 := if nmem sid (r_members r) then h7 else publish h7 (SubjRoom (fst k) (snd k)) (ARoomEvent (SJoin [(sid, if N.eqb (s_user s) 0 then su else s_user s)]))).
  assert (W9 : WFg xr none1 h9).
  { unfold h9. destruct (nmem sid (r_members r)); [exact W7|]. eapply wf_equiv; [apply equiv_publish|exact W7]. }
  match goal with |- context [let '(h10, outs3) := ?X in _] => destruct X as [h10 o3] eqn:H10 end.
  assert (W10 : WFg xr none1 h10).
  { destruct (nmem sid (r_members r)); [injection H10 as <- <-; exact W9|].
    destruct (r_transient r); [injection H10 as <- <-; exact W9|].
    rewrite (fst_eq _ _ _ H10). now apply wf_send_session. }
  cbn [fst]. eapply wf_equiv; [apply equiv_publish|exact W10].
Qed.

Lemma wf_kick xr h rs : WFg xr none1 h -> WFg xr none1 (fst (kick_room_session h rs)).
Proof.
  intros W. unfold kick_room_session. destruct (aget (h_rs2 h) rs) as [sid'|]; [|exact W].
  destruct (get_sess h sid') as [s'|]; [|cbn [fst]; eapply wf_equiv; [apply equiv_publish|exact W]].
  destruct (leave_room h sid' false) as [h1 o1] eqn:Hl. pose proof (fst_eq _ _ _ Hl) as E1.
  assert (W1 : WFg xr none1 h1) by (rewrite E1; now apply wf_leave_room).
  match goal with |- context [let '(h2, outs2) := ?X in _] => destruct X as [h2 o2] eqn:H2 end.
  assert (W2 : WFg xr none1 h2).
  { destruct (s_kind s') as [| |p v]; destruct (s_conn s') as [c'|];
      try (injection H2 as <- <-; exact W1); rewrite (fst_eq _ _ _ H2); now apply wf_send_conn. }
  destruct (close_session h2 sid') as [h3 o3] eqn:H3. cbn [fst]. rewrite (fst_eq _ _ _ H3). now apply wf_close_session.
Qed.

(* messages that never close the connection they are written to *)
Definition never_closing (m : smsg) : bool := match m with SBye _ | SDisinvite _ => false | _ => true end.

Lemma deliver_out_kind h sid m h1 c mm :
  deliver_to_session h sid m = (h1, [ToConn c mm]) -> never_closing m = true -> never_closing mm = true.
Proof.
  unfold deliver_to_session. destruct (get_sess h sid) as [s|]; [|discriminate].
  match goal with |- context [let '(m', s1) := ?X in _] => destruct X as [m' s1] eqn:HX end.
  intros H Hn. destruct m' as [m0|]; [|discriminate]. destruct (s_conn s1); [|discriminate]. injection H as _ _ <-.
  destruct m; cbn [never_closing] in *; try discriminate; try (inversion HX; subst; reflexivity).
  match type of HX with context [filter_seen ?a ?b] => destruct (filter_seen a b) as [keep seen'] end.
  destruct keep; inversion HX; subst; reflexivity.
Qed.

Lemma is_closing_never h c m : never_closing m = true -> is_closing h c m = false.
Proof. destruct m; cbn; intros H; try reflexivity; discriminate. Qed.

Lemma equiv_send_session h sid m : never_closing m = true -> equiv h (fst (send_session h sid m)).
Proof.
  intros Hn. unfold send_session.
  match goal with |- context [deliver_to_session h ?t m] => set (target := t) end.
  destruct (deliver_to_session h target m) as [h1 outs] eqn:Hd. pose proof (fst_eq _ _ _ Hd) as E1.
  assert (Eq1 : equiv h h1) by (rewrite E1; apply equiv_deliver_to_session).
  destruct outs as [|[c mm| | |] [|o2 outs2]]; cbn [fst]; try exact Eq1.
  rewrite (is_closing_never h1 c mm); [exact Eq1|]. eapply deliver_out_kind; eauto.
Qed.

Lemma leave_room_live h sid notify x : live h x -> live (fst (leave_room h sid notify)) x.
Proof.
  intros [sx Hx]. pose proof (leave_room_core h sid notify x) as Hq. unfold live.
  destruct (get_sess (fst (leave_room h sid notify)) x) as [s'|]; [eauto|]. cbn in Hq.
  destruct (N.eqb_spec x sid) as [->|]; rewrite Hx in Hq; [destruct (s_room sx)|]; discriminate.
Qed.

Lemma wf_do_join xr h c sid s rn rs rep :
  WFg xr none1 h -> get_sess h sid = Some s -> WFg xr none1 (fst (do_join h c sid s rn rs rep)).
Proof.
  intros W Hs. unfold do_join. destruct (N.eqb rn 0).
  - destruct (s_room s); [|exact W].
    destruct (leave_room h sid true) as [h1 o1] eqn:Hl. pose proof (fst_eq _ _ _ Hl) as E1.
    assert (W1 : WFg xr none1 h1) by (rewrite E1; now apply wf_leave_room).
    destruct (send_session h1 sid (SRoom 0)) as [h2 o2] eqn:H2. pose proof (fst_eq _ _ _ H2) as E2.
    assert (W2 : WFg xr none1 h2) by (rewrite E2; now apply wf_send_session).
    cbn [fst]. destruct (N.eqb (s_user s) 0 && negb (is_internal (s_kind s))); [|exact W2].
    apply wf_set_anonymous; [exact W2|]. intros x Hx. apply in_nadd in Hx as [->|Hx]; [|apply (wf_anonymous _ _ _ W2 x Hx)].
    rewrite E2. apply (equiv_live _ _ _ (equiv_send_session h1 sid (SRoom 0) eq_refl)).
    rewrite E1. apply leave_room_live. eexists; eauto.
  - set (k := (s_backend s, rn)). set (rsv := if N.eqb rs 0 then 0 else 1000000 + rs).
    destruct (match room_of h k with Some r => nmem sid (r_members r) | None => false end) eqn:Hin.
    + (* already in that room *)
      set (newrs := if N.eqb rs 0 then 2000000 + sid else rsv).
      assert (Hk : s_room s = Some k).
      { destruct (room_of h k) as [r|] eqn:Hr; [|discriminate]. apply nmem_In in Hin.
        destruct (wf_members _ _ h W k r sid Hr Hin) as [s0 [Hs0 Hk0]]. rewrite Hs in Hs0. injection Hs0 as <-. exact Hk0. }
      set (h1 := if N.eqb (s_rs s) newrs then h else put_sess (rs_set h sid newrs) sid (sess_rs s newrs)).
      assert (W1 : WFg xr none1 h1).
      { unfold h1. destruct (N.eqb (s_rs s) newrs); [exact W|].
        assert (Wr : WFg xr none1 (rs_set h sid newrs)) by (apply (wf_rs_set _ _ h sid newrs s k); auto).
        eapply wf_equiv; [|exact Wr]. apply equiv_put with s; [|reflexivity].
        unfold get_sess. unfold rs_set. destruct (N.eqb newrs 0); [destruct (aget (h_rs1 h) sid)|destruct (aget (h_rs1 h) sid) as [prev|]; [destruct (N.eqb prev newrs)|]]; exact Hs. }
      destruct (send_session h1 sid (SError E_already_joined)) as [h2 o2] eqn:H2. cbn [fst].
      rewrite (fst_eq _ _ _ H2). now apply wf_send_session.
    + destruct (is_internal (s_kind s)); [now apply wf_join_room|].
      match goal with |- context [let '(h1, outs1) := ?X in _] => destruct X as [h1 o1] eqn:H1 end.
      assert (W1 : WFg xr none1 h1).
      { destruct (N.eqb rs 0 || N.eqb (s_rs s) rsv); [injection H1 as <- <-; exact W|].
        rewrite (fst_eq _ _ _ H1). now apply wf_kick. }
      destruct (get_sess h1 sid); [|exact W1].
      destruct rep as [perms su|code].
      * destruct (join_room h1 c sid k rsv perms su) as [h2 o2] eqn:H2. cbn [fst]. rewrite (fst_eq _ _ _ H2). now apply wf_join_room.
      * destruct (send_session h1 sid (SError code)) as [h2 o2] eqn:H2. cbn [fst]. rewrite (fst_eq _ _ _ H2). now apply wf_send_session.
Qed.

(* ------------------------------------------------------------------ room records *)
Lemma wf_room_update xr xp h k r r' :
  WFg xr xp h -> room_of h k = Some r -> r_members r' = r_members r ->
  (forall m, In m (r_incall r') -> In m (r_members r)) ->
  WFg xr xp (set_rooms h (pset (h_rooms h) k r')).
Proof.
  intros W Hr Hm Hi.
  assert (Hroom : forall k', room_of (set_rooms h (pset (h_rooms h) k r')) k' = if pair_eqb k' k then Some r' else room_of h k').
  { intros k'. unfold room_of. hsimpl. apply pget_pset. }
  constructor; try apply W.
  - intros k' r0 m. rewrite Hroom. destruct (pair_eqb_spec k' k) as [->|]; [|apply (wf_members _ _ h W)].
    intros H. injection H as <-. rewrite Hm. apply (wf_members _ _ h W k r m Hr).
  - intros k' r0. rewrite Hroom. destruct (pair_eqb_spec k' k) as [->|]; [|apply (wf_nonempty _ _ h W)].
    intros H. injection H as <-. rewrite Hm. apply (wf_nonempty _ _ h W k r Hr).
  - intros k' r0 m. rewrite Hroom. destruct (pair_eqb_spec k' k) as [->|]; [|apply (wf_incall _ _ h W)].
    intros H. injection H as <-. rewrite Hm. apply Hi.
  - intros x sx k' Hx Hk. destruct (wf_room _ _ h W x sx k' Hx Hk) as [?|[r0 [Hr0 Hm0]]]; [now left|right].
    rewrite Hroom. destruct (pair_eqb_spec k' k) as [->|]; [|eauto]. exists r'. split; [reflexivity|]. rewrite Hm. congruence.
Qed.

Lemma wf_set_incall xr xp h k sid on : WFg xr xp h -> WFg xr xp (set_incall h k sid on).
Proof.
  intros W. unfold set_incall. destruct (room_of h k) as [r|] eqn:Hr; [|exact W].
  destruct (on && negb (nmem sid (r_members r))) eqn:Hc; [exact W|].
  apply (wf_room_update _ _ h k r); auto. cbn [r_incall]. intros m Hm. destruct on.
  - apply in_nadd in Hm as [->|Hm]; [|eapply wf_incall; eauto].
    cbn in Hc. apply negb_false_iff in Hc. now apply nmem_In.
  - eapply wf_incall; eauto. eapply in_nrem; eauto.
Qed.

(* messages and events *)
Lemma wf_do_message xr h sid s kindn to tag cb : WFg xr none1 h -> WFg xr none1 (fst (do_message h sid s kindn to tag cb)).
Proof.
  intros W. unfold do_message.
  destruct to as [i|u| |].
  - destruct i as [n|n|k|n]; try (cbn [fst]; eapply wf_equiv; [apply equiv_publish|exact W]).
    destruct (get_sess h n) as [t|]; [|cbn [fst]; eapply wf_equiv; [apply equiv_publish|exact W]].
    destruct (cb && negb (N.eqb (s_backend t) (s_backend s))); [exact W|].
    destruct (N.eqb n sid); [exact W|].
    destruct (s_kind t); now apply wf_send_session.
  - destruct (N.eqb u 0); [exact W|]. destruct (N.eqb u (sess_userid h sid s)); [exact W|].
    cbn [fst]. eapply wf_equiv; [apply equiv_publish|exact W].
  - destruct (s_room s); [|exact W]. cbn [fst]. eapply wf_equiv; [apply equiv_publish|exact W].
  - destruct (s_room s); [|exact W]. cbn [fst]. eapply wf_equiv; [apply equiv_publish|exact W].
Qed.

Lemma wf_recv_event xr h sid m sender co re t : WFg xr none1 h -> WFg xr none1 (fst (recv_event h sid m sender co re t)).
Proof.
  intros W. unfold recv_event. destruct (get_sess h sid) as [s|]; [|exact W].
  destruct (N.eqb sender sid && negb (N.eqb sender 0)); [exact W|].
  destruct (co && negb (in_call h sid s)); [exact W|].
  match goal with |- context [if ?c then _ else _] => destruct c end; [exact W|]. now apply wf_send_session.
Qed.

(* deleting a room whose members still name it *)
Definition or_room (xr : N * N -> Prop) (k : N * N) : N * N -> Prop := fun k' => xr k' \/ k' = k.

Lemma wf_del_room xr xp h k : WFg xr xp h -> WFg (or_room xr k) xp (set_rooms h (pdel (h_rooms h) k)).
Proof.
  intros W.
  assert (Hroom : forall k', room_of (set_rooms h (pdel (h_rooms h) k)) k' = if pair_eqb k' k then None else room_of h k').
  { intros k'. unfold room_of. hsimpl. apply pget_pdel. }
  constructor; try apply W.
  - intros k' r m. rewrite Hroom. destruct (pair_eqb_spec k' k); [discriminate|apply (wf_members _ _ h W)].
  - intros k' r. rewrite Hroom. destruct (pair_eqb_spec k' k); [discriminate|apply (wf_nonempty _ _ h W)].
  - intros k' r m. rewrite Hroom. destruct (pair_eqb_spec k' k); [discriminate|apply (wf_incall _ _ h W)].
  - intros x sx k' Hx Hk. destruct (wf_room _ _ h W x sx k' Hx Hk) as [?|[r0 [Hr0 Hm0]]]; [left; now left|].
    rewrite Hroom. destruct (pair_eqb_spec k' k) as [->|]; [left; now right|right; eauto].
Qed.

Lemma wf_drop_room_exception xr xp h k :
  WFg (or_room xr k) xp h -> (forall x s, get_sess h x = Some s -> s_room s <> Some k) -> WFg xr xp h.
Proof.
  intros W Hno. constructor; try apply W.
  intros x sx k' Hx Hk. destruct (wf_room _ _ h W x sx k' Hx Hk) as [[Ha|Hb]|Hc]; auto. subst k'. exfalso. eapply Hno; eauto.
Qed.

(* ------------------------------------------------------------------ room deletion *)
Lemma leave_room_keeps_missing h sid notify k :
  room_of h k = None -> room_of (fst (leave_room h sid notify)) k = None.
Proof.
  intros Hk. unfold leave_room. destruct (get_sess h sid) as [s|] eqn:Hs; [|exact Hk].
  destruct (s_room s) as [k'|] eqn:Hk'; [|exact Hk].
  assert (Hgen : forall hX, h_rooms hX = h_rooms h -> room_of (room_remove hX k' sid) k = None).
  { intros hX HX. unfold room_of. rewrite (eq_rooms _ _ (room_remove_equiv hX k' sid)). hsimpl.
    rewrite pget_rooms_after_remove. unfold room_of. rewrite HX.
    destruct (pair_eqb_spec k k') as [<-|]; [unfold room_of in Hk; now rewrite Hk|exact Hk]. }
  destruct (is_virtual (s_kind s)); cbn [fst].
  - apply Hgen. unfold put_sess. hsimpl. apply rs_del_rooms.
  - destruct (release_mcu _ sid) as [h3 o3] eqn:Hr. cbn [fst]. apply Hgen.
    rewrite (fst_eq _ _ _ Hr). rewrite (eq_rooms _ _ (equiv_release_mcu _ sid)). unfold put_sess. hsimpl. apply rs_del_rooms.
Qed.

Lemma wf_delete_member xr k hh m :
  WFg (or_room xr k) none1 hh -> room_of hh k = None ->
  let F := fst (delete_member hh m) in
  WFg (or_room xr k) none1 F /\ room_of F k = None /\
  (forall x s1, get_sess F x = Some s1 -> s_room s1 = Some k -> x <> m /\ exists s0, get_sess hh x = Some s0 /\ s_room s0 = Some k).
Proof.
  intros W Hk. unfold delete_member. destruct (get_sess hh m) as [s|] eqn:Hs.
  2:{ cbn [fst]. split; [exact W|]. split; [exact Hk|]. intros x s1 Hx Hr. split; [intros ->; congruence|eauto]. }
  destruct (leave_room hh m true) as [h2 o1] eqn:Hl. pose proof (fst_eq _ _ _ Hl) as E2.
  assert (W2 : WFg (or_room xr k) none1 h2) by (rewrite E2; now apply wf_leave_room).
  assert (Hk2 : room_of h2 k = None) by (rewrite E2; now apply leave_room_keeps_missing).
  assert (Hc2 : forall x s1, get_sess h2 x = Some s1 -> s_room s1 = Some k -> x <> m /\ exists s0, get_sess hh x = Some s0 /\ s_room s0 = Some k).
  { intros x s1 Hx Hr. pose proof (leave_room_core hh m true x) as Hq. rewrite <- E2, Hx in Hq. cbn in Hq.
    destruct (N.eqb_spec x m) as [->|Hne].
    - exfalso. rewrite Hs in Hq. unfold core, unroomed in Hq. destruct (s_room s) eqn:Hrs; inversion Hq; congruence.
    - split; [assumption|]. destruct (get_sess hh x) as [s0|]; [|discriminate]. cbn in Hq. apply core_some_eq in Hq as (Hq & _ & _).
      exists s0. split; [reflexivity|congruence]. }
  destruct (is_virtual (s_kind s)); [cbn [fst]; auto|].
  destruct (send_session h2 m (SRoom 0)) as [h3 o2] eqn:H3. pose proof (fst_eq _ _ _ H3) as E3. cbn [fst].
  pose proof (equiv_send_session h2 m (SRoom 0) eq_refl) as Eq. rewrite <- E3 in Eq.
  split; [eapply wf_equiv; eauto|]. split.
  - unfold room_of. rewrite (eq_rooms _ _ Eq). exact Hk2.
  - intros x s1 Hx Hr. destruct (equiv_get _ _ _ _ Eq Hx) as [s2 [Hs2 Hcore]]. apply core_some_eq' in Hcore.
    apply (Hc2 x s2 Hs2). destruct Hcore as (Hcr & _ & _). congruence.
Qed.

Lemma fold_sessions_cons h x l f :
  fold_sessions h (x :: l) f =
  let '(h1, o1) := f h x in let '(h2, o2) := fold_sessions h1 l f in (h2, o1 ++ o2).
Proof.
  unfold fold_sessions. cbn [fold_left]. destruct (f h x) as [h1 o1]. cbn [app].
  assert (G : forall acc_h acc_o, fold_left (fun acc y => let '(hh, oo) := acc in let '(hh', oo') := f hh y in (hh', oo ++ oo')) l (acc_h, acc_o)
          = let '(h2, o2) := fold_left (fun acc y => let '(hh, oo) := acc in let '(hh', oo') := f hh y in (hh', oo ++ oo')) l (acc_h, []) in (h2, acc_o ++ o2)).
  { induction l as [|y l IH]; intros ah ao; cbn [fold_left]; [now rewrite app_nil_r|].
    destruct (f ah y) as [h' o']. rewrite (IH h' (ao ++ o')), (IH h' ([] ++ o')).
    destruct (fold_left _ l (h', [])) as [h2 o2]. cbn [app]. now rewrite app_assoc. }
  rewrite (G h1 o1). reflexivity.
Qed.

Lemma wf_delete_members xr k members : forall hh,
  WFg (or_room xr k) none1 hh -> room_of hh k = None ->
  let F := fst (fold_sessions hh members delete_member) in
  WFg (or_room xr k) none1 F /\ room_of F k = None /\
  (forall x s1, get_sess F x = Some s1 -> s_room s1 = Some k ->
     ~ In x members /\ exists s0, get_sess hh x = Some s0 /\ s_room s0 = Some k).
Proof.
  induction members as [|m members IH]; intros hh W Hk.
  - cbn. split; [exact W|]. split; [exact Hk|]. intros x s1 Hx Hr. split; [tauto|eauto].
  - rewrite fold_sessions_cons. destruct (delete_member hh m) as [h1 o1] eqn:Hd. pose proof (fst_eq _ _ _ Hd) as E1.
    destruct (wf_delete_member xr k hh m W Hk) as (W1 & Hk1 & Hc1). rewrite <- E1 in W1, Hk1, Hc1.
    destruct (fold_sessions h1 members delete_member) as [h2 o2] eqn:Hf. pose proof (fst_eq _ _ _ Hf) as E2.
    destruct (IH h1 W1 Hk1) as (W2 & Hk2 & Hc2). rewrite <- E2 in W2, Hk2, Hc2. cbn [fst].
    split; [exact W2|]. split; [exact Hk2|].
    intros x s2 Hx Hr. destruct (Hc2 x s2 Hx Hr) as [Hnin [s1 [Hs1 Hr1]]].
    destruct (Hc1 x s1 Hs1 Hr1) as [Hne [s0 [Hs0 Hr0]]]. split; [|eauto].
    intros [->|Hin]; [now apply Hne|now apply Hnin].
Qed.

Lemma wf_fold_left_hub {A} (P : hub -> Prop) (f : hub -> A -> hub) l : forall h,
  P h -> (forall hh x, P hh -> P (f hh x)) -> P (fold_left f l h).
Proof. induction l as [|x l IH]; intros h Hh Hf; cbn; [exact Hh|]. apply IH; auto. Qed.

Lemma wf_leave_call xr xp h sid : WFg xr xp h -> WFg xr xp (fst (leave_call h sid)).
Proof. intros W. eapply wf_equiv; [apply equiv_leave_call|exact W]. Qed.

(* the room's transient data: the member lists do not change, every listener is sent a notice *)
Lemma wf_transient_update h k r del key val : WF h -> room_of h k = Some r -> WF (fst (transient_update h k r del key val)).
Proof.
  unfold WF. intros W Hr. unfold transient_update.
  assert (Hn : forall d m, WFg none2 none1 (fst (transient_notify h k r d m))).
  { intros d m. unfold transient_notify. apply wf_fold_sessions.
    - unfold room_set_transient. apply (wf_room_update _ _ h k r); auto. cbn [r_incall]. intros x. apply (wf_incall _ _ h W k r x Hr).
    - intros. now apply wf_send_session. }
  destruct (del || N.eqb val 0).
  - destruct (aget (r_transient r) key); [apply Hn|exact W].
  - destruct (aget (r_transient r) key) as [v|]; [destruct (N.eqb v val); [exact W|apply Hn]|apply Hn].
Qed.

Lemma wf_room_request h k q : WF h -> WF (fst (room_request h k q)).
Proof.
  unfold WF. intros W. unfold room_request. destruct (room_of h k) as [r|] eqn:Hr; [|exact W].
  destruct q as [|users rs|tag|l|l|ic|tag|ok|del key val]; [| | | | | | |exact W|now apply wf_transient_update].
  - (* delete *)
    match goal with |- context [fold_sessions h ?int ?f] => set (internals := int); set (g := f) end.
    destruct (fold_sessions h internals g) as [h0 o0] eqn:H0. pose proof (fst_eq _ _ _ H0) as E0.
    assert (Eq0 : equiv h h0).
    { rewrite E0. apply (wf_fold_sessions (fun hh => equiv h hh)); [apply equiv_refl|].
      intros hh x Ehh. eapply equiv_trans; [exact Ehh|]. apply (equiv_send_session hh x SRoomDeleted eq_refl). }
    assert (W0 : WFg none2 none1 h0) by (eapply wf_equiv; eauto).
    assert (Hr0 : room_of h0 k = Some r) by (unfold room_of; rewrite (eq_rooms _ _ Eq0); exact Hr).
    set (h1 := set_rooms h0 (pdel (h_rooms h0) k)).
    assert (W1 : WFg (or_room none2 k) none1 h1) by (apply wf_del_room; exact W0).
    assert (Hk1 : room_of h1 k = None) by (unfold h1, room_of; hsimpl; apply pget_pdel_same).
    destruct (fold_sessions h1 (r_members r) delete_member) as [h9 o9] eqn:H9. pose proof (fst_eq _ _ _ H9) as E9.
    destruct (wf_delete_members none2 k (r_members r) h1 W1 Hk1) as (W9 & Hk9 & Hc9). rewrite <- E9 in W9, Hk9, Hc9.
    cbn [fst]. apply (wf_drop_room_exception none2 none1 h9 k W9).
    intros x s9 Hx Hroom. destruct (Hc9 x s9 Hx Hroom) as [Hnin [s1 [Hs1 Hr1]]].
    (* in h0 the session named room k, so it was on the member list *)
    apply Hnin. assert (Hs0 : get_sess h0 x = Some s1) by exact Hs1.
    destruct (wf_room _ _ h0 W0 x s1 k Hs0 Hr1) as [[]|[r0 [Hr00 Hm0]]].
    rewrite Hr0 in Hr00. injection Hr00 as <-. exact Hm0.
  - exact W.
  - (* update *)
    destruct (N.eqb (r_props r) (tag + 1)); [exact W|]. cbn [fst]. eapply wf_equiv; [apply equiv_publish|].
    apply (wf_room_update _ _ h k r); auto. cbn [r_incall]. intros m. apply (wf_incall _ _ h W k r m Hr).
  - cbn [fst]. eapply wf_equiv; [apply equiv_publish|exact W].
  - (* incall *)
    match goal with |- context [fold_left ?f l (h, [])] => set (g := f) end.
    assert (Hg : WFg none2 none1 (fst (fold_left g l (h, [])))).
    { assert (G : forall acc, WFg none2 none1 (fst acc) -> WFg none2 none1 (fst (fold_left g l acc))).
      { induction l as [|u l IH]; intros acc Hacc; cbn [fold_left]; [exact Hacc|]. apply IH.
        destruct acc as [hh oo]. cbn [fst] in Hacc. unfold g. destruct u as [[i icv] pm].
        destruct i as [n|sid|kk|n]; try exact Hacc.
        destruct (get_sess hh sid); [|exact Hacc].
        destruct (N.testbit icv 0); [cbn [fst]; now apply wf_set_incall|].
        destruct (leave_call (set_incall hh k sid false) sid) as [h2 o2] eqn:H2. cbn [fst].
        rewrite (fst_eq _ _ _ H2). apply wf_leave_call. now apply wf_set_incall. }
      apply G. exact W. }
    destruct (fold_left g l (h, [])) as [h1 outs]. cbn [fst] in *. eapply wf_equiv; [apply equiv_publish|exact Hg].
  - (* incall for everybody *)
    destruct (N.testbit ic 0).
    + match goal with |- context [filter ?f (filter ?g0 (r_members r))] => set (fresh := filter f (filter g0 (r_members r))); set (joiners := filter g0 (r_members r)) end.
      destruct fresh; [exact W|].
      apply wf_fold_sessions; [|intros; now apply wf_send_session].
      apply wf_fold_left_hub; [exact W|]. intros hh x Hhh. now apply wf_set_incall.
    + destruct (r_incall r) eqn:Hic; [exact W|].
      set (h1 := set_rooms h (pset (h_rooms h) k (mkroom (r_members r) [] (r_sessdata r) (r_transient r) (r_props r)))).
      assert (W1 : WFg none2 none1 h1) by (apply (wf_room_update _ _ h k r); auto; cbn; tauto).
      match goal with |- context [fold_sessions h1 ?lv leave_call] => destruct (fold_sessions h1 lv leave_call) as [h2 o1] eqn:H2 end.
      assert (W2 : WFg none2 none1 h2).
      { rewrite (fst_eq _ _ _ H2). apply wf_fold_sessions; [exact W1|]. intros. now apply wf_leave_call. }
      match goal with |- context [fold_sessions h2 ?lv ?f] => destruct (fold_sessions h2 lv f) as [h3 o2] eqn:H3 end.
      cbn [fst]. rewrite (fst_eq _ _ _ H3). apply wf_fold_sessions; [exact W2|]. intros. now apply wf_send_session.
  - cbn [fst]. eapply wf_equiv; [apply equiv_publish|exact W].
Qed.

(* ------------------------------------------------------------------ bus deliveries *)
Lemma wf_revoke xr xp h sid : WFg xr xp h -> WFg xr xp (fst (revoke h sid)).
Proof. intros W. eapply wf_equiv; [apply equiv_revoke|exact W]. Qed.

Lemma wf_deliver_pub h p : WF h -> WF (fst (deliver_pub h p)).
Proof.
  unfold WF. intros W. unfold deliver_pub.
  destruct (p_subj p) as [b r|b r|b u|sid|]; destruct (p_msg p) as [m sender co|m|sj internal|pm| |q]; try exact W.
  - apply wf_fold_sessions; [exact W|]. intros. now apply wf_recv_event.
  - apply wf_fold_sessions; [exact W|]. intros. now apply wf_recv_event.
  - (* session joined *)
    destruct (room_of h (b, r)) as [rm|]; [|exact W].
    match goal with |- context [match ?o with [] => _ | _ => _ end] => destruct o end; [exact W|]. cbn [fst].
    match goal with |- WFg _ _ (fold_left ?f ?l ?h0) => apply (wf_fold_left_hub (WFg none2 none1) f l h0) end.
    + eapply wf_equiv; [apply equiv_publish|exact W].
    + intros hh x Hhh. destruct (get_sess hh x) as [sx|]; [|exact Hhh].
      destruct (is_virtual (s_kind sx) && negb (N.eqb (s_flags sx) 0)); [|exact Hhh].
      eapply wf_equiv; [apply equiv_publish|exact Hhh].
  - now apply wf_room_request.
  - apply wf_fold_sessions; [exact W|]. intros. now apply wf_recv_event.
  - destruct (get_sess h sid) as [s|]; [|exact W]. destruct (is_virtual (s_kind s)); [exact W|]. now apply wf_recv_event.
  - destruct (get_sess h sid) as [s|]; [|exact W]. destruct (is_virtual (s_kind s)); [exact W|]. now apply wf_recv_event.
  - (* permissions *)
    destruct (get_sess h sid) as [s|] eqn:Hs; [|exact W]. destruct (is_virtual (s_kind s)); [exact W|].
    apply wf_revoke. eapply wf_equiv; [apply equiv_put with s; [exact Hs|reflexivity]|exact W].
  - (* kick through the bus *)
    destruct (get_sess h sid) as [s|]; [|exact W]. destruct (is_virtual (s_kind s)); [exact W|].
    destruct (leave_room h sid false) as [h1 o1] eqn:H1.
    destruct (send_session h1 sid (SBye B_room_session_reconnected)) as [h2 o2] eqn:H2.
    destruct (close_session h2 sid) as [h3 o3] eqn:H3. cbn [fst].
    rewrite (fst_eq _ _ _ H3). apply wf_close_session. rewrite (fst_eq _ _ _ H2). apply wf_send_session.
    rewrite (fst_eq _ _ _ H1). now apply wf_leave_room.
Qed.

Lemma wf_deliver_at h pos : WF h -> WF (fst (deliver_at h pos)).
Proof.
  intros W. unfold deliver_at. destruct (take_nth pos (h_bus h)) as [[p rest]|]; [|exact W].
  apply wf_deliver_pub. unfold WF. eapply wf_equiv; [apply equiv_bus|exact W].
Qed.

Lemma wf_do_api h b room q : WF h -> WF (fst (do_api h b room q)).
Proof.
  unfold WF. intros W. unfold do_api.
  assert (Hpub : forall hh s m, WFg none2 none1 hh -> WFg none2 none1 (publish hh s m)).
  { intros. eapply wf_equiv; [apply equiv_publish|assumption]. }
  destruct q as [|users rs|tag|l|l|ic|tag|ok|del key val]; cbn [fst]; auto.
  - match goal with |- WFg _ _ (fold_left ?f ?l ?h0) => apply (wf_fold_left_hub (WFg none2 none1) f l h0) end.
    + match goal with |- WFg _ _ (fold_left ?f ?l ?h0) => apply (wf_fold_left_hub (WFg none2 none1) f l h0) end; auto.
    + intros hh x Hhh. destruct (aget (h_rs2 hh) (1000000 + x)); auto.
  - match goal with |- context [match ?o with [] => _ | _ => _ end] => destruct o end; cbn [fst]; auto.
    apply Hpub. match goal with |- WFg _ _ (fold_left ?f ?l ?h0) => apply (wf_fold_left_hub (WFg none2 none1) f l h0) end; auto.
    intros hh [[i icv] pm] Hhh. destruct i; auto. destruct pm; auto.
  - match goal with |- context [match ?o with [] => _ | _ => _ end] => destruct o end; cbn [fst]; auto.
  - (* dial-out *)
    destruct ok; cbn [negb fst]; [|exact W]. destruct (dialout_session h b) as [sid|]; [|exact W].
    destruct (send_session h sid (SDialout room)) as [h1 o1] eqn:H1. cbn [fst]. apply Hpub.
    rewrite (fst_eq _ _ _ H1). now apply wf_send_session.
Qed.

Lemma wf_do_tick h secs : WF h -> WF (fst (do_tick h secs)).
Proof.
  unfold WF. intros W. unfold do_tick.
  match goal with |- context [let '(h1, o1) := ?X in _] => destruct X as [h1 o1] eqn:H1 end.
  assert (W1 : WFg none2 none1 h1).
  { destruct (hub_expire_s <? secs); [|injection H1 as <- <-; exact W].
    rewrite (fst_eq _ _ _ H1). apply wf_fold_sessions; [exact W|]. intros. now apply wf_close_session. }
  match goal with |- context [let '(h2, o2) := ?X in _] => destruct X as [h2 o2] eqn:H2 end.
  assert (W2 : WFg none2 none1 h2).
  { destruct (hub_anonymous_s <? secs); [|injection H2 as <- <-; exact W1].
    rewrite (fst_eq _ _ _ H2). apply wf_fold_sessions; [exact W1|]. intros hh sid Hhh.
    destruct (get_sess hh sid) as [s|]; [|exact Hhh].
    match goal with |- context [let '(h3, o3) := ?X in _] => destruct X as [h3 o3] eqn:H3 end.
    assert (W3 : WFg none2 none1 h3).
    { destruct (s_conn s); [|injection H3 as <- <-; exact Hhh]. rewrite (fst_eq _ _ _ H3). now apply wf_send_conn. }
    destruct (close_session h3 sid) as [h4 o4] eqn:H4. cbn [fst]. rewrite (fst_eq _ _ _ H4). now apply wf_close_session. }
  match goal with |- context [let '(h3, o3) := ?X in _] => destruct X as [h3 o3] eqn:H3 end.
  cbn [fst]. destruct (hub_hello_s <? secs); [|injection H3 as <- <-; exact W2].
  rewrite (fst_eq _ _ _ H3). apply wf_fold_sessions; [exact W2|]. intros. now apply wf_send_conn.
Qed.

(* ------------------------------------------------------------------ virtual sessions *)
Lemma wf_close_one_noninternal h x :
  WF h -> (forall sx, get_sess h x = Some sx -> is_internal (s_kind sx) = false) -> WF (fst (close_one h x)).
Proof.
  unfold WF. intros W Hx.
  apply (wf_drop_exception none2 none1 _ x); [now apply wf_close_one|].
  intros vs s v Hs Hk.
  assert (Hne : vs <> x) by (intros ->; rewrite close_one_gone in Hs; discriminate).
  pose proof (close_one_core h x vs Hne) as Hq. rewrite Hs in Hq. cbn in Hq.
  destruct (get_sess h vs) as [s0|] eqn:Hs0; [|discriminate]. cbn in Hq. apply core_some_eq in Hq as (_ & Hq & _).
  destruct (wf_parent _ _ h W vs s0 x v Hs0 ltac:(congruence)) as [[]|[ps [Hps Hpi]]].
  rewrite (Hx ps Hps) in Hpi. discriminate.
Qed.

Lemma wf_set_vt h p v vs s :
  WF h -> get_sess h vs = Some s -> s_kind s = KVirtual p v -> WF (set_vtable h (pset (h_vtable h) (p, v) vs)).
Proof.
  unfold WF. intros W Hs Hk. constructor; try apply W.
  intros p' v' vs'. hsimpl. rewrite pget_pset. destruct (pair_eqb_spec (p', v') (p, v)) as [Heq|]; [|apply (wf_vt _ _ h W)].
  injection Heq as -> ->. intros H. injection H as <-. eauto.
Qed.

Lemma wf_del_vt h k : WF h -> WF (set_vtable h (pdel (h_vtable h) k)).
Proof.
  unfold WF. intros W. constructor; try apply W.
  intros p v vs. hsimpl. rewrite pget_pdel. destruct (pair_eqb (p, v) k); [discriminate|apply (wf_vt _ _ h W)].
Qed.

Lemma aset_aset {V} (l : alist V) k v0 v : aset (aset l k v0) k v = aset l k v.
Proof.
  induction l as [|[k' v'] r IH]; cbn; [now rewrite N.eqb_refl|].
  destruct (N.eqb_spec k k'); cbn; [now rewrite N.eqb_refl|]. destruct (N.eqb_spec k k'); [contradiction|]. now rewrite IH.
Qed.

Lemma wf_do_internal h c sid s q :
  WF h -> get_sess h sid = Some s -> is_internal (s_kind s) = true -> WF (fst (do_internal h c sid s q)).
Proof.
  unfold WF. intros W Hs Hint. unfold do_internal.
  assert (Hpub : forall hh sj m, WFg none2 none1 hh -> WFg none2 none1 (publish hh sj m)).
  { intros. eapply wf_equiv; [apply equiv_publish|assumption]. }
  destruct q as [v rn user flags incall|v rn flags incall|v rn|ic].
  - (* add *)
    set (k := (s_backend s, rn)). destruct (room_of h k) as [r|] eqn:Hr; [|exact W].
    set (vs := next_id h). set (h0 := set_nextsid h vs).
    assert (W0 : WFg none2 none1 h0) by (eapply wf_equiv; [apply equiv_nextsid|exact W]).
    assert (Hfresh : get_sess h0 vs = None) by (exact (next_id_fresh h)).
    match goal with |- context [mksess (s_backend s) (KVirtual sid v) user (Some k) ?rsv None None [] [] 0 ?ic ?fl [] [] [] 0] =>
      set (vsess := mksess (s_backend s) (KVirtual sid v) user (Some k) rsv None None [] [] 0 ic fl [] [] [] 0);
      set (vsess0 := mksess (s_backend s) (KVirtual sid v) user None rsv None None [] [] 0 ic fl [] [] [] 0) end.
    set (r' := mkroom (nadd vs (r_members r)) (r_incall r) (r_sessdata r) (r_transient r) (r_props r)).
    set (h1 := put_sess (set_rooms h0 (pset (h_rooms h0) k r')) vs vsess).
    assert (W1 : WFg none2 none1 h1).
    { assert (WA : WFg none2 none1 (put_sess h0 vs vsess0)).
      { apply wf_new_session; auto. intros p v' Hk. injection Hk as <- <-. right. exists s. auto. }
      assert (E : h1 = put_sess (set_rooms (put_sess h0 vs vsess0) (pset (h_rooms (put_sess h0 vs vsess0)) k r')) vs vsess).
      { unfold h1, put_sess. hsimpl. now rewrite aset_aset. }
      rewrite E. apply (wf_enter_room _ _ (put_sess h0 vs vsess0) vs vsess0 vsess k r'); auto.
      - unfold get_sess, put_sess. hsimpl. apply aget_aset_same.
      - assert (Hro : room_of (put_sess h0 vs vsess0) k = Some r) by exact Hr. rewrite Hro. reflexivity.
      - assert (Hro : room_of (put_sess h0 vs vsess0) k = Some r) by exact Hr. rewrite Hro. reflexivity. }
    assert (Hs1 : get_sess h1 vs = Some vsess) by (unfold h1, get_sess, put_sess; hsimpl; apply aget_aset_same).
    set (h2 := set_vtable h1 (pset (h_vtable h1) (sid, v) vs)).
    assert (W2 : WFg none2 none1 h2) by (apply (wf_set_vt h1 sid v vs vsess); auto).
    match goal with |- context [rs_set h2 vs ?x] => set (h5 := rs_set h2 vs x) end.
    assert (W5 : WFg none2 none1 h5) by (apply (wf_rs_set _ _ h2 vs _ vsess k); auto).
    match goal with |- context [let '(h10, outs10) := match ?pvx with Some _ => _ | None => _ end in _] => destruct pvx as [pv|] eqn:Hpv end.
    + match goal with |- context [close_one ?hh pv] => set (h9 := hh) end.
      assert (W9 : WFg none2 none1 h9).
      { unfold h9. apply Hpub. destruct (N.eqb _ 0); repeat apply Hpub; exact W5. }
      destruct (close_one h9 pv) as [h10 o10] eqn:H10. cbn [fst]. rewrite (fst_eq _ _ _ H10).
      apply wf_close_one_noninternal; [exact W9|].
      intros sx Hsx.
      (* pv was the virtual session registered under (sid, v) before *)
      destruct (wf_vt _ _ h W sid v pv Hpv) as [sp [Hsp Hkp]].
      assert (Hne : pv <> vs) by (intros ->; unfold vs in Hsp; rewrite (next_id_fresh h) in Hsp; discriminate).
      assert (Hsame : get_sess h9 pv = get_sess h pv).
      { assert (Hh5 : h_sessions h5 = h_sessions h2) by apply rs_set_sessions.
        assert (Hh9 : h_sessions h9 = h_sessions h5).
        { unfold h9. destruct (N.eqb _ 0); reflexivity. }
        unfold get_sess. rewrite Hh9, Hh5. unfold h2, h1, put_sess. hsimpl. rewrite aget_aset_other by assumption. reflexivity. }
      rewrite Hsame, Hsp in Hsx. injection Hsx as <-. rewrite Hkp. reflexivity.
    + cbn [fst]. apply Hpub. destruct (N.eqb _ 0); repeat apply Hpub; exact W5.
  - (* update *)
    set (k := (s_backend s, rn)).
    destruct (room_of h k) as [r|]; [|exact W]. destruct (pget (h_vtable h) (sid, v)) as [vs|]; [|exact W].
    destruct (get_sess h vs) as [t|] eqn:Ht; [|exact W]. cbn [fst].
    match goal with |- context [put_sess h vs ?t1] => set (h1 := put_sess h vs t1) end.
    assert (W1 : WFg none2 none1 h1) by (eapply wf_equiv; [apply equiv_put with t; [exact Ht|reflexivity]|exact W]).
    repeat match goal with |- context [if ?c then _ else _] => destruct c end; repeat apply Hpub; try apply wf_set_incall; repeat apply Hpub; exact W1.
  - (* remove *)
    set (k := (s_backend s, rn)).
    destruct (room_of h k) as [r|]; [|exact W]. destruct (pget (h_vtable h) (sid, v)) as [vs|] eqn:Hv; [|exact W].
    apply wf_close_one_noninternal; [apply wf_del_vt; exact W|].
    intros sx Hsx. destruct (wf_vt _ _ h W sid v vs Hv) as [sv [Hsv Hkv]].
    assert (Hsame : get_sess (set_vtable h (pdel (h_vtable h) (sid, v))) vs = get_sess h vs) by reflexivity.
    rewrite Hsame, Hsv in Hsx. injection Hsx as <-. rewrite Hkv. reflexivity.
  - (* in-call flags of the internal client itself *)
    destruct (N.eqb ic (s_incall s)); [exact W|].
    match goal with |- context [put_sess h sid ?t1] => set (h1 := put_sess h sid t1) end.
    assert (W1 : WFg none2 none1 h1) by (eapply wf_equiv; [apply equiv_put with s; [exact Hs|reflexivity]|exact W]).
    destruct (s_room s) as [k|]; [|exact W1].
    destruct (N.testbit ic 0); [cbn [fst]; apply Hpub; now apply wf_set_incall|].
    destruct (leave_call (set_incall h1 k sid false) sid) as [h2 o2] eqn:H2. cbn [fst]. apply Hpub.
    rewrite (fst_eq _ _ _ H2). apply wf_leave_call. now apply wf_set_incall.
Qed.

(* ------------------------------------------------------------------ media: nothing the invariant reads changes *)
Lemma equiv_finish_create h tok p ok : equiv h (fst (finish_create h tok p ok)).
Proof.
  unfold finish_create.
  assert (Hsend : forall hh x m, never_closing m = true -> equiv h hh -> equiv h (fst (send_session hh x m))).
  { intros hh x m Hm E. eapply equiv_trans; [exact E|]. now apply equiv_send_session. }
  assert (Hcond : forall hh (b : bool) x m, never_closing m = true -> equiv h hh ->
            equiv h (fst (if b then send_session hh x m else (hh, [])))).
  { intros hh b x m Hm E. destruct b; [now apply Hsend|exact E]. }
  destruct ok; cbn [negb].
  2:{ destruct (send_session h (mp_errto p) (SError E_client_not_found)) as [h1 o1] eqn:H1. cbn [fst].
      rewrite (fst_eq _ _ _ H1). apply Hsend; [reflexivity|apply equiv_refl]. }
  destruct (get_sess h (mp_owner p)) as [s|] eqn:Hs; [|apply equiv_refl].
  destruct (negb (N.eqb (s_rel s) (mp_rel p))).
  { destruct (send_session h (mp_errto p) (SError E_client_not_found)) as [h1 o1] eqn:H1. cbn [fst].
    rewrite (fst_eq _ _ _ H1). apply Hsend; [reflexivity|apply equiv_refl]. }
  destruct (N.eqb (mp_kind p) 0 && negb (offer_allowed (s_perms s) (mp_stream p) (N.land (mp_media p) 3))).
  { destruct (send_session h (mp_errto p) (SError E_not_allowed)) as [h1 o1] eqn:H1. cbn [fst].
    rewrite (fst_eq _ _ _ H1). apply Hsend; [reflexivity|apply equiv_refl]. }
  destruct (N.eqb (mp_kind p) 0).
  - destruct (aget (s_pubs s) (mp_stream p)).
    + match goal with |- context [let '(h1, o1) := ?X in _] => destruct X as [h1 o1] eqn:H1 end. cbn [fst].
      rewrite (fst_eq _ _ _ H1). apply Hcond; [reflexivity|apply equiv_refl].
    + match goal with |- context [let '(h3, o3) := ?X in _] => destruct X as [h3 o3] eqn:H3 end. cbn [fst].
      rewrite (fst_eq _ _ _ H3). apply Hcond; [reflexivity|].
      eapply equiv_trans; [|apply equiv_mcu]. apply equiv_put with s; [exact Hs|reflexivity].
  - destruct (sub_get s (mp_pubof p) (mp_stream p)).
    + match goal with |- context [let '(h1, o1) := ?X in _] => destruct X as [h1 o1] eqn:H1 end. cbn [fst].
      rewrite (fst_eq _ _ _ H1). apply Hcond; [reflexivity|apply equiv_refl].
    + match goal with |- context [let '(h3, o3) := ?X in _] => destruct X as [h3 o3] eqn:H3 end. cbn [fst].
      rewrite (fst_eq _ _ _ H3). apply Hcond; [reflexivity|].
      eapply equiv_trans; [|apply equiv_mcu]. apply equiv_put with s; [exact Hs|reflexivity].
Qed.

Lemma equiv_start_create h p : equiv h (fst (start_create h p)).
Proof.
  unfold start_create. destruct (h_gated h); [cbn [fst]; apply equiv_mcu|].
  match goal with |- context [let '(h1, o1) := ?X in _] => destruct X as [h1 o1] eqn:H1 end. cbn [fst].
  rewrite (fst_eq _ _ _ H1). eapply equiv_trans; [apply equiv_mcu|]. apply equiv_finish_create.
Qed.

Lemma equiv_do_mcudone h tok ok : equiv h (fst (do_mcudone h tok ok)).
Proof.
  unfold do_mcudone. destruct (aget (h_mcupending h) tok) as [p|]; [|apply equiv_refl].
  eapply equiv_trans; [apply equiv_mcu|]. apply equiv_finish_create.
Qed.

Lemma equiv_do_sendoffer h c x s i stream : equiv h (fst (do_sendoffer h c x s i stream)).
Proof.
  unfold do_sendoffer.
  destruct i as [n|n|k|n]; try (destruct (negb (send_allowed (s_perms s) stream)); [apply equiv_refl|apply equiv_refl]).
  destruct (get_sess h n) as [t|] eqn:Ht; [|destruct (negb (send_allowed (s_perms s) stream)); [apply equiv_refl|apply equiv_refl]].
  destruct (N.eqb_spec (s_backend t) (s_backend s)) as [Hbt|]; cbn [negb]; [|apply equiv_refl].
  destruct (N.eqb n x); [apply equiv_refl|].
  destruct (negb (send_allowed (s_perms s) stream)); [apply equiv_refl|].
  cbv zeta. set (r := match s_kind t with KVirtual p _ => p | _ => n end).
  destruct (get_sess h r) as [rs|] eqn:Hr; [|apply equiv_refl].
  destruct (is_virtual (s_kind rs)) eqn:Hv; [apply equiv_refl|].
  destruct (sub_get rs x stream); [apply equiv_send_session; reflexivity|apply equiv_start_create].
Qed.

Lemma equiv_do_media h c sid s to mk stream media :
  get_sess h sid = Some s -> equiv h (fst (do_media h c sid s to mk stream media)).
Proof.
  intros Hs. unfold do_media. destruct to as [i|u| |]; try apply equiv_refl.
  destruct (N.eqb mk 0).
  - destruct (negb (offer_allowed (s_perms s) stream _)); [apply equiv_refl|].
    destruct (aget (s_pubs s) stream); [|apply equiv_start_create].
    eapply equiv_trans; [|apply equiv_send_session; reflexivity]. apply equiv_put with s; [exact Hs|reflexivity].
  - destruct (N.eqb mk 1).
    + match goal with |- context [if ?c then _ else _] => destruct c end; [apply equiv_refl|].
      destruct (negb (same_call h sid s _)); [apply equiv_refl|].
      destruct (sub_get s _ stream); [apply equiv_send_session; reflexivity|apply equiv_start_create].
    + destruct (is_cand mk); [|destruct (N.eqb mk 3); [apply equiv_do_sendoffer|apply equiv_refl]].
      match goal with |- context [if ?c then _ else _] => destruct c end.
      * destruct (negb (send_allowed (s_perms s) stream)); [apply equiv_refl|]. destruct (aget (s_pubs s) stream); apply equiv_refl.
      * destruct (sub_get s _ stream); apply equiv_refl.
Qed.

(* ------------------------------------------------------------------ every step keeps the invariant *)
Theorem wf_step h o : WF h -> WF (fst (step h o)).
Proof.
  unfold WF. intros W.
  assert (Hws : forall c (f : conn -> N -> session -> hub * list out),
            (forall cn sid s, aget (h_conns h) c = Some cn -> get_sess h sid = Some s -> WFg none2 none1 (fst (f cn sid s))) ->
            WFg none2 none1 (fst (with_session h c f))).
  { intros c f Hf. unfold with_session. destruct (aget (h_conns h) c) as [cn|] eqn:Hc; [|exact W].
    destruct (c_sess cn) as [sid|]; [|exact W]. destruct (get_sess h sid) as [s|] eqn:Hs; [|exact W]. eauto. }
  destruct o as [c addr|c hl|c rn rs rep|c to tag|c to tag|c|c|secs|b signas room q|c q|c to mk stream media|tok ok|c kindn key val|pos|c hl late]; cbn [step].
  15:{ (* a hello whose connection is closed while it is processed *)
    destruct (aget (h_conns h) c) as [cn|] eqn:Hc; [|exact W]. destruct (c_sess cn) eqn:Hcs; [exact W|].
    destruct hl as [b u rej|b u t|b tok f d|i]; try exact W.
    - destruct rej; [exact W|]. destruct (h_nb h <=? b); [exact W|].
      match goal with |- context [close_conn ?hh c] => destruct (close_conn hh c) as [h2 o2] eqn:H2;
        assert (W2 : WFg none2 none1 h2) by (rewrite (fst_eq _ _ _ H2); apply wf_close_conn; destruct late; [eapply wf_equiv; [apply equiv_nextsid|exact W]|exact W]) end.
      exact W2.
    - now apply wf_close_conn. }
  - destruct (aget (h_conns h) c); [exact W|]. cbn [fst]. now apply wf_set_conn_nosess.
  - destruct (aget (h_conns h) c) as [cn|] eqn:Hc; [|exact W]. destruct (c_sess cn) eqn:Hcs; [exact W|].
    apply wf_do_hello; [now apply wf_set_conn_nosess|]. hsimpl. apply aget_aset_same.
  - apply Hws. intros cn sid s Hc Hs.
    destruct (do_join h c sid s rn rs rep) as [h1 o1] eqn:H1.
    assert (W1 : WFg none2 none1 h1) by (rewrite (fst_eq _ _ _ H1); now apply wf_do_join).
    destruct rep as [[pm|] su|code]; try exact W1.
    destruct (get_sess h1 sid) as [s1|]; [|exact W1].
    match goal with |- context [if ?cnd then _ else _] => destruct cnd end; [|exact W1].
    destruct (revoke h1 sid) as [h2 o2] eqn:H2. cbn [fst]. rewrite (fst_eq _ _ _ H2). now apply wf_revoke.
  - apply Hws. intros. now apply wf_do_message.
  - apply Hws. intros cn sid s Hc Hs. destruct (allowed_control s); [now apply wf_do_message|exact W].
  - destruct (aget (h_conns h) c) as [cn|]; [|exact W]. destruct (c_sess cn); [now apply wf_send_conn|exact W].
  - (* the connection is cut *)
    destruct (aget (h_conns h) c) as [cn|] eqn:Hc; [|exact W].
    pose proof (wf_del_conn _ _ h c W) as W1.
    destruct (c_sess cn) as [sid|] eqn:Hcs; [|exact W1].
    destruct (get_sess (set_conns h (adel (h_conns h) c)) sid) as [s|] eqn:Hs; [|exact W1]. cbn [fst].
    assert (W2 : WFg none2 none1 (put_sess (set_conns h (adel (h_conns h) c)) sid (sess_conn s None))).
    { apply wf_sess_conn_none; [exact W1|exact Hs|].
      intros c' cn'. hsimpl. rewrite aget_adel. destruct (N.eqb_spec c' c) as [->|Hne]; [discriminate|]. intros Hc' Hx.
      destruct (wf_conns _ _ h W c cn sid Hc Hcs) as [s1 [Hs1 Hc1]].
      destruct (wf_conns _ _ h W c' cn' sid Hc' Hx) as [s2 [Hs2 Hc2]]. rewrite Hs1 in Hs2. injection Hs2 as <-. congruence. }
    set (h2 := put_sess (set_conns h (adel (h_conns h) c)) sid (sess_conn s None)) in *.
    assert (W3 : WFg none2 none1 (set_clients h2 (nrem sid (h_clients h2)))).
    { apply wf_set_clients; [exact W2|]. intros x Hx. apply (wf_clients _ _ _ W2). eapply in_nrem; eauto. }
    apply wf_set_expired; [exact W3|]. intros x Hx. apply in_nadd in Hx as [->|Hx]; [|apply (wf_expired _ _ _ W3 x Hx)].
    exists (sess_conn s None). unfold h2, get_sess, put_sess. hsimpl. apply aget_aset_same.
  - now apply wf_do_tick.
  - destruct (negb (N.eqb b signas) || (h_nb h <=? b)); [exact W|]. now apply wf_do_api.
  - apply Hws. intros cn sid s Hc Hs. destruct (is_internal (s_kind s)) eqn:Hi; [now apply wf_do_internal|exact W].
  - apply Hws. intros cn sid s Hc Hs. eapply wf_equiv; [now apply equiv_do_media|exact W].
  - eapply wf_equiv; [apply equiv_do_mcudone|exact W].
  - (* transient data *)
    apply Hws. intros cn sid s Hc Hs. destruct (s_room s) as [k|]; [|exact W].
    destruct (2 <=? kindn); [exact W|].
    destruct (negb (allowed_transient s)); [exact W|]. destruct (room_of h k) as [r|] eqn:Hr; [|exact W].
    now apply wf_transient_update.
  - now apply wf_deliver_at.
Qed.

Lemma wf_drain fuel : forall h, WF h -> WF (fst (drain fuel h)).
Proof.
  induction fuel as [|f IH]; intros h W; cbn [drain]; [exact W|].
  destruct (h_bus h); [exact W|].
  destruct (deliver_at h 0) as [h1 o1] eqn:H1. destruct (drain f h1) as [h2 o2] eqn:H2. cbn [fst].
  rewrite (fst_eq _ _ _ H2). apply IH. rewrite (fst_eq _ _ _ H1). now apply wf_deliver_at.
Qed.

Theorem wf_qstep h o : WF h -> WF (fst (qstep h o)).
Proof.
  intros W. unfold qstep. destruct (step h o) as [h1 o1] eqn:H1. destruct (drain 500 h1) as [h2 o2] eqn:H2. cbn [fst].
  rewrite (fst_eq _ _ _ H2). apply wf_drain. rewrite (fst_eq _ _ _ H1). now apply wf_step.
Qed.

(* every history, every delivery order: ODeliver is an op, so a history is any interleaving of
   client / backend / clock ops with deliveries of queued publications in any order *)
Fixpoint run (h : hub) (ops : list op) : hub :=
  match ops with [] => h | o :: r => run (fst (step h o)) r end.
Fixpoint qrun (h : hub) (ops : list op) : hub :=
  match ops with [] => h | o :: r => qrun (fst (qstep h o)) r end.

Theorem wf_run ops : forall h, WF h -> WF (run h ops).
Proof. induction ops as [|o r IH]; intros h W; cbn [run]; [exact W|]. apply IH. now apply wf_step. Qed.
Theorem wf_qrun ops : forall h, WF h -> WF (qrun h ops).
Proof. induction ops as [|o r IH]; intros h W; cbn [qrun]; [exact W|]. apply IH. now apply wf_qstep. Qed.

Corollary wf_reachable limits gated ops : WF (run (init limits gated) ops).
Proof. apply wf_run. apply wf_init. Qed.
Corollary wf_reachable_q limits gated ops : WF (qrun (init limits gated) ops).
Proof. apply wf_qrun. apply wf_init. Qed.
