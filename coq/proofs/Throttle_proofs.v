(* Proofs about model/Throttle.v and the trace predicate of corr/Run_C17.v *)
From Coq Require Import List ZArith NArith Bool Lia Sorting.Sorted.
From Verif Require Import gen.Params model.Throttle corr.Run_C17.
Import ListNotations.
Open Scope Z_scope.

(* The numbers in the source are the numbers of the property. *)
Lemma params_ok :
  maxBruteforceAttempts = Z.of_nat spec_attempts /\
  maxBruteforceDurationThreshold = spec_window /\
  maxBruteforceAge = spec_age /\
  maxThrottleDelay = spec_maxdelay.
Proof. repeat split; reflexivity. Qed.

Lemma attempts_nat : Z.to_nat maxBruteforceAttempts = spec_attempts.
Proof. destruct params_ok as [-> _]. apply Nat2Z.id. Qed.
Lemma window_eq : maxBruteforceDurationThreshold = spec_window. Proof. apply params_ok. Qed.
Lemma age_eq : maxBruteforceAge = spec_age. Proof. apply params_ok. Qed.
Lemma maxdelay_eq : maxThrottleDelay = spec_maxdelay. Proof. apply params_ok. Qed.

(* ---- delay table ---- *)
Lemma delay_bounded c : 0 <= c -> 0 < get_delay c <= spec_maxdelay.
Proof.
  intros Hc. unfold get_delay. rewrite maxdelay_eq. unfold spec_maxdelay.
  destruct (Z.gtb_spec c 16); [lia|].
  assert (0 < 2 ^ c) by (apply Z.pow_pos_nonneg; lia). lia.
Qed.
Lemma delay_monotone c1 c2 : 0 <= c1 <= c2 -> get_delay c1 <= get_delay c2.
Proof.
  intros H. unfold get_delay. rewrite maxdelay_eq. unfold spec_maxdelay.
  destruct (Z.gtb_spec c1 16), (Z.gtb_spec c2 16); try lia.
  assert (2 ^ c1 <= 2 ^ c2) by (apply Z.pow_le_mono_r; lia). lia.
Qed.
(* the product computed in Go's int (64 bit) cannot wrap for the guarded range *)
Lemma delay_no_overflow c : 0 <= c <= 16 -> 100 * 2 ^ c * 1000000 < 2 ^ 63.
Proof.
  intros H. assert (2 ^ c <= 2 ^ 16) by (apply Z.pow_le_mono_r; lia).
  change (2 ^ 16) with 65536 in *. change (2 ^ 63) with 9223372036854775808. lia.
Qed.

(* ---- keys ---- *)
Lemma ipkey_eqb_spec a b : reflect (a = b) (ipkey_eqb a b).
Proof.
  destruct a as [x|x|x], b as [y|y|y]; cbn; try (constructor; congruence);
  destruct (N.eqb_spec x y); constructor; congruence.
Qed.
Lemma key_eqb_spec a b : reflect (a = b) (key_eqb a b).
Proof.
  destruct a as [a1 a2], b as [b1 b2]. unfold key_eqb. cbn [fst snd].
  destruct (ipkey_eqb_spec a1 b1), (N.eqb_spec a2 b2); cbn; constructor; congruence.
Qed.
Lemma key_eqb_refl k : key_eqb k k = true.
Proof. destruct (key_eqb_spec k k); congruence. Qed.
Lemma key_eqb_sym a b : key_eqb a b = key_eqb b a.
Proof. destruct (key_eqb_spec a b), (key_eqb_spec b a); congruence. Qed.

Lemma upd_same s k v : upd s k v k = v.
Proof. unfold upd. now rewrite key_eqb_refl. Qed.
Lemma upd_other s k v k' : k <> k' -> upd s k v k' = s k'.
Proof. unfold upd. destruct (key_eqb_spec k k'); congruence. Qed.

Lemma same_64_same_key hi lo1 lo2 (act : N) :
  (throttle_ip (A6 hi lo1), act) = (throttle_ip (A6 hi lo2), act).
Proof. reflexivity. Qed.
Lemma other_64_other_key hi1 lo1 hi2 lo2 (act1 act2 : N) :
  hi1 <> hi2 -> (throttle_ip (A6 hi1 lo1), act1) <> (throttle_ip (A6 hi2 lo2), act2).
Proof. cbn. congruence. Qed.
Lemma other_v4_other_key n1 n2 (act1 act2 : N) :
  n1 <> n2 -> (throttle_ip (A4 n1), act1) <> (throttle_ip (A4 n2), act2).
Proof. cbn. congruence. Qed.
Lemma other_action_other_key a1 a2 (act1 act2 : N) :
  act1 <> act2 -> (throttle_ip a1, act1) <> (throttle_ip a2, act2).
Proof. congruence. Qed.

(* ---- sorted lists of time stamps ---- *)
Definition asc (l : list Z) := StronglySorted Z.le l.

Lemma asc_app_r a b : asc (a ++ b) -> asc b.
Proof. induction a; cbn; intros H; [exact H|]. inversion H; auto. Qed.

Lemma asc_snoc l x : asc l -> (forall t, In t l -> t <= x) -> asc (l ++ [x]).
Proof.
  induction 1 as [|a l Hs IH Ha]; intros H; cbn.
  - constructor; constructor.
  - constructor.
    + apply IH. intros t Ht. apply H. now right.
    + rewrite Forall_forall in *. intros t Ht. apply in_app_or in Ht as [Ht|[<-|[]]]; [auto|].
      apply H. now left.
Qed.

Lemma within_all w now l : (forall t, In t l -> now - t <= w) -> within w now l = l.
Proof.
  induction l as [|a l IH]; intros H; cbn; [reflexivity|].
  destruct (Z.leb_spec (now - a) w) as [Ha|Ha].
  - f_equal. apply IH. intros t Ht. apply H. now right.
  - exfalso. specialize (H a (or_introl eq_refl)). lia.
Qed.
Lemma within_none w now l : (forall t, In t l -> now - t > w) -> within w now l = [].
Proof.
  induction l as [|a l IH]; intros H; cbn; [reflexivity|].
  destruct (Z.leb_spec (now - a) w) as [Ha|Ha].
  - specialize (H a (or_introl eq_refl)). lia.
  - apply IH. intros t Ht. apply H. now right.
Qed.
Lemma within_app w now a b : within w now (a ++ b) = within w now a ++ within w now b.
Proof. unfold within. apply filter_app. Qed.
Lemma within_len_le w now l : (length (within w now l) <= length l)%nat.
Proof. unfold within. induction l as [|a l IH]; cbn; [lia|]. destruct (now - a <=? w); cbn; lia. Qed.

Lemma window_nth w now l n :
  asc l -> (1 <= n <= length l)%nat ->
  (now - nth (length l - n) l 0 <= w <-> (n <= length (within w now l))%nat).
Proof.
  intros Hs. revert n. induction Hs as [|a l Hs IH Ha]; intros n Hn; cbn [length] in *; [lia|].
  rewrite Forall_forall in Ha.
  destruct (Z.leb_spec (now - a) w) as [Hr|Hr].
  - assert (Hall : forall t, In t (a :: l) -> now - t <= w).
    { intros t [<-|Ht]; [lia|]. specialize (Ha t Ht). lia. }
    rewrite (within_all w now (a :: l) Hall). cbn [length]. split; [lia|]. intros _.
    apply Hall. apply nth_In. cbn [length]. lia.
  - unfold within. cbn [filter]. destruct (Z.leb_spec (now - a) w) as [?|_]; [lia|]. fold (within w now l).
    destruct (Nat.eq_dec n (S (length l))) as [->|Hne].
    + replace (S (length l) - S (length l))%nat with 0%nat by lia. cbn [nth].
      split; [lia|]. intros H. pose proof (within_len_le w now l). lia.
    + replace (S (length l) - n)%nat with (S (length l - n)) by lia. cbn [nth].
      apply IH. lia.
Qed.

Lemma blocked_iff now es : asc es ->
  blocked now es = (spec_attempts <=? length (within spec_window now es))%nat.
Proof.
  intros Hs. unfold blocked. rewrite attempts_nat, window_eq.
  destruct (Nat.leb_spec spec_attempts (length es)) as [Hl|Hl]; cbn [andb].
  - pose proof (window_nth spec_window now es spec_attempts Hs) as H.
    assert (Hn : (1 <= spec_attempts <= length es)%nat) by (unfold spec_attempts in *; lia).
    specialize (H Hn).
    destruct (Z.leb_spec (now - nth (length es - spec_attempts) es 0) spec_window) as [Hw|Hw];
    destruct (Nat.leb_spec spec_attempts (length (within spec_window now es))) as [Hc|Hc];
      try reflexivity; exfalso; lia.
  - pose proof (within_len_le spec_window now es) as Hf.
    destruct (Nat.leb_spec spec_attempts (length (within spec_window now es))); [lia|reflexivity].
Qed.

Lemma dropold_cons now a l :
  dropold now (a :: l) = if now - a >? spec_age then dropold now l else a :: l.
Proof. cbn [dropold]. now rewrite age_eq. Qed.

Lemma dropold_split now es :
  exists old, es = old ++ dropold now es /\ forall t, In t old -> now - t > spec_age.
Proof.
  induction es as [|a l IH].
  - exists []. split; [reflexivity|]. intros t [].
  - rewrite dropold_cons. destruct (Z.gtb_spec (now - a) spec_age) as [Ha|Ha].
    + destruct IH as [old [E H]]. exists (a :: old). split; [cbn [app]; now rewrite <- E|].
      intros t [<-|Ht]; [lia|auto].
    + exists []. split; [reflexivity|]. intros t [].
Qed.

Lemma dropold_young now es : asc es -> forall t, In t (dropold now es) -> now - t <= spec_age.
Proof.
  induction 1 as [|a l Hs IH Ha]; [intros t []|].
  rewrite dropold_cons. destruct (Z.gtb_spec (now - a) spec_age) as [Hgt|Hle].
  - exact IH.
  - rewrite Forall_forall in Ha. intros t [<-|Ht]; [lia|]. specialize (Ha t Ht). lia.
Qed.

Lemma dropold_length now es : (length (dropold now es) <= length es)%nat.
Proof.
  induction es as [|a l IH]; [cbn; lia|]. rewrite dropold_cons.
  destruct (now - a >? spec_age); cbn [length]; lia.
Qed.

(* ---- per-key invariant: the stored list is the full record minus a prefix
        that is older than twelve hours ------------------------------------ *)
Record KInv (last : Z) (es rec : list Z) : Prop := {
  inv_split : exists old, rec = old ++ es /\ forall t, In t old -> last - t > spec_age;
  inv_asc : asc rec;
  inv_le : forall t, In t rec -> t <= last
}.

Lemma kinv_init t0 : KInv t0 [] [].
Proof. constructor; [exists []; split; [reflexivity|intros ? []] | constructor | intros ? []]. Qed.

Lemma kinv_mono last now es rec : last <= now -> KInv last es rec -> KInv now es rec.
Proof.
  intros Hle [[old [E Hold]] Ha Hl]. constructor; [|assumption|].
  - exists old. split; [assumption|]. intros t Ht. specialize (Hold t Ht). lia.
  - intros t Ht. specialize (Hl t Ht). lia.
Qed.

Lemma kinv_es_asc last es rec : KInv last es rec -> asc es.
Proof. intros [[old [E _]] Ha _]. subst rec. eapply asc_app_r; eauto. Qed.

Lemma kinv_window last now es rec : last <= now -> KInv last es rec ->
  within spec_window now rec = within spec_window now es.
Proof.
  intros Hle [[old [E Hold]] _ _]. subst rec. rewrite within_app, within_none; [reflexivity|].
  intros t Ht. specialize (Hold t Ht). unfold spec_age, spec_window in *. lia.
Qed.

Lemma kinv_drop last now es rec : last <= now -> KInv last es rec -> KInv now (dropold now es) rec.
Proof.
  intros Hle HI. pose proof (kinv_mono _ _ _ _ Hle HI) as [[old [E Hold]] Ha Hl].
  destruct (dropold_split now es) as [old2 [E2 Hold2]].
  constructor; [|assumption|assumption].
  exists (old ++ old2). split.
  - rewrite <- app_assoc, <- E2. exact E.
  - intros t Ht. apply in_app_or in Ht as [Ht|Ht]; auto.
Qed.

Lemma kinv_snoc last now es rec : last <= now -> KInv last es rec -> KInv now (es ++ [now]) (rec ++ [now]).
Proof.
  intros Hle HI. pose proof (kinv_mono _ _ _ _ Hle HI) as [[old [E Hold]] Ha Hl].
  constructor.
  - exists old. split; [rewrite E; now rewrite app_assoc|assumption].
  - apply asc_snoc; assumption.
  - intros t Ht. apply in_app_or in Ht as [Ht|[<-|[]]]; [auto|lia].
Qed.

(* after the pruning of a check at [now], the stored list is exactly the
   record of the last twelve hours *)
Lemma kinv_age_exact now es rec : KInv now (dropold now es) rec -> asc es ->
  within spec_age now rec = dropold now es.
Proof.
  intros [[old [E Hold]] _ _] Hes. rewrite E, within_app, within_none by assumption.
  cbn [app]. apply within_all. apply dropold_young. assumption.
Qed.

(* ---- history bookkeeping ---- *)
Lemma hist_of_snoc k h k0 t :
  hist_of k (h ++ [(k0, t)]) = if key_eqb k k0 then hist_of k h ++ [t] else hist_of k h.
Proof.
  unfold hist_of. rewrite filter_app, map_app. cbn [filter fst].
  destruct (key_eqb k k0); cbn; [reflexivity|now rewrite app_nil_r].
Qed.

Definition SInv (last : Z) (s : state) (h : hist) : Prop := forall k, KInv last (s k) (hist_of k h).

Lemma sinv_init t0 : SInv t0 init [].
Proof. intros k. apply kinv_init. Qed.

Lemma sinv_mono last now s h : last <= now -> SInv last s h -> SInv now s h.
Proof. intros Hle H k. eapply kinv_mono; eauto. Qed.

Lemma sinv_check last now s h k0 : last <= now -> SInv last s h ->
  SInv now (upd s k0 (dropold now (s k0))) h.
Proof.
  intros Hle H k. destruct (key_eqb_spec k0 k) as [<-|Hne].
  - rewrite upd_same. apply kinv_drop with last; auto.
  - rewrite upd_other by assumption. eapply kinv_mono; eauto.
Qed.

Lemma sinv_fail last now s h k0 : last <= now -> SInv last s h ->
  SInv now (upd s k0 (s k0 ++ [now])) (h ++ [(k0, now)]).
Proof.
  intros Hle H k. rewrite hist_of_snoc. destruct (key_eqb_spec k k0) as [->|Hne].
  - rewrite upd_same. apply kinv_snoc with last; auto.
  - rewrite upd_other by congruence. eapply kinv_mono; eauto.
Qed.

Lemma sinv_cleanup last now s h : last <= now -> SInv last s h ->
  SInv now (fun k => dropold now (s k)) h.
Proof. intros Hle H k. apply kinv_drop with last; auto. Qed.

(* ---- ordered time stamps ---- *)
Fixpoint nondecr (last : Z) (l : list Z) : Prop :=
  match l with [] => True | t :: r => last <= t /\ nondecr t r end.

(* ---- (A) any interleaving with ordered time stamps: window + delay bounds ---- *)
Lemma out_eqb_refl v : out_eqb v v = true.
Proof. destruct v; cbn; auto using Z.eqb_refl. Qed.

Lemma fail_delay_ok (es : list Z) :
  let d := get_delay (Z.of_nat (length es) - 1) in
  (1 <= length es)%nat -> (0 <? d) && (d <=? spec_maxdelay) = true.
Proof.
  intros d Hl. subst d. pose proof (delay_bounded (Z.of_nat (length es) - 1) ltac:(lia)) as [H1 H2].
  apply andb_true_intro. split; [apply Z.ltb_lt|apply Z.leb_le]; assumption.
Qed.

Lemma window_ordered_from ops : forall last s h l,
  nondecr last (map op_time ops) -> SInv last s h ->
  P_gen false h l (trace_from s ops) = true.
Proof.
  induction ops as [|o ops IH]; intros last s h l Hm HI; [reflexivity|].
  cbn [map nondecr] in Hm. destruct Hm as [Hle Hm].
  destruct o as [t a act|t a act|t|t a act]; cbn [op_time] in *.
  - (* check *)
    cbn [trace_from step]. set (k := (throttle_ip a, act)).
    pose proof (HI k) as HK.
    rewrite (blocked_iff t (s k) (kinv_es_asc _ _ _ HK)).
    rewrite <- (kinv_window last t (s k) (hist_of k h) Hle HK).
    destruct (spec_attempts <=? length (within spec_window t (hist_of k h)))%nat eqn:Hb.
    + cbn [P_gen]. fold k. rewrite Hb. cbn [out_eqb andb]. apply IH with t; auto.
      eapply sinv_mono; eauto.
    + cbn [P_gen]. fold k. rewrite Hb. cbn [out_eqb andb]. apply IH with t; auto.
      apply sinv_check with last; auto.
  - (* fail *)
    cbn [trace_from step]. set (k := (throttle_ip a, act)).
    cbn [P_gen]. fold k.
    rewrite (fail_delay_ok (s k ++ [t])) by (rewrite app_length; cbn; lia).
    cbn [negb orb andb]. apply IH with t; auto. apply sinv_fail with last; auto.
  - (* cleanup *)
    cbn [trace_from step P_gen out_eqb andb]. apply IH with t; auto. apply sinv_cleanup with last; auto.
  - (* probe *)
    cbn [trace_from step P_gen]. apply IH with t; auto. eapply sinv_mono; eauto.
Qed.

Theorem window_ordered ops t0 :
  nondecr t0 (map op_time ops) -> P_C17_window (trace_of ops) = true.
Proof. intros H. unfold P_C17_window, trace_of. eapply window_ordered_from; eauto using sinv_init. Qed.

(* ---- (B) sequential histories: the full predicate ---- *)
Definition LInv (l : dlog) : Prop :=
  forall k n d, In (k, n, d) l -> (1 <= n)%nat /\ d = get_delay (Z.of_nat n - 1).

Lemma mono_ok_holds k n l : (1 <= n)%nat -> LInv l ->
  mono_ok k n (get_delay (Z.of_nat n - 1)) l = true.
Proof.
  intros Hn HL. unfold mono_ok. apply forallb_forall. intros [[k' n'] d'] Hin.
  destruct (HL k' n' d' Hin) as [Hn' ->].
  destruct (key_eqb k k'); [|reflexivity].
  apply andb_true_intro. split.
  - destruct (Nat.leb_spec n' n) as [Hc|Hc]; cbn [negb orb]; [|reflexivity].
    apply Z.leb_le. apply delay_monotone. lia.
  - destruct (Nat.leb_spec n n') as [Hc|Hc]; cbn [negb orb]; [|reflexivity].
    apply Z.leb_le. apply delay_monotone. lia.
Qed.

Lemma sequential_from xs : forall last s h l,
  nondecr last (map act_time xs) -> SInv last s h -> LInv l ->
  P_gen true h l (arun_from s xs) = true.
Proof.
  induction xs as [|x xs IH]; intros last s h l Hm HI HL; [reflexivity|].
  cbn [map nondecr] in Hm. destruct Hm as [Hle Hm].
  destruct x as [t a act fails|t]; cbn [act_time] in *.
  - cbn [arun_from step]. set (k := (throttle_ip a, act)).
    pose proof (HI k) as HK.
    pose proof (blocked_iff t (s k) (kinv_es_asc _ _ _ HK)) as Hbl.
    rewrite <- (kinv_window last t (s k) (hist_of k h) Hle HK) in Hbl.
    destruct (blocked t (s k)) eqn:Hb.
    + (* refused *)
      cbn [P_gen]. fold k. rewrite <- Hbl. cbn [out_eqb andb].
      apply IH with t; auto. eapply sinv_mono; eauto.
    + pose proof (sinv_check last t s h k Hle HI) as HI1.
      destruct fails.
      * (* allowed and failed: recorded *)
        cbn [step]. fold k. rewrite upd_same.
        cbn [P_gen]. fold k. rewrite <- Hbl. cbn [out_eqb andb].
        set (es1 := dropold t (s k)).
        rewrite (fail_delay_ok (es1 ++ [t])) by (rewrite app_length; cbn; lia).
        cbn [negb orb andb].
        assert (Hcount : recent_count k t (h ++ [(k, t)]) = length (es1 ++ [t])).
        { unfold recent_count. rewrite hist_of_snoc, key_eqb_refl, within_app.
          pose proof (HI1 k) as HK1. rewrite upd_same in HK1. fold es1 in HK1.
          rewrite (kinv_age_exact t (s k) (hist_of k h) HK1 (kinv_es_asc _ _ _ HK)).
          fold es1. rewrite !app_length. f_equal. cbn.
          replace (t - t) with 0 by lia. reflexivity. }
        rewrite Hcount.
        rewrite mono_ok_holds; [|rewrite app_length; cbn; lia|assumption].
        cbn [andb]. apply IH with t; auto.
        -- (* state after the recording *)
           assert (Hst : upd (upd s k es1) k (es1 ++ [t]) = upd (upd s k es1) k (upd s k es1 k ++ [t])).
           { now rewrite upd_same. }
           rewrite Hst. apply sinv_fail with t; [lia|assumption].
        -- intros k' n' d' [Heq|Hin]; [|eauto].
           injection Heq as <- <- <-. split; [rewrite app_length; cbn; lia|reflexivity].
      * cbn [P_gen]. fold k. rewrite <- Hbl. cbn [out_eqb andb]. apply IH with t; auto.
  - cbn [arun_from step P_gen out_eqb andb]. apply IH with t; auto. apply sinv_cleanup with last; auto.
Qed.

Theorem sequential_full xs t0 :
  nondecr t0 (map act_time xs) -> P_C17 (arun xs) = true.
Proof.
  intros H. unfold P_C17, arun. eapply sequential_from; eauto using sinv_init.
  intros k n d [].
Qed.

(* ---- (C) isolation, for every op list: what happens on one key is a
        function of the ops that touch that key ------------------------------ *)
(* [touches] and [outs_for] are defined in corr/Run_C17.v (the isolation predicate uses them) *)

Lemma step_other s o k : touches k o = false -> fst (step s o) k = s k.
Proof.
  unfold touches. destruct o as [t a act|t a act|t|t a act]; cbn [op_key]; intros H; try discriminate.
  - cbn [step]. destruct (blocked t _); cbn [fst]; [reflexivity|].
    apply upd_other. intros E. rewrite E, key_eqb_refl in H. discriminate.
  - cbn [step fst]. apply upd_other. intros E. rewrite E, key_eqb_refl in H. discriminate.
  - reflexivity.
Qed.

Lemma step_same s1 s2 o k : touches k o = true -> s1 k = s2 k ->
  fst (step s1 o) k = fst (step s2 o) k /\ snd (step s1 o) = snd (step s2 o).
Proof.
  unfold touches. destruct o as [t a act|t a act|t|t a act]; cbn [op_key]; intros H E.
  - destruct (key_eqb_spec k (throttle_ip a, act)) as [Hk|]; [|discriminate].
    cbn [step]. rewrite <- Hk, E. destruct (blocked t (s2 k)); cbn [fst snd]; [auto|].
    now rewrite !upd_same.
  - destruct (key_eqb_spec k (throttle_ip a, act)) as [Hk|]; [|discriminate].
    cbn [step fst snd]. rewrite <- Hk. now rewrite !upd_same, E.
  - cbn [step fst snd]. now rewrite E.
  - destruct (key_eqb_spec k (throttle_ip a, act)) as [Hk|]; [|discriminate].
    cbn [step fst snd]. rewrite <- Hk. now rewrite E.
Qed.

Lemma isolation_from k ops : forall s1 s2, s1 k = s2 k ->
  outs_for k (trace_from s1 ops) = outs_for k (trace_from s2 (filter (touches k) ops)) /\
  snd (run_from s1 ops) k = snd (run_from s2 (filter (touches k) ops)) k.
Proof.
  induction ops as [|o ops IH]; intros s1 s2 E; [cbn; auto|].
  cbn [filter]. destruct (touches k o) eqn:Ht.
  - cbn [trace_from run_from]. destruct (step_same s1 s2 o k Ht E) as [E1 E2].
    destruct (step s1 o) as [s1' v1], (step s2 o) as [s2' v2]. cbn [fst snd] in *. subst v2.
    cbn [outs_for]. rewrite Ht. destruct (IH s1' s2' E1) as [I1 I2].
    destruct (run_from s1' ops), (run_from s2' (filter (touches k) ops)). cbn [snd] in *.
    split; [now f_equal|assumption].
  - cbn [trace_from run_from]. pose proof (step_other s1 o k Ht) as E1.
    destruct (step s1 o) as [s1' v1]. cbn [fst] in E1. cbn [outs_for]. rewrite Ht.
    destruct (IH s1' s2 (eq_trans E1 E)) as [I1 I2].
    destruct (run_from s1' ops). cbn [snd] in *. auto.
Qed.

Theorem isolation k ops :
  outs_for k (trace_of ops) = outs_for k (trace_of (filter (touches k) ops)) /\
  final ops k = final (filter (touches k) ops) k.
Proof. unfold trace_of, final. apply isolation_from. reflexivity. Qed.

(* the isolation predicate of corr/Run_C17.v holds on the model, for every op
   list and every key: the answers of the restricted run are the answers the
   key gets in the full run *)
Lemma outs_eqb_refl l : outs_eqb l l = true.
Proof. induction l as [|v l IH]; cbn; [reflexivity|]. now rewrite out_eqb_refl, IH. Qed.

Lemma outs_for_all k ops : forall s, forallb (touches k) ops = true ->
  outs_for k (trace_from s ops) = map snd (trace_from s ops).
Proof.
  induction ops as [|o ops IH]; intros s H; [reflexivity|].
  cbn [forallb] in H. apply andb_prop in H as [Ho Hr].
  cbn [trace_from]. destruct (step s o) as [s' v]. cbn [outs_for map snd]. rewrite Ho.
  f_equal. now apply IH.
Qed.

Lemma forallb_filter_self {A} (f : A -> bool) l : forallb f (filter f l) = true.
Proof.
  induction l as [|a l IH]; [reflexivity|]. cbn [filter]. destruct (f a) eqn:E; [|exact IH].
  cbn [forallb]. now rewrite E, IH.
Qed.

Theorem iso_holds k ops :
  iso_ok k (trace_of ops) (map snd (trace_of (filter (touches k) ops))) = true.
Proof.
  unfold iso_ok. destruct (isolation k ops) as [E _]. rewrite E.
  unfold trace_of. rewrite outs_for_all by apply forallb_filter_self. apply outs_eqb_refl.
Qed.

Theorem P_iso_holds ops ks :
  P_C17_iso (trace_of ops)
    (map (fun k => (k, map snd (trace_of (filter (touches k) ops)))) ks) = true.
Proof.
  unfold P_C17_iso. apply forallb_forall. intros e He. apply in_map_iff in He as [k [<- _]].
  cbn [fst snd]. apply iso_holds.
Qed.

(* the same for sequential histories, restricted at the level of attempts (this
   is what the harness executes: an attempt on another key disappears as a
   whole, check and recording) *)
Definition stouches (k : key) (x : sop) : bool :=
  match x with Attempt _ a act _ => key_eqb k (throttle_ip a, act) | Cleanup _ => true end.

Lemma iso_sequential_from k xs : forall s1 s2, s1 k = s2 k ->
  outs_for k (arun_from s1 xs) = map snd (arun_from s2 (filter (stouches k) xs)).
Proof.
  induction xs as [|x xs IH]; intros s1 s2 E; [reflexivity|].
  destruct x as [t a act fails|t].
  - cbn [filter stouches]. destruct (key_eqb k (throttle_ip a, act)) eqn:Hk.
    + assert (Tc : touches k (OCheck t a act) = true) by (unfold touches; cbn [op_key]; exact Hk).
      assert (Tf : touches k (OFail t a act) = true) by (unfold touches; cbn [op_key]; exact Hk).
      cbn [arun_from].
      destruct (step_same s1 s2 _ k Tc E) as [E1 V1].
      destruct (step s1 (OCheck t a act)) as [s1' v1], (step s2 (OCheck t a act)) as [s2' v2].
      cbn [fst snd] in E1, V1. subst v2.
      destruct v1; try (cbn [outs_for map snd]; rewrite Tc; f_equal; now apply IH).
      destruct fails; [|cbn [outs_for map snd]; rewrite Tc; f_equal; now apply IH].
      destruct (step_same s1' s2' _ k Tf E1) as [E2 V2].
      destruct (step s1' (OFail t a act)) as [s1'' w1], (step s2' (OFail t a act)) as [s2'' w2].
      cbn [fst snd] in E2, V2. subst w2.
      cbn [outs_for map snd]. rewrite Tc, Tf. do 2 f_equal. now apply IH.
    + assert (Tc : touches k (OCheck t a act) = false) by (unfold touches; cbn [op_key]; exact Hk).
      assert (Tf : touches k (OFail t a act) = false) by (unfold touches; cbn [op_key]; exact Hk).
      cbn [arun_from].
      pose proof (step_other s1 _ k Tc) as E1.
      destruct (step s1 (OCheck t a act)) as [s1' v1]. cbn [fst] in E1.
      destruct v1; try (cbn [outs_for]; rewrite Tc; apply IH; congruence).
      destruct fails; [|cbn [outs_for]; rewrite Tc; apply IH; congruence].
      pose proof (step_other s1' _ k Tf) as E2.
      destruct (step s1' (OFail t a act)) as [s1'' w1]. cbn [fst] in E2.
      cbn [outs_for]. rewrite Tc, Tf. apply IH. congruence.
  - cbn [filter stouches arun_from].
    assert (Tc : touches k (OCleanup t) = true) by reflexivity.
    destruct (step_same s1 s2 _ k Tc E) as [E1 V1].
    destruct (step s1 (OCleanup t)) as [s1' v1], (step s2 (OCleanup t)) as [s2' v2].
    cbn [fst snd] in E1, V1. subst v2. cbn [outs_for map snd]. rewrite Tc. f_equal. now apply IH.
Qed.

Theorem iso_sequential k xs :
  iso_ok k (arun xs) (map snd (arun (filter (stouches k) xs))) = true.
Proof.
  unfold iso_ok, arun. rewrite (iso_sequential_from k xs init init eq_refl). apply outs_eqb_refl.
Qed.

(* ---- (D) every interleaving: refused only with ten stored failures, every
        stored entry is a recorded failure ------------------------------------- *)
Fixpoint fails_on (k : key) (ops : list op) : nat :=
  match ops with
  | [] => 0%nat
  | OFail _ a act :: r => ((if key_eqb k (throttle_ip a, act) then 1 else 0) + fails_on k r)%nat
  | _ :: r => fails_on k r
  end.

Lemma step_len s o k :
  (length (fst (step s o) k) <= length (s k) + fails_on k [o])%nat.
Proof.
  destruct o as [t a act|t a act|t|t a act]; cbn [step fails_on].
  - destruct (blocked t _); cbn [fst]; [lia|].
    destruct (key_eqb_spec (throttle_ip a, act) k) as [Hk|Hne].
    + rewrite <- Hk, upd_same. pose proof (dropold_length t (s (throttle_ip a, act))). lia.
    + rewrite upd_other by assumption. lia.
  - cbn [fst]. destruct (key_eqb_spec k (throttle_ip a, act)) as [Hk|Hne].
    + rewrite <- Hk, upd_same, app_length. cbn. lia.
    + rewrite upd_other by congruence. lia.
  - cbn [fst]. pose proof (dropold_length t (s k)). lia.
  - cbn [fst]. lia.
Qed.

Lemma fails_on_cons k o ops : fails_on k (o :: ops) = (fails_on k [o] + fails_on k ops)%nat.
Proof. destruct o; cbn [fails_on]; lia. Qed.

Lemma stored_le_recorded_from ops : forall s k,
  (length (snd (run_from s ops) k) <= length (s k) + fails_on k ops)%nat.
Proof.
  induction ops as [|o ops IH]; intros s k; [cbn; lia|].
  cbn [run_from]. pose proof (step_len s o k) as Hs. destruct (step s o) as [s' v].
  cbn [fst] in Hs. specialize (IH s' k). destruct (run_from s' ops) as [vs sf]. cbn [snd] in *.
  rewrite fails_on_cons. lia.
Qed.

Lemma blocked_needs_ten now es : blocked now es = true -> (spec_attempts <= length es)%nat.
Proof. unfold blocked. rewrite attempts_nat. intros H. apply andb_prop in H as [H _]. now apply Nat.leb_le in H. Qed.

Theorem refused_needs_ten_failures pre t a act :
  snd (step (final pre) (OCheck t a act)) = VBlocked ->
  (spec_attempts <= fails_on (throttle_ip a, act) pre)%nat.
Proof.
  cbn [step]. destruct (blocked t _) eqn:Hb; cbn [snd]; [intros _|discriminate].
  apply blocked_needs_ten in Hb.
  pose proof (stored_le_recorded_from pre init (throttle_ip a, act)) as H.
  unfold final in Hb. cbn [init length Nat.add] in H. lia.
Qed.

(* ---- (E) forgetting: after a clean-up at time t nothing older than twelve
        hours is stored (ordered time stamps) --------------------------------- *)
Fixpoint lastz (d : Z) (l : list Z) : Z := match l with [] => d | t :: r => lastz t r end.

Lemma nondecr_app last l t : nondecr last (l ++ [t]) -> nondecr last l /\ lastz last l <= t.
Proof.
  revert last. induction l as [|a l IH]; intros last; cbn [app nondecr lastz].
  - intros [H _]. auto.
  - intros [H1 H2]. destruct (IH a H2). auto.
Qed.

Lemma sinv_step last s h o : last <= op_time o -> SInv last s h ->
  exists h', SInv (op_time o) (fst (step s o)) h'.
Proof.
  intros Hle HI. destruct o as [t a act|t a act|t|t a act]; cbn [op_time step] in *.
  - destruct (blocked t _); cbn [fst].
    + exists h. eapply sinv_mono; eauto.
    + exists h. apply sinv_check with last; auto.
  - cbn [fst]. eexists. apply sinv_fail with last; eauto.
  - cbn [fst]. exists h. apply sinv_cleanup with last; auto.
  - cbn [fst]. exists h. eapply sinv_mono; eauto.
Qed.

Lemma sinv_run ops : forall last s h, nondecr last (map op_time ops) -> SInv last s h ->
  exists h', SInv (lastz last (map op_time ops)) (snd (run_from s ops)) h'.
Proof.
  induction ops as [|o ops IH]; intros last s h Hm HI; cbn [map lastz run_from].
  - exists h. assumption.
  - cbn [map nondecr] in Hm. destruct Hm as [Hle Hm].
    destruct (sinv_step last s h o Hle HI) as [h1 H1].
    destruct (step s o) as [s' v]. cbn [fst] in H1.
    destruct (IH (op_time o) s' h1 Hm H1) as [h2 H2].
    destruct (run_from s' ops) as [vs sf]. cbn [snd] in *. eauto.
Qed.

Theorem forgetting pre t t0 : nondecr t0 (map op_time (pre ++ [OCleanup t])) ->
  forall k e, In e (final (pre ++ [OCleanup t]) k) -> t - e <= spec_age.
Proof.
  intros Hm k e. rewrite map_app in Hm. cbn [map op_time] in Hm.
  apply nondecr_app in Hm as [Hm Hl].
  destruct (sinv_run pre t0 init [] Hm (sinv_init t0)) as [h' HI].
  unfold final.
  assert (Hrun : forall ops s, snd (run_from s (ops ++ [OCleanup t])) = fun k => dropold t (snd (run_from s ops) k)).
  { induction ops as [|o ops IHo]; intros s; cbn [app run_from].
    - cbn [step]. reflexivity.
    - destruct (step s o) as [s' v]. specialize (IHo s').
      destruct (run_from s' (ops ++ [OCleanup t])), (run_from s' ops). cbn [snd] in *. assumption. }
  rewrite Hrun. apply dropold_young. eapply kinv_es_asc. apply HI.
Qed.
