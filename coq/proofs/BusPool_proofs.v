(* The collision pool of the C20 harness (corr/Run_C20.v, mode 3) and the
   injectivity theorem of the subject function: a table of targets the judge
   accepts (pool_ok) lies inside the side condition of subject_inj, and the
   model's subject function separates every two of its entries.  So on such a
   table "published for another index" and "published to another subject" are
   the same thing, which is what P_C20's clause (c) relies on. *)
From Coq Require Import List Arith NArith Bool String Ascii Lia.
From Verif Require Import model.Bus corr.Run_C20 proofs.BusKey_proofs.
Import ListNotations.

(* the judge's side condition is the one of subject_inj *)
Lemma pool_wf_is_wf_target t : pool_wf t = wf_target t.
Proof. reflexivity. Qed.

Lemma kind_eqb_spec a b : kind_eqb a b = true <-> a = b.
Proof. destruct a, b; simpl; split; intros H; try reflexivity; try discriminate. Qed.

Lemma opt_string_eqb_spec a b : opt_string_eqb a b = true <-> a = b.
Proof.
  destruct a as [x|], b as [y|]; simpl.
  - rewrite String.eqb_eq. split; [intros ->; reflexivity | intros H; injection H; auto].
  - split; discriminate.
  - split; discriminate.
  - split; reflexivity.
Qed.

Lemma same_target_b_spec t1 t2 : same_target_b t1 t2 = true <-> same_target t1 t2.
Proof.
  unfold same_target_b, same_target.
  rewrite !andb_true_iff, orb_true_iff, !kind_eqb_spec, String.eqb_eq, opt_string_eqb_spec.
  tauto.
Qed.

Lemma same_target_sym t1 t2 : same_target t1 t2 -> same_target t2 t1.
Proof.
  unfold same_target. intros (Hk & Hi & Hb). repeat split; try congruence.
  destruct Hb as [Hb|Hb]; [left; congruence | right; congruence].
Qed.

Lemma pool_distinct_nth : forall ts, pool_distinct ts = true ->
  forall i j a b, i < j -> nth_error ts i = Some a -> nth_error ts j = Some b ->
  same_target_b a b = false.
Proof.
  induction ts as [|t r IH]; intros Hd i j a b Hij Ha Hb.
  - destruct i; discriminate.
  - simpl in Hd. apply andb_true_iff in Hd. destruct Hd as [Hh Hr].
    destruct j as [|j']; [lia|]. simpl in Hb.
    destruct i as [|i'].
    + simpl in Ha. injection Ha as ->.
      rewrite forallb_forall in Hh. apply nth_error_In in Hb.
      specialize (Hh _ Hb). apply negb_true_iff in Hh. exact Hh.
    + simpl in Ha. apply (IH Hr i' j'); auto. lia.
Qed.

Lemma tgt_nth tb i : i < List.length tb -> nth_error (map fst tb) i = Some (tgt tb i).
Proof.
  intros Hi. unfold tgt. rewrite nth_error_map.
  destruct (nth_error tb i) as [[t s]|] eqn:E; [reflexivity|].
  apply nth_error_None in E. lia.
Qed.

(* in a table the judge accepts, the model's subject function separates every
   two entries: subject_inj covers the whole pool *)
Theorem pool_subjects_distinct tb : pool_ok tb = true ->
  forall i j, i < List.length tb -> j < List.length tb -> i <> j ->
  wf_target (tgt tb i) = true /\ wf_target (tgt tb j) = true /\
  subject_of (tgt tb i) <> subject_of (tgt tb j).
Proof.
  unfold pool_ok. intros H i j Hi Hj Hij. apply andb_true_iff in H. destruct H as [Hw Hd].
  pose proof (tgt_nth tb i Hi) as Ei. pose proof (tgt_nth tb j Hj) as Ej.
  rewrite forallb_forall in Hw.
  assert (Wi : wf_target (tgt tb i) = true)
    by (rewrite <- pool_wf_is_wf_target; apply Hw; eapply nth_error_In; exact Ei).
  assert (Wj : wf_target (tgt tb j) = true)
    by (rewrite <- pool_wf_is_wf_target; apply Hw; eapply nth_error_In; exact Ej).
  split; [exact Wi|]. split; [exact Wj|].
  intros E.
  destruct (Nat.lt_ge_cases i j) as [L|L].
  - pose proof (pool_distinct_nth _ Hd i j _ _ L Ei Ej) as F.
    pose proof (subject_inj _ _ Wi Wj E) as S. apply same_target_b_spec in S. congruence.
  - assert (L' : j < i) by lia.
    pose proof (pool_distinct_nth _ Hd j i _ _ L' Ej Ei) as F.
    pose proof (subject_inj _ _ Wj Wi (eq_sym E)) as S. apply same_target_b_spec in S. congruence.
Qed.

(* non-vacuity: the table of the seeded change's witness is accepted -- an id
   that needs encoding and the id that is literally its base64 text, and the
   cross-backend form (id with a named backend / the base64 text of the
   encoder's input as an id without backend) *)
Example pool_ok_example :
  pool_ok [(T KUser "mary jane" None, ""%string); (T KUser "bWFyeSBqYW5l" None, ""%string);
           (T KRoom "a b" (Some "b1"%string), ""%string); (T KRoom "YSBifGIx" None, ""%string);
           (T KRoom "a b|b1" (Some "x"%string), ""%string)] = true.
Proof. reflexivity. Qed.
(* ... and the witnesses of the known finding are not *)
Example pool_ok_rejects_finding :
  pool_ok [(T KUser "u|x" None, ""%string); (T KUser "u" (Some "x"%string), ""%string)] = false.
Proof. reflexivity. Qed.
