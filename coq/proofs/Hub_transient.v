(* C14 at the level of rooms and sessions: the transient data of rooms in the hub model (model/Hub.v
   transient_update, the OTransient op, the room request ATransient, the initial data of join_room).

   Proved here, for EVERY state h (so in particular for the state after every history of operations):
     T3  transient_set_unchanged / transient_remove_absent (client op) and room_request_transient_noop (backend
         request): asking for what is already the case produces no output and leaves the state literally unchanged.
     T4  transient_refused_not_in_room / _ignored (and Hub_easy.transient_gate for not_allowed): a refused request
         is answered with the one error message on the requester's connection and the state is literally unchanged.
     T1 (partial)  transient_update_outs: the outputs of a change of room k's data are exactly one copy of the one
         notice per CONNECTED listener, in member order, where the listeners are the non-virtual members of room k at
         that moment - nobody else is written to; transient_update_recipient_is_member / transient_op_recipients:
         every transient message the op OTransient writes goes to the connection of a non-virtual session that is a
         member of the requester's room (with WF: whose own room is that room).
     T2 (partial)  transient_update_replica: the notice describes the change: the room's data after the step is the
         data before with the notice applied (apply_tmsg), nothing else of the room changes, no other room changes,
         and no session's connection, kind or room changes; join_initial_is_data is the corresponding fact for the
         initial data (apply_tmsg d (TInit d') = d').  Hence one step of the replica induction: a listener whose
         replica equals the room's data before the change and that receives the notice has a replica equal to the
         data after it (replica_step).
   What is missing for the history forms of T1 / T2 is the frame: that no other operation writes a transient
   message (except the initial data of a join and the flush of a resumed session's queue) and that the pending queue
   of a disconnected listener, replayed, gives the same replica.  proofs/Hub_transient_frame.v has the frame. *)
From Coq Require Import List NArith Bool Lia.
From Verif Require Import model.Hub proofs.Hub_basics proofs.Hub_wf proofs.Hub_easy.
Import ListNotations.
Open Scope N_scope.

(* ------------------------------------------------------------------ replaying notices *)
Definition apply_tmsg (d : alist N) (t : tmsg) : alist N :=
  match t with
  | TInit d' => d'
  | TSet key val _ => aset d key val
  | TRemove key _ => adel d key
  end.

(* ------------------------------------------------------------------ what sending a notice leaves alone *)
Record same (h h' : hub) : Prop := {
  sm_rooms : h_rooms h' = h_rooms h;
  sm_conns : h_conns h' = h_conns h;
  sm_sess : forall y, match get_sess h' y, get_sess h y with
                      | Some s', Some s => s_conn s' = s_conn s /\ s_kind s' = s_kind s /\ s_room s' = s_room s
                      | None, None => True
                      | _, _ => False end;
}.

Lemma same_refl h : same h h.
Proof. constructor; try reflexivity. intros y. destruct (get_sess h y); auto. Qed.

Lemma same_trans h1 h2 h3 : same h1 h2 -> same h2 h3 -> same h1 h3.
Proof.
  intros [R1 C1 S1] [R2 C2 S2]. constructor; [congruence|congruence|].
  intros y. specialize (S1 y). specialize (S2 y).
  destruct (get_sess h3 y) as [s3|], (get_sess h2 y) as [s2|], (get_sess h1 y) as [s1|]; try tauto.
  destruct S1 as (A1 & B1 & D1), S2 as (A2 & B2 & D2). repeat split; congruence.
Qed.

Lemma get_put_sess h sid s y : get_sess (put_sess h sid s) y = if N.eqb y sid then Some s else get_sess h y.
Proof. unfold get_sess, put_sess. cbn [h_sessions set_sessions]. apply aget_aset. Qed.

Lemma same_put h sid s s' :
  get_sess h sid = Some s -> s_conn s' = s_conn s -> s_kind s' = s_kind s -> s_room s' = s_room s -> same h (put_sess h sid s').
Proof.
  intros Hs Hc Hk Hr. constructor; try reflexivity. intros y. rewrite get_put_sess.
  destruct (N.eqb_spec y sid) as [->|Hne]; [rewrite Hs; auto|]. destruct (get_sess h y); auto.
Qed.

Lemma same_set_rooms h v : (forall y, get_sess (set_rooms h v) y = get_sess h y).
Proof. reflexivity. Qed.

(* the one notice a (non-virtual) session is sent: written to its connection when it has one, queued otherwise *)
Definition notice_for (h : hub) (m : tmsg) (x : N) : list out :=
  match get_sess h x with
  | Some s => match s_conn s with Some c => [ToConn c (STransient m)] | None => [] end
  | None => []
  end.

Lemma send_transient h x s m :
  get_sess h x = Some s -> is_virtual (s_kind s) = false ->
  snd (send_session h x (STransient m)) = notice_for h m x /\ same h (fst (send_session h x (STransient m))).
Proof.
  intros Hs Hv. unfold send_session, notice_for. rewrite Hs.
  assert (Ht : match s_kind s with KVirtual p _ => p | _ => x end = x) by (destruct (s_kind s); [reflexivity|reflexivity|discriminate]).
  rewrite Ht. unfold deliver_to_session. rewrite Hs. cbv zeta.
  destruct (s_conn s) as [c|] eqn:Hc.
  - cbn [is_closing fst snd]. split; [reflexivity|]. now apply same_put with s.
  - cbn [fst snd]. split; [reflexivity|]. apply same_put with s; auto.
Qed.

Lemma fold_notices m h0 : forall l h acc,
  same h0 h ->
  (forall x, In x l -> exists s, get_sess h0 x = Some s /\ is_virtual (s_kind s) = false) ->
  let res := fold_left (fun (a : hub * list out) x => let '(hh, oo) := a in
                          let '(hh', oo') := send_session hh x (STransient m) in (hh', oo ++ oo')) l (h, acc) in
  snd res = acc ++ flat_map (notice_for h0 m) l /\ same h0 (fst res).
Proof.
  induction l as [|x l IH]; intros h acc Hsame Hl; cbn [fold_left flat_map].
  - cbn [fst snd]. rewrite app_nil_r. auto.
  - destruct (Hl x (or_introl eq_refl)) as [s0 [Hs0 Hv0]].
    pose proof (sm_sess _ _ Hsame x) as Hx. rewrite Hs0 in Hx.
    destruct (get_sess h x) as [s|] eqn:Hs; [|contradiction]. destruct Hx as (Hc & Hk & _).
    assert (Hv : is_virtual (s_kind s) = false) by (rewrite Hk; exact Hv0).
    destruct (send_transient h x s m Hs Hv) as [Ho Hsm].
    destruct (send_session h x (STransient m)) as [hh' oo'] eqn:Hsend. cbn [fst snd] in Ho, Hsm.
    assert (Hn : oo' = notice_for h0 m x).
    { rewrite Ho. unfold notice_for. rewrite Hs, Hs0, Hc. reflexivity. }
    destruct (IH hh' (acc ++ oo') (same_trans _ _ _ Hsame Hsm) (fun y Hy => Hl y (or_intror Hy))) as [E1 E2].
    split; [|exact E2]. rewrite E1, Hn, <- app_assoc. reflexivity.
Qed.

Lemma listeners_spec h r x :
  In x (transient_listeners h r) <-> In x (r_members r) /\ exists s, get_sess h x = Some s /\ is_virtual (s_kind s) = false.
Proof.
  unfold transient_listeners. rewrite filter_In. split.
  - intros [Hin Hf]. split; [exact Hin|]. destruct (get_sess h x) as [s|]; [|discriminate]. exists s. split; [reflexivity|].
    now apply negb_true_iff in Hf.
  - intros [Hin [s [Hs Hv]]]. split; [exact Hin|]. rewrite Hs, Hv. reflexivity.
Qed.

(* a change of the data of room k with notice m: the state and the outputs *)
Lemma transient_notify_spec h k r d m :
  let h1 := set_rooms h (pset h.(h_rooms) k (room_set_transient r d)) in
  snd (transient_notify h k r d m) = flat_map (notice_for h m) (transient_listeners h r)
  /\ same h1 (fst (transient_notify h k r d m)).
Proof.
  cbv zeta. unfold transient_notify, fold_sessions.
  set (h1 := set_rooms h (pset (h_rooms h) k (room_set_transient r d))).
  destruct (fold_notices m h1 (transient_listeners h r) h1 [] (same_refl h1)) as [E1 E2].
  { intros x Hx. apply listeners_spec in Hx as [_ Hs]. exact Hs. }
  cbv zeta in E1, E2. split; [|exact E2]. rewrite E1. cbn [app]. reflexivity.
Qed.

(* ------------------------------------------------------------------ T1 (partial) / T2 (partial): one change *)
(* the notice a request produces, if it changes anything *)
Definition update_notice (r : room) (del : bool) (key val : N) : option tmsg :=
  let old := aget r.(r_transient) key in
  if del || N.eqb val 0 then match old with Some _ => Some (TRemove key old) | None => None end
  else match old with
       | Some v => if N.eqb v val then None else Some (TSet key val old)
       | None => Some (TSet key val old)
       end.

Theorem transient_update_outs h k r del key val :
  match update_notice r del key val with
  | None => transient_update h k r del key val = (h, [])
  | Some t =>
      (* exactly one copy per connected listener, in member order; listeners = non-virtual members of the room *)
      snd (transient_update h k r del key val) = flat_map (notice_for h t) (transient_listeners h r)
  end.
Proof.
  unfold update_notice, transient_update. cbv zeta.
  destruct (del || N.eqb val 0).
  - destruct (aget (r_transient r) key) as [v|]; [|reflexivity]. apply transient_notify_spec.
  - destruct (aget (r_transient r) key) as [v|]; [destruct (N.eqb v val); [reflexivity|]|]; apply transient_notify_spec.
Qed.

Theorem transient_update_replica h k r del key val :
  match update_notice r del key val with
  | None => transient_update h k r del key val = (h, [])
  | Some t =>
      let h' := fst (transient_update h k r del key val) in
      (* room k keeps everything but its data, which is the old data with the notice applied; no other room, no
         connection and no session's connection / kind / room changes *)
      same (set_rooms h (pset h.(h_rooms) k (room_set_transient r (apply_tmsg r.(r_transient) t)))) h'
  end.
Proof.
  unfold update_notice, transient_update. cbv zeta.
  destruct (del || N.eqb val 0).
  - destruct (aget (r_transient r) key) as [v|]; [|reflexivity]. apply transient_notify_spec.
  - destruct (aget (r_transient r) key) as [v|]; [destruct (N.eqb v val); [reflexivity|]|]; apply transient_notify_spec.
Qed.

(* the data of the room after a change *)
Corollary transient_update_data h k r del key val t :
  update_notice r del key val = Some t ->
  room_of (fst (transient_update h k r del key val)) k = Some (room_set_transient r (apply_tmsg r.(r_transient) t)).
Proof.
  intros Hn. pose proof (transient_update_replica h k r del key val) as H. rewrite Hn in H. cbv zeta in H.
  unfold room_of. rewrite (sm_rooms _ _ H). cbn [h_rooms set_rooms]. apply pget_pset_same.
Qed.

(* one step of the replica induction: a listener whose replica is the room's data and that applies the notice has
   the room's new data *)
Corollary replica_step h k r del key val t (replica : alist N) :
  update_notice r del key val = Some t -> replica = r.(r_transient) ->
  exists r', room_of (fst (transient_update h k r del key val)) k = Some r' /\ apply_tmsg replica t = r'.(r_transient)
             /\ r_members r' = r_members r.
Proof.
  intros Hn ->. exists (room_set_transient r (apply_tmsg (r_transient r) t)).
  split; [apply transient_update_data; exact Hn|]. split; reflexivity.
Qed.

(* every message a change writes goes to the connection of a non-virtual member of that room *)
Theorem transient_update_recipient_is_member h k r del key val c m :
  In (ToConn c m) (snd (transient_update h k r del key val)) ->
  exists t sid s, m = STransient t /\ update_notice r del key val = Some t /\ In sid (r_members r) /\
                  get_sess h sid = Some s /\ is_virtual (s_kind s) = false /\ s_conn s = Some c.
Proof.
  intros Hin. pose proof (transient_update_outs h k r del key val) as H.
  destruct (update_notice r del key val) as [t|]; [|rewrite H in Hin; contradiction].
  rewrite H in Hin. apply in_flat_map in Hin as [x [Hx Hn]]. apply listeners_spec in Hx as [Hm [s [Hs Hv]]].
  unfold notice_for in Hn. rewrite Hs in Hn. destruct (s_conn s) as [c'|] eqn:Hc; [|contradiction].
  destruct Hn as [Hn|[]]. injection Hn as <- <-. exists t, x, s. repeat split; auto.
Qed.

(* ... and nothing but such messages *)
Theorem transient_update_only_notices h k r del key val o :
  In o (snd (transient_update h k r del key val)) -> exists c t, o = ToConn c (STransient t).
Proof.
  intros Hin. pose proof (transient_update_outs h k r del key val) as H.
  destruct (update_notice r del key val) as [t|]; [|rewrite H in Hin; contradiction].
  rewrite H in Hin. apply in_flat_map in Hin as [x [_ Hn]]. unfold notice_for in Hn.
  destruct (get_sess h x) as [s|]; [|contradiction]. destruct (s_conn s) as [c|]; [|contradiction].
  destruct Hn as [<-|[]]. eauto.
Qed.

(* every connected listener gets the notice *)
Theorem transient_update_reaches_listeners h k r del key val t sid s c :
  update_notice r del key val = Some t -> In sid (r_members r) -> get_sess h sid = Some s ->
  is_virtual (s_kind s) = false -> s_conn s = Some c ->
  In (ToConn c (STransient t)) (snd (transient_update h k r del key val)).
Proof.
  intros Hn Hm Hs Hv Hc. pose proof (transient_update_outs h k r del key val) as H. rewrite Hn in H. rewrite H.
  apply in_flat_map. exists sid. split; [apply listeners_spec; eauto|]. unfold notice_for. rewrite Hs, Hc. now left.
Qed.

(* ------------------------------------------------------------------ the client op *)
Lemma step_transient_allowed h c sid s k r kindn key val :
  conn_session h c sid s -> s.(s_room) = Some k -> (kindn <? 2) = true -> allowed_transient s = true -> room_of h k = Some r ->
  step h (OTransient c kindn key val) = transient_update h k r (N.eqb kindn 1) key val.
Proof.
  intros [cn [Hc [Hs Hg]]] Hr Hk Ha Hroom. cbn [step]. unfold with_session. rewrite Hc, Hs, Hg, Hr, Ha, Hroom.
  rewrite N.leb_antisym, Hk. reflexivity.
Qed.

(* T1 for the client op, in a well-formed state (every reachable state is: Hub_wf.wf_run): a transient message the op
   writes goes to the connection of a non-virtual session whose room is the requester's room and which is a member
   of it *)
Theorem transient_op_recipients h c sid s k kindn key val c' t :
  WF h -> conn_session h c sid s -> s.(s_room) = Some k ->
  In (ToConn c' (STransient t)) (snd (step h (OTransient c kindn key val))) ->
  exists r sid' s', room_of h k = Some r /\ In sid' (r_members r) /\ get_sess h sid' = Some s' /\
                    s_room s' = Some k /\ is_virtual (s_kind s') = false /\ s_conn s' = Some c'.
Proof.
  intros W Hcs Hr Hin. destruct Hcs as [cn [Hc [Hs Hg]]].
  cbn [step] in Hin. unfold with_session in Hin. rewrite Hc, Hs, Hg, Hr in Hin.
  destruct (2 <=? kindn); [destruct Hin as [Hin|[]]; discriminate|].
  destruct (negb (allowed_transient s)); [destruct Hin as [Hin|[]]; discriminate|].
  destruct (room_of h k) as [r|] eqn:Hroom; [|contradiction].
  apply transient_update_recipient_is_member in Hin as (t' & sid' & s' & _ & _ & Hm & Hs' & Hv & Hc').
  exists r, sid', s'. repeat split; auto.
  destruct (wf_members _ _ h W k r sid' Hroom Hm) as [s2 [Hs2 Hk2]]. rewrite Hs' in Hs2. injection Hs2 as <-. exact Hk2.
Qed.

(* ------------------------------------------------------------------ T3: asking for what is already the case *)
Theorem transient_set_unchanged h c sid s k r key val :
  conn_session h c sid s -> s.(s_room) = Some k -> allowed_transient s = true -> room_of h k = Some r ->
  val <> 0 -> aget r.(r_transient) key = Some val ->
  step h (OTransient c 0 key val) = (h, []).
Proof.
  intros Hcs Hr Ha Hroom Hv Hget. rewrite (step_transient_allowed h c sid s k r 0 key val Hcs Hr eq_refl Ha Hroom).
  unfold transient_update. cbv zeta. apply N.eqb_neq in Hv. rewrite Hv, Hget, N.eqb_refl. reflexivity.
Qed.

Theorem transient_remove_absent h c sid s k r kindn key val :
  conn_session h c sid s -> s.(s_room) = Some k -> allowed_transient s = true -> room_of h k = Some r ->
  kindn = 1 \/ (kindn = 0 /\ val = 0) -> aget r.(r_transient) key = None ->
  step h (OTransient c kindn key val) = (h, []).
Proof.
  intros Hcs Hr Ha Hroom Hk Hget.
  assert (Hlt : (kindn <? 2) = true) by (destruct Hk as [->|[-> _]]; reflexivity).
  rewrite (step_transient_allowed h c sid s k r kindn key val Hcs Hr Hlt Ha Hroom).
  unfold transient_update. cbv zeta. rewrite Hget.
  destruct Hk as [->|[-> ->]]; reflexivity.
Qed.

(* the same for the room request, when it is delivered *)
Theorem room_request_transient_noop h k r del key val :
  room_of h k = Some r -> update_notice r del key val = None ->
  room_request h k (ATransient del key val) = (h, []).
Proof.
  intros Hroom Hn. unfold room_request. rewrite Hroom.
  pose proof (transient_update_outs h k r del key val) as H. rewrite Hn in H. exact H.
Qed.

Lemma update_notice_none_iff r del key val :
  update_notice r del key val = None <->
  if del || N.eqb val 0 then aget r.(r_transient) key = None else aget r.(r_transient) key = Some val.
Proof.
  unfold update_notice. cbv zeta. destruct (del || N.eqb val 0).
  - destruct (aget (r_transient r) key); split; congruence.
  - destruct (aget (r_transient r) key) as [v|]; [|split; congruence].
    destruct (N.eqb_spec v val) as [->|Hne]; split; congruence.
Qed.

Theorem room_request_transient_unchanged h k r del key val :
  room_of h k = Some r ->
  (if del || N.eqb val 0 then aget r.(r_transient) key = None else aget r.(r_transient) key = Some val) ->
  room_request h k (ATransient del key val) = (h, []).
Proof. intros Hr H. apply room_request_transient_noop with r; [exact Hr|]. now apply update_notice_none_iff. Qed.

(* a request for a room nobody is in changes nothing *)
Theorem room_request_no_room h k q : room_of h k = None -> room_request h k q = (h, []).
Proof. intros H. unfold room_request. rewrite H. reflexivity. Qed.

(* ------------------------------------------------------------------ T4: refused requests *)
Theorem transient_refused_not_in_room h c sid s kindn key val :
  conn_session h c sid s -> s.(s_room) = None ->
  step h (OTransient c kindn key val) = (h, [ToConn c (SError E_not_in_room)]).
Proof. intros [cn [Hc [Hs Hg]]] Hr. cbn [step]. unfold with_session. rewrite Hc, Hs, Hg, Hr. reflexivity. Qed.

Theorem transient_refused_ignored h c sid s k kindn key val :
  conn_session h c sid s -> s.(s_room) = Some k -> (2 <=? kindn) = true ->
  step h (OTransient c kindn key val) = (h, [ToConn c (SError E_ignored)]).
Proof. intros [cn [Hc [Hs Hg]]] Hr Hk. cbn [step]. unfold with_session. rewrite Hc, Hs, Hg, Hr, Hk. reflexivity. Qed.

(* not allowed: Hub_easy.transient_gate *)

(* a request of a backend that did not sign it, or of no configured backend, does nothing *)
Theorem api_transient_refused h b signas room del key val :
  b <> signas \/ h_nb h <= b -> step h (OApi b signas room (ATransient del key val)) = (h, []).
Proof.
  intros H. cbn [step]. destruct H as [H|H].
  - apply N.eqb_neq in H. rewrite H. reflexivity.
  - apply N.leb_le in H. rewrite H, orb_true_r. reflexivity.
Qed.

(* ------------------------------------------------------------------ histories *)
(* Hub_wf.run: any history of operations, deliveries of queued publications in any order included *)
Lemma run_app ops : forall h o, run h (ops ++ [o]) = fst (step (run h ops) o).
Proof. induction ops as [|x r IH]; intros h o; cbn [run app]; [reflexivity|apply IH]. Qed.

(* T3 after every history: the request leaves the state the history produced and writes nothing *)
Corollary history_set_unchanged limits gated ops c sid s k r key val :
  let h := run (init limits gated) ops in
  conn_session h c sid s -> s.(s_room) = Some k -> allowed_transient s = true -> room_of h k = Some r ->
  val <> 0 -> aget r.(r_transient) key = Some val ->
  run (init limits gated) (ops ++ [OTransient c 0 key val]) = h /\ snd (step h (OTransient c 0 key val)) = [].
Proof.
  cbv zeta. intros Hcs Hr Ha Hroom Hv Hget. rewrite run_app.
  rewrite (transient_set_unchanged _ c sid s k r key val Hcs Hr Ha Hroom Hv Hget). split; reflexivity.
Qed.

(* T4 after every history *)
Corollary history_refused limits gated ops c sid s kindn key val :
  let h := run (init limits gated) ops in
  conn_session h c sid s ->
  (s.(s_room) = None \/ (exists k, s.(s_room) = Some k /\ ((2 <=? kindn) = true \/ allowed_transient s = false))) ->
  run (init limits gated) (ops ++ [OTransient c kindn key val]) = h /\
  exists code, snd (step h (OTransient c kindn key val)) = [ToConn c (SError code)] /\
               (code = E_not_in_room \/ code = E_ignored \/ code = E_not_allowed).
Proof.
  cbv zeta. intros Hcs H. rewrite run_app. destruct H as [Hr|[k [Hr [Hk|Ha]]]].
  - rewrite (transient_refused_not_in_room _ c sid s kindn key val Hcs Hr). split; [reflexivity|]. eexists. split; [reflexivity|auto].
  - rewrite (transient_refused_ignored _ c sid s k kindn key val Hcs Hr Hk). split; [reflexivity|]. eexists. split; [reflexivity|auto].
  - destruct (2 <=? kindn) eqn:Hk.
    + rewrite (transient_refused_ignored _ c sid s k kindn key val Hcs Hr Hk). split; [reflexivity|]. eexists. split; [reflexivity|auto].
    + assert (Hlt : (kindn <? 2) = true) by (rewrite N.ltb_antisym, Hk; reflexivity).
      rewrite (transient_gate _ c sid s k kindn key val Hcs Hr Ha Hlt). split; [reflexivity|]. eexists. split; [reflexivity|auto].
Qed.

(* T1 for the client op after every history (no hypothesis on the state: reachable states are well-formed) *)
Corollary history_transient_op_recipients limits gated ops c sid s k kindn key val c' t :
  let h := run (init limits gated) ops in
  conn_session h c sid s -> s.(s_room) = Some k ->
  In (ToConn c' (STransient t)) (snd (step h (OTransient c kindn key val))) ->
  exists r sid' s', room_of h k = Some r /\ In sid' (r_members r) /\ get_sess h sid' = Some s' /\
                    s_room s' = Some k /\ is_virtual (s_kind s') = false /\ s_conn s' = Some c'.
Proof. cbv zeta. intros. eapply transient_op_recipients; eauto. apply wf_reachable. Qed.

(* ------------------------------------------------------------------ non-vacuity *)
Definition demo_ops : list op :=
  [OConnect 1 0; OConnect 2 0; OConnect 3 0; OHello 1 (HV1 0 1 false); OHello 2 (HV1 0 2 false); OHello 3 (HV1 0 3 false);
   OJoin 1 1 1 (RepOk None 0); OJoin 2 1 2 (RepOk None 0); OTransient 1 0 1 2].

Definition demo_h : hub := qrun (init [0; 0] false) demo_ops.

(* a set reaches both members (the sender included), the same set again is silent, a session that joins gets the
   data, a session that left gets nothing, refused requests *)
Example demo_set : snd (qstep demo_h (OTransient 2 0 1 3)) =
  [ToConn 1 (STransient (TSet 1 3 (Some 2))); ToConn 2 (STransient (TSet 1 3 (Some 2)))].
Proof. vm_compute. reflexivity. Qed.
Example demo_same : qstep demo_h (OTransient 2 0 1 2) = (demo_h, []).
Proof. vm_compute. reflexivity. Qed.
Example demo_initial : snd (qstep demo_h (OJoin 3 1 3 (RepOk None 0))) =
  [ToBackend (0, 1, 0, 1, 1000003, 1); ToConn 3 (SRoom 1); ToConn 3 (STransient (TInit [(1, 2)]));
   ToConn 1 (SJoin [(3, 3)]); ToConn 2 (SJoin [(3, 3)]); ToConn 3 (SJoin [(3, 3)]); ToConn 3 (SJoin [(1, 1); (2, 2)])].
Proof. vm_compute. reflexivity. Qed.
Example demo_left : snd (qstep (fst (qstep demo_h (OJoin 2 0 0 (RepOk None 0)))) (OTransient 1 1 1 0)) =
  [ToConn 1 (STransient (TRemove 1 (Some 2)))].
Proof. vm_compute. reflexivity. Qed.
Example demo_not_in_room : qstep demo_h (OTransient 3 0 1 1) = (demo_h, [ToConn 3 (SError E_not_in_room)]).
Proof. vm_compute. reflexivity. Qed.
Example demo_ignored : qstep demo_h (OTransient 1 5 1 1) = (demo_h, [ToConn 1 (SError E_ignored)]).
Proof. vm_compute. reflexivity. Qed.
Example demo_backend_request : snd (qstep demo_h (OApi 0 0 1 (ATransient true 1 0))) =
  [ToConn 1 (STransient (TRemove 1 (Some 2))); ToConn 2 (STransient (TRemove 1 (Some 2)))].
Proof. vm_compute. reflexivity. Qed.
Example demo_backend_request_empty_room : qstep demo_h (OApi 0 0 2 (ATransient false 1 11)) =
  (fst (qstep demo_h (OApi 0 0 2 (ATransient false 1 11))), []).
Proof. vm_compute. reflexivity. Qed.
(* the hypotheses of the theorems above are satisfiable together: the state after demo_ops, connection 2 *)
Example demo_hyps : exists s r, conn_session demo_h 2 2 s /\ s_room s = Some (0, 1) /\ allowed_transient s = true /\
                                room_of demo_h (0, 1) = Some r /\ aget (r_transient r) 1 = Some 2 /\
                                update_notice r false 1 2 = None /\ update_notice r false 1 3 = Some (TSet 1 3 (Some 2)).
Proof.
  destruct (get_sess demo_h 2) as [s|] eqn:Hs; [|vm_compute in Hs; discriminate].
  destruct (room_of demo_h (0, 1)) as [r|] eqn:Hr; [|vm_compute in Hr; discriminate].
  exists s, r. vm_compute in Hs, Hr. injection Hs as <-. injection Hr as <-.
  split; [|vm_compute; repeat split; reflexivity].
  eexists. vm_compute. repeat split; reflexivity.
Qed.

(* ------------------------------------------------------------------ T1 for every history (with the frame) *)
From Verif Require Import proofs.Hub_transient_frame.

(* After every history of operations, whatever operation comes next - except the hello that resumes a session
   (it flushes the queue of the time the session was away) and a join (which writes the initial data, see
   join_writes_only_initial) -: a transient message is written only to the connection of a non-virtual session
   that is, at that moment, a member of the room whose data changes, and whose own room is that room.  The bus
   is not assumed empty and deliveries come in any order. *)
Theorem transient_written_to_members limits gated ops o c' t :
  let h := run (init limits gated) ops in
  match o with OHello _ (HResume _) | OJoin _ _ _ _ => False | _ => True end ->
  In (ToConn c' (STransient t)) (snd (step h o)) ->
  exists k r sid' s', room_of h k = Some r /\ In sid' (r_members r) /\ get_sess h sid' = Some s' /\
                      s_room s' = Some k /\ is_virtual (s_kind s') = false /\ s_conn s' = Some c'.
Proof.
  cbv zeta. set (h := run (init limits gated) ops). intros Ho Hin.
  assert (W : WF h) by apply wf_reachable.
  pose proof (trans_frame h o (busnt_reachable limits gated ops)) as F. fold h in F.
  assert (Hmem : forall h0 k r del key val, (forall y, get_sess h0 y = get_sess h y) -> room_of h0 k = room_of h k ->
            room_of h0 k = Some r -> In (ToConn c' (STransient t)) (snd (transient_update h0 k r del key val)) ->
            exists k r sid' s', room_of h k = Some r /\ In sid' (r_members r) /\ get_sess h sid' = Some s' /\
                      s_room s' = Some k /\ is_virtual (s_kind s') = false /\ s_conn s' = Some c').
  { intros h0 k r del key val Hg Hrk Hr Hi.
    apply transient_update_recipient_is_member in Hi as (t' & sid' & s' & _ & _ & Hm & Hs' & Hv & Hc').
    rewrite Hg in Hs'. rewrite Hrk in Hr. exists k, r, sid', s'. repeat split; auto.
    destruct (wf_members _ _ h W k r sid' Hr Hm) as [s2 [Hs2 Hk2]]. rewrite Hs' in Hs2. injection Hs2 as <-. exact Hk2. }
  destruct o as [c a|c hl|c rn rs rep|c to tag|c to tag|c|c|secs|b sg rm q|c q|c to mk st md|tok ok|c kindn key val|pos|c hl late];
    try (exfalso; exact (F c' t Hin)); try contradiction.
  - destruct hl; try contradiction; exfalso; exact (F c' t Hin).
  - destruct (F c' t Hin) as (cn & sid & s & k & r & _ & _ & _ & _ & Hr & _ & _ & Hi).
    apply (Hmem h k r (N.eqb kindn 1) key val (fun y => eq_refl) eq_refl Hr Hi).
  - destruct (F c' t Hin) as (p & rest & b & rn & r & del & key & val & _ & _ & _ & Hr & Hi).
    apply (Hmem (set_bus h rest) (b, rn) r del key val (fun y => eq_refl) eq_refl Hr Hi).
Qed.

(* a join writes no transient message but the initial data *)
Theorem join_writes_only_initial limits gated ops c rn rs rep c' t :
  let h := run (init limits gated) ops in
  In (ToConn c' (STransient t)) (snd (step h (OJoin c rn rs rep))) -> exists d, t = TInit d.
Proof.
  cbv zeta. intros Hin. exact (trans_frame _ (OJoin c rn rs rep) (busnt_reachable limits gated ops) c' t Hin).
Qed.
