(* Transient room data, history level: leaving and joining a room, deletion of a room, room messages from the bus.
   Continues proofs/Hub_transient_hist.v. *)
From Coq Require Import List NArith Bool Lia.
From Verif Require Import model.Hub proofs.Hub_basics proofs.Hub_wf proofs.Hub_easy proofs.Hub_corollaries proofs.Hub_pending
  proofs.Hub_transient_frame proofs.Hub_transient_bus proofs.Hub_transient_nr proofs.Hub_transient_nr2 proofs.Hub_isolation
  proofs.Hub_transient_hist.
Import ListNotations.
Open Scope N_scope.

(* a connected session has nothing queued *)
Definition PC (h : hub) : Prop := forall x s, get_sess h x = Some s -> s_conn s <> None -> s_pending s = [].
Lemma pc_of_inv h : Inv h -> PC h.
Proof. intros Iv x s. apply (inv_conn h Iv). Qed.
Lemma pc_nr (ex : N -> Prop) h h' : PC h -> NR ex h h' ->
  (forall x s, ex x -> get_sess h' x = Some s -> s_conn s <> None -> s_pending s = []) -> PC h'.
Proof.
  intros P (S & _ & _) He x s' Hs Hc. destruct (S x s' Hs) as [E|[(s & Hs0 & _ & C & _ & (P1 & _ & _))|(_ & C & _)]].
  - now apply (He x s').
  - rewrite P1 by congruence. apply (P x s Hs0). congruence.
  - congruence.
Qed.

Lemma rie_nr (P ex : N -> Prop) h h' g : RIe P h g -> NR ex h h' -> RIe (fun y => P y \/ ex y) h' g.
Proof.
  intros [S F] (Ss & R & Nx). split.
  - intros x s' Np Hs'. destruct (Ss x s' Hs') as [E|[(s & Hs & K & C & Rm & (_ & Pe & Hf))|(V & C & Hf)]].
    + exfalso. apply Np. now right.
    + eapply rix_olds; eauto.
    + constructor; [intros c Hc; congruence|auto|exact Hf|intros V'; congruence].
  - intros x Hx. apply F. lia.
Qed.

Lemma rix_move h h' g g' x s s' :
  (forall k r', s_room s = Some k -> room_of h' k = Some r' -> exists r, room_of h k = Some r /\ r_transient r' = r_transient r) ->
  s_kind s' = s_kind s -> s_conn s' = s_conn s -> s_room s' = s_room s ->
  replayT (s_pending s') (g_rep g' x) = replayT (s_pending s) (g_rep g x) ->
  (forall c, g_bind g' c = g_bind g c) -> hello_free (s_pending s') ->
  RIx h g x s -> RIx h' g' x s'.
Proof.
  intros R K C Rm E B Hf [Bn Vc Hh Rp]. constructor.
  - intros c Hc. rewrite B. apply Bn. congruence.
  - intros V. rewrite C. apply Vc. congruence.
  - exact Hf.
  - intros V. rewrite K in V. specialize (Rp V). rewrite Rm, E.
    destruct (s_room s) as [k|]; [|exact Rp]. destruct Rp as (Nz & d & Hd & Hr). split; [exact Nz|]. exists d. split; [exact Hd|].
    intros r' Hr'. destruct (R k r' eq_refl Hr') as (r & Hr0 & T). rewrite T. now apply Hr.
Qed.

Lemma leave_room_self h sid n s : get_sess h sid = Some s -> is_virtual (s_kind s) = false ->
  exists s1, get_sess (fst (leave_room h sid n)) sid = Some s1 /\ s_kind s1 = s_kind s /\ s_conn s1 = s_conn s /\
             s_pending s1 = s_pending s /\ s_room s1 = None.
Proof.
  intros Hs Hv. unfold leave_room. rewrite Hs. destruct (s_room s) as [k|] eqn:Hk; [|exists s; cbn [fst]; auto].
  rewrite Hv. set (s1 := upd_sess s None 0 (s_conn s) (s_perms s) (s_pending s) [] 0).
  set (h2 := put_sess (rs_del h sid) sid s1).
  assert (H2 : get_sess h2 sid = Some s1) by (unfold h2; rewrite get_put_sessT, N.eqb_refl; reflexivity).
  unfold release_mcu. rewrite H2. unfold close_tokens. cbn [fst].
  match goal with |- context [room_remove ?X k sid] => destruct (room_remove_proj X k sid) as [Es _]; unfold get_sess at 1; rewrite Es end.
  cbn [h_sessions set_mcu put_sess set_sessions]. rewrite aget_aset_same. eexists. split; [reflexivity|]. cbn. auto.
Qed.

(* the sends need SI after a leave *)
Lemma si_after_leave h h1 g sid s s1 : RI h g -> PC h -> NR (fun y => y = sid) h h1 ->
  get_sess h sid = Some s -> get_sess h1 sid = Some s1 -> s_conn s1 = s_conn s -> s_pending s1 = s_pending s -> SI h1 g.
Proof.
  intros I P (S & _ & _) Hs Hs1 C Pe y t Ht.
  destruct (N.eq_dec y sid) as [->|Hne].
  - assert (t = s1) by congruence. subst t. split.
    + intros c Hc. apply (ri_bind _ _ _ _ (ri_sess _ _ I sid s Hs)). congruence.
    + intros Hn. rewrite Pe. apply (P sid s Hs). congruence.
  - destruct (S y t Ht) as [E|[(t0 & Ht0 & _ & C0 & _ & (P1 & _ & _))|(_ & C0 & _)]]; [contradiction| |].
    + split; [intros c Hc; apply (ri_bind _ _ _ _ (ri_sess _ _ I y t0 Ht0)); congruence|].
      intros Hn. rewrite P1 by congruence. apply (P y t0 Ht0). congruence.
    + split; [intros c Hc; congruence|intros Hn; congruence].
Qed.

Lemma hf_after_leave h h1 g sid s s1 : RI h g -> NR (fun y => y = sid) h h1 ->
  get_sess h sid = Some s -> get_sess h1 sid = Some s1 -> s_pending s1 = s_pending s ->
  forall y t, get_sess h1 y = Some t -> hello_free (s_pending t).
Proof.
  intros I (S & _ & _) Hs Hs1 Pe y t Ht. destruct (N.eq_dec y sid) as [->|Hne].
  - assert (t = s1) by congruence. subst t. rewrite Pe. apply (ri_hf _ _ _ _ (ri_sess _ _ I sid s Hs)).
  - destruct (S y t Ht) as [E|[(t0 & Ht0 & _ & _ & _ & (_ & _ & P3))|(_ & _ & Hf)]]; [contradiction| |exact Hf].
    apply P3, (ri_hf _ _ _ _ (ri_sess _ _ I y t0 Ht0)).
Qed.

(* a session leaves its room and is told "room 0" (leave by the client, deletion of the room) *)
Lemma ri_leave_tell h g sid n s : RI h g -> PC h -> get_sess h sid = Some s -> is_virtual (s_kind s) = false ->
  sid <= h_nextsid h ->
  let r1 := leave_room h sid n in let r2 := send_session (fst r1) sid (SRoom 0) in
  RI (fst r2) (gouts g (snd r1 ++ snd r2)) /\ PC (fst r2) /\ h_nextsid h <= h_nextsid (fst r2) /\
  (forall k r', room_of (fst r2) k = Some r' -> exists r, room_of h k = Some r /\ r_transient r' = r_transient r) /\
  (forall y t', get_sess (fst r2) y = Some t' -> exists t, get_sess h y = Some t /\ s_kind t' = s_kind t).
Proof.
  intros I P Hs Hv Hle. cbv zeta.
  pose proof (nr_leave_room (fun y => y = sid) h h sid n (or_introl eq_refl) (nr_refl _ _)) as [B1 Q1].
  destruct (leave_room_self h sid n s Hs Hv) as (s1 & Hs1 & K1 & C1 & P1 & R1).
  assert (Hkind : forall y t1, get_sess (fst (leave_room h sid n)) y = Some t1 -> exists t0, get_sess h y = Some t0 /\ s_kind t1 = s_kind t0).
  { intros y t1 Ht1. pose proof (leave_room_core h sid n y) as Lc. rewrite Ht1 in Lc. cbn [option_map] in Lc.
    destruct (N.eqb_spec y sid) as [->|Hne].
    - rewrite Hs in Lc. exists s. split; [exact Hs|]. unfold core, unroomed in Lc. destruct (s_room s); injection Lc as _ Kk _; exact Kk.
    - destruct (get_sess h y) as [t0|]; [|discriminate Lc]. exists t0. split; [reflexivity|]. cbn in Lc. unfold core in Lc. injection Lc as _ Kk _. exact Kk. }
  destruct (leave_room h sid n) as [h1 o1]. cbn [fst snd] in *.
  rewrite gouts_app, (gouts_quiet _ _ Q1).
  pose proof (si_after_leave h h1 g sid s s1 I P B1 Hs Hs1 C1 P1) as Si.
  assert (Hv1 : is_virtual (s_kind s1) = false) by congruence.
  pose proof (send1 (SRoom 0) h1 g sid s1 Logic.I Si Hs1 Hv1) as St.
  destruct (send_session h1 sid (SRoom 0)) as [h2 o2]. cbn [fst snd] in *.
  pose proof (rie_nr (fun _ => False) (fun y => y = sid) h h1 g (rie_of_ri _ h g I) B1) as [S1 F1].
  assert (HF1 := hf_after_leave h h1 g sid s s1 I B1 Hs Hs1 P1).
  assert (Hother : forall y t', y <> sid -> get_sess h2 y = Some t' ->
            exists t, get_sess h1 y = Some t /\ s_kind t' = s_kind t /\ s_conn t' = s_conn t /\ s_room t' = s_room t /\
                      replayT (s_pending t') (g_rep (gouts g o2) y) = replayT (s_pending t) (g_rep g y)).
  { intros y t' Hne Ht'. pose proof (sent_live _ _ _ _ _ _ y St) as L. rewrite Ht' in L.
    destruct (get_sess h1 y) as [t|]; [|destruct L]. exists t. destruct (N.eqb_spec y sid); [contradiction|]. tauto. }
  split; [|split; [|split; [|split]]].
  - constructor.
    + intros y t' Ht'. destruct (N.eq_dec y sid) as [->|Hne].
      * pose proof (sent_live _ _ _ _ _ _ sid St) as L. rewrite Ht', Hs1, N.eqb_refl in L. destruct L as (K & C & Rm & E).
        destruct (ri_sess _ _ I sid s Hs) as [Bn Vc Hh Rp]. constructor.
        -- intros c Hc. rewrite (st_bind _ _ _ _ _ _ St). apply Bn. congruence.
        -- intros V. congruence.
        -- apply (st_hf _ _ _ _ _ _ St HF1 sid t' Ht').
        -- intros _. rewrite Rm, R1, E. reflexivity.
      * destruct (Hother y t' Hne Ht') as (t & Ht & K & C & Rm & E).
        apply (rix_move h1 h2 g (gouts g o2) y t t'); auto.
        -- intros k r' _ Hr'. exists r'. split; [|reflexivity]. unfold room_of in *. now rewrite <- (st_rooms _ _ _ _ _ _ St).
        -- apply (st_bind _ _ _ _ _ _ St).
        -- apply (st_hf _ _ _ _ _ _ St HF1 y t' Ht').
        -- apply S1; [intros [[]|E']; contradiction|exact Ht].
    + intros x Hx. rewrite (st_next _ _ _ _ _ _ St) in Hx. destruct B1 as (_ & _ & Nx).
      rewrite (st_other _ _ _ _ _ _ St x); [apply F1; lia|]. apply N.eqb_neq. lia.
  - intros y t' Ht' Hc. pose proof (sent_live _ _ _ _ _ _ y St) as L. rewrite Ht' in L.
    destruct (st_si _ _ _ _ _ _ St y t' Ht') as [_ Pe]. now apply Pe.
  - rewrite (st_next _ _ _ _ _ _ St). apply B1.
  - intros k r' Hr'. unfold room_of in Hr'. rewrite (st_rooms _ _ _ _ _ _ St) in Hr'. destruct B1 as (_ & Rr & _). now apply Rr.
  - intros y t' Ht'. pose proof (sent_live _ _ _ _ _ _ y St) as L. rewrite Ht' in L.
    destruct (get_sess h1 y) as [t|] eqn:Ht; [|destruct L]. destruct L as (K & _).
    destruct (Hkind y t Ht) as (t0 & Ht0 & K0). exists t0. split; [exact Ht0|congruence].
Qed.

(* ------------------------------------------------------------------ joining a room *)
Lemma rs_set_rooms h sid rs : h_rooms (rs_set h sid rs) = h_rooms h.
Proof.
  unfold rs_set. destruct (N.eqb rs 0); destruct (aget (h_rs1 h) sid); try reflexivity. destruct (N.eqb n rs); reflexivity.
Qed.

Lemma tapply_room_fresh (e : rep) rn : rn <> 0 -> (forall d, e <> Some (rn, d)) -> tapply e (SRoom rn) = Some (rn, []).
Proof.
  intros Hz Hn. destruct rn as [|p]; [contradiction|]. cbn. destruct e as [[r' d]|]; [|reflexivity].
  change (match r' with 0 => false | N.pos q => (p =? q)%positive end) with (N.eqb (N.pos p) r').
  destruct (N.eqb_spec (N.pos p) r') as [<-|]; [exfalso; exact (Hn d eq_refl)|reflexivity].
Qed.

Lemma ri_join_room h g c sid k rs perms su s :
  WF h -> RI h g -> PC h -> get_sess h sid = Some s -> is_virtual (s_kind s) = false -> sid <= h_nextsid h -> snd k <> 0 ->
  (forall d, replayT (s_pending s) (g_rep g sid) <> Some (snd k, d)) ->
  RI (fst (join_room h c sid k rs perms su)) (gouts g (snd (join_room h c sid k rs perms su))).
Proof.
  intros W I P Hs Hv Hle Hz He. unfold join_room.
  pose proof (nr_leave_room (fun y => y = sid) h h sid true (or_introl eq_refl) (nr_refl _ _)) as [B1 Q1].
  destruct (leave_room_self h sid true s Hs Hv) as (s1 & Hs1 & K1 & C1 & P1 & R1).
  pose proof (wf_leave_room _ _ h sid true W) as W1.
  destruct (leave_room h sid true) as [h1 o1]. cbn [fst snd] in *. rewrite Hs1.
  pose proof (si_after_leave h h1 g sid s s1 I P B1 Hs Hs1 C1 P1) as Si1.
  assert (HF1 := hf_after_leave h h1 g sid s s1 I B1 Hs Hs1 P1).
  pose proof (rie_nr (fun _ => False) (fun y => y = sid) h h1 g (rie_of_ri _ h g I) B1) as [S1 F1].
  assert (Hv1 : is_virtual (s_kind s1) = false) by congruence.
  set (r := match room_of h1 k with Some x => x | None => empty_room end).
  assert (Hal : nmem sid (r_members r) = false).
  { apply nmem_false_iff. intros Hin. unfold r in Hin. destruct (room_of h1 k) as [x|] eqn:Hx; [|destruct Hin].
    destruct (wf_members _ _ h1 W1 k x sid Hx Hin) as (s0 & Hs0 & Hk0). congruence. }
  cbv zeta. fold r. rewrite Hal.
  set (r' := mkroom (nadd sid (r_members r)) (r_incall r) (if N.eqb su 0 then r_sessdata r else aset (r_sessdata r) sid su) (r_transient r) (r_props r)).
  set (s1' := upd_sess s1 (Some k) rs (s_conn s1) match perms with Some p => Some p | None => s_perms s1 end (s_pending s1) [] (h_clock h1)).
  match goal with |- context [send_session ?H sid (SRoom (snd k))] => set (h5 := H) end.
  assert (G5 : forall y, get_sess h5 y = if N.eqb y sid then Some s1' else get_sess h1 y).
  { intros y. unfold h5, get_sess. destruct (N.eqb rs 0); destruct (s_kind s1) as [|f d|]; try destruct d; cbn; rewrite ?rs_set_sessions; cbn; apply aget_aset. }
  assert (R5 : h_rooms h5 = pset (h_rooms h1) k r').
  { unfold h5. destruct (N.eqb rs 0); destruct (s_kind s1) as [|f d|]; try destruct d; cbn; rewrite ?rs_set_rooms; reflexivity. }
  assert (N5 : h_nextsid h5 = h_nextsid h1).
  { unfold h5. destruct (N.eqb rs 0); destruct (s_kind s1) as [|f d|]; try destruct d; cbn; rewrite ?rs_set_nextsid; reflexivity. }
  clearbody h5.
  assert (Hs5 : get_sess h5 sid = Some s1') by (rewrite G5, N.eqb_refl; reflexivity).
  assert (Si5 : SI h5 g).
  { intros y t. rewrite G5. destruct (N.eqb_spec y sid) as [->|Hne]; [|apply Si1].
    intros E. injection E as <-. cbn. destruct (Si1 sid s1 Hs1) as [A B]. split; assumption. }
  assert (HF5 : forall y t, get_sess h5 y = Some t -> hello_free (s_pending t)).
  { intros y t. rewrite G5. destruct (N.eqb_spec y sid) as [->|Hne]; [|apply HF1]. intros E. injection E as <-. cbn. apply (HF1 sid s1 Hs1). }
  pose proof (send1 (SRoom (snd k)) h5 g sid s1' Logic.I Si5 Hs5 Hv1) as St1.
  destruct (send_session h5 sid (SRoom (snd k))) as [h7 o2]. cbn [fst snd] in St1.
  assert (Hr7 : room_of h7 k = Some r') by (unfold room_of; rewrite (st_rooms _ _ _ _ _ _ St1), R5; apply pget_pset_same).
  rewrite Hr7.
  set (h9 := publish h7 (SubjRoom (fst k) (snd k)) (ARoomEvent (SJoin [(sid, if N.eqb (s_user s1) 0 then su else s_user s1)]))).
  set (g7 := gouts g o2) in *.
  (* the initial data *)
  assert (St2 : exists T2, (forall y, y <> sid -> T2 y = false) /\
            (r_transient r = [] -> T2 sid = false) /\ (r_transient r <> [] -> T2 sid = true) /\
            let r10 := match r_transient r with [] => (h9, []) | d => send_session h9 sid (STransient (TInit d)) end in
            sent h7 g7 (fst r10) (gouts g7 (snd r10)) (STransient (TInit (r_transient r))) T2).
  { destruct (r_transient r) as [|e l] eqn:Hd.
    - exists (fun _ => false). split; [reflexivity|]. split; [reflexivity|]. split; [congruence|]. cbn [fst snd].
      change (gouts g7 []) with g7. 
      assert (X : sent h7 g7 h7 g7 (STransient (TInit [])) (fun _ => false)) by (apply sent_refl, (st_si _ _ _ _ _ _ St1)).
      destruct X as [A B C D F G O H]. constructor; auto.
    - exists (fun y => N.eqb y sid). split; [intros y Hy; now apply N.eqb_neq|]. split; [congruence|]. split; [intros _; apply N.eqb_refl|]. cbv zeta.
      pose proof (sent_live _ _ _ _ _ _ sid St1) as L. rewrite Hs5 in L. destruct (get_sess h7 sid) as [s7|] eqn:Hs7; [|destruct L].
      destruct L as (K7 & _).
      assert (Hv7 : is_virtual (s_kind s7) = false) by (rewrite K7; exact Hv1).
      pose proof (send1 (STransient (TInit (e :: l))) h9 g7 sid s7 Logic.I (st_si _ _ _ _ _ _ St1) Hs7 Hv7) as X.
      destruct (send_session h9 sid (STransient (TInit (e :: l)))) as [h10 o3]. cbn [fst snd] in *.
      destruct X as [A B C D F G O H]. constructor; auto. }
  destruct St2 as (T2 & T2o & T2e & T2n & St2). cbv zeta in St2.
  destruct (match r_transient r with [] => (h9, []) | e :: l => send_session h9 sid (STransient (TInit (e :: l))) end) as [h10 o3].
  cbn [fst snd] in *.
  rewrite !gouts_app, (gouts_quiet _ _ Q1). fold g7. set (g10 := gouts g7 o3) in *.
  apply (ri_eq h10); try reflexivity.
  assert (Rooms10 : h_rooms h10 = pset (h_rooms h1) k r').
  { rewrite (st_rooms _ _ _ _ _ _ St2), (st_rooms _ _ _ _ _ _ St1). exact R5. }
  assert (HF10 : forall y t, get_sess h10 y = Some t -> hello_free (s_pending t)).
  { apply (st_hf _ _ _ _ _ _ St2). apply (st_hf _ _ _ _ _ _ St1). exact HF5. }
  constructor.
  - intros y t' Ht'.
    pose proof (sent_live _ _ _ _ _ _ y St2) as L2. rewrite Ht' in L2. destruct (get_sess h7 y) as [t7|] eqn:Ht7; [|destruct L2].
    pose proof (sent_live _ _ _ _ _ _ y St1) as L1. rewrite Ht7 in L1. rewrite G5 in L1.
    destruct L2 as (K2 & C2 & Rm2 & E2).
    destruct (N.eq_dec y sid) as [->|Hne].
    + rewrite N.eqb_refl in L1. destruct L1 as (Ka & Ca & Rma & Ea). cbn [s1' s_kind s_conn s_room s_pending upd_sess] in Ka, Ca, Rma, Ea.
      destruct (ri_sess _ _ I sid s Hs) as [Bn Vc Hh Rp]. constructor.
      * intros c' Hc'. unfold g10, g7. rewrite (st_bind _ _ _ _ _ _ St2), (st_bind _ _ _ _ _ _ St1). apply Bn. congruence.
      * intros V. congruence.
      * apply (HF10 sid t' Ht').
      * intros _. rewrite Rm2, Rma. split; [exact Hz|]. exists (r_transient r). split.
        -- rewrite E2, Ea, P1. rewrite (tapply_room_fresh _ (snd k) Hz He).
           destruct (r_transient r) as [|e l] eqn:Hd; [rewrite (T2e eq_refl); reflexivity|].
           rewrite T2n by discriminate. reflexivity.
        -- intros r0 Hr0. unfold room_of in Hr0. rewrite Rooms10, pget_pset_same in Hr0. injection Hr0 as <-. reflexivity.
    + destruct (N.eqb_spec y sid) as [|_]; [contradiction|]. destruct (get_sess h1 y) as [t1|] eqn:Ht1; [|destruct L1].
      destruct L1 as (Ka & Ca & Rma & Ea). rewrite (T2o y Hne) in E2.
      apply (rix_move h1 h10 g g10 y t1 t'); try congruence.
      * intros k2 r2 Hk2 Hr2. unfold room_of in Hr2. rewrite Rooms10, pget_pset in Hr2.
        destruct (pair_eqb_spec k2 k) as [->|Hnk]; [|exists r2; split; [exact Hr2|reflexivity]].
        injection Hr2 as <-. destruct (wf_room _ _ h1 W1 y t1 k Ht1 Hk2) as [[]|(rx & Hrx & _)].
        exists rx. split; [exact Hrx|]. unfold r'. cbn [r_transient]. unfold r. rewrite Hrx. reflexivity.
      * intros c'. unfold g10, g7. rewrite (st_bind _ _ _ _ _ _ St2), (st_bind _ _ _ _ _ _ St1). reflexivity.
      * apply (HF10 y t' Ht').
      * apply S1; [intros [[]|E']; contradiction|exact Ht1].
  - intros x Hx. rewrite (st_next _ _ _ _ _ _ St2), (st_next _ _ _ _ _ _ St1), N5 in Hx. destruct B1 as (_ & _ & Nx).
    assert (Hxs : x <> sid) by lia.
    rewrite (st_other _ _ _ _ _ _ St2 x (T2o x Hxs)), (st_other _ _ _ _ _ _ St1 x); [apply F1; lia|now apply N.eqb_neq].
Qed.

(* ------------------------------------------------------------------ OJoin *)
Lemma eff_not_room h g sid s1 rn : RIx h g sid s1 -> is_virtual (s_kind s1) = false ->
  (forall k0, s_room s1 = Some k0 -> snd k0 <> rn) -> forall d, replayT (s_pending s1) (g_rep g sid) <> Some (rn, d).
Proof.
  intros [_ _ _ Rp] Hv Hk d. specialize (Rp Hv). destruct (s_room s1) as [k0|].
  - destruct Rp as (_ & d0 & Hd & _). rewrite Hd. intros E. injection E as E _. exact (Hk k0 eq_refl E).
  - rewrite Rp. discriminate.
Qed.

Lemma room_num_ne h sid s rn : WF h -> Ten h -> get_sess h sid = Some s ->
  match room_of h (s_backend s, rn) with Some r => nmem sid (r_members r) | None => false end = false ->
  forall k0, s_room s = Some k0 -> snd k0 <> rn.
Proof.
  intros W T Hs Hin k0 Hk0 E. pose proof (t_room h T sid s k0 Hs Hk0) as Hb.
  assert (k0 = (s_backend s, rn)) by (destruct k0; cbn in *; congruence). subst k0.
  destruct (wf_room _ _ h W sid s _ Hs Hk0) as [[]|(r & Hr & Hm)]. rewrite Hr in Hin. apply nmem_In in Hm. congruence.
Qed.

Lemma get_rs_set h a b x : get_sess (rs_set h a b) x = get_sess h x.
Proof. unfold get_sess. now rewrite rs_set_sessions. Qed.

Lemma ri_do_join h g c sid s rn rs rep : WF h -> Inv h -> Ten h -> RI h g ->
  get_sess h sid = Some s -> s_conn s = Some c ->
  RI (fst (do_join h c sid s rn rs rep)) (gouts g (snd (do_join h c sid s rn rs rep))).
Proof.
  intros W Iv T I Hs Hc.
  pose proof (pc_of_inv h Iv) as P.
  assert (Hle : sid <= h_nextsid h) by (apply (inv_ids h Iv); eexists; exact Hs).
  assert (Hv : is_virtual (s_kind s) = false).
  { destruct (is_virtual (s_kind s)) eqn:V; [|reflexivity]. rewrite (ri_vconn _ _ _ _ (ri_sess _ _ I sid s Hs) V) in Hc. discriminate. }
  unfold do_join. destruct (N.eqb_spec rn 0) as [->|Hz].
  - destruct (s_room s); [|exact I].
    pose proof (ri_leave_tell h g sid true s I P Hs Hv Hle) as R. cbv zeta in R. destruct R as (R & _).
    destruct (leave_room h sid true) as [h1 o1]. cbn [fst snd] in R. destruct (send_session h1 sid (SRoom 0)) as [h2 o2]. cbn [fst snd] in *.
    eapply ri_eq; [| | |exact R]; destruct (N.eqb (s_user s) 0 && negb (is_internal (s_kind s))); reflexivity.
  - cbv zeta. destruct (match room_of h (s_backend s, rn) with Some r => nmem sid (r_members r) | None => false end) eqn:Hin.
    + (* already in the room *)
      match goal with |- context [send_session ?H sid (SError E_already_joined)] => set (h1 := H) end.
      assert (B1 : NR noex h h1).
      { unfold h1. destruct (N.eqb (s_rs s) _); [apply nr_refl|].
        eapply nr_put_old; [apply nr_rs_set, nr_refl|rewrite get_rs_set; exact Hs|reflexivity..]. }
      pose proof (nr_send_irr noex h h1 sid (SError E_already_joined) eq_refl B1) as Q.
      destruct (send_session h1 sid (SError E_already_joined)) as [h2 outs]. now apply (ri_quiet h).
    + pose proof (room_num_ne h sid s rn W T Hs Hin) as Hne.
      destruct (is_internal (s_kind s)).
      * apply (ri_join_room h g c sid _ _ None 0 s); auto.
        apply (eff_not_room h); [apply (ri_sess _ _ I sid s Hs)|exact Hv|exact Hne].
      * (* the kick *)
        set (rsv := if N.eqb rs 0 then 0 else 1000000 + rs).
        assert (K : nres noex h (if N.eqb rs 0 || N.eqb (s_rs s) rsv then (h, []) else kick_room_session h rsv)).
        { destruct (N.eqb rs 0 || N.eqb (s_rs s) rsv); [split; [apply nr_refl|apply qouts_nil]|apply nr_kick, nr_refl]. }
        assert (W1 : WF (fst (if N.eqb rs 0 || N.eqb (s_rs s) rsv then (h, []) else kick_room_session h rsv))).
        { destruct (N.eqb rs 0 || N.eqb (s_rs s) rsv); [exact W|now apply wf_kick]. }
        assert (R0 : rel0 sid h (fst (if N.eqb rs 0 || N.eqb (s_rs s) rsv then (h, []) else kick_room_session h rsv))).
        { destruct (N.eqb rs 0 || N.eqb (s_rs s) rsv); [apply rel0_refl|apply rel0_kick]. }
        destruct (if N.eqb rs 0 || N.eqb (s_rs s) rsv then (h, []) else kick_room_session h rsv) as [h1 outs1].
        cbn [fst snd] in *. destruct K as [B1 Q1]. cbn [fst snd] in B1, Q1.
        assert (I1 : RI h1 g) by (eapply ri_nr; [exact I|exact B1|intros x s' []]).
        assert (Hg : forall l, gouts g (ToBackend (s_backend s, 1, 0, rn, (if N.eqb rs 0 then 2000000 + sid else rsv), 1) :: outs1 ++ l) = gouts g l).
        { intros l. rewrite gouts_cons. cbn [gout]. rewrite gouts_app, (gouts_quiet _ _ Q1). reflexivity. }
        destruct (get_sess h1 sid) as [s1|] eqn:Hs1.
        2:{ cbn [fst snd]. rewrite <- (app_nil_r outs1), Hg. exact I1. }
        destruct rep as [perms su|code].
        -- pose proof (pc_nr noex h h1 P B1 (fun x s0 (E : noex x) _ _ => match E with end)) as P1.
           destruct (r0_core _ _ _ R0 s1 Hs1) as (s0 & Hs0 & [C0 _]). assert (s0 = s) by congruence. subst s0.
           assert (O1 : s_kind s1 = s_kind s /\ s_room s1 = s_room s).
           { destruct B1 as (Ss & _ & _). destruct (Ss sid s1 Hs1) as [[]|[(s0 & Hs0' & K0 & _ & Rm & _)|(_ & C1 & _)]]; [|congruence].
             assert (s0 = s) by congruence. subst s0. split; [exact K0|]. destruct Rm as [V|Rm]; [congruence|exact Rm]. }
           destruct O1 as [K1 Rm1].
           assert (Hv1 : is_virtual (s_kind s1) = false) by congruence.
           assert (Hle1 : sid <= h_nextsid h1) by (destruct B1 as (_ & _ & Nx); eapply N.le_trans; [exact Hle|exact Nx]).
           pose proof (ri_join_room h1 g c sid (s_backend s, rn) rsv perms su s1 W1 I1 P1 Hs1 Hv1 Hle1 Hz) as J.
           assert (He : forall d, replayT (s_pending s1) (g_rep g sid) <> Some (snd (s_backend s, rn), d)).
           { apply (eff_not_room h1); [apply (ri_sess _ _ I1 sid s1 Hs1)|exact Hv1|]. rewrite Rm1. exact Hne. }
           specialize (J He). destruct (join_room h1 c sid (s_backend s, rn) rsv perms su) as [h2 outs2]. cbn [fst snd] in *.
           rewrite Hg. exact J.
        -- pose proof (nr_send_irr noex h1 h1 sid (SError code) eq_refl (nr_refl _ _)) as Q.
           destruct (send_session h1 sid (SError code)) as [h2 outs]. cbn [fst snd]. rewrite Hg. exact (ri_quiet h1 g (h2, outs) I1 Q).
Qed.

Theorem ri_step_join h g c rn rs rep : WF h -> Inv h -> TI h -> RI h g ->
  RI (fst (step h (OJoin c rn rs rep))) (gouts g (snd (step h (OJoin c rn rs rep)))).
Proof.
  intros W Iv [T Bj] I. cbn [step]. unfold with_session.
  assert (Qerr : forall e, qouts [ToConn c (SError e)]) by (intros e; apply qouts_cons; [intros ? ? E; injection E as <- <-; reflexivity|apply qouts_nil]).
  destruct (aget (h_conns h) c) as [cn|] eqn:Ec; [|exact I].
  destruct (c_sess cn) as [sid|] eqn:Es; [|apply (ri_quiet h); [exact I|split; [apply nr_refl|apply Qerr]]].
  destruct (get_sess h sid) as [s|] eqn:Hs; [|apply (ri_quiet h); [exact I|split; [apply nr_refl|apply Qerr]]].
  destruct (wf_conns _ _ h W c cn sid Ec Es) as (s0 & Hs0 & Hc). assert (s0 = s) by congruence. subst s0.
  pose proof (ri_do_join h g c sid s rn rs rep W Iv T I Hs Hc) as J.
  destruct (do_join h c sid s rn rs rep) as [h1 o1]. cbn [fst snd] in J.
  assert (Rv : RI (fst (revoke h1 sid)) (gouts g (o1 ++ snd (revoke h1 sid)))).
  { rewrite gouts_app. apply (ri_quiet h1); [exact J|apply nr_revoke, nr_refl]. }
  destruct rep as [[p|] su|code]; try exact J.
  destruct (get_sess h1 sid) as [s1|]; [|exact J].
  destruct (negb (N.eqb rn 0) && negb (is_internal (s_kind s)) && opt_pair_eqb (s_room s1) (Some (s_backend s, rn)) &&
            negb (opt_pair_eqb (s_room s) (Some (s_backend s, rn)))); [|exact J].
  destruct (revoke h1 sid) as [h2 o2]. exact Rv.
Qed.

(* ------------------------------------------------------------------ folds over sessions with the ghost *)
Lemma fold_J (J : hub -> ghost -> Prop) l f :
  (forall hh gg x, In x l -> J hh gg -> J (fst (f hh x)) (gouts gg (snd (f hh x)))) ->
  forall h g, J h g -> J (fst (fold_sessions h l f)) (gouts g (snd (fold_sessions h l f))).
Proof.
  induction l as [|x l IH]; intros Hf h g Hj; [exact Hj|].
  rewrite fold_sessions_cons. pose proof (Hf h g x (or_introl eq_refl) Hj) as H1. destruct (f h x) as [h1 o1]. cbn [fst snd] in H1.
  pose proof (IH (fun hh gg y Hy => Hf hh gg y (or_intror Hy)) h1 (gouts g o1) H1) as H2.
  destruct (fold_sessions h1 l f) as [h2 o2]. cbn [fst snd] in *. now rewrite gouts_app.
Qed.

(* live sessions have ids handed out by the counter *)
Definition IDS (h : hub) : Prop := forall x s, get_sess h x = Some s -> x <= h_nextsid h.
Lemma ids_of_inv h : Inv h -> IDS h.
Proof. intros Iv x s Hs. apply (inv_ids h Iv). eexists; exact Hs. Qed.

Definition JD (h : hub) (g : ghost) : Prop := RI h g /\ PC h /\ IDS h.

(* ------------------------------------------------------------------ deletion of a room (ADelete delivered) *)
Lemma jd_delete_member hh gg m : JD hh gg -> JD (fst (delete_member hh m)) (gouts gg (snd (delete_member hh m))).
Proof.
  intros (I & P & D). unfold delete_member. destruct (get_sess hh m) as [s|] eqn:Hs; [|exact (conj I (conj P D))].
  destruct (is_virtual (s_kind s)) eqn:Hv.
  - pose proof (nr_leave_room noex hh hh m true) as L.
    assert (Hx : noex m \/ (forall s0, get_sess hh m = Some s0 -> is_virtual (s_kind s0) = true)) by (right; intros s0 E; congruence).
    specialize (L Hx (nr_refl _ _)). pose proof (rel0_leave_room m hh m true) as R0.
    assert (R0' : forall y, rel0 y hh (fst (leave_room hh m true))) by (intros y; apply rel0_leave_room).
    destruct (leave_room hh m true) as [h2 o1]. cbn [fst snd] in *. destruct L as [B Q]. cbn [fst snd] in B, Q. split; [|split].
    + apply (ri_quiet hh gg (h2, o1) I). split; assumption.
    + apply (pc_nr noex hh h2 P B). intros x s0 [].
    + intros y t Ht. destruct (r0_core _ _ _ (R0' y) t Ht) as (t0 & Ht0 & _). rewrite (r0_next _ _ _ (R0' y)). now apply (D y t0).
  - pose proof (ri_leave_tell hh gg m true s I P Hs Hv (D m s Hs)) as R. cbv zeta in R.
    destruct (leave_room hh m true) as [h2 o1]. cbn [fst snd] in R. destruct (send_session h2 m (SRoom 0)) as [h3 o2]. cbn [fst snd] in *.
    destruct R as (R & P3 & Nx & _ & Kd). split; [exact R|split; [exact P3|]].
    intros y t' Ht'. destruct (Kd y t' Ht') as (t & Ht & _). pose proof (D y t Ht). lia.
Qed.

Lemma jd_nr h h' g outs : JD h g -> NR noex h h' -> qouts outs -> (forall y, rel0 y h h') -> JD h' (gouts g outs).
Proof.
  intros (I & P & D) B Q R0. split; [|split].
  - apply (ri_quiet h g (h', outs) I). split; assumption.
  - apply (pc_nr noex h h' P B). intros x s0 [].
  - intros y t Ht. destruct (r0_core _ _ _ (R0 y) t Ht) as (t0 & Ht0 & _). rewrite (r0_next _ _ _ (R0 y)). now apply (D y t0).
Qed.

Lemma jd_room_delete h g k : JD h g -> JD (fst (room_request h k ADelete)) (gouts g (snd (room_request h k ADelete))).
Proof.
  intros J. unfold room_request. destruct (room_of h k) as [r|]; [|exact J].
  set (internals := filter _ (r_members r)).
  pose proof (nr_fold_sessions noex h internals (fun hh m => send_session hh m SRoomDeleted) h
                (fun hh x B => nr_send_irr noex h hh x SRoomDeleted eq_refl B) (nr_refl _ _)) as [B0 Q0].
  assert (R0 : forall y, rel0 y h (fst (fold_sessions h internals (fun hh m => send_session hh m SRoomDeleted)))).
  { intros y. apply rel0_fold_sessions. intros hh x. apply rel0_send_session. }
  destruct (fold_sessions h internals (fun hh m => send_session hh m SRoomDeleted)) as [h0 outs0]. cbn [fst snd] in *.
  assert (J1 : JD (set_rooms h0 (pdel (h_rooms h0) k)) (gouts g outs0)).
  { apply (jd_nr h); [exact J|now apply nr_pdel|exact Q0|]. intros y. destruct (R0 y) as [A B]. constructor; [exact A|exact B]. }
  pose proof (fold_J JD (r_members r) delete_member (fun hh gg x _ Hj => jd_delete_member hh gg x Hj) _ _ J1) as J9.
  destruct (fold_sessions (set_rooms h0 (pdel (h_rooms h0) k)) (r_members r) delete_member) as [h9 outs9]. cbn [fst snd] in *.
  now rewrite gouts_app.
Qed.

(* ------------------------------------------------------------------ a room message from the bus: the properties of room r changed *)
Lemma tapply_room_same rn d : rn <> 0 -> tapply (Some (rn, d)) (SRoom rn) = Some (rn, d).
Proof. intros Hz. destruct rn as [|p]; [contradiction|]. cbn. now rewrite Pos.eqb_refl. Qed.

Lemma jd_sent_noop h g h' g' m T : JD h g -> sent h g h' g' m T ->
  (forall y s, T y = true -> get_sess h y = Some s ->
     tapply (replayT (s_pending s) (g_rep g y)) m = replayT (s_pending s) (g_rep g y)) ->
  (forall y, T y = true -> exists s, get_sess h y = Some s) ->
  JD h' g'.
Proof.
  intros (I & P & D) St Hn Hl.
  assert (Live : forall y t', get_sess h' y = Some t' -> exists t, get_sess h y = Some t /\ s_kind t' = s_kind t /\ s_conn t' = s_conn t /\
             s_room t' = s_room t /\ replayT (s_pending t') (g_rep g' y) = replayT (s_pending t) (g_rep g y)).
  { intros y t' Ht'. pose proof (sent_live _ _ _ _ _ _ y St) as L. rewrite Ht' in L. destruct (get_sess h y) as [t|] eqn:Ht; [|destruct L].
    exists t. destruct L as (K & C & Rm & E). repeat split; auto. rewrite E. destruct (T y) eqn:Ty; [now apply Hn|reflexivity]. }
  split; [|split].
  - constructor.
    + intros y t' Ht'. destruct (Live y t' Ht') as (t & Ht & K & C & Rm & E).
      apply (rix_move h h' g g' y t t'); auto.
      * intros k r' _ Hr'. exists r'. split; [|reflexivity]. unfold room_of in *. now rewrite <- (st_rooms _ _ _ _ _ _ St).
      * apply (st_bind _ _ _ _ _ _ St).
      * apply (st_hf _ _ _ _ _ _ St) with y; [|exact Ht']. intros z tz Hz. apply (ri_hf _ _ _ _ (ri_sess _ _ I z tz Hz)).
      * now apply (ri_sess _ _ I).
    + intros x Hx. rewrite (st_next _ _ _ _ _ _ St) in Hx. rewrite (st_other _ _ _ _ _ _ St x); [now apply (ri_fresh _ _ I)|].
      destruct (T x) eqn:Tx; [|reflexivity]. destruct (Hl x Tx) as (s & Hs). pose proof (D x s Hs). lia.
  - intros y t' Ht' Hc. destruct (st_si _ _ _ _ _ _ St y t' Ht') as [_ Pe]. now apply Pe.
  - intros y t' Ht'. destruct (Live y t' Ht') as (t & Ht & _). rewrite (st_next _ _ _ _ _ _ St). now apply (D y t).
Qed.

Lemma In_aget_nodup' {V} (l : alist V) k v : NoDup (map fst l) -> In (k, v) l -> aget l k = Some v.
Proof.
  induction l as [|[k' v'] l IH]; cbn; [intros _ []|]. intros Nd [E|Hin].
  - injection E as -> ->. now rewrite N.eqb_refl.
  - inversion Nd as [|? ? Hn Nd']; subst. destruct (N.eqb_spec k k') as [->|]; [|now apply IH].
    exfalso. apply Hn. apply in_map_iff. exists (k', v). auto.
Qed.

Lemma jd_room_event h g b r sender co t : keys_ok h -> JD h g ->
  let f := fun hh x => recv_event hh x (SRoom r) sender co false t in
  JD (fst (fold_sessions h (room_listeners h (b, r)) f)) (gouts g (snd (fold_sessions h (room_listeners h (b, r)) f))).
Proof.
  intros Kk J f.
  set (L := room_listeners h (b, r)).
  set (JJ := fun hh gg => JD hh gg /\ forall x, In x L -> exists s, get_sess hh x = Some s /\ is_virtual (s_kind s) = false /\ s_room s = Some (b, r)).
  assert (H0 : JJ h g).
  { split; [exact J|]. intros x Hx. unfold L, room_listeners in Hx. apply in_map_iff in Hx as ([x' s] & <- & Hin).
    apply filter_In in Hin as [Hin Hf]. cbn [fst snd] in *. apply andb_true_iff in Hf as [Hv Hr].
    destruct J as (I & _ & _).
    (* the entry is the session: keys of reachable session tables are unique only under an invariant we do not have here;
       use the entry that get_sess finds *)
    exists s. split; [unfold get_sess; now apply In_aget_nodup'|]. apply negb_true_iff in Hv. destruct (s_room s) as [k0|] eqn:Hk; [|discriminate Hr]. cbn in Hr.
    destruct (pair_eqb_spec k0 (b, r)) as [->|]; [|discriminate Hr]. auto. }
  enough (X : JJ (fst (fold_sessions h L f)) (gouts g (snd (fold_sessions h L f)))) by exact (proj1 X).
  apply (fold_J JJ); [|exact H0]. clear H0. intros hh gg x Hx (Jh & HL).
  destruct (HL x Hx) as (s & Hs & Hv & Hr).
  assert (Hf : f hh x = (hh, []) \/ f hh x = send_session hh x (SRoom r)).
  { unfold f, recv_event. rewrite Hs. destruct (N.eqb sender x && negb (N.eqb sender 0)); [now left|].
    destruct (co && negb (in_call hh x s)); [now left|]. cbn [andb]. now right. }
  destruct Hf as [->| ->]; [cbn [fst snd]; split; [exact Jh|exact HL]|].
  destruct Jh as (I & P & D).
  pose proof (send1 (SRoom r) hh gg x s Logic.I (fun y ty Hy => conj (ri_bind _ _ _ _ (ri_sess _ _ I y ty Hy)) (P y ty Hy)) Hs Hv) as St.
  destruct (send_session hh x (SRoom r)) as [h' o']. cbn [fst snd] in *. split.
  - apply (jd_sent_noop hh gg h' (gouts gg o') (SRoom r) (fun y => N.eqb y x)); [exact (conj I (conj P D))|exact St| |].
    + intros y sy Ty Hy. apply N.eqb_eq in Ty. subst y. assert (sy = s) by congruence. subst sy.
      pose proof (ri_rep _ _ _ _ (ri_sess _ _ I x s Hs) Hv) as Rp. rewrite Hr in Rp. destruct Rp as (Nz & d & Hd & _).
      rewrite Hd. now apply tapply_room_same.
    + intros y Ty. apply N.eqb_eq in Ty. subst y. eauto.
  - intros y Hy. destruct (HL y Hy) as (sy & Hsy & Hvy & Hry). pose proof (sent_live _ _ _ _ _ _ y St) as Lv. rewrite Hsy in Lv.
    destruct (get_sess h' y) as [sy'|]; [|destruct Lv]. exists sy'. destruct Lv as (K & _ & Rm & _). repeat split; congruence.
Qed.
