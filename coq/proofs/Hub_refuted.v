(* Witnesses, computed on the model, of histories on which a property fails for the
   code as it is; the harness replays the same histories on the implementation
   (directed cases tagged as known findings). *)
From Coq Require Import List NArith Bool.
From Verif Require Import corr.Hub_preds.
Import ListNotations.
Open Scope N_scope.

Definition dedupN (l : list N) : list N := fold_left (fun acc x => nadd x acc) l [].

Definition raw_msgs_for (c : N) (outs : list out) : list smsg :=
  flat_map (fun o => match o with ToConn c' m => if N.eqb c c' then [m] else [] | _ => [] end) outs.

(* what the harness would record for these model outputs *)
Definition obs_of_outs (outs : list out) : obs :=
  mkobs (map (fun c => (c, raw_msgs_for c outs)) (dedupN (conns_of outs)))
        (closed_of outs) (breqs_of outs) (mcu_of outs).

Fixpoint model_trace (mode : N) (h : hub) (ops : list op) : trace :=
  match ops with
  | [] => []
  | o :: r => let '(h', outs) := sem_step mode h o in (o, obs_of_outs outs, digest_of h') :: model_trace mode h' r
  end.

Definition model_case (mode : N) (limits : list N) (ops : list op) : hcase :=
  mkcase 0 mode limits false (model_trace mode (init limits false) ops).

(* C04: with the bus free to deliver the room subject before the session subject, the joiner's
   replayed view keeps a member that already left *)
Definition ghost_join_ops : list op :=
  [OConnect 1 0; OConnect 2 0; OConnect 3 0; OHello 1 (HV1 0 1 false); OHello 2 (HV1 0 2 false); OHello 3 (HV1 0 3 false);
   OJoin 1 1 1 (RepOk None 0); ODeliver 0; ODeliver 0;
   OJoin 2 1 2 (RepOk None 0); ODeliver 0; ODeliver 0; ODeliver 0;
   OJoin 3 1 3 (RepOk None 0); ODeliver 0; ODeliver 0;
   OJoin 2 0 0 (RepOk None 0); ODeliver 1; ODeliver 0].

Fixpoint run_mode (mode : N) (h : hub) (ops : list op) : hub :=
  match ops with [] => h | o :: r => run_mode mode (fst (sem_step mode h o)) r end.

Lemma observers_converge_refuted :
  exists ops, h_bus (run_mode 2 (init [0; 0] false) ops) = [] /\
              P_hub 4 (model_case 2 [0; 0] ops) = Some (18, 2).
Proof. exists ghost_join_ops. split; vm_compute; reflexivity. Qed.

(* the same history in the order a FIFO bus produces is fine *)
Example observers_converge_fifo_instance :
  P_hub 4 (model_case 1 [0; 0] [OConnect 1 0; OConnect 2 0; OConnect 3 0; OHello 1 (HV1 0 1 false); OHello 2 (HV1 0 2 false);
                                 OHello 3 (HV1 0 3 false); OJoin 1 1 1 (RepOk None 0); OJoin 2 1 2 (RepOk None 0);
                                 OJoin 3 1 3 (RepOk None 0); OJoin 2 0 0 (RepOk None 0)]) = None.
Proof. vm_compute. reflexivity. Qed.

(* C03: the room-session map is shared by all backends *)
Definition global_kick_ops : list op :=
  [OConnect 1 0; OConnect 2 0; OHello 1 (HV1 0 1 false); OHello 2 (HV1 1 1 false);
   OJoin 1 1 5 (RepOk None 0); OJoin 2 7 5 (RepOk None 0)].
Definition global_api_ops : list op :=
  [OConnect 1 0; OConnect 2 0; OHello 1 (HV1 0 1 false); OHello 2 (HV1 1 1 false);
   OJoin 1 1 5 (RepOk None 0); OApi 1 1 9 (AParticipants [((IdRS 5), 0, (Some 24))])].

Lemma isolation_refuted_kick : P_hub 3 (model_case 1 [0; 0] global_kick_ops) = Some (5, 1).
Proof. vm_compute. reflexivity. Qed.
Lemma isolation_refuted_api : P_hub 3 (model_case 1 [0; 0] global_api_ops) = Some (5, 1).
Proof. vm_compute. reflexivity. Qed.
