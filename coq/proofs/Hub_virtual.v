(* C19: virtual sessions are announced and the backend is told.

   After IAdd by an internal client in an existing room the new session is a member of that room,
   an SJoin publication for it is queued on the room subject (and, in the quiescent semantics,
   delivered to every connected member), and a ToBackend "add session" request (kind 2, action 2)
   is emitted.  After IRemove, or when the internal client's session is closed, the session is
   gone, it is a member of no room, an SLeave publication is queued on the subject of the room it
   was in (and delivered), and a ToBackend "remove session" request (kind 2, action 3) is emitted.

   Organisation: a relation [frame x h h'] ("the function acted on session x only": every other
   session is untouched, other members stay members, table entries of other sessions stay, the
   bus only grows at the end), reflexive and transitive, proved once per model function on the
   way to [close_one]; then the statements about [do_internal], [close_session], [deliver_pub],
   [drain], [qstep]. *)
From Coq Require Import List NArith Bool Lia.
From Verif Require Import model.Hub proofs.Hub_basics proofs.Hub_easy proofs.Hub_wf proofs.Hub_corollaries
  proofs.Hub_own proofs.Hub_pending proofs.Hub_route.
Import ListNotations.
Open Scope N_scope.

(* ------------------------------------------------------------------ the bus only grows at the end *)
(* room events whose delivery closes nothing: joins and leaves (everything but bye / disinvite) *)
Definition benign (p : pub) : bool :=
  match p_subj p, p_msg p with
  | SubjRoom _ _, ARoomEvent msg => never_closing msg
  | _, _ => false
  end.

(* ... and what is appended are such room events *)
Definition bus_ext (h h' : hub) : Prop :=
  exists l, h_bus h' = h_bus h ++ l /\ Forall (fun p => benign p = true) l.

Lemma bus_ext_refl h : bus_ext h h.
Proof. exists []. split; [now rewrite app_nil_r|constructor]. Qed.
Lemma bus_ext_trans h1 h2 h3 : bus_ext h1 h2 -> bus_ext h2 h3 -> bus_ext h1 h3.
Proof.
  intros [l1 [E1 F1]] [l2 [E2 F2]]. exists (l1 ++ l2). split; [now rewrite E2, E1, app_assoc|].
  apply Forall_app. auto.
Qed.
Lemma bus_ext_eq h h' : h_bus h' = h_bus h -> bus_ext h h'.
Proof. intros E. exists []. split; [now rewrite app_nil_r|constructor]. Qed.
Lemma bus_ext_in h h' p : bus_ext h h' -> In p (h_bus h) -> In p (h_bus h').
Proof. intros [l [E _]] Hin. rewrite E. apply in_or_app. now left. Qed.

Lemma publish_bus h sj m : h_bus (publish h sj m) = h_bus h ++ [mkpub sj m (h_clock h)].
Proof. reflexivity. Qed.
Lemma publish_sessions h sj m : h_sessions (publish h sj m) = h_sessions h.
Proof. reflexivity. Qed.
Lemma publish_rooms h sj m : h_rooms (publish h sj m) = h_rooms h.
Proof. reflexivity. Qed.
Lemma publish_vtable h sj m : h_vtable (publish h sj m) = h_vtable h.
Proof. reflexivity. Qed.

Lemma rs_set_proj h sid rs :
  h_rooms (rs_set h sid rs) = h_rooms h /\ h_vtable (rs_set h sid rs) = h_vtable h /\
  h_bus (rs_set h sid rs) = h_bus h /\ h_clock (rs_set h sid rs) = h_clock h.
Proof.
  unfold rs_set. destruct (N.eqb rs 0).
  - destruct (aget (h_rs1 h) sid); repeat split; reflexivity.
  - destruct (aget (h_rs1 h) sid) as [prev|]; [destruct (N.eqb prev rs)|]; repeat split; reflexivity.
Qed.

(* ------------------------------------------------------------------ functions that act on one session *)
Record frame (x : N) (h h' : hub) : Prop := {
  fr_sess : forall y, y <> x -> get_sess h' y = get_sess h y;
  fr_mem : forall k r y, room_of h k = Some r -> In y (r_members r) -> y <> x ->
             exists r', room_of h' k = Some r' /\ In y (r_members r');
  fr_vt : forall key y, pget (h_vtable h) key = Some y -> y <> x -> pget (h_vtable h') key = Some y;
  fr_vt_none : forall key, pget (h_vtable h) key = None -> pget (h_vtable h') key = None;
  fr_bus : bus_ext h h';
  fr_clock : h_clock h <= h_clock h';
}.

Lemma frame_refl x h : frame x h h.
Proof. constructor; auto using bus_ext_refl; [|lia]. intros k r y Hr Hy _. eauto. Qed.

Lemma frame_trans x h1 h2 h3 : frame x h1 h2 -> frame x h2 h3 -> frame x h1 h3.
Proof.
  intros [S1 M1 V1 N1 B1 C1] [S2 M2 V2 N2 B2 C2]. constructor.
  - intros y Hy. now rewrite S2, S1.
  - intros k r y Hr Hin Hy. destruct (M1 k r y Hr Hin Hy) as [r' [Hr' Hin']]. eauto.
  - intros key y Hk Hy. eauto.
  - intros key Hk. eauto.
  - eapply bus_ext_trans; eauto.
  - lia.
Qed.

(* nothing but session x (and tables the relation does not read) changes *)
Lemma frame_same x h h' :
  (forall y, y <> x -> get_sess h' y = get_sess h y) ->
  h_rooms h' = h_rooms h -> h_vtable h' = h_vtable h -> h_bus h' = h_bus h -> h_clock h' = h_clock h ->
  frame x h h'.
Proof.
  intros Hs Hr Hv Hb Hc. constructor.
  - exact Hs.
  - intros k r y Hk Hin _. exists r. unfold room_of in *. rewrite Hr. auto.
  - intros key y Hk _. now rewrite Hv.
  - intros key Hk. now rewrite Hv.
  - now apply bus_ext_eq.
  - lia.
Qed.

Lemma frame_put x h s' : frame x h (put_sess h x s').
Proof.
  apply frame_same; try reflexivity.
  intros y Hy. rewrite get_put. destruct (N.eqb_spec y x); [contradiction|reflexivity].
Qed.

Lemma frame_rs_set x h sid rs : frame x h (rs_set h sid rs).
Proof.
  destruct (rs_set_proj h sid rs) as (R & V & B & C). apply frame_same; auto.
  intros y _. unfold get_sess. now rewrite rs_set_sessions.
Qed.

Lemma frame_set_mcu x h a b c : frame x h (set_mcu h a b c).
Proof. apply frame_same; reflexivity. Qed.

Lemma frame_release_mcu x h : frame x h (fst (release_mcu h x)).
Proof.
  unfold release_mcu. destruct (get_sess h x) as [s|]; [|apply frame_refl].
  unfold close_tokens. cbn [fst]. eapply frame_trans; [apply frame_put|apply frame_set_mcu].
Qed.

Lemma room_remove_vtable h k x : h_vtable (room_remove h k x) = h_vtable h.
Proof.
  unfold room_remove. destruct (room_of h k) as [r|]; [|reflexivity]. destruct (nmem x (r_members r)); [|reflexivity].
  unfold publish, remove_room_if_empty.
  match goal with |- context [room_of ?hh k] => destruct (room_of hh k) as [r1|] end; [destruct (r_members r1)|]; reflexivity.
Qed.

(* what Room.RemoveSession publishes *)
Lemma room_remove_bus h k x :
  h_bus (room_remove h k x) =
  h_bus h ++ match room_of h k with
             | Some r => if nmem x (r_members r)
                         then [mkpub (SubjRoom (fst k) (snd k)) (ARoomEvent (SLeave [x])) (h_clock h)] else []
             | None => [] end.
Proof.
  unfold room_remove. destruct (room_of h k) as [r|]; [|now rewrite app_nil_r].
  destruct (nmem x (r_members r)); [|now rewrite app_nil_r].
  unfold publish, remove_room_if_empty.
  match goal with |- context [room_of ?hh k] => destruct (room_of hh k) as [r1|] end; [destruct (r_members r1)|]; reflexivity.
Qed.

Lemma room_remove_clock h k x : h_clock h <= h_clock (room_remove h k x).
Proof.
  unfold room_remove. destruct (room_of h k) as [r|]; [|lia]. destruct (nmem x (r_members r)); [|lia].
  unfold publish, remove_room_if_empty.
  match goal with |- context [room_of ?hh k] => destruct (room_of hh k) as [r1|] end; [destruct (r_members r1)|];
    cbn [h_clock set_clock set_bus set_rooms]; lia.
Qed.

Lemma room_remove_room h k x k0 : room_of (room_remove h k x) k0 = pget (rooms_after_remove h k x) k0.
Proof. unfold room_of. now rewrite (eq_rooms _ _ (room_remove_equiv h k x)). Qed.

Lemma frame_room_remove x h k : frame x h (room_remove h k x).
Proof.
  constructor.
  - intros y _. unfold get_sess. now rewrite room_remove_sessions.
  - intros k0 r y Hr Hin Hy. rewrite room_remove_room, pget_rooms_after_remove.
    destruct (pair_eqb_spec k0 k) as [->|Hne]; [|eauto].
    rewrite Hr. destruct (nmem x (r_members r)); [|eauto].
    assert (Hin' : In y (nrem x (r_members r))).
    { apply nmem_In. rewrite nmem_nrem. apply nmem_In in Hin. rewrite Hin.
      destruct (N.eqb_spec y x); [contradiction|reflexivity]. }
    destruct (nrem x (r_members r)) as [|z l] eqn:Hn; [destruct Hin'|].
    eexists. split; [reflexivity|]. cbn [r_members]. exact Hin'.
  - intros key y Hk _. now rewrite room_remove_vtable.
  - intros key Hk. now rewrite room_remove_vtable.
  - eexists. split; [apply room_remove_bus|].
    destruct (room_of h k) as [r|]; [destruct (nmem x (r_members r))|]; repeat constructor.
  - apply room_remove_clock.
Qed.

Lemma frame_leave_room x h notify : frame x h (fst (leave_room h x notify)).
Proof.
  unfold leave_room. destruct (get_sess h x) as [s|]; [|apply frame_refl].
  destruct (s_room s) as [k|]; [|apply frame_refl].
  destruct (is_virtual (s_kind s)).
  - cbn [fst]. eapply frame_trans; [apply frame_rs_set|]. eapply frame_trans; [apply frame_put|apply frame_room_remove].
  - match goal with |- context [release_mcu ?hh x] => destruct (release_mcu hh x) as [h3 o2] eqn:Hrel end.
    cbn [fst]. eapply frame_trans; [apply frame_rs_set|]. eapply frame_trans; [apply frame_put|].
    eapply frame_trans; [|apply frame_room_remove]. rewrite (fst_eq _ _ _ Hrel). apply frame_release_mcu.
Qed.

Lemma frame_scrub x h : frame x h (scrub h x).
Proof.
  apply frame_same; try reflexivity.
  intros y Hy. unfold get_sess. destruct (scrub_proj h x) as (S1 & _). rewrite S1. now apply aget_adel_other.
Qed.

Lemma detach_conn_bus h oc : h_bus (detach_conn h oc) = h_bus h.
Proof. unfold detach_conn. destruct oc as [c0|]; [|reflexivity]. destruct (aget (h_conns h) c0); reflexivity. Qed.
Lemma drop_vt_bus h kd x : h_bus (drop_vt h kd x) = h_bus h.
Proof.
  unfold drop_vt. destruct kd as [| |p v]; try reflexivity.
  destruct (pget (h_vtable h) (p, v)) as [y|]; [destruct (N.eqb y x)|]; reflexivity.
Qed.

Lemma detach_conn_clock h oc : h_clock (detach_conn h oc) = h_clock h.
Proof. unfold detach_conn. destruct oc as [c0|]; [|reflexivity]. destruct (aget (h_conns h) c0); reflexivity. Qed.
Lemma drop_vt_clock h kd x : h_clock (drop_vt h kd x) = h_clock h.
Proof.
  unfold drop_vt. destruct kd as [| |p v]; try reflexivity.
  destruct (pget (h_vtable h) (p, v)) as [y|]; [destruct (N.eqb y x)|]; reflexivity.
Qed.

Lemma frame_detach x h oc : frame x h (detach_conn h oc).
Proof.
  destruct (detach_conn_other h oc) as (D1 & D2 & _ & _ & _ & _ & _ & _ & _ & D10).
  apply frame_same; auto using detach_conn_bus, detach_conn_clock. intros y _. unfold get_sess. now rewrite D1.
Qed.

Lemma frame_drop_vt x h kd : frame x h (drop_vt h kd x).
Proof.
  destruct (drop_vt_other h kd x) as (D1 & D2 & _).
  constructor.
  - intros y _. unfold get_sess. now rewrite D1.
  - intros k r y Hr Hin _. exists r. unfold room_of in *. rewrite D2. auto.
  - intros key y Hk Hy. rewrite drop_vt_get. destruct kd as [| |p v]; try exact Hk.
    destruct (pair_eqb_spec key (p, v)) as [->|]; [|exact Hk]. rewrite Hk.
    destruct (N.eqb_spec y x); [contradiction|reflexivity].
  - intros key Hk. rewrite drop_vt_get. destruct kd as [| |p v]; try exact Hk.
    destruct (pair_eqb_spec key (p, v)) as [->|]; [|exact Hk]. now rewrite Hk.
  - apply bus_ext_eq, drop_vt_bus.
  - rewrite drop_vt_clock. lia.
Qed.

(* the part of close_one after the session left its room *)
Lemma frame_close_tail x h1 oc kd :
  frame x h1 (drop_vt (detach_conn (scrub (set_mcu (fst (release_mcu h1 x)) (h_mcutok (fst (release_mcu h1 x)))
       (filter (fun e => negb (N.eqb (mp_owner (snd e)) x)) (h_mcupending (fst (release_mcu h1 x))))
       (h_mcuopen (fst (release_mcu h1 x)))) x) oc) kd x).
Proof.
  eapply frame_trans; [apply frame_release_mcu|]. eapply frame_trans; [apply frame_set_mcu|].
  eapply frame_trans; [apply frame_scrub|]. eapply frame_trans; [apply frame_detach|apply frame_drop_vt].
Qed.

Lemma frame_close_one x h : frame x h (fst (close_one h x)).
Proof.
  unfold close_one. destruct (get_sess h x) as [s|]; [|apply frame_refl].
  destruct (leave_room h x true) as [h1 o1] eqn:Hl.
  pose proof (frame_close_tail x h1 (s_conn s) (s_kind s)) as Ht.
  destruct (release_mcu h1 x) as [h2a o2a] eqn:Hr. cbn [fst] in Ht.
  assert (Hfin : frame x h (drop_vt (detach_conn (scrub (set_mcu h2a (h_mcutok h2a)
            (filter (fun e => negb (N.eqb (mp_owner (snd e)) x)) (h_mcupending h2a)) (h_mcuopen h2a)) x) (s_conn s)) (s_kind s) x)).
  { eapply frame_trans; [|exact Ht]. rewrite (fst_eq _ _ _ Hl). apply frame_leave_room. }
  destruct (s_kind s); cbn [fst]; exact Hfin.
Qed.

(* ------------------------------------------------------------------ closing a virtual session that is in a room *)
Lemma leave_room_virtual_bus h vs t p v k r notify :
  get_sess h vs = Some t -> s_kind t = KVirtual p v -> s_room t = Some k ->
  room_of h k = Some r -> In vs (r_members r) ->
  h_bus (fst (leave_room h vs notify)) =
  h_bus h ++ [mkpub (SubjRoom (fst k) (snd k)) (ARoomEvent (SLeave [vs])) (h_clock h)].
Proof.
  intros Ht Hkd Hk Hr Hin. unfold leave_room. rewrite Ht, Hk, Hkd. cbn [is_virtual fst].
  rewrite room_remove_bus.
  destruct (rs_set_proj h vs 0) as (R & _ & B & C).
  assert (Hr' : room_of (put_sess (rs_del h vs) vs (sess_room t None)) k = Some r).
  { unfold room_of, put_sess, rs_del. cbn [h_rooms set_sessions]. rewrite R. exact Hr. }
  rewrite Hr'. apply nmem_In in Hin. rewrite Hin.
  assert (Hb : h_bus (put_sess (rs_del h vs) vs (sess_room t None)) = h_bus h).
  { unfold put_sess, rs_del. cbn [h_bus set_sessions]. exact B. }
  assert (Hc : h_clock (put_sess (rs_del h vs) vs (sess_room t None)) = h_clock h).
  { unfold put_sess, rs_del. cbn [h_clock set_sessions]. exact C. }
  now rewrite Hb, Hc.
Qed.

Lemma close_one_virtual h vs t p v k r :
  get_sess h vs = Some t -> s_kind t = KVirtual p v -> s_room t = Some k ->
  room_of h k = Some r -> In vs (r_members r) ->
  In (ToBackend (s_backend t, 2, 3, snd k, vs, 1)) (snd (close_one h vs)) /\
  exists l, h_bus (fst (close_one h vs)) =
            h_bus h ++ mkpub (SubjRoom (fst k) (snd k)) (ARoomEvent (SLeave [vs])) (h_clock h) :: l.
Proof.
  intros Ht Hkd Hk Hr Hin.
  pose proof (leave_room_virtual_bus h vs t p v k r true Ht Hkd Hk Hr Hin) as Hb1.
  unfold close_one. rewrite Ht.
  destruct (leave_room h vs true) as [h1 o1] eqn:Hl. cbn [fst] in Hb1.
  pose proof (fr_bus _ _ _ (frame_close_tail vs h1 (s_conn t) (s_kind t))) as [l [Hbl _]].
  destruct (release_mcu h1 vs) as [h2a o2a] eqn:Hrel. cbn [fst] in Hbl.
  rewrite Hkd in *. cbn [fst snd]. rewrite Hk. split.
  - apply in_or_app. right. apply in_or_app. right. now left.
  - exists l. rewrite Hbl, Hb1, <- app_assoc. reflexivity.
Qed.

(* ------------------------------------------------------------------ IAdd *)
Lemma step_internal h c sid s q :
  conn_session h c sid s -> is_internal (s_kind s) = true -> step h (OInternal c q) = do_internal h c sid s q.
Proof.
  intros [cn [Hc [Hs Hg]]] Hi. cbn [step]. unfold with_session. rewrite Hc, Hs, Hg, Hi. reflexivity.
Qed.

(* the session AddSession creates *)
Definition add_vsess (h : hub) (sid : N) (s : session) (v rn user : N) (flags incall : option N) : session :=
  let vs := next_id h in
  let incallfeat := match s.(s_kind) with KInternal f _ => f | _ => false end in
  let ic := match incall with Some x => x | None => if incallfeat then 0 else 9 end in
  let fl := match flags with Some x => x | None => 0 end in
  mksess s.(s_backend) (KVirtual sid v) user (Some (s.(s_backend), rn)) (2000000 + vs) None None [] [] 0 ic fl [] [] [] 0.

(* the state after the new session joined, before a replaced one is closed *)
Definition add_h9 (h : hub) (sid : N) (s : session) (v rn user : N) (flags incall : option N) (r : room) : hub :=
  let k := (s.(s_backend), rn) in
  let vs := next_id h in
  let h0 := set_nextsid h vs in
  let fl := match flags with Some x => x | None => 0 end in
  let vsess := add_vsess h sid s v rn user flags incall in
  let r' := mkroom (nadd vs r.(r_members)) r.(r_incall) r.(r_sessdata) r.(r_transient) r.(r_props) in
  let h1 := put_sess (set_rooms h0 (pset h0.(h_rooms) k r')) vs vsess in
  let h2 := set_vtable h1 (pset h1.(h_vtable) (sid, v) vs) in
  let h5 := rs_set h2 vs (2000000 + vs) in
  let h6 := publish h5 (SubjRoom (fst k) (snd k)) (ARoomEvent (SJoin [(vs, user)])) in
  let h7 := publish h6 (SubjRoom (fst k) (snd k)) (AEvent (SPart 0) 0 false) in
  let h8 := if N.eqb fl 0 then h7 else publish h7 (SubjRoom (fst k) (snd k)) (AEvent (SFlags vs fl) 0 false) in
  publish h8 (SubjBackendRoom (fst k) (snd k)) (ASessionJoined vs false).

Lemma do_internal_add h c sid s v rn user flags incall r :
  room_of h (s_backend s, rn) = Some r ->
  do_internal h c sid s (IAdd v rn user flags incall) =
  let '(h10, outs10) := match pget (h_vtable h) (sid, v) with
                        | Some pv => close_one (add_h9 h sid s v rn user flags incall r) pv
                        | None => (add_h9 h sid s v rn user flags incall r, []) end in
  (h10, ToBackend (s_backend s, 2, 2, rn, next_id h, 1) :: outs10).
Proof. intros Hr. unfold do_internal. cbv zeta. rewrite Hr. reflexivity. Qed.

Lemma add_h9_sessions h sid s v rn user flags incall r :
  h_sessions (add_h9 h sid s v rn user flags incall r) =
  aset (h_sessions h) (next_id h) (add_vsess h sid s v rn user flags incall).
Proof.
  unfold add_h9. cbv zeta. rewrite publish_sessions.
  destruct (N.eqb _ 0); rewrite !publish_sessions, rs_set_sessions; reflexivity.
Qed.
Lemma add_h9_rooms h sid s v rn user flags incall r :
  h_rooms (add_h9 h sid s v rn user flags incall r) =
  pset (h_rooms h) (s_backend s, rn)
       (mkroom (nadd (next_id h) (r_members r)) (r_incall r) (r_sessdata r) (r_transient r) (r_props r)).
Proof.
  unfold add_h9. cbv zeta. rewrite publish_rooms.
  match goal with |- context [rs_set ?hh ?a ?b] => destruct (rs_set_proj hh a b) as (R & _) end.
  destruct (N.eqb _ 0); rewrite !publish_rooms, R; reflexivity.
Qed.
Lemma add_h9_vtable h sid s v rn user flags incall r :
  h_vtable (add_h9 h sid s v rn user flags incall r) = pset (h_vtable h) (sid, v) (next_id h).
Proof.
  unfold add_h9. cbv zeta. rewrite publish_vtable.
  match goal with |- context [rs_set ?hh ?a ?b] => destruct (rs_set_proj hh a b) as (_ & V & _) end.
  destruct (N.eqb _ 0); rewrite !publish_vtable, V; reflexivity.
Qed.
Lemma add_h9_bus h sid s v rn user flags incall r :
  exists l, h_bus (add_h9 h sid s v rn user flags incall r) =
            h_bus h ++ mkpub (SubjRoom (s_backend s) rn) (ARoomEvent (SJoin [(next_id h, user)])) (h_clock h) :: l.
Proof.
  unfold add_h9. cbv zeta. rewrite publish_bus.
  match goal with |- context [rs_set ?hh ?a ?b] => destruct (rs_set_proj hh a b) as (_ & _ & B & C) end.
  destruct (N.eqb _ 0); rewrite !publish_bus, B, C; cbn [fst snd h_bus h_clock put_sess set_sessions set_rooms set_vtable set_nextsid];
    rewrite <- !app_assoc; cbn [app]; eexists; reflexivity.
Qed.

(* what IAdd establishes, on do_internal *)
Lemma add_spec h c sid s v rn user flags incall r :
  WF h -> room_of h (s_backend s, rn) = Some r ->
  let vs := next_id h in
  let res := do_internal h c sid s (IAdd v rn user flags incall) in
  (exists t, get_sess (fst res) vs = Some t /\ s_kind t = KVirtual sid v /\ s_backend t = s_backend s /\
             s_room t = Some (s_backend s, rn) /\ s_user t = user) /\
  (exists r', room_of (fst res) (s_backend s, rn) = Some r' /\ In vs (r_members r')) /\
  In (ToBackend (s_backend s, 2, 2, rn, vs, 1)) (snd res) /\
  (exists l, h_bus (fst res) =
             h_bus h ++ mkpub (SubjRoom (s_backend s) rn) (ARoomEvent (SJoin [(vs, user)])) (h_clock h) :: l) /\
  pget (h_vtable (fst res)) (sid, v) = Some vs /\
  get_sess h vs = None /\
  (forall y sy, get_sess h y = Some sy -> is_virtual (s_kind sy) = false -> get_sess (fst res) y = Some sy).
Proof.
  intros W Hr vs res. subst res. rewrite (do_internal_add h c sid s v rn user flags incall r Hr).
  set (h9 := add_h9 h sid s v rn user flags incall r).
  assert (Hfresh : get_sess h vs = None) by apply next_id_fresh.
  assert (Hs9 : forall y, get_sess h9 y = if N.eqb y vs then Some (add_vsess h sid s v rn user flags incall) else get_sess h y).
  { intros y. unfold get_sess, h9. rewrite add_h9_sessions. apply aget_aset. }
  assert (Hvs9 : get_sess h9 vs = Some (add_vsess h sid s v rn user flags incall)) by (rewrite Hs9, N.eqb_refl; reflexivity).
  assert (Hr9 : exists r', room_of h9 (s_backend s, rn) = Some r' /\ In vs (r_members r')).
  { unfold room_of, h9. rewrite add_h9_rooms, pget_pset_same. eexists. split; [reflexivity|]. cbn [r_members].
    apply in_nadd_intro. now left. }
  assert (Hv9 : pget (h_vtable h9) (sid, v) = Some vs) by (unfold h9; rewrite add_h9_vtable; apply pget_pset_same).
  destruct (add_h9_bus h sid s v rn user flags incall r) as [l9 Hb9]. fold h9 in Hb9. fold vs in Hb9.
  destruct (pget (h_vtable h) (sid, v)) as [pv|] eqn:Hpv.
  - (* a session registered under the same id is replaced *)
    destruct (wf_vt _ _ h W sid v pv Hpv) as [sp [Hsp Hkp]].
    assert (Hne : vs <> pv) by (intros E; rewrite E in Hfresh; congruence).
    pose proof (frame_close_one pv h9) as F.
    destruct (close_one h9 pv) as [h10 o10] eqn:Hc. cbn [fst snd] in *.
    split; [|split; [|split; [|split; [|split; [|split]]]]].
    + exists (add_vsess h sid s v rn user flags incall). rewrite (fr_sess _ _ _ F vs Hne), Hvs9. repeat split; reflexivity.
    + destruct Hr9 as [r' [Hr' Hin]]. apply (fr_mem _ _ _ F _ r' vs Hr' Hin Hne).
    + now left.
    + destruct (fr_bus _ _ _ F) as [l [Hl _]]. exists (l9 ++ l). rewrite Hl, Hb9, <- app_assoc. reflexivity.
    + apply (fr_vt _ _ _ F _ _ Hv9 Hne).
    + exact Hfresh.
    + intros y sy Hy Hnv. assert (Hyp : y <> pv).
      { intros E. rewrite E, Hsp in Hy. injection Hy as <-. rewrite Hkp in Hnv. discriminate. }
      rewrite (fr_sess _ _ _ F y Hyp), Hs9. destruct (N.eqb_spec y vs) as [E|]; [|exact Hy].
      rewrite E, Hfresh in Hy. discriminate.
  - cbn [fst snd].
    split; [|split; [|split; [|split; [|split; [|split]]]]].
    + exists (add_vsess h sid s v rn user flags incall). rewrite Hvs9. repeat split; reflexivity.
    + exact Hr9.
    + now left.
    + exists l9. exact Hb9.
    + exact Hv9.
    + exact Hfresh.
    + intros y sy Hy Hnv. rewrite Hs9. destruct (N.eqb_spec y vs) as [E|]; [|exact Hy].
      rewrite E, Hfresh in Hy. discriminate.
Qed.

(* (a) the added session is visible: it exists, is a member of the room, the join is queued on the
   room subject, the backend is told, and the table entry names it *)
Theorem add_visible h c sid s v rn user flags incall r :
  WF h -> conn_session h c sid s -> is_internal (s_kind s) = true ->
  room_of h (s_backend s, rn) = Some r ->
  let vs := next_id h in
  let res := step h (OInternal c (IAdd v rn user flags incall)) in
  get_sess h vs = None /\
  (exists t, get_sess (fst res) vs = Some t /\ s_kind t = KVirtual sid v /\ s_backend t = s_backend s /\
             s_room t = Some (s_backend s, rn) /\ s_user t = user) /\
  (exists r', room_of (fst res) (s_backend s, rn) = Some r' /\ In vs (r_members r')) /\
  In (ToBackend (s_backend s, 2, 2, rn, vs, 1)) (snd res) /\
  (exists l, h_bus (fst res) =
             h_bus h ++ mkpub (SubjRoom (s_backend s) rn) (ARoomEvent (SJoin [(vs, user)])) (h_clock h) :: l) /\
  pget (h_vtable (fst res)) (sid, v) = Some vs.
Proof.
  intros W Hc Hi Hr vs res. subst res. rewrite (step_internal h c sid s _ Hc Hi).
  destruct (add_spec h c sid s v rn user flags incall r W Hr) as (A & B & C & D & E & F & _).
  repeat split; assumption.
Qed.

(* ------------------------------------------------------------------ delivery of one room event to a connected member *)
(* a fold over listeners: as long as the output has not been produced, listener m stays in the state
   P in which reaching it produces the output *)
Lemma fold_hit (P : hub -> Prop) (f : hub -> N -> hub * list out) (m : N) (o : out) :
  (forall hh x, P hh -> In o (snd (f hh x)) \/ (x <> m /\ P (fst (f hh x)))) ->
  forall l hh acc, In o acc \/ (P hh /\ In m l) ->
  In o (snd (fold_left (fun acc x => let '(hh, oo) := acc in let '(hh', oo') := f hh x in (hh', oo ++ oo')) l (hh, acc))).
Proof.
  intros Hf. induction l as [|x l IH]; intros hh acc H; cbn [fold_left].
  - destruct H as [H|[_ []]]. exact H.
  - destruct (f hh x) as [hh' oo'] eqn:Hfx. apply IH.
    destruct H as [H|[HP Hin]]; [left; apply in_or_app; now left|].
    destruct (Hf hh x HP) as [Ho|[Hne HP']]; rewrite Hfx in *; cbn [fst snd] in *.
    + left. apply in_or_app. now right.
    + right. split; [exact HP'|]. destruct Hin as [E|Hin]; [congruence|exact Hin].
Qed.

Lemma fold_sessions_hit (P : hub -> Prop) (f : hub -> N -> hub * list out) (m : N) (o : out) h l :
  (forall hh x, P hh -> In o (snd (f hh x)) \/ (x <> m /\ P (fst (f hh x)))) ->
  P h -> In m l -> In o (snd (fold_sessions h l f)).
Proof. intros Hf HP Hin. unfold fold_sessions. apply (fold_hit P f m o Hf). right. auto. Qed.

Lemma deliver_to_session_other h x msg y : y <> x ->
  get_sess (fst (deliver_to_session h x msg)) y = get_sess h y.
Proof.
  intros Hne. destruct (get_sess h x) as [t|] eqn:Ht.
  - rewrite (deliver_to_session_eq h x msg t Ht).
    destruct (filtered t msg); [destruct (s_conn t)|]; cbn [fst]; rewrite get_put;
      destruct (N.eqb_spec y x); try contradiction; reflexivity.
  - unfold deliver_to_session. rewrite Ht. reflexivity.
Qed.

(* a message that never closes a connection changes only the session it is delivered to *)
Lemma send_session_other h x msg y : never_closing msg = true -> y <> target h x ->
  get_sess (fst (send_session h x msg)) y = get_sess h y.
Proof.
  intros Hn Hne. rewrite send_session_eq.
  pose proof (deliver_to_session_other h (target h x) msg y Hne) as Hd.
  destruct (deliver_to_session h (target h x) msg) as [h1 outs] eqn:E. cbn [fst] in Hd.
  destruct outs as [|[c mm| | |] [|o2 outs2]]; cbn [fst]; try exact Hd.
  rewrite (is_closing_never h1 c mm); [exact Hd|]. eapply deliver_out_kind; eauto.
Qed.

Lemma target_plain h x t : get_sess h x = Some t -> is_virtual (s_kind t) = false -> target h x = x.
Proof. intros Ht Hv. unfold target. rewrite Ht. destruct (s_kind t); [reflexivity|reflexivity|discriminate]. Qed.

Lemma filtered_join_new t vs user : nmem vs (s_seen t) = false ->
  filtered t (SJoin [(vs, user)]) = Some (SJoin [(vs, user)]).
Proof. intros Hn. unfold filtered. cbn [filter_seen]. rewrite Hn. reflexivity. Qed.

(* the state of a member that will be told about the join of vs published at time tm:
   an ordinary or internal session with a connection, in a room it joined before the
   publication, that has not been told about vs yet *)
Definition join_ready (m cm vs tm : N) (h : hub) : Prop :=
  exists t, get_sess h m = Some t /\ is_virtual (s_kind t) = false /\ s_conn t = Some cm /\
            s_room t <> None /\ s_join t <= tm /\ nmem vs (s_seen t) = false.
(* the same for a leave: no condition on what it was told before *)
Definition leave_ready (m cm tm : N) (h : hub) : Prop :=
  exists t, get_sess h m = Some t /\ is_virtual (s_kind t) = false /\ s_conn t = Some cm /\
            s_room t <> None /\ s_join t <= tm.

Lemma room_event_filter_passes (t : session) tm : s_room t <> None -> s_join t <= tm ->
  match s_room t with None => true | Some _ => tm <? s_join t end = false.
Proof.
  intros Hr Hj. destruct (s_room t); [|contradiction]. apply N.ltb_ge. exact Hj.
Qed.

Lemma recv_join_step m cm vs user tm hh x :
  join_ready m cm vs tm hh ->
  In (ToConn cm (SJoin [(vs, user)])) (snd (recv_event hh x (SJoin [(vs, user)]) 0 false true tm)) \/
  (x <> m /\ join_ready m cm vs tm (fst (recv_event hh x (SJoin [(vs, user)]) 0 false true tm))).
Proof.
  intros HP. pose proof HP as (t & Ht & Hv & Hc & Hr & Hj & Hseen).
  assert (Hhit : forall y, target hh y = m ->
                 In (ToConn cm (SJoin [(vs, user)])) (snd (send_session hh y (SJoin [(vs, user)])))).
  { intros y Hy. assert (Ht' : get_sess hh (target hh y) = Some t) by (rewrite Hy; exact Ht).
    destruct (send_to_connected hh y (SJoin [(vs, user)]) t cm Ht' Hc eq_refl) as [Ho _].
    rewrite Ho, (filtered_join_new t vs user Hseen). now left. }
  unfold recv_event. destruct (N.eq_dec x m) as [->|Hne].
  - left. rewrite Ht, N.eqb_refl. cbn [negb]. rewrite andb_false_r. cbn [andb].
    rewrite (room_event_filter_passes t tm Hr Hj). apply Hhit. now apply target_plain with t.
  - destruct (get_sess hh x) as [sx|]; [|right; split; [exact Hne|exact HP]].
    destruct (N.eqb 0 x && negb (N.eqb 0 0)); [right; split; [exact Hne|exact HP]|].
    cbn [andb]. destruct (match s_room sx with None => true | Some _ => tm <? s_join sx end);
      [right; split; [exact Hne|exact HP]|].
    destruct (N.eq_dec (target hh x) m) as [Hy|Hy]; [left; now apply Hhit|].
    right. split; [exact Hne|]. exists t. rewrite send_session_other; [|reflexivity|congruence]. auto 10.
Qed.

Lemma recv_leave_step m cm vs tm hh x :
  leave_ready m cm tm hh ->
  In (ToConn cm (SLeave [vs])) (snd (recv_event hh x (SLeave [vs]) 0 false true tm)) \/
  (x <> m /\ leave_ready m cm tm (fst (recv_event hh x (SLeave [vs]) 0 false true tm))).
Proof.
  intros HP. pose proof HP as (t & Ht & Hv & Hc & Hr & Hj).
  assert (Hhit : forall y, target hh y = m ->
                 In (ToConn cm (SLeave [vs])) (snd (send_session hh y (SLeave [vs])))).
  { intros y Hy. assert (Ht' : get_sess hh (target hh y) = Some t) by (rewrite Hy; exact Ht).
    destruct (send_to_connected hh y (SLeave [vs]) t cm Ht' Hc eq_refl) as [Ho _].
    rewrite Ho. now left. }
  unfold recv_event. destruct (N.eq_dec x m) as [->|Hne].
  - left. rewrite Ht, N.eqb_refl. cbn [negb]. rewrite andb_false_r. cbn [andb].
    rewrite (room_event_filter_passes t tm Hr Hj). apply Hhit. now apply target_plain with t.
  - destruct (get_sess hh x) as [sx|]; [|right; split; [exact Hne|exact HP]].
    destruct (N.eqb 0 x && negb (N.eqb 0 0)); [right; split; [exact Hne|exact HP]|].
    cbn [andb]. destruct (match s_room sx with None => true | Some _ => tm <? s_join sx end);
      [right; split; [exact Hne|exact HP]|].
    destruct (N.eq_dec (target hh x) m) as [Hy|Hy]; [left; now apply Hhit|].
    right. split; [exact Hne|]. exists t. rewrite send_session_other; [|reflexivity|congruence]. auto 10.
Qed.

Lemma listener_intro h m t k : get_sess h m = Some t -> is_virtual (s_kind t) = false -> s_room t = Some k ->
  In m (room_listeners h k).
Proof. intros Ht Hv Hk. apply room_listener_spec. exists t. split; [apply aget_In; exact Ht|auto]. Qed.

(* (b1) delivering the join publication of vs writes the join to the connection of every member
   that joined the room before it was published and was not told about vs before *)
Theorem join_delivery h b rn vs user tm m cm t :
  get_sess h m = Some t -> is_virtual (s_kind t) = false -> s_conn t = Some cm ->
  s_room t = Some (b, rn) -> s_join t <= tm -> nmem vs (s_seen t) = false ->
  In (ToConn cm (SJoin [(vs, user)]))
     (snd (deliver_pub h (mkpub (SubjRoom b rn) (ARoomEvent (SJoin [(vs, user)])) tm))).
Proof.
  intros Ht Hv Hc Hk Hj Hseen. unfold deliver_pub. cbn [p_subj p_msg p_time].
  apply (fold_sessions_hit (join_ready m cm vs tm) _ m).
  - intros hh x. apply recv_join_step.
  - exists t. repeat split; auto. rewrite Hk. discriminate.
  - eapply listener_intro; eauto.
Qed.

(* (e) the same for the leave publication *)
Theorem leave_delivery h b rn vs tm m cm t :
  get_sess h m = Some t -> is_virtual (s_kind t) = false -> s_conn t = Some cm ->
  s_room t = Some (b, rn) -> s_join t <= tm ->
  In (ToConn cm (SLeave [vs]))
     (snd (deliver_pub h (mkpub (SubjRoom b rn) (ARoomEvent (SLeave [vs])) tm))).
Proof.
  intros Ht Hv Hc Hk Hj. unfold deliver_pub. cbn [p_subj p_msg p_time].
  apply (fold_sessions_hit (leave_ready m cm tm) _ m).
  - intros hh x. apply recv_leave_step.
  - exists t. repeat split; auto. rewrite Hk. discriminate.
  - eapply listener_intro; eauto.
Qed.

(* ------------------------------------------------------------------ the quiescent step delivers what is first in the queue *)
Lemma drain_first f h p rest : h_bus h = p :: rest ->
  exists o2, snd (drain (S f) h) = snd (deliver_pub (set_bus h rest) p) ++ o2.
Proof.
  intros Hb. cbn [drain]. rewrite Hb. unfold deliver_at. rewrite Hb. cbn [take_nth].
  destruct (deliver_pub (set_bus h rest) p) as [h1 o1]. destruct (drain f h1) as [h2 o2]. cbn [snd]. eauto.
Qed.

Lemma qstep_delivers_first h o p rest x :
  h_bus (fst (step h o)) = p :: rest ->
  In x (snd (deliver_pub (set_bus (fst (step h o)) rest) p)) -> In x (snd (qstep h o)).
Proof.
  intros Hb Hin. rewrite qstep_snd. apply in_or_app. right.
  destruct (drain_first 499 _ p rest Hb) as [o2 Ho]. change (S 499) with 500%nat in Ho. rewrite Ho.
  apply in_or_app. now left.
Qed.

(* (b) in the quiescent semantics (nothing queued before the request) every connected member of the
   room that joined earlier and was not told about the (fresh) session id before receives the join *)
Theorem add_delivered h c sid s v rn user flags incall r m t cm :
  WF h -> conn_session h c sid s -> is_internal (s_kind s) = true ->
  room_of h (s_backend s, rn) = Some r -> h_bus h = [] ->
  get_sess h m = Some t -> is_virtual (s_kind t) = false -> s_conn t = Some cm ->
  s_room t = Some (s_backend s, rn) -> s_join t <= h_clock h -> nmem (next_id h) (s_seen t) = false ->
  In (ToConn cm (SJoin [(next_id h, user)])) (snd (qstep h (OInternal c (IAdd v rn user flags incall)))).
Proof.
  intros W Hc Hi Hr Hbus Ht Hv Hcm Hk Hj Hseen.
  destruct (add_spec h c sid s v rn user flags incall r W Hr) as (_ & _ & _ & [l Hb] & _ & _ & Hkeep).
  rewrite <- (step_internal h c sid s _ Hc Hi) in Hb, Hkeep. rewrite Hbus in Hb. cbn [app] in Hb.
  eapply qstep_delivers_first; [exact Hb|].
  apply (join_delivery _ _ _ _ _ _ m cm t); auto. exact (Hkeep m t Ht Hv).
Qed.

Lemma step_in_qstep h o x : In x (snd (step h o)) -> In x (snd (qstep h o)).
Proof. intros H. rewrite qstep_snd. apply in_or_app. now left. Qed.

(* the backend is told in the quiescent semantics too *)
Corollary add_backend_told_q h c sid s v rn user flags incall r :
  WF h -> conn_session h c sid s -> is_internal (s_kind s) = true ->
  room_of h (s_backend s, rn) = Some r ->
  In (ToBackend (s_backend s, 2, 2, rn, next_id h, 1)) (snd (qstep h (OInternal c (IAdd v rn user flags incall)))).
Proof.
  intros W Hc Hi Hr. apply step_in_qstep.
  destruct (add_visible h c sid s v rn user flags incall r W Hc Hi Hr) as (_ & _ & _ & H & _). exact H.
Qed.

Corollary add_backend_told h c sid s v rn user flags incall r :
  WF h -> conn_session h c sid s -> is_internal (s_kind s) = true ->
  room_of h (s_backend s, rn) = Some r ->
  In (ToBackend (s_backend s, 2, 2, rn, next_id h, 1)) (snd (step h (OInternal c (IAdd v rn user flags incall)))) /\
  In (ToBackend (s_backend s, 2, 2, rn, next_id h, 1)) (snd (qstep h (OInternal c (IAdd v rn user flags incall)))).
Proof.
  intros W Hc Hi Hr. split; [|exact (add_backend_told_q h c sid s v rn user flags incall r W Hc Hi Hr)].
  destruct (add_visible h c sid s v rn user flags incall r W Hc Hi Hr) as (_ & _ & _ & H & _). exact H.
Qed.

(* ------------------------------------------------------------------ IRemove *)
Lemma do_internal_remove h c sid s v rn r0 vs :
  room_of h (s_backend s, rn) = Some r0 -> pget (h_vtable h) (sid, v) = Some vs ->
  do_internal h c sid s (IRemove v rn) = close_one (set_vtable h (pdel (h_vtable h) (sid, v))) vs.
Proof. intros Hr Hv. unfold do_internal. cbv zeta. rewrite Hr, Hv. reflexivity. Qed.

(* (c) the removed session is gone, a member of no room and referenced by no table, the leave is
   queued on the subject of the room it was in, the backend is told, the table entry is gone *)
Theorem remove_invisible h c sid s v rn r0 vs t k :
  WF h -> conn_session h c sid s -> is_internal (s_kind s) = true ->
  room_of h (s_backend s, rn) = Some r0 -> pget (h_vtable h) (sid, v) = Some vs ->
  get_sess h vs = Some t -> s_room t = Some k ->
  let res := step h (OInternal c (IRemove v rn)) in
  s_kind t = KVirtual sid v /\
  get_sess (fst res) vs = None /\
  (forall k' r', room_of (fst res) k' = Some r' -> ~ In vs (r_members r')) /\
  unreferenced (fst res) vs /\
  In (ToBackend (s_backend t, 2, 3, snd k, vs, 1)) (snd res) /\
  (exists l, h_bus (fst res) =
             h_bus h ++ mkpub (SubjRoom (fst k) (snd k)) (ARoomEvent (SLeave [vs])) (h_clock h) :: l) /\
  pget (h_vtable (fst res)) (sid, v) = None.
Proof.
  intros W Hc Hi Hr Hv Ht Hk res.
  assert (W' : WF (fst res)) by (apply wf_step; exact W).
  subst res. rewrite (step_internal h c sid s _ Hc Hi) in *.
  rewrite (do_internal_remove h c sid s v rn r0 vs Hr Hv) in *.
  destruct (wf_vt _ _ h W sid v vs Hv) as [t' [Ht' Hkd]]. rewrite Ht in Ht'. injection Ht' as <-.
  destruct (wf_room _ _ h W vs t k Ht Hk) as [[]|[r [Hrk Hin]]].
  set (h1 := set_vtable h (pdel (h_vtable h) (sid, v))) in *.
  assert (Hgone : get_sess (fst (close_one h1 vs)) vs = None) by apply close_one_gone.
  pose proof (no_residue _ vs W' Hgone) as Hun.
  destruct (close_one_virtual h1 vs t sid v k r Ht Hkd Hk Hrk Hin) as [Hout Hbus].
  split; [exact Hkd|]. split; [exact Hgone|]. split; [|split; [exact Hun|split; [exact Hout|split; [exact Hbus|]]]].
  - intros k' r' Hr'. apply (un_member _ _ Hun k' r' Hr').
  - apply (fr_vt_none _ _ _ (frame_close_one vs h1)). unfold h1. cbn [h_vtable set_vtable]. apply pget_pdel_same.
Qed.

(* in the quiescent semantics every connected member of the room the session was in receives the leave *)
Theorem remove_delivered h c sid s v rn r0 vs t k m tm cm :
  WF h -> conn_session h c sid s -> is_internal (s_kind s) = true ->
  room_of h (s_backend s, rn) = Some r0 -> pget (h_vtable h) (sid, v) = Some vs ->
  get_sess h vs = Some t -> s_room t = Some k -> h_bus h = [] ->
  get_sess h m = Some tm -> is_virtual (s_kind tm) = false -> s_conn tm = Some cm ->
  s_room tm = Some k -> s_join tm <= h_clock h ->
  In (ToConn cm (SLeave [vs])) (snd (qstep h (OInternal c (IRemove v rn)))) /\
  In (ToBackend (s_backend t, 2, 3, snd k, vs, 1)) (snd (qstep h (OInternal c (IRemove v rn)))).
Proof.
  intros W Hc Hi Hr Hv Ht Hk Hbus Hm Hmv Hcm Hmk Hj.
  destruct (remove_invisible h c sid s v rn r0 vs t k W Hc Hi Hr Hv Ht Hk) as (Hkd & _ & _ & _ & Hout & [l Hb] & _).
  split; [|apply step_in_qstep; exact Hout].
  rewrite Hbus in Hb. cbn [app] in Hb. eapply qstep_delivers_first; [exact Hb|].
  destruct k as [b rk]. cbn [fst snd].
  apply (leave_delivery _ _ _ _ _ m cm tm); auto.
  rewrite (step_internal h c sid s _ Hc Hi), (do_internal_remove h c sid s v rn r0 vs Hr Hv).
  assert (Hne : m <> vs) by (intros E; rewrite E, Ht in Hm; injection Hm as <-; rewrite Hkd in Hmv; discriminate).
  change (get_sess (fst (close_one (set_vtable h (pdel (h_vtable h) (sid, v))) vs)) m = Some tm).
  rewrite (fr_sess _ _ _ (frame_close_one vs _) m Hne). exact Hm.
Qed.

(* ------------------------------------------------------------------ the internal client's session ends *)
Lemma close_all_ext kids : forall hh o,
  bus_ext hh (fst (close_all kids (hh, o))) /\ h_clock hh <= h_clock (fst (close_all kids (hh, o))) /\
  (forall y, ~ In y kids -> get_sess (fst (close_all kids (hh, o))) y = get_sess hh y).
Proof.
  induction kids as [|k0 kids IH]; intros hh o; cbn [close_all fold_left fst].
  - split; [apply bus_ext_refl|]. split; [lia|reflexivity].
  - pose proof (frame_close_one k0 hh) as F.
    destruct (close_one hh k0) as [h1 o1]. fold (close_all kids (h1, o ++ o1)). cbn [fst] in F.
    destruct (IH h1 (o ++ o1)) as (B & C & S). split; [|split].
    + eapply bus_ext_trans; [exact (fr_bus _ _ _ F)|exact B].
    + pose proof (fr_clock _ _ _ F). lia.
    + intros y Hy. rewrite S by (intros Hin; apply Hy; now right).
      apply (fr_sess _ _ _ F). intros E. apply Hy. now left.
Qed.

(* closing a list of sessions that contains a virtual session which is in a room *)
Lemma close_all_virtual vs t p v k : forall kids hh o r,
  In vs kids -> get_sess hh vs = Some t -> s_kind t = KVirtual p v -> s_room t = Some k ->
  room_of hh k = Some r -> In vs (r_members r) ->
  get_sess (fst (close_all kids (hh, o))) vs = None /\
  In (ToBackend (s_backend t, 2, 3, snd k, vs, 1)) (snd (close_all kids (hh, o))) /\
  exists l tm, h_bus (fst (close_all kids (hh, o))) = h_bus hh ++ l /\ Forall (fun q => benign q = true) l /\
               In (mkpub (SubjRoom (fst k) (snd k)) (ARoomEvent (SLeave [vs])) tm) l /\ h_clock hh <= tm.
Proof.
  induction kids as [|k0 kids IH]; intros hh o r Hin Ht Hkd Hk Hr Hmem; [destruct Hin|].
  cbn [close_all fold_left]. destruct (N.eq_dec k0 vs) as [->|Hne].
  - destruct (close_one_virtual hh vs t p v k r Ht Hkd Hk Hr Hmem) as [Hout [l1 Hb1]].
    pose proof (close_one_gone hh vs) as Hg.
    pose proof (fr_bus _ _ _ (frame_close_one vs hh)) as [l1' [Hb1' Hf1]].
    destruct (close_one hh vs) as [h1 o1]. fold (close_all kids (h1, o ++ o1)). cbn [fst snd] in *.
    split; [now apply close_all_gone|]. split.
    + apply close_all_keeps_outs. apply in_or_app. now right.
    + destruct (close_all_ext kids h1 (o ++ o1)) as ([l2 [Hb2 Hf2]] & _ & _).
      assert (El : l1' = mkpub (SubjRoom (fst k) (snd k)) (ARoomEvent (SLeave [vs])) (h_clock hh) :: l1).
      { rewrite Hb1 in Hb1'. now apply app_inv_head in Hb1'. }
      exists (l1' ++ l2), (h_clock hh).
      split; [rewrite Hb2, Hb1', <- app_assoc; reflexivity|]. split; [apply Forall_app; auto|].
      split; [|lia]. apply in_or_app. left. rewrite El. now left.
  - assert (Hne' : vs <> k0) by congruence.
    pose proof (frame_close_one k0 hh) as F.
    destruct (close_one hh k0) as [h1 o1]. fold (close_all kids (h1, o ++ o1)). cbn [fst] in F.
    destruct (fr_mem _ _ _ F k r vs Hr Hmem Hne') as [r' [Hr' Hmem']].
    assert (Ht1 : get_sess h1 vs = Some t) by (rewrite (fr_sess _ _ _ F vs Hne'); exact Ht).
    assert (Hin' : In vs kids) by (destruct Hin as [E|Hin]; [contradiction|exact Hin]).
    destruct (IH h1 (o ++ o1) r' Hin' Ht1 Hkd Hk Hr' Hmem') as (Hg & Hout & l & tm & Hb & Hf & Hl & Hc).
    split; [exact Hg|]. split; [exact Hout|].
    destruct (fr_bus _ _ _ F) as [l1 [Hb1 Hf1]]. exists (l1 ++ l), tm.
    split; [rewrite Hb, Hb1, <- app_assoc; reflexivity|]. split; [apply Forall_app; auto|].
    split; [apply in_or_app; now right|]. pose proof (fr_clock _ _ _ F). lia.
Qed.

Lemma close_session_virtual h p vs t v k r :
  vs <> p -> get_sess h vs = Some t -> s_kind t = KVirtual p v -> s_room t = Some k ->
  room_of h k = Some r -> In vs (r_members r) ->
  get_sess (fst (close_session h p)) vs = None /\
  In (ToBackend (s_backend t, 2, 3, snd k, vs, 1)) (snd (close_session h p)) /\
  exists l tm, h_bus (fst (close_session h p)) = h_bus h ++ l /\ Forall (fun q => benign q = true) l /\
               In (mkpub (SubjRoom (fst k) (snd k)) (ARoomEvent (SLeave [vs])) tm) l /\ h_clock h <= tm.
Proof.
  intros Hne Ht Hkd Hk Hr Hmem. unfold close_session.
  assert (Hkid : In vs (children h p)).
  { apply in_children. split; [|eauto]. unfold get_sess in Ht. apply aget_In in Ht.
    apply in_map_iff. exists (vs, t). auto. }
  pose proof (frame_close_one p h) as F.
  destruct (close_one h p) as [h1 o1]. fold (close_all (children h p) (h1, o1)). cbn [fst] in F.
  destruct (fr_mem _ _ _ F k r vs Hr Hmem Hne) as [r' [Hr' Hmem']].
  assert (Ht1 : get_sess h1 vs = Some t) by (rewrite (fr_sess _ _ _ F vs Hne); exact Ht).
  destruct (close_all_virtual vs t p v k (children h p) h1 o1 r' Hkid Ht1 Hkd Hk Hr' Hmem') as (Hg & Hout & l & tm & Hb & Hf & Hl & Hc).
  split; [exact Hg|]. split; [exact Hout|].
  destruct (fr_bus _ _ _ F) as [l1 [Hb1 Hf1]]. exists (l1 ++ l), tm.
  split; [rewrite Hb, Hb1, <- app_assoc; reflexivity|]. split; [apply Forall_app; auto|].
  split; [apply in_or_app; now right|]. pose proof (fr_clock _ _ _ F). lia.
Qed.

(* an ordinary or internal session other than the one being closed is not touched *)
Lemma close_session_other h p y sy :
  y <> p -> get_sess h y = Some sy -> is_virtual (s_kind sy) = false ->
  get_sess (fst (close_session h p)) y = Some sy.
Proof.
  intros Hne Hy Hv. unfold close_session.
  assert (Hkid : ~ In y (children h p)).
  { intros Hin. apply in_children in Hin as [_ [s0 [v0 [Hs0 Hk0]]]]. rewrite Hy in Hs0. injection Hs0 as <-.
    rewrite Hk0 in Hv. discriminate. }
  pose proof (frame_close_one p h) as F.
  destruct (close_one h p) as [h1 o1]. fold (close_all (children h p) (h1, o1)). cbn [fst] in F.
  destruct (close_all_ext (children h p) h1 o1) as (_ & _ & S). rewrite (S y Hkid), (fr_sess _ _ _ F y Hne). exact Hy.
Qed.

Lemma virtual_not_parent h vs t p v : WF h -> get_sess h vs = Some t -> s_kind t = KVirtual p v -> vs <> p.
Proof.
  intros W Ht Hkd E. destruct (wf_parent _ _ h W vs t p v Ht Hkd) as [[]|[ps [Hps Hpi]]].
  rewrite <- E, Ht in Hps. injection Hps as <-. rewrite Hkd in Hpi. discriminate.
Qed.

(* (d) when the session of the internal client is closed, each of its virtual sessions that is in
   a room is gone, in no member list, the leave is queued (after the state's clock value), the
   backend is told *)
Theorem parent_close_removes h p vs t v k :
  WF h -> get_sess h vs = Some t -> s_kind t = KVirtual p v -> s_room t = Some k ->
  let res := close_session h p in
  get_sess (fst res) vs = None /\
  (forall k' r', room_of (fst res) k' = Some r' -> ~ In vs (r_members r')) /\
  In (ToBackend (s_backend t, 2, 3, snd k, vs, 1)) (snd res) /\
  exists l tm, h_bus (fst res) = h_bus h ++ l /\
               In (mkpub (SubjRoom (fst k) (snd k)) (ARoomEvent (SLeave [vs])) tm) l /\ h_clock h <= tm.
Proof.
  intros W Ht Hkd Hk res. subst res.
  destruct (wf_room _ _ h W vs t k Ht Hk) as [[]|[r [Hr Hmem]]].
  destruct (close_session_virtual h p vs t v k r (virtual_not_parent h vs t p v W Ht Hkd) Ht Hkd Hk Hr Hmem)
    as (Hg & Hout & l & tm & Hb & _ & Hl & Hc).
  split; [exact Hg|]. split; [|split; [exact Hout|exists l, tm; auto]].
  intros k' r' Hr'. assert (W' : WF (fst (close_session h p))) by (apply wf_close_session; exact W).
  apply (un_member _ _ (no_residue _ vs W' Hg) k' r' Hr').
Qed.

(* the internal client says bye: its session is closed, and with it its virtual sessions *)
Lemma bye_form h c cn p :
  aget (h_conns h) c = Some cn -> c_sess cn = Some p ->
  exists h2, (forall y, y <> p -> get_sess h2 y = get_sess h y) /\ h_rooms h2 = h_rooms h /\
             h_bus h2 = h_bus h /\ h_clock h2 = h_clock h /\
             fst (step h (OBye c)) = fst (close_session h2 p) /\
             snd (step h (OBye c)) = ToConn c (SBye 0) :: Closed c :: snd (close_session h2 p).
Proof.
  intros Hc Hcs. cbn [step]. rewrite Hc, Hcs. unfold send_conn. rewrite Hc. cbn [is_closing].
  unfold close_conn. rewrite Hc, Hcs.
  match goal with |- context [close_session ?hh p] => set (h2 := hh) end.
  exists h2. split; [|split; [|split; [|split]]].
  - intros y Hy. unfold h2. destruct (get_sess (set_conns h (adel (h_conns h) c)) p) as [sp|]; [|reflexivity].
    rewrite get_put. destruct (N.eqb_spec y p); [contradiction|reflexivity].
  - unfold h2. destruct (get_sess (set_conns h (adel (h_conns h) c)) p) as [sp|]; reflexivity.
  - unfold h2. destruct (get_sess (set_conns h (adel (h_conns h) c)) p) as [sp|]; reflexivity.
  - unfold h2. destruct (get_sess (set_conns h (adel (h_conns h) c)) p) as [sp|]; reflexivity.
  - destruct (close_session h2 p) as [h3 outs]. split; reflexivity.
Qed.

Lemma bye_virtual_core h c cn p vs t v k :
  WF h -> aget (h_conns h) c = Some cn -> c_sess cn = Some p ->
  get_sess h vs = Some t -> s_kind t = KVirtual p v -> s_room t = Some k ->
  get_sess (fst (step h (OBye c))) vs = None /\
  In (ToBackend (s_backend t, 2, 3, snd k, vs, 1)) (snd (step h (OBye c))) /\
  (exists l tm, h_bus (fst (step h (OBye c))) = h_bus h ++ l /\ Forall (fun q => benign q = true) l /\
                In (mkpub (SubjRoom (fst k) (snd k)) (ARoomEvent (SLeave [vs])) tm) l /\ h_clock h <= tm) /\
  (forall y sy, y <> p -> get_sess h y = Some sy -> is_virtual (s_kind sy) = false ->
                get_sess (fst (step h (OBye c))) y = Some sy).
Proof.
  intros W Hc Hcs Ht Hkd Hk.
  assert (Hne : vs <> p) by exact (virtual_not_parent h vs t p v W Ht Hkd).
  destruct (wf_room _ _ h W vs t k Ht Hk) as [[]|[r [Hr Hmem]]].
  destruct (bye_form h c cn p Hc Hcs) as (h2 & S2 & R2 & B2 & C2 & E1 & E2). rewrite E1, E2.
  assert (Ht2 : get_sess h2 vs = Some t) by (rewrite S2; assumption).
  assert (Hr2 : room_of h2 k = Some r) by (unfold room_of; rewrite R2; exact Hr).
  destruct (close_session_virtual h2 p vs t v k r Hne Ht2 Hkd Hk Hr2 Hmem) as (Hg & Hout & Hb).
  split; [exact Hg|]. split; [right; right; exact Hout|]. split; [rewrite <- B2, <- C2; exact Hb|].
  intros y sy Hy Hsy Hv. apply close_session_other; auto. rewrite S2; assumption.
Qed.

Theorem bye_removes_virtual h c cn p vs t v k :
  WF h -> aget (h_conns h) c = Some cn -> c_sess cn = Some p ->
  get_sess h vs = Some t -> s_kind t = KVirtual p v -> s_room t = Some k ->
  let res := step h (OBye c) in
  get_sess (fst res) vs = None /\
  (forall k' r', room_of (fst res) k' = Some r' -> ~ In vs (r_members r')) /\
  In (ToBackend (s_backend t, 2, 3, snd k, vs, 1)) (snd res) /\
  exists l tm, h_bus (fst res) = h_bus h ++ l /\
               In (mkpub (SubjRoom (fst k) (snd k)) (ARoomEvent (SLeave [vs])) tm) l /\ h_clock h <= tm.
Proof.
  intros W Hc Hcs Ht Hkd Hk res.
  assert (W' : WF (fst res)) by (apply wf_step; exact W). subst res.
  destruct (bye_virtual_core h c cn p vs t v k W Hc Hcs Ht Hkd Hk) as (Hg & Hout & (l & tm & Hb & _ & Hl & Hcl) & _).
  split; [exact Hg|]. split; [|split; [exact Hout|exists l, tm; auto]].
  intros k' r' Hr'. apply (un_member _ _ (no_residue _ vs W' Hg) k' r' Hr').
Qed.

(* ------------------------------------------------------------------ a leave queued behind other joins / leaves is delivered *)
Definition listening (m cm : N) (k : N * N) (tm : N) (h : hub) : Prop :=
  exists t, get_sess h m = Some t /\ is_virtual (s_kind t) = false /\ s_conn t = Some cm /\
            s_room t = Some k /\ s_join t <= tm.

Lemma seen_after_fields t msg :
  s_kind (seen_after t msg) = s_kind t /\ s_conn (seen_after t msg) = s_conn t /\
  s_room (seen_after t msg) = s_room t /\ s_join (seen_after t msg) = s_join t.
Proof. destruct msg; repeat split; reflexivity. Qed.

Lemma deliver_to_session_bus h x msg : h_bus (fst (deliver_to_session h x msg)) = h_bus h.
Proof.
  destruct (get_sess h x) as [t|] eqn:Ht.
  - rewrite (deliver_to_session_eq h x msg t Ht). destruct (filtered t msg); [destruct (s_conn t)|]; reflexivity.
  - unfold deliver_to_session. rewrite Ht. reflexivity.
Qed.

Lemma deliver_to_session_listening m cm k tm h x msg :
  listening m cm k tm h -> listening m cm k tm (fst (deliver_to_session h x msg)).
Proof.
  intros (t & Ht & Hv & Hc & Hk & Hj). destruct (N.eq_dec x m) as [->|Hne].
  - destruct (seen_after_fields t msg) as (F1 & F2 & F3 & F4).
    rewrite (deliver_to_session_eq h m msg t Ht).
    destruct (filtered t msg); [destruct (s_conn t)|]; cbn [fst]; eexists; (split; [apply get_put_same|]);
      cbn [sess_pending upd_sess s_kind s_conn s_room s_join]; rewrite ?F1, ?F2, ?F3, ?F4; auto.
  - exists t. rewrite deliver_to_session_other by congruence. auto.
Qed.

Lemma send_session_nc h x msg : never_closing msg = true ->
  fst (send_session h x msg) = fst (deliver_to_session h (target h x) msg).
Proof.
  intros Hn. rewrite send_session_eq.
  destruct (deliver_to_session h (target h x) msg) as [h1 outs] eqn:E.
  destruct outs as [|[c mm| | |] [|o2 outs2]]; cbn [fst]; try reflexivity.
  rewrite (is_closing_never h1 c mm); [reflexivity|]. eapply deliver_out_kind; eauto.
Qed.

Lemma recv_event_cases h x msg sd co re t :
  recv_event h x msg sd co re t = (h, []) \/ recv_event h x msg sd co re t = send_session h x msg.
Proof.
  unfold recv_event. destruct (get_sess h x) as [s|]; [|now left].
  destruct (N.eqb sd x && negb (N.eqb sd 0)); [now left|].
  destruct (co && negb (in_call h x s)); [now left|].
  destruct (re && match s_room s with None => true | Some _ => t <? s_join s end); [now left|now right].
Qed.

Lemma benign_keeps m cm k tm h p : benign p = true -> listening m cm k tm h ->
  h_bus (fst (deliver_pub h p)) = h_bus h /\ listening m cm k tm (fst (deliver_pub h p)).
Proof.
  intros Hb HL. destruct p as [sj am tp]. unfold benign in Hb. cbn [p_subj p_msg] in Hb.
  destruct sj as [b r|b r|b u|sid|]; try discriminate. destruct am as [mm sd co|mm|sid int|pm| |q]; try discriminate.
  unfold deliver_pub. cbn [p_subj p_msg p_time].
  apply (wf_fold_sessions (fun hh => h_bus hh = h_bus h /\ listening m cm k tm hh)); [split; [reflexivity|exact HL]|].
  intros hh x [HB HLh].
  destruct (recv_event_cases hh x mm 0 false true tp) as [E|E]; rewrite E; cbn [fst]; [split; assumption|].
  rewrite (send_session_nc hh x mm Hb). split.
  - now rewrite deliver_to_session_bus.
  - now apply deliver_to_session_listening.
Qed.

(* the queue holds joins / leaves, then the leave of vs: draining delivers it to the listening member *)
Lemma drain_delivers_leave m cm b rn vs tm : forall pre f h post,
  h_bus h = pre ++ mkpub (SubjRoom b rn) (ARoomEvent (SLeave [vs])) tm :: post ->
  Forall (fun q => benign q = true) pre -> (length pre < f)%nat ->
  listening m cm (b, rn) tm h ->
  In (ToConn cm (SLeave [vs])) (snd (drain f h)).
Proof.
  induction pre as [|q pre IH]; intros f h post Hb Hf Hlen HL.
  - destruct f as [|f]; [cbn in Hlen; lia|]. cbn [app] in Hb.
    destruct (drain_first f h _ post Hb) as [o2 Ho]. rewrite Ho. apply in_or_app. left.
    destruct HL as (t & Ht & Hv & Hc & Hk & Hj). apply (leave_delivery _ _ _ _ _ m cm t); auto.
  - destruct f as [|f]; [cbn in Hlen; lia|]. cbn [app] in Hb. cbn [drain]. rewrite Hb.
    unfold deliver_at. rewrite Hb. cbn [take_nth].
    set (rest := pre ++ mkpub (SubjRoom b rn) (ARoomEvent (SLeave [vs])) tm :: post).
    inversion Hf as [|q' pre' Hq Hpre]; subst.
    assert (HL0 : listening m cm (b, rn) tm (set_bus h rest)) by exact HL.
    destruct (benign_keeps m cm (b, rn) tm (set_bus h rest) q Hq HL0) as [Hb1 HL1].
    destruct (deliver_pub (set_bus h rest) q) as [h1 o1]. cbn [fst] in Hb1, HL1.
    assert (Hin : In (ToConn cm (SLeave [vs])) (snd (drain f h1))).
    { apply (IH f h1 post); [exact Hb1|exact Hpre|cbn in Hlen; lia|exact HL1]. }
    destruct (drain f h1) as [h2 o2]. cbn [snd] in *. apply in_or_app. now right.
Qed.

(* the internal client says bye in the quiescent semantics (nothing queued before, and not more
   queued than the quiescent step delivers): every connected member of the room a virtual
   session was in receives its leave, and the backend is told *)
Theorem bye_leave_delivered h c cn p vs t v k m tm cm :
  WF h -> aget (h_conns h) c = Some cn -> c_sess cn = Some p ->
  get_sess h vs = Some t -> s_kind t = KVirtual p v -> s_room t = Some k -> h_bus h = [] ->
  (length (h_bus (fst (step h (OBye c)))) <= 500)%nat ->
  m <> p -> get_sess h m = Some tm -> is_virtual (s_kind tm) = false -> s_conn tm = Some cm ->
  s_room tm = Some k -> s_join tm <= h_clock h ->
  In (ToConn cm (SLeave [vs])) (snd (qstep h (OBye c))) /\
  In (ToBackend (s_backend t, 2, 3, snd k, vs, 1)) (snd (qstep h (OBye c))).
Proof.
  intros W Hc Hcs Ht Hkd Hk Hbus Hlen Hmp Hm Hmv Hcm Hmk Hj.
  destruct (bye_virtual_core h c cn p vs t v k W Hc Hcs Ht Hkd Hk) as (_ & Hout & (l & tp & Hb & Hf & Hl & Hcl) & Hkeep).
  split; [|apply step_in_qstep; exact Hout].
  rewrite Hbus in Hb. cbn [app] in Hb. rewrite Hb in Hlen.
  destruct (in_split _ _ Hl) as (pre & post & El). rewrite El in Hb, Hf, Hlen.
  apply Forall_app in Hf as [Hpre _]. rewrite app_length in Hlen. cbn [length] in Hlen.
  rewrite qstep_snd. apply in_or_app. right. destruct k as [b rk]. cbn [fst snd] in *.
  apply (drain_delivers_leave m cm b rk vs tp pre 500 _ post Hb Hpre); [lia|].
  exists tm. rewrite (Hkeep m tm Hmp Hm Hmv). repeat split; auto. lia.
Qed.

(* ------------------------------------------------------------------ non-vacuity: computed on the model *)
(* the outputs of the last op of a history in the quiescent semantics *)
Fixpoint last_outs (h : hub) (ops : list op) : list out :=
  match ops with
  | [] => []
  | [o] => snd (qstep h o)
  | o :: r => last_outs (fst (qstep h o)) r
  end.

(* an ordinary client (connection 1, session 1) and an internal client (connection 2, session 2) in room 1 of backend 0 *)
Definition ex_pre : list op :=
  [OConnect 1 0; OHello 1 (HV1 0 7 false); OJoin 1 1 0 (RepOk None 0);
   OConnect 2 0; OHello 2 (HInternal 0 0 true false); OJoin 2 1 0 (RepOk None 0)].
Definition ex_add : op := OInternal 2 (IAdd 5 1 9 None None).

(* the internal client adds a virtual session (it gets id 3): the backend is told, both connected
   members receive the join *)
Example ex_add_announced :
  last_outs (init [0; 0] false) (ex_pre ++ [ex_add]) =
  [ToBackend (0, 2, 2, 1, 3, 1); ToConn 1 (SJoin [(3, 9)]); ToConn 2 (SJoin [(3, 9)]); ToConn 1 (SPart 0); ToConn 2 (SPart 0)].
Proof. vm_compute. reflexivity. Qed.

(* it removes it again: the backend is told, the members receive the leave *)
Example ex_remove_announced :
  last_outs (init [0; 0] false) (ex_pre ++ [ex_add; OInternal 2 (IRemove 5 1)]) =
  [ToBackend (0, 2, 3, 1, 3, 1); ToConn 1 (SLeave [3]); ToConn 2 (SLeave [3])].
Proof. vm_compute. reflexivity. Qed.

(* it says bye instead: its own leave and the leave of its virtual session reach the client, the backend is told *)
Example ex_bye_announced :
  last_outs (init [0; 0] false) (ex_pre ++ [ex_add; OBye 2]) =
  [ToConn 2 (SBye 0); Closed 2; ToBackend (0, 2, 3, 1, 3, 1); ToConn 1 (SLeave [2]); ToConn 1 (SLeave [3])].
Proof. vm_compute. reflexivity. Qed.

(* adding under an id that is in use replaces the session: add of the new one, remove of the old one *)
Example ex_replace_announced :
  last_outs (init [0; 0] false) (ex_pre ++ [ex_add; OInternal 2 (IAdd 5 1 8 None None)]) =
  [ToBackend (0, 2, 2, 1, 4, 1); ToBackend (0, 2, 3, 1, 3, 1); ToConn 1 (SJoin [(4, 8)]); ToConn 2 (SJoin [(4, 8)]);
   ToConn 1 (SPart 0); ToConn 2 (SPart 0); ToConn 1 (SLeave [3]); ToConn 2 (SLeave [3])].
Proof. vm_compute. reflexivity. Qed.

(* the hypotheses of the delivery theorems are satisfiable in reachable states: the theorems applied *)
Definition ex_h : hub := qrun (init [0; 0] false) ex_pre.
Definition ex_h' : hub := qrun (init [0; 0] false) (ex_pre ++ [ex_add]).
Definition ex_sess (h : hub) (sid : N) : session :=
  match get_sess h sid with Some s => s | None => new_session 0 KClient 0 0 end.
Definition ex_room (h : hub) (k : N * N) : room := match room_of h k with Some r => r | None => empty_room end.

Example ex_next_id : next_id ex_h = 3.
Proof. vm_compute. reflexivity. Qed.

Example ex_add_delivered_applies :
  In (ToConn 1 (SJoin [(next_id ex_h, 9)])) (snd (qstep ex_h ex_add)).
Proof.
  apply (add_delivered ex_h 2 2 (ex_sess ex_h 2) 5 1 9 None None (ex_room ex_h (0, 1)) 1 (ex_sess ex_h 1) 1).
  - apply wf_reachable_q.
  - exists (mkconn 0 (Some 2) false). split; [vm_compute; reflexivity|]. split; [reflexivity|vm_compute; reflexivity].
  - vm_compute. reflexivity.
  - vm_compute. reflexivity.
  - vm_compute. reflexivity.
  - vm_compute. reflexivity.
  - vm_compute. reflexivity.
  - vm_compute. reflexivity.
  - vm_compute. reflexivity.
  - vm_compute. discriminate.
  - vm_compute. reflexivity.
Qed.

Example ex_remove_delivered_applies :
  In (ToConn 1 (SLeave [3])) (snd (qstep ex_h' (OInternal 2 (IRemove 5 1)))) /\
  In (ToBackend (s_backend (ex_sess ex_h' 3), 2, 3, 1, 3, 1)) (snd (qstep ex_h' (OInternal 2 (IRemove 5 1)))).
Proof.
  apply (remove_delivered ex_h' 2 2 (ex_sess ex_h' 2) 5 1 (ex_room ex_h' (0, 1)) 3 (ex_sess ex_h' 3) (0, 1) 1 (ex_sess ex_h' 1) 1).
  - apply wf_reachable_q.
  - exists (mkconn 0 (Some 2) false). split; [vm_compute; reflexivity|]. split; [reflexivity|vm_compute; reflexivity].
  - vm_compute. reflexivity.
  - vm_compute. reflexivity.
  - vm_compute. reflexivity.
  - vm_compute. reflexivity.
  - vm_compute. reflexivity.
  - vm_compute. reflexivity.
  - vm_compute. reflexivity.
  - vm_compute. reflexivity.
  - vm_compute. reflexivity.
  - vm_compute. reflexivity.
  - vm_compute. discriminate.
Qed.

Example ex_bye_delivered_applies :
  In (ToConn 1 (SLeave [3])) (snd (qstep ex_h' (OBye 2))) /\
  In (ToBackend (s_backend (ex_sess ex_h' 3), 2, 3, 1, 3, 1)) (snd (qstep ex_h' (OBye 2))).
Proof.
  apply (bye_leave_delivered ex_h' 2 (mkconn 0 (Some 2) false) 2 3 (ex_sess ex_h' 3) 5 (0, 1) 1 (ex_sess ex_h' 1) 1).
  - apply wf_reachable_q.
  - vm_compute. reflexivity.
  - reflexivity.
  - vm_compute. reflexivity.
  - vm_compute. reflexivity.
  - vm_compute. reflexivity.
  - vm_compute. reflexivity.
  - vm_compute. lia.
  - discriminate.
  - vm_compute. reflexivity.
  - vm_compute. reflexivity.
  - vm_compute. reflexivity.
  - vm_compute. reflexivity.
  - vm_compute. discriminate.
Qed.
Example ex_backend : s_backend (ex_sess ex_h' 3) = 0.
Proof. vm_compute. reflexivity. Qed.

(* the side conditions of the statements are needed.  "The room named by the request exists": a
   removal that names a room that does not exist does nothing, the session stays a member ... *)
Example ex_remove_naming_missing_room_ignored :
  let ops := ex_pre ++ [ex_add; OInternal 2 (IRemove 5 2)] in
  last_outs (init [0; 0] false) ops = [] /\
  option_map s_kind (get_sess (qrun (init [0; 0] false) ops) 3) = Some (KVirtual 2 5) /\
  option_map r_members (room_of (qrun (init [0; 0] false) ops) (0, 1)) = Some [1; 2; 3].
Proof. vm_compute. repeat split; reflexivity. Qed.
(* ... and so does an addition to a room that does not exist *)
Example ex_add_to_missing_room_ignored :
  last_outs (init [0; 0] false) (ex_pre ++ [OInternal 2 (IAdd 5 2 9 None None)]) = [].
Proof. vm_compute. reflexivity. Qed.
(* "the virtual session is in a room": after its room was deleted through the room API the session
   still exists, in no room; removing it then tells the backend nothing and publishes nothing *)
Example ex_remove_after_room_deleted_silent :
  let ops := ex_pre ++ [ex_add; OApi 0 0 1 ADelete; OConnect 3 0; OHello 3 (HV1 0 8 false); OJoin 3 1 0 (RepOk None 0)] in
  option_map s_room (get_sess (qrun (init [0; 0] false) ops) 3) = Some None /\
  last_outs (init [0; 0] false) (ops ++ [OInternal 2 (IRemove 5 1)]) = [].
Proof. vm_compute. split; reflexivity. Qed.
