(* Sessions ELSEWHERE (strengthening s11): a request for a room can name - by a room session
   id that resolves - a session that is in another room, and (by ids that do not resolve) sessions
   in no room.  What the model says about them, proved:
   - only members of the room are ever recorded as "in the call" of the room
     ([call_in_room], an invariant of every step and every history);
   - an "incall" request (all not true) whose [changed] entries name only sessions that are not
     members of the room leaves the call state of the room as it is, whatever the entries say.
   (That the real consumers come back with their locks released is not a theorem - the model has
   no locks: it is the observation [i_responsive], made after every request of every run.) *)
From Coq Require Import List ZArith NArith String Bool.
From Verif Require Import lib.Json lib.Decode model.RoomApi corr.Run_C11 proofs.RoomApi_proofs proofs.RoomApi_nobody.
Import ListNotations.
Open Scope string_scope.
Open Scope list_scope.

Definition call_in_room (st : state) : Prop := incl (st_incall st) (st_members st).

Lemma mem_In : forall s l, mem s l = true -> In s l.
Proof.
  unfold mem. intros s l H. apply existsb_exists in H as [x [Hx He]].
  apply String.eqb_eq in He. now subst.
Qed.

Lemma In_mem : forall s l, In s l -> mem s l = true.
Proof. unfold mem. intros s l H. apply existsb_exists. exists s. split; [exact H|apply String.eqb_refl]. Qed.

Lemma filter_notin : forall sid acc, ~ In sid acc -> filter (fun s => negb (String.eqb s sid)) acc = acc.
Proof.
  induction acc as [|a acc IH]; intros H; [reflexivity|]. cbn [filter].
  destruct (String.eqb a sid) eqn:E.
  - apply String.eqb_eq in E. subst. exfalso. apply H. now left.
  - cbn [negb]. f_equal. apply IH. intros Hi. apply H. now right.
Qed.

(* ---- the invariant ---------------------------------------------------------------------------- *)
Lemma changed_step_incl : forall st acc u,
  incl acc (st_members st) -> incl (incall_changed_step st acc u) (st_members st).
Proof.
  intros st acc u H. unfold incall_changed_step.
  repeat match goal with
         | |- context [match ?x with _ => _ end] => destruct x eqn:?
         end; try exact H.
  all: try (apply incl_app; [exact H|]; intros x [<-|[]]; apply mem_In; assumption).
  all: try (intros x Hx; apply filter_In in Hx as [Hx _]; now apply H).
Qed.

Lemma changed_fold_incl : forall st changed acc,
  incl acc (st_members st) -> incl (fold_left (incall_changed_step st) changed acc) (st_members st).
Proof.
  intros st changed. induction changed as [|u r IH]; intros acc H; [exact H|].
  cbn [fold_left]. apply IH. now apply changed_step_incl.
Qed.

Lemma consume_call : forall st r, call_in_room st -> call_in_room (c_state (consume st r)).
Proof.
  intros st r H. pose proof H as H0. unfold consume, publish_participants.
  repeat match goal with
         | |- context [if ?c then _ else _] => destruct c eqn:?
         | |- context [match ?x with _ => _ end] => destruct x eqn:?
         end;
  unfold call_in_room in *;
  try match goal with E : st_incall st = _ |- _ => rewrite E in H0 end;
  cbn [c_state cdone cexit with_props with_incall room_closed st_incall st_members] in *;
  try exact H; try exact H0; try apply incl_nil_l;
  try (apply changed_fold_incl; first [exact H | exact H0]).
  all: apply incl_app; [first [exact H | exact H0]|].
  all: match goal with
       | E : filter _ _ = _ |- _ => rewrite <- E
       end; intros x Hx; apply filter_In in Hx; tauto.
Qed.

Lemma deliver_call : forall ps st, call_in_room st -> call_in_room (c_state (deliver st ps)).
Proof.
  induction ps as [|p r IH]; intros st H; [exact H|].
  destruct p; cbn [deliver c_state]; try (apply IH; exact H).
  destruct (st_room st); cbn [c_state]; [|apply IH; exact H].
  destruct (c_exit (consume st r0)); cbn [c_state]; [apply consume_call; exact H|].
  apply IH. apply consume_call. exact H.
Qed.

Lemma step_call : forall fixed st b, call_in_room st -> call_in_room (fst (step fixed st b)).
Proof. intros fixed st b H. unfold step. cbn [fst]. apply deliver_call. exact H. Qed.

Lemma after_call : forall bs st, call_in_room st -> call_in_room (after st bs).
Proof.
  induction bs as [|b r IH]; intros st H; [exact H|]. cbn [after]. apply IH. apply step_call. exact H.
Qed.

Lemma fixture_call : forall ex num, call_in_room (fixture ex num).
Proof. intros ex num. unfold call_in_room. cbn. apply incl_nil_l. Qed.

(* ---- entries that name sessions elsewhere ------------------------------------------------------- *)
(* the session an entry of [changed] speaks about: "sessionId", else "sessionid", if it is a string *)
Definition entry_sid (u : gval) : option string :=
  match (match assoc "sessionId" (as_map u) with
         | Some x => Some x
         | None => assoc "sessionid" (as_map u)
         end) with
  | Some (GIface (JStr s)) => Some s
  | _ => None
  end.

Definition names_elsewhere (st : state) (u : gval) : Prop :=
  forall sid, entry_sid u = Some sid -> mem sid (st_members st) = false.

Lemma changed_step_elsewhere : forall st acc u,
  incl acc (st_members st) -> names_elsewhere st u -> incall_changed_step st acc u = acc.
Proof.
  intros st acc u Hacc Hn. unfold names_elsewhere, entry_sid in Hn. unfold incall_changed_step.
  destruct (assoc "inCall" (as_map u)) as [v|]; [|reflexivity].
  destruct (is_in_call v) as [b|]; [|reflexivity].
  destruct (match assoc "sessionId" (as_map u) with
            | Some x => Some x
            | None => assoc "sessionid" (as_map u)
            end) as [x|]; [|reflexivity].
  destruct x; try reflexivity. destruct j; try reflexivity.
  specialize (Hn s eq_refl).
  destruct (mem s (st_known st)); [|reflexivity].
  destruct b.
  - rewrite Hn. reflexivity.
  - apply filter_notin. intros Hi. apply Hacc in Hi. apply In_mem in Hi. congruence.
Qed.

Lemma changed_fold_elsewhere : forall st changed acc,
  incl acc (st_members st) -> (forall u, In u changed -> names_elsewhere st u) ->
  fold_left (incall_changed_step st) changed acc = acc.
Proof.
  intros st changed. induction changed as [|u r IH]; intros acc Hacc Hn; [reflexivity|].
  cbn [fold_left]. rewrite changed_step_elsewhere; [|exact Hacc|apply Hn; now left].
  apply IH; [exact Hacc|]. intros u' Hu. apply Hn. now right.
Qed.

(* the consumer of an "incall" request (all not true) whose [changed] entries name only sessions
   elsewhere: members and call state of the room are what they were *)
Lemma consume_elsewhere : forall st r ic,
  call_in_room st ->
  as_str (fld "Type" r) = "incall" -> deref (fld "InCall" r) = Some ic -> as_bool (fld "All" ic) = false ->
  (forall u, In u (as_list (fld "Changed" ic)) -> names_elsewhere st u) ->
  st_incall (c_state (consume st r)) = st_incall st /\
  st_members (c_state (consume st r)) = st_members st.
Proof.
  intros st r ic Hc Hty Hd Hall Hn. unfold consume. rewrite Hty. cbn [String.eqb Ascii.eqb Bool.eqb].
  rewrite Hd, Hall. unfold publish_participants.
  rewrite (changed_fold_elsewhere st _ _ Hc Hn).
  repeat match goal with
         | |- context [if ?c then _ else _] => destruct c
         | |- context [match ?x with _ => _ end] => destruct x
         end; cbn; split; reflexivity.
Qed.

(* non-vacuity: the request of the seeded change C11-5 (room existing, the entry names the session
   of the other room as "in call"): not in any silent class, answered 200, the members of the room
   get the participants update (the entry is passed on), nobody joins the call, the session elsewhere
   receives nothing; the same entry for the member does join the call *)
Definition ex_elsewhere : body :=
  Doc (JObj [("type", JStr "incall");
             ("incall", JObj [("incall", JNum 7); ("changed", JArr [JObj [("sessionId", JStr "c11-rs2"); ("inCall", JNum 7)]])])]).
Definition ex_member : body :=
  Doc (JObj [("type", JStr "incall");
             ("incall", JObj [("incall", JNum 7); ("changed", JArr [JObj [("sessionId", JStr "c11-rs"); ("inCall", JNum 7)]])])]).
Lemma ex_elsewhere_ok :
  malformed ex_elsewhere = false /\ names_nobody run_known ex_elsewhere = false /\
  o_reply (snd (step true wst ex_elsewhere)) = Status 200 /\ o_exit (snd (step true wst ex_elsewhere)) = false /\
  events_for wst fixture_sid (o_pubs (snd (step true wst ex_elsewhere))) = [KParticipants 1] /\
  events_for wst fixture_sid2 (o_pubs (snd (step true wst ex_elsewhere))) = [] /\
  st_incall (fst (step true wst ex_elsewhere)) = [] /\
  st_incall (fst (step true wst ex_member)) = [fixture_sid].
Proof. repeat split; vm_compute; reflexivity. Qed.
