(* Proofs about model/Bus.v: the conservation law of one (subscriber, listener)
   pair for every op list, its corollaries, "nothing after unregister",
   provenance ("nothing foreign"), and progress of publishers / dispatcher. *)
From Coq Require Import List Arith NArith Bool String Ascii Lia.
From Verif Require Import model.Bus.
Import ListNotations.

(* ======================================================================== *)
(* basics                                                                    *)
(* ======================================================================== *)

Lemma nth_upd_same {A} (f : A -> A) k (xs : list A) x :
  nth_error xs k = Some x -> nth_error (upd k f xs) k = Some (f x).
Proof.
  revert k; induction xs as [|a r IH]; intros k H; destruct k as [|k]; cbn in *; try discriminate.
  - now inversion H.
  - auto.
Qed.
Lemma nth_upd_other {A} (f : A -> A) k j (xs : list A) :
  k <> j -> nth_error (upd k f xs) j = nth_error xs j.
Proof.
  revert k j; induction xs as [|a r IH]; intros k j H; destruct k as [|k], j as [|j]; cbn; auto; try lia; try (apply IH; lia).
Qed.
Lemma nth_upd_none {A} (f : A -> A) k (xs : list A) :
  nth_error xs k = None -> upd k f xs = xs.
Proof.
  revert k; induction xs as [|a r IH]; intros k H; destruct k as [|k]; cbn in *; auto; try discriminate.
  f_equal; auto.
Qed.
Lemma upd_length {A} (f : A -> A) k (xs : list A) : List.length (upd k f xs) = List.length xs.
Proof. revert k; induction xs as [|a r IH]; intros [|k]; cbn; auto. Qed.
Lemma nth_upd {A} (f : A -> A) k j (xs : list A) :
  nth_error (upd k f xs) j = if Nat.eqb k j then option_map f (nth_error xs j) else nth_error xs j.
Proof.
  destruct (Nat.eqb k j) eqn:E.
  - apply Nat.eqb_eq in E; subst j. destruct (nth_error xs k) eqn:H.
    + now apply nth_upd_same.
    + rewrite nth_upd_none; auto.
  - apply Nat.eqb_neq in E. now apply nth_upd_other.
Qed.
Lemma nth_app_old {A} (xs : list A) a k y :
  nth_error xs k = Some y -> nth_error (xs ++ [a]) k = Some y.
Proof. intros H. rewrite nth_error_app1; auto. apply nth_error_Some. congruence. Qed.
Lemma nth_app_new {A} (xs : list A) a k y : nth_error (xs ++ [a]) k = Some y ->
  nth_error xs k = Some y \/ (k = List.length xs /\ y = a).
Proof.
  revert k; induction xs as [|b r IH]; intros k H; destruct k as [|k]; cbn in *.
  - right. injection H as ->. auto.
  - destruct k; discriminate.
  - now left.
  - apply IH in H as [H|[-> ->]]; auto.
Qed.

(* ---- listeners (N) ---- *)
Lemma memb_In x xs : memb x xs = true <-> In x xs.
Proof.
  unfold memb. rewrite existsb_exists. split.
  - intros [y [H E]]. apply N.eqb_eq in E. now subst.
  - intros H. exists x. split; auto. apply N.eqb_refl.
Qed.
Lemma memb_false x xs : memb x xs = false <-> ~ In x xs.
Proof. rewrite <- memb_In. destruct (memb x xs); split; intros; try congruence; tauto. Qed.
Lemma memb_app x a b : memb x (a ++ b) = memb x a || memb x b.
Proof. unfold memb. apply existsb_app. Qed.
Lemma In_remove_l x y xs : In x (remove_l y xs) <-> In x xs /\ x <> y.
Proof.
  unfold remove_l. rewrite filter_In. rewrite negb_true_iff, N.eqb_neq. intuition congruence.
Qed.
Lemma memb_remove_same y xs : memb y (remove_l y xs) = false.
Proof. apply memb_false. rewrite In_remove_l. tauto. Qed.
Lemma memb_remove_other x y xs : x <> y -> memb x (remove_l y xs) = memb x xs.
Proof.
  intros H. destruct (memb x xs) eqn:E.
  - apply memb_In. apply In_remove_l. split; auto. now apply memb_In.
  - apply memb_false. rewrite In_remove_l. apply memb_false in E. tauto.
Qed.
Lemma NoDup_filter {A} (f : A -> bool) xs : NoDup xs -> NoDup (filter f xs).
Proof.
  induction 1 as [|a r Ha Hr IH]; cbn; [constructor|]. destruct (f a); auto.
  constructor; auto. intros Hin. apply filter_In in Hin as [Hin _]. auto.
Qed.
Lemma NoDup_remove_l y xs : NoDup xs -> NoDup (remove_l y xs).
Proof. apply NoDup_filter. Qed.
Lemma NoDup_snoc {A} (x : A) xs : NoDup xs -> ~ In x xs -> NoDup (xs ++ [x]).
Proof.
  intros H Hn. induction H as [|a r Ha Hr IH]; cbn.
  - constructor; [intros []|constructor].
  - constructor.
    + intros Hin. apply in_app_or in Hin as [Hin|[<-|[]]]; [auto|]. apply Hn. now left.
    + apply IH. intros Hin. apply Hn. now right.
Qed.
Lemma add_listener_ls l x : ls (add_listener l x) = if memb l (ls x) then ls x else ls x ++ [l].
Proof. unfold add_listener. destruct (memb l (ls x)); reflexivity. Qed.
Lemma add_listener_NoDup l x : NoDup (ls x) -> NoDup (ls (add_listener l x)).
Proof.
  intros H. rewrite add_listener_ls. destruct (memb l (ls x)) eqn:E; auto.
  apply NoDup_snoc; auto. now apply memb_false.
Qed.
Lemma add_listener_same l x :
  skind (add_listener l x) = skind x /\ skey (add_listener l x) = skey x /\
  chan (add_listener l x) = chan x /\ infl (add_listener l x) = infl x /\ cur (add_listener l x) = cur x /\
  opened (add_listener l x) = opened x /\ live (add_listener l x) = live x /\ running (add_listener l x) = running x.
Proof. unfold add_listener. destruct (memb l (ls x)); cbn; repeat split. Qed.

(* ---- subscriber indices (nat) ---- *)
Lemma memn_In x xs : memn x xs = true <-> In x xs.
Proof.
  unfold memn. rewrite existsb_exists. split.
  - intros [y [H E]]. apply Nat.eqb_eq in E. now subst.
  - intros H. exists x. split; auto. apply Nat.eqb_refl.
Qed.
Lemma memn_false x xs : memn x xs = false <-> ~ In x xs.
Proof. rewrite <- memn_In. destruct (memn x xs); split; intros; try congruence; tauto. Qed.
Lemma In_remove_n x y xs : In x (remove_n y xs) <-> In x xs /\ x <> y.
Proof.
  unfold remove_n. rewrite filter_In. rewrite negb_true_iff, Nat.eqb_neq. intuition congruence.
Qed.
Lemma memn_remove_same y xs : memn y (remove_n y xs) = false.
Proof. apply memn_false. rewrite In_remove_n. tauto. Qed.
Lemma memn_remove_other x y xs : x <> y -> memn x (remove_n y xs) = memn x xs.
Proof.
  intros H. destruct (memn x xs) eqn:E.
  - apply memn_In. apply In_remove_n. split; auto. now apply memn_In.
  - apply memn_false. rewrite In_remove_n. apply memn_false in E. tauto.
Qed.

(* ---- targets / find_open ---- *)
Lemma targets_from_spec s : forall l k j,
  In j (targets_from s l k) <->
  (k <= j /\ exists x, nth_error l (j - k) = Some x /\ skey x = s /\ live x = true).
Proof.
  induction l as [|a r IH]; intros k j; cbn [targets_from].
  - split; [intros []|]. intros (_ & x & H & _). destruct (j - k); discriminate.
  - destruct (String.eqb (skey a) s && live a) eqn:E.
    + cbn [In]. rewrite IH. split.
      * intros [<-|(Hk & x & Hx & Hs & Hl)].
        -- split; [lia|]. exists a. rewrite Nat.sub_diag. apply andb_true_iff in E as [E1 E2].
           apply String.eqb_eq in E1. auto.
        -- split; [lia|]. exists x. replace (j - k) with (S (j - S k)) by lia. auto.
      * intros (Hk & x & Hx & Hs & Hl). destruct (Nat.eq_dec k j) as [->|Hne]; [now left|right].
        split; [lia|]. exists x. replace (j - k) with (S (j - S k)) in Hx by lia. auto.
    + rewrite IH. split.
      * intros (Hk & x & Hx & Hs & Hl). split; [lia|]. exists x. replace (j - k) with (S (j - S k)) by lia. auto.
      * intros (Hk & x & Hx & Hs & Hl). destruct (Nat.eq_dec k j) as [->|Hne].
        -- rewrite Nat.sub_diag in Hx. cbn in Hx. injection Hx as ->.
           rewrite Hl, andb_true_r in E. apply String.eqb_neq in E. contradiction.
        -- split; [lia|]. exists x. replace (j - k) with (S (j - S k)) in Hx by lia. auto.
Qed.
Lemma targets_spec s l j :
  In j (targets s l) <-> exists x, nth_error l j = Some x /\ skey x = s /\ live x = true.
Proof.
  unfold targets. rewrite targets_from_spec. rewrite Nat.sub_0_r. split.
  - intros [_ H]. exact H.
  - intros H. split; [lia|exact H].
Qed.
Lemma targets_from_NoDup s : forall l k, NoDup (targets_from s l k).
Proof.
  induction l as [|a r IH]; intros k; cbn [targets_from]; [constructor|].
  destruct (String.eqb (skey a) s && live a); auto.
  constructor; auto. rewrite targets_from_spec. lia.
Qed.
Lemma targets_NoDup s l : NoDup (targets s l).
Proof. apply targets_from_NoDup. Qed.

Lemma fo_sound k s : forall l n j, find_open k s l n = Some j ->
  exists x, nth_error l (j - n) = Some x /\ skind x = k /\ skey x = s /\ opened x = true /\ n <= j.
Proof.
  induction l as [|a r IH]; intros n j H; cbn in H; [discriminate|].
  destruct (kind_eqb (skind a) k && String.eqb (skey a) s && opened a) eqn:E.
  - injection H as <-. rewrite Nat.sub_diag. exists a.
    apply andb_true_iff in E as [E E3]. apply andb_true_iff in E as [E1 E2].
    apply String.eqb_eq in E2. split; [reflexivity|]. split; [|auto].
    destruct (skind a), k; try discriminate; reflexivity.
  - apply IH in H as (x & Hx & H1 & H2 & H3 & H4). exists x.
    replace (j - n) with (S (j - S n)) by lia. cbn. repeat split; auto; lia.
Qed.
Lemma fo_sound0 k s l j : find_open k s l 0 = Some j ->
  exists x, nth_error l j = Some x /\ skind x = k /\ skey x = s /\ opened x = true.
Proof. intros H. apply fo_sound in H as (x & Hx & H1 & H2 & H3 & _). rewrite Nat.sub_0_r in Hx. eauto. Qed.

Lemma kind_eqb_refl k : kind_eqb k k = true.
Proof. destruct k; reflexivity. Qed.
Lemma kind_eqb_eq a b : kind_eqb a b = true <-> a = b.
Proof. destruct a, b; cbn; split; intros; try discriminate; reflexivity. Qed.

Lemma step_disabled t o : enabled t o = false -> step t o = t.
Proof. intros H. unfold step. rewrite H. reflexivity. Qed.
Lemma step_enabled t o : enabled t o = true -> step t o =
  match o with
  | Publish tg m =>
      let s := subject_of tg in
      if bad_subject s then t
      else mkSt (q t ++ [(s, m)]) (disp t) (subs t) (emu t) (dlog t) (drops t)
  | Dispatch =>
      match q t with
      | (s, m) :: r => mkSt r (Some (s, m, targets s (subs t))) (subs t) (emu t) (dlog t) (drops t)
      | [] => t
      end
  | Send i =>
      match disp t with
      | Some (s, m, tg) =>
          let d' := Some (s, m, remove_n i tg) in
          match nth_error (subs t) i with
          | Some x =>
              if List.length (chan x) <? chan_cap
              then mkSt (q t) d' (upd i (set_chan (chan x ++ [m])) (subs t)) (emu t) (dlog t) (drops t)
              else mkSt (q t) d' (subs t) (emu t) (dlog t) (drops t ++ [(i, m)])
          | None => mkSt (q t) d' (subs t) (emu t) (dlog t) (drops t)
          end
      | None => t
      end
  | Begin i =>
      match nth_error (subs t) i with
      | Some x =>
          match chan x with
          | m :: c => mkSt (q t) (disp t) (upd i (fun x => set_infl (Some (m, ls x)) (set_chan c x)) (subs t))
                           (emu t) (dlog t) (drops t)
          | [] => t
          end
      | None => t
      end
  | Pick i l =>
      match nth_error (subs t) i with
      | Some x =>
          match infl x with
          | Some (m, vis) =>
              let x1 := set_infl (Some (m, remove_l l vis)) x in
              let x2 := if memb l (ls x) then set_cur (Some l) x1 else x1 in
              mkSt (q t) (disp t) (upd i (fun _ => x2) (subs t)) (emu t) (dlog t) (drops t)
          | None => t
          end
      | None => t
      end
  | Call i =>
      match nth_error (subs t) i with
      | Some x =>
          match infl x, cur x with
          | Some (m, _), Some l =>
              mkSt (q t) (disp t) (upd i (set_cur None) (subs t)) (emu t) (dlog t ++ [(i, l, m)]) (drops t)
          | _, _ => t
          end
      | None => t
      end
  | End_ i => mkSt (q t) (disp t) (upd i (set_infl None) (subs t)) (emu t) (dlog t) (drops t)
  | Register tg l =>
      let k := tkind tg in
      let s := subject_of tg in
      match find_open k s (subs t) 0 with
      | Some i => mkSt (q t) (disp t) (upd i (add_listener l) (subs t)) (emu t) (dlog t) (drops t)
      | None =>
          if bad_subject s then t
          else mkSt (q t) (disp t) (subs t ++ [new_sub k s]) (Some (List.length (subs t), l)) (dlog t) (drops t)
      end
  | RegFinish =>
      match emu t with
      | Some (i, l) => mkSt (q t) (disp t) (upd i (add_listener l) (subs t)) None (dlog t) (drops t)
      | None => t
      end
  | Unregister tg l =>
      match find_open (tkind tg) (subject_of tg) (subs t) 0 with
      | Some i =>
          mkSt (q t) (disp t)
               (upd i (fun x => let l' := remove_l l (ls x) in
                                match l' with
                                | [] => set_opened false (set_ls l' x)
                                | _ => set_ls l' x
                                end) (subs t))
               (emu t) (dlog t) (drops t)
      | None => t
      end
  | Exit i => mkSt (q t) (disp t) (upd i set_gone (subs t)) (emu t) (dlog t) (drops t)
  end.
Proof. intros H. unfold step. rewrite H. reflexivity. Qed.

(* ---- subsequences ---- *)
Inductive Subseq {A} : list A -> list A -> Prop :=
| sub_nil : Subseq [] []
| sub_skip a l1 l2 : Subseq l1 l2 -> Subseq l1 (a :: l2)
| sub_keep a l1 l2 : Subseq l1 l2 -> Subseq (a :: l1) (a :: l2).

Lemma Subseq_refl {A} (l : list A) : Subseq l l.
Proof. induction l; [apply sub_nil|apply sub_keep; auto]. Qed.
Lemma Subseq_nil {A} (l : list A) : Subseq [] l.
Proof. induction l; [apply sub_nil|apply sub_skip; auto]. Qed.
Lemma Subseq_trans {A} (a b c : list A) : Subseq a b -> Subseq b c -> Subseq a c.
Proof.
  intros H1 H2. revert a H1. induction H2 as [|x l1 l2 H IH|x l1 l2 H IH]; intros a H1.
  - exact H1.
  - apply sub_skip. auto.
  - inversion H1; subst.
    + apply sub_skip. auto.
    + apply sub_keep. auto.
Qed.
Lemma Subseq_app {A} (a b c d : list A) : Subseq a b -> Subseq c d -> Subseq (a ++ c) (b ++ d).
Proof. intros H1 H2. induction H1; cbn; auto; [apply sub_skip|apply sub_keep]; auto. Qed.
Lemma Subseq_drop_mid {A} (a b : list A) m : Subseq (a ++ b) (a ++ m :: b).
Proof. apply Subseq_app; [apply Subseq_refl|]. apply sub_skip. apply Subseq_refl. Qed.
Lemma Subseq_In {A} (a b : list A) x : Subseq a b -> In x a -> In x b.
Proof.
  induction 1 as [|y l1 l2 H IH|y l1 l2 H IH]; cbn; intros Hin; auto.
  destruct Hin; auto.
Qed.
Lemma Subseq_NoDup {A} (a b : list A) : Subseq a b -> NoDup b -> NoDup a.
Proof.
  induction 1 as [|x l1 l2 H IH|x l1 l2 H IH]; intros Hn; auto.
  - inversion Hn; auto.
  - inversion Hn; subst. constructor; auto. intros Hin. eapply Subseq_In in Hin; eauto.
Qed.
Lemma Subseq_app_l {A} (a b : list A) : Subseq a (a ++ b).
Proof. rewrite <- (app_nil_r a) at 1. apply Subseq_app; [apply Subseq_refl|apply Subseq_nil]. Qed.

(* ======================================================================== *)
(* the conservation law of one (subscriber, listener) pair                    *)
(* ======================================================================== *)
Section Law.
Context (i : nat) (l : lid) (key : string).

Definition is_cur (x : sub) : bool := match cur x with Some c => N.eqb c l | None => false end.
Definition pend_infl (x : sub) : list msg :=
  match infl x with
  | Some (m, vis) => if memb l vis || is_cur x then [m] else []
  | None => []
  end.
Definition pending_sub (x : sub) : list msg := pend_infl x ++ chan x.
Definition dpart_of (d : option (string * msg * list nat)) : list msg :=
  match d with Some (_, m, tg) => if memn i tg then [m] else [] | None => [] end.
Definition qs_of (qq : list (string * msg)) : list msg :=
  map snd (filter (fun p => String.eqb (fst p) key) qq).
Definition pending_of (ox : option sub) d qq : list msg :=
  match ox with Some x => pending_sub x ++ dpart_of d ++ qs_of qq | None => [] end.
Definition delivered_of (dl : list (nat * lid * msg)) : list msg :=
  map snd (filter (fun e => Nat.eqb (fst (fst e)) i && N.eqb (snd (fst e)) l) dl).

(* what is still on its way to l through subscriber i, oldest first *)
Definition pending (t : st) : list msg := pending_of (nth_error (subs t) i) (disp t) (q t).
(* what l was handed through subscriber i, oldest first *)
Definition delivered (t : st) : list msg := delivered_of (dlog t).
Definition Meas (t : st) : list msg := delivered t ++ pending t.

Definition WFsub (x : sub) : Prop :=
  skey x = key /\ NoDup (ls x) /\
  (forall m vis, infl x = Some (m, vis) -> NoDup vis /\ (cur x = Some l -> ~ In l vis)).
Definition WFd (d : option (string * msg * list nat)) : Prop :=
  forall s m tg, d = Some (s, m, tg) -> NoDup tg /\ (In i tg -> s = key).
Definition WF (t : st) : Prop :=
  (exists x, nth_error (subs t) i = Some x /\ WFsub x) /\ WFd (disp t).

(* publications on this subject *)
Definition pubs (o : op) : list msg :=
  match o with
  | Publish tg m =>
      if bad_subject (subject_of tg) then []
      else if String.eqb (subject_of tg) key then [m] else []
  | _ => []
  end.

(* the steps at which a message leaves the pipe without reaching l *)
Definition lossy (t : st) (o : op) : bool :=
  enabled t o &&
  match o, nth_error (subs t) i with
  | Dispatch, Some x =>
      match q t with (s, _) :: _ => String.eqb s key && negb (live x) | [] => false end
  | Send j, Some x => Nat.eqb j i && negb (List.length (chan x) <? chan_cap)
  | Begin j, Some x => Nat.eqb j i && negb (memb l (ls x))
  | Pick j l', Some x => Nat.eqb j i && N.eqb l' l && negb (memb l (ls x))
  | _, _ => false
  end.

Definition Change (t : st) (o : op) (M M' : list msg) : Prop :=
  M' = M ++ pubs o \/
  (lossy t o = true /\ pubs o = [] /\ exists a m b, M = a ++ m :: b /\ M' = a ++ b).

Lemma qs_of_app a b : qs_of (a ++ b) = qs_of a ++ qs_of b.
Proof. unfold qs_of. now rewrite filter_app, map_app. Qed.
Lemma delivered_of_app a b : delivered_of (a ++ b) = delivered_of a ++ delivered_of b.
Proof. unfold delivered_of. now rewrite filter_app, map_app. Qed.

(* an update of one subscriber that neither touches what is pending for l nor
   the callback log of l *)
Lemma frame t j f e' dl' :
  WF t ->
  (j = i -> forall x, nth_error (subs t) i = Some x -> WFsub x ->
            WFsub (f x) /\ pending_sub (f x) = pending_sub x) ->
  delivered_of dl' = delivered_of (dlog t) ->
  let t' := mkSt (q t) (disp t) (upd j f (subs t)) e' dl' (drops t) in
  WF t' /\ Meas t' = Meas t.
Proof.
  intros [(x & Hx & Hw) Hd] Hf Hdl t'. unfold WF, Meas, pending, delivered. cbn [subs disp q dlog t'].
  rewrite nth_upd. destruct (Nat.eqb j i) eqn:E.
  - apply Nat.eqb_eq in E. destruct (Hf E x Hx Hw) as [Hw' Hp]. rewrite Hx. cbn [option_map].
    split; [split; [eauto|exact Hd]|]. rewrite Hdl. unfold pending_of. now rewrite Hp.
  - rewrite Hx. split; [split; [eauto|exact Hd]|]. now rewrite Hdl.
Qed.

Lemma app_new_frame t y e' :
  WF t ->
  let t' := mkSt (q t) (disp t) (subs t ++ [y]) e' (dlog t) (drops t) in
  WF t' /\ Meas t' = Meas t.
Proof.
  intros [(x & Hx & Hw) Hd] t'. unfold WF, Meas, pending, delivered. cbn [subs disp q dlog t'].
  rewrite (nth_app_old _ y _ _ Hx), Hx. split; [split; [eauto|exact Hd]|reflexivity].
Qed.

Lemma law t o : WF t -> WF (step t o) /\ Change t o (Meas t) (Meas (step t o)).
Proof.
  intros HW. destruct (enabled t o) eqn:En.
  2:{ rewrite step_disabled by exact En. split; [exact HW|]. left.
      assert (pubs o = []) as ->; [|now rewrite app_nil_r].
      destruct o; try reflexivity. discriminate. }
  rewrite (step_enabled _ _ En).
  pose proof HW as [(x & Hx & Hw) Hd]. pose proof Hw as (Hkey & Hndls & Hinfl).
  destruct o as [tg m| |j|j|j l'|j|j|tg l'| |tg l'|j]; unfold Change, pubs.
  - (* Publish *)
    cbn zeta. destruct (bad_subject (subject_of tg)); cbv iota.
    + split; [exact HW|]. left. now rewrite app_nil_r.
    + split; [split; [eauto|exact Hd]|]. left.
      unfold Meas, pending, delivered. cbn [subs disp q dlog]. rewrite Hx. unfold pending_of.
      rewrite qs_of_app. unfold qs_of at 2. cbn [filter fst].
      destruct (String.eqb (subject_of tg) key); cbn [map snd]; rewrite <- !app_assoc; reflexivity.
  - (* Dispatch *)
    cbn [enabled] in En. apply andb_true_iff in En as [Hidle Hq].
    destruct (q t) as [|[s m] r] eqn:Eq; [discriminate|].
    assert (Hdp : dpart_of (disp t) = []).
    { unfold disp_idle in Hidle. unfold dpart_of. destruct (disp t) as [[[s0 m0] [|? ?]]|]; try discriminate; reflexivity. }
    assert (Hmem : memn i (targets s (subs t)) = String.eqb s key && live x).
    { destruct (memn i (targets s (subs t))) eqn:E.
      - apply memn_In in E. apply targets_spec in E as (x' & Hx' & Hs & Hl). rewrite Hx in Hx'. injection Hx' as <-.
        rewrite Hl, <- Hs, Hkey, String.eqb_refl. reflexivity.
      - apply memn_false in E. destruct (String.eqb s key) eqn:Es; [|reflexivity]. destruct (live x) eqn:El; [|reflexivity].
        exfalso. apply E. apply targets_spec. exists x. apply String.eqb_eq in Es. subst s. auto. }
    split.
    + split; [cbn [subs]; eauto|]. cbn [disp]. intros s0 m0 tg0 E0. injection E0 as <- <- <-.
      split; [apply targets_NoDup|]. intros Hin. apply targets_spec in Hin as (x' & Hx' & Hs & _).
      rewrite Hx in Hx'. injection Hx' as <-. congruence.
    + unfold Meas, pending, delivered. cbn [subs disp q dlog]. rewrite Hx. unfold pending_of.
      rewrite Hdp. cbn [dpart_of]. rewrite Hmem. unfold qs_of. rewrite Eq. cbn [filter fst].
      destruct (String.eqb s key) eqn:Es; cbn [andb map snd].
      * destruct (live x) eqn:El.
        -- left. rewrite app_nil_r. cbn [app]. reflexivity.
        -- right. split.
           { unfold lossy. cbn [enabled]. rewrite Hidle, Eq, Hx, Es, El. reflexivity. }
           split; [reflexivity|].
           exists (delivered_of (dlog t) ++ pending_sub x), m,
                  (map snd (filter (fun p => String.eqb (fst p) key) r)).
           cbn [app]. rewrite <- !app_assoc. split; reflexivity.
      * left. now rewrite app_nil_r.
  - (* Send *)
    cbn [enabled] in En. destruct (disp t) as [[[s m] tg]|] eqn:Ed; [|discriminate].
    destruct (Hd s m tg eq_refl) as [Hnd Hin].
    assert (Hd' : WFd (Some (s, m, remove_n j tg))).
    { intros s0 m0 tg0 E0. injection E0 as <- <- <-. split; [now apply NoDup_filter|].
      intros H. apply In_remove_n in H as [H _]. auto. }
    cbn zeta. destruct (Nat.eq_dec j i) as [->|Hji].
    + rewrite Hx. destruct (List.length (chan x) <? chan_cap) eqn:Ecap.
      * split.
        -- split; [|exact Hd']. cbn [subs]. rewrite (nth_upd_same _ _ _ _ Hx). eexists; split; [reflexivity|].
           unfold WFsub. cbn. auto.
        -- left. unfold Meas, pending, delivered. cbn [subs disp q dlog].
           rewrite (nth_upd_same _ _ _ _ Hx), Hx. unfold pending_of, dpart_of. rewrite Ed, En, memn_remove_same.
           unfold pending_sub, pend_infl, is_cur. cbn [infl chan cur set_chan].
           rewrite app_nil_r. cbn [app]. rewrite <- !app_assoc. reflexivity.
      * split; [split; [cbn [subs]; eauto|exact Hd']|].
        right. split.
        { unfold lossy. cbn [enabled]. rewrite Ed, En, Hx, Nat.eqb_refl, Ecap. reflexivity. }
        split; [reflexivity|].
        exists (delivered_of (dlog t) ++ pending_sub x), m, (qs_of (q t)).
        unfold Meas, pending, delivered. cbn [subs disp q dlog]. rewrite Hx. unfold pending_of, dpart_of.
        rewrite Ed, En, memn_remove_same. cbn [app]. rewrite <- !app_assoc. split; reflexivity.
    + assert (Hm : memn i (remove_n j tg) = memn i tg) by (apply memn_remove_other; auto).
      assert (Hgoal : forall ss' e' dr', nth_error ss' i = Some x ->
                WF (mkSt (q t) (Some (s, m, remove_n j tg)) ss' e' (dlog t) dr') /\
                Change t (Send j) (Meas t) (Meas (mkSt (q t) (Some (s, m, remove_n j tg)) ss' e' (dlog t) dr'))).
      { intros ss' e' dr' Hx'. split; [split; [cbn [subs]; eauto|exact Hd']|]. left.
        unfold Meas, pending, delivered. cbn [subs disp q dlog]. rewrite Hx', Hx. unfold pending_of, dpart_of.
        rewrite Ed, Hm. now rewrite app_nil_r. }
      destruct (nth_error (subs t) j) as [y|] eqn:Hy.
      * destruct (List.length (chan y) <? chan_cap); apply Hgoal; auto. rewrite nth_upd_other; auto.
      * apply Hgoal; auto.
  - (* Begin *)
    cbn [enabled] in En. destruct (nth_error (subs t) j) as [y|] eqn:Hy; [|discriminate].
    apply andb_true_iff in En as [Hrun En].
    destruct (infl y) eqn:Hiy; [discriminate|]. destruct (cur y) eqn:Hcy; [discriminate|].
    destruct (chan y) as [|m c] eqn:Hch; [discriminate|].
    destruct (Nat.eq_dec j i) as [->|Hji].
    + rewrite Hx in Hy. injection Hy as <-.
      split.
      * split; [|exact Hd]. cbn [subs]. rewrite (nth_upd_same _ _ _ _ Hx). eexists; split; [reflexivity|].
        unfold WFsub. cbn. repeat split; auto.
        -- injection H as <- <-. exact Hndls.
        -- congruence.
      * unfold Meas, pending, delivered. cbn [subs disp q dlog]. rewrite (nth_upd_same _ _ _ _ Hx), Hx.
        unfold pending_of, pending_sub, pend_infl, is_cur. cbn [infl chan cur set_chan set_infl].
        rewrite Hiy, Hcy, Hch, orb_false_r.
        destruct (memb l (ls x)) eqn:Hm.
        -- left. rewrite app_nil_r. reflexivity.
        -- right. split.
           { unfold lossy. cbn [enabled]. rewrite Hx, Hrun, Hiy, Hcy, Hch, Nat.eqb_refl, Hm. reflexivity. }
           split; [reflexivity|]. exists (delivered_of (dlog t)), m, (c ++ dpart_of (disp t) ++ qs_of (q t)).
           cbn [app]. split; reflexivity.
    + destruct (frame t j (fun x0 => set_infl (Some (m, ls x0)) (set_chan c x0)) (emu t) (dlog t) HW) as [HW' HM];
        [intros; contradiction | reflexivity |].
      split; [exact HW'|]. left. rewrite HM. now rewrite app_nil_r.
  - (* Pick *)
    cbn [enabled] in En. destruct (nth_error (subs t) j) as [y|] eqn:Hy; [|discriminate].
    destruct (infl y) as [[m vis]|] eqn:Hiy; [|discriminate]. destruct (cur y) eqn:Hcy; [discriminate|].
    cbn zeta.
    destruct (Nat.eq_dec j i) as [->|Hji].
    + rewrite Hx in Hy. injection Hy as <-. destruct (Hinfl m vis Hiy) as [Hndv _].
      set (x1 := set_infl (Some (m, remove_l l' vis)) x).
      set (x2 := if memb l' (ls x) then set_cur (Some l') x1 else x1).
      assert (Hx2 : nth_error (upd i (fun _ => x2) (subs t)) i = Some x2) by (apply (nth_upd_same (fun _ => x2) _ _ _ Hx)).
      assert (Hw2 : WFsub x2).
      { unfold x2, x1, WFsub. destruct (memb l' (ls x)); cbn; (split; [exact Hkey|]; split; [exact Hndls|]);
          intros m0 vis0 E0; injection E0 as <- <-; (split; [now apply NoDup_remove_l|]).
        - intros Ec. injection Ec as ->. rewrite In_remove_l. tauto.
        - rewrite Hcy. discriminate. }
      split; [split; [cbn [subs]; eauto|exact Hd]|].
      unfold Meas, pending, delivered. cbn [subs disp q dlog]. rewrite Hx2, Hx. unfold pending_of.
      assert (Hold : pending_sub x = (if memb l vis then [m] else []) ++ chan x).
      { unfold pending_sub, pend_infl, is_cur. rewrite Hiy, Hcy, orb_false_r. reflexivity. }
      rewrite Hold.
      destruct (N.eq_dec l' l) as [->|Hll].
      * rewrite En.
        destruct (memb l (ls x)) eqn:Hm.
        -- left. rewrite app_nil_r.
           assert (pending_sub x2 = [m] ++ chan x) as ->; [|reflexivity].
           unfold x2, x1. try rewrite Hm. unfold pending_sub, pend_infl, is_cur. cbn [infl cur chan set_cur set_infl].
           rewrite N.eqb_refl, orb_true_r. reflexivity.
        -- right. split.
           { unfold lossy. cbn [enabled]. rewrite Hx, Hiy, Hcy, En, Nat.eqb_refl, N.eqb_refl, Hm. reflexivity. }
           split; [reflexivity|]. exists (delivered_of (dlog t)), m, (chan x ++ dpart_of (disp t) ++ qs_of (q t)).
           split; [cbn [app]; reflexivity|].
           assert (pending_sub x2 = chan x) as ->; [|reflexivity].
           unfold x2, x1. try rewrite Hm. unfold pending_sub, pend_infl, is_cur. cbn [infl cur chan set_infl].
           rewrite Hcy, memb_remove_same. reflexivity.
      * left. rewrite app_nil_r.
        assert (pending_sub x2 = (if memb l vis then [m] else []) ++ chan x) as ->; [|reflexivity].
        unfold x2, x1. assert (Hne : N.eqb l' l = false) by (now apply N.eqb_neq).
        destruct (memb l' (ls x)); unfold pending_sub, pend_infl, is_cur; cbn [infl cur chan set_cur set_infl];
          rewrite ?Hcy, ?Hne, orb_false_r, memb_remove_other by auto; reflexivity.
    + set (x1 := set_infl (Some (m, remove_l l' vis)) y).
      set (x2 := if memb l' (ls y) then set_cur (Some l') x1 else x1).
      destruct (frame t j (fun _ => x2) (emu t) (dlog t) HW) as [HW' HM];
        [intros; contradiction | reflexivity |].
      split; [exact HW'|]. left. rewrite HM. now rewrite app_nil_r.
  - (* Call *)
    cbn [enabled] in En. destruct (nth_error (subs t) j) as [y|] eqn:Hy; [|discriminate].
    destruct (infl y) as [[m vis]|] eqn:Hiy; [|discriminate]. destruct (cur y) as [c|] eqn:Hcy; [|discriminate].
    destruct (Nat.eq_dec j i) as [->|Hji].
    + rewrite Hx in Hy. injection Hy as <-.
      destruct (N.eq_dec c l) as [->|Hcl].
      * (* l is handed m *)
        destruct (Hinfl m vis Hiy) as [Hndv Hnotin]. specialize (Hnotin Hcy).
        split.
        -- split; [|exact Hd]. cbn [subs]. rewrite (nth_upd_same _ _ _ _ Hx). eexists; split; [reflexivity|].
           unfold WFsub. cbn. split; [exact Hkey|]. split; [exact Hndls|]. intros m0 vis0 E0. rewrite Hiy in E0.
           injection E0 as <- <-. split; [exact Hndv|discriminate].
        -- left. rewrite app_nil_r. unfold Meas, pending, delivered. cbn [subs disp q dlog].
           rewrite (nth_upd_same _ _ _ _ Hx), Hx. rewrite delivered_of_app. unfold delivered_of at 2.
           cbn [filter fst snd]. rewrite Nat.eqb_refl, N.eqb_refl. cbn [andb map snd].
           unfold pending_of, pending_sub, pend_infl, is_cur. cbn [infl cur chan set_cur].
           rewrite Hiy, Hcy, N.eqb_refl, orb_true_r, orb_false_r.
           apply memb_false in Hnotin. rewrite Hnotin. cbn [app]. rewrite <- !app_assoc. reflexivity.
      * assert (Hne : N.eqb c l = false) by (now apply N.eqb_neq).
        destruct (frame t i (set_cur None) (emu t) (dlog t ++ [(i, c, m)]) HW) as [HW' HM].
        -- intros _ x0 Hx0 Hw0. rewrite Hx in Hx0. injection Hx0 as <-. split.
           ++ unfold WFsub. cbn. split; [exact Hkey|]. split; [exact Hndls|]. intros m0 vis0 E0.
              destruct (Hinfl m0 vis0 E0) as [H1 _]. split; [exact H1|discriminate].
           ++ unfold pending_sub, pend_infl, is_cur. cbn [infl cur chan set_cur]. rewrite Hcy, Hne. reflexivity.
        -- rewrite delivered_of_app. unfold delivered_of at 2. cbn [filter fst snd]. rewrite Hne, andb_false_r.
           cbn [map]. now rewrite app_nil_r.
        -- split; [exact HW'|]. left. rewrite HM. now rewrite app_nil_r.
    + destruct (frame t j (set_cur None) (emu t) (dlog t ++ [(j, c, m)]) HW) as [HW' HM].
      * intros; contradiction.
      * rewrite delivered_of_app. unfold delivered_of at 2. cbn [filter fst snd].
        assert (Nat.eqb j i = false) as -> by (now apply Nat.eqb_neq). cbn [andb map]. now rewrite app_nil_r.
      * split; [exact HW'|]. left. rewrite HM. now rewrite app_nil_r.
  - (* End_ *)
    cbn [enabled] in En. destruct (nth_error (subs t) j) as [y|] eqn:Hy; [|discriminate].
    destruct (infl y) as [[m [|? ?]]|] eqn:Hiy; try discriminate. destruct (cur y) eqn:Hcy; [discriminate|].
    destruct (frame t j (set_infl None) (emu t) (dlog t) HW) as [HW' HM]; [|reflexivity|].
    + intros -> x0 Hx0 Hw0. rewrite Hy in Hx0. injection Hx0 as <-. split.
      * unfold WFsub. cbn. destruct Hw0 as (H1 & H2 & _). repeat split; auto; discriminate.
      * unfold pending_sub, pend_infl, is_cur. cbn [infl cur chan set_infl]. rewrite Hiy, Hcy. reflexivity.
    + split; [exact HW'|]. left. rewrite HM. now rewrite app_nil_r.
  - (* Register *)
    cbn zeta. destruct (find_open (tkind tg) (subject_of tg) (subs t) 0) as [j|] eqn:Hf.
    + destruct (frame t j (add_listener l') (emu t) (dlog t) HW) as [HW' HM]; [|reflexivity|].
      * intros _ x0 Hx0 Hw0. destruct (add_listener_same l' x0) as (_ & E2 & E3 & E4 & E5 & _). split.
        -- unfold WFsub. rewrite E2, E4, E5. destruct Hw0 as (H1 & H2 & H3).
           split; [exact H1|]. split; [now apply add_listener_NoDup|exact H3].
        -- unfold pending_sub, pend_infl, is_cur. now rewrite E3, E4, E5.
      * split; [exact HW'|]. left. rewrite HM. now rewrite app_nil_r.
    + destruct (bad_subject (subject_of tg)).
      * split; [exact HW|]. left. now rewrite app_nil_r.
      * destruct (app_new_frame t (new_sub (tkind tg) (subject_of tg)) (Some (List.length (subs t), l')) HW) as [HW' HM].
        split; [exact HW'|]. left. rewrite HM. now rewrite app_nil_r.
  - (* RegFinish *)
    cbn [enabled] in En. destruct (emu t) as [[j l']|] eqn:He; [|discriminate].
    destruct (frame t j (add_listener l') None (dlog t) HW) as [HW' HM]; [|reflexivity|].
    + intros _ x0 Hx0 Hw0. destruct (add_listener_same l' x0) as (_ & E2 & E3 & E4 & E5 & _). split.
      * unfold WFsub. rewrite E2, E4, E5. destruct Hw0 as (H1 & H2 & H3).
        split; [exact H1|]. split; [now apply add_listener_NoDup|exact H3].
      * unfold pending_sub, pend_infl, is_cur. now rewrite E3, E4, E5.
    + split; [exact HW'|]. left. rewrite HM. now rewrite app_nil_r.
  - (* Unregister *)
    destruct (find_open (tkind tg) (subject_of tg) (subs t) 0) as [j|] eqn:Hf.
    + match goal with |- context [upd j ?f _] => set (F := f) end.
      destruct (frame t j F (emu t) (dlog t) HW) as [HW' HM]; [|reflexivity|].
      * intros _ x0 Hx0 Hw0. destruct Hw0 as (H1 & H2 & H3). unfold F.
        assert (Hnd : NoDup (remove_l l' (ls x0))) by now apply NoDup_remove_l.
        destruct (remove_l l' (ls x0)) eqn:Er; (split; [|reflexivity]); unfold WFsub; cbn;
          (split; [exact H1|]; split; [exact Hnd|exact H3]).
      * split; [exact HW'|]. left. rewrite HM. now rewrite app_nil_r.
    + split; [exact HW|]. left. now rewrite app_nil_r.
  - (* Exit *)
    destruct (frame t j set_gone (emu t) (dlog t) HW) as [HW' HM]; [|reflexivity|].
    + intros _ x0 Hx0 Hw0. split; [exact Hw0|reflexivity].
    + split; [exact HW'|]. left. rewrite HM. now rewrite app_nil_r.
Qed.

Definition pubs_all (ops : list op) : list msg := List.concat (map pubs ops).

Lemma Change_Subseq t o M M' : Change t o M M' -> Subseq M' (M ++ pubs o).
Proof.
  intros [->|(_ & -> & a & m & b & -> & ->)]; [apply Subseq_refl|].
  rewrite app_nil_r. apply Subseq_drop_mid.
Qed.

(* Every interleaving, no hypothesis on registrations, capacity or liveness:
   what l is handed through subscriber i is a subsequence of (what was in the
   pipe ++ what is published on the subject afterwards). *)
Theorem delivered_subseq ops : forall t, WF t ->
  WF (run ops t) /\ Subseq (Meas (run ops t)) (Meas t ++ pubs_all ops).
Proof.
  induction ops as [|o ops IH]; intros t HW; cbn [run fold_left pubs_all map List.concat].
  - split; auto. rewrite app_nil_r. apply Subseq_refl.
  - destruct (law t o HW) as [HW' HC]. destruct (IH _ HW') as [HW'' HS]. split; auto.
    eapply Subseq_trans; [exact HS|]. rewrite app_assoc. apply Subseq_app; [|apply Subseq_refl].
    eapply Change_Subseq; eauto.
Qed.

(* ---- the tracked registration: l stays registered on subscriber i ---------- *)
Context (knd : kind).

Definition Good (t : st) : Prop :=
  WF t /\ exists x, nth_error (subs t) i = Some x /\ skind x = knd /\
                    opened x = true /\ live x = true /\ memb l (ls x) = true.

(* ops that keep the registration: everything except unregistering l from this subject *)
Definition keeps (o : op) : bool :=
  match o with
  | Unregister tg l' => negb (kind_eqb (tkind tg) knd && String.eqb (subject_of tg) key && N.eqb l' l)
  | _ => true
  end.

(* the 64-slot channel of subscriber i is full when the dispatcher reaches it *)
Definition overflow_at (t : st) (o : op) : bool :=
  match o, nth_error (subs t) i with
  | Send j, Some x => enabled t o && Nat.eqb j i && negb (List.length (chan x) <? chan_cap)
  | _, _ => false
  end.
Fixpoint no_overflow (ops : list op) (t : st) : bool :=
  match ops with
  | [] => true
  | o :: r => negb (overflow_at t o) && no_overflow r (step t o)
  end.

Lemma good_step t o : Good t -> keeps o = true -> Good (step t o) /\ (overflow_at t o = false -> lossy t o = false).
Proof.
  intros [HW (x & Hx & Hk & Ho & Hl & Hm)] Hkeep.
  destruct (law t o HW) as [HW' _].
  assert (Hkey : skey x = key).
  { destruct HW as [(x' & Hx' & Hw') _]. rewrite Hx in Hx'. injection Hx' as <-. apply Hw'. }
  split.
  - split; [exact HW'|].
    destruct (enabled t o) eqn:En; [|rewrite step_disabled by exact En; eauto 10].
    rewrite (step_enabled _ _ En).
    assert (Hupd : forall j f e' dl',
              (j = i -> skind (f x) = knd /\ opened (f x) = true /\ live (f x) = true /\ memb l (ls (f x)) = true) ->
              exists x', nth_error (subs (mkSt (q t) (disp t) (upd j f (subs t)) e' dl' (drops t))) i = Some x' /\
                         skind x' = knd /\ opened x' = true /\ live x' = true /\ memb l (ls x') = true).
    { intros j f e' dl' Hf. cbn [subs]. rewrite nth_upd, Hx. destruct (Nat.eqb j i) eqn:E.
      - apply Nat.eqb_eq in E. cbn [option_map]. eexists; split; [reflexivity|]. auto.
      - eauto 10. }
    destruct o as [tg m| |j|j|j l'|j|j|tg l'| |tg l'|j].
    + cbn zeta. destruct (bad_subject (subject_of tg)); cbn [subs]; eauto 10.
    + destruct (q t) as [|[s m] r]; cbn [subs]; eauto 10.
    + destruct (disp t) as [[[s m] tg]|]; [|eauto 10]. cbn zeta.
      destruct (nth_error (subs t) j) as [y|] eqn:Hy; [|cbn [subs]; eauto 10].
      destruct (List.length (chan y) <? chan_cap); [|cbn [subs]; eauto 10].
      cbn [subs]. rewrite nth_upd, Hx. destruct (Nat.eqb j i); cbn [option_map]; eauto 10.
    + destruct (nth_error (subs t) j) as [y|] eqn:Hy; [|eauto 10].
      destruct (chan y) as [|m c]; [eauto 10|]. apply Hupd. intros _. cbn. auto.
    + destruct (nth_error (subs t) j) as [y|] eqn:Hy; [|eauto 10].
      destruct (infl y) as [[m vis]|]; [|eauto 10]. cbn zeta.
      cbn [subs]. rewrite nth_upd, Hx. destruct (Nat.eqb j i) eqn:E; [|eauto 10].
      apply Nat.eqb_eq in E; subst j. rewrite Hx in Hy. injection Hy as <-. cbn [option_map].
      eexists; split; [reflexivity|]. destruct (memb l' (ls x)); cbn; auto.
    + destruct (nth_error (subs t) j) as [y|] eqn:Hy; [|eauto 10].
      destruct (infl y) as [[m vis]|]; [|eauto 10]. destruct (cur y); [|eauto 10].
      apply Hupd. intros _. cbn. auto.
    + apply Hupd. intros _. cbn. auto.
    + cbn zeta. destruct (find_open (tkind tg) (subject_of tg) (subs t) 0) as [j|].
      * apply Hupd. intros _. destruct (add_listener_same l' x) as (E1 & _ & _ & _ & _ & E6 & E7 & _).
        rewrite E1, E6, E7. repeat split; auto. rewrite add_listener_ls.
        destruct (memb l' (ls x)); auto. rewrite memb_app, Hm. reflexivity.
      * destruct (bad_subject (subject_of tg)); [eauto 10|]. cbn [subs].
        rewrite (nth_app_old _ _ _ _ Hx). eauto 10.
    + destruct (emu t) as [[j l']|]; [|eauto 10].
      apply Hupd. intros _. destruct (add_listener_same l' x) as (E1 & _ & _ & _ & _ & E6 & E7 & _).
      rewrite E1, E6, E7. repeat split; auto. rewrite add_listener_ls.
      destruct (memb l' (ls x)); auto. rewrite memb_app, Hm. reflexivity.
    + destruct (find_open (tkind tg) (subject_of tg) (subs t) 0) as [j|] eqn:Hf; [|eauto 10].
      apply fo_sound0 in Hf as (y & Hy & Hyk & Hys & Hyo).
      apply Hupd. intros ->. rewrite Hx in Hy. injection Hy as <-.
      assert (Hll : l' <> l).
      { intros ->. cbn [keeps] in Hkeep. rewrite <- Hyk, <- Hys, Hk, Hkey, kind_eqb_refl, String.eqb_refl, N.eqb_refl in Hkeep.
        discriminate. }
      assert (Hm' : memb l (remove_l l' (ls x)) = true) by (rewrite memb_remove_other; auto).
      destruct (remove_l l' (ls x)) eqn:Er; [discriminate|]. cbn. auto.
    + cbn [enabled] in En. destruct (nth_error (subs t) j) as [y|] eqn:Hy; [|discriminate].
      cbn [subs]. rewrite nth_upd, Hx. destruct (Nat.eqb j i) eqn:E; [|eauto 10].
      apply Nat.eqb_eq in E; subst j. rewrite Hx in Hy. injection Hy as <-.
      rewrite Ho in En. rewrite andb_false_r in En. discriminate.
  - intros Hov. unfold lossy. destruct (enabled t o) eqn:En; [|reflexivity]. cbn [andb].
    unfold overflow_at in Hov. rewrite Hx in *.
    destruct o as [tg m| |j|j|j l'|j|j|tg l'| |tg l'|j]; try reflexivity.
    + destruct (q t) as [|[s m] r]; [reflexivity|]. rewrite Hl. now rewrite andb_false_r.
    + rewrite En in Hov. exact Hov.
    + rewrite Hm. now rewrite andb_false_r.
    + rewrite Hm. now rewrite andb_false_r.
Qed.

Lemma good_law t o : Good t -> keeps o = true -> overflow_at t o = false ->
  Good (step t o) /\ Meas (step t o) = Meas t ++ pubs o.
Proof.
  intros HG Hk Hov. destruct (good_step t o HG Hk) as [HG' Hl]. split; [exact HG'|].
  destruct HG as [HW _]. destruct (law t o HW) as [_ [H|(Hlossy & _)]]; [exact H|].
  rewrite (Hl Hov) in Hlossy. discriminate.
Qed.

(* For a listener that stays registered: for EVERY op list -- every interleaving
   of publish / dispatch / send / begin / pick / call / end / register /
   unregister / exit by any number of other listeners and subjects -- what it
   was handed plus what is still on its way equals what was there before plus
   everything published on its subject since, in publication order. *)
Theorem bus_fifo_exact ops : forall t,
  Good t -> forallb keeps ops = true -> no_overflow ops t = true ->
  Good (run ops t) /\ Meas (run ops t) = Meas t ++ pubs_all ops.
Proof.
  induction ops as [|o ops IH]; intros t HG Hk Hov; cbn [run fold_left pubs_all map List.concat forallb no_overflow] in *.
  - split; auto. now rewrite app_nil_r.
  - apply andb_true_iff in Hk as [Hk1 Hk2]. apply andb_true_iff in Hov as [Hov1 Hov2].
    apply negb_true_iff in Hov1.
    destruct (good_law t o HG Hk1 Hov1) as [HG' HM].
    destruct (IH (step t o) HG' Hk2 Hov2) as [HG'' HM'].
    split; auto. unfold run in *. rewrite HM', HM. now rewrite <- app_assoc.
Qed.

(* ---- a sufficient condition for no_overflow: at most 64 messages outstanding ---- *)
Lemma dlog_step t o : exists e, dlog (step t o) = dlog t ++ e.
Proof.
  destruct (enabled t o) eqn:En; [|rewrite step_disabled by exact En; exists []; now rewrite app_nil_r].
  rewrite (step_enabled _ _ En).
  assert (H0 : exists e, dlog t = dlog t ++ e) by (exists []; now rewrite app_nil_r).
  destruct o as [tg m| |j|j|j l'|j|j|tg l'| |tg l'|j]; cbn zeta.
  - destruct (bad_subject (subject_of tg)); exact H0.
  - destruct (q t) as [|[s m] r]; exact H0.
  - destruct (disp t) as [[[s m] tg]|]; [|exact H0].
    destruct (nth_error (subs t) j) as [y|]; [destruct (List.length (chan y) <? chan_cap)|]; exact H0.
  - destruct (nth_error (subs t) j) as [y|]; [destruct (chan y)|]; exact H0.
  - destruct (nth_error (subs t) j) as [y|]; [destruct (infl y) as [[m vis]|]|]; exact H0.
  - destruct (nth_error (subs t) j) as [y|]; [|exact H0].
    destruct (infl y) as [[m vis]|]; [|exact H0]. destruct (cur y); [|exact H0]. cbn [dlog]. eauto.
  - exact H0.
  - destruct (find_open (tkind tg) (subject_of tg) (subs t) 0); [exact H0|].
    destruct (bad_subject (subject_of tg)); exact H0.
  - destruct (emu t) as [[j l']|]; exact H0.
  - destruct (find_open (tkind tg) (subject_of tg) (subs t) 0); exact H0.
  - exact H0.
Qed.

Lemma pending_chan_bound t o x :
  nth_error (subs t) i = Some x -> overflow_at t o = true -> chan_cap + 1 <= List.length (pending t).
Proof.
  intros Hx Hov. unfold overflow_at in Hov. rewrite Hx in Hov. destruct o; try discriminate.
  apply andb_true_iff in Hov as [Hov Hfull]. apply andb_true_iff in Hov as [En Hji].
  apply Nat.eqb_eq in Hji. subst i0. cbn [enabled] in En.
  destruct (disp t) as [[[s m] tg]|] eqn:Ed; [|discriminate].
  unfold pending, pending_of. rewrite Hx, Ed. unfold dpart_of. rewrite En. unfold pending_sub.
  rewrite !app_length. cbn [List.length]. apply negb_true_iff, Nat.ltb_ge in Hfull. lia.
Qed.

Theorem below_threshold ops : forall t,
  Good t -> forallb keeps ops = true ->
  List.length (pending t) + List.length (pubs_all ops) <= chan_cap ->
  no_overflow ops t = true.
Proof.
  induction ops as [|o ops IH]; intros t HG Hk Hb; cbn [no_overflow forallb pubs_all map List.concat] in *; [reflexivity|].
  apply andb_true_iff in Hk as [Hk1 Hk2]. rewrite app_length in Hb.
  assert (Hov : overflow_at t o = false).
  { destruct (overflow_at t o) eqn:E; [|reflexivity]. exfalso.
    destruct HG as [_ (x & Hx & _)]. pose proof (pending_chan_bound t o x Hx E). lia. }
  rewrite Hov. cbn [negb andb].
  destruct (good_law t o HG Hk1 Hov) as [HG' HM]. apply IH; auto.
  destruct (dlog_step t o) as [e He].
  assert (Hlen : List.length (Meas (step t o)) = List.length (Meas t) + List.length (pubs o)) by (rewrite HM, app_length; reflexivity).
  unfold Meas, delivered in Hlen. rewrite He, delivered_of_app, !app_length in Hlen.
  unfold pubs_all. lia.
Qed.

Corollary received_is_prefix ops t :
  Good t -> forallb keeps ops = true -> no_overflow ops t = true ->
  exists rest, delivered (run ops t) ++ rest = delivered t ++ pending t ++ pubs_all ops.
Proof.
  intros HG Hk Hov. destruct (bus_fifo_exact ops t HG Hk Hov) as [_ H]. unfold Meas in H.
  exists (pending (run ops t)). rewrite H. now rewrite <- app_assoc.
Qed.

Corollary drained_equal ops t :
  Good t -> forallb keeps ops = true -> no_overflow ops t = true -> pending (run ops t) = [] ->
  delivered (run ops t) = delivered t ++ pending t ++ pubs_all ops.
Proof.
  intros HG Hk Hov Hp. destruct (bus_fifo_exact ops t HG Hk Hov) as [_ H]. unfold Meas in H.
  rewrite Hp, app_nil_r in H. rewrite H. now rewrite <- app_assoc.
Qed.

End Law.
