(* Transient room data of the hub model: what a join writes (C14, scenario C14H).  The initial data goes to the
   joiner, once, after the room reply, and it is the data of the room; nobody else gets a transient message. *)
From Coq Require Import List NArith Bool Lia.
From Verif Require Import model.Hub proofs.Hub_basics proofs.Hub_wf proofs.Hub_easy proofs.Hub_corollaries proofs.Hub_pending
  proofs.Hub_transient_frame proofs.Hub_transient_nr proofs.Hub_transient_nr2 proofs.Hub_isolation
  proofs.Hub_transient_hist proofs.Hub_transient_join.
Import ListNotations.
Open Scope N_scope.

(* the transient messages among the outputs, in order, with the connection they are written to *)
Definition trans_outs (outs : list out) : list (N * tmsg) :=
  flat_map (fun o => match o with ToConn c (STransient t) => [(c, t)] | _ => [] end) outs.

Lemma trans_outs_app a b : trans_outs (a ++ b) = trans_outs a ++ trans_outs b.
Proof. unfold trans_outs. apply flat_map_app. Qed.
Lemma trans_outs_quiet outs : qouts outs -> trans_outs outs = [].
Proof.
  induction outs as [|o r IH]; intros Q; [reflexivity|]. cbn [trans_outs flat_map].
  fold (trans_outs r). rewrite IH; [|intros c m Hin; apply (Q c m); now right].
  destruct o as [c m| | |]; try reflexivity. pose proof (Q c m (or_introl eq_refl)) as Hm. destruct m; try reflexivity. discriminate Hm.
Qed.

(* what a join of a room writes: quiet outputs, then the room reply, then the data of the room if it has any *)
Definition join_shape (c rn : N) (d : alist N) (outs : list out) : Prop :=
  exists pre post, qouts pre /\ qouts post /\
    outs = pre ++ ToConn c (SRoom rn) :: match d with [] => [] | _ => [ToConn c (STransient (TInit d))] end ++ post.

Lemma join_shape_trans c rn d outs : join_shape c rn d outs ->
  trans_outs outs = match d with [] => [] | _ => [(c, TInit d)] end.
Proof.
  intros (pre & post & Q & Q' & ->). rewrite trans_outs_app, (trans_outs_quiet _ Q). cbn [trans_outs flat_map app].
  fold (trans_outs (match d with [] => [] | _ => [ToConn c (STransient (TInit d))] end ++ post)).
  rewrite trans_outs_app, (trans_outs_quiet _ Q'), app_nil_r. destruct d; reflexivity.
Qed.
Lemma join_shape_wrap c rn d outs a b : qouts a -> qouts b -> join_shape c rn d outs -> join_shape c rn d (a ++ outs ++ b).
Proof.
  intros Qa Qb (pre & post & Q & Q' & ->). exists (a ++ pre), (post ++ b). split; [now apply qouts_app|]. split; [now apply qouts_app|].
  rewrite <- !app_assoc. cbn [app]. rewrite <- !app_assoc. reflexivity.
Qed.

Lemma join_room_outs h c sid k rs perms su s :
  WF h -> get_sess h sid = Some s -> is_virtual (s_kind s) = false -> s_conn s = Some c ->
  exists r', room_of (fst (join_room h c sid k rs perms su)) k = Some r' /\
             join_shape c (snd k) (r_transient r') (snd (join_room h c sid k rs perms su)).
Proof.
  intros W Hs Hv Hc. unfold join_room.
  pose proof (nr_leave_room (fun y => y = sid) h h sid true (or_introl eq_refl) (nr_refl _ _)) as [_ Q1].
  destruct (leave_room_self h sid true s Hs Hv) as (s1 & Hs1 & K1 & C1 & P1 & R1).
  pose proof (wf_leave_room _ _ h sid true W) as W1.
  destruct (leave_room h sid true) as [h1 o1]. cbn [fst snd] in *. rewrite Hs1.
  assert (Hv1 : is_virtual (s_kind s1) = false) by congruence.
  set (r := match room_of h1 k with Some x => x | None => empty_room end).
  assert (Hal : nmem sid (r_members r) = false).
  { apply nmem_false_iff. intros Hin. unfold r in Hin. destruct (room_of h1 k) as [x|] eqn:Hx; [|destruct Hin].
    destruct (wf_members _ _ h1 W1 k x sid Hx Hin) as (s0 & Hs0 & Hk0). congruence. }
  cbv zeta. fold r. rewrite Hal.
  set (r' := mkroom (nadd sid (r_members r)) (r_incall r) (if N.eqb su 0 then r_sessdata r else aset (r_sessdata r) sid su) (r_transient r) (r_props r)).
  set (s1' := upd_sess s1 (Some k) rs (s_conn s1) match perms with Some p => Some p | None => s_perms s1 end (s_pending s1) [] (h_clock h1)).
  match goal with |- context [send_session ?H sid (SRoom (snd k))] => set (h5 := H) end.
  assert (G5 : forall y, get_sess h5 y = if N.eqb y sid then Some s1' else get_sess h1 y).
  { intros y. unfold h5, get_sess. destruct (N.eqb rs 0); destruct (s_kind s1) as [|f d|]; try destruct d; cbn; rewrite ?rs_set_sessions; cbn; apply aget_aset. }
  assert (R5 : h_rooms h5 = pset (h_rooms h1) k r').
  { unfold h5. destruct (N.eqb rs 0); destruct (s_kind s1) as [|f d|]; try destruct d; cbn; rewrite ?rs_set_rooms; reflexivity. }
  clearbody h5.
  assert (Hs5 : get_sess h5 sid = Some s1') by (rewrite G5, N.eqb_refl; reflexivity).
  assert (Hc' : s_conn s1' = Some c) by (cbn; congruence).
  rewrite (send_relm_eq h5 sid s1' (SRoom (snd k)) Hs5 Hv1 Logic.I), Hc'.
  assert (Hr7 : room_of (put_sess h5 sid s1') k = Some r') by (unfold room_of; cbn [h_rooms put_sess set_sessions]; rewrite R5; apply pget_pset_same).
  rewrite Hr7.
  match goal with |- context [publish (put_sess h5 sid s1') ?A ?B] => set (h9 := publish (put_sess h5 sid s1') A B) end.
  assert (Hs9 : get_sess h9 sid = Some s1') by (unfold h9, get_sess; cbn; apply aget_aset_same).
  exists r'. destruct (r_transient r) as [|e l] eqn:Hd.
  - cbn [fst snd]. split; [unfold room_of; cbn; rewrite R5; apply pget_pset_same|].
    exists o1, []. split; [exact Q1|]. split; [apply qouts_nil|]. unfold r'. cbn [r_transient]. rewrite ?Hd, ?app_nil_r. reflexivity.
  - rewrite (send_relm_eq h9 sid s1' (STransient (TInit (e :: l))) Hs9 Hv1 Logic.I), Hc'. cbn [fst snd]. split.
    + unfold room_of. cbn. rewrite R5. apply pget_pset_same.
    + exists o1, []. split; [exact Q1|]. split; [apply qouts_nil|]. unfold r'. cbn [r_transient]. rewrite ?Hd, ?app_nil_r. reflexivity.
Qed.

Lemma sat_pf_trans outs : sat PF outs -> trans_outs outs = [].
Proof.
  induction outs as [|o r IH]; intros S; [reflexivity|]. cbn [trans_outs flat_map]. fold (trans_outs r).
  rewrite IH; [|intros c t Hin; apply (S c t); now right].
  destruct o as [c m| | |]; try reflexivity. destruct m; try reflexivity. exfalso. exact (S c t (or_introl eq_refl)).
Qed.
Lemma qouts_sat outs : qouts outs -> sat PF outs.
Proof. intros Q c t Hin. pose proof (Q c _ Hin) as H. discriminate H. Qed.

(* do_join: either no transient message at all, or a join of room (backend, rn) with the shape above *)
Definition join_result (c b rn : N) (R : hub * list out) : Prop :=
  sat PF (snd R) \/ exists r', room_of (fst R) (b, rn) = Some r' /\ join_shape c rn (r_transient r') (snd R).

Lemma do_join_shape h c sid s rn rs rep : WF h -> BusNT h -> get_sess h sid = Some s -> s_conn s = Some c ->
  is_virtual (s_kind s) = false -> join_result c (s_backend s) rn (do_join h c sid s rn rs rep).
Proof.
  intros W Bn Hs Hc Hv. unfold do_join. destruct (N.eqb_spec rn 0) as [->|Hz].
  - left. destruct (s_room s); [|apply sat_nil].
    pose proof (ok_leave_room h sid true Bn) as [B1 S1]. destruct (leave_room h sid true) as [h1 o1]. cbn [fst snd] in *.
    pose proof (ok_send_session_nt h1 sid (SRoom 0) eq_refl B1) as [_ S2]. destruct (send_session h1 sid (SRoom 0)) as [h2 o2].
    cbn [fst snd] in *. now apply sat_app.
  - cbv zeta. destruct (match room_of h (s_backend s, rn) with Some r => nmem sid (r_members r) | None => false end).
    + left. match goal with |- context [send_session ?H sid (SError E_already_joined)] => set (h1 := H) end.
      assert (B1 : BusNT h1) by (unfold h1; destruct (N.eqb (s_rs s) _); [exact Bn|]; unfold BusNT; cbn [h_bus put_sess set_sessions]; rewrite rs_set_bus; exact Bn).
      pose proof (ok_send_session_nt h1 sid (SError E_already_joined) eq_refl B1) as [_ S2].
      destruct (send_session h1 sid (SError E_already_joined)) as [h2 o2]. exact S2.
    + destruct (is_internal (s_kind s)).
      * right. destruct (join_room_outs h c sid (s_backend s, rn) (if N.eqb rs 0 then 0 else 1000000 + rs) None 0 s W Hs Hv Hc) as (r' & Hr' & Sh).
        exists r'. split; assumption.
      * set (rsv := if N.eqb rs 0 then 0 else 1000000 + rs).
        assert (K : nres noex h (if N.eqb rs 0 || N.eqb (s_rs s) rsv then (h, []) else kick_room_session h rsv)).
        { destruct (N.eqb rs 0 || N.eqb (s_rs s) rsv); [split; [apply nr_refl|apply qouts_nil]|apply nr_kick, nr_refl]. }
        assert (W1 : WF (fst (if N.eqb rs 0 || N.eqb (s_rs s) rsv then (h, []) else kick_room_session h rsv))).
        { destruct (N.eqb rs 0 || N.eqb (s_rs s) rsv); [exact W|now apply wf_kick]. }
        assert (R0 : rel0 sid h (fst (if N.eqb rs 0 || N.eqb (s_rs s) rsv then (h, []) else kick_room_session h rsv))).
        { destruct (N.eqb rs 0 || N.eqb (s_rs s) rsv); [apply rel0_refl|apply rel0_kick]. }
        assert (Bn1 : BusNT (fst (if N.eqb rs 0 || N.eqb (s_rs s) rsv then (h, []) else kick_room_session h rsv))).
        { destruct (N.eqb rs 0 || N.eqb (s_rs s) rsv); [exact Bn|apply (ok_kick_room_session h rsv Bn)]. }
        destruct (if N.eqb rs 0 || N.eqb (s_rs s) rsv then (h, []) else kick_room_session h rsv) as [h1 outs1].
        cbn [fst snd] in *. destruct K as [B1 Q1]. cbn [fst snd] in B1, Q1.
        assert (Qreq : forall l, qouts l -> qouts (ToBackend (s_backend s, 1, 0, rn, (if N.eqb rs 0 then 2000000 + sid else rsv), 1) :: outs1 ++ l)).
        { intros l Ql. apply qouts_cons; [intros; discriminate|now apply qouts_app]. }
        destruct (get_sess h1 sid) as [s1|] eqn:Hs1.
        2:{ left. cbn [snd]. apply qouts_sat. rewrite <- (app_nil_r outs1). apply Qreq, qouts_nil. }
        destruct rep as [perms su|code].
        -- right. destruct (r0_core _ _ _ R0 s1 Hs1) as (s0 & Hs0 & [C0 _]). assert (s0 = s) by congruence. subst s0.
           assert (K1 : s_kind s1 = s_kind s).
           { destruct B1 as (Ss & _ & _). destruct (Ss sid s1 Hs1) as [[]|[(s0 & Hs0' & K0 & _)|(_ & C1 & _)]]; [|congruence].
             assert (s0 = s) by congruence. subst s0. exact K0. }
           assert (Hv1 : is_virtual (s_kind s1) = false) by congruence.
           assert (Hc1 : s_conn s1 = Some c) by congruence.
           destruct (join_room_outs h1 c sid (s_backend s, rn) rsv perms su s1 W1 Hs1 Hv1 Hc1) as (r' & Hr' & Sh).
           destruct (join_room h1 c sid (s_backend s, rn) rsv perms su) as [h2 outs2]. cbn [fst snd] in *.
           exists r'. split; [exact Hr'|].
           replace (ToBackend (s_backend s, 1, 0, rn, (if N.eqb rs 0 then 2000000 + sid else rsv), 1) :: outs1 ++ outs2)
             with ((ToBackend (s_backend s, 1, 0, rn, (if N.eqb rs 0 then 2000000 + sid else rsv), 1) :: outs1) ++ outs2 ++ []) by (rewrite app_nil_r; reflexivity).
           apply join_shape_wrap; [|apply qouts_nil|exact Sh]. apply qouts_cons; [intros; discriminate|exact Q1].
        -- left. pose proof (ok_send_session_nt h1 sid (SError code) eq_refl Bn1) as [_ S2].
           destruct (send_session h1 sid (SError code)) as [h2 outs]. cbn [fst snd] in *.
           apply sat_cons; [intros; discriminate|]. apply sat_app; [now apply qouts_sat|exact S2].
Qed.

Lemma revoke_rooms h sid : h_rooms (fst (revoke h sid)) = h_rooms h.
Proof. unfold revoke. destruct (get_sess h sid); reflexivity. Qed.

Definition join_writes (c rn : N) (R : hub * list out) : Prop :=
  trans_outs (snd R) = [] \/
  exists b d r', d <> [] /\ trans_outs (snd R) = [(c, TInit d)] /\ room_of (fst R) (b, rn) = Some r' /\ r_transient r' = d /\
                 exists pre post, snd R = pre ++ ToConn c (SRoom rn) :: post /\ trans_outs pre = [].

Lemma join_result_writes c b rn R : join_result c b rn R -> join_writes c rn R.
Proof.
  intros [S|(r' & Hr & Sh)]; [left; now apply sat_pf_trans|].
  pose proof (join_shape_trans _ _ _ _ Sh) as Tr. destruct (r_transient r') as [|e l] eqn:Hd; [now left|].
  right. exists b, (e :: l), r'. split; [discriminate|]. split; [exact Tr|]. split; [exact Hr|]. split; [exact Hd|].
  destruct Sh as (pre & post & Q & _ & E). exists pre. eexists. split; [exact E|now apply trans_outs_quiet].
Qed.

Lemma step_join_writes h g c rn rs rep : WF h -> BusNT h -> RI h g -> join_writes c rn (step h (OJoin c rn rs rep)).
Proof.
  intros W Bn I. cbn [step]. unfold with_session.
  destruct (aget (h_conns h) c) as [cn|] eqn:Ec; [|now left].
  destruct (c_sess cn) as [sid|] eqn:Es; [|now left].
  destruct (get_sess h sid) as [s|] eqn:Hs; [|now left].
  destruct (wf_conns _ _ h W c cn sid Ec Es) as (s0 & Hs0 & Hc). assert (s0 = s) by congruence. subst s0.
  assert (Hv : is_virtual (s_kind s) = false).
  { destruct (is_virtual (s_kind s)) eqn:V; [|reflexivity]. rewrite (ri_vconn _ _ _ _ (ri_sess _ _ I sid s Hs) V) in Hc. discriminate. }
  pose proof (do_join_shape h c sid s rn rs rep W Bn Hs Hc Hv) as J.
  destruct (do_join h c sid s rn rs rep) as [h1 o1].
  assert (Rv : join_result c (s_backend s) rn (fst (revoke h1 sid), o1 ++ snd (revoke h1 sid))).
  { pose proof (nr_revoke noex h1 h1 sid (nr_refl _ _)) as [_ Q2]. pose proof (revoke_rooms h1 sid) as Rr.
    destruct (revoke h1 sid) as [h2 o2]. cbn [fst snd] in *. destruct J as [S|(r' & Hr & Sh)].
    - left. cbn [snd] in *. apply sat_app; [exact S|now apply qouts_sat].
    - right. exists r'. cbn [fst snd] in *. split; [unfold room_of in *; now rewrite Rr|].
      change (o1 ++ o2) with ([] ++ o1 ++ o2). apply join_shape_wrap; [apply qouts_nil|exact Q2|exact Sh]. }
  apply (join_result_writes c (s_backend s)).
  destruct rep as [[p|] su|code]; try exact J.
  destruct (get_sess h1 sid) as [s1|]; [|exact J].
  destruct (negb (N.eqb rn 0) && negb (is_internal (s_kind s)) && opt_pair_eqb (s_room s1) (Some (s_backend s, rn)) &&
            negb (opt_pair_eqb (s_room s) (Some (s_backend s, rn)))); [|exact J].
  destruct (revoke h1 sid) as [h2 o2]. exact Rv.
Qed.
