(* General lemmas about lib/Decode.v (shared by the layers that decode by schema). *)
From Coq Require Import List ZArith String Bool Lia.
From Verif Require Import lib.Json lib.Decode.
Import ListNotations.
Open Scope string_scope.
Open Scope list_scope.

(* ---- association lists ------------------------------------------------------------------ *)
Lemma assoc_map_set_same : forall A k (v : A) m, assoc k (map_set k v m) = Some v.
Proof.
  intros A k v m. induction m as [|[k' v'] r IH]; cbn.
  - now rewrite String.eqb_refl.
  - destruct (String.eqb k k') eqn:E; cbn.
    + now rewrite String.eqb_refl.
    + now rewrite E.
Qed.

Lemma assoc_map_set_other : forall A k k' (v : A) m, k <> k' -> assoc k' (map_set k v m) = assoc k' m.
Proof.
  intros A k k' v m Hne. induction m as [|[k2 v2] r IH]; cbn.
  - destruct (String.eqb k' k) eqn:E; [apply String.eqb_eq in E; congruence | reflexivity].
  - destruct (String.eqb k k2) eqn:E; cbn.
    + apply String.eqb_eq in E; subst k2.
      destruct (String.eqb k' k) eqn:E2; [apply String.eqb_eq in E2; congruence | reflexivity].
    + destruct (String.eqb k' k2); [reflexivity | apply IH].
Qed.

(* ---- struct fields --------------------------------------------------------------------------- *)
Lemma fld_struct : forall n fs, fld n (GStruct fs) = match assoc n fs with Some x => x | None => GNil end.
Proof. reflexivity. Qed.

Lemma assoc_map_replace_same : forall n x (fs : list (string * gval)),
  assoc n (map (fun kv => if String.eqb n (fst kv) then (fst kv, x) else kv) fs) =
  match assoc n fs with Some _ => Some x | None => None end.
Proof.
  intros n x fs. induction fs as [|[k v] r IH]; [reflexivity|].
  cbn [map fst]. destruct (String.eqb n k) eqn:E; cbn [assoc fst]; rewrite E; [reflexivity | apply IH].
Qed.

Lemma assoc_map_replace_other : forall n m x (fs : list (string * gval)), n <> m ->
  assoc m (map (fun kv => if String.eqb n (fst kv) then (fst kv, x) else kv) fs) = assoc m fs.
Proof.
  intros n m x fs Hne. induction fs as [|[k v] r IH]; [reflexivity|].
  cbn [map fst]. destruct (String.eqb n k) eqn:E; cbn [assoc fst].
  - apply String.eqb_eq in E; subst k.
    destruct (String.eqb m n) eqn:E2; [apply String.eqb_eq in E2; congruence | apply IH].
  - destruct (String.eqb m k); [reflexivity | apply IH].
Qed.

(* reading back a field that was set: the new value, or nil when there is no such field *)
Lemma fld_sset_same : forall n x v, fld n (sset n x v) = x \/ fld n (sset n x v) = GNil.
Proof.
  intros n x v. destruct v; cbn; auto.
  rewrite assoc_map_replace_same. destruct (assoc n fs); auto.
Qed.

Lemma fld_sset_same_present : forall n x v, fld n v <> GNil -> fld n (sset n x v) = x.
Proof.
  intros n x v H. destruct v; cbn in *; try congruence.
  rewrite assoc_map_replace_same. destruct (assoc n fs); congruence.
Qed.

Lemma fld_sset_other : forall n m x v, n <> m -> fld m (sset n x v) = fld m v.
Proof.
  intros n m x v Hne. destruct v; cbn; auto. now rewrite assoc_map_replace_other.
Qed.

Lemma pset_not_nil : forall n x p, p <> GNil -> pset n x p <> GNil.
Proof. intros n x p H. destruct p; cbn; congruence. Qed.

Lemma deref_some_not_nil : forall v s, deref v = Some s -> v <> GNil.
Proof. intros v s H ->. discriminate. Qed.

Lemma deref_not_nil : forall v, v <> GNil -> deref v <> None.
Proof. intros v H. destruct v; cbn; congruence. Qed.

(* fields of *p after p.f = x *)
Lemma deref_pset : forall n x p s, deref p = Some s ->
  exists s', deref (pset n x p) = Some s' /\
             (fld n s' = x \/ fld n s' = GNil) /\
             (forall m, n <> m -> fld m s' = fld m s).
Proof.
  intros n x p s H.
  destruct p as [| b | z | j | s0 | r | j | l | m | v | fs]; cbn in H; try discriminate;
    inversion H; subst s; clear H; cbn [pset].
  all: try (eexists; split; [reflexivity|]; split; [cbn; auto | intros m' Hm; reflexivity]).
  - (* GPtr *) exists (sset n x v). split; [reflexivity|]. split; [apply fld_sset_same|].
    intros m' Hm. now apply fld_sset_other.
  - (* GStruct *) exists (sset n x (GStruct fs)). split; [reflexivity|]. split; [apply fld_sset_same|].
    intros m' Hm. now apply fld_sset_other.
Qed.

(* ---- the member loop ----------------------------------------------------------------------------- *)
Definition fname (f : string * string * gty) : string := fst (fst f).

Lemma decode_fields_names : forall fs cur ms vs,
  decode_fields fs cur ms = Ok vs -> map fst vs = map fname fs.
Proof.
  induction fs as [|[[gn jn] ft] fs' IH]; intros cur ms vs H; cbn in H.
  - inversion H; reflexivity.
  - destruct (decode_occs ft (nonnull_occurrences jn ms) (sget gn cur (zero ft))); [|discriminate].
    destruct (decode_fields fs' cur ms) eqn:E; [|discriminate].
    inversion H; subst vs. cbn. f_equal. eapply IH; eauto.
Qed.

(* the value of a field after a successful decode: its occurrences decoded in order *)
Lemma decode_fields_assoc : forall fs cur ms vs gn jn ft,
  decode_fields fs cur ms = Ok vs ->
  NoDup (map fname fs) ->
  In (gn, jn, ft) fs ->
  exists v, decode_occs ft (nonnull_occurrences jn ms) (sget gn cur (zero ft)) = Ok v /\ assoc gn vs = Some v.
Proof.
  induction fs as [|[[gn' jn'] ft'] fs' IH]; intros cur ms vs gn jn ft H Hnd Hin; [destruct Hin|].
  cbn in H.
  destruct (decode_occs ft' (nonnull_occurrences jn' ms) (sget gn' cur (zero ft'))) eqn:E1; [|discriminate].
  destruct (decode_fields fs' cur ms) eqn:E2; [|discriminate].
  inversion H; subst vs; clear H.
  cbn in Hnd. inversion Hnd as [|? ? Hnotin Hnd']; subst.
  destruct Hin as [Heq | Hin].
  - inversion Heq; subst. exists a. split; [assumption|]. cbn. now rewrite String.eqb_refl.
  - destruct (IH cur ms a0 gn jn ft E2 Hnd' Hin) as [v [Hv Ha]].
    exists v. split; [assumption|]. cbn.
    destruct (String.eqb gn gn') eqn:E.
    + apply String.eqb_eq in E; subst gn'. exfalso. apply Hnotin.
      change gn with (fname (gn, jn, ft)). now apply in_map.
    + assumption.
Qed.

(* an occurrence that cannot be decoded makes the whole object fail *)
Lemma decode_occs_err : forall ft vs c v,
  In v vs -> (forall c', exists e, decode ft c' v = Err e) -> exists e, decode_occs ft vs c = Err e.
Proof.
  induction vs as [|x r IH]; intros c v Hin Hbad; [destruct Hin|].
  cbn. destruct Hin as [-> | Hin].
  - destruct (Hbad c) as [e He]. rewrite He. eauto.
  - destruct (decode ft c x); [eapply IH; eauto | eauto].
Qed.

Lemma decode_fields_err : forall fs cur ms gn jn ft v,
  In (gn, jn, ft) fs -> In v (nonnull_occurrences jn ms) ->
  (forall c', exists e, decode ft c' v = Err e) ->
  exists e, decode_fields fs cur ms = Err e.
Proof.
  induction fs as [|[[gn' jn'] ft'] fs' IH]; intros cur ms gn jn ft v Hin Hv Hbad; [destruct Hin|].
  cbn. destruct Hin as [Heq | Hin].
  - inversion Heq; subst.
    destruct (decode_occs_err ft (nonnull_occurrences jn ms) (sget gn cur (zero ft)) v Hv Hbad) as [e He].
    rewrite He. eauto.
  - destruct (decode_occs ft' (nonnull_occurrences jn' ms) (sget gn' cur (zero ft'))); [|eauto].
    destruct (IH cur ms gn jn ft v Hin Hv Hbad) as [e He]. rewrite He. eauto.
Qed.

(* no (non-null) occurrence: the field keeps what it had *)
Lemma decode_occs_nil : forall ft c, decode_occs ft [] c = Ok c.
Proof. reflexivity. Qed.

(* types whose decoder ignores the previous value: the last occurrence decides *)
Definition replacing (t : gty) : Prop := forall c c' j, decode t c j = decode t c' j.

Lemma decode_occs_last : forall ft vs x c v,
  replacing ft -> decode_occs ft (vs ++ [x]) c = Ok v -> decode ft c x = Ok v.
Proof.
  intros ft vs x c v Hrep. revert c. induction vs as [|y r IH]; intros c H; cbn in H.
  - destruct (decode ft c x); [assumption | discriminate].
  - destruct (decode ft c y) as [c'|] eqn:E; [|discriminate].
    apply IH in H. now rewrite (Hrep c c').
Qed.

Lemma replacing_string : replacing TString.
Proof. intros c c' j; reflexivity. Qed.
Lemma replacing_raw : replacing TRaw.
Proof. intros c c' j; reflexivity. Qed.
Lemma replacing_bool : replacing TBool.
Proof. intros c c' j; reflexivity. Qed.

(* last_nonnull in terms of a split of the occurrence list *)
Lemma last_nonnull_split : forall k ms x,
  last_nonnull k ms = Some x -> exists vs, nonnull_occurrences k ms = vs ++ [x].
Proof.
  intros k ms x H. unfold last_nonnull in H.
  destruct (rev (nonnull_occurrences k ms)) as [|y r] eqn:E; [discriminate|].
  inversion H; subst y. exists (rev r).
  rewrite <- (rev_involutive (nonnull_occurrences k ms)), E. reflexivity.
Qed.

Lemma last_nonnull_none : forall k ms, last_nonnull k ms = None -> nonnull_occurrences k ms = [].
Proof.
  intros k ms H. unfold last_nonnull in H.
  destruct (rev (nonnull_occurrences k ms)) as [|y r] eqn:E; [|discriminate].
  rewrite <- (rev_involutive (nonnull_occurrences k ms)), E. reflexivity.
Qed.

Lemma last_nonnull_in : forall k ms x, last_nonnull k ms = Some x -> In x (nonnull_occurrences k ms).
Proof.
  intros k ms x H. destruct (last_nonnull_split _ _ _ H) as [vs ->]. apply in_or_app; right; now left.
Qed.

(* wrong kinds *)
Lemma decode_string_err : forall c j, is_string j = false -> exists e, decode TString c j = Err e.
Proof. intros c j H. destruct j; cbn in *; try discriminate; eauto. Qed.

Lemma decode_ptr_struct_err : forall fs c j, is_object j = false -> is_null j = false ->
  exists e, decode (TPtr (TStruct fs)) c j = Err e.
Proof. intros fs c j H1 H2. destruct j; cbn in *; try discriminate; eauto. Qed.

Lemma std_string_list_bad : forall l,
  existsb (fun x => negb (is_string x || is_null x)) l = true -> std_string_list l = None.
Proof.
  induction l as [|x r IH]; intros H; [discriminate|].
  cbn in H. apply orb_prop in H as [H|H].
  - destruct x; cbn in H; try discriminate; reflexivity.
  - specialize (IH H). destruct x; cbn; try reflexivity; now rewrite IH.
Qed.


(* ---- the shape rules as lemmas ------------------------------------------------------------------
   The result depends on the document only through the non-null values stored
   under the JSON names of the schema: unknown members and null members are
   ignored (whatever their value / name), names are compared exactly. *)
Lemma decode_fields_ext : forall fs cur ms ms',
  (forall gn jn ft, In (gn, jn, ft) fs -> nonnull_occurrences jn ms = nonnull_occurrences jn ms') ->
  decode_fields fs cur ms = decode_fields fs cur ms'.
Proof.
  induction fs as [|[[gn jn] ft] r IH]; intros cur ms ms' H; [reflexivity|].
  cbn [decode_fields]. rewrite (H gn jn ft (or_introl eq_refl)).
  rewrite (IH cur ms ms'); [reflexivity|]. intros gn' jn' ft' Hin. eapply H. right. exact Hin.
Qed.

Lemma nonnull_occurrences_cons_other : forall k k' v ms, String.eqb k k' = false ->
  nonnull_occurrences k ((k', v) :: ms) = nonnull_occurrences k ms.
Proof. intros. unfold nonnull_occurrences, occurrences. cbn. now rewrite H. Qed.

Lemma nonnull_occurrences_cons_null : forall k k' ms,
  nonnull_occurrences k ((k', JNull) :: ms) = nonnull_occurrences k ms.
Proof. intros. unfold nonnull_occurrences, occurrences. cbn. destruct (String.eqb k k'); reflexivity. Qed.

(* a member whose name is not a JSON name of the schema (this includes names that
   differ only in case) does not matter *)
Lemma decode_unknown_member_ignored : forall fs cur k v ms,
  (forall gn jn ft, In (gn, jn, ft) fs -> String.eqb jn k = false) ->
  decode (TStruct fs) cur (JObj ((k, v) :: ms)) = decode (TStruct fs) cur (JObj ms).
Proof.
  intros fs cur k v ms H. rewrite !decode_struct_obj.
  rewrite (decode_fields_ext fs cur ((k, v) :: ms) ms); [reflexivity|].
  intros gn jn ft Hin. apply nonnull_occurrences_cons_other. eapply H; eauto.
Qed.

(* a null member does not matter, whatever its name *)
Lemma decode_null_member_ignored : forall fs cur k ms,
  decode (TStruct fs) cur (JObj ((k, JNull) :: ms)) = decode (TStruct fs) cur (JObj ms).
Proof.
  intros fs cur k ms. rewrite !decode_struct_obj.
  rewrite (decode_fields_ext fs cur ((k, JNull) :: ms) ms); [reflexivity|].
  intros gn jn ft Hin. apply nonnull_occurrences_cons_null.
Qed.

(* null in place of a struct: the value is left as it is, without error (top level too) *)
Lemma decode_null_struct : forall fs cur, decode (TStruct fs) cur JNull = Ok cur.
Proof. reflexivity. Qed.

(* integers: integer literal inside the range of the type, nothing else *)
Lemma decode_int_spec : forall lo hi cur j v, decode (TInt lo hi) cur j = Ok v ->
  exists z, j = JNum z /\ v = GInt z /\ (lo <= z <= hi)%Z.
Proof.
  intros lo hi cur j v H. destruct j; cbn in H; try discriminate.
  destruct ((lo <=? z) && (z <=? hi))%Z eqn:E; [|discriminate].
  apply andb_prop in E as [E1 E2]. apply Z.leb_le in E1, E2. inversion H. exists z. repeat split; lia.
Qed.

(* json.RawMessage keeps the value *)
Lemma decode_raw_spec : forall cur j, decode TRaw cur j = Ok (GRaw (Some j)).
Proof. reflexivity. Qed.
