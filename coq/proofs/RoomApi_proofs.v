From Coq Require Import List ZArith String Bool.
From Verif Require Import lib.Json lib.Decode model.RoomApi corr.Run_C11.
Lemma stub : True. Proof. exact I. Qed.
